(* C17 — what a copy has to be: a graph isomorphism onto fresh locations,
   the executable checker for it, reachability, the read-only observation
   language and the mutation steps used by the isolation theorem. *)
From Coq Require Import List ZArith Bool.
From Otto Require Import C17.Model.
Import ListNotations.
Open Scope Z_scope.

Definition keys {A} (m : list (Z * A)) : list Z := map fst m.
Definition vals {A} (m : list (Z * A)) : list A := map snd m.

(* phi is a graph isomorphism from the part of h it covers onto h':
   injective, functional, closed under outgoing references, and the image of
   every covered cell is that cell with every reference renamed by phi *)
Definition iso (h h' : heap) (phi : list (loc * loc)) : Prop :=
  NoDup (keys phi) /\ NoDup (vals phi) /\
  forall l l', In (l, l') phi ->
    exists c, lookup h l = Some c /\
              (forall r, In r (refs_cell c) -> In r (keys phi)) /\
              lookup h' l' = Some (map_cell (app_memo phi) c).

(* the copy lives in locations the original does not use *)
Definition disjoint (h h' : heap) : Prop := forall l, In l (keys h) -> ~ In l (keys h').

(* reachability in a store *)
Inductive reach (h : heap) (roots : list loc) : loc -> Prop :=
| reach_root : forall l, In l roots -> reach h roots l
| reach_step : forall l c r, reach h roots l -> lookup h l = Some c -> In r (refs_cell c) -> reach h roots r.

(* ---- executable checker ---- *)
Definition mem (x : Z) (l : list Z) : bool := existsb (Z.eqb x) l.

Fixpoint nodupb (l : list Z) : bool :=
  match l with
  | [] => true
  | x :: l' => negb (mem x l') && nodupb l'
  end.

Definition val_eq_dec : forall a b : val, {a = b} + {a <> b}.
Proof. decide equality; apply Z.eq_dec. Defined.
Definition optloc_eq_dec : forall a b : option loc, {a = b} + {a <> b}.
Proof. decide equality; apply Z.eq_dec. Defined.
Definition prop_eq_dec : forall a b : prop, {a = b} + {a <> b}.
Proof. decide equality; try apply Z.eq_dec; try apply optloc_eq_dec; apply val_eq_dec. Defined.
Definition payload_eq_dec : forall a b : payload, {a = b} + {a <> b}.
Proof.
  decide equality; try apply Z.eq_dec; try apply optloc_eq_dec; try apply val_eq_dec;
    try (apply list_eq_dec; apply val_eq_dec); try (apply list_eq_dec; apply Z.eq_dec).
Defined.
Definition nprop_eq_dec : forall a b : Z * prop, {a = b} + {a <> b}.
Proof. decide equality; [apply prop_eq_dec | apply Z.eq_dec]. Defined.
Definition obj_eq_dec : forall a b : obj, {a = b} + {a <> b}.
Proof.
  decide equality; try apply payload_eq_dec; try apply Bool.bool_dec; try apply Z.eq_dec;
    try apply optloc_eq_dec; apply list_eq_dec; apply nprop_eq_dec.
Defined.
Definition dclprop_eq_dec : forall a b : dclprop, {a = b} + {a <> b}.
Proof.
  intros [[n v] m] [[n' v'] m'].
  destruct (Z.eq_dec n n'); [|right; congruence].
  destruct (val_eq_dec v v'); [|right; congruence].
  destruct (Z.eq_dec m m'); [left; congruence | right; congruence].
Defined.
Definition zz_eq_dec : forall a b : Z * Z, {a = b} + {a <> b}.
Proof. decide equality; apply Z.eq_dec. Defined.
Definition cell_eq_dec : forall a b : cell, {a = b} + {a <> b}.
Proof.
  decide equality; try apply optloc_eq_dec; try apply Z.eq_dec; try apply obj_eq_dec;
    try (apply list_eq_dec; apply dclprop_eq_dec); try (apply list_eq_dec; apply zz_eq_dec).
Defined.
Definition cell_eqb (a b : cell) : bool := if cell_eq_dec a b then true else false.

Definition check_entry (h h' : heap) (phi : list (loc * loc)) (e : loc * loc) : bool :=
  match lookup h (fst e), lookup h' (snd e) with
  | Some c, Some c' =>
      forallb (fun r => mem r (keys phi)) (refs_cell c) && cell_eqb (map_cell (app_memo phi) c) c'
  | _, _ => false
  end.

Definition check_disjoint (h h' : heap) : bool :=
  forallb (fun l => negb (mem l (keys h'))) (keys h).

Definition check_iso (h h' : heap) (phi : list (loc * loc)) : bool :=
  nodupb (keys phi) && nodupb (vals phi) && forallb (check_entry h h' phi) phi && check_disjoint h h'.

(* ---- read-only observation programs ----
   A path navigates from a root along outgoing references (by position in the
   cell's reference list); an observation reads the non-reference content at
   the end of a path (the cell with every reference erased) or compares the
   ends of two paths for identity.  This is what a script without side effects
   can find out about its heap: property values, attributes, order, prototype,
   payload, captured variables, and which of them are the same object. *)
Fixpoint walk (h : heap) (l : loc) (p : list nat) : option loc :=
  match p with
  | [] => Some l
  | i :: p' =>
      match lookup h l with
      | Some c => match nth_error (refs_cell c) i with
                  | Some r => walk h r p'
                  | None => None
                  end
      | None => None
      end
  end.

Definition shape (c : cell) : cell := map_cell (fun _ => 0) c.

Inductive query :=
| QShape (root : nat) (p : list nat)                     (* non-reference content at the end of p *)
| QSame (root1 : nat) (p1 : list nat) (root2 : nat) (p2 : list nat).   (* do two paths end at the same object *)

Inductive answer :=
| AShape (c : option cell)
| ASame (b : option bool).

Definition walk_root (h : heap) (roots : list loc) (i : nat) (p : list nat) : option loc :=
  match nth_error roots i with Some r => walk h r p | None => None end.

Definition observe (h : heap) (roots : list loc) (q : query) : answer :=
  match q with
  | QShape i p =>
      AShape (match walk_root h roots i p with
              | Some l => option_map shape (lookup h l)
              | None => None
              end)
  | QSame i p j q =>
      ASame (match walk_root h roots i p, walk_root h roots j q with
             | Some a, Some b => Some (a =? b)
             | _, _ => None
             end)
  end.

(* ---- mutation steps of one runtime inside the common Go address space ----
   Two runtimes live in one store (the union of their heaps).  A step of the
   runtime that owns region D overwrites a cell of D or allocates a location
   nobody uses, and what it writes can only refer to D or to that new location
   (a script can only store references it can get hold of). *)
Fixpoint update (h : heap) (l : loc) (c : cell) : heap :=
  match h with
  | [] => [(l, c)]
  | (k, c0) :: h' => if l =? k then (k, c) :: h' else (k, c0) :: update h' l c
  end.

Definition closed (h : heap) (D : list loc) : Prop :=
  forall l c r, In l D -> lookup h l = Some c -> In r (refs_cell c) -> In r D.

Definition step_ok (h : heap) (D : list loc) (l : loc) (c : cell) : Prop :=
  (In l D \/ ~ In l (keys h)) /\ forall r, In r (refs_cell c) -> In r D \/ r = l.

(* the runtime record of a copy: every heap reference renamed, the host settings as they were *)
Definition rename_rt (f : loc -> loc) (rt : runtime) : runtime :=
  mkRt (f (rt_global rt)) (map f (rt_fields rt)) (f (rt_eval rt)) (rt_cfg rt).
