(* C17 — the heap graph of an otto runtime and the memoising cloner of
   clone.go / object_class.go objectClone / stash.go Stash.clone /
   type_arguments.go argumentsObject.clone, as a fuelled depth-first search.

   Locations are Go pointers (to object, dclStash, fnStash, objectStash)
   abstracted to integers; pointers of different Go types are different
   locations, so the four memo tables of `cloner` are one association list
   here.  Everything that is not a pointer into the heap (property names,
   attribute modes, primitive values, the AST node of a function, the Go code
   pointer of a native function, time value of a Date, ...) is an opaque
   integer that the cloner copies. *)
From Coq Require Import List ZArith Bool.
Import ListNotations.
Open Scope Z_scope.

Definition loc := Z.

Inductive val :=
| VPrim (tag d : Z)            (* undefined/null/boolean/number/string, by type tag and datum *)
| VRef (l : loc).              (* Value{kind: valueObject, value: *object} *)

Inductive prop :=
| PData (v : val) (mode : Z)                  (* property{value: Value, mode} *)
| PAcc (g s : option loc) (mode : Z).         (* property{value: propertyGetSet{g, s}, mode} *)

Inductive payload :=
| PNone
| PNative (code : Z)                                        (* nativeFunctionObject: Go code, copied *)
| PBound (target : loc) (this : val) (args : list val)     (* bindFunctionObject *)
| PFun (node : Z) (stash : option loc)                      (* nodeFunctionObject{node, stash} *)
| PArgs (stash : option loc) (names : list Z)               (* argumentsObject{stash, indexOfParameterName} *)
| PDate (t : Z)
| PRegexp (src : Z)
| PString (s : Z)
| PPrim (tag d : Z).                                        (* Boolean/Number wrapper *)

Record obj := mkObj {
  o_proto : option loc;
  o_props : list (Z * prop);       (* in propertyOrder *)
  o_class : Z;
  o_ext : bool;
  o_pay : payload }.

Definition dclprop := (Z * val * Z)%type.   (* name, value, mutable/deletable/readable bits *)

Inductive cell :=
| CObj (o : obj)
| CDcl (outer : option loc) (vars : list dclprop)                                  (* dclStash *)
| CFn (outer : option loc) (vars : list dclprop) (args : option loc) (idx : list (Z * Z))  (* fnStash *)
| CObjStash (outer : option loc) (o : loc).                                        (* objectStash *)

Definition heap := list (loc * cell).

Fixpoint lookup {A} (m : list (Z * A)) (k : Z) : option A :=
  match m with
  | [] => None
  | (k', a) :: m' => if k =? k' then Some a else lookup m' k
  end.

(* ---- outgoing references, in the order in which the Go code visits them ---- *)
Definition refs_val (v : val) : list loc := match v with VRef l => [l] | VPrim _ _ => [] end.
Definition refs_opt (o : option loc) : list loc := match o with Some l => [l] | None => [] end.
Definition refs_prop (p : prop) : list loc :=
  match p with
  | PData v _ => refs_val v
  | PAcc g s _ => refs_opt g ++ refs_opt s
  end.
Definition refs_props (ps : list (Z * prop)) : list loc := flat_map (fun np => refs_prop (snd np)) ps.
Definition refs_vals (vs : list val) : list loc := flat_map refs_val vs.
Definition refs_vars (vs : list dclprop) : list loc := flat_map (fun x => refs_val (snd (fst x))) vs.
Definition refs_payload (p : payload) : list loc :=
  match p with
  | PBound t this args => t :: refs_val this ++ refs_vals args
  | PFun _ st => refs_opt st
  | PArgs st _ => refs_opt st
  | _ => []
  end.
Definition refs_cell (c : cell) : list loc :=
  match c with
  | CObj o => refs_opt (o_proto o) ++ refs_props (o_props o) ++ refs_payload (o_pay o)
  | CDcl outer vars => refs_vars vars ++ refs_opt outer
  | CFn outer vars args _ => refs_vars vars ++ refs_opt outer ++ refs_opt args
  | CObjStash outer o => refs_opt outer ++ [o]
  end.

(* ---- renaming of every reference of a cell ---- *)
Definition map_val (f : loc -> loc) (v : val) : val :=
  match v with VRef l => VRef (f l) | VPrim t d => VPrim t d end.
Definition map_prop (f : loc -> loc) (p : prop) : prop :=
  match p with
  | PData v m => PData (map_val f v) m
  | PAcc g s m => PAcc (option_map f g) (option_map f s) m
  end.
Definition map_payload (f : loc -> loc) (p : payload) : payload :=
  match p with
  | PBound t this args => PBound (f t) (map_val f this) (map (map_val f) args)
  | PFun n st => PFun n (option_map f st)
  | PArgs st names => PArgs (option_map f st) names
  | other => other
  end.
Definition map_var (f : loc -> loc) (x : dclprop) : dclprop :=
  match x with (n, v, m) => (n, map_val f v, m) end.
Definition map_obj (f : loc -> loc) (o : obj) : obj :=
  mkObj (option_map f (o_proto o))
        (map (fun np => (fst np, map_prop f (snd np))) (o_props o))
        (o_class o) (o_ext o) (map_payload f (o_pay o)).
Definition map_cell (f : loc -> loc) (c : cell) : cell :=
  match c with
  | CObj o => CObj (map_obj f o)
  | CDcl outer vars => CDcl (option_map f outer) (map (map_var f) vars)
  | CFn outer vars args idx => CFn (option_map f outer) (map (map_var f) vars) (option_map f args) idx
  | CObjStash outer o => CObjStash (option_map f outer) (f o)
  end.

(* a memo table used as a renaming; anything not in the table is left as it is
   (that is what "copied by reference" would mean) *)
Definition app_memo (m : list (loc * loc)) (l : loc) : loc :=
  match lookup m l with Some l' => l' | None => l end.

(* ---- the cloner ---- *)
Record st := mkSt { out : heap; memo : list (loc * loc); next : loc }.

Inductive res :=
| Ok (s : st)
| Fuel          (* model ran out of fuel: declined *)
| Panic.        (* Go nil dereference: the copy is not produced *)

Fixpoint clone_list (self : loc -> st -> res) (ls : list loc) (s : st) : res :=
  match ls with
  | [] => Ok s
  | l :: ls' => match self l s with
                | Ok s1 => clone_list self ls' s1
                | e => e
                end
  end.

(* cloner.object / cloner.dclStash / ... : look the pointer up in the memo table;
   if absent allocate the copy, enter it in the table BEFORE descending (that is
   what terminates cycles), clone everything the cell refers to, then fill the
   copy with the renamed cell.  Absent fields (nil prototype, getter, setter, outer
   stash, and since 4582d68 the arguments object of a function stash whose
   function has a parameter named `arguments`) are not references and are copied
   as absent; the only way not to return is a dangling pointer. *)
Definition step (h : heap) (self : loc -> st -> res) (l : loc) (s : st) : res :=
  match lookup (memo s) l with
  | Some _ => Ok s
  | None =>
      match lookup h l with
      | None => Panic
      | Some c =>
          let l' := next s in
          match clone_list self (refs_cell c) (mkSt (out s) ((l, l') :: memo s) (next s + 1)) with
          | Ok s2 => Ok (mkSt ((l', map_cell (app_memo (memo s2)) c) :: out s2) (memo s2) (next s2))
          | e => e
          end
      end
  end.

Fixpoint clone_loc (h : heap) (fuel : nat) (l : loc) (s : st) : res :=
  match fuel with
  | O => Fuel
  | S n => step h (clone_loc h n) l s
  end.

Definition init (n0 : loc) : st := mkSt [] [] n0.

(* the cloner applied to a list of roots, left to right, with one memo table *)
Definition clone_roots (h : heap) (fuel : nat) (roots : list loc) (n0 : loc) : res :=
  clone_list (clone_loc h fuel) roots (init n0).

(* ---- the runtime record around the heap ---- *)
(* rt_cfg: the host settings of the runtime that are not heap references and that
   runtime.clone copies verbatim (debugger handler, random source, stack depth limit,
   stack trace limit), as opaque integers *)
Record runtime := mkRt { rt_global : loc; rt_fields : list loc; rt_eval : loc; rt_cfg : list Z }.

Inductive rres :=
| ROk (h' : heap) (phi : list (loc * loc)) (rt' : runtime)
| RFuel
| RPanic.

(* clone.go runtime.clone (since 1f3ee72): the global object, the 32 fields of rt.global,
   then out.eval = c.object(rt.eval): the direct-eval intrinsic is the runtime's own
   record, cloned and renamed like every other field, whatever the global property
   named eval holds at the time *)
Definition clone_runtime (h : heap) (fuel : nat) (rt : runtime) (n0 : loc) : rres :=
  match clone_roots h fuel (rt_global rt :: rt_fields rt ++ [rt_eval rt]) n0 with
  | Ok s =>
      let f := app_memo (memo s) in
      ROk (out s) (memo s) (mkRt (f (rt_global rt)) (map f (rt_fields rt)) (f (rt_eval rt)) (rt_cfg rt))
  | Fuel => RFuel
  | Panic => RPanic
  end.
