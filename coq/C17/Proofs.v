(* C17 — proofs that do not depend on the cloner: soundness of the checker,
   observational equivalence of isomorphic heaps, frame/isolation. *)
From Coq Require Import List ZArith Bool Lia.
From Otto Require Import C17.Model C17.Spec.
Import ListNotations.
Open Scope Z_scope.

(* ---------- association lists ---------- *)
Lemma lookup_In : forall A (m : list (Z * A)) k v, lookup m k = Some v -> In (k, v) m.
Proof.
  induction m as [|[k' a] m IH]; intros k v H; [discriminate|].
  cbn [lookup] in H. destruct (Z.eqb_spec k k').
  - inversion H; subst. now left.
  - right. now apply IH.
Qed.

Lemma lookup_None : forall A (m : list (Z * A)) k, lookup m k = None -> ~ In k (keys m).
Proof.
  induction m as [|[k' a] m IH]; intros k H; [intros []|].
  cbn [lookup] in H. destruct (Z.eqb_spec k k'); [discriminate|].
  intros [E | E]; [cbn in E; congruence | now apply (IH k)].
Qed.

Lemma In_lookup_nodup : forall A (m : list (Z * A)) k v,
  NoDup (keys m) -> In (k, v) m -> lookup m k = Some v.
Proof.
  induction m as [|[k' a] m IH]; intros k v ND H; [destruct H|].
  cbn [lookup]. cbn in ND. inversion ND as [|? ? Hn ND']; subst.
  destruct H as [H | H].
  - inversion H; subst. now rewrite Z.eqb_refl.
  - destruct (Z.eqb_spec k k').
    + subst. exfalso. apply Hn. change (In (fst (k', v)) (map fst m)). now apply in_map.
    + now apply IH.
Qed.

Lemma In_keys_lookup : forall A (m : list (Z * A)) k, In k (keys m) -> exists v, lookup m k = Some v.
Proof.
  induction m as [|[k' a] m IH]; intros k H; [destruct H|].
  cbn [lookup]. destruct (Z.eqb_spec k k'); [eauto|].
  destruct H as [H | H]; [cbn in H; congruence | now apply IH].
Qed.

Lemma lookup_Some_keys : forall A (m : list (Z * A)) k v, lookup m k = Some v -> In k (keys m).
Proof.
  intros. apply lookup_In in H. change (In (fst (k, v)) (map fst m)). now apply in_map.
Qed.

Lemma app_memo_In : forall phi l l', NoDup (keys phi) -> In (l, l') phi -> app_memo phi l = l'.
Proof. intros. unfold app_memo. now rewrite (In_lookup_nodup _ _ _ _ H H0). Qed.

Lemma app_memo_vals : forall phi l, In l (keys phi) -> In (l, app_memo phi l) phi.
Proof.
  intros phi l H. destruct (In_keys_lookup _ _ _ H) as [v E].
  unfold app_memo. rewrite E. now apply lookup_In.
Qed.

Lemma app_memo_inj : forall phi a b,
  NoDup (vals phi) -> In a (keys phi) -> In b (keys phi) ->
  app_memo phi a = app_memo phi b -> a = b.
Proof.
  intros phi a b ND Ha Hb E.
  apply app_memo_vals in Ha. apply app_memo_vals in Hb. rewrite E in Ha.
  revert ND Ha Hb. generalize (app_memo phi b) as v. clear E.
  induction phi as [|[k w] phi IH]; intros v ND Ha Hb; [destruct Ha|].
  cbn in ND. inversion ND as [|? ? Hn ND']; subst.
  destruct Ha as [Ha | Ha], Hb as [Hb | Hb].
  - congruence.
  - inversion Ha; subst. exfalso. apply Hn. change (In (snd (b, v)) (map snd phi)). now apply in_map.
  - inversion Hb; subst. exfalso. apply Hn. change (In (snd (a, v)) (map snd phi)). now apply in_map.
  - eapply IH; eauto.
Qed.

(* ---------- boolean helpers ---------- *)
Lemma mem_In : forall x l, mem x l = true <-> In x l.
Proof.
  intros x l. unfold mem. rewrite existsb_exists. split.
  - intros [y [Hy E]]. apply Z.eqb_eq in E. now subst.
  - intros H. exists x. split; [assumption | apply Z.eqb_refl].
Qed.

Lemma nodupb_NoDup : forall l, nodupb l = true -> NoDup l.
Proof.
  induction l as [|x l IH]; intros H; [constructor|].
  cbn [nodupb] in H. apply andb_true_iff in H as [H1 H2].
  constructor; [|now apply IH].
  intros Hin. apply mem_In in Hin. rewrite Hin in H1. discriminate.
Qed.

Lemma cell_eqb_eq : forall a b, cell_eqb a b = true -> a = b.
Proof. intros a b. unfold cell_eqb. destruct (cell_eq_dec a b); [auto | discriminate]. Qed.

(* ---------- the checker is sound ---------- *)
Theorem check_iso_sound : forall h h' phi,
  check_iso h h' phi = true -> iso h h' phi /\ disjoint h h'.
Proof.
  intros h h' phi H. unfold check_iso in H.
  apply andb_true_iff in H as [H Hd]. apply andb_true_iff in H as [H He].
  apply andb_true_iff in H as [Hk Hv].
  split.
  - split; [now apply nodupb_NoDup|]. split; [now apply nodupb_NoDup|].
    intros l l' Hin. rewrite forallb_forall in He. specialize (He _ Hin).
    unfold check_entry in He. cbn [fst snd] in He.
    destruct (lookup h l) as [c|]; [|discriminate].
    destruct (lookup h' l') as [c'|]; [|discriminate].
    apply andb_true_iff in He as [Hr Hc]. exists c. split; [reflexivity|]. split.
    + intros r Hr'. rewrite forallb_forall in Hr. apply mem_In. now apply Hr.
    + apply cell_eqb_eq in Hc. now rewrite Hc.
  - intros l Hl. unfold check_disjoint in Hd. rewrite forallb_forall in Hd.
    specialize (Hd _ Hl). intros Hin. apply mem_In in Hin. rewrite Hin in Hd. discriminate.
Qed.

(* ---------- references of a renamed cell ---------- *)
Lemma refs_map_val : forall f v, refs_val (map_val f v) = map f (refs_val v).
Proof. now destruct v. Qed.
Lemma refs_map_opt : forall f o, refs_opt (option_map f o) = map f (refs_opt o).
Proof. now destruct o. Qed.
Lemma refs_map_prop : forall f p, refs_prop (map_prop f p) = map f (refs_prop p).
Proof.
  destruct p; cbn [map_prop refs_prop].
  - apply refs_map_val.
  - now rewrite map_app, !refs_map_opt.
Qed.
Lemma refs_map_props : forall f ps,
  refs_props (map (fun np => (fst np, map_prop f (snd np))) ps) = map f (refs_props ps).
Proof.
  induction ps as [|[n p] ps IH]; [reflexivity|].
  unfold refs_props in *. cbn [map flat_map fst snd]. now rewrite map_app, IH, refs_map_prop.
Qed.
Lemma refs_map_vals : forall f vs, refs_vals (map (map_val f) vs) = map f (refs_vals vs).
Proof.
  induction vs as [|v vs IH]; [reflexivity|].
  unfold refs_vals in *. cbn [map flat_map]. now rewrite map_app, IH, refs_map_val.
Qed.
Lemma refs_map_vars : forall f vs, refs_vars (map (map_var f) vs) = map f (refs_vars vs).
Proof.
  induction vs as [|[[n v] m] vs IH]; [reflexivity|].
  unfold refs_vars in *. cbn [map flat_map map_var fst snd]. now rewrite map_app, IH, refs_map_val.
Qed.
Lemma refs_map_payload : forall f p, refs_payload (map_payload f p) = map f (refs_payload p).
Proof.
  destruct p; cbn [map_payload refs_payload map]; try reflexivity.
  - now rewrite map_app, refs_map_val, refs_map_vals.
  - apply refs_map_opt.
  - apply refs_map_opt.
Qed.
Lemma refs_map_cell : forall f c, refs_cell (map_cell f c) = map f (refs_cell c).
Proof.
  destruct c as [o | outer vars | outer vars args idx | outer o]; cbn [map_cell refs_cell].
  - destruct o as [pr ps cl ex pay]. unfold map_obj, o_proto, o_props, o_pay.
    now rewrite !map_app, refs_map_opt, refs_map_props, refs_map_payload.
  - now rewrite map_app, refs_map_vars, refs_map_opt.
  - now rewrite !map_app, refs_map_vars, !refs_map_opt.
  - now rewrite map_app, refs_map_opt.
Qed.

(* renaming twice is renaming by the composition *)
Lemma map_val_comp : forall f g v, map_val g (map_val f v) = map_val (fun x => g (f x)) v.
Proof. now destruct v. Qed.
Lemma option_map_comp : forall (f g : loc -> loc) o, option_map g (option_map f o) = option_map (fun x => g (f x)) o.
Proof. now destruct o. Qed.
Lemma map_cell_comp : forall f g c, map_cell g (map_cell f c) = map_cell (fun x => g (f x)) c.
Proof.
  assert (Hvars : forall f g vs, map (map_var g) (map (map_var f) vs) = map (map_var (fun x => g (f x))) vs).
  { intros. rewrite map_map. apply map_ext. intros [[n v] m]. cbn [map_var]. now rewrite map_val_comp. }
  destruct c as [o | outer vars | outer vars args idx | outer o]; cbn [map_cell].
  - f_equal. destruct o as [pr ps cl ex pay]. unfold map_obj, o_proto, o_props, o_class, o_ext, o_pay.
    f_equal.
    + apply option_map_comp.
    + rewrite map_map. apply map_ext. intros [n p]. cbn [fst snd]. f_equal.
      destruct p; cbn [map_prop]; now rewrite ?map_val_comp, ?option_map_comp.
    + destruct pay; cbn [map_payload]; try reflexivity.
      * rewrite map_val_comp, map_map. f_equal. apply map_ext. intro. apply map_val_comp.
      * now rewrite option_map_comp.
      * now rewrite option_map_comp.
  - now rewrite option_map_comp, Hvars.
  - now rewrite !option_map_comp, Hvars.
  - now rewrite option_map_comp.
Qed.

Lemma shape_map_cell : forall f c, shape (map_cell f c) = shape c.
Proof. intros. unfold shape. now rewrite map_cell_comp. Qed.

(* ---------- isomorphic heaps answer every observation program alike ---------- *)
Lemma walk_iso : forall h h' phi, iso h h' phi ->
  forall p l, In l (keys phi) ->
    match walk h l p with
    | Some r => In r (keys phi) /\ walk h' (app_memo phi l) p = Some (app_memo phi r)
    | None => walk h' (app_memo phi l) p = None
    end.
Proof.
  intros h h' phi (NDk & NDv & Hiso).
  induction p as [|i p IH]; intros l Hl; cbn [walk].
  - split; [assumption | reflexivity].
  - pose proof (app_memo_vals _ _ Hl) as Hin.
    destruct (Hiso _ _ Hin) as (c & Hc & Hrefs & Hc').
    rewrite Hc, Hc'. rewrite refs_map_cell, nth_error_map.
    destruct (nth_error (refs_cell c) i) as [r|] eqn:E; cbn [option_map]; [|reflexivity].
    apply IH. apply Hrefs. eapply nth_error_In; eauto.
Qed.

Theorem iso_observational_equiv : forall h h' phi roots q,
  iso h h' phi -> (forall r, In r roots -> In r (keys phi)) ->
  observe h' (map (app_memo phi) roots) q = observe h roots q.
Proof.
  intros h h' phi roots q Hiso Hroots.
  assert (W : forall i p,
    match walk_root h roots i p with
    | Some r => In r (keys phi) /\ walk_root h' (map (app_memo phi) roots) i p = Some (app_memo phi r)
    | None => walk_root h' (map (app_memo phi) roots) i p = None
    end).
  { intros i p. unfold walk_root, loc in *. rewrite nth_error_map.
    destruct (nth_error roots i) as [r|] eqn:E; simpl; [|reflexivity].
    apply (walk_iso _ _ _ Hiso). apply Hroots. eapply nth_error_In; eauto. }
  destruct Hiso as (NDk & NDv & Hiso).
  destruct q as [i p | i p j p2]; cbn [observe].
  - specialize (W i p). destruct (walk_root h roots i p) as [r|].
    + destruct W as [Hr W]. rewrite W. f_equal.
      destruct (Hiso _ _ (app_memo_vals _ _ Hr)) as (c & Hc & _ & Hc').
      rewrite Hc, Hc'. cbn [option_map]. now rewrite shape_map_cell.
    + now rewrite W.
  - pose proof (W i p) as W1. pose proof (W j p2) as W2.
    destruct (walk_root h roots i p) as [a|].
    + destruct W1 as [Ha W1]. rewrite W1.
      destruct (walk_root h roots j p2) as [b|].
      * destruct W2 as [Hb W2]. rewrite W2. f_equal. f_equal.
        destruct (Z.eqb_spec a b) as [E | E].
        -- subst. apply Z.eqb_refl.
        -- apply Z.eqb_neq. intro E'. apply E. eapply app_memo_inj; eauto.
      * now rewrite W2.
    + now rewrite W1.
Qed.

(* ---------- frame / isolation ---------- *)
Lemma lookup_update : forall h l c k,
  lookup (update h l c) k = if k =? l then Some c else lookup h k.
Proof.
  induction h as [|[k0 c0] h IH]; intros l c k; cbn [update lookup].
  - destruct (k =? l); reflexivity.
  - destruct (Z.eqb_spec l k0).
    + subst. cbn [lookup]. destruct (Z.eqb_spec k k0); reflexivity.
    + cbn [lookup]. destruct (Z.eqb_spec k k0).
      * subst. destruct (Z.eqb_spec k0 l); [congruence | reflexivity].
      * apply IH.
Qed.

Lemma keys_update : forall h l c k, In k (keys (update h l c)) <-> k = l \/ In k (keys h).
Proof.
  induction h as [|[k0 c0] h IH]; intros l c k; cbn [update].
  - cbn. intuition.
  - destruct (Z.eqb_spec l k0).
    + subst. cbn. intuition.
    + cbn [keys map fst In]. fold (keys (update h l c)). fold (keys h). rewrite IH. intuition.
Qed.

Definition owned (h : heap) (D : list loc) : Prop := forall l, In l D -> In l (keys h).
Definition sep (DA DB : list loc) : Prop := forall l, In l DA -> ~ In l DB.

Fixpoint exec (h : heap) (ops : list (loc * cell)) : heap :=
  match ops with
  | [] => h
  | (l, c) :: ops' => exec (update h l c) ops'
  end.

Fixpoint ops_ok (h : heap) (D : list loc) (ops : list (loc * cell)) : Prop :=
  match ops with
  | [] => True
  | (l, c) :: ops' => step_ok h D l c /\ ops_ok (update h l c) (l :: D) ops'
  end.

Fixpoint region_after (D : list loc) (ops : list (loc * cell)) : list loc :=
  match ops with
  | [] => D
  | (l, _) :: ops' => region_after (l :: D) ops'
  end.

(* one step of the owner of DA: the other region keeps every cell, stays closed and separated *)
Lemma step_frame : forall h DA DB l c,
  owned h DB -> sep DA DB -> step_ok h DA l c ->
  (forall b, In b DB -> lookup (update h l c) b = lookup h b) /\
  owned (update h l c) DB /\ sep (l :: DA) DB.
Proof.
  intros h DA DB l c Hown Hsep [Hl _].
  assert (HlB : ~ In l DB).
  { destruct Hl as [Hl | Hl]; [now apply Hsep | intro H; apply Hl; now apply Hown]. }
  split; [|split].
  - intros b Hb. rewrite lookup_update. destruct (Z.eqb_spec b l); [subst; contradiction | reflexivity].
  - intros b Hb. apply keys_update. right. now apply Hown.
  - intros x [Hx | Hx]; [now subst | now apply Hsep].
Qed.

Lemma step_closed_other : forall h DB l c,
  closed h DB -> ~ In l DB -> closed (update h l c) DB.
Proof.
  intros h DB l c Hcl Hl x cx r Hx Hlk Hr. rewrite lookup_update in Hlk.
  destruct (Z.eqb_spec x l); [subst; contradiction|]. eapply Hcl; eauto.
Qed.

(* the acting runtime's own region (grown by what it allocates) stays closed:
   it never gets hold of a reference into the other region *)
Lemma step_closed_own : forall h DA l c,
  closed h DA -> step_ok h DA l c -> closed (update h l c) (l :: DA).
Proof.
  intros h DA l c Hcl [Hl Hrefs] x cx r Hx Hlk Hr. rewrite lookup_update in Hlk.
  destruct (Z.eqb_spec x l).
  - inversion Hlk; subst. destruct (Hrefs _ Hr) as [H | H]; [now right | now left].
  - destruct Hx as [Hx | Hx]; [congruence|]. right. eapply Hcl; eauto.
Qed.

Lemma walk_agree : forall h1 h2 D, closed h1 D ->
  (forall b, In b D -> lookup h2 b = lookup h1 b) ->
  forall p l, In l D -> walk h2 l p = walk h1 l p /\
                        (forall r, walk h1 l p = Some r -> In r D).
Proof.
  intros h1 h2 D Hcl Hag. induction p as [|i p IH]; intros l Hl; cbn [walk].
  - split; [reflexivity|]. intros r E. now inversion E; subst.
  - rewrite (Hag _ Hl). destruct (lookup h1 l) as [c|] eqn:Ec; [|split; [reflexivity | discriminate]].
    destruct (nth_error (refs_cell c) i) as [r|] eqn:E; [|split; [reflexivity | discriminate]].
    apply IH. eapply Hcl; eauto. eapply nth_error_In; eauto.
Qed.

Lemma observe_agree : forall h1 h2 D roots q, closed h1 D ->
  (forall b, In b D -> lookup h2 b = lookup h1 b) -> incl roots D ->
  observe h2 roots q = observe h1 roots q.
Proof.
  intros h1 h2 D roots q Hcl Hag Hroots.
  assert (W : forall i p, walk_root h2 roots i p = walk_root h1 roots i p /\
                          forall r, walk_root h1 roots i p = Some r -> In r D).
  { intros i p. unfold walk_root, loc in *. destruct (nth_error roots i) as [r|] eqn:E; [|split; [reflexivity | discriminate]].
    eapply walk_agree; eauto. apply Hroots. eapply nth_error_In; eauto. }
  destruct q as [i p | i p j p2]; cbn [observe].
  - destruct (W i p) as [E HD]. rewrite E. destruct (walk_root h1 roots i p) as [r|]; [|reflexivity].
    now rewrite (Hag _ (HD _ eq_refl)).
  - destruct (W i p) as [E1 _], (W j p2) as [E2 _]. now rewrite E1, E2.
Qed.

(* any sequence of steps of one runtime is invisible to the other:
   its cells, its closedness and every observation program are unchanged *)
Theorem isolation : forall ops h DA DB,
  owned h DB -> closed h DB -> sep DA DB -> ops_ok h DA ops ->
  (forall b, In b DB -> lookup (exec h ops) b = lookup h b) /\
  closed (exec h ops) DB /\ owned (exec h ops) DB /\ sep (region_after DA ops) DB /\
  (forall roots q, incl roots DB -> observe (exec h ops) roots q = observe h roots q).
Proof.
  induction ops as [|[l c] ops IH]; intros h DA DB Hown Hcl Hsep Hok.
  - cbn [exec region_after]. repeat split; auto.
  - cbn [exec region_after]. cbn [ops_ok] in Hok. destruct Hok as [Hstep Hok].
    destruct (step_frame _ _ _ _ _ Hown Hsep Hstep) as (Hfr & Hown' & Hsep').
    assert (HlB : ~ In l DB) by (intro H; apply (Hsep' l); [now left | assumption]).
    pose proof (step_closed_other _ _ _ c Hcl HlB) as Hcl'.
    destruct (IH _ _ _ Hown' Hcl' Hsep' Hok) as (A & B & C & D & E).
    split; [|split; [|split; [|split]]]; auto.
    + intros b Hb. rewrite (A _ Hb). now apply Hfr.
    + intros roots q Hin. rewrite (E _ _ Hin).
      eapply observe_agree; eauto.
Qed.

(* the acting runtime's region stays closed along a whole run *)
Theorem own_region_closed : forall ops h DA,
  closed h DA -> ops_ok h DA ops -> closed (exec h ops) (region_after DA ops).
Proof.
  induction ops as [|[l c] ops IH]; intros h DA Hcl Hok; [exact Hcl|].
  cbn [exec region_after]. cbn [ops_ok] in Hok. destruct Hok as [Hstep Hok].
  apply IH; [|assumption]. now apply step_closed_own.
Qed.

(* ---------- a checked copy is separated from its original ---------- *)
Lemma lookup_app : forall A (m1 m2 : list (Z * A)) k,
  lookup (m1 ++ m2) k = match lookup m1 k with Some v => Some v | None => lookup m2 k end.
Proof.
  induction m1 as [|[k' a] m1 IH]; intros m2 k; [reflexivity|].
  cbn [app lookup]. destruct (k =? k'); [reflexivity | apply IH].
Qed.

Theorem copy_separated : forall h h' phi,
  iso h h' phi -> disjoint h h' -> closed h (keys h) ->
  (forall l', In l' (keys h') -> In l' (vals phi)) -> NoDup (keys h') ->
  let store := h ++ h' in
  closed store (keys h) /\ closed store (keys h') /\
  owned store (keys h) /\ owned store (keys h') /\
  sep (keys h) (keys h') /\ sep (keys h') (keys h).
Proof.
  intros h h' phi (NDk & NDv & Hiso) Hdis Hcl Hcov NDh' store. unfold store.
  assert (Hk : forall l, In l (keys (h ++ h')) <-> In l (keys h) \/ In l (keys h')).
  { intro l. unfold keys. rewrite map_app, in_app_iff. tauto. }
  split; [|split; [|split; [|split; [|split]]]].
  - intros l c r Hl Hlk Hr. rewrite lookup_app in Hlk.
    destruct (In_keys_lookup _ _ _ Hl) as [c0 E]. rewrite E in Hlk. inversion Hlk; subst.
    eapply Hcl; eauto.
  - intros l' c' r' Hl' Hlk Hr'. rewrite lookup_app in Hlk.
    destruct (lookup h l') as [c0|] eqn:E.
    { exfalso. apply (Hdis l'); [eapply lookup_Some_keys; eauto | assumption]. }
    apply Hcov in Hl'. unfold vals in Hl'. apply in_map_iff in Hl' as [[l x] [Ex Hin]].
    cbn in Ex. subst x.
    destruct (Hiso _ _ Hin) as (c & Hc & Hrefs & Hc'). rewrite Hc' in Hlk. inversion Hlk; subst c'.
    rewrite refs_map_cell in Hr'. apply in_map_iff in Hr' as [r [Er Hr]]. subst r'.
    pose proof (app_memo_vals _ _ (Hrefs _ Hr)) as Hin'.
    destruct (Hiso _ _ Hin') as (c2 & _ & _ & Hc2). eapply lookup_Some_keys; eauto.
  - intros l Hl. apply Hk. now left.
  - intros l Hl. apply Hk. now right.
  - intros l Hl. now apply Hdis.
  - intros l Hl Hl2. now apply (Hdis l).
Qed.
