(* C16 — proofs about the structural conversion (ModelCall.v): slices, maps'
   values and argument lists are built element by element, in order, each
   element by the same conversion; numeric leaves are the kernel of Model.v. *)
From Coq Require Import ZArith Bool List Lia.
From Otto Require Import Common.Double C16.Model C16.ModelCont C16.ModelCall.
Import ListNotations.
Open Scope Z_scope.

Lemma conv_elems_spec : forall cv l e z gs,
  conv_elems cv l e z = inr gs ->
  Forall2 (fun o g => match o with Some x => cv x e = CV g | None => g = z end) l gs.
Proof.
  intros cv l e z. induction l as [|o l IH]; intros gs H; cbn [conv_elems] in H.
  - injection H as <-. constructor.
  - destruct o as [x|].
    + destruct (cv x e) eqn:E; try discriminate.
      destruct (conv_elems cv l e z) as [r|gs'] eqn:E'; [discriminate|].
      injection H as <-. constructor; [exact E | now apply IH].
    + destruct (conv_elems cv l e z) as [r|gs'] eqn:E'; [discriminate|].
      injection H as <-. constructor; [reflexivity | now apply IH].
Qed.

(* the first failing element decides the failure *)
Lemma conv_elems_fail : forall cv l e z r,
  conv_elems cv l e z = inl r ->
  exists pre x post, l = pre ++ Some x :: post /\ cv x e = r /\
                     (forall g, r <> CV g) /\
                     forall y, In (Some y) pre -> exists g, cv y e = CV g.
Proof.
  intros cv l e z. induction l as [|o l IH]; intros r H; cbn [conv_elems] in H; [discriminate|].
  destruct o as [x|].
  - destruct (cv x e) eqn:E.
    + destruct (conv_elems cv l e z) as [r'|gs'] eqn:E'; [|discriminate].
      injection H as <-. destruct (IH r' eq_refl) as (pre & x' & post & L & C & N & P).
      exists (Some x :: pre), x', post. subst l. repeat split; auto.
      intros y [Hy|Hy]; [injection Hy as <-; eauto | auto].
    + injection H as <-. exists [], x, l. repeat split; auto; [discriminate | intros y []].
    + injection H as <-. exists [], x, l. repeat split; auto; [discriminate | intros y []].
  - destruct (conv_elems cv l e z) as [r'|gs'] eqn:E'; [|discriminate].
    injection H as <-. destruct (IH r' eq_refl) as (pre & x' & post & L & C & N & P).
    exists (None :: pre), x', post. subst l. repeat split; auto.
    intros y [Hy|Hy]; [discriminate | auto].
Qed.

Theorem slice_elementwise : forall ideal ids f l e gs,
  conv ideal ids (S f) (JArr l) (TSlice e) = CV (GVSlice gs) ->
  Forall2 (fun o g => match o with
                      | Some x => conv ideal ids f x e = CV g
                      | None => g = zero (S f) e
                      end) l gs.
Proof.
  intros ideal ids f l e gs H. cbn [conv] in H.
  destruct (conv_elems (conv ideal ids f) l e (zero (S f) e)) as [r|gs'] eqn:E.
  - destruct r; try discriminate.
    destruct (conv_elems_fail _ _ _ _ _ E) as (_ & _ & _ & _ & _ & N & _). now destruct (N g).
  - injection H as <-. now apply conv_elems_spec.
Qed.

Lemma conv_args_spec : forall ideal ids fuel args tys gs,
  conv_args ideal ids fuel args tys = inr gs ->
  Forall2 (fun at_ g => conv ideal ids fuel (fst at_) (snd at_) = CV g) (combine args tys) gs /\
  length gs = length args.
Proof.
  intros ideal ids fuel. induction args as [|a args IH]; intros tys gs H; cbn [conv_args] in H.
  - injection H as <-. split; constructor.
  - destruct tys as [|t tys]; [discriminate|].
    destruct (conv ideal ids fuel a t) eqn:E; try discriminate.
    destruct (conv_args ideal ids fuel args tys) as [r|gs'] eqn:E'; [discriminate|].
    injection H as <-. destruct (IH tys gs' E') as [F L]. split.
    + cbn [combine]. constructor; [exact E | exact F].
    + cbn [length]. now rewrite L.
Qed.

(* a non-variadic call hands over one Go value per argument, in order, each the
   conversion of that argument against the declared parameter; a count
   mismatch is a RangeError *)
Theorem call_fixed_elementwise : forall ideal ids fuel tys args,
  (length args <> length tys -> call ideal ids fuel tys false args = CE 3) /\
  (forall gs, call ideal ids fuel tys false args = CV (GVStruct gs) ->
     length args = length tys /\
     Forall2 (fun at_ g => conv ideal ids fuel (fst at_) (snd at_) = CV g) (combine args tys) gs).
Proof.
  intros ideal ids fuel tys args. unfold call, arity_check. split.
  - intro H. destruct (Z.eqb_spec (Z.of_nat (length args)) (Z.of_nat (length tys))); [lia | reflexivity].
  - intros gs H.
    destruct (Z.eqb_spec (Z.of_nat (length args)) (Z.of_nat (length tys))) as [E|E]; cbn [negb Z.eqb] in H; [|discriminate].
    destruct (conv_args ideal ids fuel args tys) as [r|gs'] eqn:E'.
    + destruct r; try discriminate.
      exfalso. clear -E'. revert tys g E'. induction args as [|a args IH]; intros tys g E'; cbn [conv_args] in E'; [discriminate|].
      destruct tys as [|t tys]; [discriminate|].
      destruct (conv ideal ids fuel a t); try discriminate.
      destruct (conv_args ideal ids fuel args tys) as [r|gs'] eqn:E''; [|discriminate].
      injection E' as ->. eapply IH; eauto.
    + injection H as <-. split; [lia | now apply conv_args_spec].
Qed.

(* numeric leaves are exactly the kernel of Model.v *)
Theorem leaf_is_kernel : forall f s k,
  src_wf s = true -> conv false false (S f) (JNum s) (TNum k) = gv_of_outcome (convertNumeric s k).
Proof. intros f s k H. cbn [conv]. now rewrite H. Qed.

(* whatever runs while its arguments are converted, a call that completes reaches
   Go last in its own log segment and with exactly its own argument values *)
Theorem reentrant_args_intact : forall f fn args l,
  ev_call (S f) (RCall fn args) = (l, true) ->
  exists before, l = before ++ [(fn, map rarg_val args)].
Proof.
  intros f fn args l H. cbn [ev_call] in H.
  destruct (ev_args (ev_call f) args) as [lg ok]. destruct ok; [|discriminate].
  injection H as <-. eexists. reflexivity.
Qed.

(* an argument whose conversion fails aborts the call: Go never sees it, the
   calls made while that argument was converted have still happened *)
Theorem reentrant_failure_aborts : forall f fn inner post,
  ev_call (S f) (RCall fn (RReFail inner :: post)) = (fst (ev_seq (ev_call f) inner), false).
Proof.
  intros. cbn [ev_call ev_args]. destruct (ev_seq (ev_call f) inner) as [l ok]. reflexivity.
Qed.

(* a kept result is not changed by later calls of the same function *)
Theorem results_retained : forall rows calls more j,
  (j < length calls)%nat ->
  nth j (ret_hist rows (calls ++ more)) [] = nth j (ret_hist rows calls) [].
Proof.
  intros rows calls more j H. unfold ret_hist. rewrite map_app.
  apply app_nth1. now rewrite map_length.
Qed.

(* a callback's undefined is never turned into a number: for a numeric result
   type the call fails with TypeError; and an exception thrown by the callback
   surfaces with its own class *)
Theorem callback_undefined_is_not_a_number : forall idn ids k,
  cb_call idn ids (ROne (TNum k)) (CbRet JUndef) = CE 6.
Proof. reflexivity. Qed.

Theorem callback_throw_surfaces : forall idn ids rt c,
  rt <> RTwo -> cb_call idn ids rt (CbThrow c) = CE c.
Proof. intros idn ids rt c H. destruct rt; try reflexivity. contradiction. Qed.

(* a function is never a slice (repaired in 96bc623: it used to become as many
   zero values as it declares parameters) ... *)
Theorem function_is_not_a_slice : forall ideal ids f n e,
  conv ideal ids (S f) (JFun n) (TSlice e) = CE 6.
Proof. reflexivity. Qed.

(* ... so a single callback for a variadic slot of func type arrives as that
   function, exactly like two callbacks do *)
Theorem variadic_single_function :
  call false false 6 [TNum KI; TSlice TFunc] true [JNum (KI64, 1); JFun 1] = CV (GVStruct [GVI KI 1; GVSlice [GVFunc]]) /\
  call false false 6 [TNum KI; TSlice TFunc] true [JNum (KI64, 1); JFun 1; JFun 1] =
    CV (GVStruct [GVI KI 1; GVSlice [GVFunc; GVFunc]]).
Proof. vm_compute. split; reflexivity. Qed.

(* export is compositional: an object is exported member by member, each member by
   the same function, whatever else of the graph has been exported before -- so a
   sub-object referenced twice appears twice *)
Theorem export_shared_twice : forall f k1 k2 o g,
  k1 < k2 -> export f o = Some g -> o <> JUndef ->
  export (S f) (JObj [(k1, o); (k2, o)]) = Some (GVMap [(k1, g); (k2, g)]).
Proof.
  intros f k1 k2 o g L E N. cbn [export export_props option_map].
  destruct o; try contradiction; rewrite E; cbn [kv_insert];
    destruct (Z.ltb_spec k2 k1); try lia; destruct (Z.eqb_spec k2 k1); try lia; reflexivity.
Qed.

Theorem export_shared_in_array : forall f o g,
  export f o = Some g -> export (S f) (JArr [Some o; Some o]) = Some (GVSlice [g; g]).
Proof. intros f o g E. cbn [export export_elems option_map]. rewrite E. reflexivity. Qed.
