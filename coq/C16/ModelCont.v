(* C16 — container protocols of the bridge as state machines over a Go-side
   store: type_go_slice.go, type_go_array.go, type_go_map.go,
   type_go_struct.go (+ fieldIndexByName of runtime.go).

   Each machine takes a flag [ideal]: false = what otto does (Model), true =
   what the property asks for (Spec): one live Go object, checked conversion,
   failures as RangeError/TypeError.  Elements are Go ints (Z); values written
   by the script are JS numbers (Model.src) converted by the same kernel as in
   Model.v.  Observations are pairs (tag, value):
   (0,n) number  (1,0) undefined  (2,c) error of class c  (3,b) boolean *)
From Coq Require Import ZArith Bool List Lia.
From Otto Require Import Common.Double C16.Model.
Import ListNotations.
Open Scope Z_scope.

Definition ob := (Z * Z)%type.
Definition o_num (n : Z) : ob := (0, n).
Definition o_undef : ob := (1, 0).
Definition o_err (c : Z) : ob := (2, c).
Definition o_bool (b : bool) : ob := (3, if b then 1 else 0).
Definition o_ok : ob := (0, 0).

Fixpoint upd {A} (l : list A) (n : nat) (x : A) : list A :=
  match l, n with
  | [], _ => []
  | _ :: t, O => x :: t
  | h :: t, S n' => h :: upd t n' x
  end.

Definition zrepeat (n : Z) : list Z := repeat 0 (Z.to_nat n).

(* element conversion on store: value.go toReflectValue to int *)
Definition conv_elem (ideal : bool) (v : src) : Z + Z :=
  match (if ideal then spec_store (SNum v) KI else toReflectNum (SNum v) KI) with
  | OkI _ n => inl n
  | OkF _ _ => inr 6
  | Err c => inr c
  end.

(* parameter conversion on struct field store: runtime.go convertNumeric to int *)
Definition conv_field (ideal : bool) (v : src) : Z + Z :=
  match (if ideal then spec_convert v KI else convertNumeric v KI) with
  | OkI _ n => inl n
  | OkF _ _ => inr 6
  | Err c => inr c
  end.

(* ================= slices ================= *)

(* a slice header: backing array (index into the heap), length, capacity *)
Record hdr := mkH { h_arr : nat; h_len : Z; h_cap : Z }.

(* gh: the header Go holds (its variable, or the struct field);
   jh: the header inside the persistent wrapper object (top-level slices) *)
Record sst := mkS { heap : list (list Z); gh : hdr; jh : hdr }.

Definition arr_of (hp : list (list Z)) (a : nat) : list Z := nth a hp [].
Definition arr_get (hp : list (list Z)) (a : nat) (i : Z) : Z := nth (Z.to_nat i) (arr_of hp a) 0.
Definition arr_set (hp : list (list Z)) (a : nat) (i : Z) (v : Z) : list (list Z) :=
  upd hp a (upd (arr_of hp a) (Z.to_nat i) v).

(* append of one element (Go's append and reflect.Append for small 8-byte
   element slices: in place within capacity, otherwise a copy of doubled capacity) *)
Definition append1 (hp : list (list Z)) (h : hdr) (v : Z) : list (list Z) * hdr :=
  if h_len h <? h_cap h
  then (arr_set hp (h_arr h) (h_len h) v, mkH (h_arr h) (h_len h + 1) (h_cap h))
  else
    let nc := if h_cap h =? 0 then 1 else 2 * h_cap h in
    let na := firstn (Z.to_nat (h_len h)) (arr_of hp (h_arr h)) ++ [v] ++ zrepeat (nc - h_len h - 1) in
    (hp ++ [na], mkH (length hp) (h_len h + 1) nc).

(* reflect.MakeSlice(n) + reflect.Copy *)
Definition realloc (hp : list (list Z)) (h : hdr) (n : Z) : list (list Z) * hdr :=
  let na := firstn (Z.to_nat (h_len h)) (arr_of hp (h_arr h)) ++ zrepeat (n - h_len h) in
  (hp ++ [na], mkH (length hp) n n).

Inductive sop :=
| JGet (i : Z) | JSet (i : Z) (v : src) | JDel (i : Z) | JLen | JSetLen (n : Z)
| JPush (v : src) | JPop | JKeys | JHas (i : Z)
| GGet (i : Z) | GSet (i : Z) (v : Z) | GLen | GAppend (v : Z) | GReslice (n : Z).

(* addr = true: the slice is a field of a struct bridged by pointer (t.S):
   every script access makes a fresh wrapper around the addressable field.
   addr = false: a slice handed over by value; one wrapper keeps its own header. *)
Definition wrapper (addr : bool) (s : sst) : hdr := if addr then gh s else jh s.

(* a new header produced by the wrapper (append / reallocation): otto keeps
   it in the wrapper only; the property wants the live field updated *)
Definition commit (addr ideal : bool) (s : sst) (hp : list (list Z)) (h : hdr) : sst :=
  if addr then (if ideal then mkS hp h h else mkS hp (gh s) (gh s))
  else mkS hp (gh s) h.

(* Value.SetLen on the wrapper's value: writes through to the field when addressable *)
Definition setlen_inplace (addr : bool) (s : sst) (n : Z) : sst :=
  let h := wrapper addr s in
  let h' := mkH (h_arr h) n (h_cap h) in
  if addr then mkS (heap s) h' h' else mkS (heap s) (gh s) h'.

Definition set_length (addr ideal : bool) (s : sst) (n : Z) : sst * ob :=
  let h := wrapper addr s in
  if n =? h_len h then (s, o_ok)
  else if n <? h_cap h then
    (if n <? 0 then (s, o_err (if ideal then 3 else 9))
     else if addr || ideal then (setlen_inplace addr s n, o_ok)
     else (s, o_err 9))          (* reflect: SetLen using unaddressable value *)
  else let '(hp, h') := realloc (heap s) h n in (commit addr ideal s hp h', o_ok).

Definition set_index (addr ideal : bool) (s : sst) (i : Z) (n : Z) : sst :=
  let h := wrapper addr s in
  if (0 <=? i) && (i <? h_len h) then mkS (arr_set (heap s) (h_arr h) i n) (gh s) (jh s)
  else if i =? h_len h then let '(hp, h') := append1 (heap s) h n in commit addr ideal s hp h'
  else s.

Definition sstep (addr ideal : bool) (s : sst) (o : sop) : sst * ob :=
  let h := wrapper addr s in
  match o with
  | JGet i => (s, if (0 <=? i) && (i <? h_len h) then o_num (arr_get (heap s) (h_arr h) i) else o_undef)
  | JSet i v =>
      match conv_elem ideal v with
      | inr c => (s, o_err c)
      | inl n => (set_index addr ideal s i n, o_ok)
      end
  | JDel i =>
      if (0 <=? i) && (i <? h_len h)
      then (mkS (arr_set (heap s) (h_arr h) i 0) (gh s) (jh s), o_bool true)
      else (s, o_bool false)
  | JLen => (s, o_num (h_len h))
  | JSetLen n => set_length addr ideal s n
  | JPush v =>
      match conv_elem ideal v with
      | inr c => (s, o_err c)
      | inl n => (set_index addr ideal s (h_len h) n, o_num (h_len h + 1))
      end
  | JPop =>
      if h_len h =? 0 then (s, o_undef)
      else
        let last := arr_get (heap s) (h_arr h) (h_len h - 1) in
        let s1 := mkS (arr_set (heap s) (h_arr h) (h_len h - 1) 0) (gh s) (jh s) in
        let '(s2, r) := set_length addr ideal s1 (h_len h - 1) in
        (s2, match r with (2, c) => o_err c | _ => o_num last end)
  | JKeys => (s, o_num (h_len h))
  | JHas i => (s, o_bool (if ideal then (0 <=? i) && (i <? h_len h) else 0 <=? i))
  | GGet i => (s, if (0 <=? i) && (i <? h_len (gh s)) then o_num (arr_get (heap s) (h_arr (gh s)) i) else o_undef)
  | GSet i v =>
      if (0 <=? i) && (i <? h_len (gh s))
      then (mkS (arr_set (heap s) (h_arr (gh s)) i v) (gh s) (jh s), o_ok) else (s, o_undef)
  | GLen => (s, o_num (h_len (gh s)))
  | GAppend v =>
      let '(hp, h') := append1 (heap s) (gh s) v in
      (mkS hp h' (if addr then h' else jh s), o_ok)
  | GReslice n =>
      if (0 <=? n) && (n <=? h_cap (gh s))
      then let h' := mkH (h_arr (gh s)) n (h_cap (gh s)) in (mkS (heap s) h' (if addr then h' else jh s), o_ok)
      else (s, o_undef)
  end.

Fixpoint srun (addr ideal : bool) (s : sst) (l : list sop) : list ob :=
  match l with
  | [] => []
  | o :: l' => let '(s', r) := sstep addr ideal s o in r :: srun addr ideal s' l'
  end.

(* make([]int, len, cap) filled with the given elements *)
Definition sinit (elems : list Z) (cap : Z) : sst :=
  let n := Z.of_nat (length elems) in
  let h := mkH 0 n cap in
  mkS [elems ++ zrepeat (cap - n)] h h.

(* ================= arrays ( *[N]int ) ================= *)
(* fixed length: stores beyond the end and length writes are ignored, push is a TypeError *)
Definition astep (ideal : bool) (a : list Z) (o : sop) : list Z * ob :=
  let n := Z.of_nat (length a) in
  match o with
  | JGet i => (a, if (0 <=? i) && (i <? n) then o_num (nth (Z.to_nat i) a 0) else o_undef)
  | JSet i v =>
      if (0 <=? i) && (i <? n) then
        match conv_elem ideal v with
        | inr c => (a, o_err c)
        | inl x => (upd a (Z.to_nat i) x, o_ok)
        end
      else (a, o_ok)
  | JDel i => if (0 <=? i) && (i <? n) then (upd a (Z.to_nat i) 0, o_bool true) else (a, o_bool false)
  | JLen => (a, o_num n)
  | JSetLen _ => (a, o_ok)
  | JPush _ => (a, o_err 6)
  | JPop => (a, o_err 6)
  | JKeys => (a, o_num n)
  | JHas i => (a, o_bool (if ideal then (0 <=? i) && (i <? n) else 0 <=? i))
  | GGet i => (a, if (0 <=? i) && (i <? n) then o_num (nth (Z.to_nat i) a 0) else o_undef)
  | GSet i v => if (0 <=? i) && (i <? n) then (upd a (Z.to_nat i) v, o_ok) else (a, o_undef)
  | GLen => (a, o_num n)
  | GAppend _ | GReslice _ => (a, o_undef)
  end.

Fixpoint arun (ideal : bool) (a : list Z) (l : list sop) : list ob :=
  match l with
  | [] => []
  | o :: l' => let '(a', r) := astep ideal a o in r :: arun ideal a' l'
  end.

(* ---- an ordinary (non-index) property on the wrapper of a bridged slice / array ----
   s.foo = v, s.foo, 'foo' in s, delete s.foo: these go to the generic object
   behaviour (goSliceDelete / goArrayDelete end in objectDelete).  The wrapper
   of a slice handed over by value, and of a *[N]T, is one persistent object;
   t.S makes a fresh wrapper on every access, so nothing sticks there. *)
Inductive xop :=
| XS (o : sop)
| XSet (v : Z) | XGet | XDel | XHas.

Definition xprop_step (persistent : bool) (xp : option Z) (o : xop) : option Z * ob :=
  match o with
  | XSet v => ((if persistent then Some v else xp), o_ok)
  | XGet => (xp, match xp with Some v => if persistent then o_num v else o_undef | None => o_undef end)
  | XDel => (None, o_bool true)
  | XHas => (xp, o_bool (match xp with Some _ => persistent | None => false end))
  | XS _ => (xp, o_undef)
  end.

Definition sxstep (addr ideal : bool) (st : sst * option Z) (o : xop) : (sst * option Z) * ob :=
  let '(s, xp) := st in
  match o with
  | XS JKeys =>
      (st, o_num (h_len (wrapper addr s) + match xp with Some _ => if addr then 0 else 1 | None => 0 end))
  | XS o' => let '(s', r) := sstep addr ideal s o' in ((s', xp), r)
  | _ => let '(xp', r) := xprop_step (negb addr) xp o in ((s, if addr then None else xp'), r)
  end.

Fixpoint sxrun (addr ideal : bool) (st : sst * option Z) (l : list xop) : list ob :=
  match l with
  | [] => []
  | o :: l' => let '(st', r) := sxstep addr ideal st o in r :: sxrun addr ideal st' l'
  end.

Definition axstep (ideal : bool) (st : list Z * option Z) (o : xop) : (list Z * option Z) * ob :=
  let '(a, xp) := st in
  match o with
  | XS JKeys => (st, o_num (Z.of_nat (length a) + match xp with Some _ => 1 | None => 0 end))
  | XS o' => let '(a', r) := astep ideal a o' in ((a', xp), r)
  | _ => let '(xp', r) := xprop_step true xp o in ((a, xp'), r)
  end.

Fixpoint axrun (ideal : bool) (st : list Z * option Z) (l : list xop) : list ob :=
  match l with
  | [] => []
  | o :: l' => let '(st', r) := axstep ideal st o in r :: axrun ideal st' l'
  end.

(* ================= maps ( map[string]int ) ================= *)
(* keys are small integers standing for distinct strings; the store is an association list *)
Inductive mop :=
| MJGet (k : Z) | MJSet (k : Z) (v : src) | MJDel (k : Z) | MJHas (k : Z) | MJKeys
| MJKeyset | MJForIn | MJSum     (* Object.keys / for-in as the set of keys (bit k for key k); sum of m[k] over for-in *)
| MGGet (k : Z) | MGSet (k : Z) (v : Z) | MGDel (k : Z) | MGLen.

Fixpoint m_get (m : list (Z * Z)) (k : Z) : option Z :=
  match m with
  | [] => None
  | (k', v) :: m' => if k =? k' then Some v else m_get m' k
  end.
Fixpoint m_del (m : list (Z * Z)) (k : Z) : list (Z * Z) :=
  match m with
  | [] => []
  | (k', v) :: m' => if k =? k' then m_del m' k else (k', v) :: m_del m' k
  end.
Definition m_set (m : list (Z * Z)) (k v : Z) : list (Z * Z) := (k, v) :: m_del m k.

Definition mstep (ideal : bool) (m : list (Z * Z)) (o : mop) : list (Z * Z) * ob :=
  match o with
  | MJGet k | MGGet k => (m, match m_get m k with Some v => o_num v | None => o_undef end)
  | MJSet k v =>
      match conv_elem ideal v with
      | inr c => (m, o_err c)
      | inl x => (m_set m k x, o_ok)
      end
  | MJDel k => (m_del m k, o_bool true)
  | MJHas k => (m, o_bool (match m_get m k with Some _ => true | None => false end))
  | MJKeys | MGLen => (m, o_num (Z.of_nat (length m)))
  | MJKeyset | MJForIn => (m, o_num (fold_right (fun kv acc => 2 ^ (fst kv) + acc) 0 m))
  | MJSum => (m, o_num (fold_right (fun kv acc => snd kv + acc) 0 m))
  | MGSet k v => (m_set m k v, o_ok)
  | MGDel k => (m_del m k, o_ok)
  end.

Fixpoint mrun (ideal : bool) (m : list (Z * Z)) (l : list mop) : list ob :=
  match l with
  | [] => []
  | o :: l' => let '(m', r) := mstep ideal m o in r :: mrun ideal m' l'
  end.

(* ================= structs ( *T ) ================= *)
(* A field: Go name, json tag name (0 = no tag, -1 = "-"), exported?, and for an
   embedded struct its own fields (one level).  Names are integers standing for
   identifiers; [upper] tells which names start with an upper-case letter. *)
Record sub := mkSub { sb_name : Z; sb_tag : Z; sb_exp : bool }.
Record fld := mkF { f_name : Z; f_tag : Z; f_exp : bool; f_anon : list sub }.

(* a path into the value: field index, then (for promoted fields) sub-field index *)
Definition path := (nat * option nat)%type.

Fixpoint sub_index (fs : list sub) (name : Z) (i : nat) : option nat :=
  match fs with
  | [] => None
  | f :: fs' =>
      if negb (sb_exp f) then sub_index fs' name (S i)
      else if (negb (sb_tag f =? 0)) && (sb_tag f =? -1) then sub_index fs' name (S i)
      else if (negb (sb_tag f =? 0)) && (sb_tag f =? name) then Some i
      else if sb_name f =? name then Some i
      else sub_index fs' name (S i)
  end.

(* runtime.go fieldIndexByName: in declaration order; unexported fields are
   skipped; an embedded struct is searched first; then the json tag ("-" hides
   the field); then the Go name *)
Fixpoint field_index (fs : list fld) (name : Z) (i : nat) : option path :=
  match fs with
  | [] => None
  | f :: fs' =>
      if negb (f_exp f) then field_index fs' name (S i)
      else
        match (match f_anon f with [] => None | subs => sub_index subs name O end) with
        | Some j => Some (i, Some j)
        | None =>
            if (negb (f_tag f =? 0)) && (f_tag f =? -1) then field_index fs' name (S i)
            else if (negb (f_tag f =? 0)) && (f_tag f =? name) then Some (i, None)
            else if f_name f =? name then Some (i, None)
            else field_index fs' name (S i)
        end
  end.

(* Go's FieldByName restricted to what is needed here: direct fields by Go
   name first (depth 0), then promoted fields of embedded structs (depth 1) *)
Fixpoint direct_by_name (fs : list fld) (name : Z) (i : nat) : option path :=
  match fs with
  | [] => None
  | f :: fs' => if f_name f =? name then Some (i, None) else direct_by_name fs' name (S i)
  end.
Fixpoint sub_by_name (fs : list sub) (name : Z) (i : nat) : option nat :=
  match fs with
  | [] => None
  | f :: fs' => if sb_name f =? name then Some i else sub_by_name fs' name (S i)
  end.
Fixpoint promoted_by_name (fs : list fld) (name : Z) (i : nat) : option path :=
  match fs with
  | [] => None
  | f :: fs' =>
      match sub_by_name (f_anon f) name O with
      | Some j => Some (i, Some j)
      | None => promoted_by_name fs' name (S i)
      end
  end.
Definition go_field_by_name (fs : list fld) (name : Z) : option path :=
  match direct_by_name fs name O with
  | Some p => Some p
  | None => promoted_by_name fs name O
  end.

(* the value: one list of ints per field (a single int for plain fields, the
   sub-field values for an embedded struct); expando = own properties of the
   wrapper object *)
Record stt := mkT { vals : list (list Z); expando : list (Z * Z) }.

Definition path_get (v : list (list Z)) (p : path) : Z :=
  let '(i, j) := p in nth (match j with Some j => j | None => O end) (nth i v []) 0.
Definition path_set (v : list (list Z)) (p : path) (x : Z) : list (list Z) :=
  let '(i, j) := p in upd v i (upd (nth i v []) (match j with Some j => j | None => O end) x).

Inductive top :=
| TJGet (name : Z) | TJSet (name : Z) (v : src) | TJHas (name : Z) | TJDel (name : Z)
| TGGet (p : path) | TGSet (p : path) (x : Z).

Section Struct.
Variable fs : list fld.
Variable upper : Z -> bool.      (* validGoStructName *)
Variable methods : list Z.       (* names of the methods of *T *)

(* goStructObject.getValue *)
Definition t_lookup (name : Z) : option (option path) :=   (* Some (Some p): a field; Some None: a method *)
  match field_index fs name O with
  | Some p => Some (Some p)
  | None =>
      if upper name then
        match go_field_by_name fs name with
        | Some p => Some (Some p)
        | None => if existsb (Z.eqb name) methods then Some None else None
        end
      else None
  end.

Definition tstep (ideal : bool) (s : stt) (o : top) : stt * ob :=
  match o with
  | TJGet name =>
      match t_lookup name with
      | Some (Some p) => (s, o_num (path_get (vals s) p))
      | Some None => (s, (4, 0))                        (* a function *)
      | None => (s, match m_get (expando s) name with Some v => o_num v | None => o_undef end)
      end
  | TJSet name v =>
      match (if ideal then match t_lookup name with Some (Some p) => Some p | _ => None end
             else field_index fs name O) with
      | Some p =>
          match conv_field ideal v with
          | inr c => (s, o_err c)
          | inl x => (mkT (path_set (vals s) p x) (expando s), o_ok)
          end
      | None =>
          (* objectPut on the wrapper: an ordinary own property (int64 payloads only here) *)
          match v with
          | (KI64, x) => (mkT (vals s) (m_set (expando s) name x), o_ok)
          | _ => (s, o_ok)
          end
      end
  | TJHas name =>
      (s, o_bool (match t_lookup name with
                  | Some _ => true
                  | None => match m_get (expando s) name with Some _ => true | None => false end
                  end))
  | TJDel name =>
      match t_lookup name with
      | Some _ => (s, o_bool false)
      | None => (mkT (vals s) (m_del (expando s) name), o_bool true)
      end
  | TGGet p => (s, o_num (path_get (vals s) p))
  | TGSet p x => (mkT (path_set (vals s) p x) (expando s), o_ok)
  end.

Fixpoint trun (ideal : bool) (s : stt) (l : list top) : list ob :=
  match l with
  | [] => []
  | o :: l' => let '(s', r) := tstep ideal s o in r :: trun ideal s' l'
  end.
End Struct.

(* ================= values nested in a pointer-bridged struct as call arguments ================= *)
(* h := &struct{ C Inner; G [3]int; P *Inner; S []Inner; Mp map[string]Inner }, Inner = struct{N, M int}.
   Cells: 0 C.N  1 C.M  2-4 G[0..2]  5 P.N  6 P.M  7 S[0].N  8 S[0].M  9 Mp.a.N  10 Mp.a.M.
   bump(x, by) adds by to N and sets M to 1 through what it was given and returns the new N;
   fill(g, v) stores v, v+1, v+2.  mode 0: pointer parameter, 1: value parameter, 2: interface{}.
   A struct / array held by value in the pointer-bridged struct is addressable: a pointer
   parameter must receive its address (convertCallParameter: vv.Addr()), so the callee's
   writes are seen by Go and by the script; a value parameter gets a copy; interface{} holds
   the pointer for h.P and a copy for h.C.  Elements of slices and maps are handed over as copies. *)
Inductive pop :=
| PRead (js : bool) (cell : Z)
| PWrite (js : bool) (cell : Z) (v : Z)
| PBump (target mode d : Z)      (* target 0 h.C, 1 h.P, 2 h.S[0], 3 h.Mp.a *)
| PFill (mode v : Z).

Definition bump_base (t : Z) : Z := if t =? 0 then 0 else if t =? 1 then 5 else if t =? 2 then 7 else 9.
Definition bump_aliases (t mode : Z) : bool :=
  ((t =? 0) && (mode =? 0)) || ((t =? 1) && ((mode =? 0) || (mode =? 2))).

Definition pstep (st : list Z) (o : pop) : list Z * ob :=
  match o with
  | PRead _ c => (st, o_num (nth (Z.to_nat c) st 0))
  | PWrite _ c v => (upd st (Z.to_nat c) v, o_ok)
  | PBump t mode d =>
      let b := bump_base t in
      let n := nth (Z.to_nat b) st 0 + d in
      ((if bump_aliases t mode then upd (upd st (Z.to_nat b) n) (Z.to_nat (b + 1)) 1 else st), o_num n)
  | PFill mode v =>
      ((if mode =? 0 then upd (upd (upd st 2 v) 3 (v + 1)) 4 (v + 2) else st), o_ok)
  end.

Fixpoint prun (st : list Z) (l : list pop) : list ob :=
  match l with
  | [] => []
  | o :: l' => let '(st', r) := pstep st o in r :: prun st' l'
  end.

(* a script write THROUGH a container element that is a struct held by value
   (h.S[0].N = v, h.Mp.a.N = v, h.A[0].N = v, h.S2[0].In.N = v, also through a
   variable holding the element).  The element the script got is a copy that
   reflect cannot set: otto refuses the write with a Go panic (it escapes Run;
   a try/catch around the write does catch it: `try { w; 0 } catch (e) { 1 }`
   gives 1), and the container is untouched.  The property would accept a
   catchable TypeError (or a write that lands); what is never right is a write
   that is accepted and lost.  Further cells: 11 A[0].N 12 A[0].M 13 S2[0].In.N 14 S2[0].In.M *)
Inductive pxop :=
| PX (o : pop)
| PWriteElem (try : bool) (cell v : Z).

Definition pxstep (ideal : bool) (st : list Z) (o : pxop) : list Z * ob :=
  match o with
  | PX o' => pstep st o'
  | PWriteElem try _ _ =>
      (st, if try then o_num 1 else if ideal then o_err 6 else o_err 9)
  end.

Fixpoint pxrun (ideal : bool) (st : list Z) (l : list pxop) : list ob :=
  match l with
  | [] => []
  | o :: l' => let '(st', r) := pxstep ideal st o in r :: pxrun ideal st' l'
  end.

(* ================= maps with keys of every kind ( map[K]int ) ================= *)
(* type_go_map.go toKey / goMapGetOwnProperty / goMapDelete + value.go
   stringToReflectValue: the property name is parsed as a K (strconv.ParseInt /
   ParseUint with base 0 and the bit size of K, ParseFloat, ParseBool).  A name
   that does not parse, or is out of K's range, denotes no key at all: reads
   give undefined, `in` is false; writes and deletes panic with the strconv
   error (finding: the property would have a TypeError there).
   Property names are drawn from a few shapes the harness writes literally:
   a canonical decimal integer, a decimal with .5, "x", "true"/"false",
   a 0x literal.  Keys are coded as integers: the integer itself, twice the
   value for float keys, 0/1 for bool, an injective code of the name for strings. *)
Inductive kkind := KKNum (k : nk) | KKBool | KKStr.
Inductive kname := NInt (n : Z) | NFrac (twice : Z) | NText | NBool (b : bool) | NHex (n : Z).

Definition key_parse (kk : kkind) (nm : kname) : option Z :=
  match kk with
  | KKStr =>
      Some (match nm with
            | NInt n => 8 * n | NFrac t => 8 * t + 1 | NText => 2
            | NBool b => if b then 11 else 3 | NHex n => 8 * n + 4
            end)
  | KKBool =>
      match nm with
      | NBool b => Some (if b then 1 else 0)
      | NInt n => if n =? 0 then Some 0 else if n =? 1 then Some 1 else None
      | _ => None
      end
  | KKNum k =>
      if is_float k then
        match nm with NInt n => Some (2 * n) | NFrac t => Some t | _ => None end
      else
        match nm with
        | NInt n => if in_range k n then Some n else None
        | NHex n => if (0 <=? n) && in_range k n then Some n else None
        | _ => None
        end
  end.

Inductive kop :=
| KGet (nm : kname) | KSet (nm : kname) (v : src) | KHas (nm : kname) | KDel (nm : kname)
| KCount | KSum                                  (* Object.keys(m).length; sum of m[k] over for-in *)
| KGGet (key : Z) | KGSet (key v : Z) | KGDel (key : Z) | KGDump.   (* Go side; dump = sum of (key + 1000) * value *)

Definition kstep (ideal : bool) (kk : kkind) (m : list (Z * Z)) (o : kop) : list (Z * Z) * ob :=
  match o with
  | KGet nm => (m, match key_parse kk nm with
                   | Some k => match m_get m k with Some v => o_num v | None => o_undef end
                   | None => o_undef
                   end)
  | KHas nm => (m, o_bool (match key_parse kk nm with
                           | Some k => match m_get m k with Some _ => true | None => false end
                           | None => false
                           end))
  | KSet nm v =>
      match key_parse kk nm with
      | None => (m, o_err (if ideal then 6 else 9))
      | Some k => match conv_elem ideal v with
                  | inr c => (m, o_err c)
                  | inl x => (m_set m k x, o_ok)
                  end
      end
  | KDel nm =>
      match key_parse kk nm with
      | None => (m, o_err (if ideal then 6 else 9))
      | Some k => (m_del m k, o_bool true)
      end
  | KCount => (m, o_num (Z.of_nat (length m)))
  | KSum => (m, o_num (fold_right (fun kv acc => snd kv + acc) 0 m))
  | KGGet k => (m, match m_get m k with Some v => o_num v | None => o_undef end)
  | KGSet k v => (m_set m k v, o_ok)
  | KGDel k => (m_del m k, o_ok)
  | KGDump => (m, o_num (fold_right (fun kv acc => (fst kv + 1000) * snd kv + acc) 0 m))
  end.

Fixpoint krun (ideal : bool) (kk : kkind) (m : list (Z * Z)) (l : list kop) : list ob :=
  match l with
  | [] => []
  | o :: l' => let '(m', r) := kstep ideal kk m o in r :: krun ideal kk m' l'
  end.

(* ================= named map types with methods ( type M map[string]int; func (M) Len() int ) ================= *)
(* goMapGetOwnProperty looks the name up as a KEY first; only a name that is no
   live key falls back to a method of the map type.  So an entry whose key
   spells a method name shadows the method.  A script write under a method name
   that is not yet a key is dropped silently by otto ([[Put]] sees the method's
   property and goMapDefineOwnProperty refuses its attributes without throwing):
   the property asks for the entry to be created.  Methods are not enumerated.
   [len_id]: the name of a zero-argument method returning len(m). *)
Inductive nop := NM (o : mop) | NCallLen.

Definition nstep (ideal : bool) (methods : list Z) (len_id : Z) (m : list (Z * Z)) (o : nop) : list (Z * Z) * ob :=
  let is_method (k : Z) := existsb (Z.eqb k) methods in
  match o with
  | NM (MJGet k) =>
      (m, match m_get m k with
          | Some v => o_num v
          | None => if is_method k then (4, 0) else o_undef
          end)
  | NM (MJHas k) =>
      (m, o_bool (match m_get m k with Some _ => true | None => is_method k end))
  | NM (MJSet k v) =>
      match m_get m k with
      | None =>
          if is_method k && negb ideal then (m, o_ok)     (* dropped before any conversion *)
          else match conv_elem ideal v with
               | inr c => (m, o_err c)
               | inl x => (m_set m k x, o_ok)
               end
      | Some _ =>
          match conv_elem ideal v with
          | inr c => (m, o_err c)
          | inl x => (m_set m k x, o_ok)
          end
      end
  | NM o' => mstep ideal m o'
  | NCallLen =>
      (m, match m_get m len_id with
          | Some _ => o_err 6                      (* the entry shadows the method: not a function *)
          | None => o_num (Z.of_nat (length m))
          end)
  end.

Fixpoint nrun (ideal : bool) (methods : list Z) (len_id : Z) (m : list (Z * Z)) (l : list nop) : list ob :=
  match l with
  | [] => []
  | o :: l' => let '(m', r) := nstep ideal methods len_id m o in r :: nrun ideal methods len_id m' l'
  end.
