(* C16 — proofs about the container protocols (ModelCont.v): aliasing of the
   bridged slice with the Go slice over all interleaved histories that do not
   grow or shrink it, the map store laws, soundness of fieldIndexByName and
   read-your-write on struct fields. *)
From Coq Require Import ZArith Bool List Lia.
From Otto Require Import Common.Double C16.Model C16.ModelCont.
Import ListNotations.
Open Scope Z_scope.

(* ---- lists ---- *)

Lemma upd_length : forall {A} (l : list A) n x, length (upd l n x) = length l.
Proof. induction l; destruct n; cbn; auto. Qed.

Lemma upd_app_l : forall {A} (l p : list A) n x, (n < length l)%nat -> upd (l ++ p) n x = upd l n x ++ p.
Proof.
  induction l; intros p n x H; cbn in *; [lia|].
  destruct n; cbn; [reflexivity|]. rewrite IHl by lia. reflexivity.
Qed.

Lemma nth_upd_same : forall (l : list Z) n x, (n < length l)%nat -> nth n (upd l n x) 0 = x.
Proof. induction l; intros n x H; cbn in *; [lia|]. destruct n; cbn; [reflexivity | apply IHl; lia]. Qed.

Lemma nth_upd_other : forall (l : list Z) n m x, n <> m -> nth m (upd l n x) 0 = nth m l 0.
Proof.
  induction l; intros n m x H; cbn; [reflexivity|].
  destruct n, m; cbn; try reflexivity; try congruence. apply IHl. congruence.
Qed.

(* ---- slices: one list seen from both sides ---- *)

(* the reference: a single list of fixed length; script-side and Go-side
   operations read and write the same cells *)
Definition vstep (l : list Z) (o : sop) : list Z * ob :=
  let n := Z.of_nat (length l) in
  let inr_ (i : Z) := (0 <=? i) && (i <? n) in
  match o with
  | JGet i | GGet i => (l, if inr_ i then o_num (nth (Z.to_nat i) l 0) else o_undef)
  | JSet i v =>
      match conv_elem false v with
      | inr c => (l, o_err c)
      | inl x => ((if inr_ i then upd l (Z.to_nat i) x else l), o_ok)
      end
  | GSet i x => if inr_ i then (upd l (Z.to_nat i) x, o_ok) else (l, o_undef)
  | JDel i => if inr_ i then (upd l (Z.to_nat i) 0, o_bool true) else (l, o_bool false)
  | JLen | GLen | JKeys => (l, o_num n)
  | JHas i => (l, o_bool (0 <=? i))
  | _ => (l, o_undef)
  end.

Fixpoint vrun (l : list Z) (ops : list sop) : list ob :=
  match ops with
  | [] => []
  | o :: ops' => let '(l', r) := vstep l o in r :: vrun l' ops'
  end.

(* operations that neither grow nor shrink a slice of length n *)
Definition stable_op (n : Z) (o : sop) : bool :=
  match o with
  | JSet i _ => negb (i =? n)
  | JSetLen _ | JPush _ | JPop | GAppend _ | GReslice _ => false
  | _ => true
  end.

(* the state otto's machine is in: one backing array whose first n cells are
   the list, both headers equal *)
Definition aliased (s : sst) (l pad : list Z) (cap : Z) : Prop :=
  heap s = [l ++ pad] /\ gh s = mkH 0 (Z.of_nat (length l)) cap /\ jh s = gh s.

Lemma arr_get_aliased : forall l pad i,
  0 <= i < Z.of_nat (length l) -> arr_get [l ++ pad] 0 i = nth (Z.to_nat i) l 0.
Proof.
  intros l pad i H. unfold arr_get, arr_of. cbn [nth]. apply app_nth1. lia.
Qed.

Lemma arr_set_aliased : forall l pad i x,
  0 <= i < Z.of_nat (length l) -> arr_set [l ++ pad] 0 i x = [upd l (Z.to_nat i) x ++ pad].
Proof.
  intros l pad i x H. unfold arr_set, arr_of. cbn [nth upd]. rewrite upd_app_l by lia. reflexivity.
Qed.

Lemma sstep_aliased : forall addr s l pad cap o,
  aliased s l pad cap -> stable_op (Z.of_nat (length l)) o = true ->
  let '(s', r) := sstep addr false s o in
  let '(l', r') := vstep l o in
  r = r' /\ aliased s' l' pad cap /\ length l' = length l.
Proof.
  intros addr s l pad cap o (Hh & Hg & Hj) Hst.
  assert (Hw : wrapper addr s = mkH 0 (Z.of_nat (length l)) cap).
  { unfold wrapper. destruct addr; congruence. }
  set (n := Z.of_nat (length l)) in *.
  destruct o; cbn [stable_op] in Hst; try discriminate; unfold sstep, vstep; rewrite ?Hw; cbn [h_len h_arr h_cap]; fold n.
  - (* JGet *)
    destruct ((0 <=? i) && (i <? n)) eqn:R.
    + apply andb_true_iff in R as [R1 R2]. apply Z.leb_le in R1. apply Z.ltb_lt in R2.
      rewrite Hh, arr_get_aliased by (unfold n in *; lia). repeat split; auto.
    + repeat split; auto.
  - (* JSet *)
    destruct (conv_elem false v) as [x|c]; [|repeat split; auto].
    unfold set_index. rewrite Hw. cbn [h_len h_arr h_cap]. fold n.
    destruct ((0 <=? i) && (i <? n)) eqn:R.
    + apply andb_true_iff in R as [R1 R2]. apply Z.leb_le in R1. apply Z.ltb_lt in R2.
      rewrite Hh, arr_set_aliased by (unfold n in *; lia).
      split; [reflexivity|]. split; [|apply upd_length].
      unfold aliased. cbn [heap gh jh]. rewrite upd_length. auto.
    + apply negb_true_iff in Hst. rewrite Hst. repeat split; auto.
  - (* JDel *)
    destruct ((0 <=? i) && (i <? n)) eqn:R.
    + apply andb_true_iff in R as [R1 R2]. apply Z.leb_le in R1. apply Z.ltb_lt in R2.
      rewrite Hh, arr_set_aliased by (unfold n in *; lia).
      split; [reflexivity|]. split; [|apply upd_length].
      unfold aliased. cbn [heap gh jh]. rewrite upd_length. auto.
    + repeat split; auto.
  - (* JLen *) repeat split; auto.
  - (* JKeys *) repeat split; auto.
  - (* JHas *) repeat split; auto.
  - (* GGet *)
    rewrite Hg. cbn [h_len h_arr]. fold n.
    destruct ((0 <=? i) && (i <? n)) eqn:R.
    + apply andb_true_iff in R as [R1 R2]. apply Z.leb_le in R1. apply Z.ltb_lt in R2.
      rewrite Hh, arr_get_aliased by (unfold n in *; lia). repeat split; auto.
    + repeat split; auto.
  - (* GSet *)
    rewrite Hg. cbn [h_len h_arr]. fold n.
    destruct ((0 <=? i) && (i <? n)) eqn:R.
    + apply andb_true_iff in R as [R1 R2]. apply Z.leb_le in R1. apply Z.ltb_lt in R2.
      rewrite Hh, arr_set_aliased by (unfold n in *; lia).
      split; [reflexivity|]. split; [|apply upd_length].
      unfold aliased. cbn [heap gh jh]. rewrite upd_length. rewrite <- Hg. auto.
    + repeat split; auto.
  - (* GLen *) rewrite Hg. cbn [h_len]. repeat split; auto.
Qed.

Lemma srun_aliased : forall addr ops s l pad cap,
  aliased s l pad cap -> forallb (stable_op (Z.of_nat (length l))) ops = true ->
  srun addr false s ops = vrun l ops.
Proof.
  induction ops as [|o ops IH]; intros s l pad cap Ha Hst; [reflexivity|].
  cbn [forallb] in Hst. apply andb_true_iff in Hst as [H1 H2].
  cbn [srun vrun].
  pose proof (sstep_aliased addr s l pad cap o Ha H1) as H.
  destruct (sstep addr false s o) as [s' r]. destruct (vstep l o) as [l' r'].
  destruct H as (Hr & Ha' & Hl). subst r'. f_equal.
  apply (IH s' l' pad cap Ha'). now rewrite Hl.
Qed.

(* every interleaving of script and Go reads, writes and deletes on a bridged
   slice (handed over by value, or held in a struct field) that does not
   change its length behaves as one shared list *)
Theorem slice_alias : forall addr elems cap ops,
  forallb (stable_op (Z.of_nat (length elems))) ops = true ->
  srun addr false (sinit elems cap) ops = vrun elems ops.
Proof.
  intros addr elems cap ops H.
  apply (srun_aliased addr ops (sinit elems cap) elems (zrepeat (cap - Z.of_nat (length elems))) cap); auto.
  unfold aliased, sinit. cbn [heap gh jh]. auto.
Qed.

(* on the shared list a read returns the last value written to that cell, from either side *)
Theorem shared_list_last_write : forall l i x,
  0 <= i < Z.of_nat (length l) ->
  let '(l1, _) := vstep l (GSet i x) in
  snd (vstep l1 (JGet i)) = o_num x /\
  forall j, 0 <= j < Z.of_nat (length l) -> j <> i -> snd (vstep l1 (JGet j)) = snd (vstep l (JGet j)).
Proof.
  intros l i x H. unfold vstep.
  assert (R : (0 <=? i) && (i <? Z.of_nat (length l)) = true)
    by (apply andb_true_iff; split; [apply Z.leb_le | apply Z.ltb_lt]; lia).
  rewrite R. cbn [fst snd]. rewrite upd_length, R. split.
  - rewrite nth_upd_same by lia. reflexivity.
  - intros j Hj Hne.
    assert (Rj : (0 <=? j) && (j <? Z.of_nat (length l)) = true)
      by (apply andb_true_iff; split; [apply Z.leb_le | apply Z.ltb_lt]; lia).
    rewrite Rj. rewrite nth_upd_other; [reflexivity|]. intro E. apply Hne. lia.
Qed.

(* growth through a struct field is lost: otto's machine and the shared list disagree *)
Theorem field_append_lost_refuted :
  exists elems cap ops, srun true false (sinit elems cap) ops <> srun true true (sinit elems cap) ops.
Proof. exists [], 0, [JPush (KI64, 5); JLen; GLen]. vm_compute. discriminate. Qed.

(* shrinking a slice handed over by value panics *)
Theorem slice_shrink_panics_refuted :
  exists elems cap ops, srun false false (sinit elems cap) ops = [o_err 9] /\
                        srun false true (sinit elems cap) ops = [o_num 3].
Proof. exists [1; 2; 3], 3, [JPop]. vm_compute. split; reflexivity. Qed.

(* ---- maps: store laws ---- *)

Lemma m_get_del_same : forall m k, m_get (m_del m k) k = None.
Proof.
  induction m as [|[k' v] m IH]; intro k; cbn; [reflexivity|].
  destruct (Z.eqb_spec k k'); [apply IH|]. cbn. destruct (Z.eqb_spec k k'); [contradiction | apply IH].
Qed.

Lemma m_get_del_other : forall m k k', k <> k' -> m_get (m_del m k) k' = m_get m k'.
Proof.
  induction m as [|[k0 v] m IH]; intros k k' H; cbn; [reflexivity|].
  destruct (Z.eqb_spec k k0).
  - subst k0. destruct (Z.eqb_spec k' k); [congruence | now apply IH].
  - cbn. destruct (Z.eqb_spec k' k0); [reflexivity | now apply IH].
Qed.

(* a script write is what Go reads and the other way round; other keys are untouched;
   a delete from either side is seen by both *)
Theorem map_alias : forall ideal m k v x,
  conv_elem ideal v = inl x ->
  let '(m1, _) := mstep ideal m (MJSet k v) in
  snd (mstep ideal m1 (MGGet k)) = o_num x /\ snd (mstep ideal m1 (MJGet k)) = o_num x /\
  (forall k', k' <> k -> snd (mstep ideal m1 (MGGet k')) = snd (mstep ideal m (MGGet k'))) /\
  snd (mstep ideal (fst (mstep ideal m1 (MGDel k))) (MJGet k)) = o_undef /\
  snd (mstep ideal (fst (mstep ideal m1 (MJDel k))) (MGGet k)) = o_undef.
Proof.
  intros ideal m k v x H. unfold mstep at 1. rewrite H.
  assert (G : m_get (m_set m k x) k = Some x) by (unfold m_set; cbn [m_get]; now rewrite Z.eqb_refl).
  assert (D : m_get (m_del (m_set m k x) k) k = None) by apply m_get_del_same.
  unfold mstep. cbn [fst snd]. rewrite G, D. repeat split.
  intros k' Hk. unfold m_set. cbn [m_get]. destruct (Z.eqb_spec k' k); [contradiction|].
  now rewrite m_get_del_other by congruence.
Qed.

Theorem map_go_write_seen : forall ideal m k x,
  snd (mstep ideal (fst (mstep ideal m (MGSet k x))) (MJGet k)) = o_num x.
Proof. intros. cbn [mstep fst snd m_set m_get]. now rewrite Z.eqb_refl. Qed.

(* ---- structs: fieldIndexByName ---- *)

(* what a successful lookup guarantees: the field is exported, not hidden by
   "-", and carries the name as its json tag or as its Go name *)
Lemma sub_index_sound : forall fs name i0 j,
  sub_index fs name i0 = Some j ->
  exists f, nth_error fs (j - i0) = Some f /\ (i0 <= j)%nat /\ sb_exp f = true /\ sb_tag f <> -1 /\
            ((sb_tag f <> 0 /\ sb_tag f = name) \/ sb_name f = name).
Proof.
  induction fs as [|f fs IH]; intros name i0 j H; cbn in H; [discriminate|].
  destruct (sb_exp f) eqn:E; cbn [negb] in H.
  - destruct (Z.eqb_spec (sb_tag f) 0) as [T0|T0]; cbn [negb andb] in H.
    + destruct (Z.eqb_spec (sb_name f) name) as [N|N].
      * injection H as <-. exists f. rewrite Nat.sub_diag. cbn. repeat split; auto; lia.
      * apply IH in H as (g & G1 & G2 & G3). exists g. split; [|split; [lia | exact G3]].
        replace (j - i0)%nat with (S (j - S i0)) by lia. exact G1.
    + destruct (Z.eqb_spec (sb_tag f) (-1)) as [T1|T1].
      * apply IH in H as (g & G1 & G2 & G3). exists g. split; [|split; [lia | exact G3]].
        replace (j - i0)%nat with (S (j - S i0)) by lia. exact G1.
      * destruct (Z.eqb_spec (sb_tag f) name) as [TN|TN].
        -- injection H as <-. exists f. rewrite Nat.sub_diag. cbn. repeat split; auto.
        -- destruct (Z.eqb_spec (sb_name f) name) as [N|N].
           ++ injection H as <-. exists f. rewrite Nat.sub_diag. cbn. repeat split; auto.
           ++ apply IH in H as (g & G1 & G2 & G3). exists g. split; [|split; [lia | exact G3]].
              replace (j - i0)%nat with (S (j - S i0)) by lia. exact G1.
  - apply IH in H as (g & G1 & G2 & G3). exists g. split; [|split; [lia | exact G3]].
    replace (j - i0)%nat with (S (j - S i0)) by lia. exact G1.
Qed.

Theorem field_index_sound : forall fs name i0 i,
  field_index fs name i0 = Some (i, None) ->
  exists f, nth_error fs (i - i0) = Some f /\ (i0 <= i)%nat /\ f_exp f = true /\ f_tag f <> -1 /\
            ((f_tag f <> 0 /\ f_tag f = name) \/ f_name f = name).
Proof.
  induction fs as [|f fs IH]; intros name i0 i H; cbn [field_index] in H; [discriminate|].
  assert (Next : forall H' : field_index fs name (S i0) = Some (i, None),
            exists g, nth_error (f :: fs) (i - i0) = Some g /\ (i0 <= i)%nat /\ f_exp g = true /\ f_tag g <> -1 /\
                      ((f_tag g <> 0 /\ f_tag g = name) \/ f_name g = name)).
  { intro H'. apply IH in H' as (g & G1 & G2 & G3). exists g. split; [|split; [lia | exact G3]].
    replace (i - i0)%nat with (S (i - S i0)) by lia. exact G1. }
  destruct (f_exp f) eqn:E; cbn [negb] in H; [|now apply Next].
  destruct (f_anon f) as [|sb subs]; [|destruct (sub_index (sb :: subs) name 0); [discriminate|]].
  all: destruct (Z.eqb_spec (f_tag f) 0) as [T0|T0]; cbn [negb andb] in H.
  all: try (destruct (Z.eqb_spec (f_name f) name) as [N|N]; [|now apply Next];
            injection H as <-; exists f; rewrite Nat.sub_diag; cbn; repeat split; auto; lia).
  all: destruct (Z.eqb_spec (f_tag f) (-1)) as [T1|T1]; [now apply Next|].
  all: destruct (Z.eqb_spec (f_tag f) name) as [TN|TN];
       [injection H as <-; exists f; rewrite Nat.sub_diag; cbn; repeat split; auto|].
  all: destruct (Z.eqb_spec (f_name f) name) as [N|N]; [|now apply Next].
  all: injection H as <-; exists f; rewrite Nat.sub_diag; cbn; repeat split; auto.
Qed.

Lemma path_get_set : forall v i j x,
  (i < length v)%nat -> (match j with Some j => j | None => O end < length (nth i v []))%nat ->
  path_get (path_set v (i, j) x) (i, j) = x.
Proof.
  intros v i j x Hi Hj. unfold path_get, path_set.
  set (jj := match j with Some j0 => j0 | None => O end) in *.
  assert (N : forall (l : list (list Z)) n y, (n < length l)%nat -> nth n (upd l n y) [] = y).
  { induction l; intros n y H; cbn in *; [lia|]. destruct n; cbn; [reflexivity | apply IHl; lia]. }
  rewrite N by assumption. now apply nth_upd_same.
Qed.

(* a script write to a name that resolves to a field is what the script reads
   back under that name and what Go finds in the field *)
Theorem struct_read_your_write : forall fs upper methods ideal s name v x p,
  field_index fs name O = Some p -> conv_field ideal v = inl x ->
  (fst p < length (vals s))%nat ->
  (match snd p with Some j => j | None => O end < length (nth (fst p) (vals s) []))%nat ->
  let '(s1, r) := tstep fs upper methods ideal s (TJSet name v) in
  r = o_ok /\
  snd (tstep fs upper methods ideal s1 (TJGet name)) = o_num x /\
  snd (tstep fs upper methods ideal s1 (TGGet p)) = o_num x.
Proof.
  intros fs upper methods ideal s name v x [i j] Hf Hc Hi Hj. cbn [fst snd] in Hi, Hj.
  assert (L : t_lookup fs upper methods name = Some (Some (i, j))) by (unfold t_lookup; now rewrite Hf).
  assert (T : tstep fs upper methods ideal s (TJSet name v) =
              (mkT (path_set (vals s) (i, j) x) (expando s), o_ok)).
  { unfold tstep. rewrite L, Hf, Hc. destruct ideal; reflexivity. }
  rewrite T. split; [reflexivity|].
  unfold tstep. rewrite L. cbn [snd vals].
  rewrite path_get_set by assumption. split; reflexivity.
Qed.

(* a field hidden by json:"-" is still found by the read path, not by the write path *)
Theorem dash_tag_write_dropped_refuted :
  exists fs upper s name v,
    let m := trun fs upper [] false s [TJSet name v; TJGet name] in
    let i := trun fs upper [] true s [TJSet name v; TJGet name] in
    m = [o_ok; o_num 4] /\ i = [o_ok; o_num 8].
Proof.
  exists [mkF 5 (-1) true []], (fun _ => true), (mkT [[4]] []), 5, (KI64, 8).
  vm_compute. split; reflexivity.
Qed.

(* a pointer parameter aliases the struct held by value in the pointer-bridged
   struct: after bump(h.C, by) through a *Inner parameter, the script and Go both read the new N *)
Theorem pointer_param_alias : forall st by_ js,
  (2 <= length st)%nat ->
  let '(st1, r) := pstep st (PBump 0 0 by_) in
  r = o_num (nth 0 st 0 + by_) /\ snd (pstep st1 (PRead js 0)) = o_num (nth 0 st 0 + by_) /\
  snd (pstep st1 (PRead js 1)) = o_num 1.
Proof.
  intros st by_ js H. destruct st as [|a [|b st]]; cbn in H; try lia.
  cbn. repeat split.
Qed.

(* a value parameter never does *)
Theorem value_param_copies : forall st t by_, fst (pstep st (PBump t 1 by_)) = st.
Proof.
  intros. unfold pstep, bump_aliases. cbn [fst].
  replace (1 =? 0) with false by reflexivity. replace (1 =? 2) with false by reflexivity.
  now rewrite !andb_false_r.
Qed.

(* ---- non-index properties of the wrapper ---- *)

(* histories without such properties are exactly the slice machine *)
Lemma sxrun_embed : forall addr ideal ops s,
  sxrun addr ideal (s, None) (map XS ops) = srun addr ideal s ops.
Proof.
  intros addr ideal. induction ops as [|o ops IH]; intro s; [reflexivity|].
  cbn [map sxrun srun]. destruct o; cbn [sxstep];
    try (destruct (sstep addr ideal s _) as [s' r] eqn:E; rewrite IH; reflexivity).
  - (* JKeys *) cbn [sstep]. rewrite Z.add_0_r. rewrite IH. reflexivity.
Qed.

(* delete of a non-index property: always true, the Go-side store is untouched,
   the property is gone afterwards *)
Theorem delete_nonindex_total : forall addr ideal s xp,
  let '((s', xp'), r) := sxstep addr ideal (s, xp) XDel in
  r = o_bool true /\ s' = s /\ xp' = None /\
  snd (sxstep addr ideal (s', xp') XGet) = o_undef /\
  snd (sxstep addr ideal (s', xp') XHas) = o_bool false.
Proof. intros. cbn. destruct addr; cbn; repeat split. Qed.

(* a write through a by-value element never changes the container, in otto's
   machine and in the ideal one, and is never answered with plain success *)
Theorem elem_write_refused : forall ideal st try cell v,
  fst (pxstep ideal st (PWriteElem try cell v)) = st /\
  snd (pxstep ideal st (PWriteElem try cell v)) <> o_ok.
Proof. intros. destruct ideal, try; cbn; split; auto; discriminate. Qed.

(* ---- keyed maps ---- *)

(* a name outside the key type's range denotes no key: it is never found, and
   no write or delete under it changes the map (integer key kinds) *)
Theorem key_out_of_range_is_no_key : forall ideal k n m v,
  is_float k = false -> in_range k n = false ->
  snd (kstep ideal (KKNum k) m (KGet (NInt n))) = o_undef /\
  snd (kstep ideal (KKNum k) m (KHas (NInt n))) = o_bool false /\
  fst (kstep ideal (KKNum k) m (KSet (NInt n) v)) = m /\
  fst (kstep ideal (KKNum k) m (KDel (NInt n))) = m.
Proof.
  intros ideal k n m v F R. unfold kstep, key_parse. rewrite F, R. repeat split.
Qed.

(* an in-range name is exactly the Go key: a script write is what Go reads *)
Theorem key_in_range_aliases : forall ideal k n m v x,
  is_float k = false -> in_range k n = true -> conv_elem ideal v = inl x ->
  let m1 := fst (kstep ideal (KKNum k) m (KSet (NInt n) v)) in
  snd (kstep ideal (KKNum k) m1 (KGGet n)) = o_num x /\
  snd (kstep ideal (KKNum k) m1 (KGet (NInt n))) = o_num x.
Proof.
  intros ideal k n m v x F R C. unfold kstep, key_parse. rewrite F, R, C.
  cbn [fst snd]. unfold m_set. cbn [m_get]. rewrite Z.eqb_refl. split; reflexivity.
Qed.

(* ---- named map types ---- *)

(* a live entry always wins over a method of the same name: it reads as its
   value, a write updates it, and Go sees the update *)
Theorem entry_shadows_method : forall ideal methods len_id m k v0 v x,
  m_get m k = Some v0 -> conv_elem ideal v = inl x ->
  snd (nstep ideal methods len_id m (NM (MJGet k))) = o_num v0 /\
  let m1 := fst (nstep ideal methods len_id m (NM (MJSet k v))) in
  snd (nstep ideal methods len_id m1 (NM (MJGet k))) = o_num x /\
  snd (nstep ideal methods len_id m1 (NM (MGGet k))) = o_num x.
Proof.
  intros ideal methods len_id m k v0 v x G C. unfold nstep. rewrite G, C. cbn [fst snd].
  split; [reflexivity|]. unfold mstep, m_set. cbn [m_get snd]. rewrite Z.eqb_refl. split; reflexivity.
Qed.

(* otto drops a write under a method name that is not yet a key *)
Theorem method_name_write_dropped_refuted :
  exists methods m k v,
    nrun false methods 0 m [NM (MJSet k v); NM (MGGet k)] = [o_ok; o_undef] /\
    nrun true methods 0 m [NM (MJSet k v); NM (MGGet k)] = [o_ok; o_num 5].
Proof. exists [7], [], 7, (KI64, 5). vm_compute. split; reflexivity. Qed.
