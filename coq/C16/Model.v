(* C16 — otto's Go bridge, numeric kernel.
   Transcription of runtime.go convertNumeric (call parameters, struct field
   stores, elements of converted slices/maps/variadic tails) and of value.go
   toReflectValue / value_number.go number(), toIntegerFloat (element stores
   into bridged []T, [N]T, map[K]T).

   A JS number inside otto is a Go value of one of twelve kinds (script
   literals are int64 or float64, |0 gives int32, >>>0 gives uint32, values
   put in by the host keep their Go kind).  It travels here as (kind, payload):
   payload = the integer for integer kinds, the bit pattern of the double for
   KF64 (and for KF32, a payload that only arises from a *float32 or a named
   float32 type and that Value.float64() handles since c3fcfac).  Float results are kept as exact dyadic values (Common.Double.dclass),
   so every statement below is plain Z arithmetic.

   Platform facts written into the model (amd64, trusted base):
   int64(f) for NaN / out of range f is -2^63; uint64(2^64) is 2^63; int and
   uint are 64 bit. *)
From Coq Require Import ZArith Bool List Lia.
From Otto Require Import Common.Double.
Import ListNotations.
Open Scope Z_scope.

Inductive nk := KI | KI8 | KI16 | KI32 | KI64 | KU | KU8 | KU16 | KU32 | KU64 | KF32 | KF64.

Definition nk_code (k : nk) : Z :=
  match k with
  | KI => 0 | KI8 => 1 | KI16 => 2 | KI32 => 3 | KI64 => 4
  | KU => 5 | KU8 => 6 | KU16 => 7 | KU32 => 8 | KU64 => 9
  | KF32 => 10 | KF64 => 11
  end.
Definition nk_eqb (a b : nk) : bool := nk_code a =? nk_code b.

Definition is_signed (k : nk) : bool :=
  match k with KI | KI8 | KI16 | KI32 | KI64 => true | _ => false end.
Definition is_unsigned (k : nk) : bool :=
  match k with KU | KU8 | KU16 | KU32 | KU64 => true | _ => false end.
Definition is_float (k : nk) : bool :=
  match k with KF32 | KF64 => true | _ => false end.

(* value range of the integer kinds *)
Definition kmin (k : nk) : Z :=
  match k with
  | KI8 => - 2 ^ 7 | KI16 => - 2 ^ 15 | KI32 => - 2 ^ 31 | KI | KI64 => - 2 ^ 63
  | _ => 0
  end.
Definition kmax (k : nk) : Z :=
  match k with
  | KI8 => 2 ^ 7 - 1 | KI16 => 2 ^ 15 - 1 | KI32 => 2 ^ 31 - 1 | KI | KI64 => 2 ^ 63 - 1
  | KU8 => 2 ^ 8 - 1 | KU16 => 2 ^ 16 - 1 | KU32 => 2 ^ 32 - 1 | KU | KU64 => 2 ^ 64 - 1
  | KF32 | KF64 => 0
  end.
Definition in_range (k : nk) (n : Z) : bool := (kmin k <=? n) && (n <=? kmax k).

(* ---- dyadic values ---- *)

(* compare a1 * 2^e1 with a2 * 2^e2 (signed a) *)
Definition dy_cmp (a1 e1 a2 e2 : Z) : comparison :=
  let mn := Z.min e1 e2 in
  Z.compare (a1 * 2 ^ (e1 - mn)) (a2 * 2 ^ (e2 - mn)).

Definition dy_eqb (a1 e1 a2 e2 : Z) : bool :=
  match dy_cmp a1 e1 a2 e2 with Eq => true | _ => false end.

(* same IEEE value: same class, same sign (so -0 <> +0), same real *)
Definition dc_eqb (a b : dclass) : bool :=
  match a, b with
  | DNaN, DNaN => true
  | DInf s, DInf s' => Bool.eqb s s'
  | DFin s m e, DFin s' m' e' => Bool.eqb s s' && dy_eqb m e m' e'
  | _, _ => false
  end.

(* an integer as a dyadic value *)
Definition dc_of_int (n : Z) : dclass := DFin (n <? 0) (Z.abs n) 0.

(* the integer a double holds, if it holds one *)
Definition dc_int (d : dclass) : option Z :=
  match d with
  | DFin neg m e => if is_integral m e then Some (if neg then - trunc_mag m e else trunc_mag m e) else None
  | _ => None
  end.

(* float32(x) for a double x: round to nearest, ties to even, 24-bit
   significand, quantum 2^-149.  Only used below the float32 overflow
   threshold (both callers check that first). *)
Definition round32 (d : dclass) : dclass :=
  match d with
  | DFin neg m e =>
      if m =? 0 then d else
      let k := Z.log2 m + e in
      let q := Z.max (k - 23) (-149) in
      if q <=? e then d else
      let s := q - e in
      let qv := m / 2 ^ s in
      let r := m mod 2 ^ s in
      let half := 2 ^ (s - 1) in
      let m' := if r <? half then qv else if half <? r then qv + 1
                else if Z.even qv then qv else qv + 1 in
      DFin neg m' q
  | _ => d
  end.

Definition max_f32_m : Z := 2 ^ 24 - 1.
Definition max_f32_e : Z := 104.

(* reflect.Value.OverflowFloat for float32: MaxFloat32 < |x| <= MaxFloat64 *)
Definition overflow32 (d : dclass) : bool :=
  match d with
  | DFin _ m e => match dy_cmp m e max_f32_m max_f32_e with Gt => true | _ => false end
  | _ => false
  end.

(* Go's int64(f) on amd64 (CVTTSD2SQ): truncation; NaN and out of range give -2^63 *)
Definition go_int64 (d : dclass) : Z :=
  match d with
  | DFin neg m e =>
      let v := if neg then - trunc_mag m e else trunc_mag m e in
      if (- 2 ^ 63 <=? v) && (v <? 2 ^ 63) then v else - 2 ^ 63
  | _ => - 2 ^ 63
  end.

(* float64(i) != f as Go compares floats (NaN differs from everything, -0 = +0) *)
Definition f64_ne_int (i : Z) (d : dclass) : bool :=
  match dc_int d with
  | Some v => negb (v =? round_to_double i)
  | None => true
  end.

(* float64(n) and float32(float64(n)): reflect's cvtIntFloat / cvtUintFloat
   go through float64 for both widths *)
Definition f64_of_int (n : Z) : dclass := dc_of_int (round_to_double n).
Definition f32_of_int (n : Z) : dclass := round32 (f64_of_int n).

(* ---- outcomes ---- *)
(* error classes as in harness/lib: 3 RangeError, 6 TypeError, 9 Go panic escaping Run *)
Inductive outcome :=
| OkI (k : nk) (n : Z)          (* a Go integer of kind k *)
| OkF (k : nk) (d : dclass)     (* a Go float32/float64 with this exact value *)
| Err (cls : Z).

Definition outcome_eqb (a b : outcome) : bool :=
  match a, b with
  | OkI k n, OkI k' n' => nk_eqb k k' && (n =? n')
  | OkF k d, OkF k' d' => nk_eqb k k' && dc_eqb d d'
  | Err c, Err c' => c =? c'
  | _, _ => false
  end.

(* a JS number as otto holds it *)
Definition src := (nk * Z)%type.

Definition src_value (s : src) : outcome :=
  let '(k, p) := s in
  if is_float k then OkF k (decode p) else OkI k p.

(* ---- runtime.go convertNumeric ---- *)

Definition from_signed (i : Z) (t : nk) : outcome :=
  if is_signed t then (if in_range t i then OkI t i else Err 3)
  else if is_unsigned t then
    (if i <? 0 then Err 3 else if kmax t <? i then Err 3 else OkI t i)
  else match t with
       | KF32 => OkF KF32 (f32_of_int i)
       | _ => OkF KF64 (f64_of_int i)
       end.

Definition from_unsigned (u : Z) (t : nk) : outcome :=
  if is_signed t then (if (2 ^ 63 - 1 <? u) || negb (in_range t u) then Err 3 else OkI t u)
  else if is_unsigned t then (if kmax t <? u then Err 3 else OkI t u)
  else match t with
       | KF32 => OkF KF32 (f32_of_int u)
       | _ => OkF KF64 (f64_of_int u)
       end.

Definition convertNumeric (s : src) (t : nk) : outcome :=
  let '(k, p) := s in
  if nk_eqb k t then src_value s
  else if is_float k then
    let d := decode p in
    match t with
    | KF64 => OkF KF64 d
    | KF32 => if overflow32 d then Err 3 else OkF KF32 (round32 d)
    | _ => let i := go_int64 d in
           if f64_ne_int i d then Err 3 else from_signed i t
    end
  else if is_signed k then from_signed p t
  else from_unsigned p t.

(* ---- value.go toReflectValue (stores into bridged containers) ---- *)

(* what is stored: a JS number, or a primitive that is coerced by Value.float64() *)
Inductive sval :=
| SNum (s : src)
| SBool (b : bool)
| SNull
| SUndef
| SStr (tonum : Z).   (* a string; the double parseNumber gives for it (bits) *)

(* Value.float64() *)
Definition sv_float (v : sval) : dclass :=
  match v with
  | SNum (k, p) => if is_float k then decode p else f64_of_int p
  | SBool b => dc_of_int (if b then 1 else 0)
  | SNull => dc_of_int 0
  | SUndef => DNaN
  | SStr bits => decode bits
  end.

(* the "frac > 0" guard: only for float64 payloads, only positive fractions *)
Definition frac_guard (v : sval) : bool :=
  match v with
  | SNum (KF64, p) | SNum (KF32, p) =>
      match decode p with
      | DFin false m e => negb (is_integral m e)
      | _ => false
      end
  | _ => false
  end.

(* Value.number().int64 *)
Definition number_int64 (v : sval) : Z :=
  let via_float :=
    match sv_float v with
    | DNaN => 0
    | DInf neg => if neg then - 2 ^ 63 else 2 ^ 63 - 1
    | DFin neg m e =>
        if m =? 0 then 0 else
        let t := if neg then - trunc_mag m e else trunc_mag m e in
        (* float >= 2^63 / float <= -2^63 saturate; otherwise int64(float) truncates *)
        match dy_cmp (if neg then - m else m) e (2 ^ 63) 0 with
        | Lt => match dy_cmp (if neg then - m else m) e (- 2 ^ 63) 0 with
                | Gt => t
                | _ => - 2 ^ 63
                end
        | _ => 2 ^ 63 - 1
        end
    end in
  match v with
  | SNum (k, p) =>
      match k with
      | KI8 | KI16 | KU8 | KU16 | KU32 | KI | KI64 => p
      | _ => via_float
      end
  | _ => via_float
  end.

(* toIntegerFloat: NaN -> 0, otherwise truncation toward zero, infinities kept *)
Definition to_integer_float (v : sval) : dclass :=
  match sv_float v with
  | DNaN => dc_of_int 0
  | DInf s => DInf s
  | DFin neg m e => DFin neg (trunc_mag m e) 0
  end.

(* panics raised by a failed store are plain Go errors: they escape Run (class 9) *)
Definition store_err : outcome := Err 9.

Definition toReflectNum (v : sval) (t : nk) : outcome :=
  if negb (is_float t) && frac_guard v then store_err else
  match t with
  | KI8 | KI16 | KI32 | KU8 | KU16 | KU32 =>
      let n := number_int64 v in
      if in_range t n then OkI t n else store_err
  | KI | KI64 =>
      match to_integer_float v with
      | DFin neg m _ =>
          let x := if neg then - m else m in
          (* tmp < -2^63 || tmp > 2^63 (the float constants) *)
          if (x <? - 2 ^ 63) || (2 ^ 63 <? x) then store_err
          else OkI t (if x =? 2 ^ 63 then - 2 ^ 63 else x)
      | _ => store_err
      end
  | KU | KU64 =>
      match to_integer_float v with
      | DFin neg m _ =>
          let x := if neg then - m else m in
          if (x <? 0) || (2 ^ 64 <? x) then store_err
          else OkI t (if x =? 2 ^ 64 then 2 ^ 63 else x)
      | _ => store_err
      end
  | KF32 =>
      match sv_float v with
      | DNaN => OkF KF32 DNaN
      | DInf _ => store_err
      | DFin neg m e =>
          if m =? 0 then OkF KF32 (DFin neg 0 e)
          else match dy_cmp m e 1 (-149), dy_cmp m e max_f32_m max_f32_e with
               | Lt, _ => store_err
               | _, Gt => store_err
               | _, _ => OkF KF32 (round32 (DFin neg m e))
               end
      end
  | KF64 => OkF KF64 (sv_float v)
  end.

(* ---- the exact conversion the property asks for ---- *)

(* the real number (or NaN / infinity) a stored value denotes after ToNumber *)
Definition sv_denote (v : sval) : dclass :=
  match v with
  | SNum (k, p) => if is_float k then decode p else dc_of_int p
  | _ => sv_float v
  end.

(* is d exactly a float32 *)
Definition f32_exact (d : dclass) : bool :=
  match d with
  | DFin _ m e => negb (overflow32 d) && dc_eqb (round32 d) d
  | _ => true
  end.

(* is d exactly a float64 (only integers beyond 2^53 can fail) *)
Definition f64_exact (d : dclass) : bool :=
  match dc_int d with
  | Some n => round_to_double n =? n
  | None => true
  end.

(* a float32 is also a float64, so both tests for the narrow width *)
Definition exact_for (d : dclass) (t : nk) : bool :=
  match t with
  | KF32 => f32_exact d && f64_exact d
  | KF64 => f64_exact d
  | _ => true
  end.

(* Ok with exactly the same number, or RangeError: never another number *)
Definition ideal (d : dclass) (t : nk) : outcome :=
  if is_float t then
    (if exact_for d t then OkF t d else Err 3)
  else match dc_int d with
       | Some n => if in_range t n then OkI t n else Err 3
       | None => Err 3
       end.

Definition is_err (o : outcome) : bool := match o with Err _ => true | _ => false end.

(* The acceptable behaviour closest to what the code does: what the code
   returns when that is the exact value; a RangeError when the code fails or
   when it would hand over a different number. *)
Definition accept (model : outcome) (d : dclass) (t : nk) : outcome :=
  match model with
  | Err c => if c =? 9 then Err 3 else model
  | _ => if outcome_eqb model (ideal d t) then model else Err 3
  end.

Definition spec_convert (s : src) (t : nk) : outcome :=
  accept (convertNumeric s t) (sv_denote (SNum s)) t.
Definition spec_store (v : sval) (t : nk) : outcome :=
  accept (toReflectNum v t) (sv_denote v) t.

(* well-formed sources: the payload fits its kind *)
Definition src_wf (s : src) : bool :=
  let '(k, p) := s in
  match k with
  | KF32 | KF64 => (0 <=? p) && (p <? 2 ^ 64)   (* a float32 payload travels as the bits of the double with the same value *)
  | _ => in_range k p
  end.

(* ---- runtime.go, reflect.Func wrapper: argument count and parameter types ---- *)

(* the count check: 0 = call proceeds, 3 = RangeError *)
Definition arity_check (nargs : Z) (variadic : bool) (len : Z) : Z :=
  if len =? nargs then 0
  else if variadic then (if len <? nargs - 1 then 3 else 0)
  else 3.

(* for argument i: index n of the declared parameter whose type is used, and
   whether the element type of that (slice) parameter is taken *)
Definition param_for (nargs : Z) (variadic : bool) (i : Z) : Z * bool :=
  if (nargs - 1 <=? i) && variadic
  then ((if nargs - 1 <? i then nargs - 1 else i), true)
  else (i, false).

(* number of fixed arguments and length of the variadic tail handed to the Go function *)
Definition call_shape (nargs : Z) (variadic : bool) (len : Z) : Z * Z :=
  if variadic then (nargs - 1, len - (nargs - 1)) else (len, 0).
