(* C16 — structural part of the bridge: runtime.go convertCallParameter
   (dispatch order, element-wise construction of slices, maps, structs,
   pointers, interface{} through Value.export), the reflect.Func wrapper
   (arity, variadic tail, the "last argument is the whole tail" rule) and the
   way return values come back.

   JS values are first-order trees; Go types and Go values likewise.  Property
   names / map keys / field names are integers standing for identifiers (the
   harness keeps the table).  Numeric leaves go through Model.convertNumeric. *)
From Coq Require Import ZArith Bool List Lia.
From Otto Require Import Common.Double C16.Model C16.ModelCont.
Import ListNotations.
Open Scope Z_scope.

Inductive jsv :=
| JUndef | JNull
| JBool (b : bool)
| JNum (s : src)
| JStr (u : list Z)                    (* UTF-16 units *)
| JArr (elems : list (option jsv))     (* None = hole *)
| JObj (props : list (Z * jsv))        (* plain object, properties in insertion order *)
| JFun (nparams : Z).                   (* a function; its length property is the number of declared parameters *)

Inductive gty :=
| TNum (k : nk) | TBool | TStr | TAny
| TSlice (e : gty) | TMap (e : gty) | TPtr (e : gty)
| TStruct (fs : list fld) (tys : list gty)
| TFunc.                                     (* func(int) *)   (* field table (ModelCont.fld, no embedding) + field types *)

Inductive gv :=
| GVI (k : nk) (n : Z)
| GVF (k : nk) (d : dclass)
| GVBool (b : bool)
| GVStr (u : list Z)
| GVNil                                 (* nil interface / nil pointer / nil func *)
| GVFunc                                (* a non-nil func value *)
| GVSlice (l : list gv)                 (* nil and empty slices are not distinguished *)
| GVMap (l : list (Z * gv))             (* sorted by key *)
| GVStruct (l : list gv)
| GVPtr (v : gv).

(* result: a value, an error of class c visible to the script, or outside the modelled domain *)
Inductive cres := CV (g : gv) | CE (c : Z) | CDecl.

(* ---- helpers ---- *)

Fixpoint digits_fuel (fuel : nat) (n : Z) (acc : list Z) : list Z :=
  match fuel with
  | O => acc
  | S f => if n <? 10 then (48 + n) :: acc else digits_fuel f (n / 10) ((48 + n mod 10) :: acc)
  end.
Definition dec_units (n : Z) : list Z :=
  if n <? 0 then 45 :: digits_fuel 25 (- n) [] else digits_fuel 25 n [].

Definition units_true : list Z := [116; 114; 117; 101].
Definition units_false : list Z := [102; 97; 108; 115; 101].
Definition units_null : list Z := [110; 117; 108; 108].
Definition units_undefined : list Z := [117; 110; 100; 101; 102; 105; 110; 101; 100].

(* fmt.Sprintf("%v", number): decimal for integer payloads; for a float64 only
   integral values below 10^6 are modelled (there %v is positional; -0 prints "-0") *)
Definition num_to_go_string (ideal : bool) (s : src) : option (list Z) :=
  let '(k, p) := s in
  if is_float k then
    match decode p with
    | DFin neg m e =>
        if is_integral m e && (trunc_mag m e <? 1000000) then
          let n := trunc_mag m e in
          Some (if neg && (negb ideal || negb (n =? 0)) then 45 :: dec_units n else dec_units n)
        else None
    | _ => None
    end
  else Some (dec_units p).

(* Value.bool() = ToBoolean *)
Definition to_bool (v : jsv) : bool :=
  match v with
  | JUndef | JNull => false
  | JBool b => b
  | JNum (k, p) =>
      if is_float k then
        match decode p with DFin _ m _ => negb (m =? 0) | DNaN => false | DInf _ => true end
      else negb (p =? 0)
  | JStr u => match u with [] => false | _ => true end
  | _ => true
  end.

Fixpoint zero (fuel : nat) (t : gty) : gv :=
  match fuel with
  | O => GVNil
  | S f =>
      match t with
      | TNum k => if is_float k then GVF k (DFin false 0 0) else GVI k 0
      | TBool => GVBool false
      | TStr => GVStr []
      | TAny | TPtr _ | TFunc => GVNil
      | TSlice _ => GVSlice []
      | TMap _ => GVMap []
      | TStruct _ tys => GVStruct (map (zero f) tys)
      end
  end.

(* insertion into a key-sorted association list (later writes replace) *)
Fixpoint kv_insert (k : Z) (g : gv) (l : list (Z * gv)) : list (Z * gv) :=
  match l with
  | [] => [(k, g)]
  | (k', g') :: l' =>
      if k <? k' then (k, g) :: l
      else if k =? k' then (k, g) :: l'
      else (k', g') :: kv_insert k g l'
  end.

Definition gv_of_outcome (o : outcome) : cres :=
  match o with
  | OkI k n => CV (GVI k n)
  | OkF k d => CV (GVF k d)
  | Err c => CE c
  end.

(* ---- Value.export() as it is used for interface{} parameters ---- *)
Section Export.
Variable export : jsv -> option gv.     (* None: outside the modelled domain *)
Fixpoint export_elems (l : list (option jsv)) : option (list gv) :=
  match l with
  | [] => Some []
  | None :: l' => export_elems l'                       (* holes are skipped *)
  | Some x :: l' =>
      match export x, export_elems l' with
      | Some g, Some gs => Some (g :: gs)
      | _, _ => None
      end
  end.
Fixpoint export_props (l : list (Z * jsv)) (acc : list (Z * gv)) : option (list (Z * gv)) :=
  match l with
  | [] => Some acc
  | (k, JUndef) :: l' => export_props l' acc            (* undefined-valued properties are dropped *)
  | (k, x) :: l' =>
      match export x with
      | Some g => export_props l' (kv_insert k g acc)
      | None => None
      end
  end.
End Export.

Fixpoint export (fuel : nat) (v : jsv) : option gv :=
  match fuel with
  | O => None
  | S f =>
      match v with
      | JUndef | JNull => Some GVNil
      | JBool b => Some (GVBool b)
      | JNum (k, p) => Some (if is_float k then GVF k (decode p) else GVI k p)
      | JStr u => Some (GVStr u)
      | JArr l => option_map GVSlice (export_elems (export f) l)
      | JObj l => option_map GVMap (export_props (export f) l [])
      | JFun _ => Some (GVMap [])                 (* a function exports as an object without enumerable members *)
      end
  end.

(* ---- convertCallParameter ---- *)
Section Conv.
Variable conv : jsv -> gty -> cres.

Fixpoint conv_elems (l : list (option jsv)) (e : gty) (z : gv) : cres + list gv :=
  match l with
  | [] => inr []
  | None :: l' =>
      match conv_elems l' e z with inr gs => inr (z :: gs) | inl r => inl r end
  | Some x :: l' =>
      match conv x e with
      | CV g => match conv_elems l' e z with inr gs => inr (g :: gs) | inl r => inl r end
      | r => inl r
      end
  end.

Fixpoint conv_props (l : list (Z * jsv)) (e : gty) (acc : list (Z * gv)) : cres :=
  match l with
  | [] => CV (GVMap acc)
  | (k, x) :: l' =>
      match conv x e with
      | CV g => conv_props l' e (kv_insert k g acc)
      | r => r
      end
  end.

Fixpoint conv_fields (l : list (Z * jsv)) (fs : list fld) (tys : list gty) (acc : list gv) : cres :=
  match l with
  | [] => CV (GVStruct acc)
  | (k, x) :: l' =>
      match field_index fs k O with
      | Some (i, _) =>
          match conv x (nth i tys TAny) with
          | CV g => conv_fields l' fs tys (upd acc i g)
          | r => r
          end
      | None => CE 6
      end
  end.
End Conv.

Fixpoint conv (ideal ideal_s : bool) (fuel : nat) (v : jsv) (t : gty) : cres :=
  match fuel with
  | O => CDecl
  | S f =>
      match t with
      | TAny => match export fuel v with Some g => CV g | None => CDecl end
      | TPtr e =>
          match v with
          | JUndef | JNull => CV GVNil
          | _ => match conv ideal ideal_s f v e with CV g => CV (GVPtr g) | r => r end
          end
      | TBool => CV (GVBool (to_bool v))
      | TStr =>
          match v with
          | JStr u => CV (GVStr u)
          | JNum s => match num_to_go_string ideal_s s with Some u => CV (GVStr u) | None => CDecl end
          | JBool b => CV (GVStr (if b then units_true else units_false))
          | JNull => CV (GVStr units_null)
          | JUndef => CV (GVStr units_undefined)
          | _ => CDecl                                   (* objects: toString() is called *)
          end
      | TNum k =>
          match v with
          | JNum s => if src_wf s then gv_of_outcome (if ideal then spec_convert s k else convertNumeric s k) else CDecl
          | _ => CE 6
          end
      | TSlice e =>
          match v with
          | JArr l =>
              match conv_elems (conv ideal ideal_s f) l e (zero fuel e) with
              | inr gs => CV (GVSlice gs)
              | inl r => r
              end
          | _ => CE 6
          end
      | TMap e =>
          match v with
          | JObj l => conv_props (conv ideal ideal_s f) l e []
          | JArr _ => CDecl
          | JFun _ => CV (GVMap [])
          | _ => CE 6
          end
      | TStruct fs tys =>
          match v with
          | JObj l => conv_fields (conv ideal ideal_s f) l fs tys (map (zero fuel) tys)
          | _ => CE 6
          end
      | TFunc => match v with JFun _ => CV GVFunc | _ => CE 6 end
      end
  end.

(* ---- the reflect.Func wrapper ---- *)

(* what the Go function receives: the fixed arguments, then the variadic tail as one slice *)
Fixpoint conv_args (ideal ideal_s : bool) (fuel : nat) (args : list jsv) (tys : list gty) : cres + list gv :=
  match args, tys with
  | [], _ => inr []
  | a :: args', t :: tys' =>
      match conv ideal ideal_s fuel a t with
      | CV g => match conv_args ideal ideal_s fuel args' tys' with inr gs => inr (g :: gs) | inl r => inl r end
      | r => inl r
      end
  | _ :: _, [] => inl CDecl
  end.

Fixpoint conv_all (ideal ideal_s : bool) (fuel : nat) (args : list jsv) (t : gty) : cres + list gv :=
  match args with
  | [] => inr []
  | a :: args' =>
      match conv ideal ideal_s fuel a t with
      | CV g => match conv_all ideal ideal_s fuel args' t with inr gs => inr (g :: gs) | inl r => inl r end
      | r => inl r
      end
  end.

Definition call (ideal ideal_s : bool) (fuel : nat) (tys : list gty) (variadic : bool) (args : list jsv) : cres :=
  let nargs := Z.of_nat (length tys) in
  let len := Z.of_nat (length args) in
  if negb (arity_check nargs variadic len =? 0) then CE 3 else
  if variadic then
    let nfix := (length tys - 1)%nat in
    let fixedT := firstn nfix tys in
    let lastT := nth nfix tys TAny in
    let elemT := match lastT with TSlice e => e | _ => TAny end in
    match conv_args ideal ideal_s fuel (firstn nfix args) fixedT with
    | inl r => r
    | inr fixed =>
        let rest := skipn nfix args in
        let elementwise :=
          match conv_all ideal ideal_s fuel rest elemT with
          | inr gs => CV (GVStruct (fixed ++ [GVSlice gs]))
          | inl r => r
          end in
        match rest with
        | [a] =>
            (* exactly nargs arguments: first try the last one as the whole tail *)
            match conv ideal ideal_s fuel a lastT with
            | CV g => CV (GVStruct (fixed ++ [g]))
            | CE 3 => CE 3                 (* a RangeError raised inside is a panic: no second attempt *)
            | CE _ => elementwise
            | CDecl => CDecl
            end
        | _ => elementwise
        end
    end
  else
    match conv_args ideal ideal_s fuel args tys with
    | inr gs => CV (GVStruct gs)
    | inl r => r
    end.

(* ---- return values: what the script sees ---- *)
Inductive jobs :=
| JoNum (d : dclass) | JoStr (u : list Z) | JoBool (b : bool) | JoUndef | JoOther.

Definition ret_one (g : gv) : jobs :=
  match g with
  | GVI _ n => JoNum (f64_of_int n)
  | GVF _ d => JoNum d
  | GVBool b => JoBool b
  | GVStr u => JoStr u
  | _ => JoOther
  end.

(* no result: undefined; one: the value; several: an array of them *)
Definition ret_values (l : list gv) : list jobs := map ret_one l.

(* results kept over a history of calls.  A nil error comes back as undefined, a
   non-nil error (written GVPtr (GVStr msg) here) as an object whose Error()
   gives msg.  Call number j of the history returns row (nth j calls) of the
   table; whatever is called afterwards, the value kept from call j still
   shows that row. *)
Definition ret_one_h (g : gv) : jobs :=
  match g with
  | GVNil => JoUndef
  | GVPtr (GVStr u) => JoStr u
  | _ => ret_one g
  end.
Definition ret_seen (row : list gv) : list jobs :=
  match row with [] => [JoUndef] | _ => map ret_one_h row end.
Definition ret_hist (rows : list (list gv)) (calls : list Z) : list (list jobs) :=
  map (fun i => ret_seen (nth (Z.to_nat i) rows [])) calls.

(* a Go value of a NAMED scalar type (type T uint64, int8, float32, bool, string ...)
   reaching a script: the kind and the exact value are kept (toValue's reflect
   branch), so the script sees the nearest double / the bool / the string, Export
   gives back a value of that kind, and a parameter of that kind receives it unchanged *)
Definition named_seen (g : gv) : jobs * gv * cres := (ret_one g, g, CV g).

(* a JavaScript function passed where Go expects a func type (convertCallParameter,
   reflect.Func case): Go calls it; the callback sees the Go arguments; its
   result is converted against the declared result type by the same checked
   conversion -- undefined is not an int -- and a failure, or an exception thrown
   by the callback, surfaces at the bridged call that triggered it.  Func types
   with more than one result are refused when the callback is converted. *)
Inductive cbty := RNone | ROne (t : gty) | RErr | RTwo.
Inductive cbret := CbRet (v : jsv) | CbThrow (cls : Z).

Definition cb_args (rt : cbty) (nparams : Z) : list Z :=
  match rt with RTwo => [] | _ => map (fun i => 11 + Z.of_nat i) (seq 0 (Z.to_nat nparams)) end.

Definition cb_call (idn ids : bool) (rt : cbty) (r : cbret) : cres :=
  match rt with
  | RTwo => CE 6
  | _ =>
      match r with
      | CbThrow c => CE c
      | CbRet v =>
          match rt with
          | RNone => CV GVNil
          | ROne t => conv idn ids 12 v t
          | RErr => match v with JUndef | JNull => CV GVNil | JFun _ => CDecl | _ => CE 6 end
          | RTwo => CE 6
          end
      end
  end.

(* ---- re-entrancy: script code that runs while the arguments of a call are
   being converted (toString of an object given for a string parameter, a
   getter read while a map / struct / slice parameter is built) may call
   bridged functions itself.  Every parameter carries one integer here (the
   number, the id of the string, the value under the key / in the field, the
   length).  The Go side logs each call when it happens. ---- *)
Inductive rcall := RCall (f : Z) (args : list rarg)
with rarg :=
| RVal (v : Z)                          (* a plain value *)
| RRe (inner : list rcall) (v : Z)      (* runs the inner calls, then yields v *)
| RReFail (inner : list rcall).         (* runs the inner calls, then the conversion fails with a TypeError
                                           (an object that only has a length getter, given for a slice parameter) *)

Definition rarg_val (a : rarg) : Z := match a with RVal v => v | RRe _ v => v | RReFail _ => 0 end.

(* a sequence of calls; the first failure aborts the rest *)
Section Seq.
Variable ev : rcall -> list (Z * list Z) * bool.
Fixpoint ev_seq (cs : list rcall) : list (Z * list Z) * bool :=
  match cs with
  | [] => ([], true)
  | c :: r =>
      let '(l, ok) := ev c in
      if ok then let '(l2, ok2) := ev_seq r in (l ++ l2, ok2) else (l, false)
  end.
(* the conversion of the arguments, left to right *)
Fixpoint ev_args (l : list rarg) : list (Z * list Z) * bool :=
  match l with
  | [] => ([], true)
  | RVal _ :: r => ev_args r
  | RRe inner _ :: r =>
      let '(l1, ok) := ev_seq inner in
      if ok then let '(l2, ok2) := ev_args r in (l1 ++ l2, ok2) else (l1, false)
  | RReFail inner :: _ => let '(l1, _) := ev_seq inner in (l1, false)
  end.
End Seq.

(* the log of (function, received values), and whether the call completed:
   arguments are converted left to right, each nested call completes (and is
   logged) before the conversion of the argument that triggered it returns;
   the outer call is logged last, with ITS OWN argument values; a failed
   conversion aborts the call (it is never logged) and everything around it *)
Fixpoint ev_call (fuel : nat) (c : rcall) : list (Z * list Z) * bool :=
  match fuel with
  | O => ([], true)
  | S f =>
      match c with
      | RCall fn args =>
          let '(lg, ok) := ev_args (ev_call f) args in
          if ok then (lg ++ [(fn, map rarg_val args)], true) else (lg, false)
      end
  end.

Definition ev_script (fuel : nat) (cs : list rcall) : list (Z * list Z) * bool := ev_seq (ev_call fuel) cs.

(* ---- structural equality of observations ---- *)
Fixpoint gv_eqb (a b : gv) : bool :=
  match a, b with
  | GVI k n, GVI k' n' => nk_eqb k k' && (n =? n')
  | GVF k d, GVF k' d' => nk_eqb k k' && dc_eqb d d'
  | GVBool x, GVBool y => Bool.eqb x y
  | GVStr u, GVStr u' => (fix go (l l' : list Z) := match l, l' with
                                                      | [], [] => true
                                                      | x :: r, y :: r' => (x =? y) && go r r'
                                                      | _, _ => false end) u u'
  | GVNil, GVNil => true
  | GVFunc, GVFunc => true
  | GVSlice l, GVSlice l' | GVStruct l, GVStruct l' =>
      (fix go (l l' : list gv) := match l, l' with
                                  | [], [] => true
                                  | x :: r, y :: r' => gv_eqb x y && go r r'
                                  | _, _ => false end) l l'
  | GVMap l, GVMap l' =>
      (fix go (l l' : list (Z * gv)) := match l, l' with
                                        | [], [] => true
                                        | (k, x) :: r, (k', y) :: r' => (k =? k') && gv_eqb x y && go r r'
                                        | _, _ => false end) l l'
  | GVPtr x, GVPtr y => gv_eqb x y
  | _, _ => false
  end.

Definition cres_eqb (a b : cres) : bool :=
  match a, b with
  | CV x, CV y => gv_eqb x y
  | CE c, CE c' => c =? c'
  | CDecl, CDecl => true
  | _, _ => false
  end.

Definition jobs_eqb (a b : jobs) : bool :=
  match a, b with
  | JoNum d, JoNum d' => dc_eqb d d'
  | JoStr u, JoStr u' => gv_eqb (GVStr u) (GVStr u')
  | JoBool x, JoBool y => Bool.eqb x y
  | JoUndef, JoUndef => true
  | JoOther, JoOther => true
  | _, _ => false
  end.
