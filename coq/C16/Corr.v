(* correspondence cases for C16: what the harness observed on the real
   interpreter against Model (otto's bridge code) and the exact-or-error
   conversion the property asks for *)
From Coq Require Import ZArith Bool List.
From Otto Require Import Common.Corr Common.Double C16.Model.
Import ListNotations.
Open Scope Z_scope.

(* what the harness saw: a Go integer / float (bits of the double that holds
   it) of some kind, an error class (3 RangeError, 6 TypeError, 9 Go panic
   escaped, ...), or something of another shape altogether *)
Inductive obs :=
| ObI (k : nk) (n : Z)
| ObF (k : nk) (bits : Z)
| ObE (cls : Z)
| ObOther.

Definition obs_out (o : obs) : outcome :=
  match o with
  | ObI k n => OkI k n
  | ObF k b => OkF k (decode b)
  | ObE c => Err c
  | ObOther => Err (-1)
  end.

Inductive case :=
(* a JS number reaching a Go parameter / struct field / element of a converted
   slice, map, variadic tail, pointer (path tells which; same conversion) *)
| CNum (path : Z) (s : src) (t : nk) (o : obs)
(* element store into a bridged []T / *[N]T / map[string]T; then the value the
   script reads back (bits) when the store succeeded *)
| CStore (cont : Z) (v : sval) (t : nk) (o : obs) (js : option Z)
(* call with len arguments of a function with nargs parameters: error class
   (0 none) and how many fixed / variadic-tail values the function received *)
| CArity (nargs : Z) (variadic : bool) (len : Z) (err : Z) (fixed tail : Z).

(* what a script reads from a bridged numeric element: the double nearest to it *)
Definition js_read (o : outcome) : option dclass :=
  match o with
  | OkI _ n => Some (f64_of_int n)
  | OkF _ d => Some d
  | Err _ => None
  end.

Definition odc_eqb := option_eqb dc_eqb.
Definition pair_eqb (a b : outcome * option dclass) : bool :=
  outcome_eqb (fst a) (fst b) && odc_eqb (snd a) (snd b).

(* finding classes
   1  call / field path: a float target is rounded silently (float32, or int64/uint64 -> float64)
   2  store: NaN, non-numbers and negative fractions are silently zeroed / truncated
   3  store: 2^63 into int64 / 2^64 into uint64 wrap silently
   4  store: silently rounded (float32 element, 64-bit integers through float64)
   5  store: a failed conversion is a Go panic escaping Run, not a RangeError *)
Definition store_class (v : sval) (t : nk) : Z :=
  match toReflectNum v t with
  | Err _ => 5
  | _ =>
      if is_float t then 4 else
      match sv_denote v with
      | DFin neg m e =>
          if negb (is_integral m e) then 2
          else if 2 ^ 63 <=? trunc_mag m e then 3 else 4
      | _ => 2
      end
  end.

Definition sval_wf (v : sval) : bool :=
  match v with SNum s => src_wf s | SStr b => (0 <=? b) && (b <? 2 ^ 64) | _ => true end.

Definition verdict (c : case) : Z * Z :=
  match c with
  | CNum _ s t o =>
      if src_wf s then judge outcome_eqb (obs_out o) (convertNumeric s t) (spec_convert s t) 1
      else declined
  | CStore _ v t o js =>
      if sval_wf v then
        let m := toReflectNum v t in
        let sp := spec_store v t in
        judge pair_eqb (obs_out o, option_map decode js) (m, js_read m) (sp, js_read sp) (store_class v t)
      else declined
  | CArity nargs variadic len err fixed tail =>
      let e := arity_check nargs variadic len in
      let sh := if e =? 0 then call_shape nargs variadic len else (-1, -1) in
      judge (list_eqb Z.eqb) [err; fixed; tail] [e; fst sh; snd sh] [e; fst sh; snd sh] 0
  end.
