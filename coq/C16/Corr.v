(* correspondence cases for C16: what the harness observed on the real
   interpreter against Model (otto's bridge code) and the exact-or-error
   conversion the property asks for *)
From Coq Require Import ZArith Bool List.
From Otto Require Import Common.Corr.
From Otto Require Export Common.Double C16.Model C16.ModelCont C16.ModelCall.
Import ListNotations.
Open Scope Z_scope.

(* what the harness saw: a Go integer / float (bits of the double that holds
   it) of some kind, an error class (3 RangeError, 6 TypeError, 9 Go panic
   escaped, ...), or something of another shape altogether *)
Inductive obs :=
| ObI (k : nk) (n : Z)
| ObF (k : nk) (bits : Z)
| ObE (cls : Z)
| ObOther.

Definition obs_out (o : obs) : outcome :=
  match o with
  | ObI k n => OkI k n
  | ObF k b => OkF k (decode b)
  | ObE c => Err c
  | ObOther => Err (-1)
  end.

Inductive case :=
(* a JS number reaching a Go parameter / struct field / element of a converted
   slice, map, variadic tail, pointer (path tells which; same conversion) *)
| CNum (path : Z) (s : src) (t : nk) (o : obs)
(* element store into a bridged []T / *[N]T / map[string]T; then the value the
   script reads back (bits) when the store succeeded *)
| CStore (cont : Z) (v : sval) (t : nk) (o : obs) (js : option Z)
(* call with len arguments of a function with nargs parameters: error class
   (0 none) and how many fixed / variadic-tail values the function received *)
| CArity (nargs : Z) (variadic : bool) (len : Z) (err : Z) (fixed tail : Z)
(* histories on bridged containers, script and Go operations interleaved;
   one observation per operation *)
| CSlice (addr : bool) (elems : list Z) (cap : Z) (ops : list xop) (o : list ob)
| CArray (elems : list Z) (ops : list xop) (o : list ob)
| CMap (init : list (Z * Z)) (ops : list mop) (o : list ob)
| CStruct (fs : list fld) (uppers methods : list Z) (init : list (list Z)) (ops : list top) (o : list ob)
(* f(args...) for a Go function with these parameter types: CV (GVStruct received) or CE class *)
| CCall (tys : list gty) (variadic : bool) (args : list jsv) (o : cres)
(* a Go function returning these values, as the script sees the result:
   undefined / the value / an array with one entry per value *)
| CRet (vals : list gv) (isarr : bool) (o : list jobs)
(* pinned witness of a recorded defect that is not modelled: how = 0 the
   defect as recorded, 1 the behaviour the property asks for, 2 anything else *)
| CPinned (cls : Z) (how : Z)
(* regression case of a repaired defect: the behaviour the property asks for (how = 1) is the only one accepted *)
| CRegress (cls : Z) (how : Z)
(* a script that is a sequence of calls of bridged functions whose arguments may
   re-enter the bridge while they are converted: the Go-side log and the error class *)
| CReent (calls : list rcall) (log : list (Z * list Z)) (err : Z)
(* values nested in a pointer-bridged struct passed to pointer / value / interface parameters that mutate them *)
| CPtr (init : list Z) (ops : list pxop) (o : list ob)
(* a write of JS value v to a bridged struct field of Go type t (path: by name, by
   tag, nested, through a pointer, through a variable, inside try/catch, as a
   member of an object literal assigned to the enclosing struct): the error
   class the script gets and the Go-side content of the field afterwards *)
| CFieldWrite (path : Z) (t : gty) (v : jsv) (init : gv) (err : Z) (after : gv)
(* a function returning row i of a table, called for each i of calls with every
   result kept; what each kept result shows at the end *)
| CRetHist (rows : list (list gv)) (calls : list Z) (o : list (list jobs))
(* a value of a named scalar type handed to the script along some path: what the
   script sees, what Export gives, what a Go parameter of that kind receives back *)
| CNamed (path : Z) (g : gv) (js : jobs) (exported : gv) (back : cres)
(* history on a bridged map[K]int for a key kind K, property names at and beyond K's range *)
| CKMap (kk : kkind) (init : list (Z * Z)) (ops : list kop) (o : list ob)
(* Go calls a JavaScript function passed for a func parameter: what the callback
   saw as arguments, and what Go received (CV result) or the error class at the bridged call *)
| CCallback (nparams : Z) (rt : cbty) (r : cbret) (seen : list Z) (o : cres)
(* history on a bridged value of a named map type with methods *)
| CNMap (methods : list Z) (len_id : Z) (init : list (Z * Z)) (ops : list nop) (o : list ob)
(* delete c[i] on a bridged []T (cont 0), *[N]T (1), [N]T by value (2) whose element was [old]:
   the result of delete, the Go-side element afterwards, what the script reads at that index afterwards *)
| CDelElem (cont : Z) (t : gty) (inrange : bool) (old : gv) (res : Z) (after : gv) (js : jobs)
(* a script write of JS number v over an element that already holds [old] (often a value the
   script cannot tell from v: +0 / -0, the same number in another Go type), into a container
   (0 map[string]T, 1 []T, 2 *[1]T, 3 *struct{F T}) with T = float64 (tk 0), float32 (1),
   interface{} (2): the Go-side element afterwards *)
| CEqWrite (cont tk : Z) (v : src) (old : gv) (after : gv)
(* Value.Export() of a script value (objects that are referenced more than once appear once per reference) *)
| CExport (v : jsv) (o : gv).

(* what a script reads from a bridged numeric element: the double nearest to it *)
Definition js_read (o : outcome) : option dclass :=
  match o with
  | OkI _ n => Some (f64_of_int n)
  | OkF _ d => Some d
  | Err _ => None
  end.

Definition odc_eqb := option_eqb dc_eqb.
Definition pair_eqb (a b : outcome * option dclass) : bool :=
  outcome_eqb (fst a) (fst b) && odc_eqb (snd a) (snd b).

(* finding classes
   1  call / field path: a float target is rounded silently (float32, or int64/uint64 -> float64)
   2  store: NaN, non-numbers and negative fractions are silently zeroed / truncated
   3  store: 2^63 into int64 / 2^64 into uint64 wrap silently
   4  store: silently rounded (float32 element, 64-bit integers through float64)
   5  store: a failed conversion is a Go panic escaping Run, not a RangeError *)
Definition store_class (v : sval) (t : nk) : Z :=
  match toReflectNum v t with
  | Err _ => 5
  | _ =>
      if is_float t then 4 else
      match sv_denote v with
      | DFin neg m e =>
          if negb (is_integral m e) then 2
          else if 2 ^ 63 <=? trunc_mag m e then 3 else 4
      | _ => 2
      end
  end.

Definition sval_wf (v : sval) : bool :=
  match v with SNum s => src_wf s | SStr b => (0 <=? b) && (b <? 2 ^ 64) | _ => true end.

Definition ob_eqb (a b : ob) : bool := (fst a =? fst b) && (snd a =? snd b).
Definition obs_eqb := list_eqb ob_eqb.

(* the operation at which otto's machine and the ideal one first answer differently *)
Fixpoint first_diff {O} (ops : list O) (a b : list ob) : option (O * ob) :=
  match ops, a, b with
  | o :: ops', x :: a', y :: b' => if ob_eqb x y then first_diff ops' a' b' else Some (o, x)
  | _, _, _ => None
  end.

(* more finding classes
   6  shrinking / pop / negative length on a bridged slice panics (SetLen on an unaddressable value)
   7  append / growth through a struct-field slice is lost (goes to a copy)
   8  `i in s` is true for every index
   10 a field tagged json:"-" is readable but writes to it are dropped *)
Definition slice_class (ops : list xop) (m i : list ob) : Z :=
  match first_diff ops m i with
  | Some (XS (JHas _), _) => 8
  | Some (XS (JSetLen _), (2, _)) | Some (XS JPop, (2, _)) => 6
  | Some (XS (JSet _ _), (2, _)) | Some (XS (JPush _), (2, _)) => 5
  | Some (XS (JSet _ _), _) | Some (XS (JPush _), _) => 2
  | _ => 7
  end.
Definition map_class (ops : list mop) (m i : list ob) : Z :=
  match first_diff ops m i with
  | Some (MJSet _ _, (2, _)) => 5
  | _ => 2
  end.
Definition in_list (l : list Z) (x : Z) : bool := existsb (Z.eqb x) l.

(* what a script reads from a container element: pointers are followed *)
Fixpoint js_of_elem (g : gv) : jobs :=
  match g with GVPtr g' => js_of_elem g' | _ => ret_one_h g end.

Definition verdict (c : case) : Z * Z :=
  match c with
  | CNum _ s t o =>
      if src_wf s then judge outcome_eqb (obs_out o) (convertNumeric s t) (spec_convert s t) 1
      else declined
  | CStore _ v t o js =>
      if sval_wf v then
        let m := toReflectNum v t in
        let sp := spec_store v t in
        judge pair_eqb (obs_out o, option_map decode js) (m, js_read m) (sp, js_read sp) (store_class v t)
      else declined
  | CArity nargs variadic len err fixed tail =>
      let e := arity_check nargs variadic len in
      let sh := if e =? 0 then call_shape nargs variadic len else (-1, -1) in
      judge (list_eqb Z.eqb) [err; fixed; tail] [e; fst sh; snd sh] [e; fst sh; snd sh] 0
  | CSlice addr elems cap ops o =>
      let m := sxrun addr false (sinit elems cap, None) ops in
      let i := sxrun addr true (sinit elems cap, None) ops in
      judge obs_eqb o m i (slice_class ops m i)
  | CArray elems ops o =>
      let m := axrun false (elems, None) ops in
      let i := axrun true (elems, None) ops in
      judge obs_eqb o m i (slice_class ops m i)
  | CMap init ops o =>
      let m := mrun false init ops in
      let i := mrun true init ops in
      judge obs_eqb o m i (map_class ops m i)
  | CStruct fs uppers methods init ops o =>
      let m := trun fs (in_list uppers) methods false (mkT init []) ops in
      let i := trun fs (in_list uppers) methods true (mkT init []) ops in
      judge obs_eqb o m i 10
  | CCall tys variadic args o =>
      let m := call false false 12 tys variadic args in
      match m with
      | CDecl => declined
      | _ =>
          let i := call true true 12 tys variadic args in
          judge cres_eqb o m i (if cres_eqb (call true false 12 tys variadic args) m then 11 else 1)
      end
  | CRet vals isarr o =>
      let e := (match vals with [] => [JoUndef] | _ => ret_values vals end,
                match vals with _ :: _ :: _ => true | _ => false end) in
      judge (fun a b => list_eqb jobs_eqb (fst a) (fst b) && Bool.eqb (snd a) (snd b)) (o, isarr) e e 0
  | CPinned cls how => judge Z.eqb how 0 1 cls
  | CRegress cls how => judge Z.eqb how 1 1 cls
  | CReent calls log err =>
      let r := ev_script 8 calls in
      let e := (fst r, if snd r then 0 else 6) in
      judge (fun a b => list_eqb (fun x y => (fst x =? fst y) && zlist_eqb (snd x) (snd y)) (fst a) (fst b) && (snd a =? snd b))
            (log, err) e e 0
  | CPtr init ops o => judge obs_eqb o (pxrun false init ops) (pxrun true init ops) 15
  | CFieldWrite path t v init err after =>
      let run (idn ids : bool) :=
        if (path =? 6) || (path =? 7) then
          match conv idn ids 12 (JObj [(11, v)]) (TStruct [mkF 11 0 true []] [t]) with
          | CV (GVStruct [g]) => CV g
          | CV _ => CDecl
          | r => r
          end
        else conv idn ids 12 v t in
      let outcome_of (r : cres) := match r with CV g => (0, g) | CE c => (c, init) | CDecl => (-1, init) end in
      match run false false with
      | CDecl => declined
      | m =>
          judge (fun a b => (fst a =? fst b) && gv_eqb (snd a) (snd b)) (err, after)
                (outcome_of m) (outcome_of (run true true))
                (if cres_eqb (run true false) m then 11 else 1)
      end
  | CNamed _ g js exported back =>
      let e := named_seen g in
      judge (fun a b => jobs_eqb (fst (fst a)) (fst (fst b)) && gv_eqb (snd (fst a)) (snd (fst b)) && cres_eqb (snd a) (snd b))
            (js, exported, back) e e 0
  | CNMap methods len_id init ops o =>
      judge obs_eqb o (nrun false methods len_id init ops) (nrun true methods len_id init ops) 22
  | CDelElem cont t inrange old res after js =>
      let e := if cont =? 2 then (0, old, if inrange then js_of_elem old else JoUndef)
               else if inrange then (1, zero 3 t, js_of_elem (zero 3 t))
               else (0, old, JoUndef) in
      judge (fun a b => (fst (fst a) =? fst (fst b)) && gv_eqb (snd (fst a)) (snd (fst b)) && jobs_eqb (snd a) (snd b))
            (res, after, js) e e 0
  | CEqWrite cont tk v old after =>
      if src_wf v then
        let t := if tk =? 1 then KF32 else KF64 in
        let payload := let '(k, p) := v in if is_float k then GVF k (decode p) else GVI k p in
        let of_outcome (o : outcome) := match o with OkI k n => GVI k n | OkF k d => GVF k d | Err _ => old end in
        let e := fun (ideal : bool) =>
          if tk =? 2 then payload
          else if cont =? 3 then of_outcome (if ideal then spec_convert v t else convertNumeric v t)
          else of_outcome (if ideal then spec_store (SNum v) t else toReflectNum (SNum v) t) in
        judge gv_eqb after (e false) (e true) (if cont =? 3 then 1 else 4)
      else declined
  | CExport v o =>
      match export 12 v with
      | Some g => judge gv_eqb o g g 0
      | None => declined
      end
  | CKMap kk init ops o => judge obs_eqb o (krun false kk init ops) (krun true kk init ops) 17
  | CCallback nparams rt r seen o =>
      match cb_call false false rt r with
      | CDecl => declined
      | m =>
          judge (fun a b => zlist_eqb (fst a) (fst b) && cres_eqb (snd a) (snd b)) (seen, o)
                (cb_args rt nparams, m) (cb_args rt nparams, cb_call true true rt r)
                (if cres_eqb (cb_call true false rt r) m then 11 else 1)
      end
  | CRetHist rows calls o =>
      let e := ret_hist rows calls in judge (list_eqb (list_eqb jobs_eqb)) o e e 0
  end.
