(* C16 — proofs about the numeric kernel of the bridge (Model.v). *)
From Coq Require Import ZArith Bool List Lia.
From Otto Require Import Common.Double C16.Model.
Import ListNotations.
Open Scope Z_scope.

(* ---- small facts ---- *)

Lemma nk_eqb_eq : forall a b, nk_eqb a b = true -> a = b.
Proof. destruct a, b; vm_compute; congruence. Qed.

Lemma nk_eqb_refl : forall a, nk_eqb a a = true.
Proof. destruct a; reflexivity. Qed.

Lemma dy_eqb_refl : forall a e, dy_eqb a e a e = true.
Proof. intros; unfold dy_eqb, dy_cmp. now rewrite Z.compare_refl. Qed.

Lemma dc_eqb_refl : forall d, dc_eqb d d = true.
Proof.
  destruct d; cbn [dc_eqb]; auto using Bool.eqb_reflx.
  now rewrite Bool.eqb_reflx, dy_eqb_refl.
Qed.

Lemma outcome_eqb_refl : forall o, outcome_eqb o o = true.
Proof.
  destruct o; cbn [outcome_eqb].
  - now rewrite nk_eqb_refl, Z.eqb_refl.
  - now rewrite nk_eqb_refl, dc_eqb_refl.
  - apply Z.eqb_refl.
Qed.

Lemma dc_int_of_int : forall n, dc_int (dc_of_int n) = Some n.
Proof.
  intro n. unfold dc_int, dc_of_int, is_integral, trunc_mag.
  change (0 <=? 0) with true. cbv iota. change (2 ^ 0) with 1. rewrite Z.mul_1_r.
  destruct (Z.ltb_spec n 0); f_equal; lia.
Qed.

Lemma kind_trichotomy : forall k,
  (is_signed k = true /\ is_unsigned k = false /\ is_float k = false) \/
  (is_signed k = false /\ is_unsigned k = true /\ is_float k = false) \/
  (is_signed k = false /\ is_unsigned k = false /\ is_float k = true).
Proof. destruct k; cbn; tauto. Qed.

Lemma signed_range : forall k p, is_signed k = true -> in_range k p = true -> - 2 ^ 63 <= p < 2 ^ 63.
Proof.
  intros k p Hs H. unfold in_range in H. apply andb_true_iff in H as [H1 H2].
  apply Z.leb_le in H1, H2.
  destruct k; try discriminate; cbn [kmin kmax] in *; lia.
Qed.

Lemma unsigned_range : forall k p, is_unsigned k = true -> in_range k p = true -> 0 <= p < 2 ^ 64.
Proof.
  intros k p Hs H. unfold in_range in H. apply andb_true_iff in H as [H1 H2].
  apply Z.leb_le in H1, H2.
  destruct k; try discriminate; cbn [kmin kmax] in *; lia.
Qed.

(* for integer targets the ideal only looks at the integer the value holds *)
Lemma ideal_int_ext : forall d d' t, is_float t = false -> dc_int d = dc_int d' -> ideal d t = ideal d' t.
Proof. intros d d' t Ht H. unfold ideal. rewrite Ht, H. reflexivity. Qed.

(* ---- convertNumeric ---- *)

Lemma from_signed_ideal : forall i t,
  - 2 ^ 63 <= i < 2 ^ 63 ->
  is_err (from_signed i t) = false ->
  (is_float t = false \/ exact_for (dc_of_int i) t = true) ->
  outcome_eqb (from_signed i t) (ideal (dc_of_int i) t) = true.
Proof.
  intros i t Hi Hne Hex.
  destruct (kind_trichotomy t) as [(S & U & F) | [(S & U & F) | (S & U & F)]];
    unfold from_signed, ideal in *; rewrite ?S, ?U, ?F in *; rewrite ?dc_int_of_int.
  - destruct (in_range t i); [apply outcome_eqb_refl | discriminate].
  - destruct (Z.ltb_spec i 0); [discriminate|].
    destruct (Z.ltb_spec (kmax t) i); [discriminate|].
    assert (R : in_range t i = true).
    { unfold in_range. apply andb_true_iff; split; apply Z.leb_le; [|lia].
      destruct t; try discriminate; cbn [kmin]; lia. }
    rewrite R. apply outcome_eqb_refl.
  - destruct Hex as [Hex | Hex]; [discriminate|]. rewrite Hex.
    destruct t; try discriminate; cbn [exact_for] in Hex.
    + apply andb_true_iff in Hex as [H32 H64].
      unfold f64_exact in H64. rewrite dc_int_of_int in H64. apply Z.eqb_eq in H64.
      unfold f32_of_int, f64_of_int. rewrite H64.
      unfold f32_exact, dc_of_int in H32. apply andb_true_iff in H32 as [_ H32].
      cbn [outcome_eqb]. rewrite nk_eqb_refl. exact H32.
    + unfold f64_exact in Hex. rewrite dc_int_of_int in Hex. apply Z.eqb_eq in Hex.
      unfold f64_of_int. rewrite Hex. apply outcome_eqb_refl.
Qed.

Lemma from_unsigned_ideal : forall u t,
  0 <= u < 2 ^ 64 ->
  is_err (from_unsigned u t) = false ->
  (is_float t = false \/ exact_for (dc_of_int u) t = true) ->
  outcome_eqb (from_unsigned u t) (ideal (dc_of_int u) t) = true.
Proof.
  intros u t Hu Hne Hex.
  destruct (kind_trichotomy t) as [(S & U & F) | [(S & U & F) | (S & U & F)]];
    unfold from_unsigned, ideal in *; rewrite ?S, ?U, ?F in *; rewrite ?dc_int_of_int.
  - destruct (in_range t u); [|rewrite orb_true_r in Hne; discriminate].
    destruct (2 ^ 63 - 1 <? u); [discriminate|]. apply outcome_eqb_refl.
  - destruct (Z.ltb_spec (kmax t) u); [discriminate|].
    assert (R : in_range t u = true).
    { unfold in_range. apply andb_true_iff; split; apply Z.leb_le; [|lia].
      destruct t; try discriminate; cbn [kmin]; lia. }
    rewrite R. apply outcome_eqb_refl.
  - destruct Hex as [Hex | Hex]; [discriminate|]. rewrite Hex.
    destruct t; try discriminate; cbn [exact_for] in Hex.
    + apply andb_true_iff in Hex as [H32 H64].
      unfold f64_exact in H64. rewrite dc_int_of_int in H64. apply Z.eqb_eq in H64.
      unfold f32_of_int, f64_of_int. rewrite H64.
      unfold f32_exact, dc_of_int in H32. apply andb_true_iff in H32 as [_ H32].
      cbn [outcome_eqb]. rewrite nk_eqb_refl. exact H32.
    + unfold f64_exact in Hex. rewrite dc_int_of_int in Hex. apply Z.eqb_eq in Hex.
      unfold f64_of_int. rewrite Hex. apply outcome_eqb_refl.
Qed.

(* the int64(f) / float64(i) == f round trip of convertNumeric accepts exactly
   the doubles that hold an int64, and then i is that integer *)
Lemma float_int_roundtrip : forall d,
  f64_ne_int (go_int64 d) d = false ->
  dc_int d = Some (go_int64 d) /\ - 2 ^ 63 <= go_int64 d < 2 ^ 63.
Proof.
  intros d H. unfold f64_ne_int in H.
  destruct (dc_int d) as [v|] eqn:E; [|discriminate].
  apply negb_false_iff, Z.eqb_eq in H.
  destruct d as [| s | neg m e]; try discriminate.
  cbn [dc_int] in E. destruct (is_integral m e); [|discriminate].
  injection E as E. cbn [go_int64] in *.
  set (w := if neg then - trunc_mag m e else trunc_mag m e) in *.
  revert H. destruct ((- 2 ^ 63 <=? w) && (w <? 2 ^ 63)) eqn:R; intro H.
  - apply andb_true_iff in R as [R1 R2]. apply Z.leb_le in R1. apply Z.ltb_lt in R2.
    split; [now subst v | lia].
  - exfalso. change (round_to_double (- 2 ^ 63)) with (- 2 ^ 63) in H.
    rewrite E, H in R. vm_compute in R. discriminate.
Qed.

Lemma f32_exact_round : forall d, f32_exact d = true -> dc_eqb (round32 d) d = true.
Proof.
  destruct d; intro H; try apply dc_eqb_refl.
  unfold f32_exact in H. apply andb_true_iff in H as [_ H]. exact H.
Qed.

Theorem convertNumeric_agrees_ideal : forall s t,
  src_wf s = true ->
  is_err (convertNumeric s t) = false ->
  (is_float t = false \/ exact_for (sv_denote (SNum s)) t = true) ->
  outcome_eqb (convertNumeric s t) (ideal (sv_denote (SNum s)) t) = true.
Proof.
  intros [k p] t Hwf Hne Hex. unfold convertNumeric in *. cbn [sv_denote] in *.
  destruct (nk_eqb k t) eqn:Ekt.
  - apply nk_eqb_eq in Ekt. subst t. cbn [src_value] in *.
    destruct (is_float k) eqn:F.
    + destruct Hex as [Hex|Hex]; [discriminate|].
      unfold ideal. rewrite F, Hex. apply outcome_eqb_refl.
    + unfold ideal. rewrite F, dc_int_of_int.
      assert (R : in_range k p = true) by (destruct k; try discriminate; exact Hwf).
      rewrite R. apply outcome_eqb_refl.
  - destruct (kind_trichotomy k) as [(S & U & F) | [(S & U & F) | (S & U & F)]]; rewrite ?S, ?U, ?F in *.
    + apply from_signed_ideal; auto. apply (signed_range k); auto.
      destruct k; try discriminate; exact Hwf.
    + apply from_unsigned_ideal; auto. apply (unsigned_range k); auto.
      destruct k; try discriminate; exact Hwf.
    + set (d := decode p) in *.
      destruct (is_float t) eqn:Ft.
      * destruct Hex as [Hex|Hex]; [discriminate|].
        destruct t; try discriminate.
        -- destruct (overflow32 d); [discriminate|].
           unfold ideal. cbn [is_float]. rewrite Hex. cbn [exact_for] in Hex.
           apply andb_true_iff in Hex as [H32 _].
           cbn [outcome_eqb]. rewrite nk_eqb_refl. now apply f32_exact_round.
        -- unfold ideal. cbn [is_float]. rewrite Hex. apply outcome_eqb_refl.
      * assert (Hcase : (if f64_ne_int (go_int64 d) d then Err 3 else from_signed (go_int64 d) t) =
                        match t with
                        | KF64 => OkF KF64 d
                        | KF32 => if overflow32 d then Err 3 else OkF KF32 (round32 d)
                        | _ => if f64_ne_int (go_int64 d) d then Err 3 else from_signed (go_int64 d) t
                        end) by (destruct t; try discriminate; reflexivity).
        rewrite <- Hcase in *. clear Hcase.
        destruct (f64_ne_int (go_int64 d) d) eqn:Ene; [discriminate|].
        apply float_int_roundtrip in Ene as [Hint Hrange].
        rewrite (ideal_int_ext d (dc_of_int (go_int64 d)) t Ft) by (now rewrite dc_int_of_int).
        apply from_signed_ideal; auto.
Qed.

(* the only error convertNumeric raises is RangeError *)
Lemma convertNumeric_err_class : forall s t c, convertNumeric s t = Err c -> c = 3.
Proof.
  intros [k p] t c. unfold convertNumeric, src_value, from_signed, from_unsigned.
  repeat match goal with
         | |- context [if ?b then _ else _] => destruct b
         | |- context [match ?t with KI => _ | _ => _ end] => destruct t
         end; intro H; try discriminate; now injection H.
Qed.

(* consequence: on integer targets the code meets the property everywhere *)
Theorem convertNumeric_int_targets : forall s t,
  src_wf s = true -> is_float t = false -> spec_convert s t = convertNumeric s t.
Proof.
  intros s t Hwf Ft. unfold spec_convert, accept.
  destruct (convertNumeric s t) eqn:E.
  - rewrite <- E. rewrite convertNumeric_agrees_ideal; auto. now rewrite E.
  - rewrite <- E. rewrite convertNumeric_agrees_ideal; auto. now rewrite E.
  - apply convertNumeric_err_class in E. subst cls. reflexivity.
Qed.

Theorem convertNumeric_float_targets : forall s t,
  src_wf s = true -> exact_for (sv_denote (SNum s)) t = true -> spec_convert s t = convertNumeric s t.
Proof.
  intros s t Hwf Hx. unfold spec_convert, accept.
  destruct (convertNumeric s t) eqn:E.
  - rewrite <- E. rewrite convertNumeric_agrees_ideal; auto. now rewrite E.
  - rewrite <- E. rewrite convertNumeric_agrees_ideal; auto. now rewrite E.
  - apply convertNumeric_err_class in E. subst cls. reflexivity.
Qed.

(* an Ok result on an integer target is in the target's range and is the
   integer the JS number holds *)
Theorem convertNumeric_int_sound : forall s t k n,
  src_wf s = true -> is_float t = false -> convertNumeric s t = OkI k n ->
  k = t /\ in_range t n = true /\ dc_int (sv_denote (SNum s)) = Some n.
Proof.
  intros s t k n Hwf Ft E.
  pose proof (convertNumeric_agrees_ideal s t Hwf) as H. rewrite E in H.
  specialize (H eq_refl (or_introl Ft)).
  unfold ideal in H. rewrite Ft in H.
  destruct (dc_int (sv_denote (SNum s))) as [m|]; [|discriminate].
  destruct (in_range t m) eqn:R; [|discriminate].
  cbn [outcome_eqb] in H. apply andb_true_iff in H as [H1 H2].
  apply nk_eqb_eq in H1. apply Z.eqb_eq in H2. subst. auto.
Qed.

(* ---- toReflectValue ---- *)

Lemma pow2_pos : forall e, 0 <= e -> 0 < 2 ^ e.
Proof. intros. apply Z.pow_pos_nonneg; lia. Qed.

(* comparing an integral double with an integer constant *)
Lemma dy_cmp_integral : forall (neg : bool) m e b,
  is_integral m e = true ->
  dy_cmp (if neg then - m else m) e b 0 =
  ((if neg then - trunc_mag m e else trunc_mag m e) ?= b).
Proof.
  intros neg m e b H. unfold dy_cmp, is_integral, trunc_mag in *.
  destruct (Z.leb_spec 0 e).
  - rewrite Z.min_r by lia. rewrite Z.sub_0_r. change (2 ^ (0 - 0)) with 1. rewrite Z.mul_1_r.
    destruct neg; [rewrite Z.mul_opp_l|]; reflexivity.
  - rewrite Z.min_l by lia. rewrite Z.sub_diag. change (2 ^ 0) with 1. rewrite Z.mul_1_r.
    replace (0 - e) with (- e) by lia.
    apply Z.eqb_eq in H.
    assert (P : 0 < 2 ^ (- e)) by (apply pow2_pos; lia).
    pose proof (Z.div_mod m (2 ^ (- e)) ltac:(lia)) as D. rewrite H, Z.add_0_r in D.
    set (q := m / 2 ^ (- e)) in *. set (Pw := 2 ^ (- e)) in *.
    rewrite D. destruct neg.
    + replace (- (Pw * q)) with ((- q) * Pw) by ring.
      symmetry. apply Zmult_compare_compat_r. lia.
    + replace (Pw * q) with (q * Pw) by ring.
      symmetry. apply Zmult_compare_compat_r. lia.
Qed.

Lemma trunc_mag_zero : forall e, trunc_mag 0 e = 0.
Proof.
  intro e. unfold trunc_mag. destruct (Z.leb_spec 0 e); [apply Z.mul_0_l | apply Z.div_0_l].
  apply Z.pow_nonzero; lia.
Qed.

(* storing a double that holds an integer of the int64 range: the result is
   that integer when it fits the element type, otherwise the store fails *)
Theorem store_integral_exact : forall p t n,
  is_float t = false ->
  dc_int (decode p) = Some n -> - 2 ^ 63 <= n < 2 ^ 63 ->
  toReflectNum (SNum (KF64, p)) t = if in_range t n then OkI t n else Err 9.
Proof.
  intros p t n Ft Hn Hr. unfold toReflectNum. rewrite Ft. cbn [negb andb].
  unfold frac_guard, number_int64, to_integer_float, sv_float. cbn [is_float].
  destruct (decode p) as [| s | neg m e]; try discriminate.
  cbn [dc_int] in Hn. destruct (is_integral m e) eqn:Hi; [|discriminate].
  injection Hn as Hn.
  assert (G : (if neg then false else negb true) = false) by (destruct neg; reflexivity).
  replace (match neg with true => false | false => negb true end) with false
    by (destruct neg; reflexivity).
  assert (Small : (if m =? 0 then 0 else
                   match dy_cmp (if neg then - m else m) e (2 ^ 63) 0 with
                   | Lt => match dy_cmp (if neg then - m else m) e (- 2 ^ 63) 0 with
                           | Gt => if neg then - trunc_mag m e else trunc_mag m e
                           | _ => - 2 ^ 63
                           end
                   | _ => 2 ^ 63 - 1
                   end) = n).
  { destruct (Z.eqb_spec m 0) as [Z0|NZ].
    - subst m. rewrite trunc_mag_zero in Hn. destruct neg; lia.
    - rewrite !dy_cmp_integral by assumption. rewrite Hn.
      destruct (Z.compare_spec n (2 ^ 63)); try lia.
      destruct (Z.compare_spec n (- 2 ^ 63)); lia. }
  assert (Big : (if neg then - trunc_mag m e else trunc_mag m e) = n) by exact Hn.
  destruct t; try discriminate; cbn [is_float]; rewrite ?Small; try reflexivity.
  - (* KI *) rewrite Big.
    destruct (Z.ltb_spec n (- 2 ^ 63)); [lia|]. destruct (Z.ltb_spec (2 ^ 63) n); [lia|].
    destruct (Z.eqb_spec n (2 ^ 63)); [lia|]. cbn [orb].
    replace (in_range KI n) with true; [reflexivity|].
    symmetry. unfold in_range. cbn [kmin kmax]. apply andb_true_iff; split; apply Z.leb_le; lia.
  - (* KI64 *) rewrite Big.
    destruct (Z.ltb_spec n (- 2 ^ 63)); [lia|]. destruct (Z.ltb_spec (2 ^ 63) n); [lia|].
    destruct (Z.eqb_spec n (2 ^ 63)); [lia|]. cbn [orb].
    replace (in_range KI64 n) with true; [reflexivity|].
    symmetry. unfold in_range. cbn [kmin kmax]. apply andb_true_iff; split; apply Z.leb_le; lia.
  - (* KU *) rewrite Big. unfold in_range. cbn [kmin kmax].
    destruct (Z.ltb_spec n 0).
    + cbn [orb]. destruct (Z.leb_spec 0 n); [lia|]. reflexivity.
    + destruct (Z.ltb_spec (2 ^ 64) n); [lia|]. destruct (Z.eqb_spec n (2 ^ 64)); [lia|]. cbn [orb].
      destruct (Z.leb_spec 0 n); [|lia]. destruct (Z.leb_spec n (2 ^ 64 - 1)); [|lia]. reflexivity.
  - (* KU64 *) rewrite Big. unfold in_range. cbn [kmin kmax].
    destruct (Z.ltb_spec n 0).
    + cbn [orb]. destruct (Z.leb_spec 0 n); [lia|]. reflexivity.
    + destruct (Z.ltb_spec (2 ^ 64) n); [lia|]. destruct (Z.eqb_spec n (2 ^ 64)); [lia|]. cbn [orb].
      destruct (Z.leb_spec 0 n); [|lia]. destruct (Z.leb_spec n (2 ^ 64 - 1)); [|lia]. reflexivity.
Qed.

(* so in that region the only departure from the property is the kind of
   failure: a Go panic escaping Run where a RangeError is due *)
Corollary store_integral_spec : forall p t n,
  is_float t = false ->
  dc_int (decode p) = Some n -> - 2 ^ 63 <= n < 2 ^ 63 ->
  spec_store (SNum (KF64, p)) t = if in_range t n then OkI t n else Err 3.
Proof.
  intros p t n Ft Hn Hr. unfold spec_store. rewrite (store_integral_exact p t n Ft Hn Hr).
  cbn [sv_denote is_float]. unfold accept, ideal. rewrite Ft, Hn.
  destruct (in_range t n); [|reflexivity]. now rewrite outcome_eqb_refl.
Qed.

(* ---- arity ---- *)

Theorem arity_error_iff : forall nargs variadic len,
  arity_check nargs variadic len = 3 <->
  (variadic = false /\ len <> nargs) \/ (variadic = true /\ len < nargs - 1).
Proof.
  intros nargs variadic len. unfold arity_check.
  destruct (Z.eqb_spec len nargs) as [E|E].
  - split; [discriminate|]. intros [[_ A] | [_ A]]; lia.
  - destruct variadic.
    + destruct (Z.ltb_spec len (nargs - 1)) as [L|L].
      * split; [intros _; right; split; [reflexivity | exact L] | reflexivity].
      * split; [discriminate|]. intros [[A _] | [_ A]]; [discriminate | lia].
    + split; [intros _; left; split; [reflexivity | exact E] | reflexivity].
Qed.

Theorem arity_never_other : forall nargs variadic len,
  arity_check nargs variadic len = 0 \/ arity_check nargs variadic len = 3.
Proof.
  intros. unfold arity_check.
  destruct (len =? nargs); auto. destruct variadic; auto. destruct (len <? nargs - 1); auto.
Qed.

(* when the call proceeds every argument index is paired with a declared
   parameter that exists (typ.In(n) cannot be out of range); the fixed
   parameters are used as declared, the rest element-wise against the last *)
Theorem param_for_in_range : forall nargs variadic len i,
  0 <= nargs -> (variadic = true -> 1 <= nargs) ->
  arity_check nargs variadic len = 0 -> 0 <= i < len ->
  let '(n, elem) := param_for nargs variadic i in
  0 <= n < nargs /\
  (elem = false -> n = i /\ (variadic = true -> i < nargs - 1)) /\
  (elem = true -> variadic = true /\ n = nargs - 1 /\ nargs - 1 <= i).
Proof.
  intros nargs variadic len i Hn Hv Hc Hi. unfold param_for, arity_check in *.
  destruct (Z.eqb_spec len nargs); destruct variadic; cbn [andb];
    try destruct (Z.ltb_spec len (nargs - 1)); try discriminate;
    destruct (Z.leb_spec (nargs - 1) i); cbn [andb];
    try destruct (Z.ltb_spec (nargs - 1) i);
    repeat split; intros; try discriminate; try lia; try (specialize (Hv eq_refl); lia).
Qed.

Theorem call_shape_total : forall nargs variadic len,
  arity_check nargs variadic len = 0 ->
  let '(fixed, tail) := call_shape nargs variadic len in
  fixed + tail = len /\ 0 <= tail.
Proof.
  intros nargs variadic len H. unfold call_shape, arity_check in *.
  destruct variadic; [|lia].
  destruct (Z.eqb_spec len nargs); [lia|].
  destruct (Z.ltb_spec len (nargs - 1)); [discriminate | lia].
Qed.
