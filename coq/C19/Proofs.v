(* C19 — lemmas: position lookup is the inverse of the generator's offset
   function; shape of the trace built by newError; text and class tables *)
From Coq Require Import ZArith List Bool Lia.
From Otto Require Import C19.Model C19.Spec.
Import ListNotations.
Open Scope Z_scope.

(* ------------------------------------------------------------------ *)
(* file.Position on LF-separated text                                   *)

Definition no_nl (l : list Z) : Prop := forall b, In b l -> b <> 10.

Lemma zlen_nonneg {A} (l : list A) : 0 <= zlen l.
Proof. unfold zlen. lia. Qed.

Lemma zlen_app {A} (a b : list A) : zlen (a ++ b) = zlen a + zlen b.
Proof. unfold zlen. rewrite app_length. lia. Qed.

Lemma zlen_cons {A} (x : A) (l : list A) : zlen (x :: l) = 1 + zlen l.
Proof. unfold zlen. cbn [length]. lia. Qed.

Lemma count_nl_app a b : count_nl (a ++ b) = count_nl a + count_nl b.
Proof. induction a as [|x a IH]; cbn [count_nl app]; [lia | rewrite IH; lia]. Qed.

Lemma count_nl_no_nl l : no_nl l -> count_nl l = 0.
Proof.
  induction l as [|x l IH]; intro H; cbn [count_nl]; [reflexivity|].
  assert (x <> 10) by (apply H; left; reflexivity).
  destruct (Z.eqb_spec x 10); [contradiction|].
  rewrite IH; [reflexivity|]. intros b Hb. apply H. right. exact Hb.
Qed.

Lemma last_nl_from_app a b i acc :
  last_nl_from (a ++ b) i acc = last_nl_from b (i + zlen a) (last_nl_from a i acc).
Proof.
  revert i acc. induction a as [|x a IH]; intros i acc; cbn [app last_nl_from].
  - unfold zlen; cbn [length]. f_equal. lia.
  - rewrite IH. rewrite zlen_cons. f_equal. lia.
Qed.

Lemma last_nl_from_no_nl l i acc : no_nl l -> last_nl_from l i acc = acc.
Proof.
  revert i acc. induction l as [|x l IH]; intros i acc H; cbn [last_nl_from]; [reflexivity|].
  assert (x <> 10) by (apply H; left; reflexivity).
  destruct (Z.eqb_spec x 10); [contradiction|].
  apply IH. intros b Hb. apply H. right. exact Hb.
Qed.

(* the index found from position i is the index found from 0, shifted *)
Lemma last_nl_from_shift s : forall i acc,
  last_nl_from s i acc = (if 0 <=? last_nl s then i + last_nl s else acc).
Proof.
  unfold last_nl. induction s as [|b r IH]; intros i acc.
  - cbn [last_nl_from]. reflexivity.
  - cbn [last_nl_from]. rewrite (IH (i + 1)). rewrite (IH (0 + 1)).
    destruct (Z.leb_spec 0 (last_nl_from r 0 (-1))) as [Hx|Hx].
    + destruct (Z.leb_spec 0 (0 + 1 + last_nl_from r 0 (-1))); lia.
    + destruct (Z.eqb_spec b 10).
      * destruct (Z.leb_spec 0 0); lia.
      * destruct (Z.leb_spec 0 (-1)); lia.
Qed.

Lemma firstn_app_exact {A} (a b : list A) (k : nat) :
  firstn (length a + k) (a ++ b) = a ++ firstn k b.
Proof.
  induction a as [|x a IH]; cbn [length app plus firstn]; [reflexivity|]. rewrite IH. reflexivity.
Qed.

Lemma zlen_firstn {A} (l : list A) k : 0 <= k <= zlen l -> zlen (firstn (Z.to_nat k) l) = k.
Proof. unfold zlen. intro H. rewrite firstn_length. lia. Qed.

Lemma in_firstn {A} (l : list A) n x : In x (firstn n l) -> In x l.
Proof.
  revert l. induction n as [|n IH]; intros l H; [destruct H|].
  destruct l as [|y l]; [destruct H|]. cbn [firstn] in H. destruct H as [H|H]; [left; exact H|right; apply IH; exact H].
Qed.

(* inside the first line *)
Lemma position_first_line l0 rest k :
  no_nl l0 -> 0 <= k <= zlen l0 -> k < zlen (l0 ++ rest) ->
  file_position_off (l0 ++ rest) k = Some (1, k + 1).
Proof.
  intros Hn Hk Hlt. unfold file_position_off.
  destruct (Z.leb_spec (zlen (l0 ++ rest)) k); [lia|].
  destruct (Z.ltb_spec k 0); [lia|]. cbn [orb].
  assert (Hpre : firstn (Z.to_nat k) (l0 ++ rest) = firstn (Z.to_nat k) l0).
  { rewrite firstn_app. replace (Z.to_nat k - length l0)%nat with 0%nat by (unfold zlen in *; lia).
    cbn [firstn]. apply app_nil_r. }
  rewrite Hpre.
  assert (Hn' : no_nl (firstn (Z.to_nat k) l0)).
  { intros b Hb. apply Hn. eapply in_firstn; exact Hb. }
  rewrite (count_nl_no_nl _ Hn'). unfold last_nl. rewrite (last_nl_from_no_nl _ _ _ Hn').
  destruct (Z.leb_spec 0 (-1)); [lia|].
  rewrite zlen_firstn by lia. reflexivity.
Qed.

(* past the first line: one line further down, same column *)
Lemma position_skip_line l0 rest k :
  no_nl l0 -> 0 <= k ->
  file_position_off (l0 ++ 10 :: rest) (zlen l0 + 1 + k) =
  match file_position_off rest k with Some (ln, c) => Some (ln + 1, c) | None => None end.
Proof.
  intros Hn Hk. unfold file_position_off.
  rewrite zlen_app, zlen_cons.
  pose proof (zlen_nonneg l0) as Hl0. pose proof (zlen_nonneg rest) as Hr.
  destruct (Z.leb_spec (zlen rest) k) as [Hge|Hlt].
  { destruct (Z.leb_spec (zlen l0 + (1 + zlen rest)) (zlen l0 + 1 + k)); [|lia]. reflexivity. }
  destruct (Z.leb_spec (zlen l0 + (1 + zlen rest)) (zlen l0 + 1 + k)); [lia|].
  destruct (Z.ltb_spec (zlen l0 + 1 + k) 0); [lia|].
  destruct (Z.ltb_spec k 0); [lia|]. cbn [orb].
  assert (Hpre : firstn (Z.to_nat (zlen l0 + 1 + k)) (l0 ++ 10 :: rest) = l0 ++ 10 :: firstn (Z.to_nat k) rest).
  { replace (Z.to_nat (zlen l0 + 1 + k)) with (length l0 + S (Z.to_nat k))%nat by (unfold zlen; lia).
    rewrite firstn_app_exact. reflexivity. }
  rewrite Hpre. set (pre' := firstn (Z.to_nat k) rest).
  rewrite count_nl_app. rewrite (count_nl_no_nl _ Hn). cbn [count_nl]. rewrite Z.eqb_refl.
  assert (Hlast : last_nl (l0 ++ 10 :: pre') =
                  if 0 <=? last_nl pre' then zlen l0 + 1 + last_nl pre' else zlen l0).
  { unfold last_nl at 1. rewrite last_nl_from_app. rewrite (last_nl_from_no_nl _ _ _ Hn).
    cbn [last_nl_from]. rewrite Z.eqb_refl. rewrite last_nl_from_shift.
    destruct (Z.leb_spec 0 (last_nl pre')); lia. }
  rewrite Hlast. clear Hlast.
  assert (Hlen : zlen pre' = k) by (apply zlen_firstn; lia).
  rewrite zlen_app, zlen_cons, Hlen.
  destruct (Z.leb_spec 0 (last_nl pre')) as [Hx|Hx].
  - destruct (Z.leb_spec 0 (zlen l0 + 1 + last_nl pre')); [|lia]. f_equal. f_equal; lia.
  - destruct (Z.leb_spec 0 (zlen l0)); [|lia]. f_equal. f_equal; lia.
Qed.

Definition lines_ok (lines : list (list Z)) : Prop := forall l, In l lines -> no_nl l.

(* (line, col) names a byte of the text: any column of the line, and the
   column just past its end when a line feed follows *)
Definition in_text (lines : list (list Z)) (line col : Z) : Prop :=
  1 <= line <= zlen lines /\ 1 <= col /\
  col <= zlen (nth (Z.to_nat (line - 1)) lines []) + (if line <? zlen lines then 1 else 0).

Lemma join_cons l0 l1 rest : join_lines (l0 :: l1 :: rest) = l0 ++ 10 :: join_lines (l1 :: rest).
Proof. reflexivity. Qed.

Lemma offset_of_nonneg : forall ls ln col, 1 <= col -> 0 <= offset_of ls ln col.
Proof.
  induction ls as [|a ls IH]; intros ln col H; cbn [offset_of]; [lia|].
  destruct (Z.leb_spec ln 1); [lia|]. pose proof (IH (ln - 1) col H). pose proof (zlen_nonneg a). lia.
Qed.

Theorem position_inverse : forall lines line col,
  lines_ok lines -> in_text lines line col ->
  file_position_off (join_lines lines) (offset_of lines line col) = Some (line, col).
Proof.
  induction lines as [|l0 rest IH]; intros line col Hok (Hl & Hc & Hcol).
  { unfold zlen in Hl; cbn [length] in Hl. lia. }
  assert (Hn0 : no_nl l0) by (apply Hok; left; reflexivity).
  assert (Hokr : lines_ok rest) by (intros l Hin; apply Hok; right; exact Hin).
  rewrite zlen_cons in Hl, Hcol. pose proof (zlen_nonneg rest) as Hr. pose proof (zlen_nonneg l0) as Hl0.
  cbn [offset_of].
  destruct (Z.leb_spec line 1) as [H1|H1].
  - assert (line = 1) by lia. subst line. cbn [Z.sub Z.to_nat nth] in Hcol.
    replace (Z.to_nat (1 - 1)) with 0%nat in Hcol by lia. cbn [nth] in Hcol.
    destruct rest as [|l1 rest'].
    + cbn [join_lines].
      assert (Hcol' : col <= zlen l0).
      { revert Hcol. unfold zlen at 2. cbn [length].
        change (1 <? 1 + Z.of_nat 0) with false. cbv iota. lia. }
      replace l0 with (l0 ++ []) at 1 by apply app_nil_r.
      replace (Some (1, col)) with (Some (1, (col - 1) + 1)) by (f_equal; f_equal; lia).
      apply position_first_line; [exact Hn0 | lia | rewrite app_nil_r; lia].
    + rewrite join_cons. rewrite zlen_cons in Hcol.
      pose proof (zlen_nonneg rest') as Hr'.
      destruct (Z.ltb_spec 1 (1 + (1 + zlen rest'))); [|lia].
      replace (Some (1, col)) with (Some (1, (col - 1) + 1)) by (f_equal; f_equal; lia).
      apply position_first_line; [exact Hn0 | lia |]. rewrite zlen_app, zlen_cons.
      pose proof (zlen_nonneg (join_lines (l1 :: rest'))). lia.
  - destruct rest as [|l1 rest'].
    { unfold zlen in Hl; cbn [length] in Hl. lia. }
    rewrite join_cons.
    assert (Hin : in_text (l1 :: rest') (line - 1) col).
    { unfold in_text. rewrite zlen_cons in *. repeat split; try lia.
      replace (Z.to_nat (line - 1)) with (S (Z.to_nat (line - 1 - 1))) in Hcol by lia.
      cbn [nth] in Hcol.
      cbn [nth]. destruct (Z.ltb_spec line (1 + (1 + zlen rest'))); destruct (Z.ltb_spec (line - 1) (1 + zlen rest')); lia. }
    assert (Hoff : 0 <= offset_of (l1 :: rest') (line - 1) col) by (apply offset_of_nonneg; lia).
    rewrite position_skip_line by assumption.
    rewrite (IH (line - 1) col Hokr Hin). f_equal. f_equal. lia.
Qed.

(* ------------------------------------------------------------------ *)
(* the trace built by newError                                          *)

Definition recorded (fr : frame) : bool := 0 <=? f_offset fr.

(* the outer frames the limit lets through *)
Definition cut_outer {A} (limit : Z) (l : list A) : list A :=
  if limit <=? 0 then l else firstn (Z.to_nat (limit - 1)) l.

Lemma walk_outer_shape : forall outers limit,
  walk_outer limit outers = filter recorded (cut_outer limit outers).
Proof.
  induction outers as [|fr rest IH]; intro limit; cbn [walk_outer].
  - unfold cut_outer. destruct (limit <=? 0); [reflexivity|]. rewrite firstn_nil. reflexivity.
  - destruct (Z.eqb_spec (limit - 1) 0) as [H0|H0].
    + unfold cut_outer. destruct (Z.leb_spec limit 0); [lia|].
      replace (limit - 1) with 0 by lia. reflexivity.
    + rewrite IH. unfold cut_outer.
      destruct (Z.leb_spec limit 0) as [Hl|Hl].
      * destruct (Z.leb_spec (limit - 1) 0); [|lia]. cbn [filter]. unfold recorded at 2.
        destruct (0 <=? f_offset fr); reflexivity.
      * destruct (Z.leb_spec (limit - 1) 0); [lia|].
        replace (Z.to_nat (limit - 1)) with (S (Z.to_nat (limit - 1 - 1))) by lia.
        cbn [firstn filter]. unfold recorded at 2. destruct (0 <=? f_offset fr); reflexivity.
Qed.

Definition with_at (top : frame) (atv : option Z) : frame :=
  match atv with Some a => set_offset top a | None => top end.

(* C19_trace_shape: for every scope chain, limit, pop count and at:
   the top frame, then the recorded ones among the next limit-1 outer frames, in order *)
Theorem new_error_shape : forall limit sc pop atv,
  new_error limit sc pop atv =
  match pop_frames pop sc with
  | [] => []
  | top :: outers => with_at top atv :: filter recorded (cut_outer limit outers)
  end.
Proof.
  intros. unfold new_error. destruct (pop_frames pop sc) as [|top outers]; [reflexivity|].
  rewrite walk_outer_shape. reflexivity.
Qed.

Lemma filter_all {A} (f : A -> bool) l : (forall x, In x l -> f x = true) -> filter f l = l.
Proof.
  induction l as [|x l IH]; intro H; cbn [filter]; [reflexivity|].
  rewrite (H x) by (left; reflexivity). rewrite IH; [reflexivity|]. intros y Hy. apply H. right. exact Hy.
Qed.

Lemma cut_cons {A} (limit : Z) (x : A) (l : list A) : cut limit (x :: l) = x :: cut_outer limit l.
Proof.
  unfold cut, cut_outer. destruct (Z.leb_spec limit 0); [reflexivity|].
  replace (Z.to_nat limit) with (S (Z.to_nat (limit - 1))) by lia. reflexivity.
Qed.

Lemma in_cut_outer {A} limit (l : list A) x : In x (cut_outer limit l) -> In x l.
Proof. unfold cut_outer. destruct (limit <=? 0); [tauto|]. apply in_firstn. Qed.

(* when every outer frame has a recorded call site the trace is the innermost
   min(depth, limit) frames, innermost first *)
Theorem new_error_all_recorded : forall limit top outers atv,
  (forall fr, In fr outers -> 0 <= f_offset fr) ->
  new_error limit (top :: outers) 0 atv = cut limit (with_at top atv :: outers).
Proof.
  intros limit top outers atv H. rewrite new_error_shape. cbn [pop_frames].
  rewrite cut_cons. f_equal. apply filter_all. intros fr Hin. unfold recorded.
  apply Z.leb_le. apply H. eapply in_cut_outer. exact Hin.
Qed.

Lemma cut_length {A} limit (l : list A) : 1 <= limit -> zlen (cut limit l) = Z.min limit (zlen l).
Proof.
  intro H. unfold cut, zlen. destruct (Z.leb_spec limit 0); [lia|]. rewrite firstn_length. lia.
Qed.

Lemma cut_unlimited {A} limit (l : list A) : limit <= 0 -> cut limit l = l.
Proof. intro H. unfold cut. destruct (Z.leb_spec limit 0); [reflexivity|lia]. Qed.

(* the cut is a prefix: innermost first, nothing reordered *)
Lemma cut_prefix {A} limit (l : list A) : exists rest, l = cut limit l ++ rest.
Proof.
  unfold cut. destruct (limit <=? 0).
  - exists []. symmetry. apply app_nil_r.
  - exists (skipn (Z.to_nat limit) l). symmetry. apply firstn_skipn.
Qed.

(* SetStackTraceLimit(0) (and negative limits): no cut at all *)
Theorem new_error_limit_zero : forall limit top outers atv, limit <= 0 ->
  new_error limit (top :: outers) 0 atv = with_at top atv :: filter recorded outers.
Proof.
  intros. rewrite new_error_shape. cbn [pop_frames]. unfold cut_outer.
  destruct (Z.leb_spec limit 0); [reflexivity|lia].
Qed.

(* a frame whose call went through a callee that is neither identifier, dot nor
   bracket is dropped and still uses up one unit of the limit *)
Theorem new_error_drops_unrecorded : exists limit sc,
  new_error limit sc 0 None <> cut limit sc.
Proof.
  exists 2, [mkFrame false 0 1 5; mkFrame false 0 2 (-1); mkFrame false 0 0 9].
  vm_compute. discriminate.
Qed.

(* ------------------------------------------------------------------ *)
(* the model against the property's reading of a trace                  *)

Definition site_idx (lv : level) : Z :=
  match spec_site lv with Some (_, idx, _, _) => idx | None => 0 end.

(* the frame a level ought to end up with: its name, the file whose text it
   is running, the file.Idx of its last call *)
Definition canon (lv : level) : frame :=
  mkFrame (lv_is_native (fst lv)) (spec_cur_file lv) (lv_name (fst lv)) (site_idx lv).

Definition st_idx (s : option site) : Z := match s with Some (_, idx, _, _) => idx | None => 0 end.
Definition to_model (k : lvkind) (st : Z * list Z * option site) : frame * list Z :=
  let '(cur, stk, s) := st in (mkFrame (lv_is_native k) cur (lv_name k) (st_idx s), stk).

Section Refine.
  Variable pf : posfn.
  Variable fx : fixes.
  Variable files : file_table.
  Hypothesis pf_neg : forall src, pf src (-1) = None.
  Hypothesis pf_nonneg : forall src o p, pf src o = Some p -> 0 <= o.

  (* events and level kinds on which the interpreter [fx] has no listed deviation *)
  Definition ev_plain (e : event) : Prop :=
    match e with
    | EvCall KOther _ _ _ => fx_site fx = true
    | EvImplicit _ _ _ => fx_implicit fx = true
    | _ => True
    end.
  Definition kind_plain (k : lvkind) : Prop :=
    match k with LvFuncNoFile _ _ => fx_nofile fx = true | _ => True end.
  Definition level_plain (lv : level) : Prop :=
    kind_plain (fst lv) /\ Forall ev_plain (snd lv) /\ (lv_is_native (fst lv) = true -> snd lv = []).

  Lemma step_commute k st e : ev_plain e -> ev_step fx (to_model k st) e = to_model k (spec_step st e).
  Proof.
    destruct st as [[cur stk] s]. destruct e as [c idx line col|idx line col|f|]; cbn [ev_plain]; intro H.
    - cbn [to_model ev_step spec_step]. unfold set_offset. cbn [f_native f_file f_callee st_idx].
      f_equal. f_equal. destruct c; cbn [record_site]; try reflexivity. rewrite H. reflexivity.
    - cbn [to_model ev_step spec_step]. rewrite H. reflexivity.
    - cbn [to_model ev_step spec_step]. reflexivity.
    - cbn [to_model ev_step spec_step]. destruct stk as [|c stk']; reflexivity.
  Qed.

  Lemma fold_commute k : forall evs st, Forall ev_plain evs ->
    fold_left (ev_step fx) evs (to_model k st) = to_model k (fold_left spec_step evs st).
  Proof.
    induction evs as [|e evs IH]; intros st H; [reflexivity|].
    inversion H; subst. cbn [fold_left]. rewrite step_commute by assumption. apply IH. assumption.
  Qed.

  Lemma level_frame_canon lv : level_plain lv -> level_frame fx lv = canon lv.
  Proof.
    destruct lv as [k evs]. intros (Hk & Hev & _). unfold level_frame, run_events. cbn [fst snd].
    assert (Hinit : (init_frame fx k, @nil Z) = to_model k (lv_file k, [], None)).
    { destruct k; cbn [init_frame to_model lv_is_native lv_name lv_file st_idx]; try reflexivity.
      cbn [kind_plain] in Hk. rewrite Hk. reflexivity. }
    rewrite Hinit. rewrite fold_commute by assumption.
    unfold canon, spec_cur_file, site_idx, spec_site, spec_run. cbn [fst snd].
    destruct (fold_left spec_step evs (lv_file k, [], None)) as [[cur stk] s]. reflexivity.
  Qed.

  (* the printed place of a level's last call is where the generator put it *)
  Definition lookup_ok (f idx line col : Z) : Prop :=
    exists nm src, get_file files f = Some (nm, src) /\ pf src (idx - 1) = Some (line, col).

  Definition site_ok (lv : level) : Prop :=
    lv_is_native (fst lv) = false ->
    match spec_site lv with
    | None => True
    | Some (f, idx, line, col) => f = spec_cur_file lv /\ lookup_ok f idx line col
    end.

  Lemma location_outer lv : site_ok lv -> location pf files (canon lv) = spec_outer files lv.
  Proof.
    intro H. unfold site_ok in H. unfold location, spec_outer, canon. cbn [f_callee f_native f_file f_offset].
    destruct (lv_is_native (fst lv)) eqn:Hn; [reflexivity|]. specialize (H eq_refl).
    unfold site_idx. destruct (spec_site lv) as [[[[f idx] line] col]|].
    - destruct H as (Hf & nm & src & Hg & Hp). subst f. rewrite Hg, Hp.
      unfold fname_of. rewrite Hg. reflexivity.
    - destruct (get_file files (spec_cur_file lv)) as [[nm src]|]; [|reflexivity].
      replace (0 - 1) with (-1) by lia. rewrite pf_neg. reflexivity.
  Qed.

  Lemma canon_offset_nonneg lv : level_plain lv -> site_ok lv -> 0 <= f_offset (canon lv).
  Proof.
    intros (_ & _ & Hnat) H. unfold canon. cbn [f_offset]. unfold site_idx, site_ok in *.
    destruct (lv_is_native (fst lv)) eqn:Hn.
    - unfold spec_site, spec_run. rewrite (Hnat eq_refl). cbn [fold_left snd]. lia.
    - specialize (H eq_refl). destruct (spec_site lv) as [[[[f idx] line] col]|]; [|lia].
      destruct H as (_ & nm & src & _ & Hp). apply pf_nonneg in Hp. lia.
  Qed.

  (* the raise, against the innermost levels (innermost first) *)
  Definition raise_ok (rl : list level) (r : raise) : Prop :=
    match r, rl with
    | RAt k idx line col, top :: _ =>
        lv_is_native (fst top) = false /\ (k = KOther -> fx_site fx = true) /\
        lookup_ok (spec_cur_file top) idx line col
    | RNoAt idx line col, top :: _ =>
        lv_is_native (fst top) = false /\ (fx_at fx = false -> site_idx top = idx) /\
        lookup_ok (spec_cur_file top) idx line col
    | RNative, top :: _ => lv_is_native (fst top) = true
    | RPop line col, nat :: top :: _ =>
        lv_is_native (fst nat) = true /\ lv_is_native (fst top) = false /\
        exists f idx, spec_site top = Some (f, idx, line, col)
    | _, _ => False
    end.

  Lemma location_top_at top idx line col :
    lv_is_native (fst top) = false -> lookup_ok (spec_cur_file top) idx line col ->
    location pf files (set_offset (canon top) idx) = spec_top files top line col.
  Proof.
    intros Hn (nm & src & Hg & Hp). unfold location, spec_top, canon, set_offset.
    cbn [f_callee f_native f_file f_offset]. rewrite Hn, Hg, Hp. unfold fname_of. rewrite Hg. reflexivity.
  Qed.

  Lemma map_cut {A B} (f : A -> B) limit l : map f (cut limit l) = cut limit (map f l).
  Proof. unfold cut. destruct (limit <=? 0); [reflexivity|]. symmetry. apply firstn_map. Qed.

  Theorem trace_refines : forall limit levels r,
    Forall level_plain levels -> Forall site_ok levels -> raise_ok (rev levels) r ->
    model_trace fx pf files limit levels r = spec_trace files limit levels r.
  Proof.
    intros limit levels r Hpl Hok Hr.
    unfold model_trace, spec_trace, spec_frames, scopes.
    assert (Hsc : map (level_frame fx) levels = map canon levels).
    { apply map_ext_in. intros lv Hin. apply level_frame_canon.
      rewrite Forall_forall in Hpl. apply Hpl. exact Hin. }
    rewrite Hsc. rewrite <- map_rev.
    apply Forall_rev in Hpl. apply Forall_rev in Hok.
    set (rl := rev levels) in *. clearbody rl. clear Hsc levels.
    assert (Houter : forall l, Forall level_plain l -> Forall site_ok l ->
              (forall fr, In fr (map canon l) -> 0 <= f_offset fr) /\
              map (location pf files) (map canon l) = map (spec_outer files) l).
    { intros l H1 H2. split.
      - intros fr Hin. apply in_map_iff in Hin. destruct Hin as (lv & <- & Hin).
        rewrite Forall_forall in H1, H2. apply canon_offset_nonneg; auto.
      - rewrite map_map. apply map_ext_in. intros lv Hin. apply location_outer.
        rewrite Forall_forall in H2. auto. }
    destruct r as [k idx line col|idx line col| |line col].
    - (* RAt *)
      destruct rl as [|top outers]; [destruct Hr|]. destruct Hr as (Hn & Hk & Hl).
      inversion Hpl; subst. inversion Hok; subst.
      destruct (Houter outers) as (Hpos & Hmap); try assumption.
      cbn [map raise_pop raise_at raise_lc fst snd]. rewrite new_error_all_recorded by exact Hpos.
      rewrite map_cut. cbn [map with_at]. rewrite Hmap. f_equal. f_equal.
      assert (Hrs : record_site fx k idx = idx).
      { destruct k; cbn [record_site]; try reflexivity. rewrite Hk; reflexivity. }
      rewrite Hrs. apply location_top_at; assumption.
    - (* RNoAt *)
      destruct rl as [|top outers]; [destruct Hr|]. destruct Hr as (Hn & Hk & Hl).
      inversion Hpl; subst. inversion Hok; subst.
      destruct (Houter outers) as (Hpos & Hmap); try assumption.
      cbn [map raise_pop raise_at raise_lc fst snd]. rewrite new_error_all_recorded by exact Hpos.
      rewrite map_cut. cbn [map]. rewrite Hmap. f_equal. f_equal.
      destruct (fx_at fx) eqn:Hat; cbn [with_at].
      + apply location_top_at; assumption.
      + specialize (Hk eq_refl).
        replace (canon top) with (set_offset (canon top) idx).
        * apply location_top_at; assumption.
        * unfold canon, set_offset. cbn [f_native f_file f_callee]. rewrite Hk. reflexivity.
    - (* RNative *)
      destruct rl as [|top outers]; [destruct Hr|]. cbn [raise_ok] in Hr.
      inversion Hpl; subst. inversion Hok; subst.
      destruct (Houter outers) as (Hpos & Hmap); try assumption.
      cbn [map raise_pop raise_at raise_lc fst snd]. rewrite new_error_all_recorded by exact Hpos.
      rewrite map_cut. cbn [map with_at]. rewrite Hmap. f_equal. f_equal.
      unfold location, spec_top, canon. cbn [f_callee f_native]. rewrite Hr. reflexivity.
    - (* RPop *)
      destruct rl as [|nat [|top outers]]; try destruct Hr.
      destruct H0 as (Hn & f & idx & Hs).
      inversion Hpl as [|? ? _ Hpl']; subst. inversion Hpl'; subst.
      inversion Hok as [|? ? _ Hok']; subst. inversion Hok'; subst.
      destruct (Houter outers) as (Hpos & Hmap); try assumption.
      cbn [map raise_pop raise_at raise_lc fst snd tl].
      change (new_error limit (canon nat :: canon top :: map canon outers) 1 None)
        with (new_error limit (canon top :: map canon outers) 0 None).
      rewrite new_error_all_recorded by exact Hpos.
      rewrite map_cut. cbn [map with_at]. rewrite Hmap. f_equal. f_equal.
      rewrite location_outer by assumption. unfold spec_outer, spec_top. rewrite Hn, Hs.
      match goal with H : site_ok top |- _ => specialize (H Hn); rewrite Hs in H; destruct H as (Hf & _) end.
      subst f. reflexivity.
  Qed.
End Refine.

(* ------------------------------------------------------------------ *)
(* instances                                                            *)

Lemma file_position_neg src : file_position_off src (-1) = None.
Proof. unfold file_position_off. destruct (zlen src <=? -1); reflexivity. Qed.
Lemma file_position_nonneg src o p : file_position_off src o = Some p -> 0 <= o.
Proof.
  unfold file_position_off. destruct (Z.ltb_spec o 0); [|lia].
  rewrite orb_true_r. discriminate.
Qed.
Lemma gen_position_neg t c src : gen_position t c src (-1) = None.
Proof. unfold gen_position. destruct (zlen src <=? -1); reflexivity. Qed.
Lemma gen_position_nonneg t c src o p : gen_position t c src o = Some p -> 0 <= o.
Proof.
  unfold gen_position. destruct (Z.ltb_spec o 0); [|lia].
  rewrite orb_true_r. discriminate.
Qed.

(* otto as it is, on programs without the listed deviations *)
Theorem trace_guarded : forall files limit levels r,
  Forall (level_plain nofix) levels ->
  Forall (site_ok file_position_off files) levels ->
  raise_ok file_position_off nofix files (rev levels) r ->
  model_trace nofix file_position_off files limit levels r = spec_trace files limit levels r.
Proof.
  intros. apply trace_refines; try assumption.
  - exact file_position_neg.
  - exact file_position_nonneg.
Qed.

(* otto with the listed deviations repaired, on every program *)
Theorem trace_repaired : forall files limit levels r,
  Forall (level_plain allfix) levels ->
  Forall (site_ok es5_position files) levels ->
  raise_ok es5_position allfix files (rev levels) r ->
  model_trace allfix (pos_of allfix) files limit levels r = spec_trace files limit levels r.
Proof.
  intros. change (pos_of allfix) with es5_position. apply trace_refines; try assumption.
  - exact (gen_position_neg true true).
  - exact (gen_position_nonneg true true).
Qed.

(* with every switch on, a level is plain as soon as its built-in frames carry no events *)
Lemma level_plain_allfix lv :
  (lv_is_native (fst lv) = true -> snd lv = []) -> level_plain allfix lv.
Proof.
  intro H. repeat split; [| |exact H].
  - destruct (fst lv); exact I || reflexivity.
  - apply Forall_forall. intros e _. destruct e as [k ? ? ?|? ? ?| |]; [destruct k|..]; exact I || reflexivity.
Qed.

(* the generator's (line, col) of a token and its file.Idx determine each other *)
Lemma lookup_from_lines files f nm lines idx line col :
  get_file files f = Some (nm, join_lines lines) -> lines_ok lines -> in_text lines line col ->
  idx = 1 + offset_of lines line col ->
  lookup_ok file_position_off files f idx line col.
Proof.
  intros Hg Hok Hin ->. exists nm, (join_lines lines). split; [exact Hg|].
  replace (1 + offset_of lines line col - 1) with (offset_of lines line col) by lia.
  apply position_inverse; assumption.
Qed.

(* ------------------------------------------------------------------ *)
(* text and classes                                                     *)

Theorem uncaught_text_unchanged : forall n m,
  uncaught_text (ThError n m (Some n) (Some m)) = spec_text (ThError n m (Some n) (Some m)).
Proof. intros. reflexivity. Qed.

Theorem uncaught_text_other : forall s, uncaught_text (ThOther s) = spec_text (ThOther s).
Proof. reflexivity. Qed.

Theorem format_name_message : forall n m, n <> [] -> m <> [] -> format n m = n ++ [58; 32] ++ m.
Proof. intros n m Hn Hm. destruct n; [contradiction|]. destruct m; [contradiction|]. reflexivity. Qed.

Theorem class_table : forall kind, kind <> 20 -> model_class kind = spec_class kind.
Proof.
  intros kind H20. destruct kind as [|p|p]; try reflexivity.
  do 7 (try (destruct p as [p|p|]; try reflexivity)); exfalso; apply H20; reflexivity.
Qed.

Theorem message_table : forall kind, kind <> 12 -> kind <> 13 -> kind <> 38 ->
  model_msg_nonempty kind = spec_msg_nonempty kind.
Proof.
  intros kind H12 H13 H38. destruct kind as [|p|p]; try reflexivity.
  do 7 (try (destruct p as [p|p|]; try reflexivity)); exfalso;
    first [apply H12; reflexivity | apply H13; reflexivity | apply H38; reflexivity].
Qed.

(* ------------------------------------------------------------------ *)
(* parser.lineCount / parser.position follow the ES5 7.3 line structure   *)

Lemma line_count_scan : forall n s index line last pair p2 p1,
  (n <= length s)%nat ->
  gscan true false s n (1 + line) (index - last) pair p2 p1 =
  (1 + fst (line_count_from (firstn n s) index line last pair p2 p1),
   index + Z.of_nat n - snd (line_count_from (firstn n s) index line last pair p2 p1)).
Proof.
  induction n as [|n IH]; intros s index line last pair p2 p1 Hn.
  - cbn [firstn line_count_from fst snd]. destruct s; cbn [gscan]; f_equal; lia.
  - destruct s as [|b r]; [cbn [length] in Hn; lia|].
    assert (Hn' : (n <= length r)%nat) by (cbn [length] in Hn; lia).
    cbn [firstn line_count_from gscan andb].
    destruct (Z.eqb_spec b 10) as [H10|H10].
    + subst b. change (10 =? 13) with false. cbv iota.
      destruct pair.
      * replace 1 with (index + 1 - index) at 2 by lia.
        rewrite (IH r (index + 1) line index false p1 10 Hn'). f_equal. lia.
      * replace (1 + line + 1) with (1 + (line + 1)) by lia.
        replace 1 with (index + 1 - index) at 3 by lia.
        rewrite (IH r (index + 1) (line + 1) index false p1 10 Hn'). f_equal. lia.
    + destruct (Z.eqb_spec b 13) as [H13|H13].
      * replace (1 + line + 1) with (1 + (line + 1)) by lia.
        replace 1 with (index + 1 - index) at 3 by lia.
        rewrite (IH r (index + 1) (line + 1) index true p1 b Hn'). f_equal. lia.
      * destruct (((b =? 168) || (b =? 169)) && (p1 =? 128) && (p2 =? 226)).
        -- replace (1 + line + 1) with (1 + (line + 1)) by lia.
           replace 1 with (index + 1 - index) at 3 by lia.
           rewrite (IH r (index + 1) (line + 1) index false p1 b Hn'). f_equal. lia.
        -- replace (index - last + 1) with (index + 1 - last) by lia.
           rewrite (IH r (index + 1) line last false p1 b Hn'). f_equal. lia.
Qed.

Lemma line_count_last : forall s index line last pair p2 p1,
  snd (line_count_from s index line last pair p2 p1) = last \/
  index <= snd (line_count_from s index line last pair p2 p1).
Proof.
  induction s as [|b r IH]; intros; cbn [line_count_from]; [left; reflexivity|].
  destruct (b =? 13).
  { destruct (IH (index + 1) (line + 1) index true p1 b) as [->|H]; right; lia. }
  destruct (b =? 10).
  { destruct (IH (index + 1) (if pair then line else line + 1) index false p1 b) as [->|H]; right; lia. }
  destruct (((b =? 168) || (b =? 169)) && (p1 =? 128) && (p2 =? 226)).
  { destruct (IH (index + 1) (line + 1) index false p1 b) as [->|H]; right; lia. }
  destruct (IH (index + 1) line last false p1 b) as [->|H]; [left; reflexivity|right; lia].
Qed.

(* for every text and every offset in it (or at its end) the parser reports the
   line and column of the ES5 line structure (LF, CR, CR LF, U+2028, U+2029),
   columns in bytes *)
Theorem parser_position_lines : forall src offset, 0 <= offset <= zlen src ->
  parser_position_off src offset = Some (gscan true false src (Z.to_nat offset) 1 1 false 0 0).
Proof.
  intros src offset H. unfold parser_position_off.
  destruct (Z.ltb_spec offset 0); [lia|]. destruct (Z.ltb_spec (zlen src) offset); [lia|]. cbn [orb].
  unfold line_count.
  assert (Hn : (Z.to_nat offset <= length src)%nat) by (unfold zlen in H; lia).
  pose proof (line_count_scan (Z.to_nat offset) src 0 0 (-1) false 0 0 Hn) as L.
  replace (1 + 0) with 1 in L by lia. replace (0 - -1) with 1 in L by lia.
  rewrite L. destruct (line_count_from (firstn (Z.to_nat offset) src) 0 0 (-1) false 0 0) as [l' last'] eqn:E.
  cbn [fst snd]. f_equal. f_equal.
  rewrite zlen_firstn by lia.
  pose proof (line_count_last (firstn (Z.to_nat offset) src) 0 0 (-1) false 0 0) as Hl.
  rewrite E in Hl. cbn [snd] in Hl.
  destruct (Z.leb_spec 0 last'); lia.
Qed.

(* without multi-byte characters, byte columns are character columns *)
Definition single_byte (s : list Z) : Prop := forall b, In b s -> is_cont b = false.

Lemma gscan_single_byte : forall t s n line col pc p2 p1, single_byte s ->
  gscan t true s n line col pc p2 p1 = gscan t false s n line col pc p2 p1.
Proof.
  induction s as [|b r IH]; intros n line col pc p2 p1 H; destruct n as [|n]; try reflexivity.
  assert (Hr : single_byte r) by (intros x Hx; apply H; right; exact Hx).
  assert (Hb : is_cont b = false) by (apply H; left; reflexivity).
  cbn [gscan]. rewrite Hb. cbn [andb].
  destruct (b =? 10); [destruct (t && pc); apply IH; exact Hr|].
  destruct (t && (b =? 13)); [apply IH; exact Hr|].
  destruct (t && ((b =? 168) || (b =? 169)) && (p1 =? 128) && (p2 =? 226)); apply IH; exact Hr.
Qed.

Theorem parser_position_es5 : forall src offset, single_byte src -> 0 <= offset <= zlen src ->
  parser_position_off src offset = es5_position_incl src offset.
Proof.
  intros src offset Hs H. rewrite parser_position_lines by exact H. unfold es5_position_incl.
  destruct (Z.ltb_spec (zlen src) offset); [lia|]. destruct (Z.ltb_spec offset 0); [lia|]. cbn [orb].
  rewrite gscan_single_byte by exact Hs. reflexivity.
Qed.

(* every byte of the text is named by some (line, col) *)
Lemma offset_surjective : forall lines off,
  0 <= off < zlen (join_lines lines) ->
  exists line col, in_text lines line col /\ offset_of lines line col = off.
Proof.
  induction lines as [|l0 rest IH]; intros off H.
  { cbn [join_lines] in H. unfold zlen in H; cbn [length] in H. lia. }
  pose proof (zlen_nonneg l0) as Hl0.
  destruct rest as [|l1 rest'].
  - cbn [join_lines] in H. exists 1, (off + 1). split.
    + unfold in_text. rewrite zlen_cons. replace (zlen (@nil (list Z))) with 0 by reflexivity.
      replace (Z.to_nat (1 - 1)) with 0%nat by lia. cbn [nth].
      destruct (Z.ltb_spec 1 (1 + 0)); lia.
    + cbn [offset_of]. destruct (Z.leb_spec 1 1); lia.
  - rewrite join_cons in H. rewrite zlen_app, zlen_cons in H.
    pose proof (zlen_nonneg rest') as Hr'.
    destruct (Z.le_gt_cases off (zlen l0)) as [Hle|Hgt].
    + exists 1, (off + 1). split.
      * unfold in_text. rewrite !zlen_cons. replace (Z.to_nat (1 - 1)) with 0%nat by lia. cbn [nth].
        destruct (Z.ltb_spec 1 (1 + (1 + zlen rest'))); lia.
      * cbn [offset_of]. destruct (Z.leb_spec 1 1); lia.
    + destruct (IH (off - zlen l0 - 1)) as (line & col & Hin & Hoff); [lia|].
      exists (line + 1), col. destruct Hin as (Ha & Hb & Hc). rewrite zlen_cons in Ha, Hc. split.
      * unfold in_text. rewrite !zlen_cons. repeat split; try lia.
        replace (Z.to_nat (line + 1 - 1)) with (S (Z.to_nat (line - 1))) by lia. cbn [nth].
        cbn [nth] in Hc. destruct (Z.ltb_spec line (1 + zlen rest')); destruct (Z.ltb_spec (line + 1) (1 + (1 + zlen rest'))); lia.
      * cbn [offset_of]. destruct (Z.leb_spec (line + 1) 1); [lia|].
        replace (line + 1 - 1) with line by lia.
        cbn [offset_of] in Hoff. lia.
Qed.

(* ... so the lookup is also injective: whatever File.Position answers is the
   (line, col) whose offset was asked for *)
Theorem position_offset_inverse : forall lines off line col,
  lines_ok lines ->
  file_position_off (join_lines lines) off = Some (line, col) ->
  in_text lines line col /\ offset_of lines line col = off.
Proof.
  intros lines off line col Hok Hp.
  assert (Hr : 0 <= off < zlen (join_lines lines)).
  { unfold file_position_off in Hp.
    destruct (Z.leb_spec (zlen (join_lines lines)) off); [discriminate|].
    destruct (Z.ltb_spec off 0); [discriminate|]. lia. }
  destruct (offset_surjective lines off Hr) as (l & c & Hin & Hoff).
  pose proof (position_inverse lines l c Hok Hin) as Hq. rewrite Hoff in Hq.
  rewrite Hq in Hp. inversion Hp as [[Hl Hc]]. rewrite <- Hl, <- Hc. split; assumption.
Qed.

(* ------------------------------------------------------------------ *)
(* argument-dependent raises: otto's checks decide as ES5 does          *)

Lemma to_integer_float_spec a : to_integer_float a = spec_to_integer a.
Proof.
  destruct a as [| |n|m e]; try reflexivity. cbn [to_integer_float spec_to_integer].
  destruct (Z.leb_spec 0 e); [reflexivity|]. f_equal.
  assert (Hd : 0 < 2 ^ (- e)) by (apply Z.pow_pos_nonneg; lia).
  rewrite Z.quot_div by lia. rewrite (Z.sgn_pos (2 ^ (- e))) by exact Hd.
  rewrite (Z.abs_eq (2 ^ (- e))) by lia. lia.
Qed.

Lemma is_array_length_spec a : is_array_length a = spec_is_uint32 a.
Proof.
  destruct a as [| |n|m e]; try reflexivity. cbn [is_array_length spec_is_uint32].
  destruct (Z.leb_spec 0 e).
  - destruct (Z.leb_spec 0 (m * 2 ^ e)); cbn [andb]; [|reflexivity].
    destruct (Z.ltb_spec (m * 2 ^ e) (2 ^ 32)); destruct (Z.leb_spec (m * 2 ^ e) (2 ^ 32 - 1)); lia.
  - assert (Hd : 0 < 2 ^ (- e)) by (apply Z.pow_pos_nonneg; lia).
    set (d := 2 ^ (- e)) in *. clearbody d.
    destruct (Z.leb_spec 0 m) as [Hm|Hm].
    + rewrite (Z.abs_eq m) by lia. rewrite andb_true_r.
      destruct (m mod d =? 0); cbn [andb]; [|reflexivity].
      assert (0 <= m / d) by (apply Z.div_pos; lia).
      destruct (Z.leb_spec 0 (m / d)); [|lia]. cbn [andb].
      destruct (Z.ltb_spec (m / d) (2 ^ 32)); destruct (Z.leb_spec (m / d) (2 ^ 32 - 1)); lia.
    + rewrite andb_false_r. cbn [andb].
      assert (m / d < 0) by (apply Z.div_lt_upper_bound; lia).
      destruct (Z.leb_spec 0 (m / d)); [lia|]. cbn [andb]. apply andb_false_r.
Qed.

Theorem throws_as_es5 : forall fn a b, spec_throws fn a = Some b -> model_throws fn a = b.
Proof.
  intros fn a b H. unfold model_throws, spec_throws in *.
  rewrite to_integer_float_spec, is_array_length_spec.
  destruct fn as [|p|p]; try discriminate.
  do 3 (try (destruct p as [p|p|]; try discriminate));
    try (inversion H; reflexivity); try (inversion H; apply orb_comm);
    destruct a; try (inversion H; reflexivity); cbn [spec_to_integer] in *;
    repeat match type of H with context [ext_lt ?i ?k] => destruct (ext_lt i k) end;
    repeat match type of H with context [ext_gt ?i ?k] => destruct (ext_gt i k) end;
    try discriminate; inversion H; reflexivity.
Qed.

(* why residues modulo 2^32 are generated: a check on the 32-bit wrapped value decides differently *)
Definition wrap32 (z : Z) : Z := (z + 2 ^ 31) mod 2 ^ 32 - 2 ^ 31.
Theorem wrapped_radix_check_refuted : exists r,
  spec_throws 1 (AFin r 0) = Some true /\ ((wrap32 r <? 2) || (36 <? wrap32 r)) = false.
Proof. exists 4294967312. vm_compute. split; reflexivity. Qed.

(* ------------------------------------------------------------------ *)
(* in / instanceof convert what ES5 converts, in its order (finite domain) *)
Theorem order_as_es5 : forall op l r, model_order op l r = spec_order op l r.
Proof.
  intros op l r. unfold model_order, spec_order. destruct (op =? 0); destruct l; destruct r; reflexivity.
Qed.

(* converting the left operand of `in` first is a different behaviour *)
Definition in_left_first (l : lop) (r : rop) : Z * list Z :=
  let '(lg, thr) := l_tostring l in
  if thr then (90, lg) else match r with RPrim => (6, lg) | RObj => (1, lg) | _ => (0, lg) end.
Theorem in_left_first_refuted : exists l r, in_left_first l r <> spec_order 0 l r.
Proof. exists LThrow, RPrim. vm_compute. discriminate. Qed.

(* ------------------------------------------------------------------ *)
(* a direct eval gives the caller's frame its file back                 *)
Theorem direct_eval_restores_file : forall fx k evs f,
  run_events fx k (evs ++ [EvEvalEnter f; EvEvalLeave]) = run_events fx k evs.
Proof.
  intros fx k evs f. unfold run_events. rewrite fold_left_app.
  destruct (fold_left (ev_step fx) evs (init_frame fx k, [])) as [fr stk].
  cbn [fold_left ev_step fst]. unfold set_file. cbn [f_native f_file f_callee f_offset].
  destruct fr; reflexivity.
Qed.

(* FileSet.Position of a single file is File.Position, hence the inverse of the
   generator's offset function *)
Theorem fileset_position_inverse : forall lines line col,
  lines_ok lines -> in_text lines line col ->
  fileset_position [join_lines lines] (1 + offset_of lines line col) = Some (0, line, col).
Proof.
  intros lines line col Hok Hin. unfold fileset_position. cbn [fileset_bases fileset_position_in].
  pose proof (position_inverse lines line col Hok Hin) as Hp.
  assert (Hr : offset_of lines line col < zlen (join_lines lines)).
  { unfold file_position_off in Hp.
    destruct (Z.leb_spec (zlen (join_lines lines)) (offset_of lines line col)); [discriminate|]. lia. }
  destruct (Z.leb_spec (1 + offset_of lines line col) (1 + zlen (join_lines lines))); [|lia].
  unfold file_position. replace (1 + offset_of lines line col - 1) with (offset_of lines line col) by lia.
  rewrite Hp. reflexivity.
Qed.

(* ------------------------------------------------------------------ *)
(* early error against late error: otto's evaluators pick the ES5 winner with
   the ES5 side effects in every scenario (finite table) *)
Theorem eval_order_table : forall id, model_eval id = spec_eval id.
Proof.
  intros id. destruct id as [|p|p]; try reflexivity;
  do 7 (try (destruct p as [p|p|]; try reflexivity)).
Qed.

(* ------------------------------------------------------------------ *)
(* user error types (Sub.prototype = new Error()): the text is that of the thrown object *)
Lemma builtin_error_tostring_spec : forall n m, builtin_error_tostring n m = error_tostring n m.
Proof.
  intros n m. unfold builtin_error_tostring, error_tostring, err_name_units.
  destruct n as [[|a n]|]; destruct m as [[|b m]|]; reflexivity.
Qed.

Theorem uncaught_text_derived : forall pn pm cn cm,
  uncaught_text (ThDerived pn pm cn cm) = spec_text (ThDerived pn pm cn cm).
Proof. intros. apply builtin_error_tostring_spec. Qed.

(* reporting through the error found on the prototype chain would be a different text *)
Theorem prototype_payload_refuted : exists pn pm cn cm,
  format pn pm <> spec_text (ThDerived pn pm cn cm).
Proof. exists [69], [], (Some [86]), (Some [109]). vm_compute. discriminate. Qed.
