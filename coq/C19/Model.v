(* C19 — otto's own error machinery, transcribed.

   file/file.go      File.Position            -> [file_position]
   parser/parser.go  lineCount, position      -> [line_count], [parser_position]
   cmpl_evaluate_expression.go  call/new      -> [record_site]  (atv := at(-1) unless the
                                                 callee is an identifier, dot or bracket node)
   type_function.go  call                     -> [init_frame]   (the frame of a fresh scope)
   cmpl_evaluate.go  cmplEvaluateNodeProgram  -> [EvEvalEnter] / [EvEvalLeave]  (frame.file := program
                                                 file; a direct eval gives the caller's file back)
   error.go          newError                 -> [new_error]    (pop, at, the limit loop)
   error.go          frame.location           -> [location]
   error.go          ottoError.format         -> [format]
   error.go          catchPanic               -> [uncaught_text]
   runtime.go        parseThrow               -> [parse_throw_class]
   the raise sites of the interpreter         -> [model_class], [model_msg_nonempty]

   Source texts are lists of bytes (Z), names and file names are small integer
   ids assigned by the harness (0 = the empty name / the anonymous file).

   The record [fixes] switches individual deviations of otto from the property
   off; [nofix] is otto as it is.  The verdict of the correspondence run uses
   the switches only to attribute a disagreement to one listed finding. *)
From Coq Require Import ZArith List Bool.
Import ListNotations.
Open Scope Z_scope.

(* ------------------------------------------------------------------ *)
(* positions                                                            *)

(* strings.Count(s, "\n") *)
Fixpoint count_nl (s : list Z) : Z :=
  match s with
  | [] => 0
  | b :: r => (if b =? 10 then 1 else 0) + count_nl r
  end.

(* strings.LastIndex(s, "\n"), -1 when absent; [i] is the index of the head *)
Fixpoint last_nl_from (s : list Z) (i : Z) (acc : Z) : Z :=
  match s with
  | [] => acc
  | b :: r => last_nl_from r (i + 1) (if b =? 10 then i else acc)
  end.
Definition last_nl (s : list Z) : Z := last_nl_from s 0 (-1).

Definition zlen {A} (l : list A) : Z := Z.of_nat (length l).

(* File.Position(idx) for a file of base [base] without source map: (line, column) *)
Definition file_position_off (src : list Z) (offset : Z) : option (Z * Z) :=
  if (zlen src <=? offset) || (offset <? 0) then None
  else
    let pre := firstn (Z.to_nat offset) src in
    let line := count_nl pre + 1 in
    let index := last_nl pre in
    Some (line, if 0 <=? index then offset - index else zlen pre + 1).

Definition file_position (base : Z) (src : list Z) (idx : Z) : option (Z * Z) :=
  file_position_off src (idx - base).

(* FileSet: files are laid out at base 1, then last.base + len(last.src) + 1 *)
Fixpoint fileset_bases (files : list (list Z)) (base : Z) : list (Z * list Z) :=
  match files with
  | [] => []
  | s :: r => (base, s) :: fileset_bases r (base + zlen s + 1)
  end.
(* FileSet.Position: the first file with idx <= base+len, then file.Position(idx) *)
Fixpoint fileset_position_in (l : list (Z * list Z)) (idx : Z) (k : Z) : option (Z * Z * Z) :=
  match l with
  | [] => None
  | (base, s) :: r =>
      if idx <=? base + zlen s then
        match file_position base s idx with
        | Some (ln, c) => Some (k, ln, c)
        | None => None
        end
      else fileset_position_in r idx (k + 1)
  end.
Definition fileset_position (files : list (list Z)) (idx : Z) : option (Z * Z * Z) :=
  fileset_position_in (fileset_bases files 1) idx 0.

(* parser.lineCount, byte level.  Go ranges over runes; only CR, LF, U+2028
   and U+2029 matter, every other rune just clears [pair].  0xE2 is never a
   continuation byte, so Go's decoder always starts a rune at an 0xE2 byte and
   E2 80 A8/A9 is U+2028/9 exactly when these three bytes occur; [p2 p1] are
   the two previous bytes.  [last] is the index of the last byte of the last
   line terminator (index + 2 for the three-byte ones). *)
Fixpoint line_count_from (s : list Z) (index line last : Z) (pair : bool) (p2 p1 : Z) : Z * Z :=
  match s with
  | [] => (line, last)
  | b :: r =>
      if b =? 13 then line_count_from r (index + 1) (line + 1) index true p1 b
      else if b =? 10 then line_count_from r (index + 1) (if pair then line else line + 1) index false p1 b
      else if ((b =? 168) || (b =? 169)) && (p1 =? 128) && (p2 =? 226)
           then line_count_from r (index + 1) (line + 1) index false p1 b
      else line_count_from r (index + 1) line last false p1 b
  end.
Definition line_count (s : list Z) : Z * Z := line_count_from s 0 0 (-1) false 0 0.

(* parser.position(idx), offset = idx - base (always inside the text or at its end) *)
Definition parser_position_off (src : list Z) (offset : Z) : option (Z * Z) :=
  if (offset <? 0) || (zlen src <? offset) then None   (* Go would panic on the slice *)
  else
    let str := firstn (Z.to_nat offset) src in
    let '(line, last) := line_count str in
    Some (1 + line, if 0 <=? last then offset - last else 1 + zlen str).

(* ------------------------------------------------------------------ *)
(* frames and the events that change them                               *)

Record frame := mkFrame {
  f_native : bool;
  f_file   : Z;      (* index into the case's file table, -1 = nil *)
  f_callee : Z;      (* name id, 0 = "" *)
  f_offset : Z       (* a file.Idx: base + byte offset; 0 in a fresh frame, -1 = at(-1) *)
}.

Definition set_offset (fr : frame) (o : Z) : frame :=
  mkFrame (f_native fr) (f_file fr) (f_callee fr) o.
Definition set_file (fr : frame) (f : Z) : frame :=
  mkFrame (f_native fr) f (f_callee fr) (f_offset fr).

(* syntactic class of a callee expression *)
Inductive callform := KIdent | KDot | KBracket | KOther.

Record fixes := mkFixes {
  fx_site : bool;   (* record a call site for every callee form *)
  fx_implicit : bool; (* record a call site when a function is entered without a call expression *)
  fx_at   : bool;   (* every raise site of a script frame passes its position *)
  fx_nofile : bool; (* functions made by the Function constructor carry their source *)
  fx_term : bool;   (* CR, U+2028, U+2029 are line terminators for run-time positions *)
  fx_char : bool    (* columns count characters, not bytes *)
}.
Definition nofix := mkFixes false false false false false false.
Definition allfix := mkFixes true true true true true true.

(* cmplEvaluateNodeCallExpression / NewExpression: atv *)
Definition record_site (fx : fixes) (k : callform) (idx : Z) : Z :=
  match k with
  | KOther => if fx_site fx then idx else -1
  | _ => idx
  end.

Inductive event :=
| EvCall (k : callform) (idx line col : Z)   (* a call or new expression evaluated in this frame;
                                                idx = file.Idx of the callee's first token,
                                                (line, col) = where the generator put that token *)
| EvImplicit (idx line col : Z)              (* a script function entered without a call expression of
                                                this frame: getter, setter, valueOf/toString of a
                                                conversion; nothing is stored in frame.offset
                                                (idx, line, col) = where the triggering expression starts *)
| EvEvalEnter (file : Z)                     (* direct eval: cmplEvaluateNodeProgram(node, true) *)
| EvEvalLeave.

Inductive lvkind :=
| LvGlobal (file : Z)              (* enterGlobalScope + cmplEvaluateNodeProgram *)
| LvFunc (name file : Z)           (* nodeFunctionObject call: callee fn.node.name, file fn.node.file *)
| LvFuncNoFile (name file : Z)     (* function made by Function(...) or a function literal inside
                                      one: compiler{} has no file; the harness still lists the
                                      synthesised source as [file] *)
| LvNative (name : Z).             (* nativeFunctionObject call *)

Definition level := (lvkind * list event)%type.

Definition init_frame (fx : fixes) (k : lvkind) : frame :=
  match k with
  | LvGlobal f => mkFrame false f 0 0
  | LvFunc n f => mkFrame false f n 0
  | LvFuncNoFile n f => mkFrame false (if fx_nofile fx then f else -1) n 0
  | LvNative n => mkFrame true (-1) n 0
  end.

(* the frame together with the files saved by pending direct evals (the deferred
   restore of cmplEvaluateNodeProgram(node, true)) *)
Definition ev_step (fx : fixes) (st : frame * list Z) (e : event) : frame * list Z :=
  let '(fr, stk) := st in
  match e with
  | EvCall k idx _ _ => (set_offset fr (record_site fx k idx), stk)
  | EvImplicit idx _ _ => ((if fx_implicit fx then set_offset fr idx else fr), stk)
  | EvEvalEnter f => (set_file fr f, f_file fr :: stk)
  | EvEvalLeave =>
      match stk with
      | [] => (fr, [])
      | s :: stk' => (set_file fr s, stk')
      end
  end.

Definition run_events (fx : fixes) (k : lvkind) (evs : list event) : frame :=
  fst (fold_left (ev_step fx) evs (init_frame fx k, [])).

Definition level_frame (fx : fixes) (lv : level) : frame := run_events fx (fst lv) (snd lv).

(* rt.scope and its chain of outer scopes, innermost first *)
Definition scopes (fx : fixes) (levels : list level) : list frame :=
  rev (map (level_frame fx) levels).

(* ------------------------------------------------------------------ *)
(* newError                                                             *)

(* for range stackFramesToPop { if curScope.outer != nil { curScope = curScope.outer } } *)
Fixpoint pop_frames (n : nat) (sc : list frame) : list frame :=
  match n with
  | O => sc
  | S n' => match sc with
            | _ :: (_ :: _) as outer => pop_frames n' outer
            | _ => sc
            end
  end.

(* for curScope = curScope.outer; curScope != nil; ... { if limit--; limit == 0 { break }
     if curScope.frame.offset >= 0 { append } } *)
Fixpoint walk_outer (limit : Z) (outers : list frame) : list frame :=
  match outers with
  | [] => []
  | fr :: rest =>
      let limit' := limit - 1 in
      if limit' =? 0 then []
      else (if 0 <=? f_offset fr then [fr] else []) ++ walk_outer limit' rest
  end.

Definition new_error (limit : Z) (sc : list frame) (pop : nat) (atv : option Z) : list frame :=
  match pop_frames pop sc with
  | [] => []                                   (* rt.scope == nil *)
  | top :: outers =>
      (match atv with Some a => set_offset top a | None => top end) :: walk_outer limit outers
  end.

(* ------------------------------------------------------------------ *)
(* frame.location                                                       *)

Inductive sloc :=
| SPos (fname line col : Z)
| SNative
| SUnknown.

Definition file_table := list (Z * list Z).     (* file name id, source bytes *)

Definition get_file (files : file_table) (i : Z) : option (Z * list Z) :=
  if i <? 0 then None else nth_error files (Z.to_nat i).

(* the position function in force: otto's, or the repaired ones (see Spec for
   the ES5 reading); kept abstract here so that Model does not depend on Spec *)
Definition posfn := list Z -> Z -> option (Z * Z).

Definition location (pf : posfn) (files : file_table) (fr : frame) : Z * sloc :=
  (f_callee fr,
   if f_native fr then SNative
   else match get_file files (f_file fr) with
        | None => SUnknown
        | Some (fname, src) =>
            match pf src (f_offset fr - 1) with     (* every runtime file has base 1 *)
            | None => SUnknown
            | Some (ln, c) => SPos fname ln c
            end
        end).

(* ------------------------------------------------------------------ *)
(* the raise                                                            *)

Inductive raise :=
| RAt (k : callform) (idx line col : Z)   (* the site passes at(record_site k idx): unresolvable
                                             reference, member of undefined/null, callee not a function *)
| RNoAt (idx line col : Z)                (* raised in a script frame without a position *)
| RNative                                 (* raised by the innermost native function *)
| RPop (line col : Z).                    (* Error(...) called as a function: newError pops the native frame *)

Definition raise_at (fx : fixes) (r : raise) : option Z :=
  match r with
  | RAt k idx _ _ => Some (record_site fx k idx)
  | RNoAt idx _ _ => if fx_at fx then Some idx else None
  | RNative => None
  | RPop _ _ => None
  end.
Definition raise_pop (r : raise) : nat := match r with RPop _ _ => 1%nat | _ => 0%nat end.

Definition model_trace (fx : fixes) (pf : posfn) (files : file_table) (limit : Z)
           (levels : list level) (r : raise) : list (Z * sloc) :=
  map (location pf files) (new_error limit (scopes fx levels) (raise_pop r) (raise_at fx r)).

(* ------------------------------------------------------------------ *)
(* error text                                                           *)

(* ottoError.format; strings are lists of UTF-16 units *)
Definition format (name message : list Z) : list Z :=
  match name, message with
  | [], _ => message
  | _, [] => name
  | _, _ => name ++ [58; 32] ++ message
  end.

(* a thrown value as catchPanic sees it *)
Inductive thrown :=
| ThError (cap_name cap_msg : list Z)            (* object whose value is an ottoError *)
          (cur_name : option (list Z))           (* ToString of its current name/message, None = undefined *)
          (cur_msg : option (list Z))
| ThDerived (proto_name proto_msg : list Z)      (* an object that is not an error itself but has one on its
                                                    prototype chain (Sub.prototype = new Error()): the
                                                    ottoError belongs to that prototype object *)
            (cur_name : option (list Z))           (* what the thrown object's name / message resolve to *)
            (cur_msg : option (list Z))
| ThOther (tostring : list Z).                   (* anything else: caught.string() *)

(* builtin_error.go builtinErrorToString (what caught.string() runs for an object
   that inherits Error.prototype.toString): name defaults to "Error", message to "" *)
Definition builtin_error_tostring (name msg : option (list Z)) : list Z :=
  let n := match name with None => [69; 114; 114; 111; 114] | Some s => s end in
  let m := match msg with None => [] | Some s => s end in
  match n with
  | [] => m
  | _ => match m with [] => n | _ => n ++ [58; 32] ++ m end
  end.

(* catchPanic looks at the thrown object's own value only *)
Definition uncaught_text (t : thrown) : list Z :=
  match t with
  | ThError n m _ _ => format n m
  | ThDerived _ _ cn cm => builtin_error_tostring cn cm
  | ThOther s => s
  end.

(* ------------------------------------------------------------------ *)
(* error classes: 1 Error 2 EvalError 3 RangeError 4 ReferenceError
   5 SyntaxError 6 TypeError 7 URIError (harness/lib ErrClass) *)

(* parseThrow: errors.Is(err, &errl) compares a *ErrorList with a fresh
   **ErrorList and is never true, so the ReferenceError branch is dead *)
Definition parse_throw_class (errors_is_matches : bool) (first_is_bad_lhs : bool) : Z :=
  if errors_is_matches then (if first_is_bad_lhs then 4 else 5) else 5.

(* the raise sites, by kind id (the harness uses the same numbering) *)
Definition model_class (kind : Z) : Z :=
  match kind with
  | 1 | 2 | 3 | 4 => 6        (* callee is not a function: ident / dot / bracket / other callee *)
  | 5 | 6 => 6                (* new on a non-function; new on a built-in without construct *)
  | 7 | 8 | 9 => 6            (* get / bracket-get / put on undefined or null *)
  | 10 | 11 => 4              (* unresolvable reference (read, call) *)
  | 12 | 13 => 3              (* new Array(bad length); array.length = bad *)
  | 14 => 3                   (* Number.prototype.toString radix *)
  | 15 | 16 | 17 => 3         (* toFixed / toExponential / toPrecision *)
  | 18 => parse_throw_class false false     (* eval of malformed text *)
  | 19 => parse_throw_class false false     (* new Function of malformed text *)
  | 20 => parse_throw_class false true      (* eval("1 = 2") *)
  | 21 | 22 => 6              (* instanceof: right side not an object / not callable *)
  | 23 => 6                   (* in: right side not an object *)
  | 24 => 6                   (* JSON.stringify of a cyclic structure *)
  | 25 => 5                   (* JSON.parse of malformed text *)
  | 26 => 5                   (* new RegExp of a pattern otto's own scanner rejects (re2pattern == "") *)
  | 27 => 5                   (* RegExp with a repeated or unknown flag *)
  | 28 => 7                   (* decodeURI / decodeURIComponent of malformed text *)
  | 29 => 6                   (* Object.defineProperty/create/keys/getPrototypeOf on a non-object *)
  | 30 => 6                   (* Function.prototype.call/apply/bind on a non-callable *)
  | 31 => 6                   (* this-class checks of Date/Number/String/Boolean/RegExp methods *)
  | 32 => 6                   (* ToPropertyDescriptor conflicts *)
  | 33 => 6                   (* [[DefaultValue]] without a primitive *)
  | 34 => 6                   (* ToObject(null/undefined) in a built-in *)
  | 35 => 6                   (* array iteration built-ins with a non-callable *)
  | 36 => 6                   (* [[DefineOwnProperty]] rejected with throw *)
  | 37 => 5                   (* new RegExp: pattern rejected by regexp.Compile *)
  | 38 => 3                   (* [[DefineOwnProperty]] of an array's length with an invalid value, also when the
                                 length is not writable: arrayUint32 runs before the writable test *)
  | 41 => 1 | 42 => 2 | 43 => 3 | 44 => 4 | 45 => 5 | 46 => 6 | 47 => 7   (* new XError(msg) *)
  | 51 => 1 | 52 => 2 | 53 => 3 | 54 => 4 | 55 => 5 | 56 => 6 | 57 => 7   (* XError(msg) *)
  | _ => 0
  end.

(* does the raise site give a (non-empty) description? arrayUint32 calls
   panicRangeError() with no arguments *)
Definition model_msg_nonempty (kind : Z) : bool :=
  match kind with
  | 12 | 13 | 38 => false
  | _ => true
  end.

(* ------------------------------------------------------------------ *)
(* argument-dependent raises: when do the built-ins throw?              *)

(* ToNumber of the argument: undefined (no argument), NaN, an infinity, or the
   finite double m * 2^e *)
Inductive argval := AUndef | ANaN | AInf (neg : bool) | AFin (m e : Z).

Inductive ext := ENeg | EFin (z : Z) | EPos.      (* toIntegerFloat: an integer or an infinity *)

(* toIntegerFloat: NaN -> 0, infinities kept, otherwise truncation towards zero *)
Definition to_integer_float (a : argval) : ext :=
  match a with
  | AUndef => EFin 0                                   (* undefined -> NaN -> 0 *)
  | ANaN => EFin 0
  | AInf true => ENeg
  | AInf false => EPos
  | AFin m e => EFin (if 0 <=? e then m * 2 ^ e else Z.quot m (2 ^ (- e)))
  end.
Definition ext_lt (a : ext) (k : Z) : bool :=        (* a < k *)
  match a with ENeg => true | EPos => false | EFin z => z <? k end.
Definition ext_gt (a : ext) (k : Z) : bool :=
  match a with ENeg => false | EPos => true | EFin z => k <? z end.

(* value.number(): kind numberInteger and isUint32 *)
Definition is_array_length (a : argval) : bool :=
  match a with
  | AFin m e =>
      if 0 <=? e then let v := m * 2 ^ e in (0 <=? v) && (v <? 2 ^ 32)
      else (m mod 2 ^ (- e) =? 0) && (let v := m / 2 ^ (- e) in (0 <=? v) && (v <? 2 ^ 32))
  | _ => false
  end.

(* fn: 1 Number.prototype.toString(radix) 2 toFixed 3 toExponential 4 toPrecision
       5 new Array(len) with a Number argument 6 array.length = v *)
Definition model_throws (fn : Z) (a : argval) : bool :=
  let i := to_integer_float a in
  match fn with
  | 1 => match a with AUndef => false | _ => ext_lt i 2 || ext_gt i 36 end      (* radixArgument.IsDefined() *)
  | 2 => ext_gt i 20 || ext_lt i 0
  | 3 => match a with AUndef => false | _ => ext_lt i 0 || ext_gt i 20 end
  | 4 => match a with AUndef => false | _ => ext_lt i 1 || ext_gt i 21 end
  | 5 => match a with AUndef => false | _ => negb (is_array_length a) end
  | 6 => negb (is_array_length a)
  | 7 => negb (is_array_length a)     (* Object.defineProperty(frozen array, "length", {value: v}): arrayUint32 first *)
  | _ => false
  end.

(* ------------------------------------------------------------------ *)
(* in / instanceof: what is converted, and when                         *)

(* left operand: a primitive; an object whose toString returns a key; whose
   toString throws; whose toString returns an object so that valueOf is asked
   (returning a key / throwing).  Every conversion method logs itself. *)
Inductive lop := LPrim | LStr | LThrow | LVal | LValThrow.
(* right operand: a primitive; a plain object that has the key (its own
   conversion methods log too); a function whose prototype the left objects
   inherit from; a function whose "prototype" is not an object *)
Inductive rop := RPrim | RObj | RFun | RFunBadProto.

(* outcome: 0 false, 1 true, 6 the interpreter's TypeError, 90 the exception
   thrown by the operand's own conversion method;
   log: 1 left.toString, 2 left.valueOf (the right operand's methods would be 3, 4) *)
Definition l_is_object (l : lop) : bool := match l with LPrim => false | _ => true end.

(* Value.string() of the left operand: (log, does it throw) *)
Definition l_tostring (l : lop) : list Z * bool :=
  match l with
  | LPrim => ([], false)
  | LStr => ([1], false)
  | LThrow => ([1], true)
  | LVal => ([1; 2], false)
  | LValThrow => ([1; 2], true)
  end.

(* evaluate.go calculateBinaryExpression, token.IN: the right operand is
   checked first, then hasProperty(leftValue.string()) *)
Definition model_in (l : lop) (r : rop) : Z * list Z :=
  match r with
  | RPrim => (6, [])
  | _ => let '(lg, thr) := l_tostring l in
         if thr then (90, lg) else ((match r with RObj => 1 | _ => 0 end), lg)
  end.

(* token.INSTANCEOF: right not an object -> TypeError; object.hasInstance: not
   callable -> TypeError; left not an object -> false; prototype not an object
   -> TypeError; prototype chain walk *)
Definition model_instanceof (l : lop) (r : rop) : Z * list Z :=
  match r with
  | RPrim => (6, [])
  | RObj => (6, [])
  | RFun => ((if l_is_object l then 1 else 0), [])
  | RFunBadProto => ((if l_is_object l then 6 else 0), [])
  end.

Definition model_order (op : Z) (l : lop) (r : rop) : Z * list Z :=
  if op =? 0 then model_in l r else model_instanceof l r.

(* ------------------------------------------------------------------ *)
(* which error wins, and what was evaluated before it: the order of otto's
   evaluators (cmplEvaluateNode*Expression), by scenario id (the harness holds
   the JavaScript text of each id).  (class, index of the marked token the error
   is positioned at or 0, log of side effects); class 90 = the exception of an
   operand's own toString.  se(n) logs n, TS/TT are objects whose toString logs 9
   (TT then throws), NF = 5, U undefined, O = {k: 1, nf: 1}, zz* undeclared *)
Definition model_eval (id : Z) : option (Z * Z * list Z) :=
  match id with
  | 1 => Some (4, 2, [])   (* new NF(zz) *)
  | 2 => Some (4, 2, [1])   (* new NF(se(1), zz) *)
  | 3 => Some (6, 1, [1; 2])   (* new NF(se(1), se(2)) *)
  | 4 => Some (4, 1, [])   (* new zz1(se(1)) -- callee.resolve() comes before the arguments (920f952) *)
  | 5 => Some (6, 2, [])   (* new NF(U.x) *)
  | 6 => Some (4, 2, [])   (* NF(zz) *)
  | 7 => Some (6, 1, [1; 2])   (* NF(se(1), se(2)) *)
  | 8 => Some (4, 1, [])   (* zz1(se(1)) *)
  | 9 => Some (4, 2, [1])   (* O.nf(se(1), zz) *)
  | 10 => Some (6, 1, [1])   (* O.nf(se(1)) *)
  | 11 => Some (6, 1, [])   (* U.m(se(1)) *)
  | 12 => Some (6, 1, [1; 2])   (* O[se(1)](se(2)) *)
  | 13 => Some (4, 1, [])   (* zz1 in zz2 *)
  | 14 => Some (4, 1, [1])   (* se(1) in zz2 *)
  | 15 => Some (4, 1, [])   (* zz1 instanceof zz2 *)
  | 16 => Some (6, 0, [1])   (* se(1) instanceof NF *)
  | 17 => Some (4, 1, [])   (* delete zz1[se(1)] *)
  | 18 => Some (6, 1, [1])   (* delete U[se(1)] *)
  | 19 => Some (4, 2, [])   (* U[zz] *)
  | 20 => Some (6, 1, [1])   (* U[se(1)] *)
  | 21 => Some (4, 1, [])   (* zz1 += se(1) *)
  | 22 => Some (6, 1, [])   (* U.x += se(1) *)
  | 23 => Some (6, 1, [])   (* U.x = se(1) *)
  | 24 => Some (4, 1, [])   (* zz1.x = se(1) *)
  | 25 => Some (6, 1, [])   (* O.k.z.w = se(1) *)
  | 26 => Some (6, 1, [1])   (* U[se(1)] = se(2) *)
  | 27 => Some (6, 2, [])   (* NF(U.x, se(1)) *)
  | 28 => Some (4, 1, [1])   (* se(1) + zz1 + se(2) *)
  | 29 => Some (4, 1, [1])   (* [se(1), zz1, se(2)] *)
  | 30 => Some (4, 1, [1])   (* ({a: se(1), b: zz1, c: se(2)}) *)
  | 31 => Some (6, 1, [])   (* U[TS] -- objectCoerce fails before the subscript is converted (322af24) *)
  | 32 => Some (6, 1, [])   (* U[TS] = se(1) -- objectCoerce fails before the subscript is converted (322af24) *)
  | 33 => Some (6, 1, [])   (* delete U[TS] -- objectCoerce fails before the subscript is converted (322af24) *)
  | 34 => Some (6, 1, [9])   (* NF[TS]() *)
  | 35 => Some (6, 0, [1])   (* se(1) in NF *)
  | 36 => Some (6, 1, [])   (* O.nf.x.y(se(1)) *)
  | 37 => Some (4, 2, [1])   (* new O.nf(se(1), zz) *)
  | 38 => Some (4, 1, [])   (* zz1[se(1)] *)
  | 39 => Some (4, 1, [])   (* zz1(zz2) *)
  | 40 => Some (4, 2, [])   (* zz1 = zz2 *)
  | 41 => Some (6, 1, [1])   (* O.k.z[se(1)] = se(2) *)
  | 42 => Some (4, 1, [])   (* zz1 -= zz2 *)
  | 43 => Some (4, 1, [1])   (* O[se(1)] += zz2 *)
  | 44 => Some (6, 1, [])   (* U[TT] -- objectCoerce fails before the subscript is converted (322af24) *)
  | 45 => Some (4, 1, [])   (* new zz1(zz2) -- callee.resolve() comes before the arguments (920f952) *)
  | 46 => Some (90, 0, [1; 9])   (* NF(se(1), TT + 1) *)
  | 47 => Some (6, 1, [])   (* new U.C(se(1)) *)
  | 48 => Some (4, 1, [])   (* zz1.m(se(1)) *)
  | 49 => Some (4, 1, [1])   (* se(1), zz1, se(2) *)
  | 50 => Some (90, 0, [1; 9])   (* new NF(se(1), TT + 1) *)
  | _ => None
  end.
