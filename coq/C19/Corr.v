(* correspondence cases for C19: what the harness observed on the real
   interpreter against Model (otto's error machinery) and Spec (the property) *)
From Coq Require Import ZArith Bool List.
From Otto Require Import Common.Corr C19.Model C19.Spec.
Import ListNotations.
Open Scope Z_scope.

Inductive case :=
(* a generated program: files (name id, bytes), trace limit, the active calls
   outermost first with the events of each frame, the raise; observed: the
   frames printed by Error.String(), and whether its first line is Error() *)
| CTrace (files : file_table) (limit : Z) (levels : list level) (r : raise)
         (hdr_ok : bool) (obs : list (Z * sloc))
(* the same program, class side: kind id; observed
   [class of Run's error; class named by e.name; e instanceof its constructor;
    e instanceof Error; prototype is the constructor's prototype; [[Class]] is Error;
    typeof e.message is string; e.message non-empty; String(e) = name: message = Error();
    e.stack = Error.String()] *)
| CFacts (kind : Z) (obs : list Z)
(* file.File.Position on a text at an offset *)
| CPos (src : list Z) (offset : Z) (obs : option (Z * Z))
(* position reported by the parser for an offending token put at [offset] *)
| CSyntax (src : list Z) (offset : Z) (obs : option (Z * Z))
(* text of an uncaught thrown value *)
| CText (t : thrown) (obs : list Z)
(* file.FileSet.Position over several files *)
| CFileSet (files : list (list Z)) (idx : Z) (obs : option (Z * Z * Z)).

Definition sloc_eqb (a b : sloc) : bool :=
  match a, b with
  | SPos f l c, SPos f' l' c' => (f =? f') && (l =? l') && (c =? c')
  | SNative, SNative => true
  | SUnknown, SUnknown => true
  | _, _ => false
  end.
Definition fr_eqb (a b : Z * sloc) : bool := (fst a =? fst b) && sloc_eqb (snd a) (snd b).
Definition trace_eqb := list_eqb fr_eqb.
Definition zz_eqb (a b : Z * Z) : bool := (fst a =? fst b) && (snd a =? snd b).
Definition zzz_eqb (a b : Z * Z * Z) : bool := zz_eqb (fst a) (fst b) && (snd a =? snd b).

(* finding classes *)
Definition cl_parsethrow := 1.
Definition cl_site := 2.
Definition cl_eval := 3.
Definition cl_at := 4.
Definition cl_msg := 5.
Definition cl_term := 6.
Definition cl_char := 7.
Definition cl_text := 8.
Definition cl_nofile := 9.
Definition cl_regexp := 10.
Definition cl_fileset := 11.

Definition with_fix (i : Z) : fixes :=
  mkFixes (i =? cl_site) (i =? cl_eval) (i =? cl_at) (i =? cl_nofile) (i =? cl_term) (i =? cl_char).

Definition trace_with (fx : fixes) files limit levels r := model_trace fx (pos_of fx) files limit levels r.

(* the first listed deviation that is active in this case, provided that all of
   them together account for the whole difference; 99 otherwise *)
Fixpoint first_active (cands : list Z) (base : list (Z * sloc)) files limit levels r : Z :=
  match cands with
  | [] => 99
  | i :: rest =>
      if trace_eqb (trace_with (with_fix i) files limit levels r) base
      then first_active rest base files limit levels r else i
  end.

Definition trace_class files limit levels r : Z :=
  let base := trace_with nofix files limit levels r in
  if trace_eqb (trace_with allfix files limit levels r) (spec_trace files limit levels r)
  then first_active [cl_site; cl_eval; cl_at; cl_nofile; cl_term; cl_char] base files limit levels r
  else 99.

Definition facts_expect (cls : Z -> Z) (msg : Z -> bool) (kind : Z) : list Z :=
  [cls kind; cls kind; 1; 1; 1; 1; 1; (if msg kind then 1 else 0); 1; 1].

Definition facts_class (kind : Z) : Z :=
  if negb (model_class kind =? spec_class kind) then
    (if kind =? 26 then cl_regexp else if kind =? 20 then cl_parsethrow else 99)
  else if negb (Bool.eqb (model_msg_nonempty kind) (spec_msg_nonempty kind)) then cl_msg
  else 0.

Definition pos_class (src : list Z) (offset : Z) : Z :=
  if option_eqb zz_eqb (gen_position true false src offset) (file_position_off src offset)
  then cl_char else cl_term.

(* FileSet, as the comment of the API says: the position of idx in the file that contains it *)
Fixpoint fileset_spec_in (l : list (Z * list Z)) (idx : Z) (k : Z) : option (Z * Z * Z) :=
  match l with
  | [] => None
  | (base, s) :: r =>
      if idx <=? base + zlen s then
        match es5_position s (idx - base) with
        | Some (ln, c) => Some (k, ln, c)
        | None => None
        end
      else fileset_spec_in r idx (k + 1)
  end.
Definition fileset_spec (files : list (list Z)) (idx : Z) := fileset_spec_in (fileset_bases files 1) idx 0.

Definition verdict (c : case) : Z * Z :=
  match c with
  | CTrace files limit levels r hdr obs =>
      if negb hdr then (3, 0) else
      judge trace_eqb obs (trace_with nofix files limit levels r) (spec_trace files limit levels r)
            (trace_class files limit levels r)
  | CFacts kind obs =>
      if negb (known_kind kind) then declined else
      judge zlist_eqb obs (facts_expect model_class model_msg_nonempty kind)
            (facts_expect spec_class spec_msg_nonempty kind) (facts_class kind)
  | CPos src offset obs =>
      judge (option_eqb zz_eqb) obs (file_position_off src offset) (es5_position src offset) (pos_class src offset)
  | CSyntax src offset obs =>
      judge (option_eqb zz_eqb) obs (parser_position_off src offset)
            (es5_position_incl src offset) cl_char
  | CText t obs => judge zlist_eqb obs (uncaught_text t) (spec_text t) cl_text
  | CFileSet files idx obs =>
      judge (option_eqb zzz_eqb) obs (fileset_position files idx) (fileset_spec files idx) cl_fileset
  end.
