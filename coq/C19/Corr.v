(* correspondence cases for C19: what the harness observed on the real
   interpreter against Model (otto's error machinery) and Spec (the property) *)
From Coq Require Import ZArith Bool List.
From Otto Require Import Common.Corr.
From Otto Require Export C19.Model C19.Spec.
Import ListNotations.
Open Scope Z_scope.

Inductive case :=
(* a generated program: files (name id, bytes), trace limit, the active calls
   outermost first with the events of each frame, the raise; observed: the
   frames printed by Error.String(), and whether its first line is Error() *)
| CTrace (files : file_table) (limit : Z) (levels : list level) (r : raise)
         (hdr_ok : bool) (obs : list (Z * sloc))
(* the same program, class side: kind id; observed
   [class of Run's error; class named by e.name; e instanceof its constructor;
    e instanceof Error; prototype is the constructor's prototype and e.constructor is it;
    [[Class]] is Error; e.message is a non-empty string;
    String(e) = name: message = Error(); e.stack = Error.String()] *)
| CFacts (kind : Z) (obs : list Z)
(* file.File.Position on a text at an offset *)
| CPos (src : list Z) (offset : Z) (obs : option (Z * Z))
(* position reported by the parser for an offending token put at [offset] *)
| CSyntax (src : list Z) (offset : Z) (obs : option (Z * Z))
(* text of an uncaught thrown value: Error() of what Run returned, and
   String(e) evaluated by the script just before the throw *)
| CText (t : thrown) (obs_go obs_js : list Z)
(* does the built-in throw for this argument?  fn as in Model.model_throws, the
   argument's ToNumber value; observed [threw; class of Run's error; e.name,
   instanceof RangeError and Error, prototype, constructor, [[Class]] all right;
   message non-empty; String(e) = name: message = Error()] (zeros when nothing is thrown) *)
| CArg (fn : Z) (a : argval) (obs : list Z)
(* `l in r` / `l instanceof r` with operands whose conversion methods log and
   throw: observed outcome (0 false, 1 true, 6 a well-formed TypeError of the
   interpreter that also comes back from Run as "TypeError: ...", 90 the
   operand's own exception, 8 anything else) and the log of conversions *)
| COrder (op : Z) (l : lop) (r : rop) (obs : Z * list Z)
(* evaluation order when both an early and a late error are possible: scenario id;
   observed (class of the error: e.name, instanceof, prototype, Error() all agreeing,
   90 for an operand's own exception; which marked token the innermost frame is
   positioned at, 0 = none; log of side effects) *)
| CEval (id : Z) (obs : Z * Z * list Z)
(* file.FileSet.Position over several files *)
| CFileSet (files : list (list Z)) (idx : Z) (obs : option (Z * Z * Z)).

Definition fx_or (a b : fixes) : fixes :=
  mkFixes (fx_site a || fx_site b) (fx_implicit a || fx_implicit b) (fx_at a || fx_at b)
          (fx_nofile a || fx_nofile b) (fx_term a || fx_term b) (fx_char a || fx_char b).

Definition sloc_eqb (a b : sloc) : bool :=
  match a, b with
  | SPos f l c, SPos f' l' c' => (f =? f') && (l =? l') && (c =? c')
  | SNative, SNative => true
  | SUnknown, SUnknown => true
  | _, _ => false
  end.
Definition fr_eqb (a b : Z * sloc) : bool := (fst a =? fst b) && sloc_eqb (snd a) (snd b).
Definition trace_eqb := list_eqb fr_eqb.
Definition zz_eqb (a b : Z * Z) : bool := (fst a =? fst b) && (snd a =? snd b).
Definition zzz_eqb (a b : Z * Z * Z) : bool := zz_eqb (fst a) (fst b) && (snd a =? snd b).

(* finding classes *)
Definition cl_parsethrow := 1.
Definition cl_site := 2.
(* 3 was the stale file after a direct eval: repaired in /repo (744b40b) *)
Definition cl_at := 4.
Definition cl_msg := 5.
Definition cl_term := 6.
Definition cl_char := 7.
Definition cl_text := 8.
Definition cl_nofile := 9.
Definition cl_implicit := 14.
(* 12 (new: arguments before the constructor reference, 920f952) and 13 (subscript ToString before
   CheckObjectCoercible, 322af24) are repaired in /repo *)
(* 10 (RegExp pattern TypeError, ef38bfe) and 11 (FileSet.Position, 6df0226) are repaired in /repo *)

Definition with_fix (i : Z) : fixes :=
  mkFixes (i =? cl_site) (i =? cl_implicit) (i =? cl_at) (i =? cl_nofile) (i =? cl_term) (i =? cl_char).
Definition without_fix (i : Z) : fixes :=
  mkFixes (negb (i =? cl_site)) (negb (i =? cl_implicit)) (negb (i =? cl_at)) (negb (i =? cl_nofile))
          (negb (i =? cl_term)) (negb (i =? cl_char)).

Definition trace_with (fx : fixes) files limit levels r := model_trace fx (pos_of fx) files limit levels r.

(* the first listed deviation that is active in this case (repairing it alone
   changes what the model prints), provided that all of them together account
   for the whole difference; when no single repair changes the outcome (two
   deviations hide the same frame), the first one that cannot be left out; 99
   otherwise *)
Fixpoint first_active (b : fixes) (cands : list Z) (base : list (Z * sloc)) files limit levels r : Z :=
  match cands with
  | [] => 99
  | i :: rest =>
      if trace_eqb (trace_with (fx_or b (with_fix i)) files limit levels r) base
      then first_active b rest base files limit levels r else i
  end.
Fixpoint first_necessary (b : fixes) (cands : list Z) (spec : list (Z * sloc)) files limit levels r : Z :=
  match cands with
  | [] => 99
  | i :: rest =>
      if trace_eqb (trace_with (fx_or b (without_fix i)) files limit levels r) spec
      then first_necessary b rest spec files limit levels r else i
  end.

Definition cands := [cl_site; cl_implicit; cl_at; cl_nofile; cl_term; cl_char].

Definition trace_class (b : fixes) files limit levels r : Z :=
  let base := trace_with b files limit levels r in
  let spec := spec_trace files limit levels r in
  if trace_eqb (trace_with allfix files limit levels r) spec
  then (let c := first_active b cands base files limit levels r in
        if c =? 99 then first_necessary b cands spec files limit levels r else c)
  else 99.

Definition facts_expect (cls : Z -> Z) (msg : Z -> bool) (kind : Z) : list Z :=
  [cls kind; cls kind; 1; 1; 1; 1; (if msg kind then 1 else 0); 1; 1].

Definition facts_class (kind : Z) : Z :=
  if negb (model_class kind =? spec_class kind) then
    (if kind =? 20 then cl_parsethrow else 99)
  else if negb (Bool.eqb (model_msg_nonempty kind) (spec_msg_nonempty kind)) then cl_msg
  else 0.

Definition pos_class (src : list Z) (offset : Z) : Z :=
  if option_eqb zz_eqb (gen_position true false src offset) (file_position_off src offset)
  then cl_char else cl_term.

(* FileSet, as the comment of the API says: the position of idx in the file that contains it *)
Fixpoint fileset_spec_in (l : list (Z * list Z)) (idx : Z) (k : Z) : option (Z * Z * Z) :=
  match l with
  | [] => None
  | (base, s) :: r =>
      if idx <=? base + zlen s then
        match es5_position s (idx - base) with
        | Some (ln, c) => Some (k, ln, c)
        | None => None
        end
      else fileset_spec_in r idx (k + 1)
  end.
Definition fileset_spec (files : list (list Z)) (idx : Z) := fileset_spec_in (fileset_bases files 1) idx 0.

Definition arg_expect (throws msg : bool) : list Z :=
  if throws then [1; 3; 1; (if msg then 1 else 0); 1] else [0; 0; 0; 0; 0].

Definition verdict (c : case) : Z * Z :=
  match c with
  | CEval id obs =>
      match spec_eval id, model_eval id with
      | Some sp, Some mo =>
          judge (fun a b => (fst (fst a) =? fst (fst b)) && (snd (fst a) =? snd (fst b)) && zlist_eqb (snd a) (snd b))
                obs mo sp 99
      | _, _ => declined
      end
  | COrder op l r obs =>
      judge (fun a b => (fst a =? fst b) && zlist_eqb (snd a) (snd b)) obs (model_order op l r) (spec_order op l r) 0
  | CArg fn a obs =>
      match spec_throws fn a with
      | None => declined
      | Some st =>
          judge zlist_eqb obs
                (arg_expect (model_throws fn a) (negb ((fn =? 5) || (fn =? 6) || (fn =? 7))))
                (arg_expect st true) cl_msg
      end
  | CTrace files limit levels r hdr obs =>
      if negb hdr then (3, 0) else
      let b := nofix in
      let model := trace_with b files limit levels r in
      let spec := spec_trace files limit levels r in
      if trace_eqb model spec then judge trace_eqb obs model spec 0
      else judge trace_eqb obs model spec (trace_class b files limit levels r)
  | CFacts kind obs =>
      if negb (known_kind kind) then declined else
      judge zlist_eqb obs (facts_expect model_class model_msg_nonempty kind)
            (facts_expect spec_class spec_msg_nonempty kind) (facts_class kind)
  | CPos src offset obs =>
      judge (option_eqb zz_eqb) obs (file_position_off src offset) (es5_position src offset) (pos_class src offset)
  | CSyntax src offset obs =>
      judge (option_eqb zz_eqb) obs (parser_position_off src offset)
            (es5_position_incl src offset) cl_char
  | CText t obs_go obs_js =>
      judge (fun a b => zlist_eqb (fst a) (fst b) && zlist_eqb (snd a) (snd b))
            (obs_go, obs_js) (uncaught_text t, spec_text t) (spec_text t, spec_text t) cl_text
  | CFileSet files idx obs =>
      judge (option_eqb zzz_eqb) obs (fileset_position files idx) (fileset_spec files idx) cl_char
  end.
