(* C19 — what the property asks for, executable.

   Positions: a source text is a sequence of lines separated by ES5 7.3
   LineTerminators (LF, CR, CR LF as one, U+2028, U+2029); the position of an
   offset is (1 + number of terminators before it, 1 + number of characters
   since the last one).  [gen_position] has two switches so that the two
   readings otto uses (LF only / byte columns) are instances of it.

   Traces: every active call, innermost first, each with the place the
   generator put its call site, cut to the configured limit.

   Text: ES5 15.11.4.4 Error.prototype.toString of the thrown value.

   Classes: the ES5 clause for each interpreter-raised error kind. *)
From Coq Require Import ZArith List Bool.
From Otto Require Import C19.Model.
Import ListNotations.
Open Scope Z_scope.

(* ------------------------------------------------------------------ *)
(* positions                                                            *)

Definition is_cont (b : Z) : bool := (128 <=? b) && (b <? 192).   (* UTF-8 continuation byte *)

(* scan the first [n] bytes; (line, col) is the position of the next byte *)
Fixpoint gscan (term char : bool) (s : list Z) (n : nat) (line col : Z) (prevcr : bool) (p2 p1 : Z) : Z * Z :=
  match n, s with
  | S n', b :: r =>
      if b =? 10 then
        (if term && prevcr then gscan term char r n' line 1 false p1 b
         else gscan term char r n' (line + 1) 1 false p1 b)
      else if term && (b =? 13) then gscan term char r n' (line + 1) 1 true p1 b
      else if term && ((b =? 168) || (b =? 169)) && (p1 =? 128) && (p2 =? 226)
           then gscan term char r n' (line + 1) 1 false p1 b
      else if char && is_cont b then gscan term char r n' line col false p1 b
      else gscan term char r n' line (col + 1) false p1 b
  | _, _ => (line, col)
  end.

(* positions exist for offsets inside the text (as File.Position: not at the end) *)
Definition gen_position (term char : bool) (src : list Z) (offset : Z) : option (Z * Z) :=
  if (zlen src <=? offset) || (offset <? 0) then None
  else Some (gscan term char src (Z.to_nat offset) 1 1 false 0 0).

Definition es5_position : posfn := gen_position true true.

(* the parser also reports positions at the very end of the text (unexpected end of input) *)
Definition es5_position_incl (src : list Z) (offset : Z) : option (Z * Z) :=
  if (zlen src <? offset) || (offset <? 0) then None
  else Some (gscan true true src (Z.to_nat offset) 1 1 false 0 0).

(* the position function of the interpreter with some deviations repaired *)
Definition pos_of (fx : fixes) : posfn :=
  if fx_term fx || fx_char fx then gen_position (fx_term fx) (fx_char fx) else file_position_off.

(* a text given as its lines (LF-separated): the offset of (line, col), 1-based *)
Fixpoint join_lines (lines : list (list Z)) : list Z :=
  match lines with
  | [] => []
  | [l] => l
  | l :: rest => l ++ 10 :: join_lines rest
  end.
Fixpoint offset_of (lines : list (list Z)) (line col : Z) : Z :=
  match lines with
  | [] => col - 1
  | l :: rest => if line <=? 1 then col - 1 else zlen l + 1 + offset_of rest (line - 1) col
  end.
(* split at LF *)
Fixpoint split_lines (s : list Z) : list (list Z) :=
  match s with
  | [] => [[]]
  | b :: r =>
      if b =? 10 then [] :: split_lines r
      else match split_lines r with
           | l :: ls => (b :: l) :: ls
           | [] => [[b]]
           end
  end.

(* ------------------------------------------------------------------ *)
(* traces                                                               *)

Definition lv_name (k : lvkind) : Z :=
  match k with
  | LvGlobal _ => 0
  | LvFunc n _ => n
  | LvFuncNoFile n _ => n
  | LvNative n => n
  end.
Definition lv_file (k : lvkind) : Z :=
  match k with
  | LvGlobal f => f
  | LvFunc _ f => f
  | LvFuncNoFile _ f => f
  | LvNative _ => -1
  end.
Definition lv_is_native (k : lvkind) : bool := match k with LvNative _ => true | _ => false end.

(* the file whose text is running at the end of the events, and the last call
   site (file, idx, line, col); idx is carried along only to state consistency *)
Definition site := (Z * Z * Z * Z)%type.
Definition spec_step (st : Z * list Z * option site) (e : event) : Z * list Z * option site :=
  let '(cur, stk, s) := st in
  match e with
  | EvCall _ idx line col => (cur, stk, Some (cur, idx, line, col))
  | EvImplicit idx line col => (cur, stk, Some (cur, idx, line, col))
  | EvEvalEnter f => (f, cur :: stk, s)
  | EvEvalLeave => match stk with [] => (cur, [], s) | c :: stk' => (c, stk', s) end
  end.
Definition spec_run (lv : level) : Z * list Z * option site :=
  fold_left spec_step (snd lv) (lv_file (fst lv), [], None).
Definition spec_cur_file (lv : level) : Z := fst (fst (spec_run lv)).
Definition spec_site (lv : level) : option site := snd (spec_run lv).

Definition fname_of (files : file_table) (i : Z) : Z :=
  match get_file files i with Some (n, _) => n | None => -1 end.

(* an outer level: named, at the site of the call it is in the middle of *)
Definition spec_outer (files : file_table) (lv : level) : Z * sloc :=
  (lv_name (fst lv),
   if lv_is_native (fst lv) then SNative
   else match spec_site lv with
        | Some (f, _, line, col) => SPos (fname_of files f) line col
        | None => SUnknown
        end).

(* the innermost level: at the place of the raising construct *)
Definition spec_top (files : file_table) (lv : level) (line col : Z) : Z * sloc :=
  (lv_name (fst lv),
   if lv_is_native (fst lv) then SNative
   else SPos (fname_of files (spec_cur_file lv)) line col).

(* levels are outermost first *)
Definition raise_lc (r : raise) : Z * Z :=
  match r with
  | RAt _ _ line col => (line, col)
  | RNoAt _ line col => (line, col)
  | RNative => (0, 0)
  | RPop line col => (line, col)
  end.

Definition spec_frames (files : file_table) (levels : list level) (r : raise) : list (Z * sloc) :=
  let rl := rev levels in
  (* Error(m) called as a function is new Error(m): the built-in gets no frame of its own *)
  let rl' := match r with RPop _ _ => tl rl | _ => rl end in
  match rl' with
  | [] => []
  | top :: outers =>
      spec_top files top (fst (raise_lc r)) (snd (raise_lc r)) :: map (spec_outer files) outers
  end.

(* limit >= 1: at most that many frames; limit <= 0: no cut (SetStackTraceLimit as coded) *)
Definition cut {A} (limit : Z) (l : list A) : list A :=
  if limit <=? 0 then l else firstn (Z.to_nat limit) l.

Definition spec_trace (files : file_table) (limit : Z) (levels : list level) (r : raise) : list (Z * sloc) :=
  cut limit (spec_frames files levels r).

(* ------------------------------------------------------------------ *)
(* text: 15.11.4.4                                                      *)

Definition err_name_units : list Z := [69; 114; 114; 111; 114].     (* "Error" *)

Definition error_tostring (name msg : option (list Z)) : list Z :=
  let n := match name with None => err_name_units | Some s => s end in
  let m := match msg with None => [] | Some s => s end in
  match n, m with
  | [], _ => m
  | _, [] => n
  | _, _ => n ++ [58; 32] ++ m
  end.

Definition spec_text (t : thrown) : list Z :=
  match t with
  | ThError _ _ cn cm => error_tostring cn cm
  | ThDerived _ _ cn cm => error_tostring cn cm
  | ThOther s => s
  end.

(* ------------------------------------------------------------------ *)
(* classes                                                              *)

Definition spec_class (kind : Z) : Z :=
  match kind with
  | 1 | 2 | 3 | 4 => 6        (* 11.2.3 step 5: IsCallable(func) false -> TypeError *)
  | 5 | 6 => 6                (* 11.2.2 steps 3-4: not an object / no [[Construct]] -> TypeError *)
  | 7 | 8 | 9 => 6            (* 11.2.1 CheckObjectCoercible (9.10) -> TypeError *)
  | 10 | 11 => 4              (* 8.7.1 step 3: IsUnresolvableReference -> ReferenceError *)
  | 12 => 3                   (* 15.4.2.2: ToUint32(len) <> len -> RangeError *)
  | 13 => 3                   (* 15.4.5.1 step 3.c -> RangeError *)
  | 14 => 3                   (* 15.7.4.2: radix outside 2..36 -> RangeError *)
  | 15 | 16 | 17 => 3         (* 15.7.4.5/6/7 -> RangeError *)
  | 18 => 5                   (* 15.1.2.1 step 2: not a Program -> SyntaxError *)
  | 19 => 5                   (* 15.3.2.1 steps 8-9 -> SyntaxError *)
  | 20 => 4                   (* 11.13.1 / clause 16: assignment to a non-reference -> ReferenceError *)
  | 21 => 6                   (* 11.8.6 step 5 -> TypeError *)
  | 22 => 6                   (* 11.8.6 step 6: no [[HasInstance]] -> TypeError *)
  | 23 => 6                   (* 11.8.7 step 5 -> TypeError *)
  | 24 => 6                   (* 15.12.3 Str/JO/JA: cyclic -> TypeError *)
  | 25 => 5                   (* 15.12.2 step 2 -> SyntaxError *)
  | 26 => 5                   (* 15.10.4.1: pattern not a Pattern -> SyntaxError *)
  | 27 => 5                   (* 15.10.4.1: repeated or unknown flag -> SyntaxError *)
  | 28 => 7                   (* 15.1.3 Decode -> URIError *)
  | 29 => 6                   (* 15.2.3.x step 1: Type(O) is not Object -> TypeError *)
  | 30 => 6                   (* 15.3.4.3/4/5 step 1 -> TypeError *)
  | 31 => 6                   (* 15.9.5, 15.7.4, 15.5.4, 15.6.4, 15.10.6: this is not of the class -> TypeError *)
  | 32 => 6                   (* 8.10.5 steps 7.b, 8.b, 9 -> TypeError *)
  | 33 => 6                   (* 8.12.8 step 5 -> TypeError *)
  | 34 => 6                   (* 9.9 ToObject -> TypeError *)
  | 35 => 6                   (* 15.4.4.16-22 step 4 -> TypeError *)
  | 36 => 6                   (* 8.12.9 Reject with Throw -> TypeError *)
  | 37 => 5                   (* 15.10.4.1 -> SyntaxError *)
  | 38 => 3                   (* 15.4.5.1 steps 3.c-3.d (RangeError) come before step 3.g (length not writable) *)
  | 41 => 1 | 42 => 2 | 43 => 3 | 44 => 4 | 45 => 5 | 46 => 6 | 47 => 7   (* 15.11.2, 15.11.7.4 *)
  | 51 => 1 | 52 => 2 | 53 => 3 | 54 => 4 | 55 => 5 | 56 => 6 | 57 => 7   (* 15.11.1, 15.11.7.2 *)
  | _ => 0
  end.

(* the property: every interpreter-raised error carries a non-empty message *)
Definition spec_msg_nonempty (kind : Z) : bool := true.

Definition known_kind (kind : Z) : bool :=
  ((1 <=? kind) && (kind <=? 38)) || ((41 <=? kind) && (kind <=? 47)) || ((51 <=? kind) && (kind <=? 57)).

(* ------------------------------------------------------------------ *)
(* argument-dependent raises                                            *)

(* the exact value of a finite argument as a fraction num / 2^k *)
Definition spec_to_integer (a : argval) : ext :=        (* 9.4 ToInteger *)
  match a with
  | AUndef | ANaN => EFin 0
  | AInf true => ENeg
  | AInf false => EPos
  | AFin m e => EFin (if 0 <=? e then m * 2 ^ e else Z.sgn m * (Z.abs m / 2 ^ (- e)))   (* sign * floor(abs) *)
  end.

(* ToUint32(v) = v: v is an integer of 0 .. 2^32-1 *)
Definition spec_is_uint32 (a : argval) : bool :=
  match a with
  | AFin m e =>
      if 0 <=? e then (0 <=? m * 2 ^ e) && (m * 2 ^ e <=? 2 ^ 32 - 1)
      else (Z.abs m mod 2 ^ (- e) =? 0) && (0 <=? m) && (m / 2 ^ (- e) <=? 2 ^ 32 - 1)
  | _ => false
  end.

(* Some true: ES5 requires a RangeError; Some false: requires none; None: the
   NOTE of 15.7.4.6/7 permits an implementation to extend the range *)
Definition spec_throws (fn : Z) (a : argval) : option bool :=
  let i := spec_to_integer a in
  match fn with
  | 1 => Some (match a with AUndef => false | _ => ext_lt i 2 || ext_gt i 36 end)   (* 15.7.4.2 *)
  | 2 => Some (ext_lt i 0 || ext_gt i 20)                                            (* 15.7.4.5 step 2 *)
  | 3 => match a with
         | AUndef => Some false
         | _ => if ext_lt i 0 then Some true else if ext_gt i 20 then None else Some false   (* 15.7.4.6 *)
         end
  | 4 => match a with
         | AUndef => Some false
         | _ => if ext_lt i 1 then Some true else if ext_gt i 21 then None else Some false   (* 15.7.4.7 *)
         end
  | 5 => Some (match a with AUndef => false | _ => negb (spec_is_uint32 a) end)      (* 15.4.2.2 *)
  | 6 => Some (negb (spec_is_uint32 a))                                              (* 15.4.5.1 step 3.c *)
  | 7 => Some (negb (spec_is_uint32 a))      (* 15.4.5.1 steps 3.c-3.d before 3.g, whatever [[Writable]] of length is *)
  | _ => None
  end.

(* ------------------------------------------------------------------ *)
(* in / instanceof, by the steps of ES5 11.8.7 and 11.8.6 / 15.3.5.3    *)

(* 9.8 ToString of the left operand (8.12.8 [[DefaultValue]] hint String:
   toString, then valueOf when the result is not primitive) *)
Definition spec_tostring (l : lop) : list Z * bool :=
  match l with
  | LPrim => ([], false)
  | LStr => ([1], false)
  | LThrow => ([1], true)
  | LVal => ([1; 2], false)
  | LValThrow => ([1; 2], true)
  end.

Definition spec_order (op : Z) (l : lop) (r : rop) : Z * list Z :=
  if op =? 0 then
    (* 11.8.7 step 5: Type(rval) is not Object -> TypeError, before step 6 ToString(lval) *)
    match r with
    | RPrim => (6, [])
    | RObj => let '(lg, thr) := spec_tostring l in if thr then (90, lg) else (1, lg)
    | _ => let '(lg, thr) := spec_tostring l in if thr then (90, lg) else (0, lg)
    end
  else
    (* 11.8.6 steps 5-7; 15.3.5.3: V not an object -> false; O = F.prototype not an object -> TypeError *)
    match r with
    | RPrim => (6, [])
    | RObj => (6, [])
    | RFun => match l with LPrim => (0, []) | _ => (1, []) end
    | RFunBadProto => match l with LPrim => (0, []) | _ => (6, []) end
    end.

(* ------------------------------------------------------------------ *)
(* which error wins: ES5 evaluation order, by scenario id *)
Definition spec_eval (id : Z) : option (Z * Z * list Z) :=
  match id with
  | 1 => Some (4, 2, [])   (* new NF(zz): 11.2.2 step 3: the arguments are evaluated before the type check of steps 4-5 *)
  | 2 => Some (4, 2, [1])   (* new NF(se(1), zz): 11.2.4: arguments left to right *)
  | 3 => Some (6, 1, [1; 2])   (* new NF(se(1), se(2)): 11.2.2 steps 4-5 after the arguments *)
  | 4 => Some (4, 1, [])   (* new zz1(se(1)): 11.2.2 step 2: GetValue(ref) (8.7.1 ReferenceError) before the arguments *)
  | 5 => Some (6, 2, [])   (* new NF(U.x): 11.2.1 step 5 inside the argument *)
  | 6 => Some (4, 2, [])   (* NF(zz): 11.2.3 step 3 before steps 4-5 *)
  | 7 => Some (6, 1, [1; 2])   (* NF(se(1), se(2)): 11.2.3 step 5 *)
  | 8 => Some (4, 1, [])   (* zz1(se(1)): 11.2.3 step 2: GetValue(ref) before the arguments *)
  | 9 => Some (4, 2, [1])   (* O.nf(se(1), zz): 11.2.4 *)
  | 10 => Some (6, 1, [1])   (* O.nf(se(1)): 11.2.3 step 5 *)
  | 11 => Some (6, 1, [])   (* U.m(se(1)): 11.2.1 step 5 while evaluating the callee *)
  | 12 => Some (6, 1, [1; 2])   (* O[se(1)](se(2)): 11.2.1 then 11.2.3 step 5 *)
  | 13 => Some (4, 1, [])   (* zz1 in zz2: 11.8.7 step 2: GetValue(lref) first *)
  | 14 => Some (4, 1, [1])   (* se(1) in zz2: 11.8.7 step 4 *)
  | 15 => Some (4, 1, [])   (* zz1 instanceof zz2: 11.8.6 step 2 *)
  | 16 => Some (6, 0, [1])   (* se(1) instanceof NF: 11.8.6 step 5 (no position of its own) *)
  | 17 => Some (4, 1, [])   (* delete zz1[se(1)]: 11.2.1 step 2 before step 3 *)
  | 18 => Some (6, 1, [1])   (* delete U[se(1)]: 11.2.1 steps 3-4 before step 5 *)
  | 19 => Some (4, 2, [])   (* U[zz]: 11.2.1 step 4 before step 5 *)
  | 20 => Some (6, 1, [1])   (* U[se(1)]: 11.2.1 step 5 *)
  | 21 => Some (4, 1, [])   (* zz1 += se(1): 11.13.2 step 2: GetValue(lref) before the right side *)
  | 22 => Some (6, 1, [])   (* U.x += se(1): 11.13.2 step 1 / 11.2.1 step 5 *)
  | 23 => Some (6, 1, [])   (* U.x = se(1): 11.13.1 step 1 / 11.2.1 step 5 before step 2 *)
  | 24 => Some (4, 1, [])   (* zz1.x = se(1): 11.13.1 step 1 / 11.2.1 step 2 *)
  | 25 => Some (6, 1, [])   (* O.k.z.w = se(1): 11.2.1 step 5 *)
  | 26 => Some (6, 1, [1])   (* U[se(1)] = se(2): 11.13.1 step 1: the subscript, then 11.2.1 step 5; the right side is not reached *)
  | 27 => Some (6, 2, [])   (* NF(U.x, se(1)): 11.2.4 *)
  | 28 => Some (4, 1, [1])   (* se(1) + zz1 + se(2): 11.6.1 *)
  | 29 => Some (4, 1, [1])   (* [se(1), zz1, se(2)]: 11.1.4 *)
  | 30 => Some (4, 1, [1])   (* ({a: se(1), b: zz1, c: se(2)}): 11.1.5 *)
  | 31 => Some (6, 1, [])   (* U[TS]: 11.2.1 step 5 CheckObjectCoercible before step 6 ToString(propertyNameValue) *)
  | 32 => Some (6, 1, [])   (* U[TS] = se(1): 11.2.1 step 5 before step 6 *)
  | 33 => Some (6, 1, [])   (* delete U[TS]: 11.2.1 step 5 before step 6 *)
  | 34 => Some (6, 1, [9])   (* NF[TS](): 11.2.1 step 6, then 11.2.3 step 5 *)
  | 35 => Some (6, 0, [1])   (* se(1) in NF: 11.8.7 step 5 (no position of its own) *)
  | 36 => Some (6, 1, [])   (* O.nf.x.y(se(1)): 11.2.1 step 5 *)
  | 37 => Some (4, 2, [1])   (* new O.nf(se(1), zz): 11.2.2 step 3 *)
  | 38 => Some (4, 1, [])   (* zz1[se(1)]: 11.2.1 step 2 *)
  | 39 => Some (4, 1, [])   (* zz1(zz2): 11.2.3 step 2 *)
  | 40 => Some (4, 2, [])   (* zz1 = zz2: 11.13.1 step 3: only the right side is read *)
  | 41 => Some (6, 1, [1])   (* O.k.z[se(1)] = se(2): 11.2.1 steps 3-5 *)
  | 42 => Some (4, 1, [])   (* zz1 -= zz2: 11.13.2 step 2 *)
  | 43 => Some (4, 1, [1])   (* O[se(1)] += zz2: 11.13.2 step 4 *)
  | 44 => Some (6, 1, [])   (* U[TT]: 11.2.1 step 5 before step 6: the TypeError, not the exception of toString *)
  | 45 => Some (4, 1, [])   (* new zz1(zz2): 11.2.2 step 2 before step 3 *)
  | 46 => Some (90, 0, [1; 9])   (* NF(se(1), TT + 1): 11.2.4: the exception of the argument *)
  | 47 => Some (6, 1, [])   (* new U.C(se(1)): 11.2.1 step 5 while evaluating the constructor expression *)
  | 48 => Some (4, 1, [])   (* zz1.m(se(1)): 11.2.1 step 2 *)
  | 49 => Some (4, 1, [1])   (* se(1), zz1, se(2): 11.14 *)
  | 50 => Some (90, 0, [1; 9])   (* new NF(se(1), TT + 1): 11.2.2 step 3 *)
  | _ => None
  end.
