(* What the round trip is required to do (property C15), executable.
   A Go scalar g has a natural JavaScript counterpart: nil -> undefined,
   bool -> boolean, every integer and float -> the Number nearest to it,
   string -> string.  Reading it back must give g (Export), the nearest double
   (ToFloat), g itself when it fits int64 and the saturated bound otherwise
   (ToInteger: the int64 API cannot say more), ES5 9.2 ToBoolean of the
   counterpart, and JSON text that JSON.parse maps back to the counterpart. *)
From Coq Require Import ZArith Bool List.
From Otto Require Import Common.Double C15.Model.
Import ListNotations.
Open Scope Z_scope.

(* ---------- ES5 9.3.1 ToNumber applied to a string, on a decidable subset ----------
   The text is a list of bytes.  Handled: StrWhiteSpace (ASCII), empty, optional
   sign + decimal digits, 0x/0X + hex digits, [+-]Infinity, and text starting
   with a letter that cannot start a StrNumericLiteral (-> NaN).  Everything else
   (fractions, exponents, non-ASCII) answers None and is checked relationally
   against the in-language Number() by the correspondence run. *)
Definition is_ws (c : Z) : bool :=
  (c =? 9) || (c =? 10) || (c =? 11) || (c =? 12) || (c =? 13) || (c =? 32).
Fixpoint drop_ws (s : list Z) : list Z :=
  match s with c :: s' => if is_ws c then drop_ws s' else s | [] => [] end.
Definition trim (s : list Z) : list Z := rev (drop_ws (rev (drop_ws s))).

Definition is_digit (c : Z) : bool := (48 <=? c) && (c <=? 57).
Definition hex_val (c : Z) : option Z :=
  if is_digit c then Some (c - 48)
  else if (97 <=? c) && (c <=? 102) then Some (c - 87)
  else if (65 <=? c) && (c <=? 70) then Some (c - 55) else None.

Fixpoint dec_value (s : list Z) (acc : Z) : option Z :=
  match s with
  | [] => Some acc
  | c :: s' => if is_digit c then dec_value s' (acc * 10 + (c - 48)) else None
  end.
Fixpoint hex_value (s : list Z) (acc : Z) : option Z :=
  match s with
  | [] => Some acc
  | c :: s' => match hex_val c with Some d => hex_value s' (acc * 16 + d) | None => None end
  end.

Definition is_letter (c : Z) : bool := ((65 <=? c) && (c <=? 90)) || ((97 <=? c) && (c <=? 122)).

Fixpoint zl_eqb (a b : list Z) : bool :=
  match a, b with
  | [], [] => true
  | x :: a', y :: b' => (x =? y) && zl_eqb a' b'
  | _, _ => false
  end.

(* StrUnsignedDecimalLiteral (digits only) | HexIntegerLiteral | Infinity; [] and "0x" are not literals *)
Definition unsigned_number (s : list Z) : option Z :=
  match s with
  | [] => Some nan_bits
  | 48 :: x :: h =>
      if (x =? 120) || (x =? 88)
      then match h with [] => Some nan_bits | _ => option_map float_of_int (hex_value h 0) end
      else option_map float_of_int (dec_value s 0)
  | _ => if zl_eqb s str_Infinity then Some pinf_bits
         else option_map float_of_int (dec_value s 0)
  end.

Definition negate_bits (b : Z) : Z :=
  if b =? nan_bits then nan_bits else if b <? 2 ^ 63 then b + 2 ^ 63 else b - 2 ^ 63.

Definition str_number_spec (s : list Z) : option Z :=
  match trim s with
  | [] => Some 0
  | 43 :: r => match r with
               | 48 :: x :: _ => if (x =? 120) || (x =? 88) then Some nan_bits else unsigned_number r
               | _ => unsigned_number r
               end
  | 45 :: r => match r with
               | 48 :: x :: _ => if (x =? 120) || (x =? 88) then Some nan_bits
                                 else option_map negate_bits (unsigned_number r)
               | _ => option_map negate_bits (unsigned_number r)
               end
  | c :: r => if is_digit c then unsigned_number (c :: r)
              else if is_letter c && negb ((c =? 73) || (c =? 105) || (c =? 78) || (c =? 110))
                   then Some nan_bits
              else if zl_eqb (c :: r) str_Infinity then Some pinf_bits
              else None
  end.

(* ---------- the required observations ---------- *)
Section WithOracles.
  Variable str_number : list Z -> Z.
  Variable float_string : Z -> list Z.
  Variable json_string : list Z -> list Z.

  (* the Number (bit pattern) that is the JavaScript counterpart of g; strings: ToNumber *)
  Definition spec_to_float (g : gscalar) : Z :=
    match g with
    | GNil => nan_bits
    | GBool b => if b then float_of_int 1 else 0
    | GInt _ n => float_of_int n
    | GF32 b => widen32 b
    | GF64 b => b
    | GStr s => str_number s
    end.

  Definition spec_to_integer (g : gscalar) : Z :=
    match g with
    | GInt _ n => sat64 n
    | _ => int64_of_bits (spec_to_float g)
    end.

  (* ES5 9.2 on the counterpart *)
  Definition spec_to_boolean (g : gscalar) : bool :=
    match g with
    | GNil => false
    | GBool b => b
    | GInt _ n => negb (n =? 0)
    | GF32 b => let d := widen32 b in negb (is_nan d || is_zero d)
    | GF64 b => negb (is_nan b || is_zero b)
    | GStr s => negb (match s with [] => true | _ => false end)
    end.

  (* Go-side ToString: the exact decimal text for integers, ES5 9.8.1 for doubles *)
  Definition spec_to_string (g : gscalar) : list Z :=
    match g with
    | GNil => str_undefined
    | GBool b => if b then str_true else str_false
    | GInt _ n => decimal n
    | GF32 b => string_of_bits float_string (widen32 b)
    | GF64 b => string_of_bits float_string b
    | GStr s => s
    end.

  (* MarshalJSON: JSON.stringify of the counterpart (NaN and the infinities are null,
     15.12.3); -0 may be printed with its sign (valid JSON, parses back to -0) *)
  Definition spec_marshal_json (g : gscalar) : option (list Z) :=
    match g with
    | GNil => Some str_null
    | GBool b => Some (if b then str_true else str_false)
    | GInt _ n => Some (decimal n)
    | GF32 _ | GF64 _ =>
        let b := match g with GF32 b32 => widen32 b32 | GF64 b64 => b64 | _ => 0 end in
        match decode b with
        | DNaN | DInf _ => Some str_null
        | DFin _ _ _ => if b =? nzero_bits then Some [45; 48] else Some (string_of_bits float_string b)
        end
    | GStr s => Some (json_string s)
    end.
End WithOracles.

(* Export: the value itself; float32 is compared by value (widened) *)
Definition canon (g : gscalar) : gscalar :=
  match g with GF32 b => GF64 (widen32 b) | _ => g end.

(* typeof of the counterpart *)
Definition spec_typeof (g : gscalar) : Z :=
  match g with GNil => 0 | GBool _ => 2 | GInt _ _ | GF32 _ | GF64 _ => 3 | GStr _ => 4 end.
