(* proofs about the scalar bridge (Model.v) against the required round trip (Spec.v) *)
From Coq Require Import ZArith Bool List Lia Zify.
From Otto Require Import Common.Double C15.Model C15.Spec.
Import ListNotations.
Open Scope Z_scope.
Ltac Zify.zify_post_hook ::= Z.div_mod_to_equations.

(* a Go scalar is well formed when its integer lies in the range of its kind *)
Definition wf (g : gscalar) : Prop :=
  match g with GInt k n => in_range k n | _ => True end.

Lemma in_rangeb_spec : forall k n, in_rangeb k n = true <-> in_range k n.
Proof.
  intros k n. unfold in_rangeb, in_range. rewrite andb_true_iff, !Z.leb_le. tauto.
Qed.

(* int8(value.Int()) and friends give the value back for every value of the type *)
Lemma wrap_id : forall k n, in_range k n -> wrap k n = n.
Proof.
  intros k n H. unfold in_range, lo, hi in H. unfold wrap.
  destruct k; cbn [is_signed width] in *;
    change (2 ^ (64 - 1)) with 9223372036854775808 in *;
    change (2 ^ (32 - 1)) with 2147483648 in *;
    change (2 ^ (16 - 1)) with 32768 in *;
    change (2 ^ (8 - 1)) with 128 in *;
    change (2 ^ 64) with 18446744073709551616 in *;
    change (2 ^ 32) with 4294967296 in *;
    change (2 ^ 16) with 65536 in *;
    change (2 ^ 8) with 256 in *; lia.
Qed.

(* the conversion never leaves the type, whatever int64 it is given *)
Lemma wrap_in_range : forall k n, in_range k (wrap k n).
Proof.
  intros k n. unfold in_range, lo, hi, wrap.
  destruct k; cbn [is_signed width];
    change (2 ^ (64 - 1)) with 9223372036854775808;
    change (2 ^ (32 - 1)) with 2147483648;
    change (2 ^ (16 - 1)) with 32768;
    change (2 ^ (8 - 1)) with 128;
    change (2 ^ 64) with 18446744073709551616;
    change (2 ^ 32) with 4294967296;
    change (2 ^ 16) with 65536;
    change (2 ^ 8) with 256; lia.
Qed.

(* Export after toValue gives the Go value back, on both branches of toValue;
   float32 comes back with the same numeric value (as float64 from the type switch) *)
Theorem scalar_roundtrip : forall refl g, wf g -> canon (export (toValue refl g)) = canon g.
Proof.
  intros refl g H. destruct g; cbn [toValue export canon]; try reflexivity.
  - destruct refl; cbn [export canon]; [rewrite (wrap_id _ _ H)|]; reflexivity.
  - destruct refl; reflexivity.
Qed.

(* stronger on everything but float32: the very same kind and value *)
Theorem scalar_roundtrip_exact : forall refl g, wf g ->
  (forall b, g <> GF32 b) -> export (toValue refl g) = g.
Proof.
  intros refl g H Hn. destruct g; cbn [toValue export]; try reflexivity.
  - destruct refl; cbn [export]; [rewrite (wrap_id _ _ H)|]; reflexivity.
  - exfalso. apply (Hn b). reflexivity.
Qed.

(* ---------- ToInteger ---------- *)
Lemma round_small : forall n, Z.abs n < 2 ^ 53 -> round_to_double n = n.
Proof.
  intros n H. unfold round_to_double.
  destruct (Z.ltb_spec (Z.abs n) (2 ^ 53)); [reflexivity | lia].
Qed.

Lemma sat64_id : forall n, - 2 ^ 63 < n < 2 ^ 63 -> sat64 n = n.
Proof.
  intros n H. unfold sat64.
  destruct (Z.leb_spec (2 ^ 63) n); [lia|].
  destruct (Z.leb_spec n (- 2 ^ 63)); [lia|reflexivity].
Qed.

Lemma sat64_min : sat64 (- 2 ^ 63) = - 2 ^ 63.
Proof. reflexivity. Qed.

(* every integer kind that number() reads directly, and every integer up to 2^53 in
   magnitude of the three kinds it reads through float64(), comes back exactly *)
Theorem to_integer_exact : forall sn refl k n, in_range k n ->
  number_direct k = true \/ Z.abs n <= 2 ^ 53 ->
  to_integer sn (toValue refl (GInt k n)) = Ok n.
Proof.
  intros sn refl k n Hr Hc.
  assert (Hv : toValue refl (GInt k n) = VInt k n).
  { cbn [toValue]. destruct refl; [rewrite (wrap_id _ _ Hr)|]; reflexivity. }
  rewrite Hv. cbn [to_integer].
  destruct (number_direct k) eqn:Hd; [reflexivity|].
  destruct Hc as [Hc|Hc]; [discriminate|].
  f_equal.
  assert (E : round_to_double n = n).
  { destruct (Z.eq_dec (Z.abs n) (2 ^ 53)) as [e|ne].
    - unfold round_to_double.
      destruct (Z.ltb_spec (Z.abs n) (2 ^ 53)); [reflexivity|].
      rewrite e. change (Z.log2 (2 ^ 53) - 52) with 1.
      change (2 ^ 53 / 2 ^ 1) with (2 ^ 52). change (2 ^ 53 mod 2 ^ 1) with 0.
      change (2 ^ (1 - 1)) with 1. cbn [Z.ltb Z.compare].
      change (2 ^ 52 * 2 ^ 1) with (2 ^ 53).
      destruct n; cbn in e |- *; lia.
    - apply round_small. lia. }
  rewrite E. apply sat64_id. change (2 ^ 53) with 9007199254740992 in Hc.
  change (2 ^ 63) with 9223372036854775808. lia.
Qed.

(* int32 goes through float64() but is always exact *)
Corollary to_integer_int32 : forall sn refl n, in_range KInt32 n ->
  to_integer sn (toValue refl (GInt KInt32 n)) = Ok n.
Proof.
  intros sn refl n H. apply to_integer_exact; [exact H|]. right.
  unfold in_range, lo, hi in H. cbn [is_signed width] in H.
  change (2 ^ (32 - 1)) with 2147483648 in H. change (2 ^ 53) with 9007199254740992. lia.
Qed.

(* ---------- ToBoolean, typeof, predicates ---------- *)
Theorem to_boolean_agrees : forall refl g, wf g ->
  to_boolean (toValue refl g) = spec_to_boolean g.
Proof.
  intros refl g Hw. destruct g; destruct refl; cbn [toValue to_boolean spec_to_boolean]; try reflexivity.
  rewrite (wrap_id _ _ Hw). reflexivity.
Qed.

Theorem predicates_agree : forall refl g,
  let v := toValue refl g in
  typeof v = spec_typeof g /\
  is_undefined v = (spec_typeof g =? 0) /\
  is_null v = false /\
  is_boolean v = (spec_typeof g =? 2) /\
  is_number v = (spec_typeof g =? 3) /\
  is_string v = (spec_typeof g =? 4).
Proof.
  intros refl g. destruct g; destruct refl; cbn; repeat split; try reflexivity.
Qed.

(* ToFloat of the type-switch branch is the counterpart Number, for every scalar *)
Theorem to_float_agrees : forall sn g,
  to_float sn (toValue false g) = Ok (spec_to_float sn g).
Proof. intros sn g. destruct g; reflexivity. Qed.

Theorem to_float_agrees_refl : forall sn g, wf g ->
  to_float sn (toValue true g) = Ok (spec_to_float sn g).
Proof.
  intros sn g Hw. destruct g; try reflexivity.
  cbn [toValue]. rewrite (wrap_id _ _ Hw). reflexivity.
Qed.

(* ToInteger of every float (float64, float32 on either branch), bool and nil is that of the counterpart *)
Theorem to_integer_nonint : forall sn refl g, (forall k n, g <> GInt k n) ->
  to_integer sn (toValue refl g) = Ok (spec_to_integer sn g).
Proof.
  intros sn refl g Hn. destruct g; destruct refl; try reflexivity; exfalso; eapply Hn; reflexivity.
Qed.

(* MarshalJSON of the type-switch branch is JSON.stringify of the counterpart, NaN and infinities included *)
Theorem marshal_json_agrees : forall fs js g,
  marshal_json fs js (toValue false g) = spec_marshal_json fs js g.
Proof. intros fs js g. destruct g; reflexivity. Qed.

(* ---------- saturation: every uint/uint64 from 2^63 up reads as MaxInt64, as the int64 API requires ---------- *)
Lemma round_ge_2_63 : forall n, 2 ^ 63 <= n < 2 ^ 64 -> 2 ^ 63 <= round_to_double n.
Proof.
  intros n H. unfold round_to_double.
  assert (Ha : Z.abs n = n) by lia. rewrite Ha.
  destruct (Z.ltb_spec n (2 ^ 53)); [change (2 ^ 53) with 9007199254740992 in *; change (2 ^ 63) with 9223372036854775808 in *; lia|].
  assert (L : Z.log2 n = 63) by (apply Z.log2_unique; [lia | change (2 ^ Z.succ 63) with (2 ^ 64); lia]).
  rewrite L. change (63 - 52) with 11. change (2 ^ (11 - 1)) with 1024. change (2 ^ 11) with 2048.
  assert (S : Z.sgn n = 1) by (apply Z.sgn_pos; change (2 ^ 63) with 9223372036854775808 in H; lia).
  rewrite S.
  change (2 ^ 63) with 9223372036854775808 in *. change (2 ^ 64) with 18446744073709551616 in *.
  assert (Q : 4503599627370496 <= n / 2048) by (apply Z.div_le_lower_bound; lia).
  destruct (n mod 2048 <? 1024); [lia|].
  destruct (1024 <? n mod 2048); [lia|].
  destruct (Z.even (n / 2048)); lia.
Qed.

Theorem to_integer_saturates : forall sn refl k n, k = KUint \/ k = KUint64 ->
  in_range k n -> 2 ^ 63 <= n ->
  to_integer sn (toValue refl (GInt k n)) = Ok max64 /\ spec_to_integer sn (GInt k n) = max64.
Proof.
  intros sn refl k n Hk Hr Hn.
  assert (Hv : toValue refl (GInt k n) = VInt k n).
  { cbn [toValue]. destruct refl; [rewrite (wrap_id _ _ Hr)|]; reflexivity. }
  rewrite Hv. cbn [to_integer spec_to_integer].
  assert (Hd : number_direct k = false) by (destruct Hk; subst; reflexivity).
  rewrite Hd.
  assert (Hb : 2 ^ 63 <= n < 2 ^ 64).
  { unfold in_range, lo, hi in Hr. destruct Hk; subst; cbn [is_signed width] in Hr; lia. }
  pose proof (round_ge_2_63 n Hb) as Hge.
  unfold sat64. split.
  - destruct (Z.leb_spec (2 ^ 63) (round_to_double n)); [reflexivity | lia].
  - destruct (Z.leb_spec (2 ^ 63) n); [reflexivity | lia].
Qed.
