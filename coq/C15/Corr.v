(* correspondence cases for C15: what the harness observed on the real
   interpreter (Set/Get/Export/To*/MarshalJSON/script view) against Model
   (otto's bridge as transcribed) and Spec (the required round trip). *)
From Coq Require Import ZArith Bool List.
From Otto Require Import Common.Corr Common.Double C15.Spec.
From Otto Require Export C15.Model C15.ModelExport.
Import ListNotations.
Open Scope Z_scope.

(* one observed API result: a value, an error of the ES5 class enum, or a Go panic *)
Inductive ob (A : Type) := OVal (a : A) | OErr (cls : Z) | OPanic.
Arguments OVal {A} a.
Arguments OErr {A} cls.
Arguments OPanic {A}.

Definition ob_eqb {A} (eqb : A -> A -> bool) (x y : ob A) : bool :=
  match x, y with
  | OVal a, OVal b => eqb a b
  | OErr a, OErr b => a =? b
  | OPanic, OPanic => true
  | _, _ => false
  end.
Definition of_res {A} (r : res A) : ob A := match r with Ok a => OVal a | Panic => OPanic end.

Definition gscalar_eqb (a b : gscalar) : bool :=
  match a, b with
  | GNil, GNil => true
  | GBool x, GBool y => Bool.eqb x y
  | GInt k n, GInt k' n' => ikind_eqb k k' && (n =? n')
  | GF32 x, GF32 y => x =? y
  | GF64 x, GF64 y => x =? y
  | GStr x, GStr y => zlist_eqb x y
  | _, _ => false
  end.

(* how the Go value reached the runtime:
   0 Otto.Set            1 named type (type T int8 ...)   2 pointer to the scalar
   3 Otto.ToValue        4 package ToValue                5 Object.Set / Object.Get on a script object
   6 argument of Value.Call handed back by an identity function
   7 struct field read by a script   8 element of a typed slice   9 value of a typed map
   10 / 11 / 12 struct field / slice element / map value of a NAMED scalar type
   the reflect.Value branch of toValue is taken by 1, 2, 10, 11 and 12 *)
Definition is_refl (path : Z) : bool := (path =? 1) || (path =? 2) || (10 <=? path).

(* what can be told about a primitive from either side *)
Inductive cv := CVUndef | CVNull | CVBool (b : bool) | CVNum (bits : Z) | CVStr (s : list Z) | CVOther.
Inductive hop :=
| HSet (store via name : Z) (g : gscalar)
| HDel (store name : Z)
| HGet (store via name : Z).

Definition cv_eqb (a b : cv) : bool :=
  match a, b with
  | CVUndef, CVUndef | CVNull, CVNull => true
  | CVBool x, CVBool y => Bool.eqb x y
  | CVNum x, CVNum y => x =? y
  | CVStr x, CVStr y => zlist_eqb x y
  | _, _ => false
  end.

Definition cv_of (g : gscalar) : cv :=
  match g with
  | GNil => CVUndef
  | GBool b => CVBool b
  | GInt _ n => CVNum (float_of_int n)
  | GF32 b => CVNum (widen32 b)
  | GF64 b => CVNum b
  | GStr s => CVStr s
  end.

(* the bindings as an association list keyed by (store, name); a read sees the last write *)
Definition hstate := list (Z * Z * cv).
Fixpoint hlookup (st : hstate) (store name : Z) : cv :=
  match st with
  | [] => CVUndef
  | (s, n, v) :: r => if (s =? store) && (n =? name) then v else hlookup r store name
  end.
Definition hremove (st : hstate) (store name : Z) : hstate :=
  filter (fun e => negb ((fst (fst e) =? store) && (snd (fst e) =? name))) st.
Fixpoint hrun (st : hstate) (ops : list hop) : list cv :=
  match ops with
  | [] => []
  | HSet store _ name g :: r => hrun ((store, name, cv_of g) :: st) r
  | HDel store name :: r => hrun (hremove st store name) r
  | HGet store _ name :: r => hlookup st store name :: hrun st r
  end.

(* Go containers handed to the runtime: what a script must see of them *)
Inductive gt :=
| GTScalar (g : gscalar)
| GTSlice (isnil : bool) (l : list gt)                    (* typed slices and []interface{} *)
| GTArray (l : list gt)
| GTMap (isnil : bool) (l : list (list Z * gt))           (* string keys, ascending *)
| GTStruct (l : list (list Z * bool * gt))                (* field name, exported?, value; also behind a pointer *)
| GTNilPtr.

Definition jv_of_cv (c : cv) : jv :=
  match c with
  | CVUndef | CVOther => JUndef
  | CVNull => JNull
  | CVBool b => JBool b
  | CVNum b => JNumF b
  | CVStr s => JStr s
  end.

(* the script's structural view: slices and arrays are arrays of the counterparts (a nil slice is
   empty), maps and structs are objects (a nil map is empty, unexported fields are invisible),
   a nil pointer is undefined *)
Fixpoint view_of (t : gt) : jv :=
  match t with
  | GTScalar g => jv_of_cv (cv_of g)
  | GTSlice _ l => JArr (map (fun x => Some (view_of x)) l)
  | GTArray l => JArr (map (fun x => Some (view_of x)) l)
  | GTMap _ l => JObj (map (fun kv => (fst kv, view_of (snd kv))) l)
  | GTStruct l =>
      JObj ((fix go (l : list (list Z * bool * gt)) : list (list Z * jv) :=
               match l with
               | [] => []
               | (k, exported, x) :: r => if exported then (k, view_of x) :: go r else go r
               end) l)
  | GTNilPtr => JUndef
  end.

Fixpoint jv_eqb (a b : jv) : bool :=
  match a, b with
  | JUndef, JUndef | JNull, JNull => true
  | JBool x, JBool y => Bool.eqb x y
  | JNumI k n, JNumI k' n' => ikind_eqb k k' && (n =? n')
  | JNumF x, JNumF y => x =? y
  | JStr x, JStr y => zlist_eqb x y
  | JArr l, JArr l' =>
      (fix go (l l' : list (option jv)) : bool :=
         match l, l' with
         | [], [] => true
         | None :: r, None :: r' => go r r'
         | Some x :: r, Some y :: r' => jv_eqb x y && go r r'
         | _, _ => false
         end) l l'
  | JObj l, JObj l' =>
      (fix go (l l' : list (list Z * jv)) : bool :=
         match l, l' with
         | [], [] => true
         | (k, x) :: r, (k', y) :: r' => zlist_eqb k k' && jv_eqb x y && go r r'
         | _, _ => false
         end) l l'
  | _, _ => false
  end.

(* sequences of calls whose argument lists must stay their own: bind / a Go callback that keeps its
   argument list / a Go callback that re-enters the interpreter before reading its arguments *)
Inductive cstep :=
| SBind (slot : Z) (args : list gscalar)          (* bound_slot = probe.bind("T", args...) ; nothing observed *)
| SStash (args : list gscalar)                    (* a Go callback keeps call.ArgumentList ; nothing observed *)
| SProbe (args : list gscalar)                    (* observed: what the callee saw *)
| SNest (outer inner : list gscalar)              (* a Go callback calls probe(inner...) through the API, THEN reads its own
                                                     arguments; observed: its own arguments, then what the nested callee saw *)
| SCallBound (slot : Z) (extra : list gscalar)    (* observed: what the bound function saw: bound arguments ++ extra *)
| SRecall.                                        (* observed: the kept argument list *)

Fixpoint slot_lookup (b : list (Z * list gscalar)) (slot : Z) : list gscalar :=
  match b with
  | [] => []
  | (k, a) :: r => if k =? slot then a else slot_lookup r slot
  end.

(* the argument lists the observations must show, in order *)
Fixpoint seq_expected (bounds : list (Z * list gscalar)) (stash : list gscalar) (steps : list cstep)
  : list (list gscalar) :=
  match steps with
  | [] => []
  | SBind slot a :: r => seq_expected ((slot, a) :: bounds) stash r
  | SStash a :: r => seq_expected bounds a r
  | SProbe a :: r => a :: seq_expected bounds stash r
  | SNest o i :: r => o :: i :: seq_expected bounds stash r
  | SCallBound slot e :: r => (slot_lookup bounds slot ++ e) :: seq_expected bounds stash r
  | SRecall :: r => stash :: seq_expected bounds stash r
  end.

(* DOk: the callee returns; DThrow cls: it throws an error of that class (at some recursion depth) *)
Inductive dop := DOk | DThrow (cls : Z).

(* every call, returning or throwing, leaves the scope chain as it found it: nothing is consumed *)
Definition depth_expected (ops : list dop) : list Z :=
  map (fun o => match o with DOk => 0 | DThrow c => c end) ops ++ [0; 0; 0].

(* one binding written repeatedly with Go values that may be the same JavaScript number in different
   kinds / exactness: every read must give back the LAST value written *)
Inductive khop :=
| KSet (g : gscalar)            (* through the Go API *)
| KSetScript (g : gscalar)      (* by a script, as the literal of the counterpart double (float64 payload) *)
| KRead (via : Z).              (* 0 Go API Get + Export, 1 script read + Export *)

Fixpoint krun (cur : gscalar) (ops : list khop) : list (ob gscalar) :=
  match ops with
  | [] => []
  | KSet g :: r => krun (canon (export (toValue false g))) r
  | KSetScript g :: r => krun (GF64 (spec_to_float (fun _ => 0) g)) r
  | KRead _ :: r => OVal cur :: krun cur r
  end.

(* host entry points used re-entrantly from a native callback under script frames that shadow the
   global names pick / gv / gs.  frame: 0 parameters, 1 locals, 2 with-object, 3 catch variables,
   4 locals of an enclosing function, 5 no shadowing *)
Definition frame_tag (frame : Z) : list Z :=
  if frame =? 0 then [112; 97; 114; 97; 109] else if frame =? 1 then [108; 111; 99; 97; 108]
  else if frame =? 2 then [119; 105; 116; 104] else if frame =? 3 then [99; 97; 116; 99; 104]
  else if frame =? 4 then [110; 101; 115; 116; 101; 100] else [103; 108; 111; 98; 97; 108].
Definition s_global : list Z := [103; 108; 111; 98; 97; 108].
Definition s_pick (tag : list Z) (n : Z) : list Z := tag ++ [32; 112; 105; 99; 107; 40] ++ decimal n ++ [41].
Definition s_gv (tag : list Z) : list Z := tag ++ [32; 103; 118].
Definition s_gs (tag : list Z) : list Z := tag ++ [32; 103; 115].
Definition s_set (n : Z) : list Z := [115; 101; 116; 32] ++ decimal n.
(* op: 0 Otto.Call("pick", nil, n)  1 Otto.Call("pick", this, n)  2 Value.Call  3 Object.Call on holder2
   4 Otto.Get("gv")  5 Otto.Set("gs", "set n") then Otto.Get("gs")  6 Otto.Run("pick(n)")  7 Otto.Eval("pick(n)")
   8 Otto.Run("gv")  9 Otto.Eval("gv")  10 Otto.Call("holder2.pick", nil, n)  11 Otto.Call("new ...") not used.
   Call/Get/Set/Run work on the global scope; Eval on the caller's *)
Definition reentry_result (op frame n : Z) : list Z :=
  if (op =? 3) || (op =? 10) then s_pick [104; 111; 108; 100; 101; 114] n
  else if (op =? 4) || (op =? 8) then s_gv s_global
  else if op =? 5 then s_set n
  else if op =? 7 then s_pick (frame_tag frame) n
  else if op =? 9 then s_gv (frame_tag frame)
  else s_pick s_global n.
(* what the frame itself reads from gs afterwards: its own binding; the global one when nothing shadows *)
Definition reentry_local (op frame n : Z) : list Z :=
  if frame =? 5 then (if op =? 5 then s_set n else s_gs s_global) else s_gs (frame_tag frame).

(* which object a call made through the API must run with as this.
   src: 0 identifier  1 holder.f  2 holder["f"]  3 deep.a.f  4 an expression evaluating to the function
   this (the Go argument): 0 the untyped nil (Otto.Call only: "derive this from the source")
     1 otto.UndefinedValue()  2 otto.Value{}  3 the undefined result of an earlier Run  4 a typed nil pointer
     5 otto.NullValue()  6 "str"  7 the number 7  8 true  9 the holder object (Value)  10 deep.a (pointer to otto.Object)
   receiver: 0 the global object, 1 holder, 2 deep.a, 3 a wrapper of the primitive *)
Definition call_receiver (src this : Z) : Z :=
  if this =? 0 then (if (src =? 1) || (src =? 2) then 1 else if src =? 3 then 2 else 0)
  else if this <=? 5 then 0              (* undefined and null: the global object (non-strict callee) *)
  else if this <=? 8 then 3
  else if this =? 9 then 1 else 2.
Definition call_this_tag (src this : Z) : list Z :=
  let r := call_receiver src this in
  if r =? 0 then [71]
  else if r =? 1 then [111; 98; 106; 101; 99; 116; 58; 72; 79; 76; 68; 69; 82]
  else if r =? 2 then [111; 98; 106; 101; 99; 116; 58; 68; 69; 69; 80; 65]
  else if this =? 6 then [111; 98; 106; 101; 99; 116; 58; 115; 116; 114] else if this =? 7 then [111; 98; 106; 101; 99; 116; 58; 55] else [111; 98; 106; 101; 99; 116; 58; 116; 114; 117; 101].
(* the callee adds k to this.n: [holder.n; deep.a.n; global n] afterwards (all reset to 0 before) *)
Definition call_effect (src this k : Z) : list Z :=
  let r := call_receiver src this in
  [if r =? 1 then k else 0; if r =? 2 then k else 0; if r =? 0 then k else 0].

(* script object graphs (objects may refer to each other, also in cycles) and Value.export on them:
   export remembers the objects it is inside of and gives nil for a reference back to one of them;
   [None] = the fuel did not suffice *)
Inductive hval := HNum (n : Z) | HRef (i : nat).
Definition heap := list (list (list Z * hval)).
Inductive gtree := GLeaf (n : Z) | GBack | GNode (l : list (list Z * gtree)).
Fixpoint gexport (fuel : nat) (inside : list nat) (h : heap) (v : hval) : option gtree :=
  match fuel with
  | O => None
  | S f =>
      match v with
      | HNum n => Some (GLeaf n)
      | HRef i =>
          if existsb (Nat.eqb i) inside then Some GBack
          else option_map GNode
            ((fix go (l : list (list Z * hval)) : option (list (list Z * gtree)) :=
                match l with
                | [] => Some []
                | (k, x) :: r => match gexport f (i :: inside) h x, go r with
                                 | Some y, Some ys => Some ((k, y) :: ys)
                                 | _, _ => None
                                 end
                end) (nth i h []))
      end
  end.

Inductive case :=
| CExport (path : Z) (g : gscalar) (obs : ob gscalar)
| CToFloat (path : Z) (g : gscalar) (onum : Z) (obs : ob Z)
| CToInt (path : Z) (g : gscalar) (onum : Z) (obs : ob Z)
| CToBool (path : Z) (g : gscalar) (obs : ob bool)
(* ostr: in-language String(LIT) of the literal of the counterpart double *)
| CToStr (path : Z) (g : gscalar) (ostr : list Z) (obs : ob (list Z))
(* ojson: in-language JSON.stringify(LIT); obs: OErr = MarshalJSON returned an error *)
| CJson (path : Z) (g : gscalar) (ojson : list Z) (obs : ob (list Z))
| CPred (path : Z) (g : gscalar) (onum : Z) (obs : list bool)
(* script view: typeof x, x === LIT, 1/x === 1/LIT (sign of zero), Boolean(x), String(x) *)
| CScript (path : Z) (g : gscalar) (ostr : list Z)
          (ty : ob Z) (eq sign bo : ob bool) (sx : option (ob (list Z)))
(* Export of script data: via 0 = evaluated from source text, 1 = JSON.parse of its JSON text,
   2 = Otto.Get after the script stored it in a global, 3 = handed to a Go function as call argument,
   4 / 5 = as 0 / 1 in a runtime whose Object.prototype and Array.prototype carry enumerable data,
   6 / 7 / 8 = as 0 / 2 / 3 where parts of the data are ONE script object reachable along several paths
   (shared, not cyclic): v is the unfolded data, every reference must export the full copy *)
| CExportTree (via : Z) (v : jv) (obs : ob gv)
(* Export of an array after a history of script mutations *)
| CExportHist (init : list (option jv)) (ops : list aop) (obs : ob gv)
(* a JavaScript value read through the Go API against the in-language conversions.
   ty: typeof (1 = null, 5 object, 6 function); jnum jstr jbool jisnan: in-language Number(v) String(v)
   Boolean(v) isNaN(v); preds: IsDefined IsUndefined IsNull IsPrimitive IsBoolean IsNumber IsString
   IsObject IsFunction Class()==""; gnan gnum gint gstr gbool: IsNaN ToFloat ToInteger ToString ToBoolean *)
| CJsVal (ty : Z) (jnum : ob Z) (jstr : ob (list Z)) (jbool jisnan : ob bool)
         (preds : list bool) (gnan : ob bool) (gnum gint : ob Z) (gstr : ob (list Z)) (gbool : ob bool)
(* an API call (0 Value.Call, 1 Object.Call, 2 Otto.Call with this, 3 Otto.Call without this) against the
   in-language call; the callee reports [this tag; [argc]; [typeof a; String(a)...] ...] *)
| CCall (api : Z) (args : list gscalar) (obs_api obs_lang : ob (list (list Z)))
(* the callee throws / is not callable: error classes of the API call and of the in-language call *)
| CCallErr (api : Z) (cls_api cls_lang : Z)
(* one script object handed back to the runtime in one of its Go spellings (0 otto.Value, 1 *otto.Object,
   2 otto.Object by value) along a path (0 Otto.Set, 1 Otto.ToValue then Set, 2 Object.Set, 3 argument of
   Otto.Call, 4 of Value.Call, 5 of Object.Call, 6 this of Value.Call, 7 this of Otto.Call): it must be the
   very same object (===), typeof object/function, and Export the same data *)
| CObjHandle (spelling path : Z) (data : jv) (ident : ob bool) (ty : ob Z) (exp : ob gv)
(* failing and succeeding API calls on a runtime with a stack depth limit: error class of every call, then the
   change of (deepest recursion reachable through Otto.Call, through a script, length of Error().stack)
   against the measurements taken before the history; lang: the same history made in-language *)
| CDepthHist (limit : Z) (ops : list dop) (api lang : list Z)
(* an object whose prototype chain carries enumerable data (how: 4 literal / 5 JSON.parse under a polluted
   Object.prototype, 6 instance of a constructor with data on its prototype, 7 Object.create chain 1-3 deep;
   inherited names may be shadowed by own ones): Export, Object.Keys() (sorted) and MarshalJSON (against the
   in-language JSON.stringify) must show the OWN enumerable properties only *)
| CProtoObj (how : Z) (own : list (list Z * jv)) (exp : ob gv) (keys : ob (list (list Z))) (json_same : ob bool)
(* target 0 global name (Otto.Set/Get), 1 object property, 2 array index (Object.Set/Get) *)
| CKindHist (target : Z) (ops : list khop) (obs : list (ob gscalar))
(* ref: the same operation at rest (for Eval: the in-language eval in the same frame); reent: from the native
   callback; local: the frame's own gs afterwards *)
| CReentry (op frame n : Z) (ref reent local : ob (list Z))
(* api 0 Otto.Call(src, this, args...), 1 Value.Call(this, args...) on the function the source evaluates to;
   obs: what the callee saw (this tag, args); eff: [holder.n; deep.a.n; global n] after the callee added k to this.n *)
| CCallThis (api src this k : Z) (args : list gscalar) (obs_api obs_lang : ob (list (list Z))) (eff_api eff_lang : list Z)
(* Export of a cyclic object graph, run in a child process (OPanic = the process died: a fatal stack overflow
   cannot be recovered); unrolled: the same data with every reference back into the path replaced by null *)
| CCyclic (shape : Z) (unrolled : jv) (obs : ob gv)
(* a sequence of calls made through the Go API against the same sequence made in-language *)
| CCallSeq (steps : list cstep) (obs_api obs_lang : list (ob (list (list Z))))
(* histories of writes and reads of bindings: store 0 = global names (Otto.Set/Get), 1 = properties of a
   script object (Object.Set/Get); via 0 = Go API, 1 = script *)
| CHistory (ops : list hop) (obs : list cv)
(* a Go container set into the runtime: the script's view of it (walked in-language), whether Export gives
   a reflect.DeepEqual value back, whether MarshalJSON equals encoding/json of the original *)
| CContainer (t : gt) (view : ob jv) (same json : ob bool).

(* text of a double: exact for integers below 2^53 (independent of the oracle),
   the in-language text otherwise *)
Definition float_text (oracle : list Z) (b : Z) : list Z :=
  match int_of_bits b with
  | Some n => if Z.abs n <? 2 ^ 53 then decimal n else oracle
  | None => oracle
  end.

Definition strnum (onum : Z) (s : list Z) : Z :=
  match str_number_spec s with Some b => b | None => onum end.

Definition bool_list_eqb := list_eqb Bool.eqb.

(* finding classes (open):
   2 ToInteger of uint/uint64 goes through float64: rounded above 2^53, saturated from 2^63-512
   3 scripts see the exact integer text of an int64/uint64 beyond 2^53, not the Number's text
   6 Export skips holes
   (1 float32 payload, 4 MarshalJSON of non-finite numbers, 5 Export panic on nested arrays and
   7 IsNaN letting an exception escape are repaired: model = spec there, class 0) *)
Definition verdict_scalar (c : case) : Z * Z :=
  match c with
  | CExport path g obs =>
      let v := toValue (is_refl path) g in
      judge (ob_eqb gscalar_eqb)
            (match obs with OVal x => OVal (canon x) | o => o end)
            (OVal (canon (export v))) (OVal (canon g)) 0
  | CToFloat path g onum obs =>
      judge (ob_eqb Z.eqb) obs (of_res (to_float (strnum onum) (toValue (is_refl path) g)))
            (OVal (spec_to_float (strnum onum) g)) 0
  | CToInt path g onum obs =>
      judge (ob_eqb Z.eqb) obs (of_res (to_integer (strnum onum) (toValue (is_refl path) g)))
            (OVal (spec_to_integer (strnum onum) g))
            2
  | CToBool path g obs =>
      judge (ob_eqb Bool.eqb) obs (OVal (to_boolean (toValue (is_refl path) g)))
            (OVal (spec_to_boolean g)) 0
  | CToStr path g ostr obs =>
      judge (ob_eqb zlist_eqb) obs (OVal (to_string (float_text ostr) (toValue (is_refl path) g)))
            (OVal (spec_to_string (float_text ostr) g)) 0
  | CJson path g ojson obs =>
      let m := match marshal_json (float_text ojson) (fun _ => ojson) (toValue (is_refl path) g) with
               | Some t => OVal t | None => OErr 8 end in
      let s := match spec_marshal_json (float_text ojson) (fun _ => ojson) g with
               | Some t => OVal t | None => OErr 8 end in
      judge (ob_eqb zlist_eqb) (match obs with OErr _ => OErr 8 | o => o end) m s 0
  | CPred path g onum obs =>
      let v := toValue (is_refl path) g in
      let t := spec_typeof g in
      judge bool_list_eqb obs
            [negb (is_undefined v); is_undefined v; is_null v; true; is_boolean v; is_number v;
             value_is_nan (strnum onum) v; is_string v; false; false; true]
            [negb (t =? 0); t =? 0; false; true; t =? 2; t =? 3;
             is_nan (spec_to_float (strnum onum) g); t =? 4; false; false; true] 0
  | CScript path g ostr ty eq sign bo sx =>
      let v := toValue (is_refl path) g in
      let num := is_number v in
      let f := to_float (fun _ => 0) v in
      let m_eq := if num then match f with Ok b => OVal (negb (is_nan b)) | Panic => OPanic end
                  else OVal true in
      let s_eq := if num then OVal (negb (is_nan (spec_to_float (fun _ => 0) g))) else OVal true in
      let m_sign := if num then match f with Ok _ => OVal true | Panic => OPanic end else OVal true in
      let m_sx := match sx with
                  | None => None
                  | Some _ => Some (OVal (match v with VStr _ => ostr | _ => to_string (float_text ostr) v end))
                  end in
      let s_sx := match sx with
                  | None => None
                  | Some _ => Some (OVal (match g with
                                          | GInt _ n => float_text ostr (float_of_int n)
                                          | GStr _ => ostr
                                          | _ => spec_to_string (float_text ostr) g end))
                  end in
      let eqb := fun a b : ob Z * (ob bool * ob bool * ob bool) * option (ob (list Z)) =>
                   let '(t1, (e1, s1, b1), x1) := a in
                   let '(t2, (e2, s2, b2), x2) := b in
                   ob_eqb Z.eqb t1 t2 && ob_eqb Bool.eqb e1 e2 && ob_eqb Bool.eqb s1 s2 &&
                   ob_eqb Bool.eqb b1 b2 && option_eqb (ob_eqb zlist_eqb) x1 x2 in
      judge eqb (ty, (eq, sign, bo), sx)
            (OVal (typeof v), (m_eq, m_sign, OVal (to_boolean v)), m_sx)
            (OVal (spec_typeof g), (s_eq, OVal true, OVal (spec_to_boolean g)), s_sx)
            3
  | _ => declined
  end.

Fixpoint gv_eqb (a b : gv) : bool :=
  match a, b with
  | XNil, XNil => true
  | XBool x, XBool y => Bool.eqb x y
  | XInt k n, XInt k' n' => ikind_eqb k k' && (n =? n')
  | XF64 x, XF64 y => x =? y
  | XStr x, XStr y => zlist_eqb x y
  | XSlice e l, XSlice e' l' =>
      gty_eqb e e' &&
      (fix go (l l' : list gv) : bool :=
         match l, l' with
         | [], [] => true
         | x :: r, y :: r' => gv_eqb x y && go r r'
         | _, _ => false
         end) l l'
  | XMap l, XMap l' =>
      (fix go (l l' : list (list Z * gv)) : bool :=
         match l, l' with
         | [], [] => true
         | (k, x) :: r, (k', y) :: r' => zlist_eqb k k' && gv_eqb x y && go r r'
         | _, _ => false
         end) l l'
  | _, _ => false
  end.

(* finding class 6: Export skips holes, so later elements change index *)
Definition verdict_tree (v : jv) (obs : ob gv) : Z * Z :=
  let m := export_m v in
  judge (ob_eqb gv_eqb) obs (of_res m) (OVal (export_s v)) 6.

Definition zll_eqb := list_eqb zlist_eqb.

(* Value.IsNaN runs the conversion under catchPanic: when it throws, no NaN was obtained and the answer is false *)
Definition verdict_jsval ty (jnum : ob Z) (jstr : ob (list Z)) (jbool jisnan : ob bool)
           (preds : list bool) (gnan : ob bool) (gnum gint : ob Z) (gstr : ob (list Z)) (gbool : ob bool) : Z * Z :=
  let exp_preds := [negb (ty =? 0); ty =? 0; ty =? 1; ty <? 5; ty =? 2; ty =? 3; ty =? 4; 5 <=? ty; ty =? 6; ty <? 5] in
  let m_nan := match jisnan with OVal b => OVal b | _ => OVal false end in
  let s_nan := m_nan in
  let e_int := match jnum with OVal b => OVal (int64_of_bits b) | OErr c => OErr c | OPanic => OPanic end in
  let eqb := fun a b : list bool * ob bool * (ob Z * ob Z) * (ob (list Z) * ob bool) =>
               let '(p1, n1, (f1, i1), (s1, b1)) := a in
               let '(p2, n2, (f2, i2), (s2, b2)) := b in
               bool_list_eqb p1 p2 && ob_eqb Bool.eqb n1 n2 && ob_eqb Z.eqb f1 f2 && ob_eqb Z.eqb i1 i2 &&
               ob_eqb zlist_eqb s1 s2 && ob_eqb Bool.eqb b1 b2 in
  judge eqb (preds, gnan, (gnum, gint), (gstr, gbool))
        (exp_preds, m_nan, (jnum, e_int), (jstr, jbool))
        (exp_preds, s_nan, (jnum, e_int), (jstr, jbool)) 0.

Definition verdict_call (args : list gscalar) (obs_api obs_lang : ob (list (list Z))) : Z * Z :=
  let this_tag := match obs_lang with OVal (t :: _) => t | _ => [] end in
  let exp := OVal (this_tag :: [Z.of_nat (length args)] ::
                   map (fun g => let v := toValue false g in typeof v :: to_string (float_text []) v) args) in
  judge (fun a b => ob_eqb zll_eqb (fst a) (fst b) && ob_eqb zll_eqb (snd a) (snd b))
        (obs_api, obs_lang) (exp, exp) (exp, exp) 0.

Definition arg_desc (g : gscalar) : list Z :=
  let v := toValue false g in typeof v :: to_string (float_text []) v.

Fixpoint seq_descs (exp : list (list gscalar)) (lang : list (ob (list (list Z)))) : list (ob (list (list Z))) :=
  match exp with
  | [] => []
  | a :: r =>
      let tag := match lang with OVal (t :: _) :: _ => t | _ => [] end in
      OVal (tag :: [Z.of_nat (length a)] :: map arg_desc a) :: seq_descs r (tl lang)
  end.

Definition verdict_callseq (steps : list cstep) (obs_api obs_lang : list (ob (list (list Z)))) : Z * Z :=
  let exp := seq_descs (seq_expected [] [] steps) obs_lang in
  let eqb := list_eqb (ob_eqb zll_eqb) in
  judge (fun a b => eqb (fst a) (fst b) && eqb (snd a) (snd b)) (obs_api, obs_lang) (exp, exp) (exp, exp) 0.

Definition verdict (c : case) : Z * Z :=
  match c with
  | CCallSeq steps a l => verdict_callseq steps a l
  | CCallThis _ src this k args oa ol ea el =>
      let exp := OVal (call_this_tag src this :: [Z.of_nat (length args)] :: map arg_desc args) in
      let eff := call_effect src this k in
      judge (fun a b : ob (list (list Z)) * ob (list (list Z)) * (list Z * list Z) =>
               ob_eqb zll_eqb (fst (fst a)) (fst (fst b)) && ob_eqb zll_eqb (snd (fst a)) (snd (fst b)) &&
               zlist_eqb (fst (snd a)) (fst (snd b)) && zlist_eqb (snd (snd a)) (snd (snd b)))
            (oa, ol, (ea, el)) (exp, exp, (eff, eff)) (exp, exp, (eff, eff)) 0
  | CCyclic _ unrolled obs => verdict_tree unrolled obs
  | CProtoObj _ own exp keys js =>
      let m := of_res (export_m (JObj own)) in
      let k := OVal (map fst own) in
      judge (fun a b : ob gv * ob (list (list Z)) * ob bool =>
               ob_eqb gv_eqb (fst (fst a)) (fst (fst b)) && ob_eqb zll_eqb (snd (fst a)) (snd (fst b)) &&
               ob_eqb Bool.eqb (snd a) (snd b))
            (exp, keys, js) (m, k, OVal true) (OVal (export_s (JObj own)), k, OVal true) 6
  | CKindHist _ ops obs =>
      let e := krun GNil ops in
      judge (list_eqb (ob_eqb gscalar_eqb))
            (map (fun o => match o with OVal x => OVal (canon x) | o' => o' end) obs) e e 0
  | CReentry op frame n ref reent loc =>
      let e := (OVal (reentry_result op frame n), OVal (reentry_result op frame n), OVal (reentry_local op frame n)) in
      judge (fun a b : ob (list Z) * ob (list Z) * ob (list Z) =>
               ob_eqb zlist_eqb (fst (fst a)) (fst (fst b)) && ob_eqb zlist_eqb (snd (fst a)) (snd (fst b)) &&
               ob_eqb zlist_eqb (snd a) (snd b))
            (ref, reent, loc) e e 0
  | CObjHandle _ _ data ident ty exp =>
      let m := export_m data in
      judge (fun a b : ob bool * ob Z * ob gv =>
               ob_eqb Bool.eqb (fst (fst a)) (fst (fst b)) && ob_eqb Z.eqb (snd (fst a)) (snd (fst b)) &&
               ob_eqb gv_eqb (snd a) (snd b))
            (ident, ty, exp) (OVal true, OVal 5, of_res m) (OVal true, OVal 5, OVal (export_s data))
            6
  | CDepthHist _ ops api lang =>
      let e := depth_expected ops in
      judge (fun a b => zlist_eqb (fst a) (fst b) && zlist_eqb (snd a) (snd b)) (api, lang) (e, e) (e, e) 0
  | CJsVal ty jnum jstr jbool jisnan preds gnan gnum gint gstr gbool =>
      verdict_jsval ty jnum jstr jbool jisnan preds gnan gnum gint gstr gbool
  | CCall _ args obs_api obs_lang => verdict_call args obs_api obs_lang
  | CCallErr _ a b => judge Z.eqb (if a =? 0 then -1 else a) b b 0
  | CHistory ops obs => judge (list_eqb cv_eqb) obs (hrun [] ops) (hrun [] ops) 0
  | CContainer t view same json =>
      let e := (OVal (view_of t), (OVal true, OVal true)) in
      judge (fun a b : ob jv * (ob bool * ob bool) =>
               ob_eqb jv_eqb (fst a) (fst b) && ob_eqb Bool.eqb (fst (snd a)) (fst (snd b)) &&
               ob_eqb Bool.eqb (snd (snd a)) (snd (snd b)))
            (view, (same, json)) e e 0
  | CExportTree _ v obs => verdict_tree v obs
  | CExportHist init ops obs => verdict_tree (JArr (apply_ops init ops)) obs
  | _ => verdict_scalar c
  end.
