(* correspondence cases for C15: what the harness observed on the real
   interpreter (Set/Get/Export/To*/MarshalJSON/script view) against Model
   (otto's bridge as transcribed) and Spec (the required round trip). *)
From Coq Require Import ZArith Bool List.
From Otto Require Import Common.Corr Common.Double C15.Spec.
From Otto Require Export C15.Model.
Import ListNotations.
Open Scope Z_scope.

(* one observed API result: a value, an error of the ES5 class enum, or a Go panic *)
Inductive ob (A : Type) := OVal (a : A) | OErr (cls : Z) | OPanic.
Arguments OVal {A} a.
Arguments OErr {A} cls.
Arguments OPanic {A}.

Definition ob_eqb {A} (eqb : A -> A -> bool) (x y : ob A) : bool :=
  match x, y with
  | OVal a, OVal b => eqb a b
  | OErr a, OErr b => a =? b
  | OPanic, OPanic => true
  | _, _ => false
  end.
Definition of_res {A} (r : res A) : ob A := match r with Ok a => OVal a | Panic => OPanic end.

Definition gscalar_eqb (a b : gscalar) : bool :=
  match a, b with
  | GNil, GNil => true
  | GBool x, GBool y => Bool.eqb x y
  | GInt k n, GInt k' n' => ikind_eqb k k' && (n =? n')
  | GF32 x, GF32 y => x =? y
  | GF64 x, GF64 y => x =? y
  | GStr x, GStr y => zlist_eqb x y
  | _, _ => false
  end.

(* how the Go value reached the runtime:
   0 Otto.Set            1 named type (type T int8 ...)   2 pointer to the scalar
   3 Otto.ToValue        4 package ToValue                5 Object.Set / Object.Get on a script object
   6 argument of Value.Call handed back by an identity function
   7 struct field read by a script   8 element of a typed slice   9 value of a typed map
   the reflect.Value branch of toValue is taken by 1 and 2 *)
Definition is_refl (path : Z) : bool := (path =? 1) || (path =? 2).

Inductive case :=
| CExport (path : Z) (g : gscalar) (obs : ob gscalar)
| CToFloat (path : Z) (g : gscalar) (onum : Z) (obs : ob Z)
| CToInt (path : Z) (g : gscalar) (onum : Z) (obs : ob Z)
| CToBool (path : Z) (g : gscalar) (obs : ob bool)
(* ostr: in-language String(LIT) of the literal of the counterpart double *)
| CToStr (path : Z) (g : gscalar) (ostr : list Z) (obs : ob (list Z))
(* ojson: in-language JSON.stringify(LIT); obs: OErr = MarshalJSON returned an error *)
| CJson (path : Z) (g : gscalar) (ojson : list Z) (obs : ob (list Z))
| CPred (path : Z) (g : gscalar) (onum : Z) (obs : list bool)
(* script view: typeof x, x === LIT, 1/x === 1/LIT (sign of zero), Boolean(x), String(x) *)
| CScript (path : Z) (g : gscalar) (ostr : list Z)
          (ty : ob Z) (eq sign bo : ob bool) (sx : option (ob (list Z))).

(* text of a double: exact for integers below 2^53 (independent of the oracle),
   the in-language text otherwise *)
Definition float_text (oracle : list Z) (b : Z) : list Z :=
  match int_of_bits b with
  | Some n => if Z.abs n <? 2 ^ 53 then decimal n else oracle
  | None => oracle
  end.

Definition strnum (onum : Z) (s : list Z) : Z :=
  match str_number_spec s with Some b => b | None => onum end.

Definition bool_list_eqb := list_eqb Bool.eqb.

(* finding classes:
   1 float32 payload (named float32 types, *float32): float64() has no case for it -> Go panic,
     and bool() takes NaN for true
   2 ToInteger of uint/uint64 goes through float64: rounded above 2^53, saturated from 2^63-512
   3 scripts see the exact integer text of an int64/uint64 beyond 2^53, not the Number's text
   4 MarshalJSON of NaN / +-Infinity is an error instead of null *)
Definition verdict_scalar (c : case) : Z * Z :=
  match c with
  | CExport path g obs =>
      let v := toValue (is_refl path) g in
      judge (ob_eqb gscalar_eqb)
            (match obs with OVal x => OVal (canon x) | o => o end)
            (OVal (canon (export v))) (OVal (canon g)) 0
  | CToFloat path g onum obs =>
      judge (ob_eqb Z.eqb) obs (of_res (to_float (strnum onum) (toValue (is_refl path) g)))
            (OVal (spec_to_float (strnum onum) g)) 1
  | CToInt path g onum obs =>
      judge (ob_eqb Z.eqb) obs (of_res (to_integer (strnum onum) (toValue (is_refl path) g)))
            (OVal (spec_to_integer (strnum onum) g))
            (match g with GF32 _ => 1 | _ => 2 end)
  | CToBool path g obs =>
      judge (ob_eqb Bool.eqb) obs (OVal (to_boolean (toValue (is_refl path) g)))
            (OVal (spec_to_boolean g)) 1
  | CToStr path g ostr obs =>
      judge (ob_eqb zlist_eqb) obs (OVal (to_string (float_text ostr) (toValue (is_refl path) g)))
            (OVal (spec_to_string (float_text ostr) g)) 0
  | CJson path g ojson obs =>
      let m := match marshal_json (float_text ojson) (fun _ => ojson) (toValue (is_refl path) g) with
               | Some t => OVal t | None => OErr 8 end in
      let s := match spec_marshal_json (float_text ojson) (fun _ => ojson) g with
               | Some t => OVal t | None => OErr 8 end in
      judge (ob_eqb zlist_eqb) (match obs with OErr _ => OErr 8 | o => o end) m s 4
  | CPred path g onum obs =>
      let v := toValue (is_refl path) g in
      let t := spec_typeof g in
      judge bool_list_eqb obs
            [negb (is_undefined v); is_undefined v; is_null v; true; is_boolean v; is_number v;
             value_is_nan (strnum onum) v; is_string v; false; false; true]
            [negb (t =? 0); t =? 0; false; true; t =? 2; t =? 3;
             is_nan (spec_to_float (strnum onum) g); t =? 4; false; false; true] 0
  | CScript path g ostr ty eq sign bo sx =>
      let v := toValue (is_refl path) g in
      let num := is_number v in
      let f := to_float (fun _ => 0) v in
      let m_eq := if num then match f with Ok b => OVal (negb (is_nan b)) | Panic => OPanic end
                  else OVal true in
      let s_eq := if num then OVal (negb (is_nan (spec_to_float (fun _ => 0) g))) else OVal true in
      let m_sign := if num then match f with Ok _ => OVal true | Panic => OPanic end else OVal true in
      let m_sx := match sx with
                  | None => None
                  | Some _ => Some (OVal (match v with VStr _ => ostr | _ => to_string (float_text ostr) v end))
                  end in
      let s_sx := match sx with
                  | None => None
                  | Some _ => Some (OVal (match g with
                                          | GInt _ n => float_text ostr (float_of_int n)
                                          | GStr _ => ostr
                                          | _ => spec_to_string (float_text ostr) g end))
                  end in
      let eqb := fun a b : ob Z * (ob bool * ob bool * ob bool) * option (ob (list Z)) =>
                   let '(t1, (e1, s1, b1), x1) := a in
                   let '(t2, (e2, s2, b2), x2) := b in
                   ob_eqb Z.eqb t1 t2 && ob_eqb Bool.eqb e1 e2 && ob_eqb Bool.eqb s1 s2 &&
                   ob_eqb Bool.eqb b1 b2 && option_eqb (ob_eqb zlist_eqb) x1 x2 in
      judge eqb (ty, (eq, sign, bo), sx)
            (OVal (typeof v), (m_eq, m_sign, OVal (to_boolean v)), m_sx)
            (OVal (spec_typeof g), (s_eq, OVal true, OVal (spec_to_boolean g)), s_sx)
            (match g with GF32 _ => 1 | _ => 3 end)
  end.

Definition verdict (c : case) : Z * Z := verdict_scalar c.
