(* proofs about the array typing of Value.export (ModelExport.v) *)
From Coq Require Import ZArith Bool List Lia.
From Otto Require Import Common.Double C15.Model C15.ModelExport.
Import ListNotations.
Open Scope Z_scope.

Lemma ikind_eqb_eq : forall a b, ikind_eqb a b = true <-> a = b.
Proof. intros a b; split; [destruct a, b; simpl; congruence | intros ->; destruct b; reflexivity]. Qed.

Lemma gty_eqb_eq : forall a b, gty_eqb a b = true <-> a = b.
Proof.
  induction a; destruct b; simpl; split; intro H; try reflexivity; try discriminate.
  - apply ikind_eqb_eq in H. congruence.
  - apply ikind_eqb_eq. congruence.
  - apply IHa in H. congruence.
  - apply IHa. congruence.
Qed.

Lemma gty_eqb_refl : forall a, gty_eqb a a = true.
Proof. intro a. apply gty_eqb_eq. reflexivity. Qed.

Lemma triple_eqb_eq : forall a b, triple_eqb a b = true <-> a = b.
Proof.
  intros [[a1 a2] a3] [[b1 b2] b3]. unfold triple_eqb.
  rewrite !andb_true_iff, !Z.eqb_eq. split; [intros [[-> ->] ->]; reflexivity | intro H; inversion H; auto].
Qed.

(* ---------- the loop ---------- *)
Lemma gty_eqb_sym : forall a b, gty_eqb a b = gty_eqb b a.
Proof.
  intros a b. destruct (gty_eqb a b) eqn:E.
  - apply gty_eqb_eq in E. subst. symmetry. apply gty_eqb_refl.
  - destruct (gty_eqb b a) eqn:E'; [|reflexivity]. apply gty_eqb_eq in E'. subst.
    rewrite gty_eqb_refl in E. discriminate.
Qed.

Lemma run_from2 : forall l cur first, fold_left step l (2, cur, first) = (2, cur, first).
Proof. induction l; intros cur first; simpl; [reflexivity | apply IHl]. Qed.

(* every later element has the type of the first one *)
Definition same_as (T : gty) (l : list gv) : bool := forallb (fun y => gty_eqb T (type_of y)) l.

Lemma run_from1 : forall l T,
  fold_left step l (1, triple_of T, T) = ((if same_as T l then 1 else 2), triple_of T, T).
Proof.
  induction l; intro T; simpl; [reflexivity|].
  destruct (gty_eqb T (type_of a)) eqn:E; simpl.
  - apply gty_eqb_eq in E. rewrite <- E.
    assert (R : triple_eqb (triple_of T) (triple_of T) = true) by (apply triple_eqb_eq; reflexivity).
    rewrite R. simpl. apply IHl.
  - rewrite andb_false_r. simpl. apply run_from2.
Qed.

Lemma run_cons : forall x l,
  run (x :: l) = ((if same_as (type_of x) l then 1 else 2), triple_of (type_of x), type_of x).
Proof. intros x l. unfold run. simpl. apply run_from1. Qed.

Lemma last_type_all : forall l T, l <> [] -> Forall (fun y => type_of y = T) l -> last_type l = T.
Proof.
  unfold last_type. induction l; intros T Hn H; [congruence|].
  inversion H; subst. destruct l; [reflexivity|].
  change (type_of (last (g :: l) XNil) = type_of a). apply IHl; [discriminate | assumption].
Qed.

Lemma kind20 : forall t, fst (fst (triple_of t)) = 20 -> t = TIface.
Proof. destruct t; simpl; try discriminate; try reflexivity. destruct k; discriminate. Qed.

Lemma forallb_types : forall l T,
  forallb (fun x => gty_eqb (type_of x) T) l = true <-> Forall (fun y => type_of y = T) l.
Proof.
  intros l T. rewrite forallb_forall, Forall_forall.
  split; intros H x Hx; [apply gty_eqb_eq | apply gty_eqb_eq]; apply H; assumption.
Qed.

Lemma same_as_flip : forall T l, same_as T l = forallb (fun y => gty_eqb (type_of y) T) l.
Proof.
  intros T l. unfold same_as. induction l; simpl; [reflexivity|].
  rewrite IHl. rewrite (gty_eqb_sym T (type_of a)). reflexivity.
Qed.

(* EXPORT OF AN ARRAY ALWAYS RETURNS, AND RETURNS WHAT THE RULE PRESCRIBES: []T when the array is not
   empty and every element exports to the same Go type T, []interface{} otherwise.  In particular the
   Set of the elements into the typed slice (reflect's assignability check) never fails. *)
Theorem finish_total : forall l, finish l = Ok (finish_spec l).
Proof.
  intro l. destruct l as [|x r]; [reflexivity|].
  unfold finish. rewrite run_cons.
  unfold finish_spec, all_same_type.
  rewrite <- (same_as_flip (type_of x) r).
  destruct (triple_of (type_of x)) as [[kind kk] ek] eqn:Etr.
  destruct (same_as (type_of x) r) eqn:S.
  - (* all of one type *)
    assert (Hall : Forall (fun y => type_of y = type_of x) (x :: r)).
    { constructor; [reflexivity|]. apply forallb_types. rewrite <- same_as_flip. assumption. }
    rewrite (last_type_all (x :: r) (type_of x)); [|discriminate|assumption].
    change (negb (1 =? 1)) with false. simpl orb.
    destruct (gty_eqb (type_of x) TNil) eqn:N.
    + rewrite orb_true_r. reflexivity.
    + rewrite orb_false_r. simpl negb. simpl andb.
      destruct (kind =? 20) eqn:K.
      * apply Z.eqb_eq in K. subst kind.
        assert (E : type_of x = TIface) by (apply kind20; rewrite Etr; reflexivity).
        rewrite E. reflexivity.
      * assert (F : forallb (fun x0 => gty_eqb (type_of x0) (type_of x)) (x :: r) = true)
          by (apply forallb_types; assumption).
        rewrite F. reflexivity.
  - change (negb (2 =? 1)) with true. simpl orb. rewrite andb_false_r. reflexivity.
Qed.

Corollary finish_agrees_spec : forall l r, finish l = Ok r -> r = finish_spec l.
Proof. intros l r H. rewrite finish_total in H. inversion H. reflexivity. Qed.

Corollary finish_never_panics : forall l, finish l <> Panic.
Proof. intros l H. rewrite finish_total in H. discriminate. Qed.

(* THE TYPED-SLICE RULE: the result is []T (T a concrete type) exactly when the array is
   not empty, T is not the nil type and every element exports to the Go type T *)
Theorem finish_typed_iff : forall l T, T <> TIface ->
  (finish l = Ok (XSlice T l) <-> l <> [] /\ T <> TNil /\ Forall (fun y => type_of y = T) l).
Proof.
  intros l T HT. rewrite finish_total. unfold finish_spec, all_same_type. split.
  - intro H. destruct l as [|x r]; [inversion H; congruence|].
    destruct (negb (gty_eqb (type_of x) TNil) && forallb (fun y => gty_eqb (type_of y) (type_of x)) r) eqn:S.
    + inversion H; subst. apply andb_true_iff in S. destruct S as [S1 S2].
      split; [discriminate|]. split.
      * intro E. rewrite E in S1. simpl in S1. discriminate.
      * constructor; [reflexivity | apply forallb_types; assumption].
    + inversion H. congruence.
  - intros (Hn & HN & Hall). destruct l as [|x r]; [congruence|].
    inversion Hall as [|? ? Hx Hr]; subst.
    assert (N : gty_eqb (type_of x) TNil = false).
    { destruct (gty_eqb (type_of x) TNil) eqn:E; [apply gty_eqb_eq in E; congruence | reflexivity]. }
    rewrite N. apply forallb_types in Hr. rewrite Hr. reflexivity.
Qed.

(* ---------- the whole tree ---------- *)
Section jv_induction.
  Variable P : jv -> Prop.
  Hypothesis HUndef : P JUndef.
  Hypothesis HNull : P JNull.
  Hypothesis HBool : forall b, P (JBool b).
  Hypothesis HNumI : forall k n, P (JNumI k n).
  Hypothesis HNumF : forall b, P (JNumF b).
  Hypothesis HStr : forall s, P (JStr s).

  Definition QA (o : option jv) : Prop := match o with Some x => P x | None => True end.
  Definition QO (kv : list Z * jv) : Prop := P (snd kv).
  Hypothesis HArr' : forall l, Forall QA l -> P (JArr l).
  Hypothesis HObj' : forall l, Forall QO l -> P (JObj l).

  Fixpoint jv_ind2 (v : jv) : P v :=
    match v with
    | JUndef => HUndef
    | JNull => HNull
    | JBool b => HBool b
    | JNumI k n => HNumI k n
    | JNumF b => HNumF b
    | JStr s => HStr s
    | JArr l =>
        HArr' l ((fix go (l : list (option jv)) : Forall QA l :=
                   match l return Forall QA l with
                   | [] => Forall_nil QA
                   | o :: r => @Forall_cons _ QA o r
                                 (match o return QA o with Some x => jv_ind2 x | None => I end) (go r)
                   end) l)
    | JObj l =>
        HObj' l ((fix go (l : list (list Z * jv)) : Forall QO l :=
                   match l return Forall QO l with
                   | [] => Forall_nil QO
                   | kv :: r => @Forall_cons _ QO kv r
                                  (match kv return QO kv with (k, x) => jv_ind2 x end) (go r)
                   end) l)
    end.
End jv_induction.

Lemma finish_proj : forall ys r, finish ys = Ok r -> proj_gv r = PArr (map proj_gv ys).
Proof.
  intros ys r H. unfold finish in H.
  destruct (run ys) as [[state [[kind kk] ek]] first].
  destruct (negb (state =? 1) || (kind =? 20) || gty_eqb (last_type ys) TNil).
  - inversion H. reflexivity.
  - destruct (forallb (fun x => gty_eqb (type_of x) (last_type ys)) ys); [|discriminate].
    inversion H. reflexivity.
Qed.

(* EXPORT OF JSON-LIKE DATA IS STRUCTURALLY EQUAL TO THE DATA: whenever Export returns, the
   exported Go value has the same JSON-like content (numbers by value), to any depth *)
Theorem export_jsonlike : forall v r, jsonlike v = true -> export_m v = Ok r -> proj_gv r = proj_jv v.
Proof.
  induction v using jv_ind2; intros r HJ HE; simpl in HE; try (inversion HE; subst; reflexivity).
  - (* arrays *)
    match type of HE with bind ?g _ = _ => destruct g as [ys|] eqn:G end; [|discriminate].
    simpl in HE. rewrite (finish_proj ys r HE). simpl. f_equal.
    clear HE r. simpl in HJ. revert ys G.
    induction l as [|o rest IHl]; intros ys G.
    + inversion G. reflexivity.
    + inversion H as [|? ? Ho Hrest]; subst.
      simpl in HJ. apply andb_true_iff in HJ. destruct HJ as [HJo HJr].
      destruct o as [x|]; [|discriminate].
      destruct (export_m x) as [y|] eqn:Ex; [|discriminate].
      simpl in G.
      match type of G with bind ?g _ = _ => destruct g as [ys'|] eqn:G' end; [|discriminate].
      simpl in G. inversion G; subst. simpl. f_equal.
      * apply Ho; assumption.
      * apply IHl; [assumption | assumption | reflexivity].
  - (* objects *)
    match type of HE with bind ?g _ = _ => destruct g as [ys|] eqn:G end; [|discriminate].
    simpl in HE. inversion HE; subst. simpl. f_equal.
    clear HE. simpl in HJ. revert ys G.
    induction l as [|[k x] rest IHl]; intros ys G.
    + inversion G. reflexivity.
    + inversion H as [|? ? Ho Hrest]; subst. simpl in Ho.
      simpl in HJ. apply andb_true_iff in HJ. destruct HJ as [HJo HJr].
      assert (Hx : x <> JUndef) by (intro E; subst x; simpl in HJo; discriminate).
      assert (G2 : bind (export_m x) (fun y => bind ((fix go (l : list (list Z * jv)) : res (list (list Z * gv)) :=
               match l with
               | [] => Ok []
               | (k, JUndef) :: r => go r
               | (k, x) :: r => bind (export_m x) (fun y => bind (go r) (fun ys => Ok ((k, y) :: ys)))
               end) rest) (fun ys => Ok ((k, y) :: ys))) = Ok ys).
      { destruct x; try exact G. congruence. }
      clear G. destruct (export_m x) as [y|] eqn:Ex; [|discriminate].
      simpl in G2.
      match type of G2 with bind ?g _ = _ => destruct g as [ys'|] eqn:G' end; [|discriminate].
      simpl in G2. inversion G2; subst. simpl. f_equal.
      * f_equal. apply Ho; assumption.
      * apply IHl; [assumption | assumption | reflexivity].
Qed.

(* Export never panics, whatever the script data *)
Theorem export_total : forall v, exists r, export_m v = Ok r.
Proof.
  induction v using jv_ind2; try (eexists; reflexivity).
  - (* arrays *)
    assert (G : exists ys, (fix go (l : list (option jv)) : res (list gv) :=
               match l with
               | [] => Ok []
               | None :: r => go r
               | Some x :: r => bind (export_m x) (fun y => bind (go r) (fun ys => Ok (y :: ys)))
               end) l = Ok ys).
    { induction l as [|o rest IHl]; [eexists; reflexivity|].
      inversion H as [|? ? Ho Hrest]; subst. destruct (IHl Hrest) as [ys Hys].
      destruct o as [x|]; [|exists ys; assumption].
      destruct Ho as [y Hy]. exists (y :: ys). rewrite Hy. simpl. rewrite Hys. reflexivity. }
    destruct G as [ys Hys]. exists (finish_spec ys). simpl. rewrite Hys. simpl. apply finish_total.
  - (* objects *)
    assert (G : exists ys, (fix go (l : list (list Z * jv)) : res (list (list Z * gv)) :=
               match l with
               | [] => Ok []
               | (k, JUndef) :: r => go r
               | (k, x) :: r => bind (export_m x) (fun y => bind (go r) (fun ys => Ok ((k, y) :: ys)))
               end) l = Ok ys).
    { induction l as [|[k x] rest IHl]; [eexists; reflexivity|].
      inversion H as [|? ? Ho Hrest]; subst. destruct (IHl Hrest) as [ys Hys].
      destruct Ho as [y Hy]. simpl in Hy.
      destruct x; try (exists ((k, y) :: ys); rewrite Hy; simpl; rewrite Hys; reflexivity).
      exists ys. assumption. }
    destruct G as [ys Hys]. exists (XMap ys). simpl. rewrite Hys. reflexivity.
Qed.

Corollary export_jsonlike_total : forall v, jsonlike v = true ->
  exists r, export_m v = Ok r /\ proj_gv r = proj_jv v.
Proof.
  intros v HJ. destruct (export_total v) as [r Hr]. exists r. split; [assumption|].
  apply export_jsonlike; assumption.
Qed.
