(* proofs about the array typing of Value.export (ModelExport.v) *)
From Coq Require Import ZArith Bool List Lia.
From Otto Require Import Common.Double C15.Model C15.ModelExport.
Import ListNotations.
Open Scope Z_scope.

Lemma ikind_eqb_eq : forall a b, ikind_eqb a b = true <-> a = b.
Proof. intros a b; split; [destruct a, b; simpl; congruence | intros ->; destruct b; reflexivity]. Qed.

Lemma gty_eqb_eq : forall a b, gty_eqb a b = true <-> a = b.
Proof.
  induction a; destruct b; simpl; split; intro H; try reflexivity; try discriminate.
  - apply ikind_eqb_eq in H. congruence.
  - apply ikind_eqb_eq. congruence.
  - apply IHa in H. congruence.
  - apply IHa. congruence.
Qed.

Lemma gty_eqb_refl : forall a, gty_eqb a a = true.
Proof. intro a. apply gty_eqb_eq. reflexivity. Qed.

Lemma triple_eqb_eq : forall a b, triple_eqb a b = true <-> a = b.
Proof.
  intros [[a1 a2] a3] [[b1 b2] b3]. unfold triple_eqb.
  rewrite !andb_true_iff, !Z.eqb_eq. split; [intros [[-> ->] ->]; reflexivity | intro H; inversion H; auto].
Qed.

(* ---------- the loop ---------- *)
Lemma run_from2 : forall l cur, fold_left step l (2, cur) = (2, cur).
Proof. induction l; intro cur; simpl; [reflexivity | apply IHl]. Qed.

Definition homog (cur : triple) (l : list gv) : bool :=
  forallb (fun y => triple_eqb cur (triple_of (type_of y))) l.

Lemma run_from1 : forall l cur,
  fold_left step l (1, cur) = ((if homog cur l then 1 else 2), cur).
Proof.
  induction l; intro cur; simpl; [reflexivity|].
  destruct (triple_eqb cur (triple_of (type_of a))) eqn:E; simpl.
  - apply IHl.
  - apply run_from2.
Qed.

Lemma run_cons : forall x l,
  run (x :: l) = ((if homog (triple_of (type_of x)) l then 1 else 2), triple_of (type_of x)).
Proof. intros x l. unfold run. simpl. apply run_from1. Qed.

Lemma last_type_all : forall l T, l <> [] -> Forall (fun y => type_of y = T) l -> last_type l = T.
Proof.
  unfold last_type. induction l; intros T Hn H; [congruence|].
  inversion H; subst. destruct l; [reflexivity|].
  change (type_of (last (g :: l) XNil) = type_of a). apply IHl; [discriminate | assumption].
Qed.

Lemma last_in : forall (l : list gv) d, l <> [] -> In (last l d) l.
Proof.
  induction l; intros d H; [congruence|]. destruct l; [left; reflexivity|].
  right. apply IHl. discriminate.
Qed.

Lemma kind20 : forall t, fst (fst (triple_of t)) = 20 -> t = TIface.
Proof. destruct t; simpl; try discriminate; try reflexivity. destruct k; discriminate. Qed.

Lemma forallb_types : forall l T,
  forallb (fun x => gty_eqb (type_of x) T) l = true <-> Forall (fun y => type_of y = T) l.
Proof.
  intros l T. rewrite forallb_forall, Forall_forall.
  split; intros H x Hx; [apply gty_eqb_eq | apply gty_eqb_eq]; apply H; assumption.
Qed.

Lemma homog_of_types : forall l T, Forall (fun y => type_of y = T) l -> homog (triple_of T) l = true.
Proof.
  intros l T H. unfold homog. apply forallb_forall. intros x Hx.
  rewrite Forall_forall in H. rewrite (H x Hx). apply triple_eqb_eq. reflexivity.
Qed.

(* THE TYPED-SLICE RULE: the result is []T (T a concrete type) exactly when the array is
   not empty, T is not the nil type and every element exports to the Go type T *)
Theorem finish_typed_iff : forall l T, T <> TIface ->
  (finish l = Ok (XSlice T l) <-> l <> [] /\ T <> TNil /\ Forall (fun y => type_of y = T) l).
Proof.
  intros l T HT. split.
  - intro H. destruct l as [|x r].
    + vm_compute in H. inversion H. congruence.
    + unfold finish in H. rewrite run_cons in H.
      destruct (triple_of (type_of x)) as [[kind kk] ek] eqn:Etr.
      destruct (negb ((if homog (kind, kk, ek) r then 1 else 2) =? 1) || (kind =? 20)
                || gty_eqb (last_type (x :: r)) TNil) eqn:B.
      * inversion H. congruence.
      * destruct (forallb (fun x0 => gty_eqb (type_of x0) (last_type (x :: r))) (x :: r)) eqn:F; [|discriminate].
        inversion H; subst. split; [discriminate|]. split.
        -- intro E. rewrite E in B. rewrite gty_eqb_refl in B. rewrite orb_true_r in B. discriminate.
        -- apply forallb_types. assumption.
  - intros (Hn & HT' & Hall). destruct l as [|x r]; [congruence|].
    unfold finish. rewrite run_cons.
    assert (Hx : type_of x = T) by (inversion Hall; assumption).
    assert (Hr : Forall (fun y => type_of y = T) r) by (inversion Hall; assumption).
    rewrite Hx. rewrite (homog_of_types r T Hr).
    destruct (triple_of T) as [[kind kk] ek] eqn:Etr.
    rewrite (last_type_all (x :: r) T Hn Hall).
    assert (Hk : (kind =? 20) = false).
    { apply Z.eqb_neq. intro E. apply HT. apply kind20. rewrite Etr. exact E. }
    assert (Hnil : gty_eqb T TNil = false).
    { destruct (gty_eqb T TNil) eqn:E; [apply gty_eqb_eq in E; congruence | reflexivity]. }
    rewrite Hk, Hnil. simpl negb. simpl orb.
    assert (F : forallb (fun x0 => gty_eqb (type_of x0) T) (x :: r) = true) by (apply forallb_types; assumption).
    rewrite F. reflexivity.
Qed.

(* whenever Export returns, it returns what the rule asks for *)
Theorem finish_agrees_spec : forall l r, finish l = Ok r -> r = finish_spec l.
Proof.
  intros l r H. destruct l as [|x rest].
  - vm_compute in H. inversion H. reflexivity.
  - unfold finish in H. rewrite run_cons in H.
    destruct (triple_of (type_of x)) as [[kind kk] ek] eqn:Etr.
    destruct (negb ((if homog (kind, kk, ek) rest then 1 else 2) =? 1) || (kind =? 20)
              || gty_eqb (last_type (x :: rest)) TNil) eqn:B.
    + inversion H; subst. unfold finish_spec, all_same_type.
      destruct (negb (gty_eqb (type_of x) TNil) && forallb (fun y => gty_eqb (type_of y) (type_of x)) rest) eqn:S;
        [|reflexivity].
      apply andb_true_iff in S. destruct S as [S1 S2].
      destruct (gty_eqb (type_of x) TIface) eqn:EI; [apply gty_eqb_eq in EI; rewrite EI; reflexivity|].
      exfalso.
      assert (Hall : Forall (fun y => type_of y = type_of x) (x :: rest)).
      { constructor; [reflexivity | apply forallb_types; assumption]. }
      assert (Hh : homog (kind, kk, ek) rest = true).
      { rewrite <- Etr. apply homog_of_types. inversion Hall; assumption. }
      rewrite Hh in B. simpl in B.
      rewrite (last_type_all (x :: rest) (type_of x)) in B; [|discriminate|assumption].
      apply negb_true_iff in S1. rewrite S1 in B. rewrite orb_false_r in B.
      apply Z.eqb_eq in B. subst kind.
      assert (type_of x = TIface) by (apply kind20; rewrite Etr; reflexivity).
      rewrite H0 in EI. simpl in EI. discriminate.
    + destruct (forallb (fun x0 => gty_eqb (type_of x0) (last_type (x :: rest))) (x :: rest)) eqn:F; [|discriminate].
      inversion H; subst. unfold finish_spec, all_same_type.
      apply forallb_types in F.
      assert (Hx : type_of x = last_type (x :: rest)) by (inversion F; assumption).
      assert (Hr : Forall (fun y => type_of y = last_type (x :: rest)) rest) by (inversion F; assumption).
      apply orb_false_iff in B. destruct B as [_ B].
      rewrite Hx. rewrite B. simpl negb. simpl andb.
      apply forallb_types in Hr. rewrite Hr. reflexivity.
Qed.

(* Export panics only on two elements that agree in their kind triple and differ in type *)
Theorem finish_panic_only : forall l, finish l = Panic ->
  exists a b, In a l /\ In b l /\ triple_of (type_of a) = triple_of (type_of b) /\ type_of a <> type_of b.
Proof.
  intros l H. destruct l as [|x rest]; [vm_compute in H; discriminate|].
  unfold finish in H. rewrite run_cons in H.
  destruct (triple_of (type_of x)) as [[kind kk] ek] eqn:Etr.
  destruct (negb ((if homog (kind, kk, ek) rest then 1 else 2) =? 1) || (kind =? 20)
            || gty_eqb (last_type (x :: rest)) TNil) eqn:B; [discriminate|].
  destruct (forallb (fun x0 => gty_eqb (type_of x0) (last_type (x :: rest))) (x :: rest)) eqn:F; [discriminate|].
  apply orb_false_iff in B. destruct B as [B _]. apply orb_false_iff in B. destruct B as [B _].
  destruct (homog (kind, kk, ek) rest) eqn:Hh; [|simpl in B; discriminate].
  assert (Hex : exists y, In y (x :: rest) /\ gty_eqb (type_of y) (last_type (x :: rest)) = false).
  { clear -F. induction (x :: rest) as [|a l IH] in F |- *; [simpl in F; discriminate|].
    simpl in F. apply andb_false_iff in F.
    generalize dependent (last_type (a :: l)). intros t F.
    destruct F as [F|F].
    - exists a. split; [left; reflexivity | assumption].
    - assert (E : exists y, In y l /\ gty_eqb (type_of y) t = false).
      { clear -F. induction l; [simpl in F; discriminate|]. simpl in F. apply andb_false_iff in F.
        destruct F as [F|F]; [exists a; split; [left; reflexivity|assumption]|].
        destruct (IHl F) as (y & Hy & Hy'). exists y. split; [right; assumption | assumption]. }
      destruct E as (y & Hy & Hy'). exists y. split; [right; assumption | assumption]. }
  destruct Hex as (y & Hy & Hne).
  exists y, (last (x :: rest) XNil). split; [assumption|]. split; [apply last_in; discriminate|].
  assert (Htr : forall z, In z (x :: rest) -> triple_of (type_of z) = (kind, kk, ek)).
  { intros z [<-|Hz]; [assumption|]. unfold homog in Hh. rewrite forallb_forall in Hh.
    symmetry. apply triple_eqb_eq. apply Hh. assumption. }
  split.
  - rewrite (Htr y Hy). rewrite (Htr _ (last_in (x :: rest) XNil ltac:(discriminate))). reflexivity.
  - intro E. unfold last_type in Hne. rewrite E in Hne. rewrite gty_eqb_refl in Hne. discriminate.
Qed.

(* for slices at most one level deep (and every scalar and map) the triple determines the type,
   so arrays whose elements are scalars, objects or arrays of scalars never panic *)
Definition shallow (t : gty) : bool :=
  match t with TSlice (TSlice _) => false | _ => true end.

Lemma kind_of_inj : forall a b, kind_of a = kind_of b ->
  (forall e, a <> TSlice e) -> (forall e, b <> TSlice e) -> a = b.
Proof.
  intros a b H Ha Hb.
  destruct a; try (exfalso; eapply Ha; reflexivity);
  destruct b; try (exfalso; eapply Hb; reflexivity); simpl in H; try reflexivity; try discriminate;
    try (destruct k; discriminate).
  destruct k, k0; try discriminate; reflexivity.
Qed.

Lemma triple_shallow_inj : forall a b, shallow a = true -> shallow b = true ->
  triple_of a = triple_of b -> a = b.
Proof.
  intros a b Sa Sb H.
  destruct a; destruct b; simpl in H; try reflexivity; try discriminate;
    try (destruct k; discriminate); try (inversion H; fail).
  - destruct k, k0; try discriminate; reflexivity.
  - inversion H. f_equal. apply kind_of_inj; [assumption | |].
    + intros e E. subst a. simpl in Sa. discriminate.
    + intros e E. subst b. simpl in Sb. discriminate.
Qed.

Theorem finish_shallow_total : forall l,
  Forall (fun y => shallow (type_of y) = true) l -> finish l = Ok (finish_spec l).
Proof.
  intros l Hs. destruct (finish l) eqn:E.
  - f_equal. apply finish_agrees_spec. assumption.
  - exfalso. destruct (finish_panic_only l E) as (a & b & Ha & Hb & Htr & Hne).
    rewrite Forall_forall in Hs. apply Hne. apply triple_shallow_inj; auto.
Qed.

(* ---------- the whole tree ---------- *)
Section jv_induction.
  Variable P : jv -> Prop.
  Hypothesis HUndef : P JUndef.
  Hypothesis HNull : P JNull.
  Hypothesis HBool : forall b, P (JBool b).
  Hypothesis HNumI : forall k n, P (JNumI k n).
  Hypothesis HNumF : forall b, P (JNumF b).
  Hypothesis HStr : forall s, P (JStr s).

  Definition QA (o : option jv) : Prop := match o with Some x => P x | None => True end.
  Definition QO (kv : list Z * jv) : Prop := P (snd kv).
  Hypothesis HArr' : forall l, Forall QA l -> P (JArr l).
  Hypothesis HObj' : forall l, Forall QO l -> P (JObj l).

  Fixpoint jv_ind2 (v : jv) : P v :=
    match v with
    | JUndef => HUndef
    | JNull => HNull
    | JBool b => HBool b
    | JNumI k n => HNumI k n
    | JNumF b => HNumF b
    | JStr s => HStr s
    | JArr l =>
        HArr' l ((fix go (l : list (option jv)) : Forall QA l :=
                   match l return Forall QA l with
                   | [] => Forall_nil QA
                   | o :: r => @Forall_cons _ QA o r
                                 (match o return QA o with Some x => jv_ind2 x | None => I end) (go r)
                   end) l)
    | JObj l =>
        HObj' l ((fix go (l : list (list Z * jv)) : Forall QO l :=
                   match l return Forall QO l with
                   | [] => Forall_nil QO
                   | kv :: r => @Forall_cons _ QO kv r
                                  (match kv return QO kv with (k, x) => jv_ind2 x end) (go r)
                   end) l)
    end.
End jv_induction.

Lemma finish_proj : forall ys r, finish ys = Ok r -> proj_gv r = PArr (map proj_gv ys).
Proof.
  intros ys r H. unfold finish in H.
  destruct (run ys) as [state [[kind kk] ek]].
  destruct (negb (state =? 1) || (kind =? 20) || gty_eqb (last_type ys) TNil).
  - inversion H. reflexivity.
  - destruct (forallb (fun x => gty_eqb (type_of x) (last_type ys)) ys); [|discriminate].
    inversion H. reflexivity.
Qed.

(* EXPORT OF JSON-LIKE DATA IS STRUCTURALLY EQUAL TO THE DATA: whenever Export returns, the
   exported Go value has the same JSON-like content (numbers by value), to any depth *)
Theorem export_jsonlike : forall v r, jsonlike v = true -> export_m v = Ok r -> proj_gv r = proj_jv v.
Proof.
  induction v using jv_ind2; intros r HJ HE; simpl in HE; try (inversion HE; subst; reflexivity).
  - (* arrays *)
    match type of HE with bind ?g _ = _ => destruct g as [ys|] eqn:G end; [|discriminate].
    simpl in HE. rewrite (finish_proj ys r HE). simpl. f_equal.
    clear HE r. simpl in HJ. revert ys G.
    induction l as [|o rest IHl]; intros ys G.
    + inversion G. reflexivity.
    + inversion H as [|? ? Ho Hrest]; subst.
      simpl in HJ. apply andb_true_iff in HJ. destruct HJ as [HJo HJr].
      destruct o as [x|]; [|discriminate].
      destruct (export_m x) as [y|] eqn:Ex; [|discriminate].
      simpl in G.
      match type of G with bind ?g _ = _ => destruct g as [ys'|] eqn:G' end; [|discriminate].
      simpl in G. inversion G; subst. simpl. f_equal.
      * apply Ho; assumption.
      * apply IHl; [assumption | assumption | reflexivity].
  - (* objects *)
    match type of HE with bind ?g _ = _ => destruct g as [ys|] eqn:G end; [|discriminate].
    simpl in HE. inversion HE; subst. simpl. f_equal.
    clear HE. simpl in HJ. revert ys G.
    induction l as [|[k x] rest IHl]; intros ys G.
    + inversion G. reflexivity.
    + inversion H as [|? ? Ho Hrest]; subst. simpl in Ho.
      simpl in HJ. apply andb_true_iff in HJ. destruct HJ as [HJo HJr].
      assert (Hx : x <> JUndef) by (intro E; subst x; simpl in HJo; discriminate).
      assert (G2 : bind (export_m x) (fun y => bind ((fix go (l : list (list Z * jv)) : res (list (list Z * gv)) :=
               match l with
               | [] => Ok []
               | (k, JUndef) :: r => go r
               | (k, x) :: r => bind (export_m x) (fun y => bind (go r) (fun ys => Ok ((k, y) :: ys)))
               end) rest) (fun ys => Ok ((k, y) :: ys))) = Ok ys).
      { destruct x; try exact G. congruence. }
      clear G. destruct (export_m x) as [y|] eqn:Ex; [|discriminate].
      simpl in G2.
      match type of G2 with bind ?g _ = _ => destruct g as [ys'|] eqn:G' end; [|discriminate].
      simpl in G2. inversion G2; subst. simpl. f_equal.
      * f_equal. apply Ho; assumption.
      * apply IHl; [assumption | assumption | reflexivity].
Qed.
