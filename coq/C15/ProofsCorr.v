(* the binding store used by the history cases (Corr.v): a read sees the last write *)
From Coq Require Import ZArith Bool List.
From Otto Require Import C15.Model C15.Corr.
Import ListNotations.
Open Scope Z_scope.

Lemma read_after_write : forall st s v v' n g,
  hrun st [HSet s v n g; HGet s v' n] = [cv_of g].
Proof. intros. simpl. rewrite !Z.eqb_refl. reflexivity. Qed.

Lemma write_frames : forall st s n s' n' v v' g, (s, n) <> (s', n') ->
  hrun st [HSet s' v n' g; HGet s v' n] = hrun st [HGet s v' n].
Proof.
  intros. simpl. destruct (Z.eqb_spec s' s); destruct (Z.eqb_spec n' n); subst; simpl; try reflexivity.
  congruence.
Qed.

Lemma delete_then_read : forall st s v n,
  hrun st [HDel s n; HGet s v n] = [CVUndef].
Proof.
  intros. simpl. f_equal. induction st as [|[[s0 n0] c] r IH]; simpl; [reflexivity|].
  destruct ((s0 =? s) && (n0 =? n)) eqn:E; simpl; [assumption|]. rewrite E. assumption.
Qed.

(* ---------- Export on object graphs: total, cycles included ---------- *)
From Coq Require Import Lia.

Lemma existsb_eqb_in : forall i l, existsb (Nat.eqb i) l = true <-> In i l.
Proof.
  intros i l. rewrite existsb_exists. split.
  - intros (x & Hx & E). apply Nat.eqb_eq in E. subst. assumption.
  - intro H. exists i. split; [assumption | apply Nat.eqb_refl].
Qed.

(* the objects export is inside of are distinct objects of the heap, so there are at most length h of them *)
Lemma inside_bound : forall (h : heap) inside, NoDup inside -> (forall j, In j inside -> (j < length h)%nat) ->
  (length inside <= length h)%nat.
Proof.
  intros h inside Hnd Hb.
  rewrite <- (seq_length (length h) 0). apply NoDup_incl_length; [assumption|].
  intros j Hj. apply in_seq. specialize (Hb j Hj). lia.
Qed.

Lemma gexport_total_aux : forall (h : heap) fuel inside v,
  NoDup inside -> (forall j, In j inside -> (j < length h)%nat) ->
  (length h - length inside < fuel)%nat ->
  exists t, gexport fuel inside h v = Some t.
Proof.
  intros h fuel. induction fuel as [|f IH]; intros inside v Hnd Hb Hf; [lia|].
  destruct v as [n|i]; [eexists; reflexivity|].
  cbn [gexport]. destruct (existsb (Nat.eqb i) inside) eqn:E; [eexists; reflexivity|].
  assert (Hni : ~ In i inside).
  { intro Hin. apply existsb_eqb_in in Hin. congruence. }
  destruct (Nat.lt_ge_cases i (length h)) as [Hlt|Hge].
  - (* a real object: one more distinct object on the path *)
    assert (Hnd' : NoDup (i :: inside)) by (constructor; assumption).
    assert (Hb' : forall j, In j (i :: inside) -> (j < length h)%nat).
    { intros j [<-|Hj]; [assumption | apply Hb; assumption]. }
    pose proof (inside_bound h (i :: inside) Hnd' Hb') as Hlen. cbn [length] in Hlen.
    assert (Hf' : (length h - length (i :: inside) < f)%nat) by (cbn [length]; lia).
    generalize (nth i h []). intro props.
    induction props as [|[k x] r IHr]; [eexists; reflexivity|].
    destruct (IH (i :: inside) x Hnd' Hb' Hf') as [y Hy].
    destruct IHr as [t Ht].
    match type of Ht with option_map GNode ?g = _ => destruct g as [ys|] eqn:G end; [|discriminate].
    rewrite Hy. eexists. reflexivity.
  - rewrite nth_overflow by assumption. eexists. reflexivity.
Qed.

(* EXPORT RETURNS ON EVERY OBJECT GRAPH A SCRIPT CAN BUILD, with fuel (= Go stack depth) bounded by
   the number of objects *)
Theorem gexport_total : forall (h : heap) v, exists t, gexport (S (length h)) [] h v = Some t.
Proof.
  intros h v. apply gexport_total_aux; [constructor | intros j [] | cbn [length]; lia].
Qed.

(* var a = {}; a.a = a *)
Definition cyclic_heap : heap := [[([97], HRef 0)]].
Lemma export_cyclic_example : gexport 2 [] cyclic_heap (HRef 0) = Some (GNode [([97], GBack)]).
Proof. vm_compute. reflexivity. Qed.

(* an acyclic graph {a: {b: 1}, c: 2}: shared but not cyclic references are followed *)
Lemma export_acyclic_example :
  gexport 3 [] [[([97], HRef 1%nat); ([99], HNum 2)]; [([98], HNum 1)]] (HRef 0) =
  Some (GNode [([97], GNode [([98], GLeaf 1)]); ([99], GLeaf 2)]).
Proof. vm_compute. reflexivity. Qed.

(* var o = [1]; ({left: o, right: o}) : a shared object is not a cycle, both references export the full copy *)
Lemma export_shared_example :
  gexport 3 [] [[([108], HRef 1%nat); ([114], HRef 1%nat)]; [([48], HNum 1)]] (HRef 0) =
  Some (GNode [([108], GNode [([48], GLeaf 1)]); ([114], GNode [([48], GLeaf 1)])]).
Proof. vm_compute. reflexivity. Qed.
