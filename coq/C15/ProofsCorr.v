(* the binding store used by the history cases (Corr.v): a read sees the last write *)
From Coq Require Import ZArith Bool List.
From Otto Require Import C15.Model C15.Corr.
Import ListNotations.
Open Scope Z_scope.

Lemma read_after_write : forall st s v v' n g,
  hrun st [HSet s v n g; HGet s v' n] = [cv_of g].
Proof. intros. simpl. rewrite !Z.eqb_refl. reflexivity. Qed.

Lemma write_frames : forall st s n s' n' v v' g, (s, n) <> (s', n') ->
  hrun st [HSet s' v n' g; HGet s v' n] = hrun st [HGet s v' n].
Proof.
  intros. simpl. destruct (Z.eqb_spec s' s); destruct (Z.eqb_spec n' n); subst; simpl; try reflexivity.
  congruence.
Qed.

Lemma delete_then_read : forall st s v n,
  hrun st [HDel s n; HGet s v n] = [CVUndef].
Proof.
  intros. simpl. f_equal. induction st as [|[[s0 n0] c] r IH]; simpl; [reflexivity|].
  destruct ((s0 =? s) && (n0 =? n)) eqn:E; simpl; [assumption|]. rewrite E. assumption.
Qed.

(* var a = {}; a.a = a : no amount of fuel lets export finish *)
Definition cyclic_heap : heap := [[([97], HRef 0)]].
Lemma export_cyclic_diverges : forall fuel, gexport fuel cyclic_heap (HRef 0) = None.
Proof.
  induction fuel as [|f IH]; [reflexivity|].
  simpl. rewrite IH. reflexivity.
Qed.

(* an acyclic graph {a: {b: 1}, c: 2} is exported once the fuel covers its depth *)
Lemma export_acyclic_example :
  gexport 3 [[([97], HRef 1%nat); ([99], HNum 2)]; [([98], HNum 1)]] (HRef 0) =
  Some (GNode [([97], GNode [([98], GLeaf 1)]); ([99], GLeaf 2)]).
Proof. vm_compute. reflexivity. Qed.
