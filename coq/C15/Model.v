(* otto's Go <-> JavaScript value bridge for scalars (value.go toValue / export,
   value_number.go float64() / number(), value_string.go string(),
   value_boolean.go bool(), value.go MarshalJSON), transcribed with its
   deviations.  Integers are (kind, Z); doubles are bit patterns in Z
   (Common/Double.v); Go strings are lists of bytes.  int and uint are 64 bit
   wide (amd64, stated in the trusted base). *)
From Coq Require Import ZArith Bool List.
From Otto Require Import Common.Double.
Import ListNotations.
Open Scope Z_scope.

(* ---------- Go integer kinds ---------- *)
Inductive ikind := KInt | KInt8 | KInt16 | KInt32 | KInt64
                 | KUint | KUint8 | KUint16 | KUint32 | KUint64.

Definition is_signed (k : ikind) : bool :=
  match k with KInt | KInt8 | KInt16 | KInt32 | KInt64 => true | _ => false end.
Definition width (k : ikind) : Z :=
  match k with
  | KInt8 | KUint8 => 8 | KInt16 | KUint16 => 16 | KInt32 | KUint32 => 32 | _ => 64
  end.
Definition lo (k : ikind) : Z := if is_signed k then - 2 ^ (width k - 1) else 0.
Definition hi (k : ikind) : Z := if is_signed k then 2 ^ (width k - 1) - 1 else 2 ^ width k - 1.
Definition in_range (k : ikind) (n : Z) : Prop := lo k <= n <= hi k.
Definition in_rangeb (k : ikind) (n : Z) : bool := (lo k <=? n) && (n <=? hi k).

(* Go's conversion T(x) of an int64/uint64 x to the integer type T: keep the low bits *)
Definition wrap (k : ikind) (n : Z) : Z :=
  if is_signed k then (n + 2 ^ (width k - 1)) mod 2 ^ width k - 2 ^ (width k - 1)
  else n mod 2 ^ width k.

Definition ikind_eqb (a b : ikind) : bool :=
  match a, b with
  | KInt, KInt | KInt8, KInt8 | KInt16, KInt16 | KInt32, KInt32 | KInt64, KInt64
  | KUint, KUint | KUint8, KUint8 | KUint16, KUint16 | KUint32, KUint32 | KUint64, KUint64 => true
  | _, _ => false
  end.

(* ---------- float32 bit patterns, widened exactly to binary64 ---------- *)
Definition nan32_bits : Z := 0x7FC00000.
Definition widen32 (b : Z) : Z :=
  let s := b / 2 ^ 31 in
  let e := (b / 2 ^ 23) mod 2 ^ 8 in
  let m := b mod 2 ^ 23 in
  let sg := s * 2 ^ 63 in
  if e =? 255 then (if m =? 0 then sg + pinf_bits else nan_bits)
  else if e =? 0 then
    (if m =? 0 then sg
     else let k := Z.log2 m in                       (* subnormal: m * 2^-149 = 1.xxx * 2^(k-149) *)
          sg + (k - 149 + 1023) * 2 ^ 52 + (m * 2 ^ (52 - k) - 2 ^ 52))
  else sg + (e - 127 + 1023) * 2 ^ 52 + m * 2 ^ 29.

(* ---------- Go scalars and otto Values ---------- *)
Inductive gscalar :=
| GNil
| GBool (b : bool)
| GInt (k : ikind) (n : Z)
| GF32 (b : Z)              (* float32 bit pattern *)
| GF64 (b : Z)              (* float64 bit pattern *)
| GStr (s : list Z).        (* bytes *)

(* Value{kind, value}: the payload of a number is stored un-normalised *)
Inductive value :=
| VUndef
| VNull
| VBool (b : bool)
| VInt (k : ikind) (n : Z)
| VF32 (b : Z)
| VF64 (b : Z)
| VStr (s : list Z).

(* value.go toValue.  [refl = false]: the type switch on the built-in types.
   [refl = true]: the reflect.Value branch taken by named types (type T int16)
   and by pointers to scalars: integers are re-converted (int8(value.Int())),
   float32 is stored as a float32 payload (the type switch widens it). *)
Definition toValue (refl : bool) (g : gscalar) : value :=
  match g with
  | GNil => VUndef
  | GBool b => VBool b
  | GInt k n => if refl then VInt k (wrap k n) else VInt k n
  | GF32 b => if refl then VF32 b else VF64 (widen32 b)
  | GF64 b => VF64 b
  | GStr s => VStr s
  end.

(* Value.export *)
Definition export (v : value) : gscalar :=
  match v with
  | VUndef | VNull => GNil
  | VBool b => GBool b
  | VInt k n => GInt k n
  | VF32 b => GF32 b
  | VF64 b => GF64 b
  | VStr s => GStr s
  end.

(* a Go panic escaping the public API is an outcome of its own *)
Inductive res (A : Type) := Ok (a : A) | Panic.
Arguments Ok {A} a.
Arguments Panic {A}.

(* ---------- Value.float64() ---------- *)
Definition float_of_int (n : Z) : Z := encode_int_or_nan (round_to_double n).

Section WithStringNumber.
  (* parseNumber (strconv-based) is external: a parameter of the model; the
     correspondence run instantiates it with the ES5 9.3.1 reading of Spec.v *)
  Variable str_number : list Z -> Z.

  Definition to_float (v : value) : res Z :=
    match v with
    | VUndef => Ok nan_bits
    | VNull => Ok 0
    | VBool b => Ok (if b then float_of_int 1 else 0)
    | VInt _ n => Ok (float_of_int n)
    | VF32 b => Ok (widen32 b)             (* case float32: float64(value) *)
    | VF64 b => Ok b
    | VStr s => Ok (str_number s)
    end.

  (* ---------- Value.number().int64 (ToInteger) ---------- *)
  Definition max64 : Z := 2 ^ 63 - 1.
  Definition min64 : Z := - 2 ^ 63.
  Definition sat64 (v : Z) : Z :=
    if 2 ^ 63 <=? v then max64 else if v <=? - 2 ^ 63 then min64 else v.

  (* the float path of number(): 0 for NaN and zeros, saturation at +-2^63
     (float >= floatMaxInt64, float <= floatMinInt64), else int64(float) *)
  Definition int64_of_bits (b : Z) : Z :=
    match decode b with
    | DNaN => 0
    | DInf neg => if neg then min64 else max64
    | DFin neg m e => let t := trunc_mag m e in sat64 (if neg then - t else t)
    end.

  (* the kinds number() reads directly; int32, uint and uint64 go through float64() *)
  Definition number_direct (k : ikind) : bool :=
    match k with
    | KInt8 | KInt16 | KUint8 | KUint16 | KUint32 | KInt | KInt64 => true
    | KInt32 | KUint | KUint64 => false
    end.

  Definition to_integer (v : value) : res Z :=
    match v with
    | VInt k n => if number_direct k then Ok n else Ok (sat64 (round_to_double n))
    | _ => match to_float v with Ok b => Ok (int64_of_bits b) | Panic => Panic end
    end.
End WithStringNumber.

(* ---------- Value.bool() ---------- *)
Definition is_nan (b : Z) : bool := match decode b with DNaN => true | _ => false end.
Definition is_zero (b : Z) : bool := (b =? 0) || (b =? nzero_bits).
Definition is_zero32 (b : Z) : bool := (b =? 0) || (b =? 2 ^ 31).

Definition to_boolean (v : value) : bool :=
  match v with
  | VUndef | VNull => false
  | VBool b => b
  | VInt _ n => negb (n =? 0)
  | VF32 b => let d := widen32 b in negb (is_nan d || is_zero d)   (* value != 0 && value == value *)
  | VF64 b => negb (is_nan b || is_zero b)
  | VStr s => negb (match s with [] => true | _ => false end)
  end.

(* ---------- Value.string() ---------- *)
Fixpoint digits_fuel (fuel : nat) (n : Z) (acc : list Z) : list Z :=
  match fuel with
  | O => acc
  | S f => if n <? 10 then (48 + n) :: acc else digits_fuel f (n / 10) ((48 + n mod 10) :: acc)
  end.
(* strconv.FormatInt / FormatUint base 10 *)
Definition decimal (n : Z) : list Z :=
  if n <? 0 then 45 :: digits_fuel 400 (- n) [] else digits_fuel 400 n [].

Definition str_undefined : list Z := [117;110;100;101;102;105;110;101;100].
Definition str_null : list Z := [110;117;108;108].
Definition str_true : list Z := [116;114;117;101].
Definition str_false : list Z := [102;97;108;115;101].
Definition str_NaN : list Z := [78;97;78].
Definition str_Infinity : list Z := [73;110;102;105;110;105;116;121].

Section WithFloatString.
  (* floatToString for a finite non-zero double is strconv.FormatFloat: external *)
  Variable float_string : Z -> list Z.

  Definition string_of_bits (b : Z) : list Z :=
    if is_zero b then [48]                  (* "Take care not to return -0" *)
    else match decode b with
         | DNaN => str_NaN
         | DInf neg => if neg then 45 :: str_Infinity else str_Infinity
         | DFin _ _ _ => float_string b
         end.

  Definition to_string (v : value) : list Z :=
    match v with
    | VUndef => str_undefined
    | VNull => str_null
    | VBool b => if b then str_true else str_false
    | VInt _ n => decimal n                 (* the exact integer, also beyond 2^53 *)
    | VF32 b => if is_zero32 b then [48] else string_of_bits (widen32 b)   (* shortest float32 digits: not compared *)
    | VF64 b => string_of_bits b
    | VStr s => s
    end.

  (* ---------- Value.MarshalJSON: json.Marshal(v.value) for numbers and booleans ---------- *)
  (* None = not modelled (float32 payload) *)
  Definition marshal_json (json_string : list Z -> list Z) (v : value) : option (list Z) :=
    match v with
    | VUndef | VNull => Some str_null
    | VBool b => Some (if b then str_true else str_false)
    | VInt _ n => Some (decimal n)
    | VF32 b => None                        (* float32 payload: Go prints float32 digits; not modelled *)
    | VF64 b => match decode b with
                | DNaN | DInf _ => Some str_null   (* as JSON.stringify *)
                | DFin _ _ _ => if b =? nzero_bits then Some [45; 48] else Some (string_of_bits b)
                end
    | VStr s => Some (json_string s)
    end.
End WithFloatString.

(* ---------- predicates of value.go ---------- *)
(* typeof enumeration shared with the harness:
   0 undefined, 1 object (null), 2 boolean, 3 number, 4 string, 5 object, 6 function *)
Definition typeof (v : value) : Z :=
  match v with
  | VUndef => 0 | VNull => 1 | VBool _ => 2 | VInt _ _ | VF32 _ | VF64 _ => 3 | VStr _ => 4
  end.

Definition is_undefined (v : value) := match v with VUndef => true | _ => false end.
Definition is_null (v : value) := match v with VNull => true | _ => false end.
Definition is_boolean (v : value) := match v with VBool _ => true | _ => false end.
Definition is_number (v : value) := match v with VInt _ _ | VF32 _ | VF64 _ => true | _ => false end.
Definition is_string (v : value) := match v with VStr _ => true | _ => false end.

(* Value.IsNaN: type switch first (float32 handled there), then float64() *)
Definition value_is_nan (str_number : list Z -> Z) (v : value) : bool :=
  match v with
  | VF32 b => let e := (b / 2 ^ 23) mod 2 ^ 8 in (e =? 255) && negb (b mod 2 ^ 23 =? 0)
  | VInt _ _ => false
  | _ => match to_float str_number v with Ok b => is_nan b | Panic => false end
  end.

(* ---------- strictEqualityComparison / sameValue on numbers ---------- *)
Definition dbl_eq (a b : Z) : bool :=          (* IEEE == on bit patterns *)
  if is_nan a || is_nan b then false
  else if is_zero a && is_zero b then true else a =? b.
