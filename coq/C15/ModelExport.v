(* Value.export on JavaScript arrays and objects (value.go export, the
   valueObject branch): JSON-like script data becomes nested Go slices and
   maps; an array becomes a typed slice []T when the loop over its elements
   ends in state 1 (every element has the kind triple and the type of the
   first), else []interface{}.  Transcribed with its deviation: holes are
   skipped.  (The Set of the elements into the typed slice can no longer fail:
   ProofsExport.finish_total.) *)
From Coq Require Import ZArith Bool List.
From Otto Require Import Common.Double C15.Model.
Import ListNotations.
Open Scope Z_scope.

(* script data: numbers carry the Go payload otto's evaluator gives them
   (integer literal: int64; fraction, exponent, unary minus: float64;
   n|0: int32; n>>>0: uint32; "..".length: int) *)
Inductive jv :=
| JUndef
| JNull
| JBool (b : bool)
| JNumI (k : ikind) (n : Z)
| JNumF (b : Z)
| JStr (s : list Z)
| JArr (l : list (option jv))          (* None = hole *)
| JObj (l : list (list Z * jv)).       (* own enumerable properties, keys ascending *)

(* Go types that Export produces *)
Inductive gty :=
| TNil                                 (* reflect.TypeOf(nil) == nil *)
| TBool
| TInt (k : ikind)
| TF64
| TStr
| TSlice (e : gty)
| TIface                               (* interface{} : only as an element type *)
| TMap.                                (* map[string]interface{} *)

Inductive gv :=
| XNil
| XBool (b : bool)
| XInt (k : ikind) (n : Z)
| XF64 (b : Z)
| XStr (s : list Z)
| XSlice (e : gty) (l : list gv)       (* XSlice TIface l = []interface{}{...} *)
| XMap (l : list (list Z * gv))        (* keys ascending (the harness sorts; Go map order is not observable) *)
| XOther.                              (* any other Go value: never produced by the model *)

Fixpoint gty_eqb (a b : gty) : bool :=
  match a, b with
  | TNil, TNil | TBool, TBool | TF64, TF64 | TStr, TStr | TIface, TIface | TMap, TMap => true
  | TInt k, TInt k' => ikind_eqb k k'
  | TSlice e, TSlice e' => gty_eqb e e'
  | _, _ => false
  end.

Definition type_of (x : gv) : gty :=
  match x with
  | XNil => TNil
  | XBool _ => TBool
  | XInt k _ => TInt k
  | XF64 _ => TF64
  | XStr _ => TStr
  | XSlice e _ => TSlice e
  | XMap _ => TMap
  | XOther => TIface
  end.

(* reflect.Kind numbering *)
Definition ikind_code (k : ikind) : Z :=
  match k with
  | KInt => 2 | KInt8 => 3 | KInt16 => 4 | KInt32 => 5 | KInt64 => 6
  | KUint => 7 | KUint8 => 8 | KUint16 => 9 | KUint32 => 10 | KUint64 => 11
  end.
Definition kind_of (t : gty) : Z :=
  match t with
  | TNil => 0 | TBool => 1 | TInt k => ikind_code k | TF64 => 14 | TStr => 24
  | TSlice _ => 23 | TIface => 20 | TMap => 21
  end.
Definition triple : Type := (Z * Z * Z)%type.
(* k = t.Kind(); kk = t.Key().Kind() for maps; ek = t.Elem().Kind() for maps and slices *)
Definition triple_of (t : gty) : triple :=
  match t with
  | TSlice e => (23, 0, kind_of e)
  | TMap => (21, 24, 20)
  | _ => (kind_of t, 0, 0)
  end.
Definition triple_eqb (a b : triple) : bool :=
  let '(a1, a2, a3) := a in let '(b1, b2, b3) := b in (a1 =? b1) && (a2 =? b2) && (a3 =? b3).

(* the loop: state 0 nothing seen, 1 one type seen (same kind triple AND same type as the first
   element), 2 mixed *)
Definition st : Type := (Z * triple * gty)%type.
Definition st0 : st := (0, (0, 0, 0), TNil).
Definition step (s : st) (x : gv) : st :=
  let '(state, cur, first) := s in
  let t := type_of x in
  let tr := triple_of t in
  if state =? 0 then (1, tr, t)
  else if (state =? 1) && negb (triple_eqb cur tr && gty_eqb first t) then (2, cur, first)
  else s.
Definition run (l : list gv) : st := fold_left step l st0.

Definition last_type (l : list gv) : gty := type_of (last l XNil).

(* after the loop; the Set of every element into the []T is reflect's assignability check *)
Definition finish (l : list gv) : res gv :=
  let '(state, (kind, _, _), _) := run l in
  let t := last_type l in
  if negb (state =? 1) || (kind =? 20) || gty_eqb t TNil then Ok (XSlice TIface l)
  else if forallb (fun x => gty_eqb (type_of x) t) l      (* val.Index(i).Set(reflect.ValueOf(v)) *)
       then Ok (XSlice t l) else Panic.

Definition bind {A B} (r : res A) (f : A -> res B) : res B :=
  match r with Ok a => f a | Panic => Panic end.

Fixpoint export_m (v : jv) : res gv :=
  match v with
  | JUndef | JNull => Ok XNil
  | JBool b => Ok (XBool b)
  | JNumI k n => Ok (XInt k n)
  | JNumF b => Ok (XF64 b)
  | JStr s => Ok (XStr s)
  | JArr l =>
      bind ((fix go (l : list (option jv)) : res (list gv) :=
               match l with
               | [] => Ok []
               | None :: r => go r                              (* !obj.hasProperty(name): continue *)
               | Some x :: r => bind (export_m x) (fun y => bind (go r) (fun ys => Ok (y :: ys)))
               end) l) finish
  | JObj l =>
      bind ((fix go (l : list (list Z * jv)) : res (list (list Z * gv)) :=
               match l with
               | [] => Ok []
               | (k, JUndef) :: r => go r                       (* if value.IsDefined() *)
               | (k, x) :: r => bind (export_m x) (fun y => bind (go r) (fun ys => Ok ((k, y) :: ys)))
               end) l) (fun ys => Ok (XMap ys))
  end.

(* ---------- what Export is required to do ----------
   the same structure, index for index (a hole reads as undefined, hence nil),
   []T exactly when the array is not empty and all elements export to the same
   Go type T, []interface{} otherwise; no panic *)
Definition all_same_type (l : list gv) : option gty :=
  match l with
  | [] => None
  | x :: r => let t := type_of x in
              if negb (gty_eqb t TNil) && forallb (fun y => gty_eqb (type_of y) t) r then Some t else None
  end.
Definition finish_spec (l : list gv) : gv :=
  match all_same_type l with Some t => XSlice t l | None => XSlice TIface l end.

Fixpoint export_s (v : jv) : gv :=
  match v with
  | JUndef | JNull => XNil
  | JBool b => XBool b
  | JNumI k n => XInt k n
  | JNumF b => XF64 b
  | JStr s => XStr s
  | JArr l => finish_spec (map (fun o => match o with None => XNil | Some x => export_s x end) l)
  | JObj l =>
      XMap ((fix go (l : list (list Z * jv)) : list (list Z * gv) :=
               match l with
               | [] => []
               | (k, JUndef) :: r => go r
               | (k, x) :: r => (k, export_s x) :: go r
               end) l)
  end.

(* ---------- array histories: the array is built by a script, step by step ---------- *)
Inductive aop :=
| APush (v : jv)
| APop
| ASetLen (n : Z)
| ADelete (i : Z)
| ASetIdx (i : Z) (v : jv).

Fixpoint set_nth (l : list (option jv)) (i : nat) (v : option jv) : list (option jv) :=
  match i, l with
  | O, [] => [v]
  | O, _ :: r => v :: r
  | S i', [] => None :: set_nth [] i' v
  | S i', x :: r => x :: set_nth r i' v
  end.
Definition apply_op (l : list (option jv)) (o : aop) : list (option jv) :=
  match o with
  | APush v => l ++ [Some v]
  | APop => removelast l
  | ASetLen n => let k := Z.to_nat n in
                 if (k <=? length l)%nat then firstn k l else l ++ repeat None (k - length l)
  | ADelete i => if (Z.to_nat i <? length l)%nat then set_nth l (Z.to_nat i) None else l
  | ASetIdx i v => set_nth l (Z.to_nat i) (Some v)
  end.
Definition apply_ops (l : list (option jv)) (ops : list aop) : list (option jv) := fold_left apply_op ops l.

(* ---------- the JSON-like projection: what a script can tell about the data ---------- *)
Inductive jt :=
| PNull | PBool (b : bool) | PNum (bits : Z) | PStr (s : list Z)
| PArr (l : list jt) | PObj (l : list (list Z * jt)).

Fixpoint proj_gv (x : gv) : jt :=
  match x with
  | XNil | XOther => PNull
  | XBool b => PBool b
  | XInt _ n => PNum (float_of_int n)
  | XF64 b => PNum b
  | XStr s => PStr s
  | XSlice _ l => PArr (map proj_gv l)
  | XMap l => PObj (map (fun kv => (fst kv, proj_gv (snd kv))) l)
  end.

(* JSON-like data: no holes, no undefined (neither as element nor as property value) *)
Fixpoint proj_jv (v : jv) : jt :=
  match v with
  | JUndef | JNull => PNull
  | JBool b => PBool b
  | JNumI _ n => PNum (float_of_int n)
  | JNumF b => PNum b
  | JStr s => PStr s
  | JArr l => PArr (map (fun o => match o with None => PNull | Some x => proj_jv x end) l)
  | JObj l => PObj (map (fun kv => (fst kv, proj_jv (snd kv))) l)
  end.

Fixpoint jsonlike (v : jv) : bool :=
  match v with
  | JUndef => false
  | JArr l => forallb (fun o => match o with None => false | Some x => jsonlike x end) l
  | JObj l => forallb (fun kv => jsonlike (snd kv)) l
  | _ => true
  end.
