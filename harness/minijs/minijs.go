// Package minijs generates programs of the MiniJS fragment modelled in
// coq/C01 (Sem.v statements over Lang.v expressions) and renders each both
// as JavaScript text and as a Coq term.  Every loop is bounded by a
// dedicated counter in its test, so all programs terminate.
package minijs

import (
	"fmt"
	"math/rand"
	"strings"
)

// ---------- expressions ----------

type Expr interface {
	JS() string
	Coq() string
}

type Lit struct{ Kind, N int } // 0 undefined, 1 number N, 2 true, 3 false
type Var struct{ X int }
type Assign struct {
	X int
	E Expr
}
type Bin struct {
	Op   int // 0 + 1 - 2 * 3 < 4 ===
	A, B Expr
}
type Not struct{ E Expr }
type Log struct{ E Expr }
type Cond struct{ C, A, B Expr }
type And struct{ A, B Expr }
type Or struct{ A, B Expr }
type PostInc struct{ X int }

var Declared = []int{0, 1, 2, 3, 10, 11, 12, 13, 14, 15}

func VarName(x int) string {
	if x >= 4 && x < 10 {
		return fmt.Sprintf("u%d", x) // never declared
	}
	return fmt.Sprintf("v%d", x)
}

func (e Lit) JS() string {
	switch e.Kind {
	case 0:
		return "undefined"
	case 1:
		if e.N < 0 {
			return fmt.Sprintf("(%d)", e.N)
		}
		return fmt.Sprintf("%d", e.N)
	case 2:
		return "true"
	}
	return "false"
}
func (e Lit) Coq() string {
	switch e.Kind {
	case 0:
		return "(ELit VUndef)"
	case 1:
		if e.N < 0 {
			return fmt.Sprintf("(ELit (VNum (%d)))", e.N)
		}
		return fmt.Sprintf("(ELit (VNum %d))", e.N)
	case 2:
		return "(ELit (VBool true))"
	}
	return "(ELit (VBool false))"
}
func (e Var) JS() string     { return VarName(e.X) }
func (e Var) Coq() string    { return fmt.Sprintf("(EVar %d%%nat)", e.X) }
func (e Assign) JS() string  { return "(" + VarName(e.X) + " = " + e.E.JS() + ")" }
func (e Assign) Coq() string { return fmt.Sprintf("(EAssign %d%%nat %s)", e.X, e.E.Coq()) }

var binJS = []string{"+", "-", "*", "<", "==="}
var binCoq = []string{"BAdd", "BSub", "BMul", "BLt", "BSeq"}

func (e Bin) JS() string      { return "(" + e.A.JS() + " " + binJS[e.Op] + " " + e.B.JS() + ")" }
func (e Bin) Coq() string     { return fmt.Sprintf("(EBin %s %s %s)", binCoq[e.Op], e.A.Coq(), e.B.Coq()) }
func (e Not) JS() string      { return "(!" + e.E.JS() + ")" }
func (e Not) Coq() string     { return "(ENot " + e.E.Coq() + ")" }
func (e Log) JS() string      { return "log(" + e.E.JS() + ")" }
func (e Log) Coq() string     { return "(ELog " + e.E.Coq() + ")" }
func (e Cond) JS() string     { return "(" + e.C.JS() + " ? " + e.A.JS() + " : " + e.B.JS() + ")" }
func (e Cond) Coq() string    { return fmt.Sprintf("(ECond %s %s %s)", e.C.Coq(), e.A.Coq(), e.B.Coq()) }
func (e And) JS() string      { return "(" + e.A.JS() + " && " + e.B.JS() + ")" }
func (e And) Coq() string     { return fmt.Sprintf("(EAnd %s %s)", e.A.Coq(), e.B.Coq()) }
func (e Or) JS() string       { return "(" + e.A.JS() + " || " + e.B.JS() + ")" }
func (e Or) Coq() string      { return fmt.Sprintf("(EOr %s %s)", e.A.Coq(), e.B.Coq()) }
func (e PostInc) JS() string  { return "(" + VarName(e.X) + "++)" }
func (e PostInc) Coq() string { return fmt.Sprintf("(EPostInc %d%%nat)", e.X) }

// ---------- statements ----------

type Stmt interface {
	JS(ind string) string
	Coq() string
}

type SExpr struct{ E Expr }
type SBlock struct{ L []Stmt }
type SIf struct {
	E    Expr
	A, B Stmt // B may be nil
}
type SWhile struct {
	E    Expr
	Body []Stmt
}
type SDoWhile struct {
	Body []Stmt
	E    Expr
}
type SFor struct {
	Init, Test, Upd Expr // each may be nil
	Body            []Stmt
}
type Clause struct {
	Test Expr // nil = default
	Body []Stmt
}
type SSwitch struct {
	E     Expr
	Cases []Clause
}
type SForIn struct {
	X    int // the loop variable (a declared variable)
	Src  Expr
	Body []Stmt
}
type SBreak struct{ L int }
type SContinue struct{ L int }
type SReturn struct{ E Expr }
type SLabelled struct {
	L int
	S Stmt
}
type SThrow struct{ E Expr }
type STry struct {
	B, C, F    []Stmt
	HasC, HasF bool
}

func listJS(l []Stmt, ind string) string {
	var b strings.Builder
	b.WriteString("{\n")
	for _, s := range l {
		b.WriteString(s.JS(ind + "  "))
	}
	b.WriteString(ind + "}")
	return b.String()
}
func listCoq(l []Stmt) string {
	parts := make([]string, len(l))
	for i, s := range l {
		parts[i] = s.Coq()
	}
	return "[" + strings.Join(parts, "; ") + "]"
}
func labJS(l int) string {
	if l == 0 {
		return ""
	}
	return fmt.Sprintf(" L%d", l)
}

func (s SExpr) JS(ind string) string  { return ind + s.E.JS() + ";\n" }
func (s SExpr) Coq() string           { return "(SExpr " + s.E.Coq() + ")" }
func (s SBlock) JS(ind string) string { return ind + listJS(s.L, ind) + "\n" }
func (s SBlock) Coq() string          { return "(SBlock " + listCoq(s.L) + ")" }
func (s SIf) JS(ind string) string {
	r := ind + "if (" + s.E.JS() + ")\n" + s.A.JS(ind+"  ")
	if s.B != nil {
		r += ind + "else\n" + s.B.JS(ind+"  ")
	}
	return r
}
func (s SIf) Coq() string {
	if s.B == nil {
		return fmt.Sprintf("(SIf %s %s None)", s.E.Coq(), s.A.Coq())
	}
	return fmt.Sprintf("(SIf %s %s (Some %s))", s.E.Coq(), s.A.Coq(), s.B.Coq())
}
func (s SWhile) JS(ind string) string {
	return ind + "while (" + s.E.JS() + ") " + listJS(s.Body, ind) + "\n"
}
func (s SWhile) Coq() string             { return fmt.Sprintf("(SWhile %s %s)", s.E.Coq(), listCoq(s.Body)) }
func (s SDoWhile) JS(ind string) string {
	return ind + "do " + listJS(s.Body, ind) + " while (" + s.E.JS() + ");\n"
}
func (s SDoWhile) Coq() string { return fmt.Sprintf("(SDoWhile %s %s)", listCoq(s.Body), s.E.Coq()) }
func optJS(e Expr) string {
	if e == nil {
		return ""
	}
	return e.JS()
}
func optCoq(e Expr) string {
	if e == nil {
		return "None"
	}
	return "(Some " + e.Coq() + ")"
}
func (s SFor) JS(ind string) string {
	return ind + "for (" + optJS(s.Init) + "; " + optJS(s.Test) + "; " + optJS(s.Upd) + ") " + listJS(s.Body, ind) + "\n"
}
func (s SFor) Coq() string {
	return fmt.Sprintf("(SFor %s %s %s %s)", optCoq(s.Init), optCoq(s.Test), optCoq(s.Upd), listCoq(s.Body))
}
func (s SSwitch) JS(ind string) string {
	var b strings.Builder
	b.WriteString(ind + "switch (" + s.E.JS() + ") {\n")
	for _, c := range s.Cases {
		if c.Test == nil {
			b.WriteString(ind + "default:\n")
		} else {
			b.WriteString(ind + "case " + c.Test.JS() + ":\n")
		}
		for _, x := range c.Body {
			b.WriteString(x.JS(ind + "  "))
		}
	}
	b.WriteString(ind + "}\n")
	return b.String()
}
func (s SSwitch) Coq() string {
	parts := make([]string, len(s.Cases))
	for i, c := range s.Cases {
		parts[i] = "(" + optCoq(c.Test) + ", " + listCoq(c.Body) + ")"
	}
	return fmt.Sprintf("(SSwitch %s [%s])", s.E.Coq(), strings.Join(parts, "; "))
}
func (s SForIn) JS(ind string) string {
	return ind + "for (" + VarName(s.X) + " in " + s.Src.JS() + ") " + listJS(s.Body, ind) + "\n"
}
func (s SForIn) Coq() string {
	return fmt.Sprintf("(SForIn (EVar %d%%nat) %s %s)", s.X, s.Src.Coq(), listCoq(s.Body))
}
func (s SBreak) JS(ind string) string    { return ind + "break" + labJS(s.L) + ";\n" }
func (s SBreak) Coq() string             { return fmt.Sprintf("(SBreak %d%%nat)", s.L) }
func (s SContinue) JS(ind string) string { return ind + "continue" + labJS(s.L) + ";\n" }
func (s SContinue) Coq() string          { return fmt.Sprintf("(SContinue %d%%nat)", s.L) }
func (s SReturn) JS(ind string) string   { return ind + "return " + s.E.JS() + ";\n" }
func (s SReturn) Coq() string            { return "(SReturn " + s.E.Coq() + ")" }
func (s SLabelled) JS(ind string) string {
	return ind + fmt.Sprintf("L%d:\n", s.L) + s.S.JS(ind)
}
func (s SLabelled) Coq() string       { return fmt.Sprintf("(SLabelled %d%%nat %s)", s.L, s.S.Coq()) }
func (s SThrow) JS(ind string) string { return ind + "throw " + s.E.JS() + ";\n" }
func (s SThrow) Coq() string          { return "(SThrow " + s.E.Coq() + ")" }
func (s STry) JS(ind string) string {
	r := ind + "try " + listJS(s.B, ind)
	if s.HasC {
		r += " catch (ex) " + listJS(s.C, ind)
	}
	if s.HasF {
		r += " finally " + listJS(s.F, ind)
	}
	return r + "\n"
}
func (s STry) Coq() string {
	c, f := "None", "None"
	if s.HasC {
		c = "(Some " + listCoq(s.C) + ")"
	}
	if s.HasF {
		f = "(Some " + listCoq(s.F) + ")"
	}
	return fmt.Sprintf("(STry %s %s %s)", listCoq(s.B), c, f)
}

// ---------- generator ----------

type lab struct {
	id   int
	loop bool // labels an iteration statement directly (continue allowed)
}

type Gen struct {
	R        *rand.Rand
	Budget   int
	InFunc   bool
	nextLab  int
	Stats    map[string]int
	NonWfPct int // percentage of labelled statements whose body otto mishandles
	swDepth  int // enclosing switch statements (an unlabelled break is legal there)
}

func NewGen(r *rand.Rand, budget int, inFunc bool) *Gen {
	return &Gen{R: r, Budget: budget, InFunc: inFunc, nextLab: 1, Stats: map[string]int{}, NonWfPct: 6}
}

func (g *Gen) expr(d int) Expr {
	r := g.R
	if d <= 0 || r.Intn(10) < 3 {
		switch r.Intn(10) {
		case 0:
			return Lit{Kind: 0}
		case 1:
			return Lit{Kind: 2 + r.Intn(2)}
		case 2, 3, 4:
			return Lit{Kind: 1, N: r.Intn(7)} // non-negative: a negative literal is a unary expression in JS
		case 5:
			if r.Intn(8) == 0 {
				return Var{X: 4 + r.Intn(2)} // possibly unresolvable
			}
			fallthrough
		default:
			return Var{X: r.Intn(4)}
		}
	}
	switch r.Intn(12) {
	case 0, 1:
		return Assign{X: g.avar(), E: g.expr(d - 1)}
	case 2, 3, 4:
		return Bin{Op: r.Intn(5), A: g.expr(d - 1), B: g.expr(d - 1)}
	case 5:
		return Not{E: g.expr(d - 1)}
	case 6, 7:
		return Log{E: g.expr(d - 1)}
	case 8:
		return Cond{C: g.expr(d - 1), A: g.expr(d - 1), B: g.expr(d - 1)}
	case 9:
		return And{A: g.expr(d - 1), B: g.expr(d - 1)}
	case 10:
		return Or{A: g.expr(d - 1), B: g.expr(d - 1)}
	default:
		return PostInc{X: r.Intn(4)}
	}
}

func (g *Gen) avar() int {
	if g.R.Intn(12) == 0 {
		return 4 + g.R.Intn(2) // assignment creates a global
	}
	return g.R.Intn(4)
}

func (g *Gen) list(n int, labs []lab, loopDepth int, inLoop bool) []Stmt {
	var out []Stmt
	for i := 0; i < n && g.Budget > 0; i++ {
		out = append(out, g.stmt(labs, loopDepth, inLoop)...)
	}
	return out
}

// stmt returns one statement (a counter reset plus the loop for `while`).
func (g *Gen) stmt(labs []lab, loopDepth int, inLoop bool) []Stmt {
	r := g.R
	g.Budget--
	if g.Budget <= 0 {
		g.Stats["expr"]++
		return []Stmt{SExpr{E: Log{E: g.expr(1)}}}
	}
	k := r.Intn(100)
	switch {
	case k < 30:
		g.Stats["expr"]++
		e := g.expr(3)
		if r.Intn(2) == 0 {
			e = Log{E: e}
		}
		return []Stmt{SExpr{E: e}}
	case k < 38:
		g.Stats["block"]++
		return []Stmt{SBlock{L: g.list(1+r.Intn(3), labs, loopDepth, inLoop)}}
	case k < 52:
		g.Stats["if"]++
		s := SIf{E: g.expr(2), A: g.one(labs, loopDepth, inLoop)}
		if r.Intn(2) == 0 {
			s.B = g.one(labs, loopDepth, inLoop)
			if endsWithOpenIf(s.A) { // avoid the dangling-else reading
				s.A = SBlock{L: []Stmt{s.A}}
			}
		}
		return []Stmt{s}
	case k < 60:
		return g.while(labs, loopDepth, 0)
	case k < 63:
		return []Stmt{g.switchStmt(labs, loopDepth, inLoop)}
	case k < 73:
		// break / continue
		var cands []Stmt
		if inLoop {
			cands = append(cands, SBreak{L: 0}, SContinue{L: 0})
		} else if g.swDepth > 0 {
			cands = append(cands, SBreak{L: 0})
		}
		for _, l := range labs {
			cands = append(cands, SBreak{L: l.id})
			if l.loop {
				cands = append(cands, SContinue{L: l.id})
			}
		}
		if len(cands) == 0 {
			g.Stats["expr"]++
			return []Stmt{SExpr{E: Log{E: g.expr(2)}}}
		}
		g.Stats["jump"]++
		return []Stmt{cands[r.Intn(len(cands))]}
	case k < 77:
		if g.InFunc {
			g.Stats["return"]++
			return []Stmt{SReturn{E: g.expr(2)}}
		}
		g.Stats["expr"]++
		return []Stmt{SExpr{E: Log{E: g.expr(2)}}}
	case k < 86:
		return g.labelled(labs, loopDepth, inLoop)
	case k < 90:
		g.Stats["throw"]++
		return []Stmt{SThrow{E: g.expr(1)}}
	default:
		g.Stats["try"]++
		t := STry{B: g.list(1+r.Intn(3), labs, loopDepth, inLoop)}
		switch r.Intn(3) {
		case 0:
			t.HasC = true
		case 1:
			t.HasF = true
		default:
			t.HasC, t.HasF = true, true
		}
		if t.HasC {
			t.C = g.list(1+r.Intn(2), labs, loopDepth, inLoop)
		}
		if t.HasF {
			t.F = g.list(1+r.Intn(2), labs, loopDepth, inLoop)
		}
		return []Stmt{t}
	}
}

func endsWithOpenIf(s Stmt) bool {
	switch t := s.(type) {
	case SIf:
		if t.B == nil {
			return true
		}
		return endsWithOpenIf(t.B)
	case SLabelled:
		return endsWithOpenIf(t.S)
	}
	return false
}

func (g *Gen) one(labs []lab, loopDepth int, inLoop bool) Stmt {
	l := g.stmt(labs, loopDepth, inLoop)
	if len(l) == 1 {
		return l[0]
	}
	return SBlock{L: l}
}

func (g *Gen) while(labs []lab, loopDepth int, label int) []Stmt {
	g.Stats["while"]++
	if loopDepth >= 5 {
		return []Stmt{SExpr{E: Log{E: g.expr(1)}}}
	}
	c := 10 + loopDepth
	bound := 1 + g.R.Intn(3)
	var test Expr = Bin{Op: 3, A: PostInc{X: c}, B: Lit{Kind: 1, N: bound}}
	if g.R.Intn(4) == 0 {
		test = And{A: test, B: g.expr(1)}
	}
	inner := labs
	if label != 0 {
		inner = append(append([]lab{}, labs...), lab{label, true})
	}
	body := g.list(1+g.R.Intn(3), inner, loopDepth+1, true)
	reset := Assign{X: c, E: Lit{Kind: 1, N: 0}}
	pre := []Stmt{SExpr{E: reset}}
	var w Stmt
	switch k := g.R.Intn(11); {
	case k == 10:
		// for-in over a value of this language (a primitive: nothing to enumerate): the subject is evaluated once,
		// the body never runs, the statement owns its labels like the other loops
		g.Stats["forin"]++
		w = SForIn{X: c, Src: g.expr(2), Body: body}
	case k < 4:
		w = SWhile{E: test, Body: body}
	case k < 7:
		g.Stats["dowhile"]++
		w = SDoWhile{Body: body, E: test}
	default:
		g.Stats["for"]++
		f := SFor{Test: test, Body: body}
		if g.R.Intn(3) != 0 { // the counter reset as the initialiser
			f.Init = reset
			pre = nil
		}
		switch g.R.Intn(3) {
		case 0:
			f.Upd = Log{E: g.expr(1)}
		case 1:
			f.Upd = g.expr(2)
		}
		if g.R.Intn(8) == 0 { // otto polls once more per iteration when the body is empty
			g.Stats["for-empty-body"]++
			f.Body = nil
		}
		w = f
	}
	if label != 0 {
		w = SLabelled{L: label, S: w}
	}
	return append(pre, w)
}

// switchStmt: 1-4 clauses, at most one default at any position, bodies that may be empty (fall through),
// case expressions with visible side effects now and then
func (g *Gen) switchStmt(labs []lab, loopDepth int, inLoop bool) Stmt {
	g.Stats["switch"]++
	r := g.R
	var disc Expr
	switch r.Intn(3) {
	case 0:
		disc = Lit{Kind: 1, N: r.Intn(3)}
	case 1:
		disc = Var{X: g.avar()}
	default:
		disc = g.expr(1)
	}
	n := 1 + r.Intn(4)
	def := -1
	if r.Intn(3) != 0 {
		def = r.Intn(n)
	}
	sw := SSwitch{E: disc}
	g.swDepth++
	for i := 0; i < n; i++ {
		c := Clause{}
		if i != def {
			switch r.Intn(4) {
			case 0:
				c.Test = Log{E: Lit{Kind: 1, N: r.Intn(3)}}
			case 1:
				c.Test = g.expr(1)
			default:
				c.Test = Lit{Kind: 1, N: r.Intn(3)}
			}
		}
		if r.Intn(4) != 0 {
			c.Body = g.list(1+r.Intn(2), labs, loopDepth, inLoop)
			if r.Intn(2) == 0 {
				c.Body = append(c.Body, SBreak{L: 0})
			}
		}
		sw.Cases = append(sw.Cases, c)
	}
	g.swDepth--
	return sw
}

func (g *Gen) labelled(labs []lab, loopDepth int, inLoop bool) []Stmt {
	g.Stats["labelled"]++
	id := g.nextLab
	g.nextLab++
	r := g.R
	if r.Intn(3) == 0 {
		return g.while(labs, loopDepth, id)
	}
	inner := append(append([]lab{}, labs...), lab{id, false})
	var body Stmt
	k := r.Intn(100)
	switch {
	case k < g.NonWfPct:
		// a body otto mishandles when it jumps to the label: if / bare jump / catch
		g.Stats["labelled-nonwf-shape"]++
		switch r.Intn(3) {
		case 0:
			body = SIf{E: g.expr(1), A: SBreak{L: id}}
		case 1:
			body = SBreak{L: id}
		default:
			body = STry{B: []Stmt{SThrow{E: Lit{Kind: 1, N: 1}}}, HasC: true, C: []Stmt{SBreak{L: id}}}
		}
	case k < 52:
		body = SBlock{L: g.list(1+r.Intn(3), inner, loopDepth, inLoop)}
	case k < 60:
		body = g.switchStmt(inner, loopDepth, inLoop)
	case k < 75:
		// nested label
		id2 := g.nextLab
		g.nextLab++
		inner2 := append(append([]lab{}, inner...), lab{id2, false})
		body = SLabelled{L: id2, S: SBlock{L: g.list(1+r.Intn(3), inner2, loopDepth, inLoop)}}
	case k < 90:
		t := STry{B: g.list(1+r.Intn(2), inner, loopDepth, inLoop), HasF: true}
		// catch/finally parts must not jump to this label for otto to get it right; generate them without it
		t.F = g.list(1, labs, loopDepth, inLoop)
		body = t
	default:
		// a statement that does not target the label at all
		body = SExpr{E: Log{E: g.expr(2)}}
	}
	return []Stmt{SLabelled{L: id, S: body}}
}

// Program is a generated program.
type Program struct {
	Body   []Stmt
	InFunc bool
	Stats  map[string]int
}

func Generate(r *rand.Rand, budget int, inFunc bool, nonWfPct int) Program {
	g := NewGen(r, budget, inFunc)
	g.NonWfPct = nonWfPct
	body := g.list(3+r.Intn(4), nil, 0, false)
	return Program{Body: body, InFunc: inFunc, Stats: g.Stats}
}

func declJS() string {
	names := make([]string, len(Declared))
	for i, x := range Declared {
		names[i] = VarName(x)
	}
	return "var " + strings.Join(names, ", ") + ";\n"
}

// JS renders the program; in function mode the body is function main's.
func (p Program) JS() string {
	var b strings.Builder
	if p.InFunc {
		b.WriteString("function main() {\n  " + declJS())
		for _, s := range p.Body {
			b.WriteString(s.JS("  "))
		}
		b.WriteString("}\nvar __k = 0, __r;\ntry { __r = main(); __k = 1; } catch (ex) { __r = ex; __k = 2; }\n__done(__k, __r);\n")
		return b.String()
	}
	b.WriteString(declJS())
	for _, s := range p.Body {
		b.WriteString(s.JS(""))
	}
	return b.String()
}

func (p Program) Coq() string { return listCoq(p.Body) }

func DeclaredCoq() string {
	parts := make([]string, len(Declared))
	for i, x := range Declared {
		parts[i] = fmt.Sprintf("%d", x)
	}
	return "[" + strings.Join(parts, "; ") + "]"
}
