// Package fulljs generates programs of the MiniJS+ fragment modelled in
// coq/C01/Full.v (hoisting, closures, this, arguments, call/apply/bind,
// constructors and prototypes, every loop form, switch, try/catch binding,
// for-in, typeof/instanceof/in/delete) and renders each as JavaScript text
// and as a Coq term.  Programs terminate by construction: loops have
// dedicated counters, and a function only calls functions of lower rank.
package fulljs

import (
	"fmt"
	"math/rand"
	"strconv"
	"strings"
)

// node is a piece of program with both renderings.
type node struct{ js, coq string }

func cstr(s string) string {
	parts := make([]string, len(s))
	for i := 0; i < len(s); i++ {
		parts[i] = fmt.Sprintf("%d", s[i])
	}
	return "[" + strings.Join(parts, ";") + "]"
}

func clist(ns []node) string {
	parts := make([]string, len(ns))
	for i, n := range ns {
		parts[i] = n.coq
	}
	return "[" + strings.Join(parts, "; ") + "]"
}

func jsArgs(ns []node) string {
	parts := make([]string, len(ns))
	for i, n := range ns {
		parts[i] = n.js
	}
	return strings.Join(parts, ", ")
}

func cnames(names []string) string {
	parts := make([]string, len(names))
	for i, n := range names {
		parts[i] = cstr(n)
	}
	return "[" + strings.Join(parts, "; ") + "]"
}

// ---- what the generator knows about the scope it is generating in ----
type fnInfo struct {
	name   string
	rank   int
	params int
	kind   int // 0 numeric function, 1 closure maker, 2 constructor
}

type scope struct {
	nums    []string // variables holding numbers/booleans/undefined
	objs    []string // variables holding plain objects (or undefined)
	fns     []fnInfo // callable by name from here (lower rank than the current function)
	bound   []string // variables holding numeric functions (closures, bound functions)
	iters   []string // objects that are only read: the subjects of for-in (never extended or shrunk)
	withs   []string // objects used as `with` subjects: their properties are named like the global variables
	inWith  string   // the subject of the innermost enclosing `with` generated in this function body
	inCatch bool     // inside a catch block (the parameter `ex` is in scope)
	inFunc  bool
	rank    int
	params  []string
	thisObj bool // `this` is known to be an object with numeric fields (method / constructor body)
}

type Gen struct {
	R         *rand.Rand
	Budget    int
	nextLab   int
	nextFn    int
	Stats     map[string]int
	fields    []string
	evalDepth int
}

func New(r *rand.Rand, budget int) *Gen {
	return &Gen{R: r, Budget: budget, nextLab: 1, Stats: map[string]int{}, fields: []string{"a", "b", "c"}}
}

func (g *Gen) pick(xs []string) string { return xs[g.R.Intn(len(xs))] }

// ---------- numeric expressions ----------
func (g *Gen) num(sc *scope, d int) node {
	r := g.R
	if d <= 0 || r.Intn(10) < 3 {
		switch r.Intn(8) {
		case 0:
			return node{"undefined", "(XLit WUndef)"}
		case 1:
			if r.Intn(2) == 0 {
				return node{"true", "(XLit (WBool true))"}
			}
			return node{"null", "(XLit WNull)"}
		case 2, 3, 4:
			n := r.Intn(7)
			return node{fmt.Sprintf("%d", n), fmt.Sprintf("(XLit (WNum %d))", n)}
		default:
			v := g.pick(sc.nums)
			return node{v, "(XVar " + cstr(v) + ")"}
		}
	}
	switch k := r.Intn(20); {
	case k < 4:
		ops := []string{"+", "-", "*"}
		cops := []string{"PAdd", "PSub", "PMul"}
		i := r.Intn(3)
		a, b := g.num(sc, d-1), g.num(sc, d-1)
		return node{"(" + a.js + " " + ops[i] + " " + b.js + ")", fmt.Sprintf("(XBin %s %s %s)", cops[i], a.coq, b.coq)}
	case k < 6:
		v := g.pick(sc.nums)
		e := g.num(sc, d-1)
		return node{"(" + v + " = " + e.js + ")", fmt.Sprintf("(XAssign %s %s)", cstr(v), e.coq)}
	case k < 7:
		v := g.pick(sc.nums)
		if r.Intn(2) == 0 {
			// compound assignment whose right operand may itself assign the variable
			ops := []string{"+=", "-=", "*="}
			cops := []string{"PAdd", "PSub", "PMul"}
			i := r.Intn(3)
			e := g.num(sc, d-1)
			if r.Intn(2) == 0 {
				inner := g.num(sc, 0)
				e = node{"(" + v + " = " + inner.js + ", " + e.js + ")", fmt.Sprintf("(XComma (XAssign %s %s) %s)", cstr(v), inner.coq, e.coq)}
			}
			g.Stats["opassign"]++
			return node{"(" + v + " " + ops[i] + " " + e.js + ")", fmt.Sprintf("(XOpAssign %s %s %s)", cops[i], cstr(v), e.coq)}
		}
		return node{"(" + v + "++)", "(XPostInc " + cstr(v) + ")"}
	case k < 8:
		c, a, b := g.boolean(sc, d-1), g.num(sc, d-1), g.num(sc, d-1)
		return node{"(" + c.js + " ? " + a.js + " : " + b.js + ")", fmt.Sprintf("(XCond %s %s %s)", c.coq, a.coq, b.coq)}
	case k < 11:
		if n, ok := g.call(sc, d-1); ok {
			return n
		}
	case k < 13:
		if len(sc.objs) > 0 {
			o := g.objRef(sc)
			f := g.pick(g.fields)
			return node{o.js + "." + f, fmt.Sprintf("(XGet %s %s)", o.coq, cstr(f))}
		}
	case k < 14:
		if sc.inFunc {
			if r.Intn(2) == 0 {
				return node{"arguments.length", "(XGet (XVar " + cstr("arguments") + ") " + cstr("length") + ")"}
			}
			i := r.Intn(3)
			return node{fmt.Sprintf("arguments[%d]", i), fmt.Sprintf("(XIdx (XVar %s) (XLit (WNum %d)))", cstr("arguments"), i)}
		}
	case k < 15:
		if sc.inFunc || r.Intn(3) == 0 {
			f := g.pick(g.fields)
			return node{"this." + f, fmt.Sprintf("(XGet XThis %s)", cstr(f))}
		}
	case k < 16:
		a, b := g.num(sc, d-1), g.num(sc, d-1)
		return node{"(" + a.js + ", " + b.js + ")", fmt.Sprintf("(XComma %s %s)", a.coq, b.coq)}
	case k < 17:
		a, b := g.num(sc, d-1), g.num(sc, d-1)
		if r.Intn(2) == 0 {
			return node{"(" + a.js + " && " + b.js + ")", fmt.Sprintf("(XAnd %s %s)", a.coq, b.coq)}
		}
		return node{"(" + a.js + " || " + b.js + ")", fmt.Sprintf("(XOr %s %s)", a.coq, b.coq)}
	case k < 19 && g.evalDepth < 2 && g.Budget > 3:
		// direct or indirect eval of generated statements (no jumps out of the eval code)
		g.evalDepth++
		g.Stats["eval"]++
		inner := *sc
		inner.inFunc = false
		direct := r.Intn(3) > 0
		if !direct {
			// indirect eval runs as global code: it only sees the global scope
			inner = scope{nums: []string{"g0", "g1", "g2", "i0", "i1", "i2", "i3"}, iters: sc.iters, withs: sc.withs}
		}
		var body []node
		if !direct || r.Intn(3) == 0 {
			// what `this` is inside the eval code (10.4.2): the caller's for a direct eval, the global object otherwise
			body = append(body, thisProbes(r.Intn(8))...)
		}
		if r.Intn(2) == 0 {
			init := g.num(&inner, 1)
			body = append(body, node{"var ev0 = " + init.js + ";", fmt.Sprintf("(JVar %s (Some %s))", cstr("ev0"), init.coq)})
			inner.nums = append(append([]string{}, inner.nums...), "ev0")
		}
		body = append(body, g.list(&inner, 1+r.Intn(2), nil, 3, false, "")...)
		// the eval code ends in a value-producing statement, so that its completion value does not depend
		// on how otto treats values across break/continue (finding C01-completion-value-lost-at-jump)
		last := g.num(&inner, 1)
		body = append(body, node{last.js + ";", "(JExpr " + last.coq + ")"})
		g.evalDepth--
		var src strings.Builder
		for _, n := range body {
			if n.js != "" {
				src.WriteString(n.js + "\n")
			}
		}
		if direct {
			return node{"eval(" + strconv.Quote(src.String()) + ")", "(XEval true " + clist(body) + ")"}
		}
		// every route to an indirect eval, with every kind of this value handed to it: the code is global code
		g.Stats["eval-indirect-route"]++
		return evalVia(r.Intn(nEvalRoutes), g.evalThis(sc), body)
	case k < 18:
		if len(sc.objs) > 0 {
			o := g.objRef(sc)
			f := g.pick(g.fields)
			e := g.num(sc, d-1)
			return node{"(" + o.js + "." + f + " = " + e.js + ")", fmt.Sprintf("(XSet %s %s %s)", o.coq, cstr(f), e.coq)}
		}
	}
	return g.num(sc, 0)
}

func (g *Gen) boolean(sc *scope, d int) node {
	r := g.R
	switch r.Intn(9) {
	case 0, 1, 2:
		a, b := g.num(sc, d), g.num(sc, d)
		return node{"(" + a.js + " < " + b.js + ")", fmt.Sprintf("(XBin PLt %s %s)", a.coq, b.coq)}
	case 3:
		a, b := g.num(sc, d), g.num(sc, d)
		return node{"(" + a.js + " === " + b.js + ")", fmt.Sprintf("(XBin PSeq %s %s)", a.coq, b.coq)}
	case 4:
		a, b := g.num(sc, d), g.num(sc, d)
		return node{"(" + a.js + " !== " + b.js + ")", fmt.Sprintf("(XBin PSne %s %s)", a.coq, b.coq)}
	case 5:
		a := g.num(sc, d)
		return node{"(!" + a.js + ")", "(XNot " + a.coq + ")"}
	case 6:
		if len(sc.objs) > 0 {
			o := g.objRef(sc)
			f := g.pick(g.fields)
			if r.Intn(4) == 0 { // may be undefined -> TypeError, modelled
				return node{"(\"" + f + "\" in " + o.js + ")", fmt.Sprintf("(XIn %s %s)", cstr(f), o.coq)}
			}
		}
	case 7:
		if len(sc.objs) > 0 && len(sc.fns) > 0 {
			var ks []fnInfo
			for _, f := range sc.fns {
				if f.kind == 2 {
					ks = append(ks, f)
				}
			}
			if len(ks) > 0 {
				k := ks[r.Intn(len(ks))]
				if r.Intn(4) == 0 {
					// the constructor's own prototype object is not an instance of the constructor
					return node{"(" + k.name + ".prototype instanceof " + k.name + ")", fmt.Sprintf("(XInstanceof (XGet (XVar %s) %s) (XVar %s))", cstr(k.name), cstr("prototype"), cstr(k.name))}
				}
				o := g.objRef(sc)
				return node{"(" + o.js + " instanceof " + k.name + ")", fmt.Sprintf("(XInstanceof %s (XVar %s))", o.coq, cstr(k.name))}
			}
		}
	}
	a := g.num(sc, d)
	return node{"(!(!" + a.js + "))", "(XNot (XNot " + a.coq + "))"}
}

func (g *Gen) objRef(sc *scope) node {
	if sc.thisObj && g.R.Intn(3) == 0 {
		return node{"this", "XThis"}
	}
	v := g.pick(sc.objs)
	return node{v, "(XVar " + cstr(v) + ")"}
}

func (g *Gen) args(sc *scope, d int, n int) []node {
	out := make([]node, n)
	for i := range out {
		out[i] = g.num(sc, d)
	}
	return out
}

// call produces a call that yields a number: a declared numeric function (plain, call, apply),
// a closure / bound function held in a variable, or a method of an object.
func (g *Gen) call(sc *scope, d int) (node, bool) {
	r := g.R
	var nfs []fnInfo
	for _, f := range sc.fns {
		if f.kind == 0 {
			nfs = append(nfs, f)
		}
	}
	switch r.Intn(6) {
	case 0, 1:
		if len(nfs) > 0 {
			f := nfs[r.Intn(len(nfs))]
			as := g.args(sc, d, r.Intn(4)) // fewer or more arguments than parameters
			g.Stats["call"]++
			return node{f.name + "(" + jsArgs(as) + ")", fmt.Sprintf("(XCall (XVar %s) %s)", cstr(f.name), clist(as))}, true
		}
	case 2:
		if len(nfs) > 0 {
			f := nfs[r.Intn(len(nfs))]
			this := g.thisArg(sc)
			as := g.args(sc, d, r.Intn(3))
			g.Stats["call.call"]++
			all := append([]node{this}, as...)
			return node{f.name + ".call(" + jsArgs(all) + ")", fmt.Sprintf("(XMCall (XVar %s) %s %s)", cstr(f.name), cstr("call"), clist(all))}, true
		}
	case 3:
		if len(nfs) > 0 && sc.inFunc {
			f := nfs[r.Intn(len(nfs))]
			this := g.thisArg(sc)
			g.Stats["call.apply"]++
			all := []node{this, {"arguments", "(XVar " + cstr("arguments") + ")"}}
			return node{f.name + ".apply(" + jsArgs(all) + ")", fmt.Sprintf("(XMCall (XVar %s) %s %s)", cstr(f.name), cstr("apply"), clist(all))}, true
		}
	case 4:
		if len(sc.bound) > 0 {
			b := g.pick(sc.bound)
			as := g.args(sc, d, r.Intn(3))
			g.Stats["call.closure"]++
			return node{b + "(" + jsArgs(as) + ")", fmt.Sprintf("(XCall (XVar %s) %s)", cstr(b), clist(as))}, true
		}
	case 5:
		if len(sc.objs) > 0 {
			// never `this.m(...)`: a method calling itself would not terminate
			ov := g.pick(sc.objs)
			o := node{ov, "(XVar " + cstr(ov) + ")"}
			as := g.args(sc, d, r.Intn(3))
			g.Stats["call.method"]++
			return node{o.js + ".m(" + jsArgs(as) + ")", fmt.Sprintf("(XMCall %s %s %s)", o.coq, cstr("m"), clist(as))}, true
		}
	}
	return node{}, false
}

func (g *Gen) thisArg(sc *scope) node {
	switch g.R.Intn(4) {
	case 0:
		return node{"undefined", "(XLit WUndef)"}
	case 1:
		return node{"null", "(XLit WNull)"}
	}
	if len(sc.objs) > 0 {
		return g.objRef(sc)
	}
	return node{"undefined", "(XLit WUndef)"}
}

// ---------- statements ----------
type lab struct {
	id   int
	loop bool
}

func (g *Gen) logOf(sc *scope) node {
	r := g.R
	var e node
	switch r.Intn(8) {
	case 0:
		e = g.boolean(sc, 2)
	case 1:
		// typeof of assorted things, including an unresolvable name
		switch r.Intn(5) {
		case 0:
			if r.Intn(2) == 0 {
				e = node{"typeof ev0", "(XTypeof (XVar " + cstr("ev0") + "))"} // declared only by an eval, if at all
				break
			}
			e = node{"typeof nowhere", "(XTypeof (XVar " + cstr("nowhere") + "))"}
		case 1:
			if len(sc.fns) > 0 {
				f := sc.fns[r.Intn(len(sc.fns))]
				e = node{"typeof " + f.name, "(XTypeof (XVar " + cstr(f.name) + "))"}
				break
			}
			fallthrough
		case 2:
			if len(sc.objs) > 0 {
				o := g.pick(sc.objs)
				e = node{"typeof " + o, "(XTypeof (XVar " + cstr(o) + "))"}
				break
			}
			fallthrough
		default:
			x := g.num(sc, 1)
			e = node{"typeof (" + x.js + ")", "(XTypeof " + x.coq + ")"}
		}
	default:
		e = g.num(sc, 3)
	}
	return node{"log(" + e.js + ");", "(JExpr (XLog " + e.coq + "))"}
}

func (g *Gen) list(sc *scope, n int, labs []lab, loopDepth int, inLoop bool, ind string) []node {
	var out []node
	for i := 0; i < n && g.Budget > 0; i++ {
		out = append(out, g.stmt(sc, labs, loopDepth, inLoop, ind)...)
	}
	if len(out) == 0 {
		out = append(out, g.logOf(sc))
	}
	return out
}

func block(ns []node, ind string) node {
	var b strings.Builder
	b.WriteString("{\n")
	for _, n := range ns {
		b.WriteString(ind + "  " + n.js + "\n")
	}
	b.WriteString(ind + "}")
	return node{b.String(), "(JBlock " + clist(ns) + ")"}
}

func (g *Gen) counter(depth int) string { return fmt.Sprintf("i%d", depth) }

func (g *Gen) stmt(sc *scope, labs []lab, loopDepth int, inLoop bool, ind string) []node {
	r := g.R
	g.Budget--
	if g.Budget <= 0 {
		return []node{g.logOf(sc)}
	}
	in2 := ind + "  "
	if len(sc.withs) > 0 && r.Intn(22) == 0 {
		// with: identifiers named like the subject's properties resolve to the object while it has them
		g.Stats["with"]++
		w := g.pick(sc.withs)
		inner := *sc
		inner.inWith = w
		body := block(g.list(&inner, 2+r.Intn(3), labs, loopDepth, inLoop, in2), in2)
		return []node{{"with (" + w + ") " + body.js, fmt.Sprintf("(JWith (XVar %s) %s)", cstr(w), body.coq)}}
	}
	if sc.inWith != "" && r.Intn(5) == 0 {
		// change which names the with subject has: the same identifier occurrence resolves differently afterwards
		g.Stats["with-toggle"]++
		w := sc.inWith
		f := g.pick([]string{"g0", "g1", "g2"})
		if r.Intn(2) == 0 {
			return []node{{"delete " + w + "." + f + ";", fmt.Sprintf("(JExpr (XDelete (XVar %s) %s))", cstr(w), cstr(f))}}
		}
		e := g.num(sc, 1)
		return []node{{w + "." + f + " = " + e.js + ";", fmt.Sprintf("(JExpr (XSet (XVar %s) %s %s))", cstr(w), cstr(f), e.coq)}}
	}
	if (sc.inWith != "" || sc.inCatch) && r.Intn(6) == 0 {
		// `var x = v` inside with/catch: the value goes to the with subject's property / the catch parameter (12.2),
		// the hoisted variable itself stays as it was
		g.Stats["var-init-in-with-or-catch"]++
		name := g.pick([]string{"g0", "g1", "g2"})
		if sc.inCatch && (sc.inWith == "" || r.Intn(2) == 0) {
			name = "ex"
		}
		e := g.num(sc, 1)
		return []node{{"var " + name + " = " + e.js + ";", fmt.Sprintf("(JVar %s (Some %s))", cstr(name), e.coq)},
			{"log(typeof " + name + ");", "(JExpr (XLog (XTypeof (XVar " + cstr(name) + "))))"}}
	}
	if loopDepth < 3 && r.Intn(40) == 0 {
		// `break L` out of a loop or block nested in a clause of the labelled switch L: it must leave the switch,
		// not only the nested statement (the nested statement must not inherit the pending label)
		g.Stats["labelled-switch-escape"]++
		id := g.nextLab
		g.nextLab++
		c := g.counter(loopDepth)
		a, b, d := g.num(sc, 1), g.num(sc, 1), g.num(sc, 1)
		var nestJS, nestCoq string
		brk := fmt.Sprintf("(JBreak %d%%nat)", id)
		if r.Intn(2) == 0 {
			nestJS = fmt.Sprintf("%s = 0; while (%s++ < 2) { log(%s); break L%d; }", c, c, a.js, id)
			nestCoq = fmt.Sprintf("JExpr (XAssign %s (XLit (WNum 0))); JWhile (XBin PLt (XPostInc %s) (XLit (WNum 2))) (JBlock [JExpr (XLog %s); %s])", cstr(c), cstr(c), a.coq, brk)
		} else {
			nestJS = fmt.Sprintf("{ log(%s); break L%d; }", a.js, id)
			nestCoq = fmt.Sprintf("JBlock [JExpr (XLog %s); %s]", a.coq, brk)
		}
		js := fmt.Sprintf("L%d: switch (1) { case 1: %s log(%s); case 2: log(%s); }", id, nestJS, b.js, d.js)
		coq := fmt.Sprintf("(JLabelled %d%%nat (JSwitch (XLit (WNum 1)) [(Some (XLit (WNum 1)), [%s; JExpr (XLog %s)]); (Some (XLit (WNum 2)), [JExpr (XLog %s)])]))", id, nestCoq, b.coq, d.coq)
		return []node{{js, coq}}
	}
	if sc.inFunc && r.Intn(30) == 0 {
		// un-map one index of the arguments object, then look at both sides of the former alias
		g.Stats["delete-arguments"]++
		i := r.Intn(2)
		out := []node{{fmt.Sprintf("delete arguments[%d];", i), fmt.Sprintf("(JExpr (XDelete (XVar %s) %s))", cstr("arguments"), cstr(fmt.Sprintf("%d", i)))},
			{fmt.Sprintf("log(arguments[%d]);", i), fmt.Sprintf("(JExpr (XLog (XIdx (XVar %s) (XLit (WNum %d)))))", cstr("arguments"), i)}}
		if i < len(sc.params) {
			out = append(out, node{"log(" + sc.params[i] + ");", "(JExpr (XLog (XVar " + cstr(sc.params[i]) + ")))"})
		}
		return out
	}
	k := r.Intn(100)
	switch {
	case k < 22:
		g.Stats["log"]++
		return []node{g.logOf(sc)}
	case k < 30:
		g.Stats["expr"]++
		e := g.num(sc, 3)
		return []node{{e.js + ";", "(JExpr " + e.coq + ")"}}
	case k < 36:
		g.Stats["if"]++
		c := g.boolean(sc, 2)
		a := block(g.list(sc, 1+r.Intn(2), labs, loopDepth, inLoop, in2), in2)
		if r.Intn(2) == 0 {
			b := block(g.list(sc, 1+r.Intn(2), labs, loopDepth, inLoop, in2), in2)
			return []node{{"if (" + c.js + ") " + a.js + " else " + b.js, fmt.Sprintf("(JIf %s %s (Some %s))", c.coq, a.coq, b.coq)}}
		}
		return []node{{"if (" + c.js + ") " + a.js, fmt.Sprintf("(JIf %s %s None)", c.coq, a.coq)}}
	case k < 50:
		return g.loop(sc, labs, loopDepth, 0, ind)
	case k < 58:
		var cands []node
		if inLoop {
			cands = append(cands, node{"break;", "(JBreak 0%nat)"}, node{"continue;", "(JContinue 0%nat)"})
		}
		for _, l := range labs {
			cands = append(cands, node{fmt.Sprintf("break L%d;", l.id), fmt.Sprintf("(JBreak %d%%nat)", l.id)})
			if l.loop {
				cands = append(cands, node{fmt.Sprintf("continue L%d;", l.id), fmt.Sprintf("(JContinue %d%%nat)", l.id)})
			}
		}
		if len(cands) == 0 {
			return []node{g.logOf(sc)}
		}
		g.Stats["jump"]++
		return []node{cands[r.Intn(len(cands))]}
	case k < 62:
		if sc.inFunc {
			g.Stats["return"]++
			if r.Intn(5) == 0 {
				return []node{{"return;", "(JReturn None)"}}
			}
			e := g.num(sc, 2)
			return []node{{"return " + e.js + ";", "(JReturn (Some " + e.coq + "))"}}
		}
		return []node{g.logOf(sc)}
	case k < 68:
		// labelled block or labelled loop
		g.Stats["labelled"]++
		id := g.nextLab
		g.nextLab++
		switch r.Intn(5) {
		case 0, 1:
			return g.loop(sc, labs, loopDepth, id, ind)
		case 2:
			// a labelled switch: `break L` from a loop or block nested in one of its clauses leaves the switch
			inner := append(append([]lab{}, labs...), lab{id, false})
			sw := g.switchStmt(sc, inner, loopDepth, inLoop, ind)
			g.Stats["labelled-switch"]++
			return []node{{fmt.Sprintf("L%d: %s", id, sw[0].js), fmt.Sprintf("(JLabelled %d%%nat %s)", id, sw[0].coq)}}
		}
		inner := append(append([]lab{}, labs...), lab{id, false})
		b := block(g.list(sc, 1+r.Intn(3), inner, loopDepth, inLoop, in2), in2)
		return []node{{fmt.Sprintf("L%d: %s", id, b.js), fmt.Sprintf("(JLabelled %d%%nat %s)", id, b.coq)}}
	case k < 69:
		switch r.Intn(9) {
		case 0:
			// a call / new / method call whose callee value is not callable: the arguments are evaluated (their
			// host calls happen, an exception they throw wins) BEFORE the TypeError (11.2.2, 11.2.3)
			g.Stats["call-noncallable"]++
			a, b := g.num(sc, 1), g.num(sc, 1)
			gv := []string{"g0", "g1", "g2"}[r.Intn(3)]
			args := "[XLog " + a.coq + "; XLog " + b.coq + "]"
			ajs := "log(" + a.js + "), log(" + b.js + ")"
			if r.Intn(4) == 0 { // the second argument throws: that exception, not the TypeError
				args = "[XLog " + a.coq + "; XCall (XVar " + cstr("nowhere") + ") []]"
				ajs = "log(" + a.js + "), nowhere()"
			}
			var cjs, ccoq string
			switch r.Intn(3) {
			case 0:
				cjs, ccoq = gv+"("+ajs+")", fmt.Sprintf("(XCall (XVar %s) %s)", cstr(gv), args)
			case 1:
				cjs, ccoq = "new "+gv+"("+ajs+")", fmt.Sprintf("(XNew (XVar %s) %s)", cstr(gv), args)
			default:
				cjs, ccoq = "w1.g0("+ajs+")", fmt.Sprintf("(XMCall (XVar %s) %s %s)", cstr("w1"), cstr("g0"), args)
			}
			return []node{{"try { " + cjs + "; } catch (ex) { log(ex); }",
				fmt.Sprintf("(JTry [JExpr %s] (Some (%s, [JExpr (XLog (XVar %s))])) None)", ccoq, cstr("ex"), cstr("ex"))}}
		case 2:
			// return inside try with a finally (and catch) that changes what the returned expression read: the value is
			// fixed when the return statement is evaluated (12.9 GetValue), the finally block runs afterwards; an
			// exception raised by the returned expression itself is raised inside the try (caught by its catch)
			g.Stats["return-try-finally"]++
			a := g.num(sc, 1)
			switch r.Intn(3) {
			case 0:
				return []node{{"log(RF(" + a.js + "));", fmt.Sprintf("(JExpr (XLog (XCall (XVar %s) [%s])))", cstr("RF"), a.coq)}}
			case 1:
				return []node{{"log(RG(" + a.js + "));", fmt.Sprintf("(JExpr (XLog (XCall (XVar %s) [%s])))", cstr("RG"), a.coq)}}
			default:
				return []node{{"log(RH(" + a.js + "));", fmt.Sprintf("(JExpr (XLog (XCall (XVar %s) [%s])))", cstr("RH"), a.coq)}}
			}
		case 3:
			// apply with an array-like object that is not an Array (15.3.4.3: any object with a length)
			g.Stats["apply-array-like"]++
			a, b := g.num(sc, 1), g.num(sc, 1)
			n := r.Intn(3)
			fields := []string{fmt.Sprintf("(%s, XLit (WNum %d))", cstr("length"), n)}
			jsf := []string{fmt.Sprintf("length: %d", n)}
			if r.Intn(4) > 0 {
				fields = append(fields, fmt.Sprintf("(%s, %s)", cstr("0"), a.coq))
				jsf = append(jsf, "0: "+a.js)
			}
			if r.Intn(3) > 0 {
				fields = append(fields, fmt.Sprintf("(%s, %s)", cstr("1"), b.coq))
				jsf = append(jsf, "1: "+b.js)
			}
			return []node{{"log(PA.apply(undefined, {" + strings.Join(jsf, ", ") + "}));",
				fmt.Sprintf("(JExpr (XLog (XMCall (XVar %s) %s [XLit WUndef; XObj [%s]])))", cstr("PA"), cstr("apply"), strings.Join(fields, "; "))}}
		case 4:
			// the arguments object reached only through a direct eval (the function text never mentions it), still
			// aliased to the parameters; a hoisted var with the function's own name shadows the function (10.5)
			g.Stats["eval-arguments-ownname"]++
			a := g.num(sc, 1)
			switch r.Intn(4) {
			case 0:
				return []node{{"log(EA(" + a.js + "));", fmt.Sprintf("(JExpr (XLog (XCall (XVar %s) [%s])))", cstr("EA"), a.coq)}}
			case 1:
				return []node{{"log(EL(" + a.js + ", 2, 3));", fmt.Sprintf("(JExpr (XLog (XCall (XVar %s) [%s; XLit (WNum 2); XLit (WNum 3)])))", cstr("EL"), a.coq)}}
			case 2:
				return []node{{"log(SH());", fmt.Sprintf("(JExpr (XLog (XCall (XVar %s) [])))", cstr("SH"))}}
			default:
				return []node{{"log(SH3());", fmt.Sprintf("(JExpr (XLog (XCall (XVar %s) [])))", cstr("SH3"))}}
			}
		case 8:
			g.Stats["ref-wrap"]++
			return g.refWrapTemplate(sc)
		case 5:
			g.Stats["conv-order"]++
			return g.convTemplate(sc)
		case 6:
			g.Stats["dup-params"]++
			return g.dupTemplate()
		case 7:
			g.Stats["eval-this"]++
			return g.evalThisTemplate(sc)
		case 1:
			// a primitive this value: every call (plain, through call/apply, through a bound function) gets its own
			// fresh wrapper object (10.4.3); state left on one wrapper is not seen by the next call
			g.Stats["primitive-this"]++
			prims := [][2]string{{"5", "(XLit (WNum 5))"}, {"true", "(XLit (WBool true))"}, {"\"s\"", "(XLit (WStr " + cstr("s") + "))"}, {"0", "(XLit (WNum 0))"}}
			p := prims[r.Intn(len(prims))]
			pt := "(XVar " + cstr("PT") + ")"
			var out []node
			if r.Intn(2) == 0 {
				out = append(out, node{"var pb = PT.bind(" + p[0] + ", 1);", fmt.Sprintf("(JVar %s (Some (XMCall %s %s [%s; XLit (WNum 1)])))", cstr("pb"), pt, cstr("bind"), p[1])},
					node{"log(pb() === pb());", fmt.Sprintf("(JExpr (XLog (XBin PSeq (XCall (XVar %s) []) (XCall (XVar %s) []))))", cstr("pb"), cstr("pb"))})
			}
			out = append(out, node{"log(PT.call(" + p[0] + ", 2) === PT.call(" + p[0] + ", 3));",
				fmt.Sprintf("(JExpr (XLog (XBin PSeq (XMCall %s %s [%s; XLit (WNum 2)]) (XMCall %s %s [%s; XLit (WNum 3)]))))", pt, cstr("call"), p[1], pt, cstr("call"), p[1])})
			return out
		}
		// a call whose callee is unresolvable: the ReferenceError comes before the argument is evaluated
		g.Stats["call-unresolvable"]++
		a := g.num(sc, 1)
		return []node{{"try { nowhere(log(" + a.js + ")); } catch (ex) { log(ex); }",
			fmt.Sprintf("(JTry [JExpr (XCall (XVar %s) [XLog %s])] (Some (%s, [JExpr (XLog (XVar %s))])) None)", cstr("nowhere"), a.coq, cstr("ex"), cstr("ex"))}}
	case k < 72:
		g.Stats["throw"]++
		e := g.num(sc, 1)
		return []node{{"throw " + e.js + ";", "(JThrow " + e.coq + ")"}}
	case k < 82:
		g.Stats["try"]++
		b := g.list(sc, 1+r.Intn(3), labs, loopDepth, inLoop, in2)
		js := "try " + block(b, in2).js
		c, f := "None", "None"
		mode := r.Intn(3)
		if mode != 1 {
			// the catch parameter shadows nothing else: a fresh name bound only in the catch block
			csc := *sc
			csc.inCatch = true
			cb := g.list(&csc, 1+r.Intn(2), labs, loopDepth, inLoop, in2)
			if r.Intn(2) == 0 {
				cb = append([]node{{"log(ex);", "(JExpr (XLog (XVar " + cstr("ex") + ")))"}}, cb...)
			}
			js += " catch (ex) " + block(cb, in2).js
			c = fmt.Sprintf("(Some (%s, %s))", cstr("ex"), clist(cb))
		}
		if mode != 0 {
			fb := g.list(sc, 1+r.Intn(2), labs, loopDepth, inLoop, in2)
			js += " finally " + block(fb, in2).js
			f = "(Some " + clist(fb) + ")"
		}
		return []node{{js, fmt.Sprintf("(JTry %s %s %s)", clist(b), c, f)}}
	case k < 90:
		return g.switchStmt(sc, labs, loopDepth, inLoop, ind)
	case k < 95:
		if len(sc.iters) > 0 {
			g.Stats["forin"]++
			o := g.pick(sc.iters)
			inner := block(g.list(sc, 1+r.Intn(2), labs, loopDepth+1, true, in2), in2)
			if r.Intn(3) == 0 {
				// the target is a member expression whose object expression has a visible effect: it is evaluated
				// anew for every visited property (12.6.4), so the effect happens once per property
				g.Stats["forin-member-target"]++
				var tjs, tcoq string
				switch r.Intn(3) {
				case 0:
					tjs, tcoq = "sk", "(XVar "+cstr("sk")+")"
				case 1:
					n := r.Intn(9)
					tjs, tcoq = fmt.Sprintf("(log(%d), sk)", n), fmt.Sprintf("(XComma (XLog (XLit (WNum %d))) (XVar %s))", n, cstr("sk"))
				default:
					tjs, tcoq = "(i3 = i3 + 1, sk)", fmt.Sprintf("(XComma (XAssign %s (XBin PAdd (XVar %s) (XLit (WNum 1)))) (XVar %s))", cstr("i3"), cstr("i3"), cstr("sk"))
				}
				body := node{"{ log(sk.kk); " + inner.js + " }", "(JBlock [JExpr (XLog (XGet (XVar " + cstr("sk") + ") " + cstr("kk") + ")); " + inner.coq + "])"}
				return []node{{"for (" + tjs + ".kk in " + o + ") " + body.js, fmt.Sprintf("(JForInSet %s %s (XVar %s) %s)", tcoq, cstr("kk"), cstr(o), body.coq)}}
			}
			// the loop variable is a (hoisted) var of the enclosing function / program
			body := node{"{ log(k); " + inner.js + " }", "(JBlock [JExpr (XLog (XVar " + cstr("k") + ")); " + inner.coq + "])"}
			return []node{{"for (var k in " + o + ") " + body.js, fmt.Sprintf("(JForIn %s (XVar %s) %s)", cstr("k"), cstr(o), body.coq)}}
		}
		return []node{g.logOf(sc)}
	default:
		if len(sc.objs) > 0 {
			g.Stats["delete"]++
			o := g.pick(sc.objs)
			f := g.pick(g.fields)
			return []node{{"delete " + o + "." + f + ";", fmt.Sprintf("(JExpr (XDelete (XVar %s) %s))", cstr(o), cstr(f))}}
		}
		return []node{g.logOf(sc)}
	}
}

func (g *Gen) loop(sc *scope, labs []lab, loopDepth int, label int, ind string) []node {
	r := g.R
	if loopDepth >= 4 {
		return []node{g.logOf(sc)}
	}
	in2 := ind + "  "
	c := g.counter(loopDepth)
	cv := "(XVar " + cstr(c) + ")"
	bound := 1 + r.Intn(3)
	inner := labs
	if label != 0 {
		inner = append(append([]lab{}, labs...), lab{label, true})
	}
	body := block(g.list(sc, 1+r.Intn(3), inner, loopDepth+1, true, in2), in2)
	reset := node{c + " = 0;", fmt.Sprintf("(JExpr (XAssign %s (XLit (WNum 0))))", cstr(c))}
	var loop node
	switch r.Intn(3) {
	case 0:
		g.Stats["while"]++
		loop = node{fmt.Sprintf("while (%s++ < %d) %s", c, bound, body.js),
			fmt.Sprintf("(JWhile (XBin PLt (XPostInc %s) (XLit (WNum %d))) %s)", cstr(c), bound, body.coq)}
	case 1:
		g.Stats["dowhile"]++
		loop = node{fmt.Sprintf("do %s while (%s++ < %d);", body.js, c, bound-1),
			fmt.Sprintf("(JDoWhile %s (XBin PLt (XPostInc %s) (XLit (WNum %d))))", body.coq, cstr(c), bound-1)}
	default:
		g.Stats["for"]++
		// for (c = 0; c < bound; c++) with optional omitted parts
		loop = node{fmt.Sprintf("for (%s = 0; %s < %d; %s++) %s", c, c, bound, c, body.js),
			fmt.Sprintf("(JFor (Some (XAssign %s (XLit (WNum 0)))) (Some (XBin PLt %s (XLit (WNum %d)))) (Some (XPostInc %s)) %s)", cstr(c), cv, bound, cstr(c), body.coq)}
	}
	if label != 0 {
		loop = node{fmt.Sprintf("L%d: %s", label, loop.js), fmt.Sprintf("(JLabelled %d%%nat %s)", label, loop.coq)}
	}
	return []node{reset, loop}
}

func (g *Gen) switchStmt(sc *scope, labs []lab, loopDepth int, inLoop bool, ind string) []node {
	r := g.R
	g.Stats["switch"]++
	in2 := ind + "  "
	d := g.num(sc, 2)
	n := 2 + r.Intn(3)
	defAt := r.Intn(n + 1) // n = no default
	var js strings.Builder
	js.WriteString("switch (" + d.js + ") {\n")
	var cases []string
	for i := 0; i < n; i++ {
		// inside a switch an unlabelled break is allowed
		var body []node
		if r.Intn(5) > 0 {
			body = g.list(sc, 1+r.Intn(2), labs, loopDepth, inLoop, in2)
		}
		if r.Intn(2) == 0 {
			body = append(body, node{"break;", "(JBreak 0%nat)"})
		}
		if i == defAt {
			js.WriteString(in2 + "default:\n")
			cases = append(cases, "(None, "+clist(body)+")")
		} else {
			t := g.num(sc, 1)
			js.WriteString(in2 + "case " + t.js + ":\n")
			cases = append(cases, "(Some "+t.coq+", "+clist(body)+")")
		}
		for _, b := range body {
			js.WriteString(in2 + "  " + b.js + "\n")
		}
	}
	js.WriteString(ind + "}")
	return []node{{js.String(), fmt.Sprintf("(JSwitch %s [%s])", d.coq, strings.Join(cases, "; "))}}
}

// ---------- functions ----------
func (g *Gen) funcBody(outer *scope, fi fnInfo, thisObj bool, bodyLen int) (params []string, body []node) {
	r := g.R
	for i := 0; i < fi.params; i++ {
		params = append(params, fmt.Sprintf("p%d_%d", fi.rank, i))
	}
	sc := &scope{inFunc: true, rank: fi.rank, params: params, thisObj: thisObj}
	locals := []string{fmt.Sprintf("l%d_0", fi.rank), fmt.Sprintf("l%d_1", fi.rank)}
	sc.nums = append(sc.nums, params...)
	sc.nums = append(sc.nums, locals...)
	sc.nums = append(sc.nums, outer.nums...) // captured variables of the enclosing scopes
	sc.nums = append(sc.nums, "i0", "i1", "i2", "i3")
	sc.objs = append(sc.objs, outer.objs...)
	sc.bound = append(sc.bound, outer.bound...)
	sc.iters = append(sc.iters, outer.iters...)
	sc.withs = append(sc.withs, outer.withs...)
	for _, f := range outer.fns {
		if f.rank < fi.rank {
			sc.fns = append(sc.fns, f)
		}
	}
	// local declarations; sometimes a local shadows a global and is used before its `var` (hoisting)
	decls := []node{}
	for _, l := range locals {
		init := g.num(sc, 1)
		decls = append(decls, node{"var " + l + " = " + init.js + ";", fmt.Sprintf("(JVar %s (Some %s))", cstr(l), init.coq)})
	}
	decls = append(decls, node{"var i0, i1, i2, i3, k;", "(JVar " + cstr("i0") + " None)"},
		node{"", "(JVar " + cstr("i1") + " None)"}, node{"", "(JVar " + cstr("i2") + " None)"},
		node{"", "(JVar " + cstr("i3") + " None)"}, node{"", "(JVar " + cstr("k") + " None)"})
	stmts := g.list(sc, bodyLen, nil, 0, false, "  ")
	if r.Intn(3) == 0 && len(outer.nums) > 0 {
		// shadow an outer variable with a var declared at the END of the body
		sh := outer.nums[r.Intn(len(outer.nums))]
		if !strings.HasPrefix(sh, "i") && sh != "ex" {
			stmts = append(stmts, node{"var " + sh + " = 1;", fmt.Sprintf("(JVar %s (Some (XLit (WNum 1))))", cstr(sh))})
			g.Stats["shadow-late-var"]++
		}
	}
	body = append(decls, stmts...)
	if fi.kind == 0 && r.Intn(4) > 0 {
		e := g.num(sc, 2)
		body = append(body, node{"return " + e.js + ";", "(JReturn (Some " + e.coq + "))"})
	}
	return
}

func renderBody(body []node, ind string) string {
	var b strings.Builder
	for _, n := range body {
		if n.js != "" {
			b.WriteString(ind + n.js + "\n")
		}
	}
	return b.String()
}

// Program is a generated program in both renderings.
type Program struct {
	JS, Coq string
	Stats   map[string]int
}

func Generate(r *rand.Rand, budget int) Program {
	g := New(r, budget)
	top := &scope{nums: []string{"g0", "g1", "g2", "i0", "i1", "i2", "i3"}}
	var stmts []node // global statements in order
	var decls []node // function declarations (placed later at random positions)
	// global variable declarations
	stmts = append(stmts, node{"var g0 = 1, g1, g2 = 3;", "(JVar " + cstr("g0") + " (Some (XLit (WNum 1))))"},
		node{"", "(JVar " + cstr("g1") + " None)"}, node{"", "(JVar " + cstr("g2") + " (Some (XLit (WNum 3))))"},
		node{"var i0, i1, i2, i3, k;", "(JVar " + cstr("i0") + " None)"}, node{"", "(JVar " + cstr("i1") + " None)"},
		node{"", "(JVar " + cstr("i2") + " None)"}, node{"", "(JVar " + cstr("i3") + " None)"}, node{"", "(JVar " + cstr("k") + " None)"})
	// read-only objects for for-in: a literal, and an instance whose prototype carries an enumerable property
	stmts = append(stmts,
		node{"var it1 = { a: 1, b: g1, c: 3 };", "(JVar " + cstr("it1") + " (Some (XObj [(" + cstr("a") + ", XLit (WNum 1)); (" + cstr("b") + ", XVar " + cstr("g1") + "); (" + cstr("c") + ", XLit (WNum 3))])))"},
		node{"function FI() { this.b = 2; this.a = 1; }", "(JFunDecl " + cstr("FI") + " [] [JExpr (XSet XThis " + cstr("b") + " (XLit (WNum 2))); JExpr (XSet XThis " + cstr("a") + " (XLit (WNum 1)))])"},
		node{"FI.prototype.z = 9;", "(JExpr (XSet (XGet (XVar " + cstr("FI") + ") " + cstr("prototype") + ") " + cstr("z") + " (XLit (WNum 9))))"},
		node{"var it2 = new FI();", "(JVar " + cstr("it2") + " (Some (XNew (XVar " + cstr("FI") + ") [])))"})
	stmts = append(stmts, r6Prologue()...)
	stmts = append(stmts, node{"var sk = {};", "(JVar " + cstr("sk") + " (Some (XObj [])))"},
		node{"var pb;", "(JVar " + cstr("pb") + " None)"},
		node{"function RF(a) { var x = a; try { return x; } finally { x = a + 1; log(x); } }",
			fmt.Sprintf("(JFunDecl %s [%s] [JVar %s (Some (XVar %s)); JTry [JReturn (Some (XVar %s))] None (Some [JExpr (XAssign %s (XBin PAdd (XVar %s) (XLit (WNum 1)))); JExpr (XLog (XVar %s))])])",
				cstr("RF"), cstr("a"), cstr("x"), cstr("a"), cstr("x"), cstr("x"), cstr("a"), cstr("x"))},
		node{"function RG(a) { try { return nowhere2; } catch (e) { log(a); return 7; } finally { log(8); } }",
			fmt.Sprintf("(JFunDecl %s [%s] [JTry [JReturn (Some (XVar %s))] (Some (%s, [JExpr (XLog (XVar %s)); JReturn (Some (XLit (WNum 7)))])) (Some [JExpr (XLog (XLit (WNum 8)))])])",
				cstr("RG"), cstr("a"), cstr("nowhere2"), cstr("e"), cstr("a"))},
		node{"function RH(a) { var o = { p: a }; try { return o.p; } finally { o.p = 9; log(o.p); } }",
			fmt.Sprintf("(JFunDecl %s [%s] [JVar %s (Some (XObj [(%s, XVar %s)])); JTry [JReturn (Some (XGet (XVar %s) %s))] None (Some [JExpr (XSet (XVar %s) %s (XLit (WNum 9))); JExpr (XLog (XGet (XVar %s) %s))])])",
				cstr("RH"), cstr("a"), cstr("o"), cstr("p"), cstr("a"), cstr("o"), cstr("p"), cstr("o"), cstr("p"), cstr("o"), cstr("p"))},
		node{"function EA(p) { p = p + 1; return eval(\"arguments[0];\"); }",
			fmt.Sprintf("(JFunDecl %s [%s] [JExpr (XAssign %s (XBin PAdd (XVar %s) (XLit (WNum 1)))); JReturn (Some (XEval true [JExpr (XIdx (XVar %s) (XLit (WNum 0)))]))])",
				cstr("EA"), cstr("p"), cstr("p"), cstr("p"), cstr("arguments"))},
		node{"function EL(p) { return eval(\"arguments.length;\"); }",
			fmt.Sprintf("(JFunDecl %s [%s] [JReturn (Some (XEval true [JExpr (XGet (XVar %s) %s)]))])", cstr("EL"), cstr("p"), cstr("arguments"), cstr("length"))},
		node{"function SH() { var SH; return typeof SH; }",
			fmt.Sprintf("(JFunDecl %s [] [JVar %s None; JReturn (Some (XTypeof (XVar %s)))])", cstr("SH"), cstr("SH"), cstr("SH"))},
		node{"function SH3() { eval(\"var SH3;\"); return typeof SH3; }",
			fmt.Sprintf("(JFunDecl %s [] [JExpr (XEval true [JVar %s None]); JReturn (Some (XTypeof (XVar %s)))])", cstr("SH3"), cstr("SH3"), cstr("SH3"))},
		node{"function PA(u, v) { log(arguments.length); log(u); return v; }",
			fmt.Sprintf("(JFunDecl %s [%s; %s] [JExpr (XLog (XGet (XVar %s) %s)); JExpr (XLog (XVar %s)); JReturn (Some (XVar %s))])",
				cstr("PA"), cstr("u"), cstr("v"), cstr("arguments"), cstr("length"), cstr("u"), cstr("v"))},
		node{"function PT(v) { var s = this.seen; this.seen = v; log(s); log(typeof this); return this; }",
			fmt.Sprintf("(JFunDecl %s [%s] [JVar %s (Some (XGet XThis %s)); JExpr (XSet XThis %s (XVar %s)); JExpr (XLog (XVar %s)); JExpr (XLog (XTypeof XThis)); JReturn (Some XThis)])",
				cstr("PT"), cstr("v"), cstr("s"), cstr("seen"), cstr("seen"), cstr("v"), cstr("s"))})
	top.iters = []string{"it1", "it2"}
	stmts = append(stmts,
		node{"var w1 = { g0: 10, g2: 30 };", "(JVar " + cstr("w1") + " (Some (XObj [(" + cstr("g0") + ", XLit (WNum 10)); (" + cstr("g2") + ", XLit (WNum 30))])))"},
		node{"var w2 = { g1: 20 };", "(JVar " + cstr("w2") + " (Some (XObj [(" + cstr("g1") + ", XLit (WNum 20))])))"})
	top.withs = []string{"w1", "w2"}
	nf := 2 + r.Intn(4)
	for i := 0; i < nf; i++ {
		rank := i + 1
		kind := 0
		switch r.Intn(6) {
		case 0:
			kind = 1
		case 1, 2:
			kind = 2
		}
		fi := fnInfo{name: fmt.Sprintf("F%d", rank), rank: rank, params: r.Intn(3), kind: kind}
		g.Budget += 6
		switch kind {
		case 0:
			params, body := g.funcBody(top, fi, false, 1+r.Intn(3))
			decls = append(decls, node{"function " + fi.name + "(" + strings.Join(params, ", ") + ") {\n" + renderBody(body, "  ") + "}",
				fmt.Sprintf("(JFunDecl %s %s %s)", cstr(fi.name), cnames(params), clist(body))})
			top.fns = append(top.fns, fi)
			g.Stats["fn-numeric"]++
		case 1:
			// maker: returns a closure over its parameter and a local counter
			inner := fnInfo{name: "", rank: rank, params: 1 + r.Intn(2), kind: 0}
			msc := &scope{nums: append([]string{fmt.Sprintf("c%d", rank), fmt.Sprintf("q%d", rank)}, top.nums...), objs: top.objs, iters: top.iters, withs: top.withs, bound: nil, fns: nil}
			for _, f := range top.fns {
				if f.rank < rank {
					msc.fns = append(msc.fns, f)
				}
			}
			ip, ib := g.funcBody(msc, inner, false, 1+r.Intn(2))
			cvar := fmt.Sprintf("c%d", rank)
			q := fmt.Sprintf("q%d", rank)
			ib = append([]node{{cvar + " = " + cvar + " + 1;", fmt.Sprintf("(JExpr (XAssign %s (XBin PAdd (XVar %s) (XLit (WNum 1)))))", cstr(cvar), cstr(cvar))}}, ib...)
			closure := node{"function (" + strings.Join(ip, ", ") + ") {\n" + renderBody(ib, "    ") + "  }", fmt.Sprintf("(XFun %s %s)", cnames(ip), clist(ib))}
			body := []node{
				{"var " + cvar + " = " + q + ";", fmt.Sprintf("(JVar %s (Some (XVar %s)))", cstr(cvar), cstr(q))},
				{"return " + closure.js + ";", "(JReturn (Some " + closure.coq + "))"},
			}
			decls = append(decls, node{"function " + fi.name + "(" + q + ") {\n" + renderBody(body, "  ") + "}",
				fmt.Sprintf("(JFunDecl %s %s %s)", cstr(fi.name), cnames([]string{q}), clist(body))})
			// two closures from the same maker: independent captured state
			for j := 0; j < 2; j++ {
				v := fmt.Sprintf("h%d_%d", rank, j)
				a := g.num(top, 1)
				stmts = append(stmts, node{"var " + v + " = " + fi.name + "(" + a.js + ");", fmt.Sprintf("(JVar %s (Some (XCall (XVar %s) [%s])))", cstr(v), cstr(fi.name), a.coq)})
				top.bound = append(top.bound, v)
			}
			g.Stats["fn-maker"]++
		case 2:
			// constructor with a prototype method m and fields a, b
			params, _ := g.funcBody(top, fnInfo{rank: rank, params: 2}, true, 0)
			csc := &scope{inFunc: true, rank: rank, params: params, thisObj: true, nums: append(append([]string{}, params...), top.nums...), objs: top.objs, iters: top.iters}
			body := []node{}
			for i, f := range []string{"a", "b"} {
				e := g.num(csc, 1)
				if i < len(params) && r.Intn(2) == 0 {
					e = node{params[i], "(XVar " + cstr(params[i]) + ")"}
				}
				body = append(body, node{"this." + f + " = " + e.js + ";", fmt.Sprintf("(JExpr (XSet XThis %s %s))", cstr(f), e.coq)})
			}
			if r.Intn(4) == 0 {
				body = append(body, node{"return 5;", "(JReturn (Some (XLit (WNum 5))))"}) // a primitive result is ignored by new
			}
			decls = append(decls, node{"function " + fi.name + "(" + strings.Join(params, ", ") + ") {\n" + renderBody(body, "  ") + "}",
				fmt.Sprintf("(JFunDecl %s %s %s)", cstr(fi.name), cnames(params), clist(body))})
			top.fns = append(top.fns, fi)
			// method on the prototype
			mfi := fnInfo{rank: rank, params: 1, kind: 0}
			mp, mb := g.funcBody(top, mfi, true, 1+r.Intn(2))
			stmts = append(stmts, node{fi.name + ".prototype.m = function (" + strings.Join(mp, ", ") + ") {\n" + renderBody(mb, "  ") + "};",
				fmt.Sprintf("(JExpr (XSet (XGet (XVar %s) %s) %s (XFun %s %s)))", cstr(fi.name), cstr("prototype"), cstr("m"), cnames(mp), clist(mb))})
			v := fmt.Sprintf("o%d", rank)
			as := g.args(top, 1, r.Intn(3))
			stmts = append(stmts, node{"var " + v + " = new " + fi.name + "(" + jsArgs(as) + ");", fmt.Sprintf("(JVar %s (Some (XNew (XVar %s) %s)))", cstr(v), cstr(fi.name), clist(as))})
			top.objs = append(top.objs, v)
			g.Stats["fn-constructor"]++
		}
		// some global statements between the declarations
		stmts = append(stmts, g.list(top, 1+r.Intn(2), nil, 0, false, "")...)
		if r.Intn(3) == 0 {
			// an object literal with a method and fields
			v := fmt.Sprintf("lit%d", rank)
			mfi := fnInfo{rank: rank, params: 1, kind: 0}
			mp, mb := g.funcBody(top, mfi, true, 1)
			a, b := g.num(top, 1), g.num(top, 1)
			stmts = append(stmts, node{"var " + v + " = { a: " + a.js + ", b: " + b.js + ", m: function (" + strings.Join(mp, ", ") + ") {\n" + renderBody(mb, "  ") + "} };",
				fmt.Sprintf("(JVar %s (Some (XObj [(%s, %s); (%s, %s); (%s, XFun %s %s)])))", cstr(v), cstr("a"), a.coq, cstr("b"), b.coq, cstr("m"), cnames(mp), clist(mb))})
			top.objs = append(top.objs, v)
			g.Stats["objlit"]++
		}
		if r.Intn(3) == 0 && len(top.fns) > 0 {
			var nfs []fnInfo
			for _, f := range top.fns {
				if f.kind == 0 {
					nfs = append(nfs, f)
				}
			}
			if len(nfs) > 0 {
				f := nfs[r.Intn(len(nfs))]
				v := fmt.Sprintf("bd%d", rank)
				this := g.thisArg(top)
				as := append([]node{this}, g.args(top, 1, r.Intn(2))...)
				stmts = append(stmts, node{"var " + v + " = " + f.name + ".bind(" + jsArgs(as) + ");", fmt.Sprintf("(JVar %s (Some (XMCall (XVar %s) %s %s)))", cstr(v), cstr(f.name), cstr("bind"), clist(as))})
				top.bound = append(top.bound, v)
				g.Stats["bind"]++
			}
		}
	}
	// a battery of the fixed-shape templates at top level (always executed), in a third of the programs
	if r.Intn(3) == 0 {
		g.Stats["template-battery"]++
		lit := func(n int) (string, string) { return fmt.Sprintf("%d", n), fmt.Sprintf("(XLit (WNum %d))", n) }
		call := func(fn string, args ...int) node {
			js, cq := make([]string, len(args)), make([]string, len(args))
			for i, a := range args {
				js[i], cq[i] = lit(a)
			}
			return node{"log(" + fn + "(" + strings.Join(js, ", ") + "));", fmt.Sprintf("(JExpr (XLog (XCall (XVar %s) [%s])))", cstr(fn), strings.Join(cq, "; "))}
		}
		battery := []node{call("EA", r.Intn(9)), call("EL", 1, 2, 3), call("SH"), call("SH3"), call("RF", r.Intn(9)), call("RG", r.Intn(9)), call("RH", r.Intn(9)), call("EA", 4, 5)}
		r.Shuffle(len(battery), func(i, j int) { battery[i], battery[j] = battery[j], battery[i] })
		stmts = append(stmts, battery[:3+r.Intn(3)]...)
	}
	// the conversion-order, repeated-parameter and eval-this templates at top level (always executed), in a third of the programs
	if r.Intn(3) == 0 {
		g.Stats["template-battery-r6"]++
		for i, n := 0, 2+r.Intn(3); i < n; i++ {
			switch r.Intn(4) {
			case 3:
				stmts = append(stmts, g.refWrapTemplate(top)...)
			case 0:
				stmts = append(stmts, g.convTemplate(top)...)
			case 1:
				stmts = append(stmts, g.dupTemplate()...)
			default:
				stmts = append(stmts, g.evalThisTemplate(top)...)
			}
		}
	}
	// every way of leaving a `with` body (12.10: the lexical environment is restored "whether normally or by some
	// form of abrupt completion or exception"): throw caught outside, break and continue of an enclosing loop, break
	// to a label, throw from a call made inside; afterwards an identifier named like a property of the subject must
	// resolve to the variable again, and an assignment to it must not reach the subject.  Always executed, a
	// quarter of the programs.
	if r.Intn(4) == 0 {
		g.Stats["with-exit"]++
		n := 40 + r.Intn(9)
		subj := fmt.Sprintf("{ g0: %d, g1: %d }", n, n+1)
		csubj := fmt.Sprintf("(XObj [(%s, XLit (WNum %d)); (%s, XLit (WNum %d))])", cstr("g0"), n, cstr("g1"), n+1)
		stmts = append(stmts, node{"var wx = " + subj + ";", fmt.Sprintf("(JVar %s (Some %s))", cstr("wx"), csubj)})
		wx := "(XVar " + cstr("wx") + ")"
		after := []node{
			{"log(g0);", "(JExpr (XLog (XVar " + cstr("g0") + ")))"},
			{"g1 = 7;", "(JExpr (XAssign " + cstr("g1") + " (XLit (WNum 7))))"},
			{"log(wx.g1);", "(JExpr (XLog (XGet " + wx + " " + cstr("g1") + ")))"},
			{"log(g1);", "(JExpr (XLog (XVar " + cstr("g1") + ")))"},
		}
		var exit []node
		switch r.Intn(5) {
		case 0:
			exit = []node{{"try { with (wx) { log(g0); throw g1; } } catch (ex) { log(ex); }",
				fmt.Sprintf("(JTry [JWith %s (JBlock [JExpr (XLog (XVar %s)); JThrow (XVar %s)])] (Some (%s, [JExpr (XLog (XVar %s))])) None)", wx, cstr("g0"), cstr("g1"), cstr("ex"), cstr("ex"))}}
		case 1:
			exit = []node{{"i3 = 0;", fmt.Sprintf("(JExpr (XAssign %s (XLit (WNum 0))))", cstr("i3"))},
				{"while (i3++ < 2) { with (wx) { log(g0); break; } }", fmt.Sprintf("(JWhile (XBin PLt (XPostInc %s) (XLit (WNum 2))) (JBlock [JWith %s (JBlock [JExpr (XLog (XVar %s)); JBreak 0%%nat])]))", cstr("i3"), wx, cstr("g0"))}}
		case 2:
			exit = []node{{"i3 = 0;", fmt.Sprintf("(JExpr (XAssign %s (XLit (WNum 0))))", cstr("i3"))},
				{"while (i3++ < 2) { with (wx) { log(g0); continue; } }", fmt.Sprintf("(JWhile (XBin PLt (XPostInc %s) (XLit (WNum 2))) (JBlock [JWith %s (JBlock [JExpr (XLog (XVar %s)); JContinue 0%%nat])]))", cstr("i3"), wx, cstr("g0"))}}
		case 3:
			exit = []node{{"L9: { with (wx) { log(g0); break L9; } }",
				fmt.Sprintf("(JLabelled 9%%nat (JBlock [JWith %s (JBlock [JExpr (XLog (XVar %s)); JBreak 9%%nat])]))", wx, cstr("g0"))}}
		default:
			exit = []node{{"try { with (wx) { log(g0); nowhere(); } } catch (ex) { log(ex); }",
				fmt.Sprintf("(JTry [JWith %s (JBlock [JExpr (XLog (XVar %s)); JExpr (XCall (XVar %s) [])])] (Some (%s, [JExpr (XLog (XVar %s))])) None)", wx, cstr("g0"), cstr("nowhere"), cstr("ex"), cstr("ex"))}}
		}
		stmts = append(stmts, exit...)
		stmts = append(stmts, after...)
	}
	stmts = append(stmts, g.list(top, 3+r.Intn(5), nil, 0, false, "")...)
	// epilogue: dump the observable global state (half of the programs; the others end on
	// whatever statement came last, so that the program's completion value is not always log's undefined)
	epilogue := r.Intn(2) == 0
	for _, v := range []string{"g0", "g1", "g2"} {
		if !epilogue {
			break
		}
		stmts = append(stmts, node{"log(" + v + ");", "(JExpr (XLog (XVar " + cstr(v) + ")))"})
	}
	for _, wf := range [][2]string{{"w1", "g0"}, {"w1", "g1"}, {"w1", "g2"}, {"w2", "g0"}, {"w2", "g1"}} {
		if !epilogue {
			break
		}
		stmts = append(stmts, node{"log(" + wf[0] + "." + wf[1] + ");", fmt.Sprintf("(JExpr (XLog (XGet (XVar %s) %s)))", cstr(wf[0]), cstr(wf[1]))})
	}
	for _, o := range top.objs {
		if !epilogue {
			break
		}
		for _, f := range []string{"a", "b"} {
			stmts = append(stmts, node{"log(" + o + " && " + o + "." + f + ");", fmt.Sprintf("(JExpr (XLog (XAnd (XVar %s) (XGet (XVar %s) %s))))", cstr(o), cstr(o), cstr(f))})
		}
	}
	// scatter the function declarations among the global statements (they are hoisted)
	all := stmts
	for _, d := range decls {
		pos := 14 + r.Intn(len(all)-14+1) // after the fixed prologue, anywhere else
		all = append(all[:pos], append([]node{d}, all[pos:]...)...)
	}
	var js strings.Builder
	for _, n := range all {
		if n.js != "" {
			js.WriteString(n.js + "\n")
		}
	}
	return Program{JS: js.String(), Coq: clist(all), Stats: g.Stats}
}

// ---------- round-6 families: conversion order, repeated parameter names, `this` in indirect eval ----------
func nlit(n int) node    { return node{fmt.Sprintf("%d", n), fmt.Sprintf("(XLit (WNum %d))", n)} }
func xvar(x string) node { return node{x, "(XVar " + cstr(x) + ")"} }
func xlog(e node) node   { return node{"log(" + e.js + ")", "(XLog " + e.coq + ")"} }
func sexpr(e node) node  { return node{e.js + ";", "(JExpr " + e.coq + ")"} }
func sret(e node) node   { return node{"return " + e.js + ";", "(JReturn (Some " + e.coq + "))"} }
func sthrow(e node) node { return node{"throw " + e.js + ";", "(JThrow " + e.coq + ")"} }
func xget(o node, p string) node {
	return node{o.js + "." + p, fmt.Sprintf("(XGet %s %s)", o.coq, cstr(p))}
}

var xthis = node{"this", "XThis"}
var xundef = node{"undefined", "(XLit WUndef)"}
var xnull = node{"null", "(XLit WNull)"}

func xfun(params []string, body []node) node {
	var b strings.Builder
	for _, n := range body {
		if n.js != "" {
			b.WriteString(" " + n.js)
		}
	}
	return node{"function (" + strings.Join(params, ", ") + ") {" + b.String() + " }", fmt.Sprintf("(XFun %s %s)", cnames(params), clist(body))}
}

func xobj(keys []string, vals []node) node {
	js, cq := make([]string, len(keys)), make([]string, len(keys))
	for i, k := range keys {
		js[i] = k + ": " + vals[i].js
		cq[i] = fmt.Sprintf("(%s, %s)", cstr(k), vals[i].coq)
	}
	return node{"({ " + strings.Join(js, ", ") + " })", "(XObj [" + strings.Join(cq, "; ") + "])"}
}

// try { body } catch (ex) { log(ex); }
func tryLog(body ...node) node {
	var b strings.Builder
	for _, n := range body {
		b.WriteString(n.js + " ")
	}
	return node{"try { " + b.String() + "} catch (ex) { log(ex); }",
		fmt.Sprintf("(JTry %s (Some (%s, [JExpr (XLog (XVar %s))])) None)", clist(body), cstr("ex"), cstr("ex"))}
}

// operands of an operator that converts them (ToPrimitive, hint Number: 8.12.8): each conversion is visible through the
// host call log(tag) it makes, the shared variable it changes, or the exception it throws
const nConvKinds = 11

// with the string operands of + (11.6.1: both operands are made primitive, valueOf first, BEFORE the string test)
const nConvKindsStr = 16

func slit(t string) node { return node{strconv.Quote(t), "(XLit (WStr " + cstr(t) + "))"} }

func convOperand(kind, tag, n int) node {
	logT := sexpr(xlog(nlit(tag)))
	logT1 := sexpr(xlog(nlit(tag + 1)))
	switch kind {
	case 1: // valueOf gives the number
		return xobj([]string{"valueOf"}, []node{xfun(nil, []node{logT, sret(nlit(n))})})
	case 2: // valueOf throws
		return xobj([]string{"valueOf"}, []node{xfun(nil, []node{logT, sthrow(nlit(tag))})})
	case 3: // valueOf gives an object: toString is asked next
		return xobj([]string{"valueOf", "toString"}, []node{xfun(nil, []node{logT, sret(xthis)}), xfun(nil, []node{logT1, sret(nlit(n))})})
	case 4: // valueOf is not callable
		return xobj([]string{"valueOf", "toString"}, []node{nlit(n + 1), xfun(nil, []node{logT, sret(nlit(n))})})
	case 5: // the inherited valueOf gives the object itself
		return xobj([]string{"toString"}, []node{xfun(nil, []node{logT, sret(nlit(n))})})
	case 6: // neither gives a primitive: TypeError
		return xobj([]string{"valueOf", "toString"}, []node{xfun(nil, []node{logT, sret(xthis)}), xfun(nil, []node{logT1, sret(xthis)})})
	case 7: // the conversion changes shared state
		inc := node{"(g0 = g0 + 1)", fmt.Sprintf("(XAssign %s (XBin PAdd (XVar %s) (XLit (WNum 1))))", cstr("g0"), cstr("g0"))}
		return xobj([]string{"valueOf"}, []node{xfun(nil, []node{sexpr(inc), sret(xvar("g0"))})})
	case 8:
		return []node{xundef, xnull, {"true", "(XLit (WBool true))"}}[n%3]
	case 9: // valueOf gives a primitive: toString must not be called
		return xobj([]string{"valueOf", "toString"}, []node{xfun(nil, []node{logT, sret(nlit(n))}), xfun(nil, []node{logT1, sret(nlit(0))})})
	case 11: // a primitive string
		return slit([]string{"s", "", "n="}[n%3])
	case 12: // valueOf and toString give different primitives: + with a string still asks valueOf
		return xobj([]string{"valueOf", "toString"}, []node{xfun(nil, []node{logT, sret(nlit(n))}), xfun(nil, []node{logT1, sret(slit("x"))})})
	case 13: // valueOf gives a string
		return xobj([]string{"valueOf", "toString"}, []node{xfun(nil, []node{logT, sret(slit("v"))}), xfun(nil, []node{logT1, sret(nlit(n))})})
	case 14: // only toString, giving a string
		return xobj([]string{"toString"}, []node{xfun(nil, []node{logT, sret(slit("t"))})})
	case 15: // a variable holding a string
		return xvar("sv")
	case 10: // valueOf gives undefined (a primitive): NaN
		return xobj([]string{"valueOf"}, []node{xfun(nil, []node{logT, {"return;", "(JReturn None)"}})})
	}
	return nlit(n)
}

var convOps = [][2]string{{"<", "PLt"}, {">", "PGt"}, {"<=", "PLe"}, {">=", "PGe"}, {"+", "PAdd"}, {"-", "PSub"}, {"*", "PMul"}}

// log(A op B) / x = A; x op= B; log(x), inside try/catch
func convStmt(op, ka, kb, na, nb int, compound bool, v string) []node {
	a, b := convOperand(ka, 10, na), convOperand(kb, 20, nb)
	o := convOps[op]
	if compound {
		asg := node{"(" + v + " " + o[0] + "= " + b.js + ")", fmt.Sprintf("(XOpAssign %s %s %s)", o[1], cstr(v), b.coq)}
		return []node{{"var " + v + " = " + a.js + ";", fmt.Sprintf("(JVar %s (Some %s))", cstr(v), a.coq)},
			tryLog(sexpr(xlog(asg)), sexpr(xlog(xvar(v)))),
			{"log(typeof " + v + ");", "(JExpr (XLog (XTypeof (XVar " + cstr(v) + "))))"}}
	}
	e := node{"(" + a.js + " " + o[0] + " " + b.js + ")", fmt.Sprintf("(XBin %s %s %s)", o[1], a.coq, b.coq)}
	return []node{tryLog(sexpr(xlog(e)))}
}

func (g *Gen) convTemplate(sc *scope) []node {
	r := g.R
	kind := func() int {
		if r.Intn(4) == 0 {
			return r.Intn(nConvKinds)
		}
		return []int{1, 1, 2, 3, 7, 9}[r.Intn(6)]
	}
	op := r.Intn(len(convOps))
	compound := op >= 4 && r.Intn(3) == 0
	ka, kb := kind(), kind()
	if r.Intn(3) == 0 { // + / += with a string on one side and an object (or anything) on the other
		op = 4
		str := []int{11, 15, 13, 14}[r.Intn(4)]
		other := []int{12, 12, 9, 3, 13, 14, 1, 8, 0}[r.Intn(9)]
		if r.Intn(2) == 0 {
			ka, kb = str, other
		} else {
			ka, kb = other, str
		}
	}
	return convStmt(op, ka, kb, r.Intn(4), r.Intn(4), compound, "cx")
}

// a function whose parameter list repeats a name, called with nargs arguments by one of six routes (10.5 step 4.d: every
// parameter name is SET, in order, to its argument or to undefined, so the last occurrence wins even without an argument)
var dupPatterns = [][]string{{"a", "a"}, {"a", "b", "a"}, {"a", "a", "b"}, {"b", "a", "a"}, {"a", "a", "a"}, {"a", "b", "b", "a"}}

const nDupRoutes = 6

func dupStmt(pat []string, nargs, route, variant, argIdx int) []node {
	hasB := false
	for _, p := range pat {
		if p == "b" {
			hasB = true
		}
	}
	var body []node
	if variant == 2 { // a function declaration of the same name replaces the parameter's value (10.5 step 5)
		body = append(body, node{"function b() { }", "(JFunDecl " + cstr("b") + " [] [])"},
			node{"log(typeof b);", "(JExpr (XLog (XTypeof (XVar " + cstr("b") + "))))"})
	}
	body = append(body, node{"log(typeof a);", "(JExpr (XLog (XTypeof (XVar " + cstr("a") + "))))"}, sexpr(xlog(xvar("a"))))
	if hasB && variant != 2 {
		body = append(body, sexpr(xlog(xvar("b"))))
	}
	body = append(body, sexpr(xlog(xget(xvar("arguments"), "length"))))
	// arguments[i] at any index that received an argument, also an EARLIER occurrence of a repeated name (10.6 step 11.c:
	// not aliased; finding C01-arguments-dup-param, fixed by bf94f2a)
	if nargs > 0 {
		i := argIdx % nargs
		body = append(body, node{fmt.Sprintf("log(arguments[%d]);", i), fmt.Sprintf("(JExpr (XLog (XIdx (XVar %s) (XLit (WNum %d)))))", cstr("arguments"), i)})
	}
	if variant == 1 { // a var of the same name changes nothing (10.5 step 8)
		body = append(body, node{"var a;", "(JVar " + cstr("a") + " None)"})
	}
	if route == 4 {
		body = append(body, node{"this.r = a;", "(JExpr (XSet XThis " + cstr("r") + " (XVar " + cstr("a") + ")))"})
	} else {
		body = append(body, sret(xvar("a")))
	}
	f := xfun(pat, body)
	f.js = "(" + f.js + ")"
	args := make([]node, nargs)
	for i := range args {
		args[i] = nlit(i + 1)
	}
	mcall := func(o node, m string, as []node) node {
		return node{o.js + "." + m + "(" + jsArgs(as) + ")", fmt.Sprintf("(XMCall %s %s %s)", o.coq, cstr(m), clist(as))}
	}
	var e node
	switch route {
	case 0:
		e = node{f.js + "(" + jsArgs(args) + ")", fmt.Sprintf("(XCall %s %s)", f.coq, clist(args))}
	case 1:
		e = mcall(f, "call", append([]node{xnull}, args...))
	case 2: // apply with an array-like object
		keys, vals := []string{"length"}, []node{nlit(nargs)}
		for i, a := range args {
			keys, vals = append(keys, fmt.Sprintf("%d", i)), append(vals, a)
		}
		e = mcall(f, "apply", []node{xundef, xobj(keys, vals)})
	case 3: // bind with some of the arguments, the rest at the call
		k := nargs / 2
		b := mcall(f, "bind", append([]node{xnull}, args[:k]...))
		e = node{b.js + "(" + jsArgs(args[k:]) + ")", fmt.Sprintf("(XCall %s %s)", b.coq, clist(args[k:]))}
	case 4:
		nw := node{"(new " + f.js + "(" + jsArgs(args) + "))", fmt.Sprintf("(XNew %s %s)", f.coq, clist(args))}
		e = xget(nw, "r")
	default: // apply handing on the caller's arguments object
		inner := xfun(nil, []node{sret(mcall(f, "apply", []node{xnull, xvar("arguments")}))})
		e = node{"(" + inner.js + ")(" + jsArgs(args) + ")", fmt.Sprintf("(XCall %s %s)", inner.coq, clist(args))}
	}
	return []node{sexpr(xlog(e))}
}

func (g *Gen) dupTemplate() []node {
	r := g.R
	pat := dupPatterns[r.Intn(len(dupPatterns))]
	return dupStmt(pat, r.Intn(len(pat)+2), r.Intn(nDupRoutes), r.Intn(3), r.Intn(4))
}

// globals the eval-this templates rely on
func r6Prologue() []node {
	return []node{
		{"var top = this;", "(JVar " + cstr("top") + " (Some XThis))"},
		{"var ge = eval;", "(JVar " + cstr("ge") + " None)"}, // the model has no eval VALUE: every use of ge is rendered as an XEval/XEvalVia term
		{"var sv = \"q\";", "(JVar " + cstr("sv") + " (Some " + slit("q").coq + "))"},
		{"var loc = 1;", "(JVar " + cstr("loc") + " (Some (XLit (WNum 1))))"},
		roDecl(),
		{"var hold = { a: 5, g0: 55, run: eval };", fmt.Sprintf("(JVar %s (Some (XObj [(%s, XLit (WNum 5)); (%s, XLit (WNum 55))])))", cstr("hold"), cstr("a"), cstr("g0"))},
	}
}

// the object whose members the reference-wrapping templates call, inspect and delete
func roDecl() node {
	probe := func(ret int) node {
		return xfun(nil, []node{sexpr(xlog(node{"this === top", "(XBin PSeq XThis (XVar " + cstr("top") + "))"})), sexpr(xlog(xget(xthis, "tag"))), sret(nlit(ret))})
	}
	o := xobj([]string{"tag", "p", "q", "m", "n"}, []node{nlit(1), nlit(1), nlit(2), probe(7), probe(8)})
	return node{"var ro = " + o.js + ";", "(JVar " + cstr("ro") + " (Some " + o.coq + "))"}
}

// an operator whose result is a VALUE (GetValue applied: 11.12, 11.11, 11.14) around an expression that is a Reference
const nRefWraps = 6

func refWrap(k int, e node) node {
	switch k {
	case 0:
		return node{"(1 ? " + e.js + " : 0)", "(XCond (XLit (WNum 1)) " + e.coq + " (XLit (WNum 0)))"}
	case 1:
		return node{"(0 ? 0 : " + e.js + ")", "(XCond (XLit (WNum 0)) (XLit (WNum 0)) " + e.coq + ")"}
	case 2:
		return node{"(1 && " + e.js + ")", "(XAnd (XLit (WNum 1)) " + e.coq + ")"}
	case 3:
		return node{"(0 || " + e.js + ")", "(XOr (XLit (WNum 0)) " + e.coq + ")"}
	case 4:
		return node{"(0, " + e.js + ")", "(XComma (XLit (WNum 0)) " + e.coq + ")"}
	}
	in := refWrap(1, e)
	return node{"(1 ? " + in.js + " : 0)", "(XCond (XLit (WNum 1)) " + in.coq + " (XLit (WNum 0)))"}
}

// c ? e : e with a test that is any expression
func condBoth(t, e node) node {
	return node{"(" + t.js + " ? " + e.js + " : " + e.js + ")", "(XCond " + t.coq + " " + e.coq + " " + e.coq + ")"}
}

const nRefUses = 11

// the reference-sensitive consumers around w(e): a call (this value, 11.2.3), eval (direct or not, 15.1.2.1.1),
// typeof of an unresolvable name (11.4.3), delete (11.4.1)
func refUse(use int, w func(node) node) []node {
	call := func(f node, as ...node) node {
		return node{f.js + "(" + jsArgs(as) + ")", fmt.Sprintf("(XCall %s %s)", f.coq, clist(as))}
	}
	ro := xvar("ro")
	switch use {
	case 0:
		return []node{sexpr(xlog(call(w(xget(ro, "m")))))}
	case 1:
		idx := node{"ro[\"n\"]", "(XIdx (XVar " + cstr("ro") + ") " + slit("n").coq + ")"}
		return []node{sexpr(xlog(call(w(idx), xlog(nlit(3)))))}
	case 2:
		st := sexpr(xlog(call(w(xvar("m")))))
		return []node{{"with (ro) { " + st.js + " }", fmt.Sprintf("(JWith (XVar %s) (JBlock [%s]))", cstr("ro"), st.coq)}}
	case 3, 4: // an eval reached through a value is indirect: it does not see the caller's loc
		body := []node{sexpr(xvar("loc"))}
		if use == 4 {
			body = append(thisProbes(0), body...)
		}
		var src strings.Builder
		for _, n := range body {
			src.WriteString(n.js + "\n")
		}
		// the model has no eval VALUE: the wrapper is evaluated around a literal (its test may have effects), then the eval
		ev := w(node{"eval", "(XLit (WNum 0))"})
		e := node{ev.js + "(" + strconv.Quote(src.String()) + ")", "(XComma " + ev.coq + " (XEval false " + clist(body) + "))"}
		f := xfun(nil, []node{{"var loc = 2;", "(JVar " + cstr("loc") + " (Some (XLit (WNum 2))))"}, sret(e)})
		f.js = "(" + f.js + ")"
		if use == 4 {
			return []node{sexpr(xlog(node{f.js + ".call(ro)", fmt.Sprintf("(XMCall %s %s [XVar %s])", f.coq, cstr("call"), cstr("ro"))}))}
		}
		return []node{sexpr(xlog(call(f)))}
	case 5:
		return []node{tryLog(node{"log(typeof " + w(xvar("nowhere")).js + ");", "(JExpr (XLog (XTypeof " + w(xvar("nowhere")).coq + ")))"})}
	case 6:
		return []node{{"log(typeof " + w(xvar("loc")).js + ");", "(JExpr (XLog (XTypeof " + w(xvar("loc")).coq + ")))"},
			{"log(typeof " + w(xget(ro, "m")).js + ");", "(JExpr (XLog (XTypeof " + w(xget(ro, "m")).coq + ")))"}}
	case 7: // delete of a value deletes nothing and gives true
		e := w(xget(ro, "p"))
		return []node{sexpr(xlog(node{"delete " + e.js, "(XComma " + e.coq + " (XLit (WBool true)))"})), sexpr(xlog(xget(ro, "p")))}
	case 8:
		e := w(xvar("loc"))
		return []node{sexpr(xlog(node{"delete " + e.js, "(XComma " + e.coq + " (XLit (WBool true)))"}))}
	case 9: // delete unresolvable gives true, delete of its VALUE throws
		e := w(xvar("nowhere2"))
		return []node{tryLog(sexpr(xlog(node{"delete " + e.js, "(XComma " + e.coq + " (XLit (WBool true)))"})))}
	}
	// new: the constructor never receives the base as this anyway; the value form must behave alike
	e := w(xget(ro, "m"))
	return []node{{"log(typeof new " + e.js + "());", "(JExpr (XLog (XTypeof (XNew " + e.coq + " []))))"}}
}

func (g *Gen) refWrapTemplate(sc *scope) []node {
	r := g.R
	k := r.Intn(nRefWraps + 2)
	w := func(e node) node { return refWrap(k, e) }
	if k >= nRefWraps {
		t := g.num(sc, 1)
		w = func(e node) node { return condBoth(t, e) }
	}
	return refUse(r.Intn(nRefUses), w)
}

// statements for eval code that show what its `this` is
func thisProbes(mask int) []node {
	var out []node
	if mask&1 == 0 {
		out = append(out, sexpr(xlog(node{"this === top", "(XBin PSeq XThis (XVar " + cstr("top") + "))"})))
	}
	if mask&2 != 0 {
		out = append(out, node{"log(typeof this);", "(JExpr (XLog (XTypeof XThis)))"})
	}
	if mask&4 != 0 {
		out = append(out, sexpr(xlog(xget(xthis, "a"))))
	}
	return out
}

const nEvalRoutes = 10

// an indirect eval of body reached by route, handed the this value t (which ES5 ignores: 15.1.2.1.1, 10.4.2)
func evalVia(route int, t node, body []node) node {
	var src strings.Builder
	for _, n := range body {
		if n.js != "" {
			src.WriteString(n.js + "\n")
		}
	}
	q := strconv.Quote(src.String())
	via := func(t node) string { return "(XEvalVia " + t.coq + " " + clist(body) + ")" }
	switch route {
	case 0:
		return node{"(0, eval)(" + q + ")", "(XEval false " + clist(body) + ")"}
	case 1:
		return node{"ge(" + q + ")", "(XEval false " + clist(body) + ")"}
	case 2:
		return node{"ge.call(" + t.js + ", " + q + ")", via(t)}
	case 3:
		return node{"ge.apply(" + t.js + ", [" + q + "])", via(t)}
	case 4:
		return node{"ge.bind(" + t.js + ")(" + q + ")", via(t)}
	case 5: // a method call on a holder object built in place (its run field, the eval function, has no counterpart in the model)
		return node{"({ a: 6, g0: 66, run: ge }).run(" + q + ")", via(xobj([]string{"a", "g0"}, []node{nlit(6), nlit(66)}))}
	case 6:
		return node{"eval.call(" + t.js + ", " + q + ")", via(t)}
	case 7:
		return node{"eval.apply(" + t.js + ", [" + q + "])", via(t)}
	case 8:
		return node{"eval.bind(" + t.js + ")(" + q + ")", via(t)}
	}
	return node{"hold.run(" + q + ")", via(xvar("hold"))}
}

const nEvalThis = 9

func evalThisKind(k int) node {
	switch k {
	case 0:
		return xundef
	case 1:
		return xnull
	case 2:
		return nlit(5)
	case 3:
		return node{"\"s\"", "(XLit (WStr " + cstr("s") + "))"}
	case 4:
		return node{"true", "(XLit (WBool true))"}
	case 5:
		return xvar("hold")
	case 6:
		return xobj([]string{"a", "g0"}, []node{nlit(7), nlit(77)})
	case 7:
		return xvar("top")
	}
	return xfun(nil, []node{sret(nlit(1))})
}

func (g *Gen) evalThis(sc *scope) node {
	if len(sc.objs) > 0 && g.R.Intn(3) == 0 {
		return g.objRef(sc)
	}
	t := evalThisKind(g.R.Intn(nEvalThis))
	if g.R.Intn(2) == 0 {
		t = evalThisKind(5 + g.R.Intn(2))
	}
	if t.js[0] == 'f' {
		t.js = "(" + t.js + ")"
	}
	return t
}

func evalThisBody(mask int) []node {
	body := thisProbes(mask)
	return append(body, sexpr(xget(xthis, "g0")))
}

func (g *Gen) evalThisTemplate(sc *scope) []node {
	r := g.R
	e := evalVia(r.Intn(nEvalRoutes), g.evalThis(sc), evalThisBody(r.Intn(8)))
	return []node{sexpr(xlog(e))}
}

// Pinned returns the deterministic programs that run on every seed: the three families above, exhaustively over
// operator x operand kinds, parameter pattern x argument count x call route, eval route x this value x calling context.
func Pinned() []Program {
	var all [][]node
	// conversions
	for op := range convOps {
		nk := nConvKinds
		if op == 4 {
			nk = nConvKindsStr
		}
		for ka := 0; ka < nk; ka++ {
			for kb := 0; kb < nk; kb++ {
				all = append(all, convStmt(op, ka, kb, 1+(ka+kb)%3, 2, false, ""))
			}
		}
	}
	for op := 4; op < len(convOps); op++ {
		i := 0
		nk := nConvKinds
		if op == 4 {
			nk = nConvKindsStr
		}
		for ka := 0; ka < nk; ka++ {
			for kb := 0; kb < nk; kb++ {
				all = append(all, convStmt(op, ka, kb, 1+(ka+kb)%3, 2, true, fmt.Sprintf("cx%d", i%40)))
				i++
			}
		}
	}
	// repeated parameter names
	for pi, pat := range dupPatterns {
		for nargs := 0; nargs <= len(pat)+1; nargs++ {
			for route := 0; route < nDupRoutes; route++ {
				for variant := 0; variant < 3; variant++ {
					all = append(all, dupStmt(pat, nargs, route, variant, pi+nargs+route))
				}
			}
		}
	}
	// this inside indirect eval code
	for route := 0; route < nEvalRoutes; route++ {
		for tk := 0; tk < nEvalThis; tk++ {
			t := evalThisKind(tk)
			if t.js[0] == 'f' {
				t.js = "(" + t.js + ")"
			}
			for ctx := 0; ctx < 4; ctx++ {
				e := evalVia(route, t, evalThisBody(6))
				switch ctx {
				case 0: // global code
					all = append(all, []node{sexpr(xlog(e))})
				case 1: // in a method: the caller's this is another object
					o := xobj([]string{"a", "m"}, []node{nlit(9), xfun(nil, []node{sret(e)})})
					all = append(all, []node{sexpr(xlog(node{o.js + ".m()", fmt.Sprintf("(XMCall %s %s [])", o.coq, cstr("m"))}))})
				case 2: // inside direct eval code
					inner := sexpr(e)
					all = append(all, []node{sexpr(xlog(node{"eval(" + strconv.Quote(inner.js) + ")", "(XEval true [" + inner.coq + "])"}))})
				default: // inside a with whose subject has the same names
					st := sexpr(xlog(e))
					all = append(all, []node{{"with (hold) { " + st.js + " }", fmt.Sprintf("(JWith (XVar %s) (JBlock [%s]))", cstr("hold"), st.coq)}})
				}
			}
		}
	}
	// GetValue in the conditional / logical / comma operators: every wrapper around every reference-sensitive consumer
	for k := 0; k < nRefWraps+2; k++ {
		k := k
		w := func(e node) node { return refWrap(k, e) }
		if k == nRefWraps {
			w = func(e node) node { return condBoth(xvar("g0"), e) }
		} else if k == nRefWraps+1 {
			w = func(e node) node { return condBoth(xvar("g1"), e) }
		}
		for use := 0; use < nRefUses; use++ {
			all = append(all, refUse(use, w))
		}
	}
	// the same consumers on the bare (parenthesised) reference: this = ro, direct eval, "undefined", a real delete
	all = append(all,
		[]node{sexpr(xlog(node{"(ro.m)()", fmt.Sprintf("(XMCall (XVar %s) %s [])", cstr("ro"), cstr("m"))}))},
		[]node{{"log(typeof (nowhere));", "(JExpr (XLog (XTypeof (XVar " + cstr("nowhere") + "))))"}},
		[]node{{"log(delete (ro.q));", fmt.Sprintf("(JExpr (XLog (XDelete (XVar %s) %s)))", cstr("ro"), cstr("q"))}, sexpr(xlog(xget(xvar("ro"), "q")))},
		[]node{sexpr(xlog(node{"(function () { var loc = 2; return (eval)(\"loc;\"); })()",
			fmt.Sprintf("(XCall (XFun [] [JVar %s (Some (XLit (WNum 2))); JReturn (Some (XEval true [JExpr (XVar %s)]))]) [])", cstr("loc"), cstr("loc"))}))})
	// a primitive this value is boxed afresh for every call (10.4.3), also through bind/call/apply
	pt := xvar("PT")
	mc := func(o node, m string, as ...node) node {
		return node{o.js + "." + m + "(" + jsArgs(as) + ")", fmt.Sprintf("(XMCall %s %s %s)", o.coq, cstr(m), clist(as))}
	}
	seq := func(a, b node) node {
		return node{a.js + " === " + b.js, fmt.Sprintf("(XBin PSeq %s %s)", a.coq, b.coq)}
	}
	for i, p := range []node{nlit(5), {"true", "(XLit (WBool true))"}, {"\"s\"", "(XLit (WStr " + cstr("s") + "))"}, nlit(0)} {
		v := fmt.Sprintf("pb%d", i)
		pbc := node{v + "()", fmt.Sprintf("(XCall (XVar %s) [])", cstr(v))}
		all = append(all, []node{
			{"var " + v + " = " + mc(pt, "bind", p, nlit(1)).js + ";", fmt.Sprintf("(JVar %s (Some %s))", cstr(v), mc(pt, "bind", p, nlit(1)).coq)},
			sexpr(xlog(seq(pbc, pbc))),
			sexpr(xlog(seq(mc(pt, "call", p, nlit(2)), mc(pt, "call", p, nlit(3))))),
			sexpr(xlog(seq(mc(pt, "apply", p), mc(pt, "call", p)))),
		})
	}
	// a callee that is not callable: the arguments are evaluated before the TypeError (11.2.2, 11.2.3)
	for _, thrower := range []bool{false, true} {
		second := xlog(nlit(2))
		if thrower {
			second = node{"nowhere()", "(XCall (XVar " + cstr("nowhere") + ") [])"}
		}
		as := []node{xlog(nlit(1)), second}
		for _, callee := range []node{xvar("g1"), xvar("g0"), xget(xvar("hold"), "a")} {
			all = append(all, []node{tryLog(sexpr(node{callee.js + "(" + jsArgs(as) + ")", fmt.Sprintf("(XCall %s %s)", callee.coq, clist(as))}))},
				[]node{tryLog(sexpr(node{"new " + callee.js + "(" + jsArgs(as) + ")", fmt.Sprintf("(XNew %s %s)", callee.coq, clist(as))}))})
		}
		all = append(all, []node{tryLog(sexpr(mc(xvar("hold"), "g0", as...)))}, []node{tryLog(sexpr(mc(xvar("hold"), "zz", as...)))})
	}
	var out []Program
	const chunk = 40
	for i := 0; i < len(all); i += chunk {
		stmts := []node{{"var g0 = 1, g1, g2 = 3;", "(JVar " + cstr("g0") + " (Some (XLit (WNum 1))))"},
			{"", "(JVar " + cstr("g1") + " None)"}, {"", "(JVar " + cstr("g2") + " (Some (XLit (WNum 3))))"}}
		stmts = append(stmts, r6Prologue()...)
		stmts = append(stmts, node{"function PT(v) { var s = this.seen; this.seen = v; log(s); log(typeof this); return this; }",
			fmt.Sprintf("(JFunDecl %s [%s] [JVar %s (Some (XGet XThis %s)); JExpr (XSet XThis %s (XVar %s)); JExpr (XLog (XVar %s)); JExpr (XLog (XTypeof XThis)); JReturn (Some XThis)])",
				cstr("PT"), cstr("v"), cstr("s"), cstr("seen"), cstr("seen"), cstr("v"), cstr("s"))})
		for j := i; j < i+chunk && j < len(all); j++ {
			stmts = append(stmts, all[j]...)
		}
		var js strings.Builder
		for _, n := range stmts {
			if n.js != "" {
				js.WriteString(n.js + "\n")
			}
		}
		out = append(out, Program{JS: js.String(), Coq: clist(stmts), Stats: map[string]int{"pinned-r6": 1}})
	}
	return out
}
