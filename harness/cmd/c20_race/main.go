package main

import (
	"fmt"
	"sync"

	"github.com/robertkrimen/otto"
	"github.com/robertkrimen/otto/parser"
)

var progs = []string{
	`var r=/a(b+)c/gi; var s=''; for(var i=0;i<5;i++){ s+= 'xabbbcx'.replace(r,'$1'); } s`,
	`JSON.stringify(JSON.parse('{"a":[1,2,{"b":null}]}'))`,
	`new Date(0).toISOString() + new Date(2000,1,1).getDay()`,
	`var x=Math.random(); x>=0&&x<1`,
	`'abcXYZ'.toUpperCase()+'ÀB'.toLowerCase()+'a'.localeCompare('b')`,
	`[3,1,2].sort().join()+[5,1,4].sort(function(a,b){return b-a}).join()`,
	`try{ null.x }catch(e){ e.stack||String(e) }`,
	`try{ undefinedFn() }catch(e){ String(e) }`,
	`console.log; typeof console`,
	`var f=new Function('a','b','return a+b'); f(1,2)+eval('1+2')`,
	`Object.defineProperty(Array.prototype,'zz',{get:function(){return 7},configurable:true}); [].zz`,
	`(function(){ return arguments.length })(1,2,3)`,
	`encodeURIComponent('a b&c/ü')+decodeURI('%41%20')+escape('ü')+unescape('%FC')`,
	`parseInt('0x1f')+parseFloat('1e3')+Number('12')+(1e21).toString()+(0.000001).toString()+(255).toString(16)+(1.5).toFixed(2)`,
	`'a,b,c'.split(',').length+'abc'.split('').length+'aXbXc'.split(/x/i).length`,
	`new RegExp('^[a-z]+$').test('abc') + String(/x/g.exec('axx'))`,
	`var o={};o.a=1;o.b=2;var k='';for(var p in o)k+=p;k`,
	`String(new Error('x')) + (new TypeError('t')).name`,
	`(12345.678).toLocaleString()+''+'x'.toLocaleUpperCase()`,
	`try { eval('var 1x') } catch(e) { e.name }`,
	`Date.parse('2000-01-01T00:00:00Z')+Date.UTC(2000,1)`,
}

func main() {
	// fresh runtimes
	var wg sync.WaitGroup
	for g := 0; g < 8; g++ {
		wg.Add(1)
		go func(g int) {
			defer wg.Done()
			vm := otto.New()
			for r := 0; r < 3; r++ {
				for _, p := range progs {
					vm.Run(p)
				}
			}
		}(g)
	}
	wg.Wait()
	fmt.Println("fresh ok")
	// copies
	t := otto.New()
	t.Run(`var shared={a:[1,2,3],f:function(){return this.a.length}}; function inc(){ return ++shared.a[0] }`)
	for g := 0; g < 8; g++ {
		wg.Add(1)
		c := t.Copy()
		go func(g int) {
			defer wg.Done()
			for r := 0; r < 3; r++ {
				for _, p := range progs {
					c.Run(p)
				}
				c.Run(`inc(); shared.a.push(1); shared.f()`)
			}
		}(g)
	}
	wg.Wait()
	fmt.Println("copies ok")
	// concurrent Copy of same template
	for g := 0; g < 8; g++ {
		wg.Add(1)
		go func(g int) {
			defer wg.Done()
			c := t.Copy()
			c.Run(`inc()`)
		}(g)
	}
	wg.Wait()
	fmt.Println("concurrent copy ok")
	// shared script + program
	vm := otto.New()
	var scripts []*otto.Script
	for _, p := range progs {
		s, err := vm.Compile("", p)
		if err != nil {
			panic(err)
		}
		scripts = append(scripts, s)
	}
	prog, err := parser.ParseFile(nil, "x.js", `function fib(n){return n<2?n:fib(n-1)+fib(n-2)}; var r=/a+/g; try{null.x}catch(e){}; fib(10)+"aaa".replace(r,"b")`, 0)
	if err != nil {
		panic(err)
	}
	for g := 0; g < 8; g++ {
		wg.Add(1)
		go func(g int) {
			defer wg.Done()
			vm := otto.New()
			for r := 0; r < 3; r++ {
				for _, s := range scripts {
					vm.Run(s)
				}
				v, err := vm.Run(prog)
				_ = v
				if err != nil {
					panic(err)
				}
			}
		}(g)
	}
	wg.Wait()
	fmt.Println("shared script ok")
}
