// c20_race: correspondence cases for property C20 (independent runtimes).
// Built with `go build -race`.
//
// Parent (normal flags): generates program sets from the seed and hands them,
// in batches, to child processes (this binary re-executed with -child) that
// run under GORACE="halt_on_error=1 exitcode=66".  For every job the child
// first runs every runtime's programs ALONE (sequential baseline), then runs
// all runtimes of the job CONCURRENTLY, one goroutine per runtime, and prints
// both.  A race report (or any abnormal end of the child) becomes the
// observation of the job that was running, with the head of the report as
// replay text; the remaining jobs continue in a new child.
//
// mode = origin*3 + sharing
//
//	origin  0 fresh runtimes (otto.New in the goroutine, then the setup script)
//	        1 copies of one template (Copy in the main goroutine)
//	        2 copies of one template made concurrently (Copy in the goroutines)
//	        3 (mode 9) a family: template, copies, copies of copies, every member with its own per-Otto
//	          settings (Interrupt channel, stack/trace limit, random source, debugger handler) set before or
//	          after copying; halts are queued on a member's OWN channel only, the root's first one before
//	          any other member starts, and the root runs last
//	sharing 0 every runtime runs source text
//	        1 runtimes run the same compiled *otto.Script objects
//	        2 runtimes run the same parsed *ast.Program objects
//
// The sequential baseline always uses private source text (fresh compilation)
// on a private template, so sharing a Script/Program or a template is
// compared with not sharing it.
package main

import (
	"bufio"
	"bytes"
	"encoding/json"
	"errors"
	"fmt"
	"hash/fnv"
	"math/rand"
	"os"
	"os/exec"
	"path/filepath"
	goruntime "runtime"
	"sort"
	"strings"
	"sync"
	"time"

	"github.com/robertkrimen/otto"
	"github.com/robertkrimen/otto/ast"
	"github.com/robertkrimen/otto/parser"
	"github.com/robertkrimen/otto/registry"
	. "ottoh/lib"
)

// ---------------------------------------------------------------- jobs

type Job struct {
	Mode  int        `json:"mode"`
	Progs [][]string `json:"progs"` // per runtime, in order
	Yield []int      `json:"yield"` // per runtime: Gosched between programs every k-th program (0 = never)
	Pin   string     `json:"pin,omitempty"`
	Setup string     `json:"setup"` // job-specific extension of setupJS (closures, objects, arrays, arguments objects of generated shapes)
	// mode 9 (family): runtime i is the root template (Parent -1) or a copy of runtime Parent (< i), made
	// right after the parent received its own settings; every member then receives its own settings
	Family []Member `json:"family,omitempty"`
	// what the template itself runs after it has been copied (origin 1: concurrently with its copies,
	// origin 2: after them), before it is probed
	TProgs []string `json:"tprogs,omitempty"`
}

// per-Otto settings of one member of a family.  Interrupt is a field of the
// Otto handle and must never be inherited; stack limit, trace limit, random
// source and debugger handler are copied by clone and stay independent afterwards.
type Member struct {
	Parent int     `json:"parent"`
	OwnInt bool    `json:"own_interrupt"` // vm.Interrupt = make(chan func(), 8) after creation
	Halt   []int   `json:"halt"`          // program indices before which a halt is queued on the member's OWN channel
	Stack  int     `json:"stack"`         // SetStackDepthLimit (0 = leave what Copy gave)
	Trace  int     `json:"trace"`         // SetStackTraceLimit (-1 = leave)
	Random float64 `json:"random"`        // SetRandomSource(constant) (<0 = leave)
	Dbg    string  `json:"dbg"`           // SetDebuggerHandler(handler that writes this tag into the vm it is given) ("" = leave)
}

type Ev struct {
	Rt  int    `json:"rt"`
	Res string `json:"res"`
	Ts  int64  `json:"ts"`
}

type JobResult struct {
	Idx  int        `json:"idx"`
	Seq  [][]string `json:"seq"`
	Conc []Ev       `json:"conc"`
}

// ---------------------------------------------------------------- JavaScript

// helper library + the state every runtime (or the template) starts from
const setupJS = `
function dig(x, d) {
  d = d || 0;
  var t = typeof x;
  if (x === null) return 'null';
  if (t === 'undefined') return 'u';
  if (t === 'number') return (x === 0 && 1 / x < 0) ? '-0' : String(x);
  if (t === 'string') return '"' + x + '"';
  if (t === 'boolean') return String(x);
  if (d > 3) return '#';
  if (t === 'function') return 'fn' + (d < 2 ? digp(x, d) : '');
  var head = Object.prototype.toString.call(x).slice(8, -1);
  if (head === 'Date') head += ':' + x.getTime();
  if (head === 'RegExp') head += ':' + x.source + ':' + x.lastIndex + (x.global ? 'g' : '') + (x.ignoreCase ? 'i' : '');
  if (head === 'Error') head += ':' + x.name + ':' + x.message;
  return head + (Object.isFrozen(x) ? 'F' : Object.isSealed(x) ? 'S' : Object.isExtensible(x) ? '' : 'N') + digp(x, d);
}
function digp(x, d) {
  var ks = Object.getOwnPropertyNames(x), out = [];
  for (var i = 0; i < ks.length; i++) {
    var k = ks[i];
    if (k === 'caller' || k === 'callee' || k === 'stack' || k === 'prototype' || k === 'arguments') continue;
    var pd = Object.getOwnPropertyDescriptor(x, k);
    var s = k + (pd.writable ? 'w' : '') + (pd.enumerable ? 'e' : '') + (pd.configurable ? 'c' : '');
    if ('value' in pd) s += '=' + dig(pd.value, d + 1); else s += '=G' + (pd.get ? 1 : 0) + (pd.set ? 1 : 0);
    out.push(s);
  }
  return '{' + out.join(',') + '}';
}
function keysIn(o) { var r = []; for (var k in o) r.push(k); return r.join(); }
var T = {};
T.o3 = {a: 1, b: 2, c: 3};
T.o5 = {}; for (var i5 = 0; i5 < 5; i5++) T.o5['p' + i5] = i5;
T.o9 = {}; for (var i9 = 0; i9 < 9; i9++) T.o9['q' + i9] = [i9];
T.arr = [1, 2, 3, 4, 5, 6, 7];
T.sparse = [0, , 2, , , 5]; T.sparse[20] = 20;
T.nested = {x: {y: {z: [1, {w: 2}]}}};
T.counter = (function () { var n = 0; var hist = []; return {inc: function () { hist.push(n); return ++n; }, get: function () { return n + ':' + hist.join(''); }}; })();
T.acc = {get v() { return this._v; }, set v(x) { this._v = x * 2; }, _v: 1};
T.bound = function (a, b) { this.hits = (this.hits || 0) + 1; return this.k + a + b + this.hits; }.bind({k: 10}, 1);
T.date = new Date(86400000 * 365);
T.re = /a+/g;
T.rei = new RegExp('(b)(c)?', 'i');
T.err = new RangeError('boom');
T.args = (function () { return arguments; })(1, 'two', {three: 3});
T.margs = (function (a, b) { var g = arguments; return {set: function (v) { a = v; return g[0]; }, get: function () { return g[0] + ':' + a + ':' + g.length; }}; })(1, 2);
T.fn = function f(x) { f.calls = (f.calls || 0) + 1; return x * 2; }; T.fn.meta = {tag: 'm'};
T.str = new String('hello'); T.num = new Number(42); T.bool = new Boolean(false);
T.frozen = Object.freeze({q: 1, in_: [1]}); T.sealed = Object.seal({r: 2}); T.noext = Object.preventExtensions({s: 3});
T.proto = Object.create({inherited: [1, 2]}); T.proto.own = 1;
T.cyc = {name: 'cyc'}; T.cyc.self = T.cyc;
T.ctor = function P(n) { this.n = n; }; T.ctor.prototype.twice = function () { return this.n * 2; }; T.inst = new T.ctor(21);
Array.prototype.tsum = function () { var s = 0; for (var i = 0; i < this.length; i++) s += this[i] || 0; return s; };
Object.defineProperty(Object.prototype, 'hid', {value: 7, writable: true, configurable: true, enumerable: false});
String.prototype.shout = function () { return this.toUpperCase() + '!'; };
T.cl = []; T.ob = []; T.ar = []; T.ma = []; T.gs = []; T.bf = [];
(function () {
  var tgt = function () { return [String(this)].concat(Array.prototype.slice.call(arguments)).join('.'); };
  T.bf.push(tgt.bind('t0'));
  T.bf.push(tgt.bind('t1', 'a'));
  T.bf.push(tgt.bind('t2', 'a', 2));
  T.bf.push(tgt.bind('t3', 'a', 2, true));
  T.bf.push(tgt.bind('t4', 'a', 2, true, null));
  T.bf.push(tgt.bind('t5', 'a', 2, true, null, 'e'));
  T.bf.push(String.prototype.concat.bind('<', 'a', 'b', 'c', 'd'));
  T.bf.push(tgt.bind({toString: function () { return 'to'; }}, 1, {toString: function () { return 'ob'; }}, 3));
  T.bf.push(Array.prototype.concat.bind([0], 1, 2));
})();
// every bound function called with extra arguments; the object argument yields while it is converted
function callBound(tag) {
  var out = [], ob = {toString: function () { yield(); return 'o' + tag; }};
  for (var i = 0; i < T.bf.length; i++) out.push(String(T.bf[i](tag, ob, 'x' + tag)) + '/' + String(T.bf[i]('y' + tag)));
  return out.join('|');
}
// the 'caller' accessor of functions: of one made by the setup (before any Copy) and of one made now
function callerCensus() {
  var a = Object.getOwnPropertyDescriptor(note, 'caller'), b = Object.getOwnPropertyDescriptor(function () {}, 'caller');
  function names(d) { return d && d.get ? Object.getOwnPropertyNames(d.get).sort().join('.') : String(d && d.get); }
  function who() { return who.caller === callerCensus ? 'ok' : String(who.caller && who.caller.name); }
  return names(a) + '~' + names(b) + '~' + who();
}
// everything in the interpreter that could keep process-wide state behind a built-in: locale
// printers, local-time conversion, the default random source, regexp compilation, number parsing
function wideProbe(loc, tag) {
  var out = [];
  for (var i = 0; i < 6; i++) out.push((1234567.5 + i * tag).toLocaleString(loc));
  yield();
  var d = new Date(2000 + tag, tag % 12, 10, 11, 12, 13);
  out.push(d.toLocaleString(), d.getHours(), d.toString().length, d.getTimezoneOffset());
  // every Date setter, local and UTC, with an argument whose conversion lets other runtimes run
  var ds = new Date(2001, 1, 3, 4, 5, 6, 7), yv = {valueOf: function () { yield(); return tag % 50; }};
  ds.setUTCHours(tag % 24, yv, 30, 400); ds.setHours(1, 2, yv); ds.setMinutes(yv, 3, 4); ds.setUTCMinutes(5, yv); ds.setSeconds(yv, 9); ds.setUTCSeconds(7, yv);
  ds.setMilliseconds(yv); ds.setUTCMilliseconds(tag); ds.setMonth(tag % 12, yv); ds.setUTCMonth(yv, 2); ds.setFullYear(2000 + tag, yv, 5); ds.setUTCFullYear(1990 + tag, 1, yv);
  ds.setDate(yv); ds.setUTCDate(tag % 28 + 1); out.push(ds.toISOString(), ds.setTime(tag * 1e9), new Date(tag * 1e9).setUTCHours(1, 2, 3, tag));
  var r = Math.random(); out.push(r >= 0 && r < 1);
  out.push(new RegExp('w' + tag + '+', 'g').test('xw' + tag + tag), parseFloat('1e' + (tag % 5)), (tag + 0.5).toFixed(1), encodeURIComponent('ü' + tag), 'I'.toLowerCase() + 'ß'.toUpperCase());
  return out.join(' ');
}
var dbgSeen = 'unset';
function depthProbe() { return (function d(n) { try { return d(n + 1); } catch (e) { return n; } })(0); }
function traceProbe() { function t(n) { if (n === 0) throw new Error('tp'); t(n - 1); } try { t(30); } catch (e) { return e.stack.split('\n').length; } }
function settingsProbe() { dbgSeen = 'none'; debugger; return [depthProbe(), traceProbe(), Math.random(), dbgSeen].join(':'); }
function settingsProbeNR() { dbgSeen = 'none'; debugger; return [depthProbe(), traceProbe(), dbgSeen].join(':'); }
function builtins() {
  return [Object, Function, Array, String, Boolean, Number, Math, Date, RegExp, Error, EvalError, TypeError, RangeError, ReferenceError, SyntaxError, URIError, JSON,
    Object.prototype, Function.prototype, Array.prototype, String.prototype, Boolean.prototype, Number.prototype, Date.prototype, RegExp.prototype, Error.prototype,
    EvalError.prototype, TypeError.prototype, RangeError.prototype, ReferenceError.prototype, SyntaxError.prototype, URIError.prototype, console, this];
}
function thrown(k) {
  try { switch (k) { case 0: null.x; break; case 1: undefinedVariableXYZ; break; case 2: new Array(-1); break; case 3: decodeURI('%'); break; case 4: eval('('); break; default: throw new EvalError('e'); } } catch (e) { return e; }
}
function literals() {
  return [[], {}, function () {}, '', 0, true, /x/, new Date(0), new Error('l'), thrown(0), thrown(1), thrown(2), thrown(3), thrown(4), thrown(5), (function () { return arguments; })(), JSON.parse('[1]'), JSON.parse('{"a":1}'), 'a,b'.split(','), /a/.exec('a'), Object.keys({}), [1].map(function (x) { return x; }), new String('s'), new Number(1), new Boolean(true), Object.create(null) && Object.create(Object.prototype), function () {}.bind(null)];
}
function census() {
  var b = builtins(), l = literals(), out = [];
  for (var i = 0; i < b.length; i++) out.push(Object.getOwnPropertyNames(b[i]).length);
  for (var j = 0; j < l.length; j++) out.push(Object.getOwnPropertyNames(Object.getPrototypeOf(Object(l[j]))).length);
  return out.join('.');
}
function sweep(tag) {
  var b = builtins(), l = literals(), n = 0;
  for (var i = 0; i < b.length; i++) { try { b[i]['sw' + tag] = tag; n++; } catch (e) {} }
  for (var j = 0; j < l.length; j++) { try { Object.getPrototypeOf(Object(l[j]))['sl' + tag] = tag; n++; } catch (e) {} }
  return n + ':' + census();
}
T.caught = [thrown(0), thrown(1), thrown(2), thrown(3), thrown(5)];
T.made = [new Error('made'), new TypeError('madeT'), T.err];
// the native accessors and bridged values that exist before any Copy, as this runtime sees them
function nativeCensus() {
  var out = [], es = T.caught.concat(T.made);
  for (var i = 0; i < es.length; i++) out.push(typeof es[i].stack + String(es[i].stack).length + Object.getOwnPropertyNames(es[i]).length);
  var ms = [goS.Hello, goS.Sum, goS.Label, goV.Label, goF, goC];
  for (var j = 0; j < ms.length; j++) out.push(typeof ms[j] + (ms[j] instanceof Function ? 'F' : 'n') + (Object.getPrototypeOf(ms[j]) === Function.prototype ? 'P' : 'p') + Object.getOwnPropertyNames(ms[j]).length + typeof ms[j].mark);
  out.push(goS.Hello('c') + goS.Sum(1, 2) + goS.Label() + goV.Label() + goF(3, 4) + goC('q', 1) + goM.b + goL.length + goL[1] + goA[2] + goS.Name + goS.Count + goS.Tags.length);
  out.push(typeof T.fn.caller + String(T.fn.caller) + typeof note.caller);
  var mk = goMk(1), ob = goObj(2), st = goSt('n'), li = goS.List(2);
  out.push([Object.getPrototypeOf(mk) === Array.prototype, mk instanceof Array, mk.join(''), Object.getOwnPropertyNames(Object.getPrototypeOf(mk)).length,
    ob.n, ob.l instanceof Array, ob.l.length, st.Label(), st.Hello instanceof Function, li instanceof Array, li.length, goArr().length].join(''));
  return out.join(',');
}
// closures created BEFORE any Copy under every kind of scope-chain link: with (top level, inside a
// function, nested, over a template object, around eval / an accessor / a declaration / a bound
// function), catch, catch+with, named function expression, and a chain mixing all of them; each
// reads and writes free variables that are NOT properties of the with-object
var total = 0, total2 = 0, gfree = 0, gc = 0, gv = 0, cnt = 0;
var cfg = {step: 2}, wa = {x: 1}, wb = {y: 10};
T.sc = {};
with (cfg) { T.sc.bump = function () { total += step; return total; }; }
T.sc.counter = (function () { var acc = 0, opts = {inc: 10}; with (opts) { return function () { acc += inc; return acc; }; } })();
with (wa) { with (wb) { T.sc.nest = function () { x++; return x + y + (gfree++); }; } }
try { throw 5; } catch (e) { T.sc.cat = function () { e += 1; gc += 1; return e + ':' + gc; }; }
T.sc.catw = (function () { var loc = 0; try { null.x; } catch (err) { with (cfg) { return function () { loc += step; return err.name + loc; }; } } })();
T.sc.named = function self(n) { return n ? self(n - 1) + (cnt++) : 0; };
T.sc.wobj = (function () { var o = {p: 1}, loc = 0; with (o) { return function () { p++; loc++; return p + ':' + loc + ':' + o.p; }; } })();
T.sc.wtobj = {a: 1};
with (T.sc.wtobj) { T.sc.wt = function () { a += 1; return a + ':' + (total2 += 1); }; }
with (cfg) { eval("T.sc.ev = function () { total2 += step; return total2; }"); }
with (cfg) { T.sc.get = {get v() { return (gv += step); }, set v(x) { gv = x * step; }}; }
with (cfg) { T.sc.decl = (function () { function inner() { return (gv += step) + ':' + typeof inner; } return inner; })(); }
with (cfg) { T.sc.bound = function (k) { total += k * step; return total; }.bind(null, 1); }
T.sc.deep = (function () { var a1 = 1; return (function () { var a2 = 2; with ({a3: 3}) { return (function () { var a4 = 4; try { throw 5; } catch (a5) { return function () { a1++; a2++; a3++; a4++; a5++; return [a1, a2, a3, a4, a5].join(''); }; } })(); } })(); })();
with (cfg) { T.sc.maker = function () { var made = 0; return function () { made += step; total += 1; return made + ':' + total; }; }; }
function sp(f) { try { return f(); } catch (e) { return e.name; } }
function scopeProbe() {
  var s = T.sc, late = sp(s.maker);
  return [sp(s.bump), sp(s.bump), total, sp(s.counter), sp(s.counter), sp(s.nest), sp(s.nest), wa.x, gfree, sp(s.cat), sp(s.cat), gc, sp(s.catw), sp(function () { return s.named(3); }), cnt,
    sp(s.wobj), sp(s.wobj), sp(s.wt), s.wtobj.a, sp(s.ev), total2, s.get.v, (s.get.v = 3, gv), sp(s.decl), sp(s.bound), sp(s.deep), sp(s.deep), typeof late === 'function' ? sp(late) + sp(late) : late, cfg.step].join(',');
}
function scopePeek() { return [total, total2, gfree, gc, gv, cnt, wa.x, cfg.step, T.sc.wtobj.a].join('.'); }
// every accessor function reachable from the objects of this runtime must be a function of THIS
// runtime (instanceof its Function, prototype its Function.prototype); a fresh bound function's
// caller/arguments are looked at the hard way
function accessorCensus(tag) {
  var objs = literals().concat(T.bf, [T.fn, note, T.bound, T.args, T.err, T.caught[0], T.made[0], Math.max, goS.Hello, goF, T.sc.bump, T.sc.bound, T.sc.get, T.acc, T.gs[0] || {}]);
  var fb = function () {}.bind(null, tag); objs.push(fb);
  var bad = [], n = 0;
  for (var i = 0; i < objs.length; i++) {
    var o = Object(objs[i]), ks = Object.getOwnPropertyNames(o);
    for (var j = 0; j < ks.length; j++) {
      var d = Object.getOwnPropertyDescriptor(o, ks[j]), gs = d ? [d.get, d.set] : [];
      for (var q = 0; q < 2; q++) {
        var g = gs[q];
        if (g === undefined || g === null) continue;
        n++;
        if (!(g instanceof Function) || Object.getPrototypeOf(g) !== Function.prototype || !(g instanceof Object)) bad.push(i + '.' + ks[j] + '.' + q);
      }
    }
  }
  var extra = [];
  var names = ['caller', 'arguments'];
  for (var k = 0; k < 2; k++) {
    var dc = Object.getOwnPropertyDescriptor(fb, names[k]);
    extra.push(dc ? typeof dc.get + typeof dc.set + ('value' in dc) : 'none');
    if (dc && dc.get) { dc.get['am' + tag] = tag; extra.push(Object.getOwnPropertyNames(dc.get).sort().join('.') + Object.isExtensible(dc.get)); }
    extra.push(sp(function () { return typeof fb[names[k]]; }), sp(function () { fb[names[k]] = 1; return 'set'; }));
    try { fb[names[k]]; } catch (e) { extra.push(e instanceof TypeError, String(e.stack).split('\n').length); }
  }
  return n + ':' + (bad.length ? 'notFunctionOfThisRuntime ' + bad.join() : 'own') + ':' + extra.join('.');
}
function peeks() {
  var out = [nativeCensus(), scopePeek()];
  for (var i = 0; i < T.cl.length; i++) out.push(T.cl[i].peek());
  for (var j = 0; j < T.ma.length; j++) out.push(T.ma[j].peek());
  for (var k = 0; k < T.gs.length; k++) out.push(T.gs[k].v);
  return out.join('/');
}
var glob = 0; var log = [];
function note(x) { log.push(x); if (log.length > 40) log.shift(); return log.length; }
'ready';
`

// what the template itself answers after its copies have run
const probeJS = `callerCensus() + '|' + census() + '|' + peeks() + '|' + dig(T) + '|' + glob + '|' + log.join() + '|' + [1,2].tsum() + '|' + ({}).hid + '|' + 'x'.shout() + '|' + T.counter.get() + '|' + T.margs.get() + '|' + keysIn(T.o3) + '|' + typeof Math.max(1,2) + '|' + [3,1,2].sort().join()`

type gen struct {
	r      *rand.Rand
	family bool // generating for a family job: every member has a deterministic random source
}

func (g *gen) word() string {
	pool := []string{"a", "ab", "abba", "xaay", "Hello", "wORLD", "ǅ", "ß", "İ", "ﬁ", "aaa", "b", "abcabc", "q-1", "x y", "été", "𝒳", "%41", "a,b,,c", "1e3", " 12 ", "0x1f"}
	if g.r.Intn(4) == 0 {
		n := 1 + g.r.Intn(6)
		b := make([]byte, n)
		for i := range b {
			b[i] = "abcxyzABC019 _-"[g.r.Intn(15)]
		}
		return string(b)
	}
	return Pick(g.r, pool)
}

func (g *gen) num() string {
	pool := []string{"0", "-0", "1", "-1", "0.5", "255", "1e21", "1e-7", "123.456", "4294967296", "2147483648", "NaN", "Infinity", "0.1", "1234.5678", "9007199254740993"}
	if g.r.Intn(3) == 0 {
		return fmt.Sprintf("(%d)", g.r.Intn(100000)-50000)
	}
	return "(" + Pick(g.r, pool) + ")"
}

func jsq(s string) string { b, _ := json.Marshal(s); return string(b) }

// programs that exercise machinery that could plausibly be shared between runtimes; R = runtime tag
func (g *gen) generic(R int) string {
	w, w2, n, n2 := jsq(g.word()), jsq(g.word()), g.num(), g.num()
	k := g.r.Intn(7) + 2
	switch g.r.Intn(54) {
	case 50, 51, 52, 53:
		return literalCalls(g.r, R)
	case 44, 45, 46:
		// process-wide locale machinery: every program picks its own locale
		loc := Pick(g.r, []string{"'de'", "'fr'", "'en-IN'", "'nl-NL'", "'en-US'", "'ja'", "'es'", "'pt-BR'", "", "undefined"})
		return fmt.Sprintf(`var out = []; for (var i = 0; i < %d; i++) { out.push((1234567.5 + i * %d).toLocaleString(%s)); if (i %% 3 == 0) yield(); } out.join(' ') + '|' + [1234.5, %s].toLocaleString() + '|' + (%s).toLocaleString(%s)`, k*3, R, loc, n, n2, loc)
	case 47, 48:
		return fmt.Sprintf(`var d = new Date(%d, %d, 15, 13, 45, 30, %d); [d.getHours(), d.getDay(), d.getDate(), d.toString(), d.toLocaleString(), d.toLocaleTimeString(), d.toLocaleDateString(), d.toDateString(), d.toTimeString(), d.getTimezoneOffset(), new Date(d.getTime()).setHours(%d), new Date(d.getTime()).setMonth(%d, 31), Date.parse(d.toString()), new Date(%d, 0).getFullYear()].join('|')`, 1971+R*3, k, R, k, k, R)
	case 49:
		return fmt.Sprintf(`var pats = ['a+', '[%d-9]x?', '(b|c)*d', '^\\s+|\\s+$', 'q{%d,}', '\\bw%d']; var out = []; for (var i = 0; i < pats.length; i++) { var re = new RegExp(pats[i], i %% 2 ? 'gi' : 'm'); out.push(re.test('aab%dx cd  qqqq w%d') + ':' + re.lastIndex + ':' + 'aabxcd'.replace(re, '#')); } out.join()`, R%9, k%4+1, R, R, R)
	case 0:
		return fmt.Sprintf(`var r=/a(b+)?c|(x)/gi; var s=''; for(var i=0;i<%d;i++){ s+= (%s+'xabbbcx').replace(r,'[$1$2$&]'); } s`, k, w)
	case 1:
		return fmt.Sprintf(`var re=new RegExp((%s.replace(/[^a-z]/g,'')||'a')+'+','g'); var m, out=[]; var s=%s+%s+'aab'; while((m=re.exec(s))&&out.length<9){out.push(m.index+':'+m[0]); if(m[0]==='')re.lastIndex++;} out.join()+re.lastIndex`, w, w, w2)
	case 2:
		return fmt.Sprintf(`var p=JSON.parse('{"a":[1,2,{"b":null}],"n":%d,"s":'+JSON.stringify(%s)+'}'); Object.keys(p).sort().join()+JSON.stringify(p.a)+p.n+p.s`, R*100+k, w)
	case 3:
		return fmt.Sprintf(`JSON.stringify({k:%s,n:[%s,%s],d:new Date(%d),u:undefined,f:function(){}, nested:{a:[[],{}]}}, null, %d)`, w, n, n2, R*86400000+k, k%4)
	case 4:
		return fmt.Sprintf(`JSON.stringify([%s,%s], function(k,v){ return typeof v==='number'? v+%d : v })`, n, n2, R)
	case 5:
		return fmt.Sprintf(`var d=new Date(%d); d.setUTCMonth(%d); d.toISOString()+d.getUTCDay()+d.toUTCString()+d.getTimezoneOffset()+Date.UTC(2000+%d,%d)`, int64(R)*1e11+int64(k)*86400000, k, R, k)
	case 6:
		return fmt.Sprintf(`Date.parse('20%02d-0%d-1%dT0%d:00:00Z')+':'+new Date(%d, %d, %d).getDay()+':'+new Date('2001-02-03').getTime()`, R%90+10, k, k, k, 1990+R, k, k)
	case 7:
		return `var x=Math.random(), y=Math.random(); yield(); (x>=0&&x<1&&y>=0&&y<1)+':'+typeof x`
	case 8:
		return fmt.Sprintf(`[Math.max(%s,%s),Math.min(%s,%d),Math.round(%s),Math.floor(%s),Math.pow(2,%d),Math.abs(%s),Math.sqrt(%d),Math.atan2(%d,%s)].join()`, n, n2, n, R, n, n2, k, n, k*R, R, n)
	case 9:
		return fmt.Sprintf(`%s.toUpperCase()+%s.toLowerCase()+%s.toLocaleUpperCase()+%s.localeCompare(%s)+%s.trim()+%s.charAt(%d)+%s.charCodeAt(0)`, w, w2, w, w, w2, w2, w, k%3, w2)
	case 10:
		return fmt.Sprintf(`var a=[%s,%s,%d,3,1,2,'b','a',undefined,10,9]; a.sort().join()+'|'+a.sort(function(x,y){ yield(); return (y<x?-1:y>x?1:0) }).join()`, n, n2, R)
	case 11:
		return fmt.Sprintf(`var a=[]; for(var i=0;i<%d;i++) a.push({k:(i*7+%d)%%5,i:i}); a.sort(function(x,y){return x.k-y.k}).map(function(e){return e.k}).join('')`, k*4, R)
	case 12:
		return fmt.Sprintf(`try{ null[%s] }catch(e){ e.stack+'|'+e.name+'|'+(e instanceof TypeError) }`, w)
	case 13:
		return fmt.Sprintf(`function deep%d(n){ if(n==0) throw new RangeError('r'+%d); return deep%d(n-1) } try{ deep%d(%d) }catch(e){ e.stack }`, R, R, R, R, k)
	case 14:
		return fmt.Sprintf(`try{ undefinedFn%d() }catch(e){ String(e)+(e instanceof ReferenceError) }`, R)
	case 15:
		return fmt.Sprintf(`var f=new Function('a','b','return a*'+%d+'+b'); f(%d,%s)+':'+f.length+':'+eval('var ev=%d; ev+1')+':'+eval(%s)`, R, k, n, R, jsq(fmt.Sprintf("(function(){return %d})()", R)))
	case 16:
		return fmt.Sprintf(`try { eval('var 1x%d') } catch(e) { e.name+':'+String(e) }`, R)
	case 17:
		return fmt.Sprintf(`try { new Function('return )%d') } catch(e) { e.name }`, R)
	case 18:
		return fmt.Sprintf(`Object.defineProperty(Array.prototype,'zz%d',{get:function(){return this.length+%d},configurable:true}); [1,2].zz%d + ':' + ('zz%d' in [])`, R, R, R, R)
	case 19:
		return fmt.Sprintf(`(function(){ arguments[0]=%d; return arguments.length+':'+Array.prototype.slice.call(arguments).join() })(1,%s,%s)`, R, w, n)
	case 20:
		return fmt.Sprintf(`encodeURIComponent(%s+' &/ü')+encodeURI(%s+'?a=b c')+decodeURI('%%41%%20')+decodeURIComponent('%%C3%%BC')+escape(%s)+unescape('%%FC%%u0041')`, w, w2, w)
	case 21:
		return fmt.Sprintf(`try{ decodeURIComponent('%%'+%s) }catch(e){ e.name }`, w)
	case 22:
		return fmt.Sprintf(`[parseInt(%s),parseInt('0x1f'),parseInt('%d',%d),parseFloat(%s+'e2'),Number(%s),Number(%s)].join()`, w, R, k+1, jsq(strings.Trim(n, "()-")), w, jsq(strings.Trim(n, "()")))
	case 23:
		return fmt.Sprintf(`var v=%s; [String(v),v.toString(%d),v.toFixed(%d),v.toExponential(%d),v.toPrecision(%d)].join()`, n, k+1, k, k%7, k)
	case 24:
		return fmt.Sprintf(`try{ (%s).toFixed(%d) }catch(e){ e.name }`, n, k*20)
	case 25:
		return fmt.Sprintf(`(%s).toLocaleString()+':'+(%d.5).toLocaleString()+':'+new Date(0).toLocaleDateString().length`, n, R*1000)
	case 26:
		return fmt.Sprintf(`%s.split('').length+':'+%s.split(/[b,]/).join('|')+':'+'aXbXc'.split(/x/i,%d).length+':'+%s.split(%s).length`, w, w2, k, w, w2)
	case 27:
		return fmt.Sprintf(`[%s.indexOf(%s),%s.lastIndexOf('a'),%s.search(/[a-c]/),%s.slice(-%d),%s.substr(1,%d),%s.substring(%d,1)].join()+%s.match(/./g)`, w, w2, w, w, w, k, w2, k, w, k, w2)
	case 28:
		return fmt.Sprintf(`%s.replace(/(.)(.)?/g,function(m,a,b,i){ return i+a+(b||'')+'%d' })+%s.replace('a','$&$&')+%s.replace(/a/g,"[$'$&]")`, w, R, w2, w)
	case 29:
		return fmt.Sprintf(`var o={}; o.b%d=1; o.a=2; o[%s]=3; o[%d]=4; o[1]=5; delete o.a; o.a=6; keysIn(o)+'|'+Object.keys(o).join()+'|'+JSON.stringify(o)`, R, w, k)
	case 30:
		return fmt.Sprintf(`String(new Error(%s))+(new TypeError('t%d')).name+Object.prototype.toString.call(new SyntaxError)+(new URIError('u')).message+new EvalError(%s)`, w, R, w2)
	case 31:
		return fmt.Sprintf(`var e=new Error('s%d'); e.stack=5; var d=Object.getOwnPropertyDescriptor(e,'stack'); typeof e.stack+':'+(d?Object.keys(d).sort().join():'none')`, R)
	case 32:
		return fmt.Sprintf(`var o={}; Object.defineProperty(o,'x',{get:undefined,configurable:true}); Object.defineProperty(o,'x',{set:function(v){this.y=v+%d}}); o.x=1; var d=Object.getOwnPropertyDescriptor(o,'x'); o.y+':'+typeof d.get+':'+typeof d.set`, R)
	case 33:
		return fmt.Sprintf(`typeof console+':'+typeof console.log+':'+Object.keys(console).sort().join()`)
	case 34:
		return fmt.Sprintf(`var a=[1,2,3,4,5]; [a.map(function(x){return x*%d}).join(),a.filter(function(x){return x%%2}).join(),a.reduce(function(p,c){return p+c},%d),a.reduceRight(function(p,c){return p+'-'+c}),a.some(function(x){return x>%d}),a.every(function(x){return x>0}),a.indexOf(%d),a.concat([%s],6).length,a.slice(-%d).join(),a.splice(1,%d,'s').join(),a.reverse().join()].join('|')`, R, R, k, k, n, k, k%3)
	case 35:
		return fmt.Sprintf(`var a=[]; a[%d]=1; a.length=%d; a.push(%s); a.unshift(0); var s=a.shift(); a.length+':'+a.join()+':'+s+':'+(5 in a)`, k*3, k*2, n)
	case 36:
		return fmt.Sprintf(`var s=0; for(var i=0;i<%d;i++){ if(i%%7==3) continue; s+=i*%d; if(i%%13==0) yield(); } lab: for(var j=0;j<5;j++){ for(;;){ if(j>%d) break lab; break; } s+=j } s`, k*40, R, k%5)
	case 37:
		return fmt.Sprintf(`var r=''; switch(%d){ case 1: r+='1'; case 2: r+='2'; break; case %d: r+='R'; default: r+='d' } var i=0; do { r+=i } while(++i<%d); with({wv:%d}){ r+=wv } r+(typeof undeclared%d)+(void 0)`, R, R, k%4+1, R, R)
	case 38:
		return fmt.Sprintf(`function mk(n){ var c=n; return function(){ return c++ } } var f1=mk(%d), f2=mk(%d); f1(); f1(); f2(); [f1(),f2()].join()`, R, k)
	case 39:
		return fmt.Sprintf(`function fib(n){ return n<2?n:fib(n-1)+fib(n-2) } fib(%d)+':'+(function f(n){ return n? n+f(n-1):0 })(%d)`, 8+k, R*10)
	case 40:
		return fmt.Sprintf(`var o=Object.create({p:%d},{q:{value:%s,enumerable:true}}); [o.p,o.q,Object.getPrototypeOf(o).p,o.hasOwnProperty('p'),'p' in o,Object.keys(o).join(),o.propertyIsEnumerable('q'),({}).toString.call(o),o.isPrototypeOf(o),Object.getPrototypeOf(o).isPrototypeOf(o)].join()`, R, n)
	case 41:
		return fmt.Sprintf(`var b=function(a,b,c){ return [this.t,a,b,c].join() }.bind({t:%d},%s); b(%s,3)+':'+b.length+':'+new (function(a){ this.a=a }.bind(null,%d))().a`, R, w, n, R)
	case 42:
		return fmt.Sprintf(`[typeof %s, %s+%s, %s-%s, '5'*'%d', %d/0, -%d%%3, %d<<%d, -1>>>%d, %s==%s, null==undefined, NaN!=NaN, %s<%s, !%s, ~%d, %s&&%s, %s||%s, 1,%s?%d:0].join()`, n, w, n, n, n2, R, R, R, R, k, k, w, w2, w, w2, w, R, n, n2, n, w, w, R)
	default:
		return fmt.Sprintf(`glob += %d; glob`, R)
	}
}

// programs that mutate and observe the state built by setupJS
func (g *gen) stateful(R int) string {
	k := g.r.Intn(9)
	switch g.r.Intn(44) {
	case 38, 39, 40, 41:
		return `scopeProbe() + '|' + scopePeek()`
	case 42, 43:
		return fmt.Sprintf(`accessorCensus('%d_%d')`, R, k)
	case 0:
		return fmt.Sprintf(`T.o3['k%d_%d'] = %d; dig(T.o3)+keysIn(T.o3)`, R, k, R)
	case 1:
		return fmt.Sprintf(`T.o5.n%d = [%d]; T.o5.p1 += %d; delete T.o5.p%d; dig(T.o5)`, R, k, R, k%5)
	case 2:
		return fmt.Sprintf(`T.o9['r%d'] = %d; T.o9.q%d.push(%d); yield(); dig(T.o9)`, R, R, k, R)
	case 3:
		return fmt.Sprintf(`T.arr.push(%d, %d); T.arr[%d] = 'w%d'; T.arr.length + ':' + T.arr.join() + ':' + T.arr.tsum()`, R, k, k, R)
	case 4:
		return fmt.Sprintf(`T.arr.splice(%d, 1); T.arr.reverse(); T.arr.unshift(%d); T.arr.join()`, k%4, R)
	case 5:
		return fmt.Sprintf(`T.sparse[%d] = %d; T.sparse.length += %d; dig(T.sparse)`, 7+k+R, R, k%3)
	case 6:
		return fmt.Sprintf(`T.counter.inc(); yield(); T.counter.inc(); T.counter.get()`)
	case 7:
		return fmt.Sprintf(`T.acc.v = %d; T.acc.v + ':' + T.acc._v`, R*10+k)
	case 8:
		return fmt.Sprintf(`T.date.setTime(T.date.getTime() + %d); T.date.setUTCHours(%d); T.date.toISOString()`, R*1000, k)
	case 9:
		return fmt.Sprintf(`T.re.test('x' + new Array(%d).join('a') + 'yaa'); T.re.lastIndex + ':' + T.re.test('aaaa') + ':' + T.re.lastIndex`, R+2)
	case 10:
		return fmt.Sprintf(`T.rei.lastIndex = %d; var m = T.rei.exec('aBcbC'.slice(%d)); dig(m) + T.rei.lastIndex + T.rei.source`, R, k%3)
	case 11:
		return fmt.Sprintf(`T.err.message += '%d'; T.err['x%d'] = %d; String(T.err) + dig(T.err)`, R, R, k)
	case 12:
		return fmt.Sprintf(`T.args[0] = %d; T.args[%d] = 'n'; T.args.length + dig(T.args)`, R, 3+k%2)
	case 13:
		return fmt.Sprintf(`T.margs.set(%d) + '|' + T.margs.get()`, R*7+k)
	case 14:
		return fmt.Sprintf(`T.fn(%d); T.fn.meta['t%d'] = %d; T.fn.calls + dig(T.fn)`, R, R, k)
	case 15:
		return fmt.Sprintf(`T.nested.x.y.z[1].w += %d; T.nested.x.y.z.push(%d); T.nested.x['n%d'] = {}; dig(T.nested) + JSON.stringify(T.nested)`, R, k, R)
	case 16:
		return fmt.Sprintf(`Array.prototype.tsum = function () { return %d + this.length; }; [1, 2, 3].tsum() + ':' + T.arr.tsum()`, R*100)
	case 17:
		return fmt.Sprintf(`Object.prototype.hid = %d; ({}).hid + ':' + [].hid + ':' + T.o3.hid`, R)
	case 18:
		return fmt.Sprintf(`Object.defineProperty(T.o3, 'g%d', {get: function () { return %d; }, enumerable: %v, configurable: true}); dig(T.o3) + T.o3.g%d`, R, R*3, k%2 == 0, R)
	case 19:
		return fmt.Sprintf(`Math.max = function () { return %d; }; Math['c%d'] = %d; Math.max(1, 2) + ':' + Math.c%d + ':' + Math.min(3, 4)`, R, R, k, R)
	case 20:
		return fmt.Sprintf(`String.prototype.shout = function () { return this + '%d'; }; 'a'.shout() + T.str.shout() + T.str.length`, R)
	case 21:
		return fmt.Sprintf(`T.bound(%d) + ':' + T.bound(%d)`, R, k)
	case 22:
		return fmt.Sprintf(`T.proto.inherited.push(%d); T.proto.own += %d; dig(Object.getPrototypeOf(T.proto)) + dig(T.proto) + keysIn(T.proto)`, R, R)
	case 23:
		return fmt.Sprintf(`var r = []; try { 'use strict'; T.frozen.q = %d; } catch (e) { r.push(e.name); } T.frozen.in_.push(%d); T.sealed.r = %d; T.sealed['z%d'] = 1; T.noext['z%d'] = 1; delete T.noext.s; r.join() + dig(T.frozen) + dig(T.sealed) + dig(T.noext)`, R, R, R, R, R)
	case 24:
		return fmt.Sprintf(`T.cyc['c%d'] = T.cyc; T.cyc.name += '%d'; dig(T.cyc)`, R, R)
	case 25:
		return fmt.Sprintf(`T.ctor.prototype.twice = function () { return this.n * %d; }; T.inst.n += %d; T.inst.twice() + ':' + new T.ctor(%d).twice() + ':' + (T.inst instanceof T.ctor)`, R+2, R, k)
	case 26:
		return fmt.Sprintf(`T.str['x%d'] = %d; T.num.y = T.num + %d; T.bool.z = !T.bool; dig(T.str) + dig(T.num) + dig(T.bool)`, R, k, R)
	case 27:
		return fmt.Sprintf(`glob += %d; note('g%d_' + glob); glob + ':' + log.join()`, R, R)
	case 28:
		return fmt.Sprintf(`function again%d() { return %d + glob; } this['dyn%d'] = again%d; note(typeof again%d); again%d() + ':' + Object.keys(this).length`, R, k, R, R, R, R)
	case 29:
		return fmt.Sprintf(`delete T.o3.a; delete T.o3.k%d_%d; T.o3.a = %d; keysIn(T.o3) + dig(T.o3)`, R, k, R)
	case 30:
		return fmt.Sprintf(`Object.defineProperty(T.o5, 'p2', {enumerable: false, writable: %v}); T.o5.p2 = %d; dig(T.o5) + keysIn(T.o5)`, k%2 == 0, R)
	case 31:
		return fmt.Sprintf(`Object.freeze(T.o9.q%d); T.o9.q%d.push && (function () { try { T.o9.q%d.push(%d); } catch (e) { note(e.name); } })(); dig(T.o9) + log.join()`, k, k, k, R)
	case 32:
		return fmt.Sprintf(`Date.prototype.getTime = (function (orig) { return function () { return orig.call(this) + %d; }; })(Date.prototype.getTime); T.date.getTime() + ':' + new Date(5).getTime()`, R)
	case 33:
		return fmt.Sprintf(`RegExp.prototype.test = (function (orig) { return function (s) { note('t%d'); return orig.call(this, s); }; })(RegExp.prototype.test); /b/.test('abc') + ':' + T.re.test('a') + ':' + log.join()`, R)
	case 34:
		return fmt.Sprintf(`Error.prototype.name = 'E%d'; Function.prototype.tag = %d; JSON.tag = %d; String(new Error('m')) + ':' + T.fn.tag + ':' + JSON.tag + ':' + String(T.err)`, R, R, R)
	case 35:
		return fmt.Sprintf(`undefined_global_%d = %d; var declared_%d = %d; dig(T.args) + (typeof undefined_global_%d) + this.declared_%d`, R, k, R, k, R, R)
	case 36:
		return `dig(T)`
	default:
		return probeJS
	}
}


// job-specific state: closures with many captured variables at several depths,
// objects and arrays of boundary sizes, mapped arguments objects, accessors over hidden state
func (g *gen) extraSetup() string {
	r := g.r
	var b strings.Builder
	sizes := []int{0, 1, 2, 3, 4, 5, 7, 8, 9, 15, 16, 17, 31, 32, 33, 64, 65}
	ncl := 1 + r.Intn(4)
	for c := 0; c < ncl; c++ {
		nv := Pick(r, []int{1, 2, 3, 4, 5, 8, 9, 16, 17})
		depth := 1 + r.Intn(3)
		var decl, bump, list []string
		for i := 0; i < nv; i++ {
			decl = append(decl, fmt.Sprintf("v%d=%d", i, i))
			bump = append(bump, fmt.Sprintf("v%d+=k+%d;", i, i))
			list = append(list, fmt.Sprintf("v%d", i))
		}
		extraVars := []string{}
		if depth >= 2 {
			extraVars = append(extraVars, "u")
		}
		if depth >= 3 {
			extraVars = append(extraVars, "t")
		}
		for _, v := range extraVars {
			bump = append(bump, v+"+=k;")
			list = append(list, v)
		}
		obj := fmt.Sprintf("{bump:function(k){%s return [%s].join();},peek:function(){return [%s].join();},mk:function(){var own=0;return function(){own++;v0++;return own+':'+v0;};}}", strings.Join(bump, ""), strings.Join(list, ","), strings.Join(list, ","))
		inner := "return " + obj + ";"
		if depth >= 3 {
			inner = "return (function(){var t=1000;" + inner + "})();"
		}
		if depth >= 2 {
			inner = "return (function(){var u=100;" + inner + "})();"
		}
		fmt.Fprintf(&b, "T.cl.push((function(){var %s;%s})());\n", strings.Join(decl, ","), inner)
	}
	nob := 1 + r.Intn(4)
	for c := 0; c < nob; c++ {
		fmt.Fprintf(&b, "(function(m){var o={};for(var i=0;i<m;i++)o['f'+i]=i;T.ob.push(o);})(%d);\n", Pick(r, sizes))
	}
	nar := 1 + r.Intn(3)
	for c := 0; c < nar; c++ {
		fmt.Fprintf(&b, "(function(m){var a=[];for(var i=0;i<m;i++)a.push(i%%7);T.ar.push(a);})(%d);\n", Pick(r, sizes))
	}
	nma := 1 + r.Intn(3)
	for c := 0; c < nma; c++ {
		np, na := r.Intn(5), r.Intn(7)
		var ps, as []string
		for i := 0; i < np; i++ {
			ps = append(ps, fmt.Sprintf("p%d", i))
		}
		for i := 0; i < na; i++ {
			as = append(as, fmt.Sprintf("%d", 10+i))
		}
		plist := "''"
		setp := "return 'nop';"
		if np > 0 {
			plist = "[" + strings.Join(ps, ",") + "].join()"
			setp = fmt.Sprintf("p%d=v;return g[%d];", np-1, np-1)
		}
		fmt.Fprintf(&b, "T.ma.push((function(%s){var g=arguments;return {g:g,set:function(i,v){g[i]=v;return %s;},setp:function(v){%s},del:function(i){return delete g[i];},def:function(i,v){Object.defineProperty(g,String(i),{value:v,writable:true,enumerable:true,configurable:true});return g[i];},peek:function(){return %s+'|'+Array.prototype.join.call(g)+'|'+g.length;}};})(%s));\n",
			strings.Join(ps, ","), plist, setp, plist, strings.Join(as, ","))
	}
	ngs := 1 + r.Intn(3)
	for c := 0; c < ngs; c++ {
		fmt.Fprintf(&b, "T.gs.push((function(){var hidden=%d;var o={};Object.defineProperty(o,'v',{get:function(){return hidden;},set:function(x){hidden=x+1;},enumerable:true,configurable:true});return o;})());\n", r.Intn(100))
	}
	nbf := r.Intn(4)
	for c := 0; c < nbf; c++ {
		nb := r.Intn(6)
		args := []string{fmt.Sprintf("'g%d'", c)}
		for i := 0; i < nb; i++ {
			switch r.Intn(5) {
			case 0:
				args = append(args, fmt.Sprintf("{toString:function(){return 'O%d';}}", i))
			case 1:
				args = append(args, fmt.Sprintf("'s%d'", i))
			default:
				args = append(args, fmt.Sprint(i*3))
			}
		}
		fmt.Fprintf(&b, "T.bf.push(function(){return [String(this)].concat(Array.prototype.slice.call(arguments)).join('.');}.bind(%s));\n", strings.Join(args, ","))
	}
	b.WriteString("'extra';")
	return b.String()
}

var builtinExprs = []string{"Object", "Function", "Array", "String", "Boolean", "Number", "Math", "Date", "RegExp", "Error", "EvalError", "TypeError", "RangeError", "ReferenceError", "SyntaxError", "URIError", "JSON",
	"Object.prototype", "Function.prototype", "Array.prototype", "String.prototype", "Boolean.prototype", "Number.prototype", "Date.prototype", "RegExp.prototype", "Error.prototype",
	"EvalError.prototype", "TypeError.prototype", "RangeError.prototype", "ReferenceError.prototype", "SyntaxError.prototype", "URIError.prototype", "console", "this", "eval", "parseInt", "Math.max", "Array.prototype.push", "Object.prototype.toString"}

// programs over the job-specific state and over every built-in object
func (g *gen) shaped(R int) string {
	r := g.r
	i, k := r.Intn(8), r.Intn(9)
	switch r.Intn(29) {
	case 22, 23:
		return fmt.Sprintf(`sweep('%d_%d')`, R, k)
	case 24, 25:
		return fmt.Sprintf(`callBound('%d_%d')`, R, k)
	case 26, 27:
		return fmt.Sprintf(`var f = T.bf[%d %% T.bf.length]; f(%d, 'x%d', {toString: function () { yield(); return 'q%d'; }}, %d) + '|' + f() + '|' + f.length`, i+k, R, R, R, k)
	case 28:
		if g.family {
			return `settingsProbe()`
		}
		return `settingsProbeNR()`
	case 0, 1:
		return fmt.Sprintf(`var c = T.cl[%d %% T.cl.length]; c.bump(%d) + '|' + c.peek()`, i, R)
	case 2:
		return fmt.Sprintf(`var c = T.cl[%d %% T.cl.length]; var f = c.mk(); f(); yield(); f() + '|' + c.peek()`, i)
	case 3, 4:
		return fmt.Sprintf(`var o = T.ob[%d %% T.ob.length]; o['n%d_%d'] = %d; delete o.f%d; keysIn(o) + dig(o)`, i, R, k, R, k)
	case 5:
		return fmt.Sprintf(`var o = T.ob[%d %% T.ob.length]; for (var q = 0; q < %d; q++) o['g%d_' + q] = q; Object.keys(o).length + ':' + keysIn(o)`, i, k*3, R)
	case 6, 7:
		return fmt.Sprintf(`var a = T.ar[%d %% T.ar.length]; a.push(%d); a[a.length + %d] = %d; a.length + ':' + a.join()`, i, R, k%3, R)
	case 8:
		return fmt.Sprintf(`var a = T.ar[%d %% T.ar.length]; a.length = Math.max(0, a.length - %d); a.sort(function (x, y) { return (x || 0) - (y || 0) + %d * 0; }); a.length + ':' + a.join()`, i, k, R)
	case 9:
		return fmt.Sprintf(`var m = T.ma[%d %% T.ma.length]; m.set(%d, %d) + '|' + m.peek()`, i, k%5, R)
	case 10:
		return fmt.Sprintf(`var m = T.ma[%d %% T.ma.length]; m.setp(%d) + '|' + m.peek()`, i, R*11)
	case 11:
		return fmt.Sprintf(`var m = T.ma[%d %% T.ma.length]; m.del(%d) + '|' + m.set(%d, %d) + '|' + m.peek()`, i, k%4, k%4, R)
	case 12:
		return fmt.Sprintf(`var m = T.ma[%d %% T.ma.length]; m.def(%d, %d) + '|' + m.setp(%d) + '|' + m.peek() + dig(m.g)`, i, k%4, R, R+1)
	case 13:
		return fmt.Sprintf(`var s = T.gs[%d %% T.gs.length]; s.v = %d; s.v + ':' + dig(s)`, i, R*5+k)
	case 14, 15, 16:
		e := Pick(r, builtinExprs)
		return fmt.Sprintf(`var B = %s; B['m%d_%d'] = %d; Object.getOwnPropertyNames(B).length + ':' + B['m%d_%d'] + ':' + census()`, e, R, k, R, R, k)
	case 17, 18:
		return fmt.Sprintf(`var L = literals(); var P = Object.getPrototypeOf(Object(L[%d %% L.length])); P['lp%d'] = %d; Object.getOwnPropertyNames(P).length + ':' + census()`, r.Intn(40), R, R)
	case 19:
		m := Pick(r, []string{"String.prototype.trim", "Array.prototype.indexOf", "Object.keys", "JSON.stringify", "Math.abs", "Date.now", "Number.prototype.toFixed", "RegExp.prototype.exec", "Function.prototype.bind", "Error.prototype.toString"})
		return fmt.Sprintf(`var was = typeof %s; delete %s; was + ':' + typeof %s + ':' + census()`, m, m, m)
	case 20:
		return fmt.Sprintf(`Array.prototype.push = function (x) { this[this.length] = x + %d; return -1; }; var a = []; a.push(1); parseInt = function () { return %d; }; a[0] + ':' + parseInt('5') + ':' + [1].concat([2]).length`, R, R)
	default:
		return fmt.Sprintf(`console['c%d'] = %d; console.log = function () { return %d; }; console.log() + ':' + Object.keys(console).sort().join()`, R, k, R)
	}
}



// programs that call and construct things that are not functions - above all the literals true, false
// and null, whose compiled node is one package-level singleton - at generated source positions, and
// report name, message and position of each TypeError
func literalCalls(r *rand.Rand, tag int) string {
	callees := []string{"null", "true", "false", "null", "true", "false", "1", "'s'", "undefined", "({})", "[]", "/x/", "o.nope", "o.num", "Math.PI", "NaN", "this.zzz"}
	var b strings.Builder
	for i := r.Intn(4); i > 0; i-- {
		b.WriteString("\n")
	}
	b.WriteString(strings.Repeat(" ", r.Intn(9)))
	fmt.Fprintf(&b, "var o = {num: %d}, out = [];\n", tag)
	b.WriteString("function pos(e) { var m = /:(\\d+):(\\d+)/.exec(String(e.stack)); return e.name + ':' + e.message + '@' + (m ? m[1] + ':' + m[2] : 'nowhere') + '/' + String(e.stack).split('\\n').length; }\n")
	n := 4 + r.Intn(6)
	for i := 0; i < n; i++ {
		c := Pick(r, callees)
		pad := strings.Repeat(" ", r.Intn(12))
		if r.Intn(3) == 0 {
			pad = "\n" + pad
		}
		switch r.Intn(4) {
		case 0:
			fmt.Fprintf(&b, "try {%s new %s(%d); } catch (e) { out.push(pos(e)); }\n", pad, c, i)
		case 1:
			fmt.Fprintf(&b, "(function f%d() { try {%s %s(%d, 'a'); } catch (e) { out.push(pos(e)); } })();\n", i, pad, c, i)
		case 2:
			fmt.Fprintf(&b, "try { eval(%s); } catch (e) { out.push(pos(e)); }\n", jsq(pad+c+"()"))
		default:
			fmt.Fprintf(&b, "try {%s %s(); } catch (e) { out.push(pos(e)); }\n", pad, c)
		}
	}
	b.WriteString("out.join(' ')")
	return b.String()
}

// programs that DEFINE new functions and objects (in a copy: after Copy()) and then use the services the
// runtime provides through them: caller, arguments/callee, stack traces, eval, Function, bind, accessors
func (g *gen) postcopy(R int) string {
	k := g.r.Intn(6)
	switch g.r.Intn(12) {
	case 0, 1:
		return fmt.Sprintf(`function pcOuter%d() { return pcInner%d(); } function pcInner%d() { var c = pcInner%d.caller; return (c === pcOuter%d) + ':' + (c ? c.name : c); } pcOuter%d() + '|' + (function viaAnon() { return pcInner%d(); })() + '|' + pcInner%d()`, R, R, R, R, R, R, R, R)
	case 2:
		return fmt.Sprintf(`function pcF%d() {} var g = Object.getOwnPropertyDescriptor(pcF%d, 'caller').get; g['mk%d_%d'] = %d; Object.getOwnPropertyNames(g).sort().join() + ':' + typeof g + ':' + callerCensus()`, R, R, R, k, R)
	case 3:
		return fmt.Sprintf(`function pcA%d(a, b) { arguments[0] = %d; b = 'B'; return a + ':' + arguments[1] + ':' + arguments.length + ':' + (arguments.callee === pcA%d) + ':' + pcA%d.length + ':' + (pcA%d.caller === pcCallA%d); } function pcCallA%d() { return pcA%d(1, 2, 3); } pcCallA%d()`, R, R, R, R, R, R, R, R, R)
	case 4:
		return fmt.Sprintf(`function pcT%d(n) { if (!n) throw new Error('pc%d'); return pcT%d(n - 1); } try { pcT%d(%d); } catch (e) { e.stack; }`, R, R, R, R, k+1)
	case 5:
		return fmt.Sprintf(`eval('function pcE%d(x) { return pcE%d.caller === pcCallE%d ? x * 2 : String(pcE%d.caller); }'); function pcCallE%d() { return pcE%d(%d); } pcCallE%d() + ':' + eval('(function () { return typeof pcE%d.caller; })()')`, R, R, R, R, R, R, R, R, R)
	case 6:
		return fmt.Sprintf(`function pcB%d() { var c = pcB%d.caller; return c === null ? 'null' : (c && c.name) + ':' + typeof c; } var pcb = pcB%d.bind(null, %d); function pcBC%d() { return pcb(); } pcBC%d() + '|' + pcb()`, R, R, R, k, R, R)
	case 7:
		return fmt.Sprintf(`var pco = {tag: %d, get v() { var me = Object.getOwnPropertyDescriptor(pco, 'v').get; return typeof me.caller + ':' + (me.caller === pcG%d) + ':' + this.tag; }}; function pcG%d() { return pco.v; } pcG%d() + '|' + pco.v`, R, R, R, R)
	case 8:
		return fmt.Sprintf(`var pcf = new Function('return arguments.callee.caller ? arguments.callee.caller.name : String(arguments.callee.caller)'); function pcN%d() { return pcf(); } pcN%d() + '|' + pcf()`, R, R)
	case 9:
		return fmt.Sprintf(`function c1_%d() { return c2_%d(); } function c2_%d() { return c3_%d(); } function c3_%d() { var s = [], f = c3_%d, i = 0; while (f && i++ < 5) { s.push(f.name); f = f.caller; } return s.join('<'); } c1_%d()`, R, R, R, R, R, R, R)
	case 10:
		return fmt.Sprintf(`function pcRec%d(n) { yield(); return n ? pcRec%d(n - 1) : (pcRec%d.caller === pcRec%d) + ':' + pcRec%d.caller.name; } pcRec%d(%d) + '|' + callerCensus()`, R, R, R, R, R, R, k+1)
	default:
		return fmt.Sprintf(`var made = []; for (var i = 0; i < %d; i++) made.push(function pcM(x) { return pcM.caller === pcUse%d ? x : -x; }); function pcUse%d() { var t = 0; for (var i = 0; i < made.length; i++) t += made[i](i + %d); return t; } pcUse%d() + ':' + callerCensus()`, k+2, R, R, R, R)
	}
}


// programs over what exists in a template BEFORE Copy and is backed by native Go closures or bridged
// Go values: method wrappers of a bridged struct, Error.stack accessors, function caller accessors,
// bridged maps/slices/arrays/funcs, and instanceof against the runtime's own intrinsics
func (g *gen) native(R int) string {
	k := g.r.Intn(15)
	switch g.r.Intn(12) {
	case 9:
		// results of bridged funcs are objects of the CALLING runtime's heap
		return fmt.Sprintf(`var a = goMk(%d), l = goS.List(%d); Object.getPrototypeOf(a)['bp%d'] = %d; a.push(%d); l[0] = 'w%d'; [Object.getPrototypeOf(a) === Array.prototype, a instanceof Array, a.join(''), [].bp%d, l instanceof Array, l.length, l[0], goArr().join(''), goMk(0).length].join() + '|' + nativeCensus()`, R, k%4, R, R, R, R, R)
	case 10:
		return fmt.Sprintf(`var o = goObj(%d), s = goSt('s%d'); o['x%d'] = %d; o.l.push('r%d'); s.Count = %d; [o.n, Object.keys(o).sort().join(''), o.l.join(''), o.l instanceof Array, s.Name, s.Count, s.Label(), s.Sum(1, 2), s.Hello instanceof Function, typeof s.List, goObj(1).l.length, goSt('t').Count].join() + '|' + nativeCensus()`, R, R, R, R, R, k)
	case 11:
		return fmt.Sprintf(`var r = []; try { goF(1); } catch (e) { r.push(e instanceof RangeError, e.name); } try { goF({}, 'x%d'); } catch (e) { r.push(e instanceof TypeError, e.name); } try { goMk(); } catch (e) { r.push(e instanceof Error, Object.getPrototypeOf(e) === RangeError.prototype); } r.join() + '|' + goF(%d, 3)`, R, R)
	case 0, 1:
		return fmt.Sprintf(`goS.Hello.mark = %d; var h = goS.Hello; h.own = %d; [typeof goS.Hello.mark, h.own, goS.Hello instanceof Function, Object.getPrototypeOf(goS.Hello) === Function.prototype, goS.Hello('r%d'), goS.Sum(%d, 1), goS.Label(), goV.Label(), String(goS.Hello).length].join() + '|' + nativeCensus()`, R, R, R, R)
	case 2:
		return fmt.Sprintf(`Function.prototype['fp%d'] = %d; var m = [goS.Hello, goS.Sum, goV.Label, goF, goC]; var out = []; for (var i = 0; i < m.length; i++) { m[i]['w%d'] = i; out.push(m[i]['fp%d'] + ':' + (m[i] instanceof Function) + ':' + typeof m[i]['w%d']); } out.join() + '|' + nativeCensus()`, R, R, R, R, R)
	case 3, 4:
		return fmt.Sprintf(`var a = T.made[%d %% T.made.length], b = T.caught[%d %% T.caught.length]; a.stack = 'rw%d'; b.stack = %d; [typeof a.stack, String(a.stack).slice(0, 14), typeof b.stack, String(b.stack).slice(0, 14), a.message, b.name].join() + '|' + nativeCensus()`, k, k, R, R)
	case 5:
		return fmt.Sprintf(`var e = T.caught[%d %% T.caught.length]; e.message = 'm%d'; var d = delete e.stack; e.stack = 's%d'; [d, typeof e.stack, e.stack, 'stack' in e, String(e)].join() + '|' + nativeCensus()`, k, R, R)
	case 6:
		return fmt.Sprintf(`[goM.a, goM.b, goM.c.length, goM.c[1], Object.keys(goM).sort().join(''), goL.join(''), goL.length, goA.length, goA[1], goF(%d, 2), goC(%d, 'z'), goS.Name, goS.Count, goS.Tags.join(''), goV.Name, typeof goM.nope, 'a' in goM, 1 in goL].join()`, R, R)
	case 7:
		return fmt.Sprintf(`var en = 'none'; try { T.fn.caller = %d; } catch (e) { en = e.name; } try { Object.defineProperty(note, 'caller', {value: %d}); } catch (e) { en += e.name; } [typeof T.fn.caller, en, typeof note.caller, T.fn(2)].join() + '|' + nativeCensus()`, R, R)
	default:
		return `[T.arr instanceof Array, T.fn instanceof Function, T.err instanceof RangeError, T.err instanceof Error, T.date instanceof Date, T.re instanceof RegExp, T.caught[0] instanceof TypeError, T.caught[1] instanceof ReferenceError, goS.Hello instanceof Function, goF instanceof Function, goC instanceof Object, Object.getPrototypeOf(T.o3) === Object.prototype, Object.getPrototypeOf(T.caught[2]) === RangeError.prototype, T.bf[1] instanceof Function, T.args instanceof Object].join()`
	}
}

// programs whose function literals have their own vars and nested function declarations that
// matter (hoisting, two closures over one local, recursion through a nested declaration): run again and
// again from one shared Program/Script, every run must behave like the first
func (g *gen) nested(R int) string {
	k := g.r.Intn(5)
	switch g.r.Intn(8) {
	case 0, 1:
		return `(function () { function mk() { var n = 0; function bump() { n++; return n; } function get() { return n; } return {bump: bump, get: get}; } var a = mk(), b = mk(); a.bump(); a.bump(); b.bump(); return [a.get(), b.get(), typeof n, typeof bump].join(); })()`
	case 2:
		return fmt.Sprintf(`function fact(k) { var r = 1; function go(i) { if (i > k) return; r *= i; go(i + 1); } go(1); return r; } [fact(5), fact(%d), typeof r, typeof go].join()`, R%6+k+1)
	case 3:
		return `var g1 = 'G'; var f = function () { var g1 = 'L'; var h = function () { var g1 = 'LL'; return g1; }; return g1 + h(); }; f() + g1`
	case 4:
		return `function outerH() { return innerH() + typeof later + typeof innerH; function innerH() { return 'in'; } var later = 1; } outerH() + typeof later + typeof innerH`
	case 5:
		return fmt.Sprintf(`function mkAll() { var fs = []; for (var i = 0; i < 3; i++) { fs.push((function (j) { var k = j * %d; return function () { return k + j; }; })(i)); } return fs; } mkAll().map(function (f) { return f(); }).join() + typeof i + typeof k + typeof fs`, R+k)
	case 6:
		return fmt.Sprintf(`var o = {get p() { var t = %d; function d() { return t * 2; } return d(); }, set p(v) { var w = v; this._w = (function () { var z = w + 1; return z; })(); }}; o.p = %d; o.p + ':' + o._w + typeof t + typeof d + typeof w + typeof z`, R, k)
	default:
		return fmt.Sprintf(`function counter() { var c = 0; function inc() { return ++c; } return inc; } var c1 = counter(), c2 = counter(); c1(); c1(); c2(); try { undefinedAfterHoist(); } catch (e) { var en = e.name; } [c1(), c2(), typeof c, typeof inc, en, %d].join()`, R)
	}
}

// a family job: root template with Interrupt and all settings configured before it is copied;
// members that keep what Copy gave them, members that configure their own afterwards, copies of copies
func (g *gen) familyJob() Job {
	r := g.r
	g.family = true
	defer func() { g.family = false }()
	j := Job{Mode: 9, Setup: g.extraSetup()}
	n := 3 + r.Intn(5)
	for i := 0; i < n; i++ {
		m := Member{Parent: -1, Trace: -1, Random: -1}
		if i == 0 {
			m.OwnInt = r.Intn(6) != 0
			if r.Intn(2) == 0 {
				// a root without pending halts runs CONCURRENTLY with its copies; with one it runs last
				m.Halt = []int{0}
				if r.Intn(3) == 0 {
					m.Halt = append(m.Halt, 2)
				}
			}
			m.Stack = 60 + r.Intn(200)
			m.Trace = Pick(r, []int{0, 1, 5, 10, 25, 40})
			m.Random = float64(r.Intn(1000)) / 1024
			m.Dbg = "root"
		} else {
			m.Parent = r.Intn(i)
			if r.Intn(3) == 0 {
				m.Parent = 0
			}
			m.OwnInt = r.Intn(2) == 0
			if m.OwnInt {
				for k := 0; k < 8; k++ {
					if r.Intn(4) == 0 {
						m.Halt = append(m.Halt, k)
					}
				}
			}
			if r.Intn(3) == 0 {
				m.Stack = 60 + r.Intn(200)
			}
			if r.Intn(3) == 0 {
				m.Trace = Pick(r, []int{0, 1, 5, 10, 25, 40})
			}
			if r.Intn(3) == 0 {
				m.Random = float64(r.Intn(1000)) / 1024
			}
			if r.Intn(3) == 0 {
				m.Dbg = fmt.Sprintf("m%d", i)
			}
		}
		j.Family = append(j.Family, m)
		np := 3 + r.Intn(6)
		var ps []string
		for k := 0; k < np; k++ {
			switch r.Intn(11) {
			case 9, 10:
				ps = append(ps, g.native(i+1))
			case 0, 1:
				ps = append(ps, `settingsProbe()`)
			case 2:
				ps = append(ps, g.stateful(i+1))
			case 3, 4:
				ps = append(ps, g.shaped(i+1))
			case 5, 6:
				ps = append(ps, g.postcopy(i+1))
			case 7:
				ps = append(ps, g.nested(i+1))
			default:
				ps = append(ps, g.generic(i+1))
			}
		}
		ps = append(ps, `settingsProbe()`, probeJS)
		j.Progs = append(j.Progs, ps)
		j.Yield = append(j.Yield, r.Intn(4))
	}
	return j
}

func (g *gen) job(idx int) Job {
	r := g.r
	if idx%10 >= 8 {
		return g.familyJob()
	}
	mode := idx % 9
	if r.Intn(5) == 0 {
		mode = r.Intn(9)
	}
	sharing := mode % 3
	nrt := 2 + r.Intn(4)
	if r.Intn(6) == 0 {
		nrt = 6 + r.Intn(3)
	}
	j := Job{Mode: mode, Setup: g.extraSetup()}
	var pool []string // shared scripts: several runtimes run the very same text (hence the same Script/Program object)
	if sharing != 0 {
		np := 3 + r.Intn(6)
		for i := 0; i < np; i++ {
			// a shared program cannot mention the runtime tag: it is the same text for all
			switch r.Intn(9) {
			case 7, 8:
				pool = append(pool, literalCalls(r, 7))
			case 6:
				pool = append(pool, g.native(7))
			case 0:
				pool = append(pool, g.generic(7))
			case 1:
				pool = append(pool, g.stateful(7))
			case 2:
				pool = append(pool, g.shaped(7))
			case 3:
				pool = append(pool, g.postcopy(7))
			default:
				pool = append(pool, g.nested(7))
			}
		}
	}
	for rt := 0; rt < nrt; rt++ {
		np := 3 + r.Intn(7)
		var ps []string
		for i := 0; i < np; i++ {
			switch {
			case sharing != 0 && r.Intn(4) != 0:
				ps = append(ps, Pick(r, pool))
			case r.Intn(4) == 0:
				ps = append(ps, g.stateful(rt+1))
			case r.Intn(5) == 0:
				ps = append(ps, g.native(rt+1))
			case r.Intn(3) == 0:
				ps = append(ps, g.shaped(rt+1))
			case r.Intn(2) == 0:
				ps = append(ps, g.postcopy(rt+1))
			case r.Intn(4) == 0:
				ps = append(ps, g.nested(rt+1))
			default:
				ps = append(ps, g.generic(rt+1))
			}
		}
		if mode/3 == 0 || r.Intn(2) == 0 {
			// each runtime with its own locale, somewhere in its list
			loc := Pick(r, []string{"'de'", "'fr'", "'en-IN'", "'nl-NL'", "'en-US'", "'ja'", "'es'", "undefined"})
			at := r.Intn(len(ps) + 1)
			ps = append(ps[:at], append([]string{fmt.Sprintf(`wideProbe(%s, %d)`, loc, rt+1)}, ps[at:]...)...)
		}
		ps = append(ps, probeJS)
		j.Progs = append(j.Progs, ps)
		j.Yield = append(j.Yield, r.Intn(4))
	}
	if mode/3 != 0 && r.Intn(3) != 0 {
		// the template goes on working after it has been copied (tag 0)
		nt := 2 + r.Intn(5)
		for i := 0; i < nt; i++ {
			switch {
			case sharing != 0 && r.Intn(3) == 0:
				j.TProgs = append(j.TProgs, Pick(r, pool))
			case r.Intn(3) == 0:
				j.TProgs = append(j.TProgs, g.postcopy(0))
			case r.Intn(3) == 0:
				j.TProgs = append(j.TProgs, g.native(0))
			case r.Intn(2) == 0:
				j.TProgs = append(j.TProgs, g.stateful(0))
			default:
				j.TProgs = append(j.TProgs, g.shaped(0))
			}
		}
	}
	return j
}

// pinned program sets, run first on every seed: every runtime appends distinct
// properties to the same template objects and enumerates them; all runtimes
// execute one function-heavy shared script many times
func pinnedJobs() []Job {
	var js []Job
	for _, mode := range []int{3, 6, 1, 2, 4} {
		j := Job{Mode: mode, Pin: "pinned"}
		for rt := 0; rt < 4; rt++ {
			R := rt + 1
			var ps []string
			if mode%3 == 0 {
				for i := 0; i < 6; i++ {
					ps = append(ps, fmt.Sprintf(`T.o3['k%d_%d'] = %d; T.o5['k%d_%d'] = 1; T.o9['k%d_%d'] = 1; T.arr.push(%d); T.counter.inc(); T.re.test('xaa'); keysIn(T.o3) + '|' + keysIn(T.o5) + '|' + keysIn(T.o9) + '|' + T.arr.join() + '|' + T.counter.get() + '|' + T.re.lastIndex`, R, i, R, R, i, R, i, R*10+i))
				}
				ps = append(ps, fmt.Sprintf(`sweep('p%d')`, R))
				for i := 0; i < 4; i++ {
					ps = append(ps, fmt.Sprintf(`callBound('p%d_%d')`, R, i))
				}
				ps = append(ps, `scopeProbe() + '|' + scopePeek()`, fmt.Sprintf(`accessorCensus('p%d')`, R), `scopeProbe() + '|' + scopePeek()`)
				ps = append(ps,
					fmt.Sprintf(`goS.Hello.mark = %d; [typeof goS.Hello.mark, goS.Hello instanceof Function, Object.getPrototypeOf(goS.Hello) === Function.prototype, goS.Hello('p'), goS.Sum(%d, 1)].join() + '|' + nativeCensus()`, R, R),
					fmt.Sprintf(`T.made[0].stack = 'rw%d'; T.caught[0].stack = %d; [typeof T.made[0].stack, String(T.made[0].stack).slice(0, 14), typeof T.caught[0].stack].join() + '|' + nativeCensus()`, R, R),
					fmt.Sprintf(`function pcOuter%d() { return pcInner%d(); } function pcInner%d() { var c = pcInner%d.caller; return (c === pcOuter%d) + ':' + (c ? c.name : c); } pcOuter%d() + '|' + callerCensus()`, R, R, R, R, R, R),
					fmt.Sprintf(`function pcF%d() {} var g = Object.getOwnPropertyDescriptor(pcF%d, 'caller').get; g['mk%d'] = %d; Object.getOwnPropertyNames(g).sort().join() + ':' + callerCensus()`, R, R, R, R))
			} else {
				shared := `function mkc(){ var n=0; function bump(){ n++; return n } function get(){ return n } return {bump:bump,get:get} } var pa=mkc(), pb=mkc(); pa.bump(); pa.bump(); pb.bump(); function hoist(){ return inner()+typeof later; function inner(){ return 'in' } var later=1 } var pre=[pa.get(),pb.get(),typeof n,typeof bump,hoist(),typeof inner].join()+'#'; function w(n){ var o={}, a=[]; for(var i=0;i<n;i++){ o['k'+i]=i; a.push(function(){ return i }); } try { null.x } catch(e) { o.e=e.name } var r=/k(\d)/g, s=''; keysIn(o).replace(r,function(m,d){ s+=d }); return s+a.length+o.e+[3,1,2].sort().join()+JSON.stringify({a:[1,{b:2}]})+new Date(0).toISOString()+(1.5).toFixed(1)+'A'.toLowerCase() } glob += 1; T.counter.inc(); pre + w(12) + glob + T.counter.get()`
				for i := 0; i < 8; i++ {
					ps = append(ps, shared)
				}
			}
			ps = append(ps, probeJS)
			j.Progs = append(j.Progs, ps)
			j.Yield = append(j.Yield, rt%3)
		}
		if mode/3 == 1 {
			j.TProgs = []string{`scopeProbe() + '|' + scopePeek()`, `accessorCensus('t')`, `goS.Hello.mark = 't'; T.made[1].stack = 'rwT'; [typeof goS.Hello.mark, goS.Hello instanceof Function, typeof T.made[1].stack].join() + '|' + nativeCensus()`, `function tOuter() { return tInner(); } function tInner() { return (tInner.caller === tOuter) + ':' + callerCensus(); } tOuter()`, `callBound('t')`, `sweep('t')`, `glob += 100; T.counter.inc(); tOuter() + glob`}
		}
		js = append(js, j)
	}
	// fresh runtimes on different goroutines formatting with different locales and local time
	loc := Job{Mode: 0, Pin: "pinned"}
	for rt, l := range []string{"'de'", "'en-US'", "'fr'", "'en-IN'", "", "'nl-NL'"} {
		var ps []string
		for i := 0; i < 6; i++ {
			ps = append(ps, fmt.Sprintf(`var out = []; for (var i = 0; i < 12; i++) { out.push((1234567.5 + i + %d).toLocaleString(%s)); if (i %% 4 == 0) yield(); } out.join(' ') + '|' + new Date(2000 + %d, %d, 1, 12).toLocaleString() + '|' + Math.round(Math.random())*0`, i, l, rt, i))
		}
		ps = append(ps, fmt.Sprintf(`accessorCensus('l%d')`, rt), `scopeProbe()`, probeJS)
		loc.Progs = append(loc.Progs, ps)
		loc.Yield = append(loc.Yield, rt%3)
	}
	js = append(js, loc)
	// a supervised template (Interrupt, limits, random source, debugger handler set before Copy), two
	// copies that keep what Copy gave them, one that configures its own, and a copy of that copy
	fam := Job{Mode: 9, Pin: "pinned", Family: []Member{
		{Parent: -1, OwnInt: true, Halt: []int{0}, Stack: 120, Trace: 5, Random: 0.25, Dbg: "root"},
		{Parent: 0, Trace: -1, Random: -1},
		{Parent: 0, Trace: -1, Random: -1},
		{Parent: 0, OwnInt: true, Halt: []int{1}, Stack: 80, Trace: 25, Random: 0.5, Dbg: "m3"},
		{Parent: 3, Trace: -1, Random: -1},
	}}
	for rt := range fam.Family {
		ps := []string{`glob += 1; for (var i = 0; i < 10; i++) { glob++; } glob`, `settingsProbe()`, fmt.Sprintf(`callBound('f%d')`, rt), `scopeProbe() + '|' + scopePeek()`, fmt.Sprintf(`accessorCensus('f%d')`, rt),
			fmt.Sprintf(`function fo%d() { return fi%d(); } function fi%d() { return (fi%d.caller === fo%d) + ':' + callerCensus(); } fo%d()`, rt, rt, rt, rt, rt, rt), `settingsProbe()`, probeJS}
		fam.Progs = append(fam.Progs, ps)
		fam.Yield = append(fam.Yield, rt%3)
	}
	js = append(js, fam)
	return js
}

// ---------------------------------------------------------------- running (child side)

func resultText(o Outcome) string {
	switch {
	case o.Panic != nil:
		return fmt.Sprintf("!panic %v", o.Panic)
	case o.Err != nil:
		return "!err " + o.Err.Error()
	}
	return o.Val.String()
}

func yieldFn() { goruntime.Gosched() }

const defaultStackLimit = 400

// registry entries of the harness (registered at import time, as add-on packages do):
// regMark defines a global every runtime created while it is enabled must have; regQuiet has an empty
// program, so whether it is enabled cannot be observed by scripts - it is disabled while the fresh
// runtimes of a job are created concurrently and enabled again afterwards.
var (
	regMark  = registry.Register(func() string { return "var regMark = 42;" })
	regQuiet = registry.Register(func() string { return "0;" })
)

// Go values bridged into every template BEFORE any Copy.  Each template gets its own instances;
// programs only call the (pure) methods and read the containers, because the Go data behind a
// bridged value is shared with copies by design and writing it is the host's business.
type goThing struct {
	Name  string
	Count int
	Tags  []string
}

func (g *goThing) Hello(who string) string { return "hello " + who + " from " + g.Name }
func (g *goThing) Sum(a, b int) int        { return a + b + g.Count }
func (g goThing) Label() string            { return g.Name + "#" + fmt.Sprint(len(g.Tags)) }
func (g *goThing) List(n int) []string      { return append([]string{g.Name}, make([]string, n)...) }

func bridge(vm *otto.Otto) {
	Must(vm.Set("goS", &goThing{Name: "gs", Count: 7, Tags: []string{"a", "b"}}))
	Must(vm.Set("goV", goThing{Name: "gv", Count: 1}))
	Must(vm.Set("goM", map[string]interface{}{"a": 1, "b": "two", "c": []int{1, 2, 3}}))
	Must(vm.Set("goL", []string{"x", "y", "z"}))
	Must(vm.Set("goA", [3]int{4, 5, 6}))
	Must(vm.Set("goF", func(a, b int) string { return fmt.Sprint(a*b, ":", a+b) }))
	// funcs whose results are objects: built afresh on every call, in the runtime of the call
	Must(vm.Set("goMk", func(n int) []int { return []int{n, n + 1, n + 2} }))
	Must(vm.Set("goObj", func(n int) map[string]interface{} { return map[string]interface{}{"n": n, "l": []string{"p", "q"}} }))
	Must(vm.Set("goSt", func(name string) *goThing { return &goThing{Name: name, Count: len(name)} }))
	Must(vm.Set("goArr", func() [2]string { return [2]string{"u", "v"} }))
	Must(vm.Set("goC", func(call otto.FunctionCall) otto.Value {
		v, _ := call.Otto.ToValue(fmt.Sprint(len(call.ArgumentList), ":", call.Argument(0).String()))
		return v
	}))
}

var errHalt = errors.New("halt")

// what a member ends up with: its own settings over what Copy carried over from its ancestors
// (Interrupt is never carried over: Copy returns a fresh Otto handle)
func effective(fam []Member, i int) Member {
	m := fam[i]
	for p := m.Parent; p >= 0; p = fam[p].Parent {
		a := fam[p]
		if m.Stack == 0 {
			m.Stack = a.Stack
		}
		if m.Trace < 0 {
			m.Trace = a.Trace
		}
		if m.Random < 0 {
			m.Random = a.Random
		}
		if m.Dbg == "" {
			m.Dbg = a.Dbg
		}
	}
	return m
}

func applySettings(vm *otto.Otto, m Member) {
	if m.OwnInt {
		vm.Interrupt = make(chan func(), 8)
	}
	if m.Stack > 0 {
		vm.SetStackDepthLimit(m.Stack)
	}
	if m.Trace >= 0 {
		vm.SetStackTraceLimit(m.Trace)
	}
	if m.Random >= 0 {
		r := m.Random
		vm.SetRandomSource(func() float64 { return r })
	}
	if m.Dbg != "" {
		tag := m.Dbg
		vm.SetDebuggerHandler(func(v *otto.Otto) { _ = v.Set("dbgSeen", tag) })
	}
}

func queueHalt(vm *otto.Otto) {
	if vm.Interrupt == nil {
		return
	}
	select {
	case vm.Interrupt <- func() { panic(errHalt) }:
	default:
	}
}

// runMember: the programs of one family member; a halt is queued on the member's own channel
// before the programs listed in m.Halt (the root's first halt may already have been queued: skipFirst)
func runMember(vm *otto.Otto, m Member, rt int, ps []string, yield int, skipFirst bool, out *[]Ev) {
	halt := map[int]bool{}
	for _, k := range m.Halt {
		halt[k] = true
	}
	for i, p := range ps {
		if m.OwnInt && halt[i] && !(skipFirst && i == 0) {
			queueHalt(vm)
		}
		o := RunJS(vm, p)
		*out = append(*out, Ev{Rt: rt, Res: resultText(o), Ts: time.Now().UnixNano()})
		if yield > 0 && i%yield == 0 {
			goruntime.Gosched()
		}
	}
}

// runFamily (mode 9): a template, copies, copies of copies, each with its own per-Otto settings.
// Alone: a never-copied runtime that is given the member's effective settings directly.
// Together: the family is built in the main goroutine (copy, then the copy's own settings), the
// root's first halt is queued BEFORE any other member starts, all other members run concurrently
// and the root runs last: whatever is pending for the root must still be there for it.
func runFamily(idx int, j Job) JobResult {
	res := JobResult{Idx: idx}
	n := len(j.Family)
	for rt := 0; rt < n; rt++ {
		var evs []Ev
		vm := newTemplate(j.Setup)
		e := effective(j.Family, rt)
		applySettings(vm, e)
		runMember(vm, e, rt, j.Progs[rt], 0, false, &evs)
		tr := make([]string, len(evs))
		for i, ev := range evs {
			tr[i] = ev.Res
		}
		res.Seq = append(res.Seq, tr)
	}
	vms := make([]*otto.Otto, n)
	for rt := 0; rt < n; rt++ {
		m := j.Family[rt]
		if m.Parent < 0 {
			vms[rt] = newTemplate(j.Setup)
		} else {
			vms[rt] = vms[m.Parent].Copy()
		}
		applySettings(vms[rt], m)
	}
	rootHalted := false
	if root := j.Family[0]; root.OwnInt && len(root.Halt) > 0 && root.Halt[0] == 0 {
		queueHalt(vms[0])
		rootHalted = true
	}
	per := make([][]Ev, n)
	var wg sync.WaitGroup
	start := make(chan struct{})
	for rt := 1; rt < n; rt++ {
		wg.Add(1)
		go func(rt int) {
			defer wg.Done()
			<-start
			runMember(vms[rt], j.Family[rt], rt, j.Progs[rt], j.Yield[rt], false, &per[rt])
		}(rt)
	}
	rootConcurrent := !(j.Family[0].OwnInt && len(j.Family[0].Halt) > 0)
	if rootConcurrent {
		wg.Add(1)
		go func() {
			defer wg.Done()
			<-start
			runMember(vms[0], j.Family[0], 0, j.Progs[0], j.Yield[0], false, &per[0])
		}()
	}
	close(start)
	wg.Wait()
	if !rootConcurrent {
		runMember(vms[0], j.Family[0], 0, j.Progs[0], 0, rootHalted, &per[0])
	}
	for _, evs := range per {
		res.Conc = append(res.Conc, evs...)
	}
	sort.SliceStable(res.Conc, func(a, b int) bool { return res.Conc[a].Ts < res.Conc[b].Ts })
	return res
}

func newTemplate(extra string) *otto.Otto {
	vm := otto.New()
	vm.SetStackDepthLimit(defaultStackLimit) // depthProbe() recurses until the limit
	Must(vm.Set("yield", yieldFn))
	bridge(vm)
	if o := RunJS(vm, setupJS); o.Err != nil || o.Panic != nil {
		panic(fmt.Sprintf("setup script failed: %v %v", o.Err, o.Panic))
	}
	if extra != "" {
		if o := RunJS(vm, extra); o.Err != nil || o.Panic != nil {
			panic(fmt.Sprintf("job setup script failed: %v %v\n%s", o.Err, o.Panic, extra))
		}
	}
	return vm
}

type shared struct {
	scripts  map[string]*otto.Script
	programs map[string]*ast.Program
}

func compileShared(j Job) *shared {
	sh := &shared{scripts: map[string]*otto.Script{}, programs: map[string]*ast.Program{}}
	switch j.Mode % 3 {
	case 1:
		c := otto.New()
		for _, ps := range j.Progs {
			for _, p := range ps {
				if _, ok := sh.scripts[p]; !ok {
					s, err := c.Compile("", p)
					if err == nil {
						sh.scripts[p] = s
					}
				}
			}
		}
	case 2:
		for _, ps := range j.Progs {
			for _, p := range ps {
				if _, ok := sh.programs[p]; !ok {
					pr, err := parser.ParseFile(nil, "", p, 0)
					if err == nil {
						sh.programs[p] = pr
					}
				}
			}
		}
	}
	return sh
}

func runOne(vm *otto.Otto, sh *shared, p string) Outcome {
	if sh != nil {
		if s, ok := sh.scripts[p]; ok {
			return Guard(func() (otto.Value, error) { return vm.Run(s) })
		}
		if pr, ok := sh.programs[p]; ok {
			return Guard(func() (otto.Value, error) { return vm.Run(pr) })
		}
	}
	return RunJS(vm, p)
}

func runList(vm *otto.Otto, sh *shared, rt int, ps []string, yield int, out *[]Ev) {
	for i, p := range ps {
		o := runOne(vm, sh, p)
		*out = append(*out, Ev{Rt: rt, Res: resultText(o), Ts: time.Now().UnixNano()})
		if yield > 0 && i%yield == 0 {
			goruntime.Gosched()
		}
	}
}

func runJob(idx int, j Job) JobResult {
	if len(j.Family) > 0 {
		return runFamily(idx, j)
	}
	res := JobResult{Idx: idx}
	origin := j.Mode / 3
	n := len(j.Progs)
	// --- each runtime alone, private template, private compilation
	for rt := 0; rt < n; rt++ {
		var evs []Ev
		// never a copy: a copy of a template must behave as the runtime it was copied from
		vm := newTemplate(j.Setup)
		runList(vm, nil, rt, j.Progs[rt], 0, &evs)
		tr := make([]string, len(evs))
		for i, e := range evs {
			tr[i] = e.Res
		}
		res.Seq = append(res.Seq, tr)
	}
	if origin != 0 {
		// the template alone: copied n times, copies left idle, then probed
		t := newTemplate(j.Setup)
		for rt := 0; rt < n; rt++ {
			_ = t.Copy()
		}
		var evs []Ev
		runList(t, nil, n, append(append([]string{}, j.TProgs...), probeJS), 0, &evs)
		tr := make([]string, len(evs))
		for i, e := range evs {
			tr[i] = e.Res
		}
		res.Seq = append(res.Seq, tr)
	}
	// --- all runtimes together
	sh := compileShared(j)
	var template *otto.Otto
	vms := make([]*otto.Otto, n)
	if origin != 0 {
		template = newTemplate(j.Setup)
	}
	if origin == 1 {
		for rt := range vms {
			vms[rt] = template.Copy()
		}
	}
	per := make([][]Ev, n)
	var wg sync.WaitGroup
	start := make(chan struct{})
	for rt := 0; rt < n; rt++ {
		wg.Add(1)
		go func(rt int) {
			defer wg.Done()
			<-start
			vm := vms[rt]
			switch origin {
			case 0:
				vm = newTemplate(j.Setup)
			case 2:
				vm = template.Copy()
			}
			runList(vm, sh, rt, j.Progs[rt], j.Yield[rt], &per[rt])
		}(rt)
	}
	var tevs []Ev
	if origin == 1 && len(j.TProgs) > 0 {
		// the copies exist: the template works concurrently with them
		wg.Add(1)
		go func() {
			defer wg.Done()
			<-start
			runList(template, sh, n, j.TProgs, 1, &tevs)
		}()
	}
	if origin == 0 {
		regQuiet.Disable() // otto.New() in the goroutines scans the registry with a disabled entry in it
	}
	close(start)
	wg.Wait()
	regQuiet.Enable()
	for _, evs := range per {
		res.Conc = append(res.Conc, evs...)
	}
	if origin != 0 {
		if origin == 2 {
			runList(template, sh, n, j.TProgs, 0, &tevs)
		}
		runList(template, nil, n, []string{probeJS}, 0, &tevs)
		res.Conc = append(res.Conc, tevs...)
	}
	sort.SliceStable(res.Conc, func(a, b int) bool { return res.Conc[a].Ts < res.Conc[b].Ts })
	return res
}

func childMain(args []string) {
	if len(args) < 2 {
		fmt.Fprintln(os.Stderr, "usage: -child jobs.json start")
		os.Exit(2)
	}
	bs, err := os.ReadFile(args[0])
	Must(err)
	var jobs []Job
	Must(json.Unmarshal(bs, &jobs))
	var start, end int
	fmt.Sscanf(args[1], "%d", &start)
	end = len(jobs)
	if len(args) > 2 {
		fmt.Sscanf(args[2], "%d", &end)
	}
	if goruntime.GOMAXPROCS(0) < 4 {
		goruntime.GOMAXPROCS(4)
	}
	w := bufio.NewWriter(os.Stdout)
	for i := start; i < end && i < len(jobs); i++ {
		fmt.Fprintf(os.Stderr, "@@job %d\n", i)
		// a job takes well under a second; one that does not end (a runtime wedged by state that
		// another runtime changed under it) is an observation too
		wd := time.AfterFunc(150*time.Second, func() {
			fmt.Fprintf(os.Stderr, "job %d did not finish within 150 s (runtimes wedged)\n", i)
			os.Exit(67)
		})
		r := runJob(i, jobs[i])
		wd.Stop()
		b, _ := json.Marshal(r)
		w.Write(b)
		w.WriteByte('\n')
		w.Flush()
	}
}

// ---------------------------------------------------------------- parent side

type observed struct {
	res      *JobResult
	abnormal int    // exit code, 0 = none
	report   string // head of the child's stderr
}

func runBatch(exe, jobsFile string, from, to int, out []observed) {
	for from < to {
		cmd := exec.Command(exe, "-child", jobsFile, fmt.Sprint(from), fmt.Sprint(to))
		cmd.Env = append(os.Environ(), "GORACE=halt_on_error=1 exitcode=66", "GOMAXPROCS=4")
		var stdout, stderr bytes.Buffer
		cmd.Stdout, cmd.Stderr = &stdout, &stderr
		done := make(chan error, 1)
		Must(cmd.Start())
		go func() { done <- cmd.Wait() }()
		var err error
		select {
		case err = <-done:
		case <-time.After(time.Duration(120+20*(to-from)) * time.Second):
			_ = cmd.Process.Kill()
			err = fmt.Errorf("timeout")
			<-done
		}
		next := from
		sc := bufio.NewScanner(&stdout)
		sc.Buffer(make([]byte, 1<<20), 1<<28)
		for sc.Scan() {
			var r JobResult
			if json.Unmarshal(sc.Bytes(), &r) == nil && r.Idx >= from && r.Idx < to {
				rr := r
				out[r.Idx].res = &rr
				if r.Idx+1 > next {
					next = r.Idx + 1
				}
			}
		}
		if err == nil {
			return
		}
		// the job that was running when the child ended is `next`
		code := 1
		if ee, ok := err.(*exec.ExitError); ok {
			code = ee.ExitCode()
			if code <= 0 {
				code = 1
			}
		} else {
			code = 124
		}
		if next >= to {
			return
		}
		out[next].abnormal = code
		out[next].report = reportHead(stderr.String())
		from = next + 1
	}
}

func reportHead(s string) string {
	// keep what follows the last job marker
	if i := strings.LastIndex(s, "@@job "); i >= 0 {
		s = s[i:]
		if k := strings.Index(s, "\n"); k >= 0 {
			s = s[k+1:]
		}
	}
	lines := strings.Split(s, "\n")
	var keep []string
	for _, l := range lines {
		l = strings.TrimRight(l, " \t")
		if l == "" {
			continue
		}
		keep = append(keep, strings.TrimSpace(l))
		if len(keep) >= 28 {
			break
		}
	}
	return strings.Join(keep, " / ")
}

// ---- pinned witnesses of recorded findings (sequential, no goroutines) ----

// C20-bridged-func-template-runtime (fixed by 0e6c197, class 30 no longer accepted): a Go func bridged
// into a template and called in a copy used to build its result with the TEMPLATE's runtime.  The
// witness stays pinned as a regression case: the copy must get an array of its own heap and the
// template must not see what the copy writes on that array's prototype.
func pinnedFindings(env *Env) {
	tpl := otto.New()
	Must(tpl.Set("mk", func() []int { return []int{1, 2} }))
	cp := tpl.Copy()
	a := resultText(RunJS(cp, `var a = mk(); (Object.getPrototypeOf(a) === Array.prototype) + ':' + (a instanceof Array)`))
	_ = RunJS(cp, `Object.getPrototypeOf(mk()).c20leak = 'from copy'; 0`)
	b := resultText(RunJS(tpl, `String([].c20leak)`))
	obs := a + "|" + b
	const required = "true:true|undefined"
	txt := fmt.Sprintf("pinned regression (fixed finding C20-bridged-func-template-runtime): template.Set('mk', func() []int); copy := template.Copy(); copy: var a = mk(); (Object.getPrototypeOf(a) === Array.prototype) + ':' + (a instanceof Array); copy: Object.getPrototypeOf(mk()).c20leak = 'from copy'; template: String([].c20leak) => required %q", required)
	env.Add(fmt.Sprintf("CPin 30 %s %s %s", cResult(obs), cResult(required), cResult(required)), txt, "pinned regression", true)
	if obs != required {
		env.Add(fmt.Sprintf("CPin 30 %s %s %s", cResult(obs), cResult(required), cResult(required)), "pinned regression OBSERVED "+obs, "pinned regression", true)
	}
	pinnedEquivalence(env)
	pinnedScriptReuse(env)
	pinnedRegistry(env)
	pinnedInterleave(env)
}

// programs that call other() at the moment a built-in is half-way through its work (an argument being
// converted, a callback running); %[1]d is the tag of the runtime
var interleaveProgs = []string{
	`var ob = {toString: function () { other(); return 'o%[1]d'; }}; var out = []; for (var i = 0; i < T.bf.length; i++) out.push(String(T.bf[i](ob, 'x%[1]d')) + '/' + String(T.bf[i](ob, %[1]d, 'y%[1]d')) + '/' + String(T.bf[i]('z%[1]d', ob, 'w%[1]d', ob))); out.join('|')`,
	`var d = new Date(2020, 0, 15), yv = {valueOf: function () { other(); return 20 + %[1]d; }}; d.setUTCHours(10 + %[1]d, yv, 30, 400 + %[1]d); var r = [d.toISOString()]; d.setHours(%[1]d, 2, yv); d.setMinutes(yv, 3, 4); d.setUTCSeconds(7, yv); d.setMonth(%[1]d, yv); d.setUTCFullYear(1990 + %[1]d, 1, yv); d.setFullYear(2000 + %[1]d, yv, 5); r.push(d.toISOString()); r.join()`,
	`var a = (1234567.5 + %[1]d).toLocaleString(['de', 'fr', 'en-IN', 'nl-NL'][%[1]d %% 4]); other(); a + '|' + (7654321.25 + %[1]d).toLocaleString(['de', 'fr', 'en-IN', 'nl-NL'][%[1]d %% 4]) + '|' + [1234.5, %[1]d].toLocaleString()`,
	`[3, 1, 2, %[1]d, 10, 7].sort(function (a, b) { other(); return a - b; }).join() + '|' + 'abc'.replace(/./g, function (m) { other(); return m + %[1]d; }) + '|' + JSON.stringify({a: {toJSON: function () { other(); return %[1]d; }}, b: [%[1]d]}) + '|' + [1, 2, 3].map(function (x) { other(); return x * %[1]d; }).join()`,
	`var s1 = scopeProbe(); other(); s1 + '#' + scopeProbe() + '#' + scopePeek()`,
	`var r = []; try { null(); } catch (e) { other(); r.push(e.name + String(e.stack).split('\n')[1]); } try { new true(%[1]d); } catch (e) { r.push(String(e.stack).split('\n')[1]); } function deep(n) { if (!n) { other(); throw new Error('d%[1]d'); } return deep(n - 1); } try { deep(%[1]d); } catch (e) { r.push(e.stack); } r.join()`,
	`var re = /a(b+)?/g, str = 'xabbyab%[1]d'; var m1 = re.exec(str); other(); var m2 = re.exec(str); [m1 && m1.index, re.lastIndex, m2 && m2[0], RegExp.$1, 'A%[1]dB'.toLowerCase(), encodeURIComponent('ü%[1]d'), parseInt('%[1]d7', 8), (%[1]d.5).toFixed(2)].join()`,
	`callBound('i%[1]d') + other() + nativeCensus() + accessorCensus('i%[1]d')`,
}

// pinnedInterleave (class 34), sequential and on every seed: runtime A is half-way through a built-in
// when ANOTHER runtime B (a sibling copy of the same template, or an unrelated fresh runtime) runs the
// same kind of program to completion - on the same goroutine, through a Go hook, so the interleaving is
// exact and there is no race.  A must answer what it answers when nothing happens in between.
func pinnedInterleave(env *Env) {
	noop := func() string { return "" }
	for k, pf := range interleaveProgs {
		progA, progB := fmt.Sprintf(pf, 1), fmt.Sprintf(pf, 2)
		alone := newTemplate("")
		Must(alone.Set("other", noop))
		required := resultText(RunJS(alone, progA))
		for variant := 0; variant < 2; variant++ {
			var a, b *otto.Otto
			who := "B is a sibling copy of A's template"
			if variant == 0 {
				t := newTemplate("")
				Must(t.Set("other", noop))
				a, b = t.Copy(), t.Copy()
			} else {
				who = "A and B are unrelated fresh runtimes"
				a, b = newTemplate(""), newTemplate("")
				Must(b.Set("other", noop))
			}
			Must(a.Set("other", func() string { _ = RunJS(b, progB); return "" }))
			obs := resultText(RunJS(a, progA))
			txt := fmt.Sprintf("pinned interleave #%d (%s): A runs %s with other() = B runs the same program with tag 2; required = A's answer with other() doing nothing", k, who, jsq(progA))
			env.Add(fmt.Sprintf("CPin 34 %s %s %s", cResult(obs), cResult(required), cResult(required)), txt, "pinned interleave", true)
			if obs != required {
				env.Add(fmt.Sprintf("CPin 34 %s %s %s", cResult(obs), cResult(required), cResult(required)),
					fmt.Sprintf("pinned interleave #%d (%s) OBSERVED %s, alone %s", k, who, clip(obs, 900), clip(required, 900)), "pinned interleave", true)
			}
		}
	}
}

// pinnedScriptReuse (class 32), sequential, every seed: a compiled Script / parsed Program whose errors
// carry source positions is run, then UNRELATED runtimes compile and run other programs of the same kind
// (Run(string), Compile, eval, Function), then the same Script/Program is run again on the same
// runtime, on a fresh one and on a copy: every run must report what the first run reported.
func pinnedScriptReuse(env *Env) {
	r := rand.New(rand.NewSource(20))
	for k := 0; k < 4; k++ {
		src := literalCalls(r, 1)
		a := otto.New()
		script, err := a.Compile("a.js", src)
		prog, perr := parser.ParseFile(nil, "a.js", src, 0)
		if err != nil || perr != nil {
			panic(fmt.Sprint("pinned script does not compile: ", err, perr))
		}
		run := func(vm *otto.Otto, what interface{}) string {
			return resultText(Guard(func() (otto.Value, error) { return vm.Run(what) }))
		}
		required := run(a, script) + " ## " + run(otto.New(), prog)
		// unrelated compilations in between
		for i := 0; i < 3; i++ {
			b := otto.New()
			other := literalCalls(r, 2+i)
			_ = RunJS(b, other)
			_, _ = b.Compile("b.js", other)
			_ = RunJS(b, "eval("+jsq("try { null(); } catch (e) {} try { new true(); } catch (e) {} try {   false(); } catch (e) {}")+")")
			_ = RunJS(b, "new Function("+jsq("try {\n\n  null(); } catch (e) {} try { new false; } catch (e) {}")+")()")
		}
		cp := a.Copy()
		obs := []string{run(a, script) + " ## " + run(a, prog), run(otto.New(), script) + " ## " + run(otto.New(), prog), run(cp, script) + " ## " + run(cp, prog)}
		who := []string{"the same runtime again", "fresh runtimes", "a copy of the first runtime"}
		for i, o := range obs {
			txt := fmt.Sprintf("pinned script reuse #%d: Script/Program compiled from %s; first run; three unrelated runtimes compile and run other programs that call/construct literals; then run again on %s; required = the first outcome", k, jsq(src), who[i])
			env.Add(fmt.Sprintf("CPin 32 %s %s %s", cResult(o), cResult(required), cResult(required)), txt, "pinned script reuse", true)
			if o != required {
				env.Add(fmt.Sprintf("CPin 32 %s %s %s", cResult(o), cResult(required), cResult(required)),
					fmt.Sprintf("pinned script reuse #%d OBSERVED on %s: got %s, first run gave %s", k, who[i], clip(o, 900), clip(required, 900)), "pinned script reuse", true)
			}
		}
	}
}

// pinnedRegistry (class 33), sequential, every seed: creating a runtime only READS the registry.  A
// runtime created while an entry is disabled lacks the entry's globals, one created after it was
// enabled again has them - whatever runtimes were created in between.
func pinnedRegistry(env *Env) {
	probe := func() string { return resultText(RunJS(otto.New(), `typeof regMark === 'undefined' ? 'absent' : 'present:' + regMark`)) }
	var obs []string
	obs = append(obs, probe())
	regMark.Disable()
	obs = append(obs, probe(), probe())
	regMark.Enable()
	obs = append(obs, probe())
	regQuiet.Disable()
	obs = append(obs, probe())
	regMark.Disable()
	regQuiet.Enable()
	obs = append(obs, probe())
	regMark.Enable()
	obs = append(obs, probe(), probe())
	o := strings.Join(obs, "|")
	const required = "present:42|absent|absent|present:42|present:42|absent|present:42|present:42"
	txt := "pinned registry: e = registry.Register(var regMark = 42), q = registry.Register(empty program); New(); e.Disable(); New(); New(); e.Enable(); New(); q.Disable(); New(); e.Disable(); q.Enable(); New(); e.Enable(); New(); New(): each fresh runtime reports typeof regMark; required " + required
	env.Add(fmt.Sprintf("CPin 33 %s %s %s", cResult(o), cResult(required), cResult(required)), txt, "pinned registry", true)
	if o != required {
		env.Add(fmt.Sprintf("CPin 33 %s %s %s", cResult(o), cResult(required), cResult(required)), "pinned registry OBSERVED "+o, "pinned registry", true)
	}
}

// the deterministic probes of the setup library, one after the other
var equivalenceProbes = []string{
	`scopeProbe() + '|' + scopePeek()`, `scopeProbe() + '|' + scopePeek()`, `accessorCensus('q')`, `callBound('q')`, `nativeCensus()`, `callerCensus()`,
	`settingsProbeNR()`, `sweep('q')`, `T.counter.inc(); T.counter.get() + T.margs.set(3) + T.bound(1) + T.acc.v`, `accessorCensus('r')`, `scopePeek() + '|' + census() + '|' + dig(T).length`,
}

// pinnedEquivalence (class 31), sequential and identical on every seed: the probe sequence on
//   a second and third FRESH runtime of the process,
//   two copies of a template, a copy of a copy, and then the template itself,
// must each give exactly what it gives on the first fresh runtime of this run: a later runtime, a
// copy or a copied-from template is not allowed to differ from a runtime that is alone.
func pinnedEquivalence(env *Env) {
	runAll := func(vm *otto.Otto) string {
		var out []string
		for _, p := range equivalenceProbes {
			out = append(out, resultText(RunJS(vm, p)))
		}
		return strings.Join(out, " ## ")
	}
	required := runAll(newTemplate(""))
	tpl := newTemplate("")
	c1, c2 := tpl.Copy(), tpl.Copy()
	c3 := c1.Copy()
	who := []string{"second fresh runtime", "third fresh runtime", "copy 1", "copy 2", "copy of copy 1 (made before copy 1 ran)", "the template after its copies ran"}
	vms := []*otto.Otto{newTemplate(""), newTemplate(""), c1, c2, c3, tpl}
	for i, vm := range vms {
		obs := runAll(vm)
		txt := fmt.Sprintf("pinned equivalence: %s runs the probe sequence %s; required = what the first fresh runtime of the run answers", who[i], jsq(strings.Join(equivalenceProbes, " ; ")))
		env.Add(fmt.Sprintf("CPin 31 %s %s %s", cResult(obs), cResult(required), cResult(required)), txt, "pinned equivalence", true)
		if obs != required {
			a, b := strings.Split(obs, " ## "), strings.Split(required, " ## ")
			d := ""
			for k := range b {
				if k < len(a) && a[k] != b[k] {
					d = fmt.Sprintf("probe %q: got %s, alone %s", equivalenceProbes[k], clip(a[k], 500), clip(b[k], 500))
					break
				}
			}
			env.Add(fmt.Sprintf("CPin 31 %s %s %s", cResult(obs), cResult(required), cResult(required)), "pinned equivalence OBSERVED "+who[i]+" differs: "+d, "pinned equivalence", true)
		}
	}
}

func cResult(s string) string {
	u := Units(s)
	h := fnv.New64a()
	h.Write([]byte(s))
	head := u
	if len(head) > 40 {
		head = head[:40]
	}
	items := make([]string, 0, len(head)+2)
	for _, c := range head {
		items = append(items, fmt.Sprint(c))
	}
	items = append(items, fmt.Sprint(len(u)), fmt.Sprint(h.Sum64()>>2))
	return Clist(items)
}

func clip(s string, n int) string {
	if len(s) > n {
		return s[:n] + "…"
	}
	return s
}

var modeNames = []string{"fresh/source", "fresh/shared-Script", "fresh/shared-Program", "copies/source", "copies/shared-Script", "copies/shared-Program", "concurrent-Copy/source", "concurrent-Copy/shared-Script", "concurrent-Copy/shared-Program", "family/per-Otto-settings"}

func main() {
	if len(os.Args) > 1 && os.Args[1] == "-child" {
		childMain(os.Args[2:])
		return
	}
	env := FromFlags("c20_race")
	env.Import = "Otto.C20.Corr"
	env.Rule = "a case = one job: 2-8 runtimes (fresh / copies of one template / copies made concurrently / a family of template, copies and copies of copies with per-Otto settings and own interrupts; running source text / the same compiled Scripts / the same parsed Programs), each with its own program list (3-10 programs mutating and digesting a rich shared-looking state, bound functions with 0-5 bound arguments called with extra arguments, plus regexp, JSON, Date, Math.random, case mapping, sort, stack traces, eval/Function, number formatting, URI coding), run once alone and once concurrently under the race detector; non-trivial = the completion order of the concurrent run genuinely interleaves the runtimes (it is not a concatenation of solo runs) and no runtime's trace is empty"
	g := &gen{r: env.Rng}
	jobs := pinnedJobs()
	for len(jobs) < env.N {
		jobs = append(jobs, g.job(len(jobs)))
	}
	jobsFile := filepath.Join(env.Out, "jobs.json")
	bs, _ := json.Marshal(jobs)
	Must(os.WriteFile(jobsFile, bs, 0o644))
	exe, err := os.Executable()
	Must(err)
	workers := goruntime.NumCPU() / 3
	if workers < 2 {
		workers = 2
	}
	if workers > 6 {
		workers = 6
	}
	obs := make([]observed, len(jobs))
	per := (len(jobs) + workers - 1) / workers
	var wg sync.WaitGroup
	for w := 0; w < workers; w++ {
		from, to := w*per, (w+1)*per
		if to > len(jobs) {
			to = len(jobs)
		}
		if from >= to {
			break
		}
		wg.Add(1)
		go func(from, to int) {
			defer wg.Done()
			runBatch(exe, jobsFile, from, to, obs)
		}(from, to)
	}
	wg.Wait()

	pinnedFindings(env)
	races, interleaved := 0, 0
	var failures []string
	for i, j := range jobs {
		o := obs[i]
		n := len(j.Progs)
		if j.Mode/3 != 0 && len(j.Family) == 0 {
			n++ // the template probe
		}
		progText, _ := json.Marshal(j.Progs)
		bucket := modeNames[j.Mode]
		// the deterministic description of the job: identical on every run with the same seed, so that a
		// replay finds the case again; what was observed for a failing job goes into a second case
		desc := fmt.Sprintf("job=%d mode=%d(%s) runtimes=%d yield=%v programs=%s setup=%s", i, j.Mode, bucket, len(j.Progs), j.Yield, string(progText), jsq(j.Setup))
		if len(j.Family) > 0 {
			fb, _ := json.Marshal(j.Family)
			desc += " family=" + string(fb)
		}
		if len(j.TProgs) > 0 {
			tb, _ := json.Marshal(j.TProgs)
			desc += " template-programs=" + string(tb)
		}
		if j.Pin != "" {
			desc = "pinned " + desc
		}
		if o.res == nil {
			code := o.abnormal
			if code == 0 {
				code = 125 // the child produced nothing for this job
				o.report = "no result was produced for this job"
			}
			races++
			term := fmt.Sprintf("CRun %d %d [] [] [%d]", j.Mode, n, code)
			env.Add(term, desc, bucket+" abnormal", true)
			env.Add(term, fmt.Sprintf("job=%d OBSERVED child ended abnormally, exit=%d (66 = race detector report, 2 = Go fatal error such as concurrent map writes, 67 = job did not finish): %s", i, code, clip(o.report, 4000)), bucket+" abnormal", true)
			failures = append(failures, fmt.Sprintf("job=%d exit=%d %s", i, code, clip(o.report, 1500)))
			continue
		}
		r := o.res
		seqItems := make([]string, len(r.Seq))
		for k, tr := range r.Seq {
			it := make([]string, len(tr))
			for m, s := range tr {
				it[m] = cResult(s)
			}
			seqItems[k] = Clist(it)
		}
		concItems := make([]string, len(r.Conc))
		order := make([]string, len(r.Conc))
		for k, e := range r.Conc {
			concItems[k] = fmt.Sprintf("(%d, %s)", e.Rt, cResult(e.Res))
			order[k] = fmt.Sprint(e.Rt)
		}
		// non-trivial: the completion order switches runtime more often than a concatenation would
		switches := 0
		for k := 1; k < len(r.Conc); k++ {
			if r.Conc[k].Rt != r.Conc[k-1].Rt {
				switches++
			}
		}
		nontriv := switches >= n
		if nontriv {
			interleaved++
		}
		// what differs, for the replay text
		diff := ""
		perRt := make([][]string, n)
		for _, e := range r.Conc {
			if e.Rt >= 0 && e.Rt < n {
				perRt[e.Rt] = append(perRt[e.Rt], e.Res)
			}
		}
		for k := 0; k < n && k < len(r.Seq) && diff == ""; k++ {
			for m := 0; m < len(r.Seq[k]) || m < len(perRt[k]); m++ {
				a, b := "<none>", "<none>"
				if m < len(r.Seq[k]) {
					a = r.Seq[k][m]
				}
				if m < len(perRt[k]) {
					b = perRt[k][m]
				}
				if a != b {
					what := fmt.Sprintf("runtime %d", k)
					if k == len(j.Progs) {
						what = "the template (probed after its copies ran)"
					}
					diff = fmt.Sprintf("%s, program #%d: alone=%s concurrent=%s", what, m, clip(a, 1200), clip(b, 1200))
					break
				}
			}
		}
		term := fmt.Sprintf("CRun %d %d %s %s []", j.Mode, n, Clist(seqItems), Clist(concItems))
		env.Add(term, desc, bucket, nontriv)
		if diff != "" {
			env.Add(term, fmt.Sprintf("job=%d OBSERVED completion order=%s; results differ from the sequential baseline: %s", i, strings.Join(order, ""), diff), bucket+" differs", true)
			failures = append(failures, fmt.Sprintf("job=%d %s", i, clip(diff, 1500)))
		}
	}
	for k := range env.Samples {
		env.Samples[k] = clip(env.Samples[k], 700)
	}
	if len(failures) > 12 {
		failures = failures[:12]
	}
	env.Extra["failing_jobs"] = failures
	env.Extra["jobs_with_interleaved_completion_order"] = interleaved
	env.Extra["setup_js_fnv"] = fmt.Sprintf("%x", func() uint64 { h := fnv.New64a(); h.Write([]byte(setupJS)); return h.Sum64() }())
	env.Extra["abnormal_children"] = races
	env.Extra["setup_js"] = "harness/cmd/c20_race/main.go: const setupJS (every runtime or template starts from it); yield() is a Go function calling runtime.Gosched"
	if os.Getenv("C20_DUMP") != "" { // debugging aid: the raw observations
		var all []*JobResult
		for _, o := range obs {
			all = append(all, o.res)
		}
		bs, _ := json.Marshal(all)
		_ = os.WriteFile(filepath.Join(env.Out, "dump.json"), bs, 0o644)
	} else {
		_ = os.Remove(jobsFile)
	}
	env.Finish()
}
