package main

import (
	"bufio"
	"fmt"
	"os"

	"github.com/robertkrimen/otto"
)

func main() {
	vm := otto.New()
	sc := bufio.NewScanner(os.Stdin)
	for sc.Scan() {
		src := sc.Text()
		func() {
			defer func() {
				if r := recover(); r != nil {
					fmt.Printf("%s  =>  PANIC %v\n", src, r)
				}
			}()
			v, err := vm.Run(src)
			if err != nil {
				fmt.Printf("%s  =>  ERR %v\n", src, err)
				return
			}
			fmt.Printf("%s  =>  %s\n", src, v.String())
		}()
	}
}
