// c10: correspondence cases for property C10 (regular expressions).
package main

import (
	"fmt"
	"math"
	"math/rand"
	"strings"

	"github.com/robertkrimen/otto"
	"github.com/robertkrimen/otto/parser"
	. "ottoh/lib"
)

func main() {
	env := FromFlags("c10")
	runC10(env)
	env.Finish()
}

// ---------- pattern trees (mirror of coq/C10/SpecSyntax.v) ----------

type chs struct {
	kind string // lit idesc ctl hex uni cx
	c    rune   // lit/idesc: the character; ctl/cx: the letter
	h    string // hex digits
}

func (c chs) js() string {
	switch c.kind {
	case "lit":
		return string(c.c)
	case "idesc", "ctl":
		return "\\" + string(c.c)
	case "hex":
		return "\\x" + c.h
	case "uni":
		return "\\u" + c.h
	default:
		return "\\c" + string(c.c)
	}
}

func (c chs) coq() string {
	switch c.kind {
	case "lit":
		return fmt.Sprintf("(CLit %d)", c.c)
	case "idesc":
		return fmt.Sprintf("(CIdEsc %d)", c.c)
	case "ctl":
		return fmt.Sprintf("(CCtl %d)", c.c)
	case "hex":
		return fmt.Sprintf("(CHex %d %d)", c.h[0], c.h[1])
	case "uni":
		return fmt.Sprintf("(CUni %d %d %d %d)", c.h[0], c.h[1], c.h[2], c.h[3])
	default:
		return fmt.Sprintf("(CCx %d)", c.c)
	}
}

func hexv(s string) rune {
	var v rune
	for _, d := range s {
		switch {
		case d >= '0' && d <= '9':
			v = v*16 + d - '0'
		case d >= 'a' && d <= 'f':
			v = v*16 + d - 'a' + 10
		default:
			v = v*16 + d - 'A' + 10
		}
	}
	return v
}

func (c chs) val() rune {
	switch c.kind {
	case "lit", "idesc":
		return c.c
	case "ctl":
		return map[rune]rune{'f': 12, 'n': 10, 'r': 13, 't': 9, 'v': 11}[c.c]
	case "hex", "uni":
		return hexv(c.h)
	default:
		return c.c % 32
	}
}

type item struct {
	kind   string // one range esc bs
	lo, hi chs
	k      rune
}

func (i item) js() string {
	switch i.kind {
	case "one":
		return i.lo.js()
	case "range":
		return i.lo.js() + "-" + i.hi.js()
	case "esc":
		return "\\" + string(i.k)
	default:
		return "\\b"
	}
}

func (i item) coq() string {
	switch i.kind {
	case "one":
		return "(CI1 " + i.lo.coq() + ")"
	case "range":
		return "(CIRange " + i.lo.coq() + " " + i.hi.coq() + ")"
	case "esc":
		return fmt.Sprintf("(CIEsc %d)", i.k)
	default:
		return "CIBs"
	}
}

type quant struct {
	kind string // star plus opt n ninf nm
	n, m int
}

func (q quant) js() string {
	switch q.kind {
	case "star":
		return "*"
	case "plus":
		return "+"
	case "opt":
		return "?"
	case "n":
		return fmt.Sprintf("{%d}", q.n)
	case "ninf":
		return fmt.Sprintf("{%d,}", q.n)
	default:
		return fmt.Sprintf("{%d,%d}", q.n, q.m)
	}
}

func (q quant) coq() string {
	switch q.kind {
	case "star":
		return "QStar"
	case "plus":
		return "QPlus"
	case "opt":
		return "QOpt"
	case "n":
		return fmt.Sprintf("(QN %d%%nat)", q.n)
	case "ninf":
		return fmt.Sprintf("(QNInf %d%%nat)", q.n)
	default:
		return fmt.Sprintf("(QNM %d%%nat %d%%nat)", q.n, q.m)
	}
}

func (q quant) min() int {
	switch q.kind {
	case "star", "opt":
		return 0
	case "plus":
		return 1
	}
	return q.n
}

type node struct {
	op     string // empty ch dot esc class bol eol wb nwb grp ncg look bref seq alt quant
	ch     chs
	k      rune
	neg    bool
	items  []item
	a, b   *node
	q      quant
	greedy bool
	n      int
}

func (r *node) js() string {
	switch r.op {
	case "empty":
		return ""
	case "ch":
		return r.ch.js()
	case "dot":
		return "."
	case "esc":
		return "\\" + string(r.k)
	case "class":
		s := "["
		if r.neg {
			s += "^"
		}
		for _, i := range r.items {
			s += i.js()
		}
		return s + "]"
	case "bol":
		return "^"
	case "eol":
		return "$"
	case "wb":
		return "\\b"
	case "nwb":
		return "\\B"
	case "grp":
		return "(" + r.a.js() + ")"
	case "ncg":
		return "(?:" + r.a.js() + ")"
	case "look":
		if r.neg {
			return "(?!" + r.a.js() + ")"
		}
		return "(?=" + r.a.js() + ")"
	case "bref":
		return fmt.Sprintf("\\%d", r.n)
	case "seq":
		return r.a.js() + r.b.js()
	case "alt":
		return r.a.js() + "|" + r.b.js()
	default:
		s := r.a.js() + r.q.js()
		if !r.greedy {
			s += "?"
		}
		return s
	}
}

func (r *node) coq() string {
	switch r.op {
	case "empty":
		return "REmpty"
	case "ch":
		return "(RCh " + r.ch.coq() + ")"
	case "dot":
		return "RDot"
	case "esc":
		return fmt.Sprintf("(REscCls %d)", r.k)
	case "class":
		its := make([]string, len(r.items))
		for i, it := range r.items {
			its[i] = it.coq()
		}
		return fmt.Sprintf("(RClass %s %s)", Cbool(r.neg), Clist(its))
	case "bol":
		return "RBol"
	case "eol":
		return "REol"
	case "wb":
		return "RWordB"
	case "nwb":
		return "RNWordB"
	case "grp":
		return "(RGroup " + r.a.coq() + ")"
	case "ncg":
		return "(RNcGroup " + r.a.coq() + ")"
	case "look":
		return fmt.Sprintf("(RLook %s %s)", Cbool(r.neg), r.a.coq())
	case "bref":
		return fmt.Sprintf("(RBackref %d)", r.n)
	case "seq":
		return "(RSeq " + r.a.coq() + " " + r.b.coq() + ")"
	case "alt":
		return "(RAlt " + r.a.coq() + " " + r.b.coq() + ")"
	default:
		return fmt.Sprintf("(RQuant %s %s %s)", r.a.coq(), r.q.coq(), Cbool(r.greedy))
	}
}

func (r *node) ngroups() int {
	if r == nil {
		return 0
	}
	n := r.a.ngroups() + r.b.ngroups()
	if r.op == "grp" {
		n++
	}
	return n
}

// ---------- generators ----------

type gen struct {
	env   *Env
	r     *rand.Rand
	unsup bool // look-ahead / back-references allowed
	used  bool // an unsupported construct was generated
	size  int  // budget of atoms
}

func (g *gen) weighted(ws []int) int {
	t := 0
	for _, w := range ws {
		t += w
	}
	x := g.r.Intn(t)
	for i, w := range ws {
		if x < w {
			return i
		}
		x -= w
	}
	return 0
}

var patLits = []rune{'a', 'b', 'c', 'A', '1', 'é', '-', ' ', 'É', '€', '_'}
var patLitW = []int{30, 25, 5, 5, 5, 14, 3, 1, 2, 3, 1}

func (g *gen) litRune() rune { return patLits[g.weighted(patLitW)] }

func (g *gen) chspec(inClass bool) chs {
	switch g.weighted([]int{60, 10, 6, 8, 8, 5}) {
	case 0:
		c := g.litRune()
		if inClass && c == '-' {
			return chs{kind: "idesc", c: '-'}
		}
		if inClass && g.r.Intn(12) == 0 {
			c = '/' // raw slash inside a class: legal in a literal too
		}
		if inClass && g.r.Intn(10) == 0 {
			c = '[' // an ordinary class member (classes do not nest); never followed by ':' (no ':' in the alphabet)
		}
		return chs{kind: "lit", c: c}
	case 1:
		return chs{kind: "idesc", c: Pick(g.r, []rune{'.', '*', '+', '?', '(', ')', '[', ']', '{', '}', '|', '^', '$', '\\', '/', '-'})}
	case 2:
		return chs{kind: "ctl", c: Pick(g.r, []rune{'n', 'n', 'n', 't', 'r', 'f', 'v'})}
	case 3:
		return chs{kind: "hex", h: Pick(g.r, []string{"61", "62", "41", "0a", "0A", "e9", "E9", "2d", "31", "20", "c9"})}
	case 4:
		return chs{kind: "uni", h: Pick(g.r, []string{"0061", "0062", "00e9", "00E9", "000a", "20ac", "20AC", "0041", "002D", "00c9"})}
	default:
		return chs{kind: "cx", c: Pick(g.r, []rune{'J', 'j', 'M', 'm', 'A', 'a', 'Z', 'z', 'I', 'P', 'p', 'K'})}
	}
}

func (g *gen) classItem() item {
	switch g.weighted([]int{50, 25, 15, 3}) {
	case 0:
		return item{kind: "one", lo: g.chspec(true)}
	case 1:
		for {
			lo, hi := g.chspec(true), g.chspec(true)
			if lo.val() <= hi.val() {
				return item{kind: "range", lo: lo, hi: hi}
			}
		}
	case 2:
		return item{kind: "esc", k: Pick(g.r, []rune{'d', 'D', 'w', 'W', 's', 'S'})}
	default:
		return item{kind: "bs"}
	}
}

func (g *gen) atom(depth int) *node {
	g.size--
	ws := []int{50, 8, 10, 12, 14, 8, 0}
	if depth <= 0 || g.size <= 0 {
		ws[4], ws[5] = 0, 0
	}
	if g.unsup {
		ws[6] = 6
	}
	switch g.weighted(ws) {
	case 0:
		return &node{op: "ch", ch: g.chspec(false)}
	case 1:
		return &node{op: "dot"}
	case 2:
		return &node{op: "esc", k: Pick(g.r, []rune{'d', 'D', 'w', 'W', 's', 'S', 'w', 'd'})}
	case 3:
		n := g.r.Intn(3) + 1
		its := make([]item, n)
		for i := range its {
			its[i] = g.classItem()
		}
		return &node{op: "class", neg: g.r.Intn(4) == 0, items: its}
	case 4:
		return &node{op: "grp", a: g.alt(depth - 1)}
	case 5:
		return &node{op: "ncg", a: g.alt(depth - 1)}
	default:
		g.used = true
		return &node{op: "bref", n: g.r.Intn(9) + 1}
	}
}

func (g *gen) quant() quant {
	switch g.weighted([]int{30, 25, 20, 8, 8, 10}) {
	case 0:
		return quant{kind: "star"}
	case 1:
		return quant{kind: "plus"}
	case 2:
		return quant{kind: "opt"}
	case 3:
		return quant{kind: "n", n: g.r.Intn(4)}
	case 4:
		return quant{kind: "ninf", n: g.r.Intn(3)}
	default:
		n := g.r.Intn(3)
		return quant{kind: "nm", n: n, m: n + g.r.Intn(3)}
	}
}

func (g *gen) term(depth int) *node {
	x := g.r.Intn(100)
	switch {
	case x < 4:
		return &node{op: "bol"}
	case x < 8:
		return &node{op: "eol"}
	case x < 13:
		return &node{op: "wb"}
	case x < 15:
		return &node{op: "nwb"}
	case x < 18 && g.unsup && depth > 0:
		g.used = true
		return &node{op: "look", neg: g.r.Intn(2) == 0, a: g.alt(depth - 1)}
	}
	a := g.atom(depth)
	if g.r.Intn(100) < 40 {
		return &node{op: "quant", a: a, q: g.quant(), greedy: g.r.Intn(4) != 0}
	}
	return a
}

func startsDigit(s string) bool { return s != "" && s[0] >= '0' && s[0] <= '9' }

func (g *gen) seq(depth int) *node {
	n := g.weighted([]int{6, 30, 35, 20, 9})
	if g.size <= 0 && n > 1 {
		n = 1
	}
	if n == 0 {
		return &node{op: "empty"}
	}
	terms := make([]*node, n)
	for i := range terms {
		terms[i] = g.term(depth)
		// a digit directly after \N would extend the back-reference
		if i > 0 && terms[i-1].op == "bref" && startsDigit(terms[i].js()) {
			terms[i] = &node{op: "ch", ch: chs{kind: "lit", c: 'a'}}
		}
	}
	r := terms[0]
	for _, t := range terms[1:] {
		r = &node{op: "seq", a: r, b: t}
	}
	return r
}

func (g *gen) alt(depth int) *node {
	n := g.weighted([]int{70, 24, 6}) + 1
	alts := make([]*node, n)
	for i := range alts {
		alts[i] = g.seq(depth)
	}
	r := alts[n-1]
	for i := n - 2; i >= 0; i-- {
		r = &node{op: "alt", a: alts[i], b: r}
	}
	return r
}

// nine to eleven small capturing groups in a row (RegExp.$9, $10, $nn)
func (g *gen) manyGroups() *node {
	n := 8 + g.r.Intn(4)
	var ts []*node
	for i := 0; i < n; i++ {
		var body *node
		switch g.r.Intn(6) {
		case 0:
			body = &node{op: "alt", a: lit('a'), b: lit('b')}
		case 1:
			body = qn(lit(Pick(g.r, []rune{'a', 'b'})), "star", true)
		case 2:
			body = &node{op: "dot"}
		default:
			body = lit(Pick(g.r, []rune{'a', 'b', 'a', 'b', '1'}))
		}
		t := grp(body)
		if g.r.Intn(5) == 0 {
			t = qn(t, "opt", true)
		}
		ts = append(ts, t)
	}
	return seqOf(ts...)
}

func (g *gen) pattern(unsup bool) *node {
	for {
		g.unsup, g.used, g.size = unsup, false, 3+g.r.Intn(6)
		r := g.alt(2)
		if p := r.js(); len(p) > 0 && len(p) <= 40 {
			return r
		}
	}
}

// a string the tree is likely to match
func (g *gen) sample(r *node, out []rune) []rune {
	if len(out) > 10 {
		return out
	}
	switch r.op {
	case "ch":
		return append(out, r.ch.val())
	case "dot":
		return append(out, g.subjRune())
	case "esc":
		return append(out, map[rune]rune{'d': '1', 'D': 'a', 'w': Pick(g.r, []rune{'a', 'b', '1', '_'}), 'W': '-', 's': Pick(g.r, []rune{' ', '\n', '\v', ' '}), 'S': 'b'}[r.k])
	case "class":
		if r.neg {
			return append(out, g.subjRune())
		}
		it := r.items[g.r.Intn(len(r.items))]
		switch it.kind {
		case "one":
			return append(out, it.lo.val())
		case "range":
			return append(out, it.lo.val()+rune(g.r.Intn(int(it.hi.val()-it.lo.val())+1)))
		case "esc":
			return append(out, map[rune]rune{'d': '1', 'D': 'a', 'w': 'a', 'W': '-', 's': ' ', 'S': 'b'}[it.k])
		default:
			return append(out, 8)
		}
	case "grp", "ncg":
		return g.sample(r.a, out)
	case "seq":
		return g.sample(r.b, g.sample(r.a, out))
	case "alt":
		if g.r.Intn(2) == 0 {
			return g.sample(r.a, out)
		}
		return g.sample(r.b, out)
	case "quant":
		n := r.q.min() + g.r.Intn(3)
		if r.q.kind == "opt" && n > 1 {
			n = 1
		}
		if r.q.kind == "n" {
			n = r.q.n
		}
		if r.q.kind == "nm" && n > r.q.m {
			n = r.q.m
		}
		for i := 0; i < n; i++ {
			out = g.sample(r.a, out)
		}
		return out
	}
	return out
}

var subjRunes = []rune{'a', 'b', 'A', '1', '-', 'é', '\n', 'c', ' ', '\r', '\v', ' ', '€', 'B', 'É'}
var subjW = []int{30, 25, 6, 6, 8, 17, 6, 3, 2, 1, 1, 1, 5, 1, 2}

func (g *gen) subjRune() rune { return subjRunes[g.weighted(subjW)] }

func (g *gen) subject(r *node, ic bool) []rune {
	var s []rune
	if g.r.Intn(100) < 55 {
		for i := g.r.Intn(3); i > 0; i-- {
			s = append(s, g.subjRune())
		}
		s = g.sample(r, s)
		for i := g.r.Intn(3); i > 0; i-- {
			s = append(s, g.subjRune())
		}
		if g.r.Intn(4) == 0 { // a second occurrence, for global histories
			s = g.sample(r, s)
		}
	} else {
		for i := g.r.Intn(8); i > 0; i-- {
			s = append(s, g.subjRune())
		}
	}
	if ic {
		for i, c := range s {
			if g.r.Intn(3) == 0 {
				switch {
				case c >= 'a' && c <= 'z':
					s[i] = c - 32
				case c >= 'A' && c <= 'Z':
					s[i] = c + 32
				case c == 'é':
					s[i] = 'É'
				case c == 'É':
					s[i] = 'é'
				}
			}
		}
	}
	if len(s) > 9 {
		s = s[:9]
	}
	return s
}

// ---------- running a history on otto ----------

const prelude = `var out=[], leg=[];
function pa(a){ if(a===null||a===undefined){out.push(a);return;} out.push(a.length); for(var i=0;i<a.length;i++) out.push(a[i]); }
function li(){ out.push(r.lastIndex); }
`

func cUnits(s []rune) string { return Cstr(string(s)) }
func jsStr(s []rune) string  { return JSStr(Units(string(s))) }

type opv struct {
	js, coq string
}

func utf8len(s []rune) int { return len(string(s)) }

func (g *gen) ops(r *node, global bool, s []rune) []opv {
	n := g.weighted([]int{14, 18, 20, 16, 12, 9, 6, 5}) + 1
	var ops []opv
	ng := r.ngroups()
	for k := 0; k < n; k++ {
		subj := s
		if g.r.Intn(5) == 0 {
			subj = g.subject(r, false)
		}
		S := jsStr(subj)
		C := cUnits(subj)
		//           exec test setLI match search split replS replF props new ident select replStr
		//           exec test setLI match search split replS replF props new ident select replStr strArg
		ws := []int{30, 18, 16, 8, 6, 12, 11, 10, 3, 12, 2, 9, 5, 9}
		if global {
			ws[2], ws[7] = 24, 14
		}
		if ng >= 8 { // many groups: the $1..$9 statics, $nn, captures spliced into split results
			ws = []int{10, 30, 6, 6, 2, 16, 22, 10, 1, 4, 1, 4, 2, 2}
		}
		switch g.weighted(ws) {
		case 0:
			ops = append(ops, opv{fmt.Sprintf("var m=r.exec(%s); pa(m); if(m){out.push(m.index,m.input);} li();", S), "(OExec " + C + ")"})
		case 1:
			ops = append(ops, opv{fmt.Sprintf("out.push(r.test(%s)); li(); leg.push(RegExp.$1,RegExp.$2,RegExp.$3,RegExp.$4,RegExp.$5,RegExp.$6,RegExp.$7,RegExp.$8,RegExp.$9,RegExp.$_,RegExp.input);", S), "(OTest " + C + ")"})
		case 2:
			js, cq := g.liValue(s)
			ops = append(ops, opv{"r.lastIndex=" + js + "; li();", "(OSetLI " + cq + ")"})
		case 3:
			js := fmt.Sprintf("var m=%s.match(r); pa(m); if(m&&!r.global){out.push(m.index,m.input);}", S)
			ops = append(ops, opv{js + " li();", "(OMatch " + C + ")"})
		case 4:
			ops = append(ops, opv{fmt.Sprintf("out.push(%s.search(r)); li();", S), "(OSearch " + C + ")"})
		case 5:
			lim, clim := "", "None"
			if g.r.Intn(2) == 0 || (ng >= 1 && g.r.Intn(2) == 0) { // a limit that falls among the spliced captures
				v := Pick(g.r, []int64{0, 1, 1, 2, 2, 2, 3, 3, 4, 5, -1, 4294967297})
				lim = fmt.Sprintf(", %d", v)
				clim = fmt.Sprintf("(Some %d)", uint32(v))
			}
			ops = append(ops, opv{fmt.Sprintf("pa(%s.split(r%s)); li();", S, lim), fmt.Sprintf("(OSplit %s %s)", C, clim)})
		case 6:
			var rp []rune
			for i := g.r.Intn(4) + 1; i > 0; i-- {
				pieces := []string{"$&", "$`", "$`", "$`", "$'", "$'", "$$", "x", "-", "$", "$a", "$0", "$00", "é", "$$1"}
				for c := 1; c <= ng && c <= 9; c++ {
					pieces = append(pieces, fmt.Sprintf("$%d", c), fmt.Sprintf("$%d", c), fmt.Sprintf("$0%d", c))
				}
				if ng >= 10 {
					pieces = append(pieces, "$10", "$10", fmt.Sprintf("$%d", ng), "$09", "$9")
				}
				if g.r.Intn(8) == 0 { // beyond the captures: implementation-defined, only "no exception" is judged
					pieces = append(pieces, fmt.Sprintf("$%d", ng+1), fmt.Sprintf("$%d", ng+1), fmt.Sprintf("$0%d", (ng+1)%10), "$99")
				}
				rp = append(rp, []rune(Pick(g.r, pieces))...)
				rp = append(rp, []rune(Pick(g.r, []string{"", "", "|", "a"}))...)
			}
			ops = append(ops, opv{fmt.Sprintf("out.push(%s.replace(r,%s)); li();", S, jsStr(rp)), fmt.Sprintf("(OReplS %s %s)", C, cUnits(rp))})
		case 8:
			ops = append(ops, opv{"out.push(r.source, r.global, r.ignoreCase, r.multiline, String(r), tail); li();", "OProps"})
		case 9:
			mode := g.r.Intn(10)
			ng2, ni2, nm2 := g.r.Intn(2) == 0, g.r.Intn(3) == 0, g.r.Intn(3) == 0
			li0, xq, distinct := "c.lastIndex", "false", "true"
			var mk string
			switch mode {
			case 0:
				mk = "var c=new RegExp(r);"
			case 1:
				mk = "var c=new RegExp(r, undefined);"
			case 2:
				mk = fmt.Sprintf("var c=RegExp(r.source, %q);", flagStr(ng2, ni2, nm2))
			case 3:
				mk = fmt.Sprintf("var c=new RegExp(r.source, %q);", flagStr(ng2, ni2, nm2))
			case 4: // the constructing expression (a literal in half of the cases) evaluated again
				mk = "var c=mk();"
			case 5: // ... in a closure created per call
				mk = "var c=mkc()();"
			case 6: // ... twice in a loop body
				mk = "var cs=mkl(); var c=cs[1][0];"
				li0, xq, distinct = "cs[1][2]", "cs[1][1]", "cs[0][0]!==c"
			case 7: // ... by eval of the same text
				mk = "var c=eval(ctorText);"
			case 8: // ... by a compiled Script run again on this runtime
				mk = "var c=rerun();"
			default: // ... wrapped in the copy constructor
				mk = "var c=new RegExp(mk());"
			}
			ops = append(ops, opv{mk + " out.push(" + distinct + "&&R.every(function(x){return x!==c}), c.source, c.global, c.ignoreCase, c.multiline, " + li0 + ", ['source','global','ignoreCase','multiline','lastIndex'].every(function(k){return c.hasOwnProperty(k)}), c.hasOwnProperty('xp')||" + xq + "); c.xp=1; R.push(c); li();",
				fmt.Sprintf("(ONew %d %s %s %s)", mode, Cbool(ng2), Cbool(ni2), Cbool(nm2))})
		case 10:
			ops = append(ops, opv{"var en='none'; try{new RegExp(r,'g')}catch(e){en=e.name} out.push(RegExp(r)===r, RegExp(r, undefined)===r, en); li();", "OIdent"})
		case 11:
			j := g.r.Intn(4)
			ops = append(ops, opv{fmt.Sprintf("r=R[%d %% R.length]; li();", j), fmt.Sprintf("(OSelect %d%%nat)", j)})
		case 13:
			// pattern arguments that are not RegExp objects
			src := Pick(g.r, []string{"r.source", "r.source", "{toString:function(){return r.source}}", "[r.source]", "new String(r.source)"})
			switch g.r.Intn(6) {
			case 0:
				ops = append(ops, opv{fmt.Sprintf("var m=%s.match(%s); pa(m); if(m){out.push(m.index,m.input);} li();", S, src), "(OMatchArg " + C + ")"})
			case 1:
				ops = append(ops, opv{fmt.Sprintf("out.push(%s.search(%s)); li();", S, src), "(OSearchArg " + C + ")"})
			case 2, 3:
				// numbers, null, undefined, arrays: ToString is a text of ordinary characters
				a := Pick(g.r, [][2]string{{"1", "1"}, {"11", "11"}, {"null", "null"}, {"undefined", ""}, {"", ""}, {"[1,1]", "1,1"}, {"['a','b']", "a,b"}, {"true", "true"}, {"[]", ""}, {"[['a']]", "a"}})
				subj2 := subj
				if g.r.Intn(2) == 0 { // make the text occur
					t := a[1]
					if a[0] == "undefined" || a[0] == "" {
						t = "undefined"
					}
					k := g.r.Intn(len(subj) + 1)
					subj2 = append(append(append([]rune{}, subj[:k]...), []rune(t)...), subj[k:]...)
				}
				S2, C2 := jsStr(subj2), cUnits(subj2)
				if g.r.Intn(2) == 0 {
					ops = append(ops, opv{fmt.Sprintf("var m=%s.match(%s); pa(m); if(m){out.push(m.index,m.input);} li();", S2, a[0]), fmt.Sprintf("(OMatchLit %s %s)", C2, Cstr(a[1]))})
				} else {
					ops = append(ops, opv{fmt.Sprintf("out.push(%s.search(%s)); li();", S2, a[0]), fmt.Sprintf("(OSearchLit %s %s)", C2, Cstr(a[1]))})
				}
			default:
				// split by a string (or something converted to one), with and without limit
				var sep []rune
				arg, csep := "", ""
				switch g.r.Intn(7) {
				case 0:
					arg, csep = "undefined", "None"
				case 1:
					sep = nil
				case 2:
					sep = []rune(Pick(g.r, []string{".", "a*", "$", "(a)", "|", "\\", "[a]"}))
				case 3:
					arg, csep = "1", "(Some "+Cstr("1")+")"
				case 4:
					arg, csep = "null", "(Some "+Cstr("null")+")"
				default:
					if len(subj) > 0 {
						a := g.r.Intn(len(subj))
						sep = subj[a : a+1+g.r.Intn(Min(2, len(subj)-a))]
					}
				}
				if csep == "" {
					csep = "(Some " + cUnits(sep) + ")"
					arg = jsStr(sep)
					if g.r.Intn(4) == 0 {
						arg = "{toString:function(){return " + jsStr(sep) + "}}"
					}
				}
				lim, clim := "", "None"
				if g.r.Intn(2) == 0 {
					v := Pick(g.r, []int64{0, 1, 1, 2, 2, 3, 4, -1, 4294967297})
					lim = fmt.Sprintf(", %d", v)
					clim = fmt.Sprintf("(Some %d)", uint32(v))
				}
				ops = append(ops, opv{fmt.Sprintf("pa(%s.split(%s%s)); li();", S, arg, lim), fmt.Sprintf("(OSplitStr %s %s %s)", C, csep, clim)})
			}
		case 12:
			// a string as searchValue: a piece of the subject, something with pattern characters, or ""
			var pat []rune
			switch g.r.Intn(4) {
			case 0:
				pat = []rune(Pick(g.r, []string{"", "a", ".", "$", "a*", "b", "(a)", "\\"}))
			default:
				if len(subj) > 0 {
					a := g.r.Intn(len(subj))
					pat = subj[a : a+1+g.r.Intn(Min(2, len(subj)-a))]
				}
			}
			P := jsStr(pat)
			switch g.r.Intn(8) {
			case 0:
				pat, P = []rune("1"), "1"
			case 1:
				pat, P = []rune("null"), "null"
			case 2:
				pat, P = []rune("undefined"), "undefined"
			case 3:
				P = "{toString:function(){return " + jsStr(pat) + "}}"
			case 4:
				P = "[" + jsStr(pat) + "]"
			}
			if g.r.Intn(2) == 0 {
				ret := g.dollarText(0)
				ops = append(ops, opv{fmt.Sprintf("var lg=[]; out.push(%s.replace(%s,function(){lg.push(arguments.length); for(var i=0;i<arguments.length;i++) lg.push(arguments[i]); return %s+'<'+arguments.length+'>';})); for(var i=0;i<lg.length;i++) out.push(lg[i]); li();", S, P, jsStr(ret)),
					fmt.Sprintf("(OReplStr %s %s (RFun %s))", C, cUnits(pat), cUnits(ret))})
			} else {
				rp := g.dollarText(0)
				ops = append(ops, opv{fmt.Sprintf("out.push(%s.replace(%s,%s)); li();", S, P, jsStr(rp)),
					fmt.Sprintf("(OReplStr %s %s (RText %s))", C, cUnits(pat), cUnits(rp))})
			}
		default:
			// what a function returns is inserted as it is: make it look like every $-pattern
			ret := g.dollarText(ng)
			if g.r.Intn(4) == 0 {
				ret = nil
			}
			ops = append(ops, opv{fmt.Sprintf("var lg=[]; out.push(%s.replace(r,function(){lg.push(arguments.length); for(var i=0;i<arguments.length;i++) lg.push(arguments[i]); return %s+'<'+arguments.length+'>';})); for(var i=0;i<lg.length;i++) out.push(lg[i]); li();", S, jsStr(ret)),
				fmt.Sprintf("(OReplF %s %s)", C, cUnits(ret))})
		}
	}
	return ops
}

// a value for lastIndex of every class: boundaries of the subject in units and bytes,
// negative, -0, fractions, NaN, +-Infinity, 2^31, 2^32-1, 2^32, 2^32+k inside the
// subject, 2^53, numeric and other strings, objects whose valueOf reports its call
func (g *gen) liValue(s []rune) (string, string) {
	L := len(s)
	in := func(v int64) (string, string) { return fmt.Sprint(v), "(LInt " + Cz(v) + ")" }
	small := int64(Pick(g.r, []int{0, 1, 1, 2, 2, 3, L - 1, L, L, L + 1, utf8len(s), utf8len(s) + 1, g.r.Intn(L + 2)}))
	switch g.weighted([]int{46, 6, 13, 10, 4, 6, 3, 6, 3, 7}) {
	case 0:
		return in(small)
	case 1:
		return in(-int64(g.r.Intn(3)) - 1)
	case 2:
		return in(Pick(g.r, []int64{2147483648, 4294967295, 4294967296, 4294967296 + small, 4294967296 + int64(g.r.Intn(L+1)), 4294967297, 8589934592 + small, 9007199254740992, -4294967296, -4294967295 + small}))
	case 3:
		n := 2*small + 1
		if g.r.Intn(4) == 0 {
			n = -1 - 2*int64(g.r.Intn(2))
		}
		return JSNum(float64(n) / 2), "(LHalf " + Cz(n) + ")"
	case 4:
		return "NaN", "LNaN"
	case 5:
		return "Infinity", "LPosInf"
	case 6:
		if g.r.Intn(2) == 0 {
			return "(-Infinity)", "LNegInf"
		}
		return "(-0)", "(LInt 0)"
	case 7:
		v := small
		if g.r.Intn(4) == 0 {
			v = Pick(g.r, []int64{4294967296, 4294967297, -1})
		}
		return fmt.Sprintf("%q", fmt.Sprint(v)), "(LStrInt " + Cz(v) + ")"
	case 8:
		t := Pick(g.r, []string{"abc", "x1", "1x", "Infinit"})
		return fmt.Sprintf("%q", t), "(LStrNaN " + Cstr(t) + ")"
	default:
		v := small
		if g.r.Intn(5) == 0 {
			v = 4294967296 + small
		}
		return fmt.Sprintf("{valueOf:function(){out.push('VO'); return %d;}}", v), "(LObj " + Cz(v) + ")"
	}
}

func Min(a, b int) int {
	if a < b {
		return a
	}
	return b
}

// a short text made of $-patterns valid for ng captures ($n only up to ng)
func (g *gen) dollarText(ng int) []rune {
	var rp []rune
	for i := g.r.Intn(3) + 1; i > 0; i-- {
		pieces := []string{"$&", "$&", "$`", "$'", "$$", "$$", "x", "$", "$a", "$0", "é", "$$1", "[$&]"}
		for c := 1; c <= ng && c <= 9; c++ {
			pieces = append(pieces, fmt.Sprintf("$%d", c), fmt.Sprintf("$0%d", c))
		}
		rp = append(rp, []rune(Pick(g.r, pieces))...)
		rp = append(rp, []rune(Pick(g.r, []string{"", "", "|"}))...)
	}
	return rp
}

func ovOf(v otto.Value) string {
	switch {
	case v.IsUndefined():
		return "OU"
	case v.IsNull():
		return "ON"
	case v.IsBoolean():
		b, _ := v.ToBoolean()
		return "(OB " + Cbool(b) + ")"
	case v.IsNumber():
		f, _ := v.ToFloat()
		if f == math.Trunc(f) && math.Abs(f) < 9.2e18 {
			return "(OZ " + Cz(int64(f)) + ")"
		}
		return "(OS " + Cstr(fmt.Sprintf("NUM:%v", f)) + ")"
	case v.IsString():
		return "(OS " + Cstr(v.String()) + ")"
	}
	return "(OS " + Cstr("OBJ:"+v.String()) + ")"
}

func readArray(vm *otto.Otto, name string) ([]string, string) {
	v, err := vm.Get(name)
	if err != nil || !v.IsObject() {
		return []string{"(OS " + Cstr("NOARRAY") + ")"}, "?"
	}
	o := v.Object()
	lv, _ := o.Get("length")
	n, _ := lv.ToInteger()
	items := make([]string, 0, n)
	var txt []string
	for i := int64(0); i < n; i++ {
		e, _ := o.Get(fmt.Sprint(i))
		items = append(items, ovOf(e))
		if e.IsString() {
			txt = append(txt, fmt.Sprintf("%q", e.String()))
		} else {
			txt = append(txt, e.String())
		}
	}
	return items, strings.Join(txt, ",")
}

type seqCase struct {
	r       *node
	g, i, m bool
	literal bool
	mode    int // 0 plain; 1 copy constructor / call without new; 2 RegExp(regexp) identity
	ops     []opv
}

func flagStr(g, i, m bool) string {
	s := ""
	if g {
		s += "g"
	}
	if i {
		s += "i"
	}
	if m {
		s += "m"
	}
	return s
}

func (g *gen) runSeq(c seqCase, bucket string) {
	pat := c.r.js()
	fl := flagStr(c.g, c.i, c.m)
	var src strings.Builder
	src.WriteString(prelude)
	// the constructing expression is evaluated through mk(), so that the same literal /
	// constructor call is evaluated again whenever a history asks for a further object
	var ctor string
	switch {
	case c.literal && c.mode == 1:
		ctor = fmt.Sprintf("new RegExp(/%s/%s)", pat, fl)
	case c.literal:
		ctor = fmt.Sprintf("/%s/%s", pat, fl)
	case c.mode == 1:
		ctor = fmt.Sprintf("RegExp(%s, %q)", JSStr(Units(pat)), fl)
	case c.mode == 2:
		ctor = fmt.Sprintf("RegExp(new RegExp(%s, %q))", JSStr(Units(pat)), fl)
	default:
		ctor = fmt.Sprintf("new RegExp(%s, %q)", JSStr(Units(pat)), fl)
	}
	// a second literal on the same line: its text must not be swallowed by the first one
	fmt.Fprintf(&src, "function mk(){ return %s; } var tail = /\\]\\/[/]/.source;\n", ctor)
	fmt.Fprintf(&src, "function mkc(){ return function(){ return %s; }; }\n", ctor)
	fmt.Fprintf(&src, "function mkl(){ var cs=[]; for(var q=0;q<2;q++){ var t=%s; cs.push([t, t.hasOwnProperty('xq'), t.lastIndex]); t.xq=1; t.lastIndex=2; } cs[1][0].lastIndex=0; return cs; }\n", ctor)
	fmt.Fprintf(&src, "var ctorText=%s;\n", JSStr(Units("("+ctor+")")))
	src.WriteString("var r = mk(); r.xp = 1;\n")
	src.WriteString("var R = [r];\ntry {\n")
	coqOps := make([]string, len(c.ops))
	for k, o := range c.ops {
		src.WriteString(o.js + "\n")
		coqOps[k] = o.coq
	}
	src.WriteString("} catch (e) { out.push('EXC:' + e.name); }\n")
	vm := otto.New()
	// a compiled Script that evaluates the constructing expression, run again on this runtime
	if script, err := vm.Compile("", "("+ctor+")"); err == nil {
		_ = vm.Set("rerun", func(call otto.FunctionCall) otto.Value {
			v, err := vm.Run(script)
			if err != nil {
				return otto.UndefinedValue()
			}
			return v
		})
	}
	o := RunJS(vm, src.String())
	var obs, leg []string
	var txt string
	if o.Panic != nil || o.Err != nil {
		obs = []string{"(OS " + Cstr(fmt.Sprintf("FAIL:%d", ErrClass(o))) + ")"}
		txt = fmt.Sprintf("!%v %v", o.Panic, o.Err)
	} else {
		var lt string
		obs, txt = readArray(vm, "out")
		leg, lt = readArray(vm, "leg")
		if len(leg) > 0 {
			txt += " ; legacy " + lt
		}
	}
	term := fmt.Sprintf("CSeq %s %s %s %s %s %s %s %s", c.r.coq(), Cbool(c.g), Cbool(c.i), Cbool(c.m), Cstr(pat), Clist(coqOps), Clist(obs), Clist(leg))
	nontriv := len(c.ops) > 1 || strings.ContainsAny(pat, "*+?{(|[\\")
	g.env.Add(term, fmt.Sprintf("seq %s -> out=[%s]", strings.ReplaceAll(src.String()[len(prelude):], "\n", " "), txt), bucket, nontriv)
}

// ---------- hand-written trees for the pinned witnesses ----------

func lit(c rune) *node  { return &node{op: "ch", ch: chs{kind: "lit", c: c}} }
func grp(a *node) *node { return &node{op: "grp", a: a} }
func seqOf(ns ...*node) *node {
	r := ns[0]
	for _, n := range ns[1:] {
		r = &node{op: "seq", a: r, b: n}
	}
	return r
}
func qn(a *node, kind string, greedy bool) *node {
	return &node{op: "quant", a: a, q: quant{kind: kind}, greedy: greedy}
}

func opExec(s string) opv {
	return opv{fmt.Sprintf("var m=r.exec(%s); pa(m); if(m){out.push(m.index,m.input);} li();", jsStr([]rune(s))), "(OExec " + Cstr(s) + ")"}
}
func opSetLI(v int) opv {
	return opv{fmt.Sprintf("r.lastIndex=%d; li();", v), "(OSetLI (LInt " + Cz(int64(v)) + "))"}
}
func opTest(s string) opv {
	return opv{fmt.Sprintf("out.push(r.test(%s)); li(); leg.push(RegExp.$1,RegExp.$2,RegExp.$3,RegExp.$4,RegExp.$5,RegExp.$6,RegExp.$7,RegExp.$8,RegExp.$9,RegExp.$_,RegExp.input);", jsStr([]rune(s))), "(OTest " + Cstr(s) + ")"}
}
func opMatchG(s string) opv {
	return opv{fmt.Sprintf("var m=%s.match(r); pa(m); if(m&&!r.global){out.push(m.index,m.input);} li();", jsStr([]rune(s))), "(OMatch " + Cstr(s) + ")"}
}
func opSearch(s string) opv {
	return opv{fmt.Sprintf("out.push(%s.search(r)); li();", jsStr([]rune(s))), "(OSearch " + Cstr(s) + ")"}
}
func opSplit(s string) opv {
	return opv{fmt.Sprintf("pa(%s.split(r)); li();", jsStr([]rune(s))), fmt.Sprintf("(OSplit %s None)", Cstr(s))}
}
func opReplS(s, rp string) opv {
	return opv{fmt.Sprintf("out.push(%s.replace(r,%s)); li();", jsStr([]rune(s)), jsStr([]rune(rp))), fmt.Sprintf("(OReplS %s %s)", Cstr(s), Cstr(rp))}
}

func (g *gen) pinned() {
	a, b, c := lit('a'), lit('b'), lit('c')
	// 1 captures not reset: /(z)((a+)?(b+)?(c))*/.exec("zaacbbbcac")
	g.runSeq(seqCase{r: seqOf(grp(lit('z')), qn(grp(seqOf(qn(grp(qn(a, "plus", true)), "opt", true), qn(grp(qn(b, "plus", true)), "opt", true), grp(c))), "star", true)),
		ops: []opv{opExec("zaacbbbcac")}}, "pinned")
	// 2 empty iteration: /(a*)*/.exec("b")
	g.runSeq(seqCase{r: qn(grp(qn(a, "star", true)), "star", true), ops: []opv{opExec("b")}}, "pinned")
	// 3 engine tables: /\s/.test("\v"), /./.exec("\r")
	g.runSeq(seqCase{r: &node{op: "esc", k: 's'}, ops: []opv{opExec("\v")}}, "pinned")
	g.runSeq(seqCase{r: &node{op: "dot"}, ops: []opv{opExec("\r")}}, "pinned")
	// 4 lastIndex cut: r=/^a/g; r.lastIndex=1; r.test("aa")
	g.runSeq(seqCase{r: seqOf(&node{op: "bol"}, a), g: true, literal: true, ops: []opv{opSetLI(1), opTest("aa")}}, "pinned")
	// 5 byte offsets: /a/g.exec("éa"); lastIndex, and "éa".search(/a/)
	g.runSeq(seqCase{r: a, g: true, literal: true, ops: []opv{opExec("éa"), opExec("éa")}}, "pinned")
	g.runSeq(seqCase{r: a, ops: []opv{opSearch("éa")}}, "pinned")
	// 6 adjacent empty match: "abc".match(/b*/g), replace
	g.runSeq(seqCase{r: qn(b, "star", true), g: true, ops: []opv{opReplS("abc", "-")}}, "pinned")
	// 7 global match protocol: "abc".match(/x/g) is undefined; lastIndex after a global match
	g.runSeq(seqCase{r: lit('x'), g: true, ops: []opv{opMatchG("abc")}}, "pinned")
	g.runSeq(seqCase{r: a, g: true, ops: []opv{opMatchG("aba")}}, "pinned")
	// 8 "".split(/(?:)/)
	g.runSeq(seqCase{r: &node{op: "ncg", a: &node{op: "empty"}}, ops: []opv{opSplit("")}}, "pinned")
	// 9 $10 with eleven captures
	var gs []*node
	for _, ch := range "abcdefghijk" {
		gs = append(gs, grp(lit(ch)))
	}
	g.runSeq(seqCase{r: seqOf(gs...), ops: []opv{opReplS("abcdefghijkl", "[$10][$11][$01]")}}, "pinned")
	// literal scanning (7.8.5): classes with raw [ and / members, negated, escaped ] and [,
	// two classes in a row, a group around the class, every flag; the same trees through the
	// constructor; each used by exec / split / replace / match and followed by a second literal
	cl := func(neg bool, ms ...rune) *node {
		its := make([]item, len(ms))
		for i, m := range ms {
			switch m {
			case ']', '\\', '-', '^':
				its[i] = item{kind: "one", lo: chs{kind: "idesc", c: m}}
			default:
				its[i] = item{kind: "one", lo: chs{kind: "lit", c: m}}
			}
		}
		return &node{op: "class", neg: neg, items: its}
	}
	rng := &node{op: "class", items: []item{{kind: "range", lo: chs{kind: "lit", c: '['}, hi: chs{kind: "lit", c: 'a'}}}}
	litTrees := []*node{
		cl(false, '['), cl(true, '['), cl(false, '[', 'a'), cl(false, 'a', '['), cl(false, '[', '['),
		cl(false, '[', '/'), cl(false, '/', '['), cl(false, '/'), cl(false, '[', ']'), cl(false, ']', '['),
		cl(false, '\\', '['), cl(true, '[', '/', ']'), rng,
		seqOf(cl(false, '['), cl(false, '[')), seqOf(cl(false, '['), lit('a'), cl(false, '/')),
		seqOf(lit('x'), grp(qn(cl(false, '[', 'a'), "plus", true))),
		seqOf(cl(false, '['), &node{op: "ch", ch: chs{kind: "idesc", c: '/'}}, cl(false, '/', '[')),
		qn(cl(false, '[', 'b'), "star", false),
	}
	for k, t := range litTrees {
		subj := "x[a[/]b[[a"
		ops := []opv{{"out.push(r.source, r.global, r.ignoreCase, r.multiline, String(r), tail); li();", "OProps"},
			opExec(subj), opSplit(subj), opReplS(subj, "<$&>"), opMatchG(subj)}
		g.runSeq(seqCase{r: t, g: k%2 == 0, i: k%3 == 0, m: k%5 == 0, literal: true, mode: k % 2, ops: ops}, "litscan")
		g.runSeq(seqCase{r: t, g: k%2 == 0, literal: false, ops: ops[:2]}, "litscan")
	}
	// constructor outcomes
	g.bad(1, "(", "")
	g.bad(3, "a", "x")
	g.bad(4, "[]", "")
	g.bad(4, "[[:alpha:]", "")
	g.bad(5, "^*", "")
	g.bad(5, "(?i)a", "")
	g.bad(5, "[[:alpha:]]", "")
	g.bad(6, "(a)(b)(c)(d)(e)(f)(g)(h)(i)(j)\\10", "")
}

// ---------- translation and constructor cases ----------

func (g *gen) transformCase(pat string) (string, bool) {
	var out string
	var err error
	func() {
		defer func() {
			if r := recover(); r != nil {
				out, err = "PANIC", fmt.Errorf("%v", r)
			}
		}()
		out, err = parser.TransformRegExp(pat)
	}()
	return out, err != nil
}

var soupTokens = []string{"\\", "\\", "(", "(", ")", ")", "[", "]", "?", "=", "!", ":", "(?=", "(?!", "(?:", "0", "1", "7", "8", "9", "00", "12", "x", "u", "c", "b", "B", "d", "w", "s", "a", "f", "A", "F", "g", "z", "J", "$", "_", "-", "^", "|", "*", "+", "{", "}", ",", ".", "é", "€", "É", "/", "n", "\\x", "\\u", "\\c", "\\b", "\\0", "\\1", "\\8", "\\9", "4", "e9", "00e9", "[\\b]", "\\\\", " ", "ß"}

func (g *gen) soup() string {
	var b strings.Builder
	for i := g.r.Intn(9) + 1; i > 0; i-- {
		b.WriteString(Pick(g.r, soupTokens))
	}
	if g.r.Intn(40) == 0 { // the int64 wrap-around of the octal loop
		b.WriteString("\\" + strings.Repeat("7", 20+g.r.Intn(6)))
	}
	return b.String()
}

func (g *gen) ctorClass(pat, flags string, literal bool) (int64, string) {
	vm := otto.New()
	var src string
	if literal {
		src = fmt.Sprintf("var r = /%s/%s; 0", pat, flags)
	} else {
		src = fmt.Sprintf("var r = new RegExp(%s, %s); 0", JSStr(Units(pat)), JSStr(Units(flags)))
	}
	o := RunJS(vm, src)
	return ErrClass(o), src
}

func (g *gen) bad(kind int, pat, flags string) {
	cls, src := g.ctorClass(pat, flags, false)
	g.env.Add(fmt.Sprintf("CBad %d %s %s %d", kind, Cstr(pat), Cstr(flags), cls), fmt.Sprintf("ctor kind=%d %s -> error class %d", kind, src, cls), fmt.Sprintf("bad%d", kind), true)
}

func (g *gen) simpleLits() string {
	s := ""
	for i := g.r.Intn(3); i > 0; i-- {
		s += string(Pick(g.r, []rune{'a', 'b', 'c', '1'}))
	}
	return s
}

func (g *gen) badCase() {
	p1 := g.pattern(false).js()
	p2 := g.pattern(false).js()
	switch g.weighted([]int{30, 30, 15, 8, 12, 4}) {
	case 0: // caught by otto's scanner
		switch g.r.Intn(5) {
		case 0:
			g.bad(1, p1+")"+p2, "")
		case 1:
			g.bad(1, p1+"("+p2, "")
		case 2:
			g.bad(1, p1+"(?:"+p2, "")
		case 3:
			g.bad(1, p1+Pick(g.r, []string{"[", "[a", "[^", "[a-", "[\\]"})+g.simpleLits(), "")
		default:
			g.bad(1, p1+"("+p2+"))", "")
		}
	case 1: // left to the engine
		g.bad(2, Pick(g.r, []string{"*" + p1, "+" + p1, "?" + p1, p1 + "|*", p1 + "|+a", "(*" + p1 + ")", "(?:+" + p1 + ")", p1 + "a**", p1 + "a+*", p1 + "a{1}{2}", p1 + "a*{2}",
			p1 + "a{2,1}", p1 + "b{3,0}", p1 + "[b-a]", p1 + "[z-\\x61]", p1 + "[1-\\d]", p1 + "a\\", "{1}" + p1, p1 + "|{2,}", "(" + p1 + "|?)"}), "")
	case 2: // flags
		g.bad(3, p1, Pick(g.r, []string{"x", "gx", "y", "G", "gg", "ii", "mm", "gig", "s", "u", "gimx", "g ", "mim"}))
	case 3:
		g.bad(4, Pick(g.r, []string{"[]", "[^]", g.simpleLits() + "[]", "[^]" + g.simpleLits(), "(" + "[]" + ")", "a|[]",
			"[[:alpha:]", "[a[:digit:]", "[[:a:]", "[^[:x:]"}), "")
	case 5: // \1d with at least that many groups: a back-reference in ES5, an octal escape for otto
		n := 10 + g.r.Intn(8)
		pat := ""
		for i := 0; i < n+g.r.Intn(3); i++ {
			pat += "(" + string(rune('a'+i%3)) + ")"
		}
		g.bad(6, pat+p1+fmt.Sprintf("\\%d", n), "")
	default:
		g.bad(5, Pick(g.r, []string{"^*", "$+", "\\b+", "\\B?", "a|^{2}", "(?:$)?$*", "(?i)a", "(?s).", "(?P<n>a)", "(?<n>a)", "(?m)^a", "(?U)a+", "(?i:a)", "(?-i)a",
			"[[:alpha:]]", "[[:digit:]x]", "a[^[:space:]]", "[[:word:]]+"}), "")
	}
}

func runC10(env *Env) {
	env.Import = "Otto.C10.Corr"
	env.Rule = "pattern trees of the portable subset (literals, escapes \\xHH \\uHHHH \\cX, classes, \\d\\w\\s\\b, groups, alternation, greedy/lazy quantifiers, anchors, g/i/m) printed in ES5 syntax as literal or constructor argument; subjects over {a,b,A,1,-,e-acute,\\n,...} sampled from the tree or random; histories of 1-6 calls (exec, test, lastIndex assignments of every class (unit/byte boundaries, negative, -0, fractions, NaN, +-Infinity, 2^31, 2^32-1, 2^32, 2^32+k, 2^53, numeric and other strings, objects whose valueOf reports its call), match/search/split/replace with pattern arguments that are not RegExp objects (the tree's source as string, String object, toString object, array; numbers, null, undefined, arrays), match, search, split with limit, replace with $-text or a logging function whose result contains $-patterns, replace with a string pattern) over a growing set of RegExp objects (new RegExp(r), new RegExp(r, undefined), RegExp(r.source, flags) made from objects in any state, identity of RegExp(r), own properties and lastIndex of the copy, the constructing literal / constructor call evaluated again in a function, a per-call closure, a loop body, eval, a compiled Script run again, and under new RegExp(...), each time observing distinctness from every earlier object, lastIndex 0, own properties and absence of expando properties; switching between all objects made so far); token soup and trees with look-ahead/back-references through parser.TransformRegExp; malformed mutations and flags through the constructor. non-trivial = history longer than one call or pattern with a quantifier, group, class, alternation or escape; every translation/constructor case"
	g := &gen{env: env, r: env.Rng}
	g.pinned()
	for env.Count() < env.N {
		switch g.weighted([]int{62, 14, 12, 12}) {
		case 0:
			r := g.pattern(false)
			bucket := "history"
			if g.r.Intn(14) == 0 {
				r, bucket = g.manyGroups(), "manygroups"
			}
			c := seqCase{r: r, g: g.r.Intn(100) < 55, i: g.r.Intn(4) == 0, m: g.r.Intn(4) == 0, literal: g.r.Intn(2) == 0}
			if g.r.Intn(6) == 0 {
				c.mode = 1 + g.r.Intn(2)
			}
			s := g.subject(r, c.i)
			c.ops = g.ops(r, c.g, s)
			g.runSeq(c, bucket)
		case 1:
			pat := g.soup()
			out, e := g.transformCase(pat)
			env.Add(fmt.Sprintf("CTrans %s %s %s", Cstr(pat), Cstr(out), Cbool(e)), fmt.Sprintf("transform %q -> %q err=%v", pat, out, e), "soup", true)
		case 2:
			r := g.pattern(g.r.Intn(3) > 0)
			pat := r.js()
			out, e := g.transformCase(pat)
			cls, src := g.ctorClass(pat, "", g.r.Intn(2) == 0)
			env.Add(fmt.Sprintf("CAst %s %s %s %s %d", r.coq(), Cstr(pat), Cstr(out), Cbool(e), cls), fmt.Sprintf("tree %q -> %q err=%v ; %s -> error class %d", pat, out, e, src, cls), "tree", true)
		default:
			g.badCase()
		}
	}
}
