package main

import (
	"fmt"
	"math"
	"reflect"
	"strings"

	"github.com/robertkrimen/otto"
	. "ottoh/lib"
)

// ---------- observations of one operation: (tag, value) ----------

func obNum(n int64) string { return fmt.Sprintf("(0, %s)", Cz(n)) }

const obUndef = "(1, 0)"

func obBool(b bool) string {
	if b {
		return "(3, 1)"
	}
	return "(3, 0)"
}

// result of a script operation
func obOfOutcome(o Outcome, assign bool) string {
	if o.Panic != nil || o.Err != nil {
		return fmt.Sprintf("(2, %d)", ErrClass(o))
	}
	if assign {
		return "(0, 0)"
	}
	v := o.Val
	switch {
	case v.IsNumber():
		f, _ := v.ToFloat()
		if f == math.Trunc(f) && math.Abs(f) < 1e15 {
			return obNum(int64(f))
		}
		return fmt.Sprintf("(5, %s)", Cdouble(f))
	case v.IsUndefined():
		return obUndef
	case v.IsBoolean():
		b, _ := v.ToBoolean()
		return obBool(b)
	case v.IsFunction():
		return "(4, 0)"
	}
	return "(7, 0)"
}

// a value the script writes: JS text + Coq src
type jsval struct{ js, coq string }

func (g *gen) histValue() jsval {
	r := g.env.Rng
	switch r.Intn(14) {
	case 0:
		return jsval{"1.5", "(KF64, " + Cdouble(1.5) + ")"}
	case 1:
		return jsval{"1e19", "(KF64, " + Cdouble(1e19) + ")"}
	case 2:
		return jsval{"(7.5-0.5)", "(KF64, " + Cdouble(7) + ")"}
	default:
		n := r.Intn(90) + 1
		return jsval{fmt.Sprint(n), fmt.Sprintf("(KI64, %d)", n)}
	}
}

func czs(v []int64) string { return Czlist(v) }

// ---------- slices ----------

type holder struct{ S []int }

func (g *gen) sliceHist() {
	r := g.env.Rng
	addr := r.Intn(2) == 0
	n := r.Intn(5)
	cp := n + r.Intn(4)
	if r.Intn(4) == 0 {
		cp = n
	}
	sl := make([]int, n, cp)
	elems := make([]int64, n)
	for i := range sl {
		sl[i] = r.Intn(90) + 10
		elems[i] = int64(sl[i])
	}
	g.runSliceHist(addr, sl, elems, cp, g.sliceOps(r.Intn(7)+2, n), "slice")
}

type sopT struct {
	kind int // index into sopNames
	i    int
	v    jsval
	gv   int
}

var sopNames = []string{"JGet", "JSet", "JDel", "JLen", "JSetLen", "JPush", "JPop", "JKeys", "JHas", "GGet", "GSet", "GLen", "GAppend", "GReslice", "XSet", "XGet", "XDel", "XHas"}

// set when the child-process probe saw `delete s.foo` kill the process: the harness then keeps that operation out of its own process
var deleteNonIndexCrashes bool

func (g *gen) xKind(kind int) int {
	r := g.env.Rng
	if r.Intn(7) != 0 {
		return kind
	}
	k := Pick(r, []int{14, 14, 15, 15, 16, 16, 17})
	if k == 16 && deleteNonIndexCrashes {
		k = 15
	}
	return k
}

func (g *gen) sliceOps(k, n int) []sopT {
	r := g.env.Rng
	ops := make([]sopT, k)
	for j := range ops {
		kind := g.xKind(Pick(r, []int{0, 0, 1, 1, 1, 2, 3, 3, 4, 4, 5, 5, 6, 7, 8, 9, 9, 10, 10, 11, 12, 13}))
		op := sopT{kind: kind, v: g.histValue(), gv: r.Intn(90) + 100}
		switch kind {
		case 0, 8: // JGet, JHas
			op.i = r.Intn(n+4) - 1
		case 1, 2, 9, 10: // JSet, JDel, GGet, GSet
			op.i = r.Intn(n + 3)
		case 4: // JSetLen
			op.i = r.Intn(n+6) - 1
			if r.Intn(8) == 0 {
				op.i = r.Intn(30)
			}
		case 13:
			op.i = r.Intn(n + 4)
		}
		ops[j] = op
	}
	return ops
}

func (op sopT) coq() string {
	switch op.kind {
	case 14:
		return fmt.Sprintf("XSet %d", op.gv)
	case 15, 16, 17:
		return sopNames[op.kind]
	}
	return "XS (" + op.scoq() + ")"
}

func (op sopT) scoq() string {
	switch op.kind {
	case 0, 2, 4, 8, 9, 13:
		return fmt.Sprintf("%s %s", sopNames[op.kind], Cz(int64(op.i)))
	case 1:
		return fmt.Sprintf("JSet %d %s", op.i, op.v.coq)
	case 5:
		return "JPush " + op.v.coq
	case 10:
		return fmt.Sprintf("GSet %d %d", op.i, op.gv)
	case 12:
		return fmt.Sprintf("GAppend %d", op.gv)
	}
	return sopNames[op.kind]
}

// JS text of a script-side slice/array operation on expression x
func (op sopT) js(x string) (string, bool) {
	switch op.kind {
	case 0:
		return fmt.Sprintf("%s[%d]", x, op.i), false
	case 1:
		return fmt.Sprintf("%s[%d] = %s", x, op.i, op.v.js), true
	case 2:
		return fmt.Sprintf("delete %s[%d]", x, op.i), false
	case 3:
		return x + ".length", false
	case 4:
		return fmt.Sprintf("%s.length = %d", x, op.i), true
	case 5:
		return fmt.Sprintf("%s.push(%s)", x, op.v.js), false
	case 6:
		return x + ".pop()", false
	case 7:
		return fmt.Sprintf("Object.keys(%s).length", x), false
	case 8:
		return fmt.Sprintf("%d in %s", op.i, x), false
	case 14:
		return fmt.Sprintf("%s.foo = %d", x, op.gv), true
	case 15:
		return x + ".foo", false
	case 16:
		return "delete " + x + ".foo", false
	case 17:
		return "'foo' in " + x, false
	}
	return "", false
}

func (g *gen) runSliceHist(addr bool, sl []int, elems []int64, cp int, ops []sopT, bucket string) {
	vm := otto.New()
	t := &holder{S: sl}
	x := "s"
	cur := &sl // the header Go holds
	if addr {
		Must(vm.Set("t", t))
		x = "t.S"
		cur = &t.S
	} else {
		Must(vm.Set("s", sl))
	}
	var coqOps, obs, txt []string
	for _, op := range ops {
		var ob, line string
		if js, assign := op.js(x); js != "" {
			o := RunJS(vm, js)
			ob = obOfOutcome(o, assign)
			line = js
			if o.Panic != nil {
				line += fmt.Sprintf(" [Go panic: %v]", o.Panic)
			}
		} else {
			switch op.kind {
			case 9:
				line = fmt.Sprintf("Go: read [%d]", op.i)
				if op.i < len(*cur) {
					ob = obNum(int64((*cur)[op.i]))
				} else {
					ob = obUndef
				}
			case 10:
				line = fmt.Sprintf("Go: [%d] = %d", op.i, op.gv)
				if op.i < len(*cur) {
					(*cur)[op.i] = op.gv
					ob = "(0, 0)"
				} else {
					ob = obUndef
				}
			case 11:
				line = "Go: len"
				ob = obNum(int64(len(*cur)))
			case 12:
				line = fmt.Sprintf("Go: append %d", op.gv)
				*cur = append(*cur, op.gv)
				ob = "(0, 0)"
			case 13:
				line = fmt.Sprintf("Go: reslice [:%d]", op.i)
				if op.i <= cap(*cur) {
					*cur = (*cur)[:op.i]
					ob = "(0, 0)"
				} else {
					ob = obUndef
				}
			}
		}
		coqOps = append(coqOps, op.coq())
		obs = append(obs, ob)
		txt = append(txt, line+" -> "+ob)
		if strings.HasPrefix(ob, "(2, 9)") {
			break // a Go panic escaped Run: the interpreter state is not trusted further
		}
	}
	how := "s := make([]int, len, cap); vm.Set(\"s\", s)"
	if addr {
		how = "t := &struct{S []int}{...}; vm.Set(\"t\", t)"
	}
	g.env.Add(fmt.Sprintf("CSlice %s %s %d %s %s", Cbool(addr), czs(elems), cp, Clist(coqOps), Clist(obs)),
		fmt.Sprintf("%s %s elems=%v cap=%d: %s", bucket, how, elems, cp, strings.Join(txt, "; ")), bucket, true)
}

// ---------- arrays ----------

func (g *gen) arrayHist() {
	r := g.env.Rng
	n := r.Intn(4) + 1
	p := reflect.New(reflect.ArrayOf(n, reflect.TypeOf(int(0))))
	elems := make([]int64, n)
	for i := 0; i < n; i++ {
		elems[i] = int64(r.Intn(90) + 10)
		p.Elem().Index(i).SetInt(elems[i])
	}
	vm := otto.New()
	Must(vm.Set("p", p.Interface()))
	k := r.Intn(7) + 2
	var coqOps, obs, txt []string
	for j := 0; j < k; j++ {
		kind := g.xKind(Pick(r, []int{0, 0, 1, 1, 1, 2, 3, 4, 5, 7, 8, 9, 9, 10, 10, 11}))
		op := sopT{kind: kind, v: g.histValue(), gv: r.Intn(90) + 100}
		switch kind {
		case 0, 8:
			op.i = r.Intn(n+4) - 1
		case 1, 2, 9, 10:
			op.i = r.Intn(n + 2)
		case 4:
			op.i = r.Intn(n + 3)
		}
		var ob, line string
		if js, assign := op.js("p"); js != "" {
			o := RunJS(vm, js)
			ob = obOfOutcome(o, assign)
			line = js
			if o.Panic != nil {
				line += fmt.Sprintf(" [Go panic: %v]", o.Panic)
			}
		} else {
			a := p.Elem()
			switch op.kind {
			case 9:
				line = fmt.Sprintf("Go: read [%d]", op.i)
				if op.i < n {
					ob = obNum(a.Index(op.i).Int())
				} else {
					ob = obUndef
				}
			case 10:
				line = fmt.Sprintf("Go: [%d] = %d", op.i, op.gv)
				if op.i < n {
					a.Index(op.i).SetInt(int64(op.gv))
					ob = "(0, 0)"
				} else {
					ob = obUndef
				}
			case 11:
				line = "Go: len"
				ob = obNum(int64(n))
			}
		}
		coqOps = append(coqOps, op.coq())
		obs = append(obs, ob)
		txt = append(txt, line+" -> "+ob)
		if strings.HasPrefix(ob, "(2, 9)") {
			break
		}
	}
	g.env.Add(fmt.Sprintf("CArray %s %s %s", czs(elems), Clist(coqOps), Clist(obs)),
		fmt.Sprintf("array a := [%d]int%v; vm.Set(\"p\", &a): %s", n, elems, strings.Join(txt, "; ")), "array", true)
}

// ---------- maps ----------

// set of keys k0..k4 as a bit mask (anything else sets bit 20)
func keyMask(joined string) int64 {
	var m int64
	if joined == "" {
		return 0
	}
	for _, k := range strings.Split(joined, ",") {
		if len(k) == 2 && k[0] == 'k' && k[1] >= '0' && k[1] <= '4' {
			m += 1 << (k[1] - '0')
		} else {
			m += 1 << 20
		}
	}
	return m
}

func (g *gen) mapHist() { g.mapHistWith(false) }

// swap = true: Go-side mutations that keep the size (delete one key, insert
// another; replace a value) between repeated enumerations of the same wrapper
func (g *gen) mapHistWith(swap bool) {
	r := g.env.Rng
	m := map[string]int{}
	var init []string
	for k := 0; k < 5; k++ {
		if r.Intn(2) == 0 {
			v := r.Intn(90) + 10
			m[fmt.Sprintf("k%d", k)] = v
			init = append(init, fmt.Sprintf("(%d, %d)", k, v))
		}
	}
	initTxt := fmt.Sprint(m)
	vm := otto.New()
	Must(vm.Set("m", m))
	Must(vm.Set("w", m)) // a second wrapper of the same Go map
	n := r.Intn(7) + 2
	if swap {
		n = r.Intn(6) + 5
	}
	var coqOps, obs, txt []string
	var queue []int // forced operation kinds
	for j := 0; j < n; j++ {
		k := r.Intn(5)
		key := fmt.Sprintf("k%d", k)
		v := g.histValue()
		gv := r.Intn(90) + 100
		x := "m"
		if r.Intn(4) == 0 {
			x = "w"
		}
		var js, cq, ob, line string
		assign := false
		kind := r.Intn(13)
		if swap && len(queue) == 0 && r.Intn(3) == 0 {
			queue = []int{Pick(r, []int{5, 9, 10, 11}), 20, 21, Pick(r, []int{5, 9, 10, 11}), Pick(r, []int{0, 4, 9, 10, 11})}
		}
		if len(queue) > 0 {
			kind, queue = queue[0], queue[1:]
		}
		switch kind {
		case 0:
			js, cq = x+"."+key, fmt.Sprintf("MJGet %d", k)
		case 1, 2:
			js, cq, assign = fmt.Sprintf("%s.%s = %s", x, key, v.js), fmt.Sprintf("MJSet %d %s", k, v.coq), true
		case 3:
			js, cq = "delete "+x+"."+key, fmt.Sprintf("MJDel %d", k)
		case 4:
			js, cq = fmt.Sprintf("'%s' in %s", key, x), fmt.Sprintf("MJHas %d", k)
		case 5:
			js, cq = fmt.Sprintf("Object.keys(%s).length", x), "MJKeys"
		case 6:
			cq, line = fmt.Sprintf("MGGet %d", k), "Go: read "+key
			if x, ok := m[key]; ok {
				ob = obNum(int64(x))
			} else {
				ob = obUndef
			}
		case 7:
			cq, line, ob = fmt.Sprintf("MGSet %d %d", k, gv), fmt.Sprintf("Go: m[%s] = %d", key, gv), "(0, 0)"
			m[key] = gv
		case 8:
			if r.Intn(2) == 0 {
				cq, line, ob = fmt.Sprintf("MGDel %d", k), "Go: delete "+key, "(0, 0)"
				delete(m, key)
			} else {
				cq, line, ob = "MGLen", "Go: len", obNum(int64(len(m)))
			}
		case 9:
			js, cq = fmt.Sprintf("Object.keys(%s).sort().join(',')", x), "MJKeyset"
		case 10:
			js, cq = fmt.Sprintf("(function(){var a=[]; for (var k in %s) a.push(k); return a.sort().join(',')})()", x), "MJForIn"
		case 11:
			js, cq = fmt.Sprintf("(function(){var t=0; for (var k in %s) t += %s[k]; return t})()", x, x), "MJSum"
		case 20: // Go deletes a key that is present (if any) ...
			for kk := 0; kk < 5; kk++ {
				if _, ok := m[fmt.Sprintf("k%d", (k+kk)%5)]; ok {
					k = (k + kk) % 5
					break
				}
			}
			key = fmt.Sprintf("k%d", k)
			cq, line, ob = fmt.Sprintf("MGDel %d", k), "Go: delete "+key, "(0, 0)"
			delete(m, key)
		case 21: // ... and inserts one that is absent: same size, other key set
			for kk := 0; kk < 5; kk++ {
				if _, ok := m[fmt.Sprintf("k%d", (k+kk)%5)]; !ok {
					k = (k + kk) % 5
					break
				}
			}
			key = fmt.Sprintf("k%d", k)
			cq, line, ob = fmt.Sprintf("MGSet %d %d", k, gv), fmt.Sprintf("Go: m[%s] = %d", key, gv), "(0, 0)"
			m[key] = gv
		default:
			cq, line = fmt.Sprintf("MGGet %d", k), "Go: read "+key
			if x, ok := m[key]; ok {
				ob = obNum(int64(x))
			} else {
				ob = obUndef
			}
		}
		if js != "" {
			o := RunJS(vm, js)
			if (kind == 9 || kind == 10) && o.Panic == nil && o.Err == nil && o.Val.IsString() {
				sv, _ := o.Val.ToString()
				ob = obNum(keyMask(sv))
			} else {
				ob = obOfOutcome(o, assign)
			}
			line = js
			if o.Panic != nil {
				line += fmt.Sprintf(" [Go panic: %v]", o.Panic)
			}
		}
		coqOps = append(coqOps, cq)
		obs = append(obs, ob)
		txt = append(txt, line+" -> "+ob)
		if strings.HasPrefix(ob, "(2, 9)") {
			break
		}
	}
	g.env.Add(fmt.Sprintf("CMap %s %s %s", Clist(init), Clist(coqOps), Clist(obs)),
		fmt.Sprintf("map m := map[string]int%s; vm.Set(\"m\", m); vm.Set(\"w\", m): %s", initTxt, strings.Join(txt, "; ")), "map", true)
}

// ---------- structs ----------

// Emb is embedded in Hst: promoted fields, a tag, an unexported and a hidden one.
type Emb struct {
	X int
	Y int `json:"why"`
	z int
	W int `json:"-"`
}

// Hst exercises fieldIndexByName: tags, a tag equal to another field's name, "-", options, unexported.
type Hst struct {
	A int
	B int `json:"bee"`
	c int
	D int `json:"-"`
	Emb
	F int `json:"A"`
	G int `json:"gee,omitempty"`
	H int `json:"B"`
	K int `json:",omitempty"`
}

func (h Hst) Hello(n int) int { return n + h.A }
func (h *Hst) Inc()           { h.A++ }

var namePool = []string{"A", "B", "bee", "c", "D", "X", "Y", "why", "z", "W", "F", "G", "gee", "H", "K", "Nope", "nope", "Hello", "Inc", "Emb", "C", "a", "b"}

func nameID(s string) int {
	for i, n := range namePool {
		if n == s {
			return i + 1
		}
	}
	panic("name " + s)
}

func tagID(tag reflect.StructTag) int {
	a := strings.SplitN(tag.Get("json"), ",", 2)
	switch a[0] {
	case "":
		return 0
	case "-":
		return -1
	}
	return nameID(a[0])
}

func exported(name string) bool { return name[0] >= 'A' && name[0] <= 'Z' }

// Coq field table of a struct type (one level of embedding)
func fieldTable(t reflect.Type) string {
	var fs []string
	for i := 0; i < t.NumField(); i++ {
		f := t.Field(i)
		var subs []string
		if f.Anonymous && f.Type.Kind() == reflect.Struct {
			for j := 0; j < f.Type.NumField(); j++ {
				sf := f.Type.Field(j)
				subs = append(subs, fmt.Sprintf("mkSub %d %s %s", nameID(sf.Name), Cz(int64(tagID(sf.Tag))), Cbool(exported(sf.Name))))
			}
		}
		fs = append(fs, fmt.Sprintf("mkF %d %s %s %s", nameID(f.Name), Cz(int64(tagID(f.Tag))), Cbool(exported(f.Name)), Clist(subs)))
	}
	return Clist(fs)
}

func uppers() string {
	var u []string
	for i, n := range namePool {
		if exported(n) {
			u = append(u, fmt.Sprint(i+1))
		}
	}
	return Clist(u)
}

// a random struct type of exported int fields with tags drawn from the name pool
func (g *gen) randStructType() reflect.Type {
	r := g.env.Rng
	names := []string{"A", "B", "C", "D", "F", "G", "H", "K"}
	r.Shuffle(len(names), func(i, j int) { names[i], names[j] = names[j], names[i] })
	n := r.Intn(5) + 1
	fields := make([]reflect.StructField, n)
	for i := range fields {
		tag := ""
		switch r.Intn(6) {
		case 0:
			tag = `json:"-"`
		case 1:
			tag = `json:",omitempty"`
		case 2, 3:
			tag = fmt.Sprintf(`json:"%s"`, Pick(r, []string{"A", "B", "C", "a", "b", "bee", "D", "gee"}))
		case 4:
			tag = fmt.Sprintf(`json:"%s,omitempty"`, Pick(r, []string{"A", "B", "a", "b"}))
		}
		fields[i] = reflect.StructField{Name: names[i], Type: reflect.TypeOf(int(0)), Tag: reflect.StructTag(tag)}
	}
	return reflect.StructOf(fields)
}

func (g *gen) dashWitness() {
	g.structHistOn(reflect.ValueOf(&Hst{}), fmt.Sprintf("[%d; %d]", nameID("Hello"), nameID("Inc")),
		[]fixedTop{{"set", "D", jsval{"8", "(KI64, 8)"}}, {"get", "D", jsval{}}})
}

type fixedTop struct {
	what, name string
	v          jsval
}

func (g *gen) structHist() {
	r := g.env.Rng
	switch r.Intn(5) {
	case 0, 1:
		g.structHistOn(reflect.ValueOf(&Hst{}), fmt.Sprintf("[%d; %d]", nameID("Hello"), nameID("Inc")), nil)
	case 2:
		g.structHistOn(cfgVariant(r.Intn(6)), "[]", nil)
	default:
		g.structHistOn(reflect.New(g.randStructType()), "[]", nil)
	}
}

func (g *gen) structHistOn(p reflect.Value, methods string, fixed []fixedTop) {
	g.structHistVM(otto.New(), p, methods, fixed)
}

func (g *gen) structHistVM(vm *otto.Otto, p reflect.Value, methods string, fixed []fixedTop) {
	r := g.env.Rng
	t := p.Elem().Type()
	// settable int leaves
	type leaf struct {
		path string
		v    reflect.Value
	}
	var leaves []leaf
	var init []string
	for i := 0; i < t.NumField(); i++ {
		f := p.Elem().Field(i)
		if f.Kind() == reflect.Struct {
			var sub []string
			for j := 0; j < f.NumField(); j++ {
				x := int64(r.Intn(90) + 10)
				if f.Field(j).CanSet() {
					f.Field(j).SetInt(x)
					leaves = append(leaves, leaf{fmt.Sprintf("(%d%%nat, Some %d%%nat)", i, j), f.Field(j)})
				} else {
					x = 0
				}
				sub = append(sub, Cz(x))
			}
			init = append(init, Clist(sub))
			continue
		}
		x := int64(r.Intn(90) + 10)
		if f.CanSet() {
			f.SetInt(x)
			leaves = append(leaves, leaf{fmt.Sprintf("(%d%%nat, None)", i), f})
		} else {
			x = 0
		}
		init = append(init, Clist([]string{Cz(x)}))
	}
	Must(vm.Set("t", p.Interface()))
	n := r.Intn(7) + 2
	if fixed != nil {
		n = len(fixed)
	}
	var coqOps, obs, txt []string
	for j := 0; j < n; j++ {
		name := Pick(r, namePool)
		if name == "Emb" {
			name = "X" // the embedded struct itself is an object, not an int: not modelled
		}
		choice := r.Intn(8)
		if fixed != nil {
			name = fixed[j].name
			choice = map[string]int{"get": 0, "set": 2}[fixed[j].what]
		}
		id := nameID(name)
		var js, cq, ob, line string
		assign := false
		switch choice {
		case 0, 1:
			js, cq = "t."+name, fmt.Sprintf("TJGet %d", id)
		case 2, 3, 4:
			v := g.histValue()
			if fixed != nil {
				v = fixed[j].v
			}
			if !strings.HasPrefix(v.coq, "(KI64") {
				// failing / float values only where a field takes them: an own property would just keep the value
				if idx := fieldByLookup(t, name); !idx {
					v = jsval{"3", "(KI64, 3)"}
				}
			}
			if name == "Hello" || name == "Inc" {
				name, id = "A", nameID("A")
			}
			js, cq, assign = fmt.Sprintf("t.%s = %s", name, v.js), fmt.Sprintf("TJSet %d %s", id, v.coq), true
		case 5:
			js, cq = fmt.Sprintf("'%s' in t", name), fmt.Sprintf("TJHas %d", id)
		case 6:
			l := Pick(r, leaves)
			cq, line, ob = "TGGet "+l.path, "Go: read field "+l.path, obNum(l.v.Int())
		default:
			l := Pick(r, leaves)
			gv := r.Intn(90) + 100
			l.v.SetInt(int64(gv))
			cq, line, ob = fmt.Sprintf("TGSet %s %d", l.path, gv), fmt.Sprintf("Go: field %s = %d", l.path, gv), "(0, 0)"
		}
		if js != "" {
			o := RunJS(vm, js)
			ob = obOfOutcome(o, assign)
			line = js
			if o.Panic != nil {
				line += fmt.Sprintf(" [Go panic: %v]", o.Panic)
			}
		}
		coqOps = append(coqOps, cq)
		obs = append(obs, ob)
		txt = append(txt, line+" -> "+ob)
		if strings.HasPrefix(ob, "(2, 9)") {
			break
		}
	}
	g.env.Add(fmt.Sprintf("CStruct %s %s %s %s %s %s", fieldTable(t), uppers(), methods, Clist(init), Clist(coqOps), Clist(obs)),
		fmt.Sprintf("struct t := &%v{...}; vm.Set(\"t\", t): %s", t, strings.Join(txt, "; ")), "struct", true)
}

// does the name reach an int field by tag or Go name (so that a failing value is converted, not kept as an own property)?
// computed from the Go type with encoding-independent rules: any exported, non-"-" field whose tag or name matches.
func fieldByLookup(t reflect.Type, name string) bool {
	for i := 0; i < t.NumField(); i++ {
		f := t.Field(i)
		if !exported(f.Name) {
			continue
		}
		if f.Anonymous && f.Type.Kind() == reflect.Struct {
			if fieldByLookup(f.Type, name) {
				return true
			}
		}
		tag := strings.SplitN(f.Tag.Get("json"), ",", 2)[0]
		if tag == "-" {
			continue
		}
		if (tag != "" && tag == name) || f.Name == name {
			return true
		}
	}
	return false
}
