package main

import (
	"fmt"
	"reflect"
	"strings"

	"github.com/robertkrimen/otto"
	. "ottoh/lib"
)

// Re-entrant calls: script code that runs while the arguments of a bridged call
// are being converted (toString of an object given for a string parameter, a
// getter read while a map / struct parameter is built, the length getter of an
// array-like given for a slice parameter -- read before the object is refused as no list) calls bridged functions itself -- the same
// one or another.  Every parameter carries one integer: the number, the id k
// of the string "sk", the value under key a / in field A, the slice length.

type rsA struct{ A int }

// parameter kinds: 0 int, 1 string, 2 map[string]int, 3 struct{A int}, 4 []int
var rFuncs = [][]int{
	{0, 1},       // f0(int, string)
	{0, 0, 2},    // f1(int, int, map[string]int)
	{1, 3, 1},    // f2(string, struct{A int}, string)
	{0, 4, 1, 0}, // f3(int, []int, string, int)
	{1},          // f4(string)
}

var rKindTypes = []reflect.Type{reflect.TypeOf(0), reflect.TypeOf(""), reflect.TypeOf(map[string]int{}), reflect.TypeOf(rsA{}), reflect.TypeOf([]int{})}

type rcall struct {
	f    int
	args []rarg
}
type rarg struct {
	v     int
	re    bool
	inner []rcall
}

func (g *gen) randRCall(depth int, prefer int) rcall {
	r := g.env.Rng
	f := r.Intn(len(rFuncs))
	if prefer >= 0 && r.Intn(3) > 0 {
		f = prefer // re-enter the same function
	}
	c := rcall{f: f}
	for _, k := range rFuncs[f] {
		a := rarg{v: r.Intn(6)}
		if k != 0 && depth > 0 && r.Intn(2) == 0 {
			a.re = true
			n := r.Intn(2) + 1
			for i := 0; i < n; i++ {
				a.inner = append(a.inner, g.randRCall(depth-1, f))
			}
		}
		c.args = append(c.args, a)
	}
	return c
}

func (c rcall) coq() string {
	var as []string
	for ai, a := range c.args {
		if a.re {
			var in []string
			for _, i := range a.inner {
				in = append(in, i.coq())
			}
			if rFuncs[c.f][ai] == 4 {
				// an object that only has a length getter is no list: the getter runs, then the conversion fails (TypeError)
				as = append(as, fmt.Sprintf("RReFail %s", Clist(in)))
				continue
			}
			as = append(as, fmt.Sprintf("RRe %s %d", Clist(in), a.v))
		} else {
			as = append(as, fmt.Sprintf("RVal %d", a.v))
		}
	}
	return fmt.Sprintf("RCall %d %s", c.f, Clist(as))
}

func (c rcall) js() string {
	var as []string
	for i, a := range c.args {
		k := rFuncs[c.f][i]
		body := ""
		if a.re {
			var in []string
			for _, ic := range a.inner {
				in = append(in, ic.js()+";")
			}
			body = strings.Join(in, " ") + " "
		}
		switch k {
		case 0:
			as = append(as, fmt.Sprint(a.v))
		case 1:
			if a.re {
				as = append(as, fmt.Sprintf("({toString: function(){ %sreturn \"s%d\" }})", body, a.v))
			} else {
				as = append(as, fmt.Sprintf("\"s%d\"", a.v))
			}
		case 2:
			if a.re {
				as = append(as, fmt.Sprintf("({get a(){ %sreturn %d }})", body, a.v))
			} else {
				as = append(as, fmt.Sprintf("({a: %d})", a.v))
			}
		case 3:
			if a.re {
				as = append(as, fmt.Sprintf("({get A(){ %sreturn %d }})", body, a.v))
			} else {
				as = append(as, fmt.Sprintf("({A: %d})", a.v))
			}
		case 4:
			if a.re {
				as = append(as, fmt.Sprintf("({get length(){ %sreturn %d }})", body, a.v))
			} else {
				as = append(as, "["+strings.TrimSuffix(strings.Repeat("0,", a.v), ",")+"]")
			}
		}
	}
	return fmt.Sprintf("f%d(%s)", c.f, strings.Join(as, ", "))
}

func (g *gen) runReent(calls []rcall) {
	vm := otto.New()
	var log []string
	var logTxt []string
	for fi, ks := range rFuncs {
		fi, ks := fi, ks
		in := make([]reflect.Type, len(ks))
		for i, k := range ks {
			in[i] = rKindTypes[k]
		}
		Must(vm.Set(fmt.Sprintf("f%d", fi), reflect.MakeFunc(reflect.FuncOf(in, nil, false), func(a []reflect.Value) []reflect.Value {
			vals := make([]int64, len(a))
			for i, x := range a {
				switch ks[i] {
				case 0:
					vals[i] = x.Int()
				case 1:
					s := x.String()
					vals[i] = -1
					if len(s) == 2 && s[0] == 's' && s[1] >= '0' && s[1] <= '9' {
						vals[i] = int64(s[1] - '0')
					}
				case 2:
					vals[i] = -1
					if v := x.MapIndex(reflect.ValueOf("a")); v.IsValid() && x.Len() == 1 {
						vals[i] = v.Int()
					}
				case 3:
					vals[i] = x.Field(0).Int()
				case 4:
					vals[i] = int64(x.Len())
				}
			}
			log = append(log, fmt.Sprintf("(%d, %s)", fi, Czlist(vals)))
			logTxt = append(logTxt, fmt.Sprintf("f%d%v", fi, vals))
			return nil
		}).Interface()))
	}
	var js, cq []string
	for _, c := range calls {
		js = append(js, c.js()+";")
		cq = append(cq, c.coq())
	}
	src := strings.Join(js, " ")
	o := RunJS(vm, src)
	g.env.Add(fmt.Sprintf("CReent %s %s %s", Clist(cq), Clist(log), Cz(ErrClass(o))),
		fmt.Sprintf("reent f0(int,string) f1(int,int,map[string]int) f2(string,struct{A int},string) f3(int,[]int,string,int) f4(string); %s : %s, Go saw in order %s", src, describe(o), strings.Join(logTxt, " ")), "reent", true)
}

func (g *gen) reentCase() {
	n := g.env.Rng.Intn(2) + 1
	var calls []rcall
	for i := 0; i < n; i++ {
		calls = append(calls, g.randRCall(2, -1))
	}
	g.runReent(calls)
}

// fixed re-entrant shapes, run on every seed
func (g *gen) pinnedReent() {
	v := func(n int) rarg { return rarg{v: n} }
	re := func(n int, in ...rcall) rarg { return rarg{v: n, re: true, inner: in} }
	g.runReent([]rcall{{0, []rarg{v(1), re(3, rcall{0, []rarg{v(2), v(4)}})}}})
	g.runReent([]rcall{{1, []rarg{v(1), v(2), re(3, rcall{1, []rarg{v(4), v(5), v(0)}})}}})
	g.runReent([]rcall{{2, []rarg{v(1), re(2, rcall{2, []rarg{v(3), v(4), v(5)}}), re(0, rcall{0, []rarg{v(5), v(5)}}, rcall{2, []rarg{v(0), v(0), v(1)}})}}})
	g.runReent([]rcall{{3, []rarg{v(1), re(2, rcall{3, []rarg{v(5), v(3), v(4), v(2)}}), v(3), v(4)}}})
	g.runReent([]rcall{{0, []rarg{v(1), re(3, rcall{0, []rarg{v(2), re(4, rcall{0, []rarg{v(5), v(0)}})}})}}})
}
