package main

import (
	"fmt"
	"reflect"
	"strings"

	. "ottoh/lib"
)

// Variadic parameters of func, slice, map, struct and interface element types,
// called with 0, 1, 2 arguments for the variadic slot and with one array
// argument.  With exactly one argument the wrapper first tries that argument
// as the WHOLE tail; anything with a numeric length that is not an Array then
// becomes a slice of zero values (a function: as many as it declares parameters).

func jsFun(n int) jsx {
	return jsx{"(function(" + strings.Join([]string{"a", "b", "c"}[:n], ", ") + "){})", fmt.Sprintf("(JFun %d)", n)}
}

func (g *gen) pinnedVariadic() {
	it := &gty{rt: kinds[0].rt, coq: "(TNum KI)", kind: "num", nk: 0}
	num := func(n int) jsx { return jsx{fmt.Sprint(n), fmt.Sprintf("(JNum (KI64, %d))", n)} }
	arr := func(es ...jsx) jsx {
		var js, cq []string
		for _, e := range es {
			js, cq = append(js, e.js), append(cq, "(Some "+e.coq+")")
		}
		return jsx{"[" + strings.Join(js, ",") + "]", "(JArr " + Clist(cq) + ")"}
	}
	obj := func(key string, v jsx) jsx {
		return jsx{"({" + key + ": " + v.js + "})", fmt.Sprintf("(JObj [(%d, %s)])", nameID(key), v.coq)}
	}
	stA := gtyOfStruct(reflect.TypeOf(rsA{}))
	type elemT struct {
		t    *gty
		vals []jsx // well-typed single elements
	}
	elems := []elemT{
		{&gty{rt: reflect.TypeOf(func(int) {}), coq: "TFunc", kind: "func"}, []jsx{jsFun(1), jsFun(0), jsFun(2)}},
		{&gty{rt: reflect.SliceOf(it.rt), coq: "(TSlice (TNum KI))", kind: "slice", elem: it}, []jsx{arr(num(1), num(2)), arr(), arr(num(3))}},
		{&gty{rt: reflect.MapOf(reflect.TypeOf(""), it.rt), coq: "(TMap (TNum KI))", kind: "map", elem: it}, []jsx{obj("a", num(1)), {"({})", "(JObj [])"}, obj("b", num(2))}},
		{stA, []jsx{obj("A", num(1)), {"({})", "(JObj [])"}, obj("A", num(2))}},
		{&gty{rt: anyType, coq: "TAny", kind: "any"}, []jsx{jsFun(2), jsFun(0), num(5), arr(num(1), num(2)), jsString("ab"), obj("a", num(1))}},
	}
	for _, e := range elems {
		in := []reflect.Type{it.rt, reflect.SliceOf(e.t.rt)}
		ctys := []string{it.coq, "(TSlice " + e.t.coq + ")"}
		call := func(args ...jsx) {
			js, cq := []string{"1"}, []string{"(JNum (KI64, 1))"}
			for _, a := range args {
				js, cq = append(js, a.js), append(cq, a.coq)
			}
			g.runCall(in, ctys, true, js, cq, "variadic")
		}
		call() // no argument for the variadic slot
		for _, v := range e.vals {
			call(v) // exactly one: tried as the whole tail first
		}
		call(e.vals[0], e.vals[len(e.vals)-1]) // two: element-wise
		call(e.vals[0], e.vals[1], e.vals[0])
		call(arr(e.vals...)) // one array holding the elements: the whole tail
		call(arr())
		call(num(7)) // a value that is no element (except for interface{})
		// the same without a leading fixed parameter
		in1, ctys1 := in[1:], ctys[1:]
		g.runCall(in1, ctys1, true, []string{e.vals[0].js}, []string{e.vals[0].coq}, "variadic")
		g.runCall(in1, ctys1, true, nil, nil, "variadic")
	}
	// arrays with holes for slice parameters of several element types: a hole is the zero value at ITS index
	holeTypes := []*gty{it, {rt: reflect.TypeOf(""), coq: "TStr", kind: "str"}, {rt: reflect.TypeOf(true), coq: "TBool", kind: "bool"},
		{rt: anyType, coq: "TAny", kind: "any"}, {rt: kinds[kF64].rt, coq: "(TNum KF64)", kind: "num", nk: kF64}}
	for _, ht := range holeTypes {
		for _, shape := range [][]bool{{true, false, true}, {false, true}, {true, false, false, true}, {false, false}, {true, true, false}} {
			var js, cq []string
			for i, present := range shape {
				if !present {
					js, cq = append(js, ""), append(cq, "None")
					continue
				}
				v := num(i + 1)
				if ht.kind == "str" {
					v = jsString(fmt.Sprint("s", i))
				}
				js, cq = append(js, v.js), append(cq, "(Some "+v.coq+")")
			}
			lit := "[" + strings.Join(js, ",") + "]"
			if !shape[len(shape)-1] {
				lit = "[" + strings.Join(js, ",") + ",]" // a trailing hole needs its own comma
			}
			g.runCall([]reflect.Type{reflect.SliceOf(ht.rt)}, []string{"(TSlice " + ht.coq + ")"}, false, []string{lit}, []string{"(JArr " + Clist(cq) + ")"}, "variadic")
			g.runCall([]reflect.Type{reflect.SliceOf(ht.rt)}, []string{"(TSlice " + ht.coq + ")"}, true, []string{lit}, []string{"(JArr " + Clist(cq) + ")"}, "variadic")
		}
	}
	// a function where a plain slice parameter is expected
	g.runCall([]reflect.Type{reflect.SliceOf(it.rt)}, []string{"(TSlice (TNum KI))"}, false, []string{jsFun(2).js}, []string{jsFun(2).coq}, "variadic")
}
