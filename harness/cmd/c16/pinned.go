package main

import (
	"bytes"
	"fmt"
	"os"
	"os/exec"
	"reflect"
	"runtime/debug"
	"strings"
	"time"

	"github.com/robertkrimen/otto"
	. "ottoh/lib"
)

// crashProbe runs in a child process: `delete s.foo` on a bridged slice recurses
// without end in goSliceDelete and the Go runtime kills the process (a fatal
// stack overflow cannot be recovered), so the parent must not run it itself.
func crashProbe(what string) {
	debug.SetMaxStack(4 << 20)
	vm := otto.New()
	switch what {
	case "slice":
		Must(vm.Set("s", []int{1, 2}))
	default:
		a := [2]int{1, 2}
		Must(vm.Set("s", &a))
	}
	v, err := vm.Run("s.foo = 1; delete s.foo")
	fmt.Printf("survived: %v %v\n", v, err)
	os.Exit(0)
}

// pinned witnesses of defects that are not modelled: how = 0 the defect as
// recorded, 1 the behaviour the property asks for, 2 anything else
func (g *gen) regress(cls int, what string, how int, seen string) {
	g.env.Add(fmt.Sprintf("CRegress %d %d", cls, how), fmt.Sprintf("regression %s -> %s", what, seen), "pinned", true)
}

func (g *gen) pin(cls int, what string, how int, seen string) {
	g.env.Add(fmt.Sprintf("CPinned %d %d", cls, how), fmt.Sprintf("pinned %s -> %s", what, seen), "pinned", true)
}

func isJSError(o Outcome) bool { c := ErrClass(o); return c == 3 || c == 6 }

func (g *gen) pinnedWitnesses() {
	// 12: func(*interface{}) gets a *T for the dynamic type
	{
		vm := otto.New()
		var got []reflect.Value
		Must(vm.Set("f", makeFunc([]reflect.Type{reflect.PtrTo(anyType)}, false, &got)))
		o := RunJS(vm, "f(5)")
		how := 2
		switch {
		case o.Panic != nil:
			how = 0
		case o.Err == nil && len(got) == 1 && !got[0].IsNil() && fmt.Sprint(got[0].Elem().Interface()) == "5":
			how = 1
		case isJSError(o):
			how = 1
		}
		g.pin(12, "f(5) with f func(*interface{})", how, describe(o))
	}
	// 13 (repaired in 1f2d1fa, kept as a regression case): delete of a non-index property of a bridged
	// slice / array used to kill the process; still probed in a child first so that a relapse is reported, not suffered
	for _, what := range []string{"slice", "array"} {
		exe, err := os.Executable()
		how, seen := 2, ""
		if err == nil {
			cmd := exec.Command(exe, "crashprobe", what)
			var out bytes.Buffer
			cmd.Stdout, cmd.Stderr = &out, &out
			done := make(chan error, 1)
			Must(cmd.Start())
			go func() { done <- cmd.Wait() }()
			select {
			case err = <-done:
			case <-time.After(60 * time.Second):
				_ = cmd.Process.Kill()
				err = fmt.Errorf("timeout")
			}
			s := out.String()
			switch {
			case err != nil && strings.Contains(s, "stack overflow"):
				how, seen = 0, "child process died: fatal error: stack overflow (goSliceDelete/goArrayDelete call themselves through object.delete)"
			case err == nil && strings.Contains(s, "survived: true <nil>"):
				how, seen = 1, strings.TrimSpace(s)
			default:
				seen = fmt.Sprintf("%v %.200s", err, s)
			}
		}
		if how != 1 {
			deleteNonIndexCrashes = true
		}
		g.regress(13, "s.foo = 1; delete s.foo on a bridged "+what+" (must be true)", how, seen)
	}
	// 14: store through a nil map held in a struct field
	{
		vm := otto.New()
		t := &struct{ M map[string]int }{}
		Must(vm.Set("t", t))
		o := RunJS(vm, "t.M.x = 1")
		how := 2
		switch {
		case o.Panic != nil:
			how = 0
		case isJSError(o) || (o.Err == nil && t.M["x"] == 1):
			how = 1
		}
		g.pin(14, "t := &struct{M map[string]int}{}; t.M.x = 1", how, describe(o))
	}
	// 15: field store on a struct bridged by value
	{
		vm := otto.New()
		Must(vm.Set("tv", struct{ A int }{1}))
		o := RunJS(vm, "tv.A = 2")
		how := 2
		switch {
		case o.Panic != nil:
			how = 0
		case isJSError(o) || o.Err == nil:
			how = 1
		}
		g.pin(15, "vm.Set(\"tv\", struct{A int}{1}); tv.A = 2", how, describe(o))
	}
	// 16: null into []interface{}
	{
		vm := otto.New()
		s := []interface{}{1}
		Must(vm.Set("s", s))
		o := RunJS(vm, "s[0] = null")
		how := 2
		switch {
		case o.Panic != nil:
			how = 0
		case isJSError(o) || (o.Err == nil && s[0] == nil):
			how = 1
		}
		g.pin(16, "s := []interface{}{1}; s[0] = null", how, describe(o))
	}
	// 17: non-numeric property name on map[int]string
	{
		vm := otto.New()
		Must(vm.Set("m", map[int]string{1: "x"}))
		o := RunJS(vm, "m.x = 'q'")
		how := 2
		switch {
		case o.Panic != nil:
			how = 0
		case isJSError(o) || o.Err == nil:
			how = 1
		}
		g.pin(17, "m := map[int]string{1:\"x\"}; m.x = 'q'", how, describe(o))
	}
	// 18 (repaired in 96bc623, kept as a regression case): array-like object for a []int parameter
	{
		vm := otto.New()
		var got []reflect.Value
		Must(vm.Set("f", makeFunc([]reflect.Type{reflect.TypeOf([]int{})}, false, &got)))
		o := RunJS(vm, "f({length: 2, 0: 5, 1: 6})")
		how, seen := 2, describe(o)
		switch {
		case isJSError(o):
			how = 1
		case o.Err == nil && o.Panic == nil && len(got) == 1:
			seen = fmt.Sprintf("received %v", got[0].Interface())
			if seen == "received [0 0]" {
				how = 0
			} else if seen == "received [5 6]" {
				how = 1
			}
		}
		g.regress(18, "f({length: 2, 0: 5, 1: 6}) with f func([]int)", how, seen)
	}
	// 19: a fraction stored into a string element
	{
		vm := otto.New()
		s := []string{"a"}
		Must(vm.Set("s", s))
		o := RunJS(vm, "s[0] = 1.5")
		how := 2
		switch {
		case o.Panic != nil:
			how = 0
		case isJSError(o) || (o.Err == nil && s[0] == "1.5"):
			how = 1
		}
		g.pin(19, "s := []string{\"a\"}; s[0] = 1.5", how, describe(o))
	}
	// 21: maps whose key type is a NAMED type cannot be used at all
	{
		type SK string
		vm := otto.New()
		Must(vm.Set("m", map[SK]int{"a": 10}))
		o := RunJS(vm, "m.a")
		how := 2
		switch {
		case o.Panic != nil:
			how = 0
		case o.Err == nil && o.Val.IsNumber():
			if n, _ := o.Val.ToInteger(); n == 10 {
				how = 1
			}
		}
		g.pin(21, "type SK string; m := map[SK]int{\"a\": 10}; m.a", how, describe(o))
	}
	// 20: a huge length on a bridged slice still reaches reflect.MakeSlice unchecked;
	// f({length: -1}) for a []T parameter was repaired with 96bc623 (a non-list object is a TypeError) and is a regression case
	for _, src := range []string{"f({length: -1})", "s.length = 1e18", "f(function(a, b){})", "f({length: 1e18})"} {
		vm := otto.New()
		var got []reflect.Value
		Must(vm.Set("f", makeFunc([]reflect.Type{reflect.TypeOf([]int{})}, false, &got)))
		Must(vm.Set("s", []int{1}))
		o := RunJS(vm, src)
		how := 2
		switch {
		case o.Panic != nil:
			how = 0
		case isJSError(o):
			how = 1
		}
		if strings.HasPrefix(src, "f(") {
			g.regress(18, src+" (f func([]int))", how, describe(o))
		} else {
			g.pin(20, src+" (s []int)", how, describe(o))
		}
	}
}

// pinned histories: one per container finding, so that every run shows them
func (g *gen) pinnedHists() {
	lit := func(n int) jsval { return jsval{fmt.Sprint(n), fmt.Sprintf("(KI64, %d)", n)} }
	// repaired 13: the delete in a history, with the property set, read, tested and deleted on both kinds of wrapper
	if !deleteNonIndexCrashes {
		x := []sopT{{kind: 14, gv: 7}, {kind: 15}, {kind: 7}, {kind: 16}, {kind: 15}, {kind: 17}, {kind: 7}, {kind: 16}}
		g.runSliceHist(false, []int{1, 2}, []int64{1, 2}, 2, x, "slice")
		g.runSliceHist(true, []int{1, 2}, []int64{1, 2}, 2, x, "slice")
	}
	// class 6: pop on a slice handed over by value
	g.runSliceHist(false, []int{1, 2, 3}, []int64{1, 2, 3}, 3, []sopT{{kind: 6}}, "slice")
	// class 7: push through a struct field
	g.runSliceHist(true, []int{}, []int64{}, 0, []sopT{{kind: 5, v: lit(5)}, {kind: 3}, {kind: 11}}, "slice")
	// class 8: in
	g.runSliceHist(false, []int{1}, []int64{1}, 1, []sopT{{kind: 8, i: 100}}, "slice")
	// class 11: -0 as a string parameter
	g.runCall([]reflect.Type{reflect.TypeOf("")}, []string{"TStr"}, false, []string{"(-0)"}, []string{"(JNum (KF64, " + Cdouble(negZero()) + "))"}, "call")
	// class 10: write to a json:"-" field
	g.dashWitness()
}
