package main

import (
	"fmt"
	"reflect"
	"strings"

	"github.com/robertkrimen/otto"
	. "ottoh/lib"
)

// Distinct struct types that print the same name ("main.Cfg", "main.Rec") but
// differ in field order, tags and types: function-local types of one name.
// Anything in the bridge that identifies a type by its printed name confuses them.

func cfgVariant(i int) reflect.Value {
	switch i % 6 {
	case 0:
		type Cfg struct {
			A int
			B int `json:"bee"`
			C int
		}
		return reflect.ValueOf(&Cfg{})
	case 1:
		type Cfg struct {
			C int
			A int `json:"B"`
			B int `json:"gee"`
		}
		return reflect.ValueOf(&Cfg{})
	case 2:
		type Cfg struct {
			B int `json:"A"`
			C int `json:"bee"`
			A int `json:"-"`
			D int
		}
		return reflect.ValueOf(&Cfg{})
	case 3:
		type Cfg struct {
			D int `json:"C"`
			C int `json:"a"`
			B int
			A int
		}
		return reflect.ValueOf(&Cfg{})
	case 4:
		type Cfg struct {
			c int
			B int
			A int `json:"b,omitempty"`
		}
		return reflect.ValueOf(&Cfg{c: 1})
	default:
		type Cfg struct {
			G int `json:"A"`
			A int `json:"G"`
		}
		return reflect.ValueOf(&Cfg{})
	}
}

func recVariant(i int) reflect.Type {
	switch i % 5 {
	case 0:
		type Rec struct {
			A int
			B string `json:"a"`
			C bool
		}
		return reflect.TypeOf(Rec{})
	case 1:
		type Rec struct {
			B string
			C uint8 `json:"a"`
			A float64
		}
		return reflect.TypeOf(Rec{})
	case 2:
		type Rec struct {
			C int8 `json:"A"`
			A string `json:"B"`
			B bool `json:"C"`
		}
		return reflect.TypeOf(Rec{})
	case 3:
		type Rec struct {
			A interface{}
			C string
		}
		return reflect.TypeOf(Rec{})
	default:
		type Rec struct {
			C string `json:"bee"`
			B int64
			A uint16 `json:"b"`
		}
		return reflect.TypeOf(Rec{})
	}
}

// the structural-family description of a struct type whose fields are scalars / interface{}
func gtyOfStruct(rt reflect.Type) *gty {
	var fl []sfld
	var ftab, ftys []string
	for i := 0; i < rt.NumField(); i++ {
		f := rt.Field(i)
		var ft *gty
		switch {
		case f.Type.Kind() == reflect.Bool:
			ft = &gty{rt: f.Type, coq: "TBool", kind: "bool"}
		case f.Type.Kind() == reflect.String:
			ft = &gty{rt: f.Type, coq: "TStr", kind: "str"}
		case f.Type.Kind() == reflect.Interface:
			ft = &gty{rt: f.Type, coq: "TAny", kind: "any"}
		default:
			k := kindOf(f.Type)
			ft = &gty{rt: f.Type, coq: "(TNum " + kinds[k].coq + ")", kind: "num", nk: k}
		}
		tag := strings.SplitN(f.Tag.Get("json"), ",", 2)[0]
		fl = append(fl, sfld{f.Name, tag, ft})
		ftab = append(ftab, fmt.Sprintf("mkF %d %s true []", nameID(f.Name), Cz(int64(tagID(f.Tag)))))
		ftys = append(ftys, ft.coq)
	}
	return &gty{rt: rt, coq: fmt.Sprintf("(TStruct %s %s)", Clist(ftab), Clist(ftys)), kind: "struct", flds: fl}
}

// several same-named struct types bridged one after the other on ONE runtime
// (each its own history), the way a host re-binds a global
func (g *gen) sameNameStructs() {
	r := g.env.Rng
	vm := otto.New()
	n := r.Intn(3) + 2
	start := r.Intn(6)
	for i := 0; i < n; i++ {
		g.structHistVM(vm, cfgVariant(start+i*(1+r.Intn(2))), "[]", nil)
	}
}

// JS object -> same-named struct parameter types, in sequence
func (g *gen) sameNameCalls() {
	r := g.env.Rng
	start := r.Intn(5)
	for i := 0; i < 3; i++ {
		t := gtyOfStruct(recVariant(start + i))
		if r.Intn(3) == 0 {
			t = &gty{rt: reflect.PtrTo(t.rt), coq: "(TPtr " + t.coq + ")", kind: "ptr", elem: t}
		}
		v := g.valueFor(t, 2)
		g.runCall([]reflect.Type{t.rt}, []string{t.coq}, false, []string{v.js}, []string{v.coq}, "call")
	}
}

// ---------- pointer / value / interface parameters on values nested in a pointer-bridged struct ----------

type PInner struct{ N, M int }
type POuter struct{ In PInner }
type PHolder struct {
	C  PInner
	G  [3]int
	P  *PInner
	S  []PInner
	Mp map[string]PInner
	A  [2]PInner
	S2 []POuter
}

var pCellJS = []string{"h.C.N", "h.C.M", "h.G[0]", "h.G[1]", "h.G[2]", "h.P.N", "h.P.M", "h.S[0].N", "h.S[0].M", "h.Mp.a.N", "h.Mp.a.M", "h.A[0].N", "h.A[0].M", "h.S2[0].In.N", "h.S2[0].In.M"}

// for a cell reached through a by-value element: the element expression and the path below it
var pElemOf = map[int][2]string{7: {"h.S[0]", "N"}, 8: {"h.S[0]", "M"}, 9: {"h.Mp.a", "N"}, 10: {"h.Mp.a", "M"}, 11: {"h.A[0]", "N"}, 12: {"h.A[0]", "M"}, 13: {"h.S2[0]", "In.N"}, 14: {"h.S2[0]", "In.M"}}

func pCells(h *PHolder) []int64 {
	return []int64{int64(h.C.N), int64(h.C.M), int64(h.G[0]), int64(h.G[1]), int64(h.G[2]), int64(h.P.N), int64(h.P.M),
		int64(h.S[0].N), int64(h.S[0].M), int64(h.Mp["a"].N), int64(h.Mp["a"].M),
		int64(h.A[0].N), int64(h.A[0].M), int64(h.S2[0].In.N), int64(h.S2[0].In.M)}
}

func pSetCell(h *PHolder, c int, v int) {
	switch c {
	case 0:
		h.C.N = v
	case 1:
		h.C.M = v
	case 2, 3, 4:
		h.G[c-2] = v
	case 5:
		h.P.N = v
	case 6:
		h.P.M = v
	case 7:
		h.S[0].N = v
	case 8:
		h.S[0].M = v
	case 9:
		x := h.Mp["a"]
		x.N = v
		h.Mp["a"] = x
	case 10:
		x := h.Mp["a"]
		x.M = v
		h.Mp["a"] = x
	case 11:
		h.A[0].N = v
	case 12:
		h.A[0].M = v
	case 13:
		h.S2[0].In.N = v
	default:
		h.S2[0].In.M = v
	}
}

func (g *gen) ptrHist(fixed []string) {
	r := g.env.Rng
	rv := func() int { return r.Intn(90) + 10 }
	h := &PHolder{C: PInner{rv(), rv()}, G: [3]int{rv(), rv(), rv()}, P: &PInner{rv(), rv()}, S: []PInner{{rv(), rv()}}, Mp: map[string]PInner{"a": {rv(), rv()}},
		A: [2]PInner{{rv(), rv()}, {rv(), rv()}}, S2: []POuter{{PInner{rv(), rv()}}}}
	init := pCells(h)
	vm := otto.New()
	Must(vm.Set("h", h))
	bump := func(c *PInner, by int) int { c.N += by; c.M = 1; return c.N }
	Must(vm.Set("bumpP", func(c *PInner, by int) int { return bump(c, by) }))
	Must(vm.Set("bumpV", func(c PInner, by int) int { return bump(&c, by) }))
	Must(vm.Set("bumpI", func(x interface{}, by int) int {
		switch c := x.(type) {
		case *PInner:
			return bump(c, by)
		case PInner:
			return bump(&c, by)
		}
		return -1
	}))
	Must(vm.Set("fillP", func(a *[3]int, v int) {
		for i := range a {
			a[i] = v + i
		}
	}))
	Must(vm.Set("fillV", func(a [3]int, v int) {
		for i := range a {
			a[i] = v + i
		}
	}))
	targets := []string{"h.C", "h.P", "h.S[0]", "h.Mp.a"}
	modes := []string{"bumpP", "bumpV", "bumpI"}
	n := r.Intn(7) + 3
	if fixed != nil {
		n = len(fixed)
	}
	var coqOps, obs, txt []string
	for j := 0; j < n; j++ {
		var js, cq, ob, line string
		assign := false
		kind := r.Intn(11)
		if fixed != nil {
			kind = map[string]int{"bumpC": 100, "fill": 101, "readC": 102, "readG": 103, "goC": 104, "goG": 105, "elemS": 106, "readS": 107, "goS": 108, "elemM": 109, "readM": 110, "elemSplain": 111}[fixed[j]]
		}
		switch kind {
		case 0, 1:
			c := r.Intn(15)
			js, cq = pCellJS[c], fmt.Sprintf("PRead true %d", c)
		case 2:
			c := r.Intn(15)
			cq, line, ob = fmt.Sprintf("PRead false %d", c), fmt.Sprintf("Go: read %s", pCellJS[c]), obNum(pCells(h)[c])
		case 3:
			c, v := r.Intn(7), rv()+100
			js, cq, assign = fmt.Sprintf("%s = %d", pCellJS[c], v), fmt.Sprintf("PWrite true %d %d", c, v), true
		case 4:
			c, v := r.Intn(15), rv()+200
			pSetCell(h, c, v)
			cq, line, ob = fmt.Sprintf("PWrite false %d %d", c, v), fmt.Sprintf("Go: %s = %d", pCellJS[c], v), "(0, 0)"
		case 5, 6, 7, 100:
			t, m, by := r.Intn(4), r.Intn(3), r.Intn(9)+1
			if t >= 2 && m == 0 {
				m = 1 + r.Intn(2) // elements of slices and maps are handed over as copies: value/interface parameters only
			}
			if t == 1 && m == 1 {
				m = 0 // *T for a T parameter is not modelled
			}
			if kind == 100 {
				t, m = 0, 0
			}
			js, cq = fmt.Sprintf("%s(%s, %d)", modes[m], targets[t], by), fmt.Sprintf("PBump %d %d %d", t, m, by)
		case 9, 10, 106, 109, 111:
			// a write through an element that is a struct by value: directly or through a variable, in try/catch or bare
			c, v := 7+r.Intn(8), rv()+400
			try := r.Intn(4) > 0
			switch kind {
			case 106:
				c, try = 7, true
			case 109:
				c, try = 9, true
			case 111:
				c, try = 7, false
			}
			stmt := fmt.Sprintf("%s = %d", pCellJS[c], v)
			if r.Intn(3) == 0 {
				e := pElemOf[c]
				stmt = fmt.Sprintf("var e = %s; e.%s = %d", e[0], e[1], v)
			}
			if try {
				js = fmt.Sprintf("try { %s; 0 } catch (err) { 1 }", stmt)
			} else {
				js, assign = stmt, true
			}
			cq = fmt.Sprintf("PWriteElem %s %d %d", Cbool(try), c, v)
		case 107:
			js, cq = pCellJS[7], "PRead true 7"
		case 108:
			cq, line, ob = "PRead false 7", "Go: read h.S[0].N", obNum(pCells(h)[7])
		case 110:
			js, cq = pCellJS[9], "PRead true 9"
		case 102:
			js, cq = pCellJS[0], "PRead true 0"
		case 103:
			js, cq = pCellJS[3], "PRead true 3"
		case 104:
			cq, line, ob = "PRead false 0", "Go: read h.C.N", obNum(pCells(h)[0])
		case 105:
			cq, line, ob = "PRead false 3", "Go: read h.G[1]", obNum(pCells(h)[3])
		default:
			m, v := r.Intn(2), rv()+300
			if kind == 101 {
				m = 0
			}
			js, cq, assign = fmt.Sprintf("%s(h.G, %d)", []string{"fillP", "fillV"}[m], v), fmt.Sprintf("PFill %d %d", m, v), true
		}
		if js != "" {
			o := RunJS(vm, js)
			ob = obOfOutcome(o, assign)
			line = js
			if o.Panic != nil {
				line += fmt.Sprintf(" [Go panic: %v]", o.Panic)
			}
		}
		if !strings.HasPrefix(cq, "PWriteElem") {
			cq = "PX (" + cq + ")"
		}
		coqOps = append(coqOps, cq)
		obs = append(obs, ob)
		txt = append(txt, line+" -> "+ob)
		if strings.HasPrefix(ob, "(2, 9)") {
			break
		}
	}
	g.env.Add(fmt.Sprintf("CPtr %s %s %s", Czlist(init), Clist(coqOps), Clist(obs)),
		fmt.Sprintf("ptr h := &PHolder{C PInner; G [3]int; P *PInner; S []PInner; Mp map[string]PInner; A [2]PInner; S2 []struct{In PInner}} cells %v; bumpP(*PInner,int) bumpV(PInner,int) bumpI(interface{},int) add to N and set M=1, fillP(*[3]int,v)/fillV([3]int,v) store v,v+1,v+2: %s", init, strings.Join(txt, "; ")), "ptr", true)
}
