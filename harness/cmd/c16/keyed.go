package main

import (
	"fmt"
	"math/big"
	"reflect"
	"strings"

	"github.com/robertkrimen/otto"
	. "ottoh/lib"
)

// ---------- bridged maps with keys of every kind ----------

// kk: 0..11 numeric kind, 12 bool, 13 string
func kkCoq(kk int) string {
	switch kk {
	case 12:
		return "KKBool"
	case 13:
		return "KKStr"
	}
	return "(KKNum " + kinds[kk].coq + ")"
}

func kkType(kk int) reflect.Type {
	switch kk {
	case 12:
		return reflect.TypeOf(true)
	case 13:
		return reflect.TypeOf("")
	}
	return kinds[kk].rt
}

// a property name: its literal text and the Coq kname
type kname struct {
	text, coq string
	shape    int // 0 int 1 frac 2 text 3 bool 4 hex
	n        *big.Int
	b        bool
}

func nameInt(b *big.Int) kname {
	return kname{text: b.String(), coq: "(NInt " + cbig(b) + ")", shape: 0, n: b}
}

func (g *gen) randKName(kk int) kname {
	r := g.env.Rng
	c := r.Intn(12)
	switch {
	case c == 0:
		t := int64(2*r.Intn(8) - 7) // odd: a decimal with .5
		txt := fmt.Sprintf("%d.5", (t-1)/2)
		if t < 0 {
			txt = fmt.Sprintf("-%d.5", (-t-1)/2)
		}
		return kname{text: txt, coq: fmt.Sprintf("(NFrac %s)", Cz(t)), shape: 1, n: big.NewInt(t)}
	case c == 1:
		return kname{text: "x", coq: "NText", shape: 2}
	case c == 2:
		b := r.Intn(2) == 0
		return kname{text: fmt.Sprint(b), coq: "(NBool " + Cbool(b) + ")", shape: 3, b: b}
	case c == 3 && kk != 10 && kk != 11: // hex literals are not modelled for float keys
		n := int64(r.Intn(400))
		return kname{text: fmt.Sprintf("0x%x", n), coq: fmt.Sprintf("(NHex %d)", n), shape: 4, n: big.NewInt(n)}
	case c <= 6 && kk < 10: // at and beyond the range of the key kind
		p := Pick(r, []*big.Int{kinds[kk].min, kinds[kk].max})
		return nameInt(new(big.Int).Add(p, big.NewInt(int64(r.Intn(5)-2))))
	case c == 7 && kk < 10: // a multiple of the width away from a small key: where a wrapped key would land
		w := pow2(uint(kinds[kk].bits))
		if kinds[kk].bits == 64 {
			w = pow2(32)
		}
		b := new(big.Int).Mul(w, big.NewInt(int64(r.Intn(3)+1)))
		if r.Intn(2) == 0 {
			b.Neg(b)
		}
		return nameInt(b.Add(b, big.NewInt(int64(r.Intn(4)))))
	default:
		return nameInt(big.NewInt(int64(r.Intn(6) - 1)))
	}
}

// the Go key denoted by a key code (the model's coding)
func keyOfCode(kk int, code int64, names map[int64]string) reflect.Value {
	v := reflect.New(kkType(kk)).Elem()
	switch {
	case kk == 12:
		v.SetBool(code == 1)
	case kk == 13:
		v.SetString(names[code])
	case kinds[kk].flt:
		v.SetFloat(float64(code) / 2)
	case kinds[kk].min.Sign() < 0:
		v.SetInt(code)
	default:
		v.SetUint(uint64(code))
	}
	return v
}

func (g *gen) kmapHist(kk int, fixed []string) {
	r := g.env.Rng
	m := reflect.MakeMap(reflect.MapOf(kkType(kk), reflect.TypeOf(0)))
	strNames := map[int64]string{0: "0", 8: "1", 16: "2", 24: "3", 2: "x", 11: "true"}
	// small initial keys 0..3 (as far as the kind has them)
	var codes []int64
	switch {
	case kk == 12:
		codes = []int64{0, 1}
	case kk == 13:
		codes = []int64{0, 8, 16, 24}
	case kinds[kk].flt:
		codes = []int64{0, 2, 3, 4} // 0, 1, 1.5, 2
	default:
		codes = []int64{0, 1, 2, 3}
	}
	var init []string
	for _, c := range codes {
		if r.Intn(3) > 0 {
			v := r.Intn(90) + 10
			m.SetMapIndex(keyOfCode(kk, c, strNames), reflect.ValueOf(v))
			init = append(init, fmt.Sprintf("(%d, %d)", c, v))
		}
	}
	vm := otto.New()
	Must(vm.Set("m", m.Interface()))
	n := r.Intn(8) + 3
	if fixed != nil {
		n = len(fixed)
	}
	var coqOps, obs, txt []string
	for j := 0; j < n; j++ {
		nm := g.randKName(kk)
		c := Pick(r, codes)
		gv := r.Intn(90) + 100
		kind := r.Intn(12)
		if fixed != nil {
			f := strings.SplitN(fixed[j], " ", 2)
			kind = map[string]int{"get": 0, "set": 2, "has": 4, "del": 5, "count": 6, "sum": 7, "dump": 11}[f[0]]
			if len(f) > 1 {
				b, _ := new(big.Int).SetString(f[1], 10)
				nm = nameInt(b)
			}
		}
		lit := JSStr(Units(nm.text))
		var js, cq, ob, line string
		assign := false
		switch kind {
		case 0, 1:
			js, cq = "m["+lit+"]", "KGet "+nm.coq
		case 2, 3:
			v := g.histValue()
			js, cq, assign = fmt.Sprintf("m[%s] = %s", lit, v.js), fmt.Sprintf("KSet %s %s", nm.coq, v.coq), true
		case 4:
			js, cq = lit+" in m", "KHas "+nm.coq
		case 5:
			js, cq = "delete m["+lit+"]", "KDel "+nm.coq
		case 6:
			js, cq = "Object.keys(m).length", "KCount"
		case 7:
			js, cq = "(function(){var t=0; for (var k in m) t += m[k]; return t})()", "KSum"
		case 8:
			cq, line = fmt.Sprintf("KGGet %d", c), fmt.Sprintf("Go: read key code %d", c)
			if x := m.MapIndex(keyOfCode(kk, c, strNames)); x.IsValid() {
				ob = obNum(x.Int())
			} else {
				ob = obUndef
			}
		case 9:
			m.SetMapIndex(keyOfCode(kk, c, strNames), reflect.ValueOf(gv))
			cq, line, ob = fmt.Sprintf("KGSet %d %d", c, gv), fmt.Sprintf("Go: m[key code %d] = %d", c, gv), "(0, 0)"
		case 10:
			m.SetMapIndex(keyOfCode(kk, c, strNames), reflect.Value{})
			cq, line, ob = fmt.Sprintf("KGDel %d", c), fmt.Sprintf("Go: delete key code %d", c), "(0, 0)"
		default:
			cq, line, ob = "KGDump", "Go: sum of (key code + 1000) * value", kmapDump(kk, m)
		}
		if js != "" {
			o := RunJS(vm, js)
			ob = obOfOutcome(o, assign)
			line = js
			if o.Panic != nil {
				line += fmt.Sprintf(" [Go panic: %v]", o.Panic)
			}
		}
		coqOps = append(coqOps, cq)
		obs = append(obs, ob)
		txt = append(txt, line+" -> "+ob)
		if strings.HasPrefix(ob, "(2, 9)") {
			// the Go side is still checked after a panic
			coqOps = append(coqOps, "KGDump")
			obs = append(obs, kmapDump(kk, m))
			txt = append(txt, "Go: dump -> "+obs[len(obs)-1])
			break
		}
	}
	if len(obs) > 0 && !strings.HasPrefix(coqOps[len(coqOps)-1], "KGDump") {
		coqOps = append(coqOps, "KGDump")
		obs = append(obs, kmapDump(kk, m))
		txt = append(txt, "Go: dump -> "+obs[len(obs)-1])
	}
	g.env.Add(fmt.Sprintf("CKMap %s %s %s %s", kkCoq(kk), Clist(init), Clist(coqOps), Clist(obs)),
		fmt.Sprintf("kmap m := %v%s (key codes: the integer, 2x the float, 0/1 for bool, 8n for the string \"n\"); vm.Set(\"m\", m): %s", m.Type(), Clist(init), strings.Join(txt, "; ")), "kmap", true)
}

// the model's code of a string key, from the shape of its text
func strKeyCode(s string) *big.Int {
	switch s {
	case "x":
		return big.NewInt(2)
	case "true":
		return big.NewInt(11)
	case "false":
		return big.NewInt(3)
	}
	if strings.HasPrefix(s, "0x") {
		if n, ok := new(big.Int).SetString(s[2:], 16); ok {
			return n.Mul(n, big.NewInt(8)).Add(n, big.NewInt(4))
		}
	}
	if strings.HasSuffix(s, ".5") {
		if n, ok := new(big.Int).SetString(strings.TrimSuffix(s, ".5"), 10); ok {
			t := new(big.Int).Mul(n, big.NewInt(2))
			if strings.HasPrefix(s, "-") {
				t.Sub(t, big.NewInt(1))
			} else {
				t.Add(t, big.NewInt(1))
			}
			return t.Mul(t, big.NewInt(8)).Add(t, big.NewInt(1))
		}
	}
	if n, ok := new(big.Int).SetString(s, 10); ok && n.String() == s {
		return n.Mul(n, big.NewInt(8))
	}
	return big.NewInt(999999937)
}

// sum over the Go map of (key code + 1000) * value, as a Coq observation
func kmapDump(kk int, m reflect.Value) string {
	t := new(big.Int)
	for _, k := range m.MapKeys() {
		code := new(big.Int)
		switch {
		case kk == 12:
			if k.Bool() {
				code.SetInt64(1)
			}
		case kk == 13:
			code = strKeyCode(k.String())
		case kinds[kk].flt:
			code.SetInt64(int64(k.Float() * 2))
		case kinds[kk].min.Sign() < 0:
			code.SetInt64(k.Int())
		default:
			code.SetUint64(k.Uint())
		}
		code.Add(code, big.NewInt(1000))
		t.Add(t, code.Mul(code, big.NewInt(m.MapIndex(k).Int())))
	}
	return "(0, " + cbig(t) + ")"
}

func (g *gen) randKMap() { g.kmapHist(g.env.Rng.Intn(14), nil) }

func (g *gen) pinnedKMap() {
	g.kmapHist(1, []string{"get 300", "has 300", "get 256", "has -129", "get 1", "sum", "count", "dump"})
	g.kmapHist(2, []string{"get 65537", "has 65536", "get -32769", "dump"})
	g.kmapHist(3, []string{"get 4294967297", "has 2147483648", "dump"})
	g.kmapHist(6, []string{"get 256", "has 257", "get -1", "dump"})
}

// ---------- JavaScript functions passed for Go func parameters ----------

var cbArgs = []int{11, 12, 13}

func (g *gen) callbackCase(nparams int, rtKind int, t *gty, ret string, retCoq string, throwCls int, style int) {
	ti := reflect.TypeOf(0)
	in := make([]reflect.Type, nparams)
	for i := range in {
		in[i] = ti
	}
	var out []reflect.Type
	rtCoq := "RNone"
	switch rtKind {
	case 1:
		out, rtCoq = []reflect.Type{t.rt}, "(ROne "+t.coq+")"
	case 2:
		out, rtCoq = []reflect.Type{errType}, "RErr"
	case 3:
		out, rtCoq = []reflect.Type{ti, errType}, "RTwo"
	}
	fT := reflect.FuncOf(in, out, false)
	vm := otto.New()
	var results []reflect.Value
	called := false
	Must(vm.Set("run", reflect.MakeFunc(reflect.FuncOf([]reflect.Type{fT}, nil, false), func(a []reflect.Value) []reflect.Value {
		args := make([]reflect.Value, nparams)
		for i := range args {
			args[i] = reflect.ValueOf(cbArgs[i])
		}
		res := a[0].Call(args)
		called = true
		results = res
		return nil
	}).Interface()))
	params := []string{"a", "b", "c"}[:nparams]
	body := ""
	rCoq := ""
	switch {
	case throwCls != 0:
		name := map[int]string{1: "Error", 3: "RangeError", 6: "TypeError"}[throwCls]
		body, rCoq = fmt.Sprintf("throw new %s('from the callback')", name), fmt.Sprintf("(CbThrow %d)", throwCls)
	case ret == "undefined" && style == 1:
		body, rCoq = "return", "(CbRet JUndef)"
	case ret == "undefined" && style == 2:
		body, rCoq = "", "(CbRet JUndef)"
	default:
		body, rCoq = "return "+ret, "(CbRet "+retCoq+")"
	}
	src := fmt.Sprintf("var seen = []; run(function(%s){ seen = [%s]; %s })", strings.Join(params, ", "), strings.Join(params, ", "), body)
	o := RunJS(vm, src)
	obs := ""
	switch {
	case o.Panic != nil || o.Err != nil:
		obs = fmt.Sprintf("(CE %d)", ErrClass(o))
	case !called:
		obs = "(CE (-1))"
	case len(results) == 0:
		obs = "(CV GVNil)"
	case rtKind == 2:
		if results[0].IsNil() {
			obs = "(CV GVNil)"
		} else {
			obs = "(CV (GVStr " + Cstr(fmt.Sprint(results[0].Interface())) + "))"
		}
	default:
		obs = "(CV " + canon(results[0]) + ")"
	}
	var seen []int64
	if s := RunJS(vm, "seen.join(',')"); s.Err == nil && s.Panic == nil {
		if str, _ := s.Val.ToString(); str != "" {
			for _, p := range strings.Split(str, ",") {
				var n int64 = -1
				fmt.Sscanf(p, "%d", &n)
				seen = append(seen, n)
			}
		}
	}
	g.env.Add(fmt.Sprintf("CCallback %d %s %s %s %s", nparams, rtCoq, rCoq, Czlist(seen), obs),
		fmt.Sprintf("callback run(cb %v) calls cb(%v): %s : %s, callback saw %v, Go received %s", fT, cbArgs[:nparams], src, describe(o), seen, obs), "callback", true)
}

func (g *gen) randCallback() {
	r := g.env.Rng
	nparams := r.Intn(4)
	rtKind := Pick(r, []int{0, 1, 1, 1, 1, 1, 2, 3})
	t := g.randType(1)
	for t.kind == "any" && rtKind == 1 && r.Intn(2) == 0 {
		t = g.randType(0)
	}
	throw := 0
	if r.Intn(8) == 0 {
		throw = Pick(r, []int{1, 3, 6})
	}
	var v jsx
	switch r.Intn(4) {
	case 0:
		v = jsx{"undefined", "JUndef"}
	case 1:
		v = g.anyValue(1)
	default:
		if rtKind == 1 {
			v = g.valueFor(t, 1)
		} else {
			v = g.anyValue(0)
		}
	}
	g.callbackCase(nparams, rtKind, t, v.js, v.coq, throw, r.Intn(3))
}

func (g *gen) pinnedCallback() {
	it := &gty{rt: kinds[0].rt, coq: "(TNum KI)", kind: "num", nk: 0}
	ft := &gty{rt: kinds[kF64].rt, coq: "(TNum KF64)", kind: "num", nk: kF64}
	for style := 0; style < 3; style++ {
		g.callbackCase(1, 1, it, "undefined", "JUndef", 0, style)
	}
	g.callbackCase(0, 1, ft, "undefined", "JUndef", 0, 2)
	g.callbackCase(2, 1, it, "5", "(JNum (KI64, 5))", 0, 0)
	g.callbackCase(1, 1, it, "\"x\"", jsString("x").coq, 0, 0)
	g.callbackCase(1, 2, nil, "undefined", "JUndef", 0, 0)
	g.callbackCase(1, 2, nil, "\"x\"", jsString("x").coq, 0, 0)
	g.callbackCase(1, 3, nil, "5", "(JNum (KI64, 5))", 0, 0)
	g.callbackCase(3, 0, nil, "5", "(JNum (KI64, 5))", 0, 0)
	g.callbackCase(1, 1, it, "5", "(JNum (KI64, 5))", 3, 0)
}
