package main

import (
	"fmt"
	"math"
	"reflect"
	"strings"

	"github.com/robertkrimen/otto"
	. "ottoh/lib"
)

// ---------- overwriting an element with a value the script cannot tell from the old one ----------

var eqConts = []string{"m.k = v on map[string]T", "s[0] = v on []T", "p[0] = v on *[1]T", "o.F = v on *struct{F T}"}
var eqElemTypes = []reflect.Type{reflect.TypeOf(float64(0)), reflect.TypeOf(float32(0)), anyType}

// JS numbers with a known payload: text, Coq src
type eqNew struct{ js, coq string }

func eqNumbers() []eqNew {
	nz := math.Copysign(0, -1)
	return []eqNew{
		{"(-0)", "(KF64, " + Cdouble(nz) + ")"}, {"0", "(KI64, 0)"}, {"0.0", "(KF64, " + Cdouble(0) + ")"}, {"(0|0)", "(KI32, 0)"},
		{"1", "(KI64, 1)"}, {"1.0", "(KF64, " + Cdouble(1) + ")"}, {"(1|0)", "(KI32, 1)"}, {"(1>>>0)", "(KU32, 1)"},
		{"2.5", "(KF64, " + Cdouble(2.5) + ")"}, {"(-1)", "(KF64, " + Cdouble(-1) + ")"}, {"NaN", "(KF64, " + Cdouble(math.NaN()) + ")"},
	}
}

// old contents per element type: values that are === to some of the new ones but differ in Go
func eqOlds(tk int) []reflect.Value {
	nz := math.Copysign(0, -1)
	switch tk {
	case 0:
		return []reflect.Value{reflect.ValueOf(0.0), reflect.ValueOf(nz), reflect.ValueOf(1.0), reflect.ValueOf(2.5), reflect.ValueOf(math.NaN())}
	case 1:
		return []reflect.Value{reflect.ValueOf(float32(0)), reflect.ValueOf(float32(nz)), reflect.ValueOf(float32(1)), reflect.ValueOf(float32(2.5))}
	}
	return []reflect.Value{reflect.ValueOf(int8(1)), reflect.ValueOf(uint8(1)), reflect.ValueOf(int64(1)), reflect.ValueOf(float64(1)), reflect.ValueOf(int(0)),
		reflect.ValueOf(0.0), reflect.ValueOf(nz), reflect.ValueOf(float32(1)), reflect.ValueOf(uint64(1)), reflect.ValueOf(int32(0)), reflect.ValueOf(2.5)}
}

func (g *gen) eqWriteCase(cont, tk int, old reflect.Value, nv eqNew) {
	T := eqElemTypes[tk]
	vm := otto.New()
	var read func() reflect.Value
	src := ""
	switch cont {
	case 0:
		m := reflect.MakeMap(reflect.MapOf(reflect.TypeOf(""), T))
		m.SetMapIndex(reflect.ValueOf("k"), old)
		Must(vm.Set("c", m.Interface()))
		read = func() reflect.Value { return m.MapIndex(reflect.ValueOf("k")) }
		src = "c.k = " + nv.js
	case 1:
		s := reflect.MakeSlice(reflect.SliceOf(T), 1, 1)
		s.Index(0).Set(old)
		Must(vm.Set("c", s.Interface()))
		read = func() reflect.Value { return s.Index(0) }
		src = "c[0] = " + nv.js
	case 2:
		p := reflect.New(reflect.ArrayOf(1, T))
		p.Elem().Index(0).Set(old)
		Must(vm.Set("c", p.Interface()))
		read = func() reflect.Value { return p.Elem().Index(0) }
		src = "c[0] = " + nv.js
	default:
		p := reflect.New(reflect.StructOf([]reflect.StructField{{Name: "F", Type: T}}))
		p.Elem().Field(0).Set(old)
		Must(vm.Set("c", p.Interface()))
		read = func() reflect.Value { return p.Elem().Field(0) }
		src = "c.F = " + nv.js
	}
	oldC := canon(read())
	if r := RunJS(vm, strings.SplitN(src, " = ", 2)[0]); r.Panic != nil { // the script looks at the element first
		return
	}
	o := RunJS(vm, src)
	after := canon(read())
	g.env.Add(fmt.Sprintf("CEqWrite %d %d %s %s %s", cont, tk, nv.coq, oldC, after),
		fmt.Sprintf("eqwrite %s with T = %v, element was %s (%#v): %s : %s, Go sees the element as %s afterwards", eqConts[cont], T, oldC, old.Interface(), src, describe(o), after), "eqwrite", true)
}

// every container x element type x old content x new number: pinned, every seed
func (g *gen) sweepEqWrite() {
	r := g.env.Rng
	for cont := range eqConts {
		for tk := range eqElemTypes {
			for _, old := range eqOlds(tk) {
				for _, nv := range eqNumbers() {
					// all pairs on maps (the container that has an entry to compare with), a third elsewhere
					if cont == 0 || r.Intn(3) == 0 {
						g.eqWriteCase(cont, tk, old, nv)
					}
				}
			}
		}
	}
}

// ---------- Export of script values with shared (not cyclic) sub-objects ----------

// the script builds the value in variable x; tree is its expansion as a Coq jsv
type shareCase struct{ js, coq string }

func (g *gen) shareCases() []shareCase {
	r := g.env.Rng
	var out []shareCase
	leafs := []jsx{
		{"({a: 1})", fmt.Sprintf("(JObj [(%d, (JNum (KI64, 1)))])", nameID("a"))},
		{"[1, 2]", "(JArr [(Some (JNum (KI64, 1))); (Some (JNum (KI64, 2)))])"},
		{"({})", "(JObj [])"},
		{"[]", "(JArr [])"},
		{"({b: \"s\", c: [true]})", fmt.Sprintf("(JObj [(%d, %s); (%d, (JArr [(Some (JBool true))]))])", nameID("b"), jsString("s").coq, nameID("c"))},
		g.anyValue(2),
	}
	for _, o := range leafs {
		if strings.Contains(o.coq, "JUndef") || !(strings.HasPrefix(o.coq, "(JObj") || strings.HasPrefix(o.coq, "(JArr")) {
			continue
		}
		A, B, C := nameID("a"), nameID("b"), nameID("c")
		obj := func(ps ...string) string { return "(JObj " + Clist(ps) + ")" }
		p := func(k int, v string) string { return fmt.Sprintf("(%d, %s)", k, v) }
		arr := func(es ...string) string {
			for i := range es {
				es[i] = "(Some " + es[i] + ")"
			}
			return "(JArr " + Clist(es) + ")"
		}
		pre := "var o = " + o.js + "; "
		out = append(out,
			shareCase{pre + "var x = {a: o, b: o}", obj(p(A, o.coq), p(B, o.coq))},
			shareCase{pre + "var x = [o, o]", arr(o.coq, o.coq)},
			shareCase{pre + "var x = [o, 5, o, o]", arr(o.coq, "(JNum (KI64, 5))", o.coq, o.coq)},
			shareCase{pre + "var x = {a: {c: o}, b: {c: o}}", obj(p(A, obj(p(C, o.coq))), p(B, obj(p(C, o.coq))))},
			shareCase{pre + "var x = {a: o, b: [o], c: {a: o}}", obj(p(A, o.coq), p(B, arr(o.coq)), p(C, obj(p(A, o.coq))))},
			shareCase{pre + "var w = {c: o}; var x = {a: w, b: w}", obj(p(A, obj(p(C, o.coq))), p(B, obj(p(C, o.coq))))},
			shareCase{pre + "var x = [[o], [o]]", arr(arr(o.coq), arr(o.coq))},
			shareCase{pre + "var x = {a: o}", obj(p(A, o.coq))})
	}
	r.Shuffle(len(out), func(i, j int) { out[i], out[j] = out[j], out[i] })
	return out
}

var shareRoutes = []string{"Value.Export() of x", "f(x) with f func(interface{})", "f(1, x) with f func(int, ...interface{})", "o.F = x with o *struct{F interface{}}", "f({a: x}) with f func(map[string]interface{})", "f([x]) with f func([]interface{})"}

func (g *gen) shareCase(route int, sc shareCase) {
	vm := otto.New()
	if o := RunJS(vm, sc.js); o.Panic != nil || o.Err != nil {
		return
	}
	var got []reflect.Value
	obs, tree := "GVNil", sc.coq
	var o Outcome
	grab := func(f func() reflect.Value) {
		if o.Panic == nil && o.Err == nil {
			defer func() { _ = recover() }()
			obs = canon(f())
		}
	}
	switch route {
	case 0:
		o = RunJS(vm, "x")
		grab(func() reflect.Value { e, _ := o.Val.Export(); return reflect.ValueOf(e) })
	case 1:
		Must(vm.Set("f", makeFunc([]reflect.Type{anyType}, false, &got)))
		o = RunJS(vm, "f(x)")
		grab(func() reflect.Value { return got[0] })
	case 2:
		Must(vm.Set("f", makeFunc([]reflect.Type{reflect.TypeOf(0), reflect.SliceOf(anyType)}, true, &got)))
		o = RunJS(vm, "f(1, x, x)")
		grab(func() reflect.Value { return got[1] })
		tree = "(JArr [(Some " + sc.coq + "); (Some " + sc.coq + ")])"
	case 3:
		p := reflect.New(reflect.StructOf([]reflect.StructField{{Name: "F", Type: anyType}}))
		Must(vm.Set("o", p.Interface()))
		o = RunJS(vm, "o.F = x")
		grab(func() reflect.Value { return p.Elem().Field(0) })
	case 4:
		Must(vm.Set("f", makeFunc([]reflect.Type{reflect.MapOf(reflect.TypeOf(""), anyType)}, false, &got)))
		o = RunJS(vm, "f({a: x, b: x})")
		grab(func() reflect.Value { return got[0] })
		tree = fmt.Sprintf("(JObj [(%d, %s); (%d, %s)])", nameID("a"), sc.coq, nameID("b"), sc.coq)
	default:
		Must(vm.Set("f", makeFunc([]reflect.Type{reflect.SliceOf(anyType)}, false, &got)))
		o = RunJS(vm, "f([x, x])")
		grab(func() reflect.Value { return got[0] })
		tree = "(JArr [(Some " + sc.coq + "); (Some " + sc.coq + ")])"
	}
	g.env.Add(fmt.Sprintf("CExport %s %s", tree, obs),
		fmt.Sprintf("share %s; %s: %s, Go holds %s", sc.js, shareRoutes[route], describe(o), obs), "share", true)
}

func (g *gen) sweepShare() {
	cases := g.shareCases()
	for i, sc := range cases {
		g.shareCase(i%len(shareRoutes), sc)
		if i%3 == 0 {
			g.shareCase(g.env.Rng.Intn(len(shareRoutes)), sc)
		}
	}
}
