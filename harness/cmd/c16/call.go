package main

import (
	"fmt"
	"math"
	"math/big"
	"reflect"
	"regexp"
	"sort"
	"strings"

	"github.com/robertkrimen/otto"
	. "ottoh/lib"
)

// ---------- Go types of the structural family ----------

type gty struct {
	rt   reflect.Type
	coq  string
	kind string // num bool str any slice map ptr struct
	nk   int
	elem *gty
	flds []sfld
}

type sfld struct {
	name, tag string // tag = json tag name ("" none, "-" hidden)
	ty        *gty
}

var anyType = reflect.TypeOf((*interface{})(nil)).Elem()

// addresses in %#v output differ from run to run
var addrRe = regexp.MustCompile(`0x[0-9a-f]{6,}`)

func (g *gen) randType(depth int) *gty {
	r := g.env.Rng
	c := r.Intn(12)
	if depth <= 0 && c >= 6 {
		c = r.Intn(6)
	}
	switch c {
	case 0, 1, 2:
		k := r.Intn(len(kinds))
		if r.Intn(2) == 0 {
			k = Pick(r, []int{0, 1, 4, 6, 9, 10, 11})
		}
		return &gty{rt: kinds[k].rt, coq: "(TNum " + kinds[k].coq + ")", kind: "num", nk: k}
	case 3:
		return &gty{rt: reflect.TypeOf(true), coq: "TBool", kind: "bool"}
	case 4:
		return &gty{rt: reflect.TypeOf(""), coq: "TStr", kind: "str"}
	case 5:
		return &gty{rt: anyType, coq: "TAny", kind: "any"}
	case 6, 7:
		e := g.randType(depth - 1)
		return &gty{rt: reflect.SliceOf(e.rt), coq: "(TSlice " + e.coq + ")", kind: "slice", elem: e}
	case 8:
		e := g.randType(depth - 1)
		return &gty{rt: reflect.MapOf(reflect.TypeOf(""), e.rt), coq: "(TMap " + e.coq + ")", kind: "map", elem: e}
	case 9:
		e := g.randType(depth - 1)
		for e.kind == "any" { // *interface{} makes the bridge panic (pinned finding): kept out of the random family
			e = g.randType(depth - 1)
		}
		return &gty{rt: reflect.PtrTo(e.rt), coq: "(TPtr " + e.coq + ")", kind: "ptr", elem: e}
	default:
		if r.Intn(4) == 0 {
			return gtyOfStruct(recVariant(r.Intn(5))) // one of several distinct types all called main.Rec
		}
		names := []string{"A", "B", "C", "D"}
		r.Shuffle(len(names), func(i, j int) { names[i], names[j] = names[j], names[i] })
		n := r.Intn(3) + 1
		var sf []reflect.StructField
		var fl []sfld
		var ftab, ftys []string
		for i := 0; i < n; i++ {
			ft := g.randType(depth - 1)
			tag, tagTxt := "", ""
			switch r.Intn(6) {
			case 0:
				tag, tagTxt = "-", `json:"-"`
			case 1, 2:
				tag = Pick(r, []string{"a", "b", "bee", "B", "A"})
				tagTxt = fmt.Sprintf(`json:"%s"`, tag)
				if r.Intn(3) == 0 {
					tagTxt = fmt.Sprintf(`json:"%s,omitempty"`, tag)
				}
			}
			sf = append(sf, reflect.StructField{Name: names[i], Type: ft.rt, Tag: reflect.StructTag(tagTxt)})
			fl = append(fl, sfld{names[i], tag, ft})
			tid := 0
			if tag == "-" {
				tid = -1
			} else if tag != "" {
				tid = nameID(tag)
			}
			ftab = append(ftab, fmt.Sprintf("mkF %d %s true []", nameID(names[i]), Cz(int64(tid))))
			ftys = append(ftys, ft.coq)
		}
		return &gty{rt: reflect.StructOf(sf), coq: fmt.Sprintf("(TStruct %s %s)", Clist(ftab), Clist(ftys)), kind: "struct", flds: fl}
	}
}

// ---------- JS values ----------

type jsx struct{ js, coq string }

var someStrings = []string{"", "a", "xyz", "12", "-3", "café", "中文", "true", "null", "a b", "0"}

func jsFloatLit(f float64) string {
	if f == math.Trunc(f) && f >= 0 && f < 9.3e18 && !(f == 0 && math.Signbit(f)) {
		return fmt.Sprintf("%.1f", f) // "5.0": a float64 literal, not an int64 one
	}
	return JSNum(f)
}

// a JS number with a known payload kind
func (g *gen) jsNumber(tgt int) jsx {
	r := g.env.Rng
	switch r.Intn(10) {
	case 0, 1, 2, 3:
		var n int64
		switch r.Intn(3) {
		case 0:
			n = int64(r.Intn(100))
		case 1:
			b := Pick(r, intB)
			if b.Sign() >= 0 && b.IsInt64() {
				n = b.Int64()
			}
		default:
			if tgt >= 0 && !kinds[tgt].flt {
				b := new(big.Int).Add(kinds[tgt].max, big.NewInt(int64(r.Intn(3)-1)))
				if b.IsInt64() {
					n = b.Int64()
				}
			}
		}
		return jsx{fmt.Sprint(n), fmt.Sprintf("(JNum (KI64, %d))", n)}
	case 4:
		n := int32(r.Uint32())
		if r.Intn(2) == 0 {
			n = int32(r.Intn(400) - 200)
		}
		return jsx{fmt.Sprintf("(%d|0)", n), fmt.Sprintf("(JNum (KI32, %s))", Cz(int64(n)))}
	case 5:
		n := r.Uint32()
		if r.Intn(2) == 0 {
			n = uint32(r.Intn(400))
		}
		return jsx{fmt.Sprintf("(%d>>>0)", n), fmt.Sprintf("(JNum (KU32, %d))", n)}
	default:
		var f float64
		switch r.Intn(4) {
		case 0:
			f = float64(r.Intn(400) - 200)
		case 1:
			f = Pick(r, floatB)
		case 2:
			f = float64(r.Intn(4000)-2000) / 4
		default:
			if tgt >= 0 && !kinds[tgt].flt {
				f, _ = new(big.Float).SetInt(Pick(r, []*big.Int{kinds[tgt].min, kinds[tgt].max})).Float64()
				f += float64(r.Intn(3) - 1)
			} else {
				f = Pick(r, floatB)
			}
		}
		return jsx{jsFloatLit(f), fmt.Sprintf("(JNum (KF64, %s))", Cdouble(f))}
	}
}

func jsString(s string) jsx { return jsx{JSStr(Units(s)), "(JStr " + Cstr(s) + ")"} }

// any JS value (for interface{} parameters and as mismatching input)
func (g *gen) anyValue(depth int) jsx {
	r := g.env.Rng
	c := r.Intn(10)
	if depth >= 2 && r.Intn(3) == 0 {
		c = 7 + r.Intn(3)
	}
	if depth <= 0 && c >= 7 {
		c = r.Intn(7)
	}
	switch c {
	case 0:
		return jsx{"undefined", "JUndef"}
	case 1:
		return jsx{"null", "JNull"}
	case 2:
		b := r.Intn(2) == 0
		return jsx{fmt.Sprint(b), "(JBool " + Cbool(b) + ")"}
	case 3, 4:
		return g.jsNumber(-1)
	case 5, 6:
		return jsString(Pick(r, someStrings))
	case 7, 8:
		n := r.Intn(4)
		var js, cq []string
		for i := 0; i < n; i++ {
			if r.Intn(8) == 0 && i+1 < n {
				js, cq = append(js, ""), append(cq, "None")
				continue
			}
			e := g.anyValue(depth - 1)
			js, cq = append(js, e.js), append(cq, "(Some "+e.coq+")")
		}
		return jsx{"[" + strings.Join(js, ",") + "]", "(JArr " + Clist(cq) + ")"}
	default:
		return g.objValue(depth, func() jsx { return g.anyValue(depth - 1) }, []string{"a", "b", "bee", "A", "B", "c"})
	}
}

func (g *gen) objValue(depth int, elem func() jsx, keys []string) jsx {
	r := g.env.Rng
	ks := append([]string{}, keys...)
	r.Shuffle(len(ks), func(i, j int) { ks[i], ks[j] = ks[j], ks[i] })
	n := r.Intn(len(ks) + 1)
	if n > 3 {
		n = 3
	}
	var js, cq []string
	for i := 0; i < n; i++ {
		e := elem()
		js = append(js, fmt.Sprintf("%s: %s", ks[i], e.js))
		cq = append(cq, fmt.Sprintf("(%d, %s)", nameID(ks[i]), e.coq))
	}
	return jsx{"({" + strings.Join(js, ", ") + "})", "(JObj " + Clist(cq) + ")"}
}

// a JS value aimed at Go type t (mostly of the right shape, sometimes not)
func (g *gen) valueFor(t *gty, depth int) jsx {
	r := g.env.Rng
	if r.Intn(9) == 0 {
		return g.anyValue(1)
	}
	switch t.kind {
	case "num":
		return g.jsNumber(t.nk)
	case "bool":
		return g.anyValue(0)
	case "str":
		switch r.Intn(6) {
		case 0, 1, 2:
			return jsString(Pick(r, someStrings))
		case 3:
			n := r.Intn(2000000)
			return jsx{fmt.Sprint(n), fmt.Sprintf("(JNum (KI64, %d))", n)}
		case 4:
			f := float64(r.Intn(2000000) - 1000000)
			if r.Intn(6) == 0 {
				f = math.Copysign(0, -1)
			}
			return jsx{jsFloatLit(f), fmt.Sprintf("(JNum (KF64, %s))", Cdouble(f))}
		default:
			return g.anyValue(0)
		}
	case "any":
		return g.anyValue(depth)
	case "slice":
		n := r.Intn(4)
		var js, cq []string
		for i := 0; i < n; i++ {
			if r.Intn(8) == 0 && i+1 < n {
				js, cq = append(js, ""), append(cq, "None")
				continue
			}
			e := g.valueFor(t.elem, depth-1)
			js, cq = append(js, e.js), append(cq, "(Some "+e.coq+")")
		}
		return jsx{"[" + strings.Join(js, ",") + "]", "(JArr " + Clist(cq) + ")"}
	case "map":
		return g.objValue(depth, func() jsx { return g.valueFor(t.elem, depth-1) }, []string{"a", "b", "bee", "A", "B", "c"})
	case "ptr":
		if r.Intn(4) == 0 {
			return Pick(r, []jsx{{"null", "JNull"}, {"undefined", "JUndef"}})
		}
		return g.valueFor(t.elem, depth)
	default: // struct: properties named after fields or tags, now and then an unknown one
		var keys []string
		for _, f := range t.flds {
			keys = append(keys, f.name)
			if f.tag != "" && f.tag != "-" {
				keys = append(keys, f.tag)
			}
		}
		if r.Intn(5) == 0 {
			keys = append(keys, "c")
		}
		// distinct keys, each with a value aimed at the field it resolves to (by the documented rule)
		seen := map[string]bool{}
		var uniq []string
		for _, k := range keys {
			if !seen[k] {
				seen[k] = true
				uniq = append(uniq, k)
			}
		}
		r.Shuffle(len(uniq), func(i, j int) { uniq[i], uniq[j] = uniq[j], uniq[i] })
		if len(uniq) > 3 {
			uniq = uniq[:3]
		}
		var js, cq []string
		for _, k := range uniq {
			ft := t.flds[r.Intn(len(t.flds))].ty
			for _, f := range t.flds {
				if f.tag != "-" && (f.tag == k || f.name == k) {
					ft = f.ty
					break
				}
			}
			e := g.valueFor(ft, depth-1)
			js = append(js, fmt.Sprintf("%s: %s", k, e.js))
			cq = append(cq, fmt.Sprintf("(%d, %s)", nameID(k), e.coq))
		}
		return jsx{"({" + strings.Join(js, ", ") + "})", "(JObj " + Clist(cq) + ")"}
	}
}

// ---------- canonical form of what the Go function received ----------

func canonNum(v reflect.Value) string {
	k := kindOf(v.Type())
	switch {
	case k < 0:
		return "GVNil"
	case kinds[k].flt:
		return fmt.Sprintf("(GVF %s (decode %s))", kinds[k].coq, Cdouble(v.Float()))
	case kinds[k].min.Sign() < 0:
		return fmt.Sprintf("(GVI %s %s)", kinds[k].coq, Cz(v.Int()))
	}
	return fmt.Sprintf("(GVI %s %s)", kinds[k].coq, Czu(v.Uint()))
}

func canon(v reflect.Value) string {
	if !v.IsValid() {
		return "GVNil"
	}
	switch v.Kind() {
	case reflect.Interface:
		if v.IsNil() {
			return "GVNil"
		}
		return canon(v.Elem())
	case reflect.Ptr:
		if v.IsNil() {
			return "GVNil"
		}
		return "(GVPtr " + canon(v.Elem()) + ")"
	case reflect.Func:
		if v.IsNil() {
			return "GVNil"
		}
		return "GVFunc"
	case reflect.Bool:
		return "(GVBool " + Cbool(v.Bool()) + ")"
	case reflect.String:
		return "(GVStr " + Cstr(v.String()) + ")"
	case reflect.Slice, reflect.Array:
		var es []string
		for i := 0; i < v.Len(); i++ {
			es = append(es, canon(v.Index(i)))
		}
		return "(GVSlice " + Clist(es) + ")"
	case reflect.Map:
		type kv struct {
			id int
			s  string
		}
		var kvs []kv
		for _, k := range v.MapKeys() {
			id := 0
			if k.Kind() == reflect.String {
				for i, n := range namePool {
					if n == k.String() {
						id = i + 1
					}
				}
			}
			kvs = append(kvs, kv{id, canon(v.MapIndex(k))})
		}
		sort.Slice(kvs, func(i, j int) bool { return kvs[i].id < kvs[j].id })
		var es []string
		for _, e := range kvs {
			es = append(es, fmt.Sprintf("(%d, %s)", e.id, e.s))
		}
		return "(GVMap " + Clist(es) + ")"
	case reflect.Struct:
		var es []string
		for i := 0; i < v.NumField(); i++ {
			es = append(es, canon(v.Field(i)))
		}
		return "(GVStruct " + Clist(es) + ")"
	}
	if kindOf(v.Type()) >= 0 {
		return canonNum(v)
	}
	return "GVNil"
}

// ---------- calls ----------

func (g *gen) callCase() {
	r := g.env.Rng
	nargs := Pick(r, []int{1, 1, 1, 1, 2, 2, 3, 0})
	variadic := nargs > 0 && r.Intn(4) == 0
	tys := make([]*gty, nargs)
	in := make([]reflect.Type, nargs)
	var ctys []string
	for i := range tys {
		tys[i] = g.randType(2)
		if variadic && i == nargs-1 {
			e := tys[i]
			tys[i] = &gty{rt: reflect.SliceOf(e.rt), coq: "(TSlice " + e.coq + ")", kind: "slice", elem: e}
		}
		in[i] = tys[i].rt
		ctys = append(ctys, tys[i].coq)
	}
	n := nargs
	if variadic {
		n = nargs - 1 + Pick(r, []int{0, 1, 1, 1, 2, 3})
	} else if r.Intn(12) == 0 {
		n = r.Intn(4)
	}
	var js, cq []string
	for i := 0; i < n; i++ {
		var t *gty
		switch {
		case variadic && i >= nargs-1:
			t = tys[nargs-1].elem
			if n == nargs && r.Intn(3) == 0 {
				t = tys[nargs-1] // the whole tail as one array
			}
		case i < nargs:
			t = tys[i]
		default:
			t = &gty{kind: "any"}
		}
		v := g.valueFor(t, 2)
		js, cq = append(js, v.js), append(cq, v.coq)
	}
	g.runCall(in, ctys, variadic, js, cq, "call")
}

func (g *gen) runCall(in []reflect.Type, ctys []string, variadic bool, js, cq []string, bucket string) {
	vm := otto.New()
	var got []reflect.Value
	called := false
	ft := reflect.FuncOf(in, nil, variadic)
	Must(vm.Set("f", reflect.MakeFunc(ft, func(a []reflect.Value) []reflect.Value {
		called = true
		got = append([]reflect.Value{}, a...)
		return nil
	}).Interface()))
	src := "f(" + strings.Join(js, ", ") + ")"
	o := RunJS(vm, src)
	obs := ""
	switch {
	case o.Panic != nil || o.Err != nil:
		obs = fmt.Sprintf("(CE %d)", ErrClass(o))
	case !called:
		obs = "(CE (-1))"
	default:
		var es []string
		for _, a := range got {
			es = append(es, canon(a))
		}
		obs = "(CV (GVStruct " + Clist(es) + "))"
	}
	rec := ""
	if called {
		var parts []string
		for _, a := range got {
			parts = append(parts, fmt.Sprintf("%#v", a.Interface()))
		}
		rec = " received " + addrRe.ReplaceAllString(strings.Join(parts, ", "), "0x..")
		if len(rec) > 400 {
			rec = rec[:400] + "..."
		}
	}
	g.env.Add(fmt.Sprintf("CCall %s %s %s %s", Clist(ctys), Cbool(variadic), Clist(cq), obs),
		fmt.Sprintf("%s %s with f %v: %s%s => %s", bucket, src, ft, describe(o), rec, obs), bucket, true)
}

// interface{} parameters: the value goes through Value.export (arrays, objects, holes, undefined-valued properties)
func (g *gen) anyCase() {
	r := g.env.Rng
	shape := r.Intn(4)
	var in []reflect.Type
	var ctys []string
	variadic := false
	switch shape {
	case 0:
		in, ctys = []reflect.Type{anyType}, []string{"TAny"}
	case 1:
		in, ctys, variadic = []reflect.Type{reflect.SliceOf(anyType)}, []string{"(TSlice TAny)"}, true
	case 2:
		in, ctys = []reflect.Type{reflect.MapOf(reflect.TypeOf(""), anyType)}, []string{"(TMap TAny)"}
	default:
		in, ctys = []reflect.Type{reflect.SliceOf(anyType)}, []string{"(TSlice TAny)"}
	}
	n := 1
	if variadic {
		n = r.Intn(4)
	}
	var js, cq []string
	for i := 0; i < n; i++ {
		var v jsx
		switch {
		case shape == 2 && r.Intn(6) > 0:
			v = g.objValue(2, func() jsx { return g.anyValue(2) }, []string{"a", "b", "bee", "A", "B", "c"})
		case shape == 3 && r.Intn(6) > 0:
			v = g.valueFor(&gty{kind: "slice", elem: &gty{kind: "any"}}, 3)
		default:
			v = g.anyValue(3)
		}
		js, cq = append(js, v.js), append(cq, v.coq)
	}
	g.runCall(in, ctys, variadic, js, cq, "any")
}

// ---------- return values ----------

func (g *gen) retCase() {
	r := g.env.Rng
	n := Pick(r, []int{0, 1, 1, 2, 2, 3, 4})
	var out []reflect.Type
	var vals []reflect.Value
	var cq, want []string
	for i := 0; i < n; i++ {
		switch r.Intn(5) {
		case 0:
			b := r.Intn(2) == 0
			vals = append(vals, reflect.ValueOf(b))
			cq = append(cq, "(GVBool "+Cbool(b)+")")
		case 1:
			s := Pick(r, someStrings)
			vals = append(vals, reflect.ValueOf(s))
			cq = append(cq, "(GVStr "+Cstr(s)+")")
		default:
			k := r.Intn(len(kinds))
			nv := g.randPayload(k)
			if k == kF32 {
				nv.f = float64(float32(nv.f))
			}
			vals = append(vals, reflect.ValueOf(nv.goValue()))
			if kinds[k].flt {
				cq = append(cq, fmt.Sprintf("(GVF %s (decode %s))", kinds[k].coq, Cdouble(nv.f)))
			} else {
				cq = append(cq, fmt.Sprintf("(GVI %s %s)", kinds[k].coq, cbig(nv.i)))
			}
		}
		out = append(out, vals[i].Type())
		want = append(want, fmt.Sprintf("%#v", vals[i].Interface()))
	}
	vm := otto.New()
	ft := reflect.FuncOf(nil, out, false)
	Must(vm.Set("f", reflect.MakeFunc(ft, func([]reflect.Value) []reflect.Value { return vals }).Interface()))
	o := RunJS(vm, "var r = f(); r")
	var obs []string
	isArr := false
	one := func(v otto.Value) string {
		switch {
		case v.IsNumber():
			f, _ := v.ToFloat()
			return "(JoNum (decode " + Cdouble(f) + "))"
		case v.IsString():
			s, _ := v.ToString()
			return "(JoStr " + Cstr(s) + ")"
		case v.IsBoolean():
			b, _ := v.ToBoolean()
			return "(JoBool " + Cbool(b) + ")"
		case v.IsUndefined():
			return "JoUndef"
		}
		return "JoOther"
	}
	if o.Panic != nil || o.Err != nil {
		obs = []string{"JoOther"}
	} else if a := RunJS(vm, "Object.prototype.toString.call(r) === '[object Array]' || (typeof r === 'object' && r !== null && typeof r.length === 'number')"); a.Err == nil && a.Panic == nil && a.Val.IsBoolean() && func() bool { b, _ := a.Val.ToBoolean(); return b }() {
		isArr = true
		l := RunJS(vm, "r.length")
		ln, _ := l.Val.ToInteger()
		for i := int64(0); i < ln && i < 10; i++ {
			e := RunJS(vm, fmt.Sprintf("r[%d]", i))
			if e.Panic != nil || e.Err != nil {
				obs = append(obs, "JoOther")
			} else {
				obs = append(obs, one(e.Val))
			}
		}
	} else {
		obs = []string{one(o.Val)}
	}
	g.env.Add(fmt.Sprintf("CRet %s %s %s", Clist(cq), Cbool(isArr), Clist(obs)),
		fmt.Sprintf("ret f returns (%s): %s, script sees array=%v %s", strings.Join(want, ", "), describe(o), isArr, Clist(obs)), "ret", n != 1)
}
