// c16: correspondence cases for property C16 (bridged Go functions, structs, maps, slices).
package main

import (
	"fmt"
	"math"
	"math/big"
	"os"
	"reflect"
	"strings"

	"github.com/robertkrimen/otto"
	. "ottoh/lib"
)

func main() {
	if len(os.Args) > 2 && os.Args[1] == "crashprobe" {
		crashProbe(os.Args[2])
	}
	env := FromFlags("c16")
	env.Import = "Otto.C16.Corr"
	env.Rule = "numeric cells: every (source payload kind x Go target kind) pair with the limits of both kinds +-2 (+-0.5 and the neighbouring doubles for float sources), NaN, +-Infinity, -0, float32/float64 precision and range edges, through seven paths (parameter, struct field, variadic tail, slice/map element, pointer, struct literal); element stores into []T, *[N]T, map[string]T and the append position with numbers of every payload kind and coerced primitives; arity sweeps 0..4 parameters x 0..6 arguments, variadic or not; interleaved script/Go histories (2-8 operations: get, set, delete, length, set length, push, pop, keys, in, set/get/in/delete of a non-index property, Go get/set/len/append/reslice) on []int by value and as a field of *struct, *[N]int, map[string]int, *struct with tags/embedded/unexported/hidden fields and random reflect.StructOf tables; calls of reflect-built signatures (depth <= 2 over numbers, bool, string, interface{}, slices, maps, pointers, structs, variadics) with mostly well-shaped arguments; multiple return values; re-entrant calls from inside argument conversion; size-preserving Go-side map mutations between enumerations; same-named distinct struct types; nested addressable values passed to pointer/value/interface parameters; float32 payloads (*float32) among the sources; pinned witnesses of every open finding and regression cases of repaired ones first. non-trivial = distinct case other than a small in-range integer of the same kind"
	g := &gen{env: env}
	g.pinned()
	g.pinnedWitnesses()
	g.pinnedHists()
	g.pinnedReent()
	g.ptrHist([]string{"bumpC", "readC", "goC", "bumpC", "goC", "fill", "readG", "goG"})
	g.ptrHist([]string{"elemS", "readS", "goS", "elemM", "readM", "elemSplain"})
	g.sameNameStructs()
	g.sameNameCalls()
	g.pinnedRetHist()
	g.pinnedNamed()
	g.pinnedKMap()
	g.pinnedNMap()
	g.pinnedVariadic()
	g.sweepEqWrite()
	g.sweepShare()
	g.sweepDelElem()
	g.pinnedCallback()
	g.fieldWriteCase(0, &gty{rt: kinds[0].rt, coq: "(TNum KI)", kind: "num", nk: 0}, jsString("eighty"))
	g.fieldWriteCase(5, &gty{rt: kinds[0].rt, coq: "(TNum KI)", kind: "num", nk: 0}, jsx{"true", "(JBool true)"})
	g.sweepFieldWrite()
	g.sweepNum()
	g.sweepStore()
	g.sweepArity()
	for env.Count() < env.N {
		switch env.Rng.Intn(74) {
		case 0, 1, 2:
			g.randNum()
		case 3, 4, 5:
			g.randStore()
		case 6:
			g.randArity()
		case 7, 8, 9, 10, 11:
			g.sliceHist()
		case 12, 13:
			g.arrayHist()
		case 14, 15, 16:
			g.mapHist()
		case 17, 18, 19:
			g.structHist()
		case 20:
			g.retCase()
		case 21, 22:
			g.anyCase()
		case 23, 24, 25:
			g.reentCase()
		case 26, 27, 28:
			g.mapHistWith(true)
		case 29:
			g.sameNameStructs()
		case 30:
			g.sameNameCalls()
		case 31, 32, 33, 34:
			g.ptrHist(nil)
		case 35, 36, 37, 38, 39:
			g.randFieldWrite()
		case 40, 41, 42:
			g.randRetHist()
		case 43, 44, 45, 46:
			g.namedCase(env.Rng.Intn(len(namedPaths)))
		case 47, 48, 49, 50, 51:
			g.partialCase()
		case 52, 53, 54, 55, 56:
			g.randKMap()
		case 57, 58, 59, 60:
			g.randCallback()
		case 61, 62, 63, 64:
			g.nmapHist(nil)
		default:
			g.callCase()
		}
	}
	env.Finish()
}

type gen struct {
	env *Env
}

// ---------- numeric kinds ----------

type nkind struct {
	coq  string
	rt   reflect.Type
	min  *big.Int // integer kinds
	max  *big.Int
	flt  bool
	bits int
}

func pow2(n uint) *big.Int { return new(big.Int).Lsh(big.NewInt(1), n) }
func bsub(a *big.Int, b int64) *big.Int {
	return new(big.Int).Sub(a, big.NewInt(b))
}
func bneg(a *big.Int) *big.Int { return new(big.Int).Neg(a) }

var kinds = []nkind{
	{"KI", reflect.TypeOf(int(0)), bneg(pow2(63)), bsub(pow2(63), 1), false, 64},
	{"KI8", reflect.TypeOf(int8(0)), bneg(pow2(7)), bsub(pow2(7), 1), false, 8},
	{"KI16", reflect.TypeOf(int16(0)), bneg(pow2(15)), bsub(pow2(15), 1), false, 16},
	{"KI32", reflect.TypeOf(int32(0)), bneg(pow2(31)), bsub(pow2(31), 1), false, 32},
	{"KI64", reflect.TypeOf(int64(0)), bneg(pow2(63)), bsub(pow2(63), 1), false, 64},
	{"KU", reflect.TypeOf(uint(0)), big.NewInt(0), bsub(pow2(64), 1), false, 64},
	{"KU8", reflect.TypeOf(uint8(0)), big.NewInt(0), bsub(pow2(8), 1), false, 8},
	{"KU16", reflect.TypeOf(uint16(0)), big.NewInt(0), bsub(pow2(16), 1), false, 16},
	{"KU32", reflect.TypeOf(uint32(0)), big.NewInt(0), bsub(pow2(32), 1), false, 32},
	{"KU64", reflect.TypeOf(uint64(0)), big.NewInt(0), bsub(pow2(64), 1), false, 64},
	{"KF32", reflect.TypeOf(float32(0)), nil, nil, true, 32},
	{"KF64", reflect.TypeOf(float64(0)), nil, nil, true, 64},
}

const kF32, kF64 = 10, 11

func kindOf(t reflect.Type) int {
	for i, k := range kinds {
		if k.rt.Kind() == t.Kind() {
			return i
		}
	}
	return -1
}

// a JS number as otto holds it: kind + integer payload or double
type numv struct {
	k int
	i *big.Int
	f float64
}

func (n numv) coq() string {
	if n.k == kF32 {
		n.f = float64(float32(n.f))
	}
	if kinds[n.k].flt {
		return fmt.Sprintf("(%s, %s)", kinds[n.k].coq, Cdouble(n.f))
	}
	return fmt.Sprintf("(%s, %s)", kinds[n.k].coq, cbig(n.i))
}

func (n numv) String() string {
	if n.k == kF32 {
		return fmt.Sprintf("*float32(%s)", JSNum(float64(float32(n.f))))
	}
	if kinds[n.k].flt {
		return fmt.Sprintf("%s(%s)", kinds[n.k].rt, JSNum(n.f))
	}
	return fmt.Sprintf("%s(%s)", kinds[n.k].rt, n.i)
}

// the Go value to hand to vm.Set
func (n numv) goValue() interface{} {
	if n.k == kF32 {
		// a float32 handed over directly is widened to float64 by toValue; through a
		// pointer it keeps its float32 payload
		x := float32(n.f)
		return &x
	}
	v := reflect.New(kinds[n.k].rt).Elem()
	switch {
	case kinds[n.k].flt:
		v.SetFloat(n.f)
	case kinds[n.k].min.Sign() < 0:
		v.SetInt(n.i.Int64())
	default:
		v.SetUint(n.i.Uint64())
	}
	return v.Interface()
}

func (n numv) trivial() bool {
	if n.k == kF32 {
		return false
	}
	if kinds[n.k].flt {
		return n.f == math.Trunc(n.f) && math.Abs(n.f) < 100 && !(n.f == 0 && math.Signbit(n.f))
	}
	return n.i.IsInt64() && n.i.Int64() >= 0 && n.i.Int64() < 100
}

func cbig(b *big.Int) string {
	if b.Sign() < 0 {
		return "(" + b.String() + ")"
	}
	return b.String()
}

func fits(k int, b *big.Int) bool {
	return !kinds[k].flt && b.Cmp(kinds[k].min) >= 0 && b.Cmp(kinds[k].max) <= 0
}

// integer boundary values: the limits of every width +-1, small numbers, the
// float32 / float64 precision edges
func intBoundaries() []*big.Int {
	var out []*big.Int
	add := func(b *big.Int) {
		for d := int64(-2); d <= 2; d++ {
			out = append(out, new(big.Int).Add(b, big.NewInt(d)))
		}
	}
	add(big.NewInt(0))
	for _, e := range []uint{7, 8, 15, 16, 24, 31, 32, 53, 63, 64} {
		add(pow2(e))
		add(bneg(pow2(e)))
	}
	for _, v := range []int64{5, 100, 300, -300, 1000, 70000, -70000, 16777217, 33554433, 3000000000, -3000000000, 1 << 40, 9007199254740993, 9007199254741001, 1<<62 + 1, -(1<<62 + 1), 9223372036854775296, -9223372036854775296, 9223372036854774784} {
		out = append(out, big.NewInt(v))
	}
	out = append(out, new(big.Int).Add(pow2(63), big.NewInt(1024)), new(big.Int).Add(pow2(63), big.NewInt(2048)), new(big.Int).Sub(pow2(64), big.NewInt(1024)), new(big.Int).Sub(pow2(64), big.NewInt(2048)))
	return out
}

var intB = intBoundaries()

func floatBoundaries() []float64 {
	out := []float64{math.NaN(), math.Inf(1), math.Inf(-1), math.Copysign(0, -1), 0.1, -0.1, 0.5, -0.5, 1.5, -1.5, 2.5, -2.5, 0.9999999999999999, -0.9999999999999999,
		1e-46, -1e-46, math.SmallestNonzeroFloat32, math.SmallestNonzeroFloat32 / 2, math.SmallestNonzeroFloat32 * 1.5, math.Nextafter(math.SmallestNonzeroFloat32, 0), 1.1754943508222875e-38, 1e-40,
		math.MaxFloat32, -math.MaxFloat32, math.Nextafter(math.MaxFloat32, math.Inf(1)), math.Nextafter(math.MaxFloat32, 0), 3.4028235677973366e+38, 1e39, -1e39,
		math.MaxFloat64, -math.MaxFloat64, math.SmallestNonzeroFloat64, 1e21, 1e300, 1.0000001, 16777216.5, 1 / 3.0, math.Pi, -math.E, 1e15 + 0.5}
	for _, b := range intB {
		f, _ := new(big.Float).SetInt(b).Float64()
		out = append(out, f, f+0.5, f-0.5, math.Nextafter(f, math.Inf(1)), math.Nextafter(f, math.Inf(-1)))
	}
	return out
}

var floatB = floatBoundaries()

// values relevant to target kind t: its limits +-1 (and +-0.5 as doubles)
func (g *gen) payloadsFor(src, tgt int) []numv {
	var out []numv
	sk := kinds[src]
	addInt := func(b *big.Int) {
		if sk.flt {
			f, _ := new(big.Float).SetInt(b).Float64()
			out = append(out, numv{k: src, f: f})
		} else if fits(src, b) {
			out = append(out, numv{k: src, i: b})
		}
	}
	tk := kinds[tgt]
	var pivots []*big.Int
	if !tk.flt {
		pivots = []*big.Int{tk.min, tk.max, big.NewInt(0)}
	} else if tgt == kF32 {
		pivots = []*big.Int{pow2(24), bneg(pow2(24)), big.NewInt(0), pow2(25)}
	} else {
		pivots = []*big.Int{pow2(53), bneg(pow2(53)), big.NewInt(0), pow2(54)}
	}
	if !sk.flt {
		pivots = append(pivots, sk.min, sk.max)
	}
	for _, p := range pivots {
		for d := int64(-2); d <= 2; d++ {
			addInt(new(big.Int).Add(p, big.NewInt(d)))
		}
		if sk.flt {
			f, _ := new(big.Float).SetInt(p).Float64()
			out = append(out, numv{k: src, f: f + 0.5}, numv{k: src, f: f - 0.5}, numv{k: src, f: math.Nextafter(f, math.Inf(1))}, numv{k: src, f: math.Nextafter(f, math.Inf(-1))})
		}
	}
	if sk.flt {
		for _, f := range []float64{math.NaN(), math.Inf(1), math.Inf(-1), math.Copysign(0, -1), 0.1, -1.5, 1.5, -0.5} {
			out = append(out, numv{k: src, f: f})
		}
		if tgt == kF32 {
			for _, f := range []float64{math.MaxFloat32, math.Nextafter(math.MaxFloat32, math.Inf(1)), -math.MaxFloat32, math.Nextafter(-math.MaxFloat32, math.Inf(-1)), 3.4028235677973366e+38, math.SmallestNonzeroFloat32, math.SmallestNonzeroFloat32 / 2, math.Nextafter(math.SmallestNonzeroFloat32, 0), 1e-46, 16777217, 1e39} {
				out = append(out, numv{k: src, f: f})
			}
		}
	}
	return out
}

func (g *gen) randPayload(src int) numv {
	r := g.env.Rng
	sk := kinds[src]
	if sk.flt {
		switch r.Intn(6) {
		case 0:
			return numv{k: src, f: math.Float64frombits(r.Uint64())}
		case 1:
			return numv{k: src, f: float64(r.Intn(2001)-1000) / float64(Pick(r, []int{1, 2, 4, 10}))}
		case 2:
			return numv{k: src, f: math.Ldexp(float64(r.Int63n(1<<53)), r.Intn(80)-60) * float64(1-2*r.Intn(2))}
		default:
			return numv{k: src, f: Pick(r, floatB)}
		}
	}
	for tries := 0; tries < 50; tries++ {
		var b *big.Int
		switch r.Intn(4) {
		case 0:
			b = new(big.Int).Rand(r, new(big.Int).Add(new(big.Int).Sub(sk.max, sk.min), big.NewInt(1)))
			b.Add(b, sk.min)
		case 1:
			b = big.NewInt(int64(r.Intn(601) - 300))
		default:
			b = Pick(r, intB)
		}
		if fits(src, b) {
			return numv{k: src, i: b}
		}
	}
	return numv{k: src, i: big.NewInt(1)}
}

// ---------- observing Go values ----------

// Coq obs term for a received Go value expected to be numeric
func obsOfValue(v reflect.Value) string {
	for v.IsValid() && v.Kind() == reflect.Interface && !v.IsNil() {
		v = v.Elem()
	}
	if !v.IsValid() {
		return "ObOther"
	}
	k := kindOf(v.Type())
	if k < 0 {
		return "ObOther"
	}
	switch {
	case kinds[k].flt:
		return fmt.Sprintf("(ObF %s %s)", kinds[k].coq, Cdouble(v.Float()))
	case kinds[k].min.Sign() < 0:
		return fmt.Sprintf("(ObI %s %s)", kinds[k].coq, Cz(v.Int()))
	default:
		return fmt.Sprintf("(ObI %s %s)", kinds[k].coq, Czu(v.Uint()))
	}
}

func obsErr(o Outcome) string { return fmt.Sprintf("(ObE %s)", Cz(ErrClass(o))) }

func describe(o Outcome) string {
	switch {
	case o.Panic != nil:
		return fmt.Sprintf("Go panic: %v", o.Panic)
	case o.Err != nil:
		return "error: " + o.Err.Error()
	}
	return "ok"
}

func makeFunc(in []reflect.Type, variadic bool, sink *[]reflect.Value) interface{} {
	ft := reflect.FuncOf(in, nil, variadic)
	return reflect.MakeFunc(ft, func(a []reflect.Value) []reflect.Value {
		*sink = append([]reflect.Value{}, a...)
		return nil
	}).Interface()
}

var pathNames = []string{"f(a) with f func(T)", "o.F = a with o *struct{F T}", "f(1, a) with f func(int, ...T)", "f([a]) with f func([]T)", "f({k: a}) with f func(map[string]T)", "f(a) with f func(*T)", "f({F: a}) with f func(struct{F T})"}

// one numeric cell: JS number n reaching Go target kind tgt through path
func (g *gen) numCase(path int, n numv, tgt int) {
	vm := otto.New()
	Must(vm.Set("a", n.goValue()))
	T := kinds[tgt].rt
	var got []reflect.Value
	var o Outcome
	var result reflect.Value
	pick := func(f func() reflect.Value) {
		if o.Panic == nil && o.Err == nil {
			defer func() {
				if recover() != nil {
					result = reflect.Value{}
				}
			}()
			result = f()
		}
	}
	switch path {
	case 0:
		Must(vm.Set("f", makeFunc([]reflect.Type{T}, false, &got)))
		o = RunJS(vm, "f(a)")
		pick(func() reflect.Value { return got[0] })
	case 1:
		st := reflect.StructOf([]reflect.StructField{{Name: "F", Type: T}})
		p := reflect.New(st)
		Must(vm.Set("o", p.Interface()))
		o = RunJS(vm, "o.F = a")
		pick(func() reflect.Value { return p.Elem().Field(0) })
	case 2:
		Must(vm.Set("f", makeFunc([]reflect.Type{reflect.TypeOf(int(0)), reflect.SliceOf(T)}, true, &got)))
		o = RunJS(vm, "f(1, a)")
		pick(func() reflect.Value {
			if got[1].Len() != 1 {
				return reflect.Value{}
			}
			return got[1].Index(0)
		})
	case 3:
		Must(vm.Set("f", makeFunc([]reflect.Type{reflect.SliceOf(T)}, false, &got)))
		o = RunJS(vm, "f([a])")
		pick(func() reflect.Value {
			if got[0].Len() != 1 {
				return reflect.Value{}
			}
			return got[0].Index(0)
		})
	case 4:
		Must(vm.Set("f", makeFunc([]reflect.Type{reflect.MapOf(reflect.TypeOf(""), T)}, false, &got)))
		o = RunJS(vm, "f({k: a})")
		pick(func() reflect.Value {
			if got[0].Len() != 1 {
				return reflect.Value{}
			}
			return got[0].MapIndex(reflect.ValueOf("k"))
		})
	case 5:
		Must(vm.Set("f", makeFunc([]reflect.Type{reflect.PtrTo(T)}, false, &got)))
		o = RunJS(vm, "f(a)")
		pick(func() reflect.Value { return got[0].Elem() })
	case 6:
		st := reflect.StructOf([]reflect.StructField{{Name: "F", Type: T}})
		Must(vm.Set("f", makeFunc([]reflect.Type{st}, false, &got)))
		o = RunJS(vm, "f({F: a})")
		pick(func() reflect.Value { return got[0].Field(0) })
	}
	obs := ""
	if o.Panic != nil || o.Err != nil {
		obs = obsErr(o)
	} else {
		obs = obsOfValue(result)
	}
	txt := fmt.Sprintf("num a=%s -> %s via %s : %s, received %s", n, T, pathNames[path], describe(o), obs)
	g.env.Add(fmt.Sprintf("CNum %d %s %s %s", path, n.coq(), kinds[tgt].coq, obs), txt, "num", !(n.trivial() && n.k == tgt))
}

func (g *gen) sweepNum() {
	r := g.env.Rng
	budget := g.env.N / 4
	type cell struct {
		src, tgt int
		n        numv
	}
	var cells []cell
	for src := range kinds {
		for tgt := range kinds {
			for _, n := range g.payloadsFor(src, tgt) {
				cells = append(cells, cell{src, tgt, n})
			}
		}
	}
	r.Shuffle(len(cells), func(i, j int) { cells[i], cells[j] = cells[j], cells[i] })
	for i := 0; i < len(cells) && i < budget; i++ {
		path := 0
		if r.Intn(3) == 0 {
			path = r.Intn(len(pathNames))
		}
		g.numCase(path, cells[i].n, cells[i].tgt)
	}
}

func (g *gen) randSrcKind() int {
	k := g.env.Rng.Intn(len(kinds))
	if g.env.Rng.Intn(3) == 0 {
		k = kF64
	}
	return k
}

func (g *gen) randNum() {
	r := g.env.Rng
	src := g.randSrcKind()
	g.numCase(r.Intn(len(pathNames)), g.randPayload(src), r.Intn(len(kinds)))
}

// ---------- element stores ----------

type sval struct {
	js  string      // JS expression
	coq string      // Coq sval
	set interface{} // value for "a" if used
	tr  bool        // trivial
}

var strNums = []struct {
	s string
	f float64
}{{"12", 12}, {"-3", -3}, {"1.5", 1.5}, {"-1.5", -1.5}, {"x", math.NaN()}, {"", 0}, {" 7 ", 7}, {"0x10", 16}, {"1e3", 1000}, {"300", 300}, {"Infinity", math.Inf(1)}, {"-0", math.Copysign(0, -1)}, {"9223372036854775808", 9223372036854775808}}

func svalOfNum(n numv) sval {
	return sval{js: "a", coq: "(SNum " + n.coq() + ")", set: n.goValue(), tr: n.trivial()}
}

func (g *gen) randSval(tgt int) sval {
	r := g.env.Rng
	switch r.Intn(12) {
	case 0:
		b := r.Intn(2) == 0
		return sval{js: fmt.Sprint(b), coq: "(SBool " + Cbool(b) + ")"}
	case 1:
		return sval{js: "null", coq: "SNull"}
	case 2:
		return sval{js: "undefined", coq: "SUndef"}
	case 3:
		s := Pick(r, strNums)
		return sval{js: JSStr(Units(s.s)), coq: "(SStr " + Cdouble(s.f) + ")"}
	case 4, 5, 6:
		src := g.randSrcKind()
		return svalOfNum(Pick(r, g.payloadsFor(src, tgt)))
	default:
		return svalOfNum(g.randPayload(g.randSrcKind()))
	}
}

var contNames = []string{"s[0] = v on []T", "p[0] = v on *[2]T", "m.k = v on map[string]T", "s[1] = v (append position) on []T len 1 cap 4"}

func (g *gen) storeCase(cont int, v sval, tgt int) {
	vm := otto.New()
	if v.set != nil {
		Must(vm.Set("a", v.set))
	}
	T := kinds[tgt].rt
	seven := reflect.ValueOf(7).Convert(T)
	var o Outcome
	var read func() reflect.Value
	var readJS string
	switch cont {
	case 0:
		s := reflect.MakeSlice(reflect.SliceOf(T), 2, 2)
		s.Index(0).Set(seven)
		Must(vm.Set("c", s.Interface()))
		o = RunJS(vm, "c[0] = "+v.js)
		read = func() reflect.Value { return s.Index(0) }
		readJS = "c[0]"
	case 1:
		p := reflect.New(reflect.ArrayOf(2, T))
		p.Elem().Index(0).Set(seven)
		Must(vm.Set("c", p.Interface()))
		o = RunJS(vm, "c[0] = "+v.js)
		read = func() reflect.Value { return p.Elem().Index(0) }
		readJS = "c[0]"
	case 2:
		m := reflect.MakeMap(reflect.MapOf(reflect.TypeOf(""), T))
		m.SetMapIndex(reflect.ValueOf("k"), seven)
		Must(vm.Set("c", m.Interface()))
		o = RunJS(vm, "c.k = "+v.js)
		read = func() reflect.Value { return m.MapIndex(reflect.ValueOf("k")) }
		readJS = "c.k"
	case 3:
		s := reflect.MakeSlice(reflect.SliceOf(T), 1, 4)
		s.Index(0).Set(seven)
		Must(vm.Set("c", s.Interface()))
		o = RunJS(vm, "c[1] = "+v.js)
		read = func() reflect.Value { return s.Slice(0, 2).Index(1) }
		readJS = "c[1]"
	}
	obs, js := "", "None"
	jsTxt := ""
	if o.Panic != nil || o.Err != nil {
		obs = obsErr(o)
	} else {
		obs = obsOfValue(read())
		ro := RunJS(vm, readJS)
		if ro.Panic == nil && ro.Err == nil && ro.Val.IsNumber() {
			f, _ := ro.Val.ToFloat()
			js = "(Some " + Cdouble(f) + ")"
			jsTxt = ", script reads back " + JSNum(f)
		} else {
			jsTxt = ", script read-back failed: " + describe(ro)
		}
	}
	aTxt := ""
	if v.set != nil {
		sv := reflect.ValueOf(v.set)
		if sv.Kind() == reflect.Ptr {
			aTxt = fmt.Sprintf(" a=%s(%v)", sv.Type(), sv.Elem().Interface())
		} else {
			aTxt = fmt.Sprintf(" a=%s(%v)", sv.Type(), v.set)
		}
	}
	txt := fmt.Sprintf("store v=%s%s into %s (T=%s, element was 7): %s, Go side now %s%s", v.js, aTxt, contNames[cont], T, describe(o), obs, jsTxt)
	g.env.Add(fmt.Sprintf("CStore %d %s %s %s %s", cont, v.coq, kinds[tgt].coq, obs, js), txt, "store", !v.tr)
}

func (g *gen) sweepStore() {
	r := g.env.Rng
	budget := g.env.N / 5
	type cell struct {
		tgt int
		v   sval
	}
	var cells []cell
	for tgt := range kinds {
		for src := range kinds {
			for _, n := range g.payloadsFor(src, tgt) {
				if src != kF64 && r.Intn(3) != 0 {
					continue // doubles and literals are what scripts store; thin out the host-typed sources
				}
				cells = append(cells, cell{tgt, svalOfNum(n)})
			}
		}
		for _, s := range strNums {
			cells = append(cells, cell{tgt, sval{js: JSStr(Units(s.s)), coq: "(SStr " + Cdouble(s.f) + ")"}})
		}
		cells = append(cells, cell{tgt, sval{js: "true", coq: "(SBool true)"}}, cell{tgt, sval{js: "false", coq: "(SBool false)"}}, cell{tgt, sval{js: "null", coq: "SNull"}}, cell{tgt, sval{js: "undefined", coq: "SUndef"}})
	}
	r.Shuffle(len(cells), func(i, j int) { cells[i], cells[j] = cells[j], cells[i] })
	for i := 0; i < len(cells) && i < budget; i++ {
		cont := 0
		if r.Intn(2) == 0 {
			cont = r.Intn(len(contNames))
		}
		g.storeCase(cont, cells[i].v, cells[i].tgt)
	}
}

func (g *gen) randStore() {
	r := g.env.Rng
	tgt := r.Intn(len(kinds))
	g.storeCase(r.Intn(len(contNames)), g.randSval(tgt), tgt)
}

// ---------- arity ----------

func (g *gen) arityCase(nargs int, variadic bool, n int) {
	vm := otto.New()
	ti := reflect.TypeOf(int(0))
	in := make([]reflect.Type, nargs)
	for i := range in {
		in[i] = ti
	}
	if variadic {
		in[nargs-1] = reflect.SliceOf(ti)
	}
	var got []reflect.Value
	called := false
	ft := reflect.FuncOf(in, nil, variadic)
	Must(vm.Set("f", reflect.MakeFunc(ft, func(a []reflect.Value) []reflect.Value {
		called = true
		got = append([]reflect.Value{}, a...)
		return nil
	}).Interface()))
	args := make([]string, n)
	for i := range args {
		args[i] = fmt.Sprint(i + 1)
	}
	src := "f(" + strings.Join(args, ", ") + ")"
	o := RunJS(vm, src)
	fixed, tail := int64(-1), int64(-1)
	inOrder := true
	if called {
		fixed, tail = int64(len(got)), 0
		k := int64(1)
		for i, a := range got {
			if variadic && i == len(got)-1 {
				fixed--
				tail = int64(a.Len())
				for j := 0; j < a.Len(); j++ {
					inOrder = inOrder && a.Index(j).Int() == k
					k++
				}
			} else {
				inOrder = inOrder && a.Int() == k
				k++
			}
		}
	}
	if !inOrder {
		fixed = -2 // arguments arrived out of order or altered: can never match the model
	}
	txt := fmt.Sprintf("arity %s with f %v: %s, Go received %d fixed + %d variadic (in order: %v)", src, ft, describe(o), fixed, tail, inOrder)
	g.env.Add(fmt.Sprintf("CArity %d %s %d %s %s %s", nargs, Cbool(variadic), n, Cz(ErrClass(o)), Cz(fixed), Cz(tail)), txt, "arity", n != nargs)
}

func (g *gen) sweepArity() {
	for nargs := 0; nargs <= 4; nargs++ {
		for _, variadic := range []bool{false, true} {
			if variadic && nargs == 0 {
				continue
			}
			for n := 0; n <= 6; n++ {
				g.arityCase(nargs, variadic, n)
			}
		}
	}
}

func (g *gen) randArity() {
	r := g.env.Rng
	nargs := r.Intn(6)
	variadic := nargs > 0 && r.Intn(2) == 0
	g.arityCase(nargs, variadic, r.Intn(9))
}

// ---------- pinned witnesses of the listed findings ----------

func (g *gen) pinned() {
	f64 := func(f float64) numv { return numv{k: kF64, f: f} }
	i64 := func(v int64) numv { return numv{k: 4, i: big.NewInt(v)} }
	// class 1: float targets round silently
	g.numCase(0, f64(0.1), kF32)
	g.numCase(0, i64(9007199254740993), kF64)
	// class 2: negative fraction, NaN, non-number
	g.storeCase(0, svalOfNum(f64(-1.5)), 1)
	g.storeCase(0, svalOfNum(f64(math.NaN())), 1)
	g.storeCase(2, sval{js: `"x"`, coq: "(SStr " + Cdouble(math.NaN()) + ")"}, 0)
	// class 3: wrap at 2^63 / 2^64
	g.storeCase(0, svalOfNum(f64(9223372036854775808)), 4)
	g.storeCase(0, svalOfNum(f64(18446744073709551616)), 9)
	// class 4: rounding in stores
	g.storeCase(0, svalOfNum(f64(0.1)), kF32)
	g.storeCase(0, svalOfNum(i64(9007199254740993)), 4)
	// class 5: failed store is a Go panic
	g.storeCase(0, svalOfNum(i64(300)), 1)
}

func negZero() float64 { return math.Copysign(0, -1) }

func bigInt(v int64) *big.Int { return big.NewInt(v) }
