package main

import (
	"errors"
	"fmt"
	"reflect"
	"strings"

	"github.com/robertkrimen/otto"
	. "ottoh/lib"
)

// ---------- writes of every kind of JS value to struct fields of every Go type ----------

var fwPaths = []string{
	"o.F = v", "o.a = v (json tag)", "o.In.F = v (nested struct)", "o.P.F = v (through a pointer field)",
	"var x = o.In; x.F = v", "try { o.F = v; 'none' } catch (e) { e.name }", "o.In = {F: v}", "o.P = {F: v}",
	"try { o.In.a = v; 'none' } catch (e) { e.name }", "var p = o.P; p.a = v",
}

func (g *gen) fieldWriteCase(path int, t *gty, v jsx) {
	inner := reflect.StructOf([]reflect.StructField{{Name: "F", Type: t.rt, Tag: `json:"a"`}})
	rootT := reflect.StructOf([]reflect.StructField{{Name: "F", Type: t.rt, Tag: `json:"a"`}, {Name: "In", Type: inner}, {Name: "P", Type: reflect.PtrTo(inner)}})
	root := reflect.New(rootT)
	root.Elem().Field(2).Set(reflect.New(inner))
	leaves := []reflect.Value{root.Elem().Field(0), root.Elem().Field(1).Field(0), root.Elem().Field(2).Elem().Field(0)}
	for _, l := range leaves { // a recognisable old content where the type has one
		switch {
		case t.kind == "num" && kinds[t.nk].flt:
			l.SetFloat(7)
		case t.kind == "num" && kinds[t.nk].min.Sign() < 0:
			l.SetInt(7)
		case t.kind == "num":
			l.SetUint(7)
		case t.kind == "str":
			l.SetString("old")
		case t.kind == "bool":
			l.SetBool(true)
		}
	}
	leafOf := func() reflect.Value {
		switch path {
		case 0, 1, 5:
			return root.Elem().Field(0)
		case 2, 4, 6, 8:
			return root.Elem().Field(1).Field(0)
		}
		p := root.Elem().Field(2)
		if p.IsNil() {
			return reflect.Value{}
		}
		return p.Elem().Field(0)
	}
	init := canon(leafOf())
	vm := otto.New()
	Must(vm.Set("o", root.Interface()))
	var src string
	try := false
	switch path {
	case 0:
		src = "o.F = " + v.js
	case 1:
		src = "o.a = " + v.js
	case 2:
		src = "o.In.F = " + v.js
	case 3:
		src = "o.P.F = " + v.js
	case 4:
		src = "var x = o.In; x.F = " + v.js
	case 5:
		src, try = "try { o.F = "+v.js+"; 'none' } catch (e) { e.name }", true
	case 6:
		src = "o.In = {F: " + v.js + "}"
	case 7:
		src = "o.P = {F: " + v.js + "}"
	case 8:
		src, try = "try { o.In.a = "+v.js+"; 'none' } catch (e) { e.name }", true
	default:
		src = "var p = o.P; p.a = " + v.js
	}
	o := RunJS(vm, src)
	cls := ErrClass(o)
	if try && o.Panic == nil && o.Err == nil {
		name, _ := o.Val.ToString()
		switch name {
		case "none":
			cls = 0
		case "RangeError":
			cls = 3
		case "TypeError":
			cls = 6
		default:
			cls = 8
		}
	}
	after := canon(leafOf())
	g.env.Add(fmt.Sprintf("CFieldWrite %d %s %s %s %s %s", path, t.coq, v.coq, init, Cz(cls), after),
		fmt.Sprintf("fieldwrite %s with field type %v, old content %s: %s : %s (class %d), Go sees the field as %s afterwards", fwPaths[path], t.rt, init, src, describe(o), cls, after), "fieldwrite", true)
}

func (g *gen) randFieldWrite() {
	r := g.env.Rng
	t := g.randType(1)
	if r.Intn(2) == 0 {
		t = g.randType(0)
	}
	var v jsx
	if r.Intn(2) == 0 {
		v = g.anyValue(1)
	} else {
		v = g.valueFor(t, 1)
	}
	g.fieldWriteCase(r.Intn(len(fwPaths)), t, v)
}

// every scalar field kind x every kind of JS value, on a rotating path
func (g *gen) sweepFieldWrite() {
	r := g.env.Rng
	scal := []*gty{{rt: reflect.TypeOf(true), coq: "TBool", kind: "bool"}, {rt: reflect.TypeOf(""), coq: "TStr", kind: "str"}, {rt: anyType, coq: "TAny", kind: "any"}}
	for k := range kinds {
		scal = append(scal, &gty{rt: kinds[k].rt, coq: "(TNum " + kinds[k].coq + ")", kind: "num", nk: k})
	}
	it := &gty{rt: kinds[0].rt, coq: "(TNum KI)", kind: "num", nk: 0}
	scal = append(scal,
		&gty{rt: reflect.SliceOf(it.rt), coq: "(TSlice (TNum KI))", kind: "slice", elem: it},
		&gty{rt: reflect.MapOf(reflect.TypeOf(""), it.rt), coq: "(TMap (TNum KI))", kind: "map", elem: it},
		&gty{rt: reflect.PtrTo(it.rt), coq: "(TPtr (TNum KI))", kind: "ptr", elem: it})
	vals := []jsx{{"undefined", "JUndef"}, {"null", "JNull"}, {"true", "(JBool true)"}, {"false", "(JBool false)"},
		{"5", "(JNum (KI64, 5))"}, {"1.5", "(JNum (KF64, " + Cdouble(1.5) + "))"}, {"300", "(JNum (KI64, 300))"}, {"(-1)", "(JNum (KF64, " + Cdouble(-1) + "))"},
		jsString("eighty"), jsString("12"), jsString(""), {"[1,2]", "(JArr [(Some (JNum (KI64, 1))); (Some (JNum (KI64, 2)))])"}, {"[443,\"https\"]", "(JArr [(Some (JNum (KI64, 443))); (Some " + jsString("https").coq + ")])"},
		{"({})", "(JObj [])"}, {"({a: 1})", fmt.Sprintf("(JObj [(%d, (JNum (KI64, 1)))])", nameID("a"))}, {"({a: \"x\"})", fmt.Sprintf("(JObj [(%d, %s)])", nameID("a"), jsString("x").coq)}}
	for _, t := range scal {
		for _, v := range vals {
			if r.Intn(3) == 0 {
				g.fieldWriteCase(r.Intn(len(fwPaths)), t, v)
			}
		}
	}
}

// ---------- results kept over several calls ----------

var errType = reflect.TypeOf((*error)(nil)).Elem()

type retCol struct {
	rt  reflect.Type
	gen func(g *gen) (reflect.Value, string, string)
}

func (g *gen) retColumn() retCol {
	r := g.env.Rng
	switch r.Intn(6) {
	case 0:
		return retCol{reflect.TypeOf(true), func(g *gen) (reflect.Value, string, string) {
			b := g.env.Rng.Intn(2) == 0
			return reflect.ValueOf(b), "(GVBool " + Cbool(b) + ")", fmt.Sprint(b)
		}}
	case 1:
		return retCol{reflect.TypeOf(""), func(g *gen) (reflect.Value, string, string) {
			s := Pick(g.env.Rng, someStrings) + fmt.Sprint(g.env.Rng.Intn(100))
			return reflect.ValueOf(s), "(GVStr " + Cstr(s) + ")", fmt.Sprintf("%q", s)
		}}
	case 2:
		return retCol{errType, func(g *gen) (reflect.Value, string, string) {
			if g.env.Rng.Intn(2) == 0 {
				return reflect.Zero(errType), "GVNil", "nil"
			}
			msg := fmt.Sprintf("boom%d", g.env.Rng.Intn(100))
			return reflect.ValueOf(errors.New(msg)), "(GVPtr (GVStr " + Cstr(msg) + "))", "errors.New(" + msg + ")"
		}}
	default:
		k := r.Intn(len(kinds))
		return retCol{kinds[k].rt, func(g *gen) (reflect.Value, string, string) {
			nv := g.randPayload(k)
			if g.env.Rng.Intn(2) == 0 {
				if kinds[k].flt {
					nv.f = float64(g.env.Rng.Intn(100))
				} else {
					nv = numv{k: k, i: bigInt(int64(g.env.Rng.Intn(100)))}
				}
			}
			var v reflect.Value
			if k == kF32 {
				nv.f = float64(float32(nv.f))
				v = reflect.ValueOf(float32(nv.f))
			} else {
				v = reflect.ValueOf(nv.goValue())
			}
			if kinds[k].flt {
				return v, fmt.Sprintf("(GVF %s (decode %s))", kinds[k].coq, Cdouble(nv.f)), nv.String()
			}
			return v, fmt.Sprintf("(GVI %s %s)", kinds[k].coq, cbig(nv.i)), nv.String()
		}}
	}
}

func jobsOf(v otto.Value) string {
	switch {
	case v.IsNumber():
		f, _ := v.ToFloat()
		return "(JoNum (decode " + Cdouble(f) + "))"
	case v.IsString():
		s, _ := v.ToString()
		return "(JoStr " + Cstr(s) + ")"
	case v.IsBoolean():
		b, _ := v.ToBoolean()
		return "(JoBool " + Cbool(b) + ")"
	case v.IsUndefined():
		return "JoUndef"
	case v.IsObject():
		if m, err := v.Object().Call("Error"); err == nil && m.IsString() {
			s, _ := m.ToString()
			return "(JoStr " + Cstr(s) + ")"
		}
	}
	return "JoOther"
}

// what a kept result shows: nret values (or the single value / undefined)
func readKept(v otto.Value, nret int, viaExport bool) (out []string) {
	defer func() {
		if recover() != nil {
			out = []string{"JoOther"}
		}
	}()
	if nret < 2 {
		return []string{jobsOf(v)}
	}
	if viaExport {
		e, _ := v.Export()
		l, ok := e.([]interface{})
		if !ok {
			return []string{"JoOther"}
		}
		for _, x := range l {
			if xv, ok := x.(otto.Value); ok {
				out = append(out, jobsOf(xv))
			} else if xv, err := otto.ToValue(x); err == nil {
				out = append(out, jobsOf(xv))
			} else {
				out = append(out, "JoOther")
			}
		}
		return out
	}
	if !v.IsObject() {
		return []string{"JoOther"}
	}
	ln, _ := v.Object().Get("length")
	n, _ := ln.ToInteger()
	for c := int64(0); c < n && c < 8; c++ {
		x, _ := v.Object().Get(fmt.Sprint(c))
		out = append(out, jobsOf(x))
	}
	return out
}

var retModes = []string{"script array R[j] = f(i)", "script object R.kj = f(i)", "Values of vm.Run(\"f(i)\") kept in Go", "Values of vm.Call(\"f\", nil, i) kept in Go", "Values of fv.Call(null, i) kept in Go", "re-entrant: R[j] = fc(i, function(){ R[j'] = fc(i', ...) })"}

func (g *gen) retHistCase(mode, nret, ncalls int) {
	r := g.env.Rng
	cols := make([]retCol, nret)
	out := make([]reflect.Type, nret)
	for c := range cols {
		cols[c] = g.retColumn()
		out[c] = cols[c].rt
	}
	nrows := r.Intn(3) + 2
	rows := make([][]reflect.Value, nrows)
	var coqRows, txtRows []string
	for i := range rows {
		var cq, tx []string
		for c := range cols {
			v, q, t := cols[c].gen(g)
			rows[i] = append(rows[i], v)
			cq, tx = append(cq, q), append(tx, t)
		}
		coqRows = append(coqRows, Clist(cq))
		txtRows = append(txtRows, "("+strings.Join(tx, ", ")+")")
	}
	vm := otto.New()
	ti := reflect.TypeOf(0)
	row := func(a reflect.Value) []reflect.Value {
		i := int(a.Int())
		if i < 0 || i >= nrows {
			i = 0
		}
		return append([]reflect.Value{}, rows[i]...)
	}
	Must(vm.Set("f", reflect.MakeFunc(reflect.FuncOf([]reflect.Type{ti}, out, false), func(a []reflect.Value) []reflect.Value { return row(a[0]) }).Interface()))
	Must(vm.Set("fc", reflect.MakeFunc(reflect.FuncOf([]reflect.Type{ti, reflect.TypeOf(func() {})}, out, false), func(a []reflect.Value) []reflect.Value {
		if !a[1].IsNil() {
			a[1].Call(nil)
		}
		return row(a[0])
	}).Interface()))
	calls := make([]int, ncalls)
	for j := range calls {
		calls[j] = r.Intn(nrows)
	}
	kept := make([]otto.Value, ncalls)
	var script []string
	bad := ""
	runJS := func(src string) otto.Value {
		script = append(script, src)
		o := RunJS(vm, src)
		if o.Panic != nil || o.Err != nil {
			bad = describe(o)
		}
		return o.Val
	}
	switch mode {
	case 0:
		runJS("var R = []")
		for j, i := range calls {
			runJS(fmt.Sprintf("R[%d] = f(%d)", j, i))
		}
	case 1:
		var parts []string
		for j, i := range calls {
			parts = append(parts, fmt.Sprintf("R.k%d = f(%d);", j, i))
		}
		runJS("var R = {}; " + strings.Join(parts, " "))
	case 2:
		for j, i := range calls {
			kept[j] = runJS(fmt.Sprintf("f(%d)", i))
		}
	case 3:
		for j, i := range calls {
			script = append(script, fmt.Sprintf("vm.Call(\"f\", nil, %d)", i))
			o := Guard(func() (otto.Value, error) { return vm.Call("f", nil, i) })
			if o.Panic != nil || o.Err != nil {
				bad = describe(o)
			}
			kept[j] = o.Val
		}
	case 4:
		fv, _ := vm.Get("f")
		for j, i := range calls {
			script = append(script, fmt.Sprintf("fv.Call(null, %d)", i))
			o := Guard(func() (otto.Value, error) { return fv.Call(otto.NullValue(), i) })
			if o.Panic != nil || o.Err != nil {
				bad = describe(o)
			}
			kept[j] = o.Val
		}
	default: // nested: call j+1 runs inside the callback of call j
		src := ""
		for j := ncalls - 1; j >= 0; j-- {
			src = fmt.Sprintf("R[%d] = fc(%d, function(){ %s })", j, calls[j], src)
		}
		runJS("var R = []; " + src)
	}
	var obs []string
	for j := range calls {
		v := kept[j]
		switch mode {
		case 0, 5:
			v = RunJS(vm, fmt.Sprintf("R[%d]", j)).Val
		case 1:
			v = RunJS(vm, fmt.Sprintf("R.k%d", j)).Val
		}
		obs = append(obs, Clist(readKept(v, nret, mode >= 2 && mode <= 4 && j%2 == 1)))
	}
	g.env.Add(fmt.Sprintf("CRetHist %s %s %s", Clist(coqRows), Czlist(intsTo64(calls)), Clist(obs)),
		fmt.Sprintf("rethist f(i) returns row i of %s; %s: %s; %s; kept results at the end: %s", strings.Join(txtRows, " "), retModes[mode], strings.Join(script, "; "), orOK(bad), strings.Join(obs, " ")), "rethist", true)
}

func orOK(s string) string {
	if s == "" {
		return "ok"
	}
	return s
}

func intsTo64(a []int) []int64 {
	o := make([]int64, len(a))
	for i, v := range a {
		o[i] = int64(v)
	}
	return o
}

func (g *gen) randRetHist() {
	r := g.env.Rng
	g.retHistCase(r.Intn(len(retModes)), Pick(r, []int{0, 1, 2, 2, 2, 3, 3}), r.Intn(4)+2)
}

func (g *gen) pinnedRetHist() {
	for mode := range retModes {
		g.retHistCase(mode, 2, 3)
	}
	g.retHistCase(0, 3, 4)
}
