package main

import (
	"fmt"
	"math"
	"math/big"
	"reflect"
	"strings"

	"github.com/robertkrimen/otto"
	. "ottoh/lib"
)

// ---------- NAMED scalar types on every path from Go to a script and back ----------

type (
	NI   int
	NI8  int8
	NI16 int16
	NI32 int32
	NI64 int64
	NU   uint
	NU8  uint8
	NU16 uint16
	NU32 uint32
	NU64 uint64
	NF32 float32
	NF64 float64
	NB   bool
	NS   string
)

var namedNum = []reflect.Type{reflect.TypeOf(NI(0)), reflect.TypeOf(NI8(0)), reflect.TypeOf(NI16(0)), reflect.TypeOf(NI32(0)), reflect.TypeOf(NI64(0)),
	reflect.TypeOf(NU(0)), reflect.TypeOf(NU8(0)), reflect.TypeOf(NU16(0)), reflect.TypeOf(NU32(0)), reflect.TypeOf(NU64(0)), reflect.TypeOf(NF32(0)), reflect.TypeOf(NF64(0))}

var namedPaths = []string{"vm.Set(\"x\", v); x", "otto.ToValue(v) set as x", "f() with f func() T", "f()[1] with f func() (int, T)", "o.F with o *struct{F T}",
	"s[0] with s []T", "m.k with m map[string]T", "p[0] with p *[1]T", "o.F after Go stores v into the bridged struct", "s[0] after Go stores v into the bridged slice"}

// a named value: its reflect.Value (of the named type), the canonical gv of the unnamed kind, a text
func (g *gen) namedValue() (reflect.Value, string, string, reflect.Type) {
	r := g.env.Rng
	switch r.Intn(9) {
	case 0:
		b := r.Intn(2) == 0
		return reflect.ValueOf(NB(b)), "(GVBool " + Cbool(b) + ")", fmt.Sprintf("NB(%v)", b), reflect.TypeOf(true)
	case 1:
		s := Pick(r, someStrings)
		return reflect.ValueOf(NS(s)), "(GVStr " + Cstr(s) + ")", fmt.Sprintf("NS(%q)", s), reflect.TypeOf("")
	}
	k := r.Intn(len(kinds))
	v := reflect.New(namedNum[k]).Elem()
	if kinds[k].flt {
		f := Pick(r, []float64{0, 1, -1, 0.5, 1e10, -2.5, math.MaxFloat32, -math.MaxFloat32, math.SmallestNonzeroFloat32, math.Inf(1), math.NaN(), 16777216, 9007199254740992})
		if k == kF64 && r.Intn(2) == 0 {
			f = Pick(r, floatB)
		}
		if k == kF32 {
			f = float64(float32(f))
		}
		v.SetFloat(f)
		return v, fmt.Sprintf("(GVF %s (decode %s))", kinds[k].coq, Cdouble(f)), fmt.Sprintf("%v(%s)", namedNum[k], JSNum(f)), kinds[k].rt
	}
	var b *big.Int
	switch r.Intn(5) {
	case 0:
		b = kinds[k].max
	case 1:
		b = kinds[k].min
	case 2:
		b = new(big.Int).Sub(kinds[k].max, big.NewInt(int64(r.Intn(3000))))
		if !fits(k, b) {
			b = kinds[k].max
		}
	case 3:
		b = Pick(r, intB)
		if !fits(k, b) {
			b = new(big.Int).Rsh(kinds[k].max, 1)
			b.Add(b, big.NewInt(1)) // the top bit of the width
		}
	default:
		b = big.NewInt(int64(r.Intn(100)))
	}
	if kinds[k].min.Sign() < 0 {
		v.SetInt(b.Int64())
	} else {
		v.SetUint(b.Uint64())
	}
	return v, fmt.Sprintf("(GVI %s %s)", kinds[k].coq, cbig(b)), fmt.Sprintf("%v(%s)", namedNum[k], b), kinds[k].rt
}

func (g *gen) namedCase(path int) {
	v, cq, txt, plain := g.namedValue()
	g.namedCaseWith(path, v, cq, txt, plain)
}

func (g *gen) namedCaseWith(path int, v reflect.Value, cq, txt string, plain reflect.Type) {
	T := v.Type()
	vm := otto.New()
	expr := "x"
	switch path {
	case 0:
		Must(vm.Set("x", v.Interface()))
	case 1:
		tv, err := otto.ToValue(v.Interface())
		Must(err)
		Must(vm.Set("x", tv))
	case 2:
		Must(vm.Set("f", reflect.MakeFunc(reflect.FuncOf(nil, []reflect.Type{T}, false), func([]reflect.Value) []reflect.Value { return []reflect.Value{v} }).Interface()))
		expr = "f()"
	case 3:
		Must(vm.Set("f", reflect.MakeFunc(reflect.FuncOf(nil, []reflect.Type{reflect.TypeOf(0), T}, false), func([]reflect.Value) []reflect.Value { return []reflect.Value{reflect.ValueOf(1), v} }).Interface()))
		expr = "f()[1]"
	case 4, 8:
		p := reflect.New(reflect.StructOf([]reflect.StructField{{Name: "F", Type: T}}))
		if path == 4 {
			p.Elem().Field(0).Set(v)
		}
		Must(vm.Set("o", p.Interface()))
		if path == 8 {
			RunJS(vm, "o.F")
			p.Elem().Field(0).Set(v)
		}
		expr = "o.F"
	case 5, 9:
		s := reflect.MakeSlice(reflect.SliceOf(T), 1, 1)
		if path == 5 {
			s.Index(0).Set(v)
		}
		Must(vm.Set("s", s.Interface()))
		if path == 9 {
			RunJS(vm, "s[0]")
			s.Index(0).Set(v)
		}
		expr = "s[0]"
	case 6:
		m := reflect.MakeMap(reflect.MapOf(reflect.TypeOf(""), T))
		m.SetMapIndex(reflect.ValueOf("k"), v)
		Must(vm.Set("m", m.Interface()))
		expr = "m.k"
	default:
		p := reflect.New(reflect.ArrayOf(1, T))
		p.Elem().Index(0).Set(v)
		Must(vm.Set("p", p.Interface()))
		expr = "p[0]"
	}
	o := RunJS(vm, "var y = "+expr+"; y")
	js, exported, back := "JoOther", "GVNil", "(CE (-1))"
	if o.Panic == nil && o.Err == nil {
		js = jobsOf(o.Val)
		func() {
			defer func() { _ = recover() }()
			e, _ := o.Val.Export()
			exported = canon(reflect.ValueOf(e))
		}()
		// and back into Go through a parameter of the plain kind
		var got []reflect.Value
		Must(vm.Set("g", makeFunc([]reflect.Type{plain}, false, &got)))
		b := RunJS(vm, "g(y)")
		switch {
		case b.Panic != nil || b.Err != nil:
			back = fmt.Sprintf("(CE %d)", ErrClass(b))
		case len(got) == 1:
			back = "(CV " + canon(got[0]) + ")"
		}
	}
	g.env.Add(fmt.Sprintf("CNamed %d %s %s %s %s", path, cq, js, exported, back),
		fmt.Sprintf("named v = %s via %s: %s, script sees %s, Export gives %s, g(y) with g func(%v) receives %s", txt, namedPaths[path], describe(o), js, exported, plain, back), "named", true)
}

// extreme values of the kinds whose conversion is easiest to get wrong, on every path, every run
func (g *gen) pinnedNamed() {
	top := new(big.Int).Add(pow2(63), big.NewInt(2048))
	for path := range namedPaths {
		g.namedCaseWith(path, reflect.ValueOf(NU64(top.Uint64())), "(GVI KU64 "+top.String()+")", "NU64(2^63+2048)", reflect.TypeOf(uint64(0)))
	}
	g.namedCaseWith(0, reflect.ValueOf(NU(math.MaxUint64)), "(GVI KU 18446744073709551615)", "NU(2^64-1)", reflect.TypeOf(uint(0)))
	g.namedCaseWith(2, reflect.ValueOf(NU32(math.MaxUint32)), "(GVI KU32 4294967295)", "NU32(2^32-1)", reflect.TypeOf(uint32(0)))
	g.namedCaseWith(4, reflect.ValueOf(NI8(-128)), "(GVI KI8 (-128))", "NI8(-128)", reflect.TypeOf(int8(0)))
	g.namedCaseWith(5, reflect.ValueOf(NI64(math.MinInt64)), "(GVI KI64 (-9223372036854775808))", "NI64(-2^63)", reflect.TypeOf(int64(0)))
}

// ---------- container parameters with exactly one unconvertible member among convertible ones ----------

func (g *gen) partialCase() {
	r := g.env.Rng
	k := r.Intn(len(kinds))
	et := &gty{rt: kinds[k].rt, coq: "(TNum " + kinds[k].coq + ")", kind: "num", nk: k}
	good := func() jsx {
		n := r.Intn(100)
		return jsx{fmt.Sprint(n), fmt.Sprintf("(JNum (KI64, %d))", n)}
	}
	bads := []jsx{jsString("x"), {"null", "JNull"}, {"undefined", "JUndef"}, {"true", "(JBool true)"}, {"({})", "(JObj [])"}, {"[1]", "(JArr [(Some (JNum (KI64, 1)))])"}}
	if !kinds[k].flt {
		bads = append(bads, jsx{"1.5", "(JNum (KF64, " + Cdouble(1.5) + "))"}, jsx{"1e30", "(JNum (KF64, " + Cdouble(1e30) + "))"}, jsx{"(-0.5)", "(JNum (KF64, " + Cdouble(-0.5) + "))"})
	} else if k == kF32 {
		bads = append(bads, jsx{"1e300", "(JNum (KF64, " + Cdouble(1e300) + "))"})
	}
	bad := Pick(r, bads)
	n := r.Intn(4) + 2
	pos := r.Intn(n)
	if r.Intn(8) == 0 {
		pos = -1 // all members convertible: the control
	}
	member := func(i int) jsx {
		if i == pos {
			return bad
		}
		return good()
	}
	keys := []string{"a", "b", "bee", "A", "B", "c"}
	r.Shuffle(len(keys), func(i, j int) { keys[i], keys[j] = keys[j], keys[i] })
	var in []reflect.Type
	var ctys, js, cq []string
	variadic := false
	switch r.Intn(5) {
	case 0: // map[string]T
		var pj, pc []string
		for i := 0; i < n; i++ {
			m := member(i)
			pj, pc = append(pj, keys[i]+": "+m.js), append(pc, fmt.Sprintf("(%d, %s)", nameID(keys[i]), m.coq))
		}
		in, ctys = []reflect.Type{reflect.MapOf(reflect.TypeOf(""), et.rt)}, []string{"(TMap " + et.coq + ")"}
		js, cq = []string{"({" + strings.Join(pj, ", ") + "})"}, []string{"(JObj " + Clist(pc) + ")"}
	case 1: // []T
		var pj, pc []string
		for i := 0; i < n; i++ {
			m := member(i)
			pj, pc = append(pj, m.js), append(pc, "(Some "+m.coq+")")
		}
		in, ctys = []reflect.Type{reflect.SliceOf(et.rt)}, []string{"(TSlice " + et.coq + ")"}
		js, cq = []string{"[" + strings.Join(pj, ",") + "]"}, []string{"(JArr " + Clist(pc) + ")"}
	case 2: // struct of n fields
		names := []string{"A", "B", "C", "D", "F"}
		var sf []reflect.StructField
		var ftab, ftys, pj, pc []string
		for i := 0; i < n; i++ {
			sf = append(sf, reflect.StructField{Name: names[i], Type: et.rt})
			ftab, ftys = append(ftab, fmt.Sprintf("mkF %d 0 true []", nameID(names[i]))), append(ftys, et.coq)
			m := member(i)
			pj, pc = append(pj, names[i]+": "+m.js), append(pc, fmt.Sprintf("(%d, %s)", nameID(names[i]), m.coq))
		}
		in, ctys = []reflect.Type{reflect.StructOf(sf)}, []string{fmt.Sprintf("(TStruct %s %s)", Clist(ftab), Clist(ftys))}
		js, cq = []string{"({" + strings.Join(pj, ", ") + "})"}, []string{"(JObj " + Clist(pc) + ")"}
	case 3: // variadic tail
		in, ctys, variadic = []reflect.Type{reflect.SliceOf(et.rt)}, []string{"(TSlice " + et.coq + ")"}, true
		for i := 0; i < n; i++ {
			m := member(i)
			js, cq = append(js, m.js), append(cq, m.coq)
		}
	default: // map of slices, the bad member one level down
		var pj, pc []string
		for i := 0; i < n; i++ {
			m := member(i)
			g1 := good()
			pj = append(pj, fmt.Sprintf("%s: [%s,%s]", keys[i], g1.js, m.js))
			pc = append(pc, fmt.Sprintf("(%d, (JArr [(Some %s); (Some %s)]))", nameID(keys[i]), g1.coq, m.coq))
		}
		in, ctys = []reflect.Type{reflect.MapOf(reflect.TypeOf(""), reflect.SliceOf(et.rt))}, []string{"(TMap (TSlice " + et.coq + "))"}
		js, cq = []string{"({" + strings.Join(pj, ", ") + "})"}, []string{"(JObj " + Clist(pc) + ")"}
	}
	g.runCall(in, ctys, variadic, js, cq, "partial")
}
