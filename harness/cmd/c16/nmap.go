package main

import (
	"fmt"
	"reflect"
	"strings"

	"github.com/robertkrimen/otto"
	. "ottoh/lib"
)

// ---------- named map types with methods ----------

// NMap has methods whose names can also be keys.
type NMap map[string]int

func (m NMap) Len() int { return len(m) }
func (m NMap) Get(k string) int { return m[k] }
func (m NMap) Sum() int {
	t := 0
	for _, v := range m {
		t += v
	}
	return t
}

// key ids: 0 k0, 1 k1, 2 Len, 3 Get, 4 Sum, 5 zz
var nmKeys = []string{"k0", "k1", "Len", "Get", "Sum", "zz"}

func nmMask(joined string) int64 {
	var m int64
	if joined == "" {
		return 0
	}
	for _, k := range strings.Split(joined, ",") {
		found := false
		for i, n := range nmKeys {
			if n == k {
				m += 1 << i
				found = true
			}
		}
		if !found {
			m += 1 << 20
		}
	}
	return m
}

func (g *gen) nmapHist(fixed []string) {
	r := g.env.Rng
	m := NMap{}
	var init []string
	for k := range nmKeys {
		if r.Intn(3) == 0 && fixed == nil {
			v := r.Intn(90) + 10
			m[nmKeys[k]] = v
			init = append(init, fmt.Sprintf("(%d, %d)", k, v))
		}
	}
	if fixed != nil {
		m["k0"] = 10
		init = []string{"(0, 10)"}
	}
	initTxt := fmt.Sprint(map[string]int(m))
	vm := otto.New()
	Must(vm.Set("m", m))
	n := r.Intn(8) + 3
	if fixed != nil {
		n = len(fixed)
	}
	var coqOps, obs, txt []string
	for j := 0; j < n; j++ {
		k := Pick(r, []int{0, 1, 2, 2, 2, 3, 4, 4, 5})
		kind := r.Intn(14)
		gv := r.Intn(90) + 100
		v := g.histValue()
		if fixed != nil {
			f := strings.Split(fixed[j], " ")
			kind = map[string]int{"get": 0, "set": 2, "has": 4, "del": 5, "keys": 6, "call": 7, "goset": 9, "goget": 8, "godel": 10, "sum": 11}[f[0]]
			if len(f) > 1 {
				for i, nme := range nmKeys {
					if nme == f[1] {
						k = i
					}
				}
			}
			v = jsval{"5", "(KI64, 5)"}
		}
		key := nmKeys[k]
		var js, cq, ob, line string
		assign := false
		switch kind {
		case 0, 1:
			js, cq = "m."+key, fmt.Sprintf("NM (MJGet %d)", k)
		case 2, 3:
			js, cq, assign = fmt.Sprintf("m.%s = %s", key, v.js), fmt.Sprintf("NM (MJSet %d %s)", k, v.coq), true
		case 4:
			js, cq = fmt.Sprintf("'%s' in m", key), fmt.Sprintf("NM (MJHas %d)", k)
		case 5:
			js, cq = "delete m."+key, fmt.Sprintf("NM (MJDel %d)", k)
		case 6:
			js, cq = "Object.keys(m).sort().join(',')", "NM MJKeyset"
		case 7:
			js, cq = "m.Len()", "NCallLen"
		case 8:
			cq, line = fmt.Sprintf("NM (MGGet %d)", k), "Go: read "+key
			if x, ok := m[key]; ok {
				ob = obNum(int64(x))
			} else {
				ob = obUndef
			}
		case 9:
			m[key] = gv
			cq, line, ob = fmt.Sprintf("NM (MGSet %d %d)", k, gv), fmt.Sprintf("Go: m[%s] = %d", key, gv), "(0, 0)"
		case 10:
			delete(m, key)
			cq, line, ob = fmt.Sprintf("NM (MGDel %d)", k), "Go: delete "+key, "(0, 0)"
		case 11:
			js, cq = "(function(){var t=0; for (var k in m) t += m[k]; return t})()", "NM MJSum"
		case 12:
			js, cq = "(function(){var a=[]; for (var k in m) a.push(k); return a.sort().join(',')})()", "NM MJForIn"
		default:
			cq, line, ob = "NM MGLen", "Go: len", obNum(int64(len(m)))
		}
		if js != "" {
			o := RunJS(vm, js)
			if (kind == 6 || kind == 12) && o.Panic == nil && o.Err == nil && o.Val.IsString() {
				sv, _ := o.Val.ToString()
				ob = obNum(nmMask(sv))
			} else {
				ob = obOfOutcome(o, assign)
			}
			line = js
			if o.Panic != nil {
				line += fmt.Sprintf(" [Go panic: %v]", o.Panic)
			}
		}
		coqOps = append(coqOps, cq)
		obs = append(obs, ob)
		txt = append(txt, line+" -> "+ob)
		if strings.HasPrefix(ob, "(2, 9)") {
			break
		}
	}
	g.env.Add(fmt.Sprintf("CNMap [2; 3; 4] 2 %s %s %s", Clist(init), Clist(coqOps), Clist(obs)),
		fmt.Sprintf("nmap type NMap map[string]int with methods Len, Get, Sum; m := NMap%s; vm.Set(\"m\", m): %s", initTxt, strings.Join(txt, "; ")), "nmap", true)
}

func (g *gen) pinnedNMap() {
	// an entry whose key spells a method name, created by Go and by the script; the method when there is none
	g.nmapHist([]string{"get Len", "call", "has Len", "goset Len", "get Len", "has Len", "call", "set Len", "get Len", "goget Len", "keys", "godel Len", "get Len", "call"})
	g.nmapHist([]string{"goset Sum", "get Sum", "set Sum", "goget Sum", "del Sum", "get Sum", "goget Sum", "sum"})
	g.nmapHist([]string{"goset Get", "get Get", "has Get", "keys", "del Get", "has Get", "get Get"})
	// finding 22: a script write under a method name that is not a key
	g.nmapHist([]string{"set Len", "goget Len", "get Len"})
}

// ---------- delete of an element, for every element type ----------

type delElemT struct {
	t   *gty
	old func() reflect.Value
}

func basicElemTypes() []delElemT {
	var out []delElemT
	for k := range kinds {
		k := k
		t := &gty{rt: kinds[k].rt, coq: "(TNum " + kinds[k].coq + ")", kind: "num", nk: k}
		out = append(out, delElemT{t, func() reflect.Value { return reflect.ValueOf(7).Convert(kinds[k].rt) }})
	}
	it := &gty{rt: kinds[0].rt, coq: "(TNum KI)", kind: "num", nk: 0}
	seven := 7
	out = append(out,
		delElemT{&gty{rt: reflect.TypeOf(""), coq: "TStr", kind: "str"}, func() reflect.Value { return reflect.ValueOf("old") }},
		delElemT{&gty{rt: reflect.TypeOf(true), coq: "TBool", kind: "bool"}, func() reflect.Value { return reflect.ValueOf(true) }},
		delElemT{&gty{rt: anyType, coq: "TAny", kind: "any"}, func() reflect.Value { return reflect.ValueOf("s") }},
		delElemT{&gty{rt: reflect.PtrTo(it.rt), coq: "(TPtr (TNum KI))", kind: "ptr", elem: it}, func() reflect.Value { return reflect.ValueOf(&seven) }},
		delElemT{&gty{rt: reflect.SliceOf(it.rt), coq: "(TSlice (TNum KI))", kind: "slice", elem: it}, func() reflect.Value { return reflect.ValueOf([]int{1}) }},
		delElemT{&gty{rt: reflect.MapOf(reflect.TypeOf(""), it.rt), coq: "(TMap (TNum KI))", kind: "map", elem: it}, func() reflect.Value { return reflect.ValueOf(map[string]int{"a": 1}) }},
		delElemT{gtyOfStruct(reflect.TypeOf(rsA{})), func() reflect.Value { return reflect.ValueOf(rsA{7}) }})
	return out
}

var delConts = []string{"[]T", "*[2]T", "[2]T by value"}

func (g *gen) delElemCase(cont int, e delElemT, idx int) {
	T := e.t.rt
	vm := otto.New()
	var elem func(i int) reflect.Value
	n := 2
	switch cont {
	case 0:
		s := reflect.MakeSlice(reflect.SliceOf(T), n, n)
		elem = func(i int) reflect.Value { return s.Index(i) }
		for i := 0; i < n; i++ {
			s.Index(i).Set(e.old())
		}
		Must(vm.Set("c", s.Interface()))
	case 1:
		p := reflect.New(reflect.ArrayOf(n, T))
		elem = func(i int) reflect.Value { return p.Elem().Index(i) }
		for i := 0; i < n; i++ {
			p.Elem().Index(i).Set(e.old())
		}
		Must(vm.Set("c", p.Interface()))
	default:
		p := reflect.New(reflect.ArrayOf(n, T))
		elem = func(i int) reflect.Value { return p.Elem().Index(i) }
		for i := 0; i < n; i++ {
			p.Elem().Index(i).Set(e.old())
		}
		Must(vm.Set("c", p.Elem().Interface()))
	}
	old := canon(e.old())
	src := fmt.Sprintf("delete c[%d]", idx)
	o := RunJS(vm, src)
	res := int64(-1)
	if o.Panic == nil && o.Err == nil && o.Val.IsBoolean() {
		if b, _ := o.Val.ToBoolean(); b {
			res = 1
		} else {
			res = 0
		}
	} else if o.Panic != nil {
		res = -9
	}
	after := old
	if idx < n {
		after = canon(elem(idx))
	}
	js := "JoOther"
	if rd := RunJS(vm, fmt.Sprintf("c[%d]", idx)); rd.Panic == nil && rd.Err == nil {
		js = jobsOf(rd.Val)
	}
	g.env.Add(fmt.Sprintf("CDelElem %d %s %s %s %s %s %s", cont, e.t.coq, Cbool(idx < n), old, Cz(res), after, js),
		fmt.Sprintf("delelem c is %s with T = %v, both elements %s: %s : %s -> %d, Go sees c[%d] as %s, the script reads %s", delConts[cont], T, old, src, describe(o), res, idx, after, js), "delelem", true)
}

// every element type x every container, in range and out of range: runs on every seed
func (g *gen) sweepDelElem() {
	for _, e := range basicElemTypes() {
		for cont := range delConts {
			g.delElemCase(cont, e, g.env.Rng.Intn(2))
		}
		g.delElemCase(g.env.Rng.Intn(2), e, 2+g.env.Rng.Intn(3))
	}
}
