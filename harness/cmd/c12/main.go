// c12: correspondence cases for property C12 (dates).
package main

import (
	"fmt"
	"math"
	"strconv"
	"strings"
	"time"

	"github.com/robertkrimen/otto"
	. "ottoh/lib"
)

func main() {
	env := FromFlags("c12")
	runC12(env)
	env.Finish()
}

const maxTime = 8640000000000000

var c12Setters = []struct {
	name string
	max  int
}{
	{"setUTCMilliseconds", 1}, {"setUTCSeconds", 2}, {"setUTCMinutes", 3}, {"setUTCHours", 4},
	{"setUTCDate", 1}, {"setUTCMonth", 2}, {"setUTCFullYear", 3}, {"setTime", 1},
}

// parse "a,b,c" of JS numbers into option-Z Coq terms (NaN -> None)
func optZList(s string) []string {
	parts := strings.Split(s, ",")
	out := make([]string, len(parts))
	for i, p := range parts {
		out[i] = optZ(p)
	}
	return out
}

func optZ(p string) string {
	f, err := strconv.ParseFloat(strings.TrimSpace(p), 64)
	if err != nil || math.IsNaN(f) || math.IsInf(f, 0) || f != math.Trunc(f) || math.Abs(f) > 1e18 {
		if err == nil && !math.IsNaN(f) {
			return "(Some 999999999999999999999)" // not an integer in range: can never equal a model value
		}
		return "None"
	}
	return "(Some " + Cz(int64(f)) + ")"
}

func (g *c12gen) timeValue() int64 {
	r := g.env.Rng
	switch r.Intn(10) {
	case 0: // uniform over the whole ES5 range
		return r.Int63n(2*maxTime+1) - maxTime
	case 1: // range ends
		return Pick(r, []int64{maxTime, -maxTime, maxTime - 1, -maxTime + 1, 0, -1, 1, 999, -999, 1000, -1000})
	case 2, 3: // around a year boundary
		y := int64(r.Intn(6000) - 3000 + 1970)
		if r.Intn(3) == 0 {
			y = int64(r.Intn(540000) - 270000)
		}
		t := time.Date(int(y), 1, 1, 0, 0, 0, 0, time.UTC).UnixMilli()
		return clampT(t + int64(r.Intn(5)-2)*Pick(r, []int64{1, 1000, 86400000}) + int64(r.Intn(3)-1))
	case 4, 5: // around a month / leap-day boundary
		y := int64(r.Intn(1200) + 1300)
		if r.Intn(2) == 0 {
			y = y / 4 * 4
		}
		m := r.Intn(12) + 1
		if r.Intn(2) == 0 {
			m = 3
		}
		t := time.Date(int(y), time.Month(m), 1, 0, 0, 0, 0, time.UTC).UnixMilli()
		return clampT(t + int64(r.Intn(5)-2)*Pick(r, []int64{1, 86400000}))
	case 6: // 400/100-year boundaries and negative years
		y := int64(r.Intn(60)-30) * 100
		t := time.Date(int(y), time.Month(r.Intn(3)+1), 28, 23, 59, 59, 999000000, time.UTC).UnixMilli()
		return clampT(t + int64(r.Intn(3))*86400000 + int64(r.Intn(3)))
	default: // modern times
		return r.Int63n(4e12) - 2e12
	}
}

func clampT(t int64) int64 {
	if t > maxTime {
		return maxTime
	}
	if t < -maxTime {
		return -maxTime
	}
	return t
}

type c12gen struct {
	env *Env
	vm  *otto.Otto
}

func (g *c12gen) js(src string) string {
	o := RunJS(g.vm, src)
	if o.Panic != nil {
		return fmt.Sprintf("!panic %v", o.Panic)
	}
	if o.Err != nil {
		return "!err " + o.Err.Error()
	}
	return o.Val.String()
}

// argument spellings whose ToNumber is known: an explicit undefined is NaN (not "omitted"), null is +0,
// booleans, numeric strings, fractions (ToInteger truncates towards zero), objects with valueOf
func (g *c12gen) oddField() (string, string) {
	r := g.env.Rng
	switch r.Intn(9) {
	case 0:
		return "undefined", "None"
	case 1:
		return "null", "(Some 0)"
	case 2:
		return "true", "(Some 1)"
	case 3:
		return "false", "(Some 0)"
	case 4:
		v := int64(r.Intn(61) - 20)
		return fmt.Sprintf("\"%d\"", v), "(Some " + Cz(v) + ")"
	case 5:
		v := int64(r.Intn(61) - 20)
		frac := []string{".5", ".999", ".25"}[r.Intn(3)]
		if v < 0 {
			return fmt.Sprintf("(%d%s)", v, frac), "(Some " + Cz(v) + ")"
		}
		return fmt.Sprintf("%d%s", v, frac), "(Some " + Cz(v) + ")"
	case 6:
		v := int64(r.Intn(61) - 20)
		return fmt.Sprintf("({valueOf: function () { return %d; }})", v), "(Some " + Cz(v) + ")"
	case 7:
		return "\"x\"", "None"
	default:
		return "void 0", "None"
	}
}

func (g *c12gen) field() (string, string) { // (js text, coq option Z)
	r := g.env.Rng
	if r.Intn(9) == 0 {
		g.env.Dist["odd-argument"]++
		return g.oddField()
	}
	switch r.Intn(12) {
	case 0:
		return "NaN", "None"
	case 1:
		if r.Intn(2) == 0 {
			return "Infinity", "None"
		}
		return "(-Infinity)", "None"
	case 2, 3:
		v := int64(r.Intn(2000001) - 1000000)
		return JSNum(float64(v)), "(Some " + Cz(v) + ")"
	default:
		v := int64(r.Intn(141) - 40)
		return JSNum(float64(v)), "(Some " + Cz(v) + ")"
	}
}

func (g *c12gen) year() (string, string) {
	r := g.env.Rng
	var v int64
	switch r.Intn(8) {
	case 0:
		v = int64(r.Intn(100)) // two-digit rule
	case 1:
		v = int64(r.Intn(2000001) - 1000000)
	case 2:
		v = int64(r.Intn(600000) - 300000)
	case 3:
		return "NaN", "None"
	default:
		v = int64(r.Intn(3000) + 100)
	}
	return JSNum(float64(v)), "(Some " + Cz(v) + ")"
}

// ---- round-6 families: arguments in thousandths, setter histories with local-time setters in a constant-offset zone ----

// one argument: its JavaScript text and its value in thousandths as a Coq option Z (None = NaN / infinite / not a number)
type qarg struct{ js, cq string }

func cqMilli(m int64) string { return "(Some " + Cz(m) + ")" }

// decimal text of m/1000 (exact), negative values parenthesised
func milliText(m int64) string {
	neg := m < 0
	if neg {
		m = -m
	}
	s := fmt.Sprintf("%d", m/1000)
	if m%1000 != 0 {
		s += strings.TrimRight(fmt.Sprintf(".%03d", m%1000), "0")
	}
	if neg {
		return "(-" + s + ")"
	}
	return s
}

// spelling 0: number, 1: numeric string, 2: object with valueOf, 3: object with toString only
func qMilli(m int64, spelling int) qarg {
	t := milliText(m)
	switch spelling % 4 {
	case 1:
		return qarg{"\"" + strings.Trim(t, "()") + "\"", cqMilli(m)}
	case 2:
		return qarg{"({valueOf: function () { return " + t + "; }})", cqMilli(m)}
	case 3:
		return qarg{"({toString: function () { return \"" + strings.Trim(t, "()") + "\"; }})", cqMilli(m)}
	}
	return qarg{t, cqMilli(m)}
}
func qInt(v int64) qarg {
	if v > 9e15 || v < -9e15 {
		panic("qInt: out of range")
	}
	return qarg{JSNum(float64(v)), cqMilli(v * 1000)}
}

// arguments that do not convert to a finite number, and two that do (null, a finite surplus)
var c12NonNumbers = []qarg{{"NaN", "None"}, {"undefined", "None"}, {"void 0", "None"}, {"Infinity", "None"}, {"(-Infinity)", "None"},
	{"\"x\"", "None"}, {"({})", "None"}, {"({valueOf: function () { return NaN; }})", "None"}, {"(function () {})", "None"}, {"[1,2]", "None"}}

var c12LocalSetters = map[int]string{10: "setMilliseconds", 11: "setSeconds", 12: "setMinutes", 13: "setHours", 14: "setDate", 15: "setMonth", 16: "setFullYear"}

func c12SetterName(id int) string {
	if id >= 10 {
		return c12LocalSetters[id]
	}
	return c12Setters[id].name
}
func c12Arity(id int) int { return c12Setters[id%10].max }

type c12zone struct {
	loc *time.Location
	off int64 // ms
}

var c12Zones = []c12zone{{time.UTC, 0}, {time.FixedZone("LMT", -(4*3600 + 56*60 + 2)), -(4*3600 + 56*60 + 2) * 1000},
	{time.FixedZone("IST", 5*3600+30*60), (5*3600 + 30*60) * 1000}, {time.FixedZone("X", 13*3600+45*60+7), (13*3600 + 45*60 + 7) * 1000}}

type hop struct {
	id   int
	args []qarg
	form int // 0 d.f(a..), 1 d.f.apply(d,[a..]), 2 d.f.call(d,a..), 3 Date.prototype.f.apply(d,[a..])
}

const c12GetJS = `[d.getTime(), d.getUTCFullYear(), d.getUTCMonth(), d.getUTCDate(), d.getUTCDay(), d.getUTCHours(), d.getUTCMinutes(), d.getUTCSeconds(), d.getUTCMilliseconds(), d.valueOf(), d.getFullYear(), d.getMonth(), d.getDate(), d.getDay(), d.getHours(), d.getMinutes(), d.getSeconds(), d.getMilliseconds()].join(",")`

// hist runs "var d = <start>" and the setter calls in the zone z and records result + getTime() after each call, then every
// getter, toISOString and toJSON of the final state
func (g *c12gen) hist(bucket string, z c12zone, startJS, startCq string, ops []hop) {
	var src strings.Builder
	fmt.Fprintf(&src, "var d = %s; var out = [];", startJS)
	cops := make([]string, len(ops))
	for k, o := range ops {
		js, cq := make([]string, len(o.args)), make([]string, len(o.args))
		for i, a := range o.args {
			js[i], cq[i] = a.js, a.cq
		}
		name := c12SetterName(o.id)
		var call string
		switch o.form % 4 {
		case 1:
			call = fmt.Sprintf("d.%s.apply(d, [%s])", name, strings.Join(js, ","))
		case 2:
			call = fmt.Sprintf("d.%s.call(%s)", name, strings.Join(append([]string{"d"}, js...), ","))
		case 3:
			call = fmt.Sprintf("Date.prototype.%s.apply(d, [%s])", name, strings.Join(js, ","))
		default:
			call = fmt.Sprintf("d.%s(%s)", name, strings.Join(js, ","))
		}
		fmt.Fprintf(&src, "out.push(%s); out.push(d.getTime());", call)
		cops[k] = fmt.Sprintf("(%d, %s)", o.id, Clist(cq))
	}
	fmt.Fprintf(&src, ` var ok = d.getTime() === d.getTime(); [out.join(","), %s, ok ? d.toISOString() : "", ok ? String(d.toJSON()) : (d.toJSON() === null ? "" : "toJSON of an invalid Date is not null")].join("|")`, c12GetJS)
	old := time.Local
	time.Local = z.loc
	obs := g.js(src.String())
	time.Local = old
	parts := strings.Split(obs, "|")
	outs, fin, iso := []string{}, []string{"None"}, obs
	if len(parts) == 4 {
		if parts[0] != "" {
			outs = optZList(parts[0])
		}
		fin = optZList(parts[1])
		iso = parts[2]
		if parts[3] != parts[2] {
			iso += " toJSON=" + parts[3]
		}
	}
	g.env.Add(fmt.Sprintf("CHist %s %s %s %s %s %s", Cz(z.off), startCq, Clist(cops), Clist(outs), Clist(fin), Cstr(iso)),
		fmt.Sprintf("%s: [zone offset %d ms] %s -> %s", bucket, z.off, src.String(), obs), bucket, true)
}

// histAll is hist with every observer (getTime, the UTC and local accessors, valueOf, toISOString, toJSON, JSON.stringify,
// Date.parse of the ISO text) called on the one Date object before the first setter and again after every setter
func (g *c12gen) histAll(bucket string, z c12zone, startJS, startCq string, ops []hop) {
	var src strings.Builder
	fmt.Fprintf(&src, `var d = %s; var S = []; function ob(v) { var ok = d.getTime() === d.getTime(); var iso = ok ? d.toISOString() : ""; var js = ok ? String(d.toJSON()) : (d.toJSON() === null ? "" : "not null"); var st = JSON.stringify(d); var stx = ok ? '"' + iso + '"' : "null"; S.push([v, %s, iso + (js === iso ? "" : " toJSON=" + js) + (st === stx ? "" : " stringify=" + st), ok ? Date.parse(iso) : NaN].join("|")); } ob(d.getTime());`, startJS, c12GetJS)
	cops := make([]string, len(ops))
	for k, o := range ops {
		js, cq := make([]string, len(o.args)), make([]string, len(o.args))
		for i, a := range o.args {
			js[i], cq[i] = a.js, a.cq
		}
		name := c12SetterName(o.id)
		var call string
		switch o.form % 4 {
		case 1:
			call = fmt.Sprintf("d.%s.apply(d, [%s])", name, strings.Join(js, ","))
		case 2:
			call = fmt.Sprintf("d.%s.call(%s)", name, strings.Join(append([]string{"d"}, js...), ","))
		case 3:
			call = fmt.Sprintf("Date.prototype.%s.apply(d, [%s])", name, strings.Join(js, ","))
		default:
			call = fmt.Sprintf("d.%s(%s)", name, strings.Join(js, ","))
		}
		fmt.Fprintf(&src, " ob(%s);", call)
		cops[k] = fmt.Sprintf("(%d, %s)", o.id, Clist(cq))
	}
	src.WriteString(` S.join("#")`)
	old := time.Local
	time.Local = z.loc
	obs := g.js(src.String())
	time.Local = old
	var steps []string
	for _, st := range strings.Split(obs, "#") {
		parts := strings.Split(st, "|")
		if len(parts) != 4 {
			steps = append(steps, fmt.Sprintf("(None, [], %s, None)", Cstr(st)))
			continue
		}
		steps = append(steps, fmt.Sprintf("(%s, %s, %s, %s)", optZ(parts[0]), Clist(optZList(parts[1])), Cstr(parts[2]), optZ(parts[3])))
	}
	g.env.Add(fmt.Sprintf("CHistAll %s %s %s %s", Cz(z.off), startCq, Clist(cops), Clist(steps)),
		fmt.Sprintf("%s: [zone offset %d ms] %s -> %s", bucket, z.off, src.String(), obs), bucket, true)
}

func (g *c12gen) utcq(bucket string, ctor bool, args []qarg) {
	js, cq := make([]string, len(args)), make([]string, len(args))
	for i, a := range args {
		js[i], cq[i] = a.js, a.cq
	}
	which, tag := "Date.UTC("+strings.Join(js, ",")+")", "0"
	if ctor {
		which, tag = "new Date("+strings.Join(js, ",")+").getTime()", "1"
	}
	old := time.Local
	time.Local = time.UTC
	obs := g.js(which)
	time.Local = old
	g.env.Add(fmt.Sprintf("CUtcQ %s %s %s", tag, Clist(cq), optZ(obs)), fmt.Sprintf("%s: %s -> %s", bucket, which, obs), bucket, true)
}

// the parameters of setter id (0..6 / 10..16) read off the civil time tm: e.g. id 3 -> hour, minute, second, ms
func c12Params(id int, tm time.Time) []int64 {
	y, mo, dd := int64(tm.Year()), int64(tm.Month())-1, int64(tm.Day())
	h, mi, sc, ms := int64(tm.Hour()), int64(tm.Minute()), int64(tm.Second()), int64(tm.Nanosecond()/1000000)
	switch id % 10 {
	case 0:
		return []int64{ms}
	case 1:
		return []int64{sc, ms}
	case 2:
		return []int64{mi, sc, ms}
	case 3:
		return []int64{h, mi, sc, ms}
	case 4:
		return []int64{dd}
	case 5:
		return []int64{mo, dd}
	}
	return []int64{y, mo, dd}
}

// a base instant that differs from the target in exactly the first n parameters of setter id (civil time in loc), so that
// the setter called with the target's own field values lands exactly on the target; ok = false when the altered
// month would not hold the target's day of the month
func c12BaseFor(id, n int, target int64, loc *time.Location) (int64, bool) {
	tm := time.UnixMilli(target).In(loc)
	y, mo, dd := tm.Year(), int(tm.Month()), tm.Day()
	h, mi, sc, ms := tm.Hour(), tm.Minute(), tm.Second(), tm.Nanosecond()/1000000
	alter := func(k int) {
		switch k {
		case 0:
			ms = (ms + 500) % 1000
		case 1:
			sc = (sc + 30) % 60
		case 2:
			mi = (mi + 30) % 60
		case 3:
			h = (h + 12) % 24
		case 4:
			dd = (dd+13)%28 + 1
		case 5:
			mo = (mo+5)%12 + 1
		case 6:
			y += 400
		}
	}
	order := map[int][]int{0: {0}, 1: {1, 0}, 2: {2, 1, 0}, 3: {3, 2, 1, 0}, 4: {4}, 5: {5, 4}, 6: {6, 5, 4}}[id%10]
	monthAltered, dayAltered := false, false
	for k := 0; k < n && k < len(order); k++ {
		alter(order[k])
		monthAltered = monthAltered || order[k] == 5
		dayAltered = dayAltered || order[k] == 4
	}
	if monthAltered && !dayAltered && dd > 28 {
		return 0, false
	}
	return time.Date(y, time.Month(mo), dd, h, mi, sc, ms*1000000, loc).UnixMilli(), true
}

func c12ISO(t int64) string { return time.UnixMilli(t).UTC().Format("2006-01-02T15:04:05.000Z") }

const c12GoZero = -62135596800000 // 0001-01-01T00:00:00.000Z, the instant of Go's zero time.Time

func (g *c12gen) pinnedFamilies() {
	env := g.env
	thorough := env.Tier == "thorough"
	rot := int(env.Seed % 3)
	if rot < 0 {
		rot += 3
	}
	utcZ := c12Zones[0]
	// F1: instants that coincide with a sentinel of the representation (Go's zero time.Time, the epoch -1 kept in an
	// invalid dateObject, Unix 0) and their neighbours, through every route that produces a Date
	sentinels := []int64{c12GoZero - 1, c12GoZero, c12GoZero + 1, -1, 0, 1}
	k := 0
	for _, s := range sentinels {
		cs := "(Some " + Cz(s) + ")"
		iso := c12ISO(s)
		tm := time.UnixMilli(s).UTC()
		// month-overflow route of Date.UTC / the constructor (a year below 100 cannot be written directly)
		fl := []int64{int64(tm.Year()) + 2000, int64(tm.Month()) - 1 - 24000, int64(tm.Day()), int64(tm.Hour()), int64(tm.Minute()), int64(tm.Second()), int64(tm.Nanosecond() / 1000000)}
		fjs := make([]string, 7)
		fq := make([]qarg, 7)
		for i, v := range fl {
			fjs[i], fq[i] = JSNum(float64(v)), qInt(v)
		}
		for _, start := range []string{
			fmt.Sprintf("new Date(%s)", JSNum(float64(s))),
			fmt.Sprintf("new Date(%s)", JSStr(Units(iso))),
			fmt.Sprintf("new Date(Date.parse(%s))", JSStr(Units(iso))),
			fmt.Sprintf("new Date(Date.UTC(%s))", strings.Join(fjs, ",")),
			fmt.Sprintf("new Date(%s)", strings.Join(fjs, ",")),
			fmt.Sprintf("(function () { var d = new Date(0); d.setTime(%s); return d; })()", JSNum(float64(s))),
			fmt.Sprintf("(function () { var d = new Date(NaN); d.setTime(%s); return d; })()", JSNum(float64(s))),
			fmt.Sprintf("new Date(new Date(%s).valueOf())", JSNum(float64(s))),
		} {
			g.hist("sentinel-route", utcZ, start, cs, nil)
		}
		g.utcq("sentinel-utc", false, fq)
		g.utcq("sentinel-utc", true, fq)
		for _, e := range []string{"Date.parse(%s)", "new Date(%s).getTime()", "new Date(%s).valueOf()"} {
			src := fmt.Sprintf(e, JSStr(Units(iso)))
			obs := g.js(src)
			env.Add(fmt.Sprintf("CParse %s %s", Cstr(iso), optZ(obs)), fmt.Sprintf("sentinel-parse: %s -> %s", src, obs), "sentinel-parse", true)
		}
		{
			t := s
			isoObs := g.js(fmt.Sprintf("var d = new Date(%s); d.toISOString()", JSNum(float64(t))))
			back := g.js(fmt.Sprintf("Date.parse(%s)", JSStr(Units(isoObs))))
			json := g.js(fmt.Sprintf("new Date(%s).toJSON()", JSNum(float64(t))))
			same := "false"
			if json == isoObs {
				same = "true"
			}
			env.Add(fmt.Sprintf("CIso %s %s %s %s", Cz(t), Cstr(isoObs), optZ(back), same), fmt.Sprintf("sentinel-iso: new Date(%d).toISOString() -> %s ; Date.parse -> %s ; toJSON same=%s", t, isoObs, back, same), "sentinel-iso", true)
		}
		// setTime onto the instant from a valid, an invalid and the same Date
		for _, from := range [][2]string{{"0", "(Some 0)"}, {"NaN", "None"}, {JSNum(float64(s)), cs}} {
			g.hist("sentinel-settime", utcZ, "new Date("+from[0]+")", from[1], []hop{{7, []qarg{qInt(s)}, k}})
			k++
		}
		// every setter, with every argument count, called so that MakeDate lands exactly on the instant: the UTC setters,
		// the local setters under UTC and the local setters in a zone with a non-zero offset
		for id := 0; id <= 16; id++ {
			if id >= 7 && id < 10 {
				continue
			}
			for n := 1; n <= c12Arity(id); n++ {
				var zs []c12zone
				switch {
				case id < 10:
					zs = []c12zone{utcZ, c12Zones[1+(k+rot)%3]}
				case thorough:
					zs = c12Zones
				default:
					zs = []c12zone{utcZ, c12Zones[1+(k+rot)%3]}
				}
				for _, z := range zs {
					loc := z.loc
					if id < 10 {
						loc = time.UTC
					}
					base, ok := c12BaseFor(id, n, s, loc)
					if !ok {
						continue
					}
					ps := c12Params(id, time.UnixMilli(s).In(loc))[:n]
					args := make([]qarg, n)
					for i, v := range ps {
						args[i] = qInt(v)
					}
					g.hist("sentinel-setter", z, fmt.Sprintf("new Date(%s)", JSNum(float64(base))), "(Some "+Cz(base)+")", []hop{{id, args, k}})
					k++
				}
			}
		}
		// carried into the instant by overflow of the last field
		g.hist("sentinel-setter", utcZ, fmt.Sprintf("new Date(%s)", JSNum(float64(s-1))), "(Some "+Cz(s-1)+")", []hop{{0, []qarg{qInt(int64(time.UnixMilli(s-1).UTC().Nanosecond()/1000000) + 1)}, 0}})
		g.hist("sentinel-setter", utcZ, fmt.Sprintf("new Date(%s)", JSNum(float64(s+1))), "(Some "+Cz(s+1)+")", []hop{{0, []qarg{qInt(int64(time.UnixMilli(s+1).UTC().Nanosecond()/1000000) - 1)}, 0}})
		g.hist("sentinel-setter", utcZ, fmt.Sprintf("new Date(%s)", JSNum(float64(s+86400000))), "(Some "+Cz(s+86400000)+")", []hop{{4, []qarg{qInt(int64(time.UnixMilli(s+86400000).UTC().Day()) - 1)}, 1}})
	}

	// F2: ToInteger is applied to every field itself (15.9.1.11 MakeTime, 15.9.1.12 MakeDay, 15.9.4.3): each position of
	// Date.UTC / the constructor with a non-integral value of either sign, in every spelling
	tuples := [][]int64{{2000, 0, 1, 0, 0, 0, 0}, {1970, 0, 1, 0, 0, 0, 0}, {1969, 11, 31, 23, 59, 59, 999}, {2024, 1, 29, 12, 30, 30, 500}}
	fracs := []int64{-500, -1500, -250, -999, -1, 500, 1999, 59999, -1000500, 999999500}
	yfracs := []int64{99500, -500, 500, 99999, -999, 100500, 1999500, -1500, 50250, 99001}
	k = 0
	for ti, tp := range tuples {
		for pos := 0; pos < 7; pos++ {
			vals := fracs
			if pos == 0 {
				vals = yfracs
			}
			for _, v := range vals {
				k++
				n := 7
				if pos >= 1 && k%4 == 0 {
					n = pos + 1 // the fractional field is the last one passed
				}
				if n < 2 {
					n = 2
				}
				args := make([]qarg, n)
				for i := 0; i < n; i++ {
					args[i] = qInt(tp[i])
				}
				args[pos] = qMilli(v, k/3)
				g.utcq("utc-fraction", (k+ti)%2 == 0, args)
			}
		}
	}
	for _, all := range [][]int64{{2000900, 900, 1900, -900, -900, -900, -900}, {1999100, -100, 1500, 23999, 59999, 59999, 999999}, {-900, -900, -900, -900, -900, -900, -900}, {99900, 11900, 31900, 23900, 59900, 59900, 999900}} {
		for sp := 0; sp < 3; sp++ {
			args := make([]qarg, 7)
			for i, v := range all {
				args[i] = qMilli(v, sp)
			}
			g.utcq("utc-fraction", sp == 1, args)
		}
	}

	// F3: fractional arguments of the setters (separate code path: number().int64), and arguments BEYOND a setter's
	// parameter list (15.9.5.28-41 read only the declared parameters: a surplus NaN / undefined / Infinity / object is
	// ignored), through a direct call, apply and call; contrasted with the same value in the last declared position
	k = 0
	for id := 0; id <= 16; id++ {
		if id >= 8 && id < 10 {
			continue
		}
		ar := c12Arity(id)
		small := func(i int) qarg { return qInt(int64(3 + 2*i + id%5)) }
		for bi, base := range []int64{0, 951782400000 + 3723004} {
			bjs, bcq := fmt.Sprintf("new Date(%s)", JSNum(float64(base))), "(Some "+Cz(base)+")"
			// fractions: all positions negative fractions; each single position -0.5
			fa := make([]qarg, ar)
			for i := range fa {
				fa[i] = qMilli(-int64(1500+1000*i+250*bi), k+i)
			}
			g.hist("setter-fraction", utcZ, bjs, bcq, []hop{{id, fa, 0}})
			for pos := 0; pos < ar; pos++ {
				a := make([]qarg, ar)
				for i := range a {
					a[i] = small(i)
				}
				a[pos] = qMilli([]int64{-500, -999, 1500, -1250}[(k+pos)%4], k)
				g.hist("setter-fraction", utcZ, bjs, bcq, []hop{{id, a, k}})
				k++
			}
			// surplus arguments
			for si, sv := range c12NonNumbers {
				if !thorough && id != 7 && (si+id+bi)%2 == 0 && si >= 5 {
					continue
				}
				a := make([]qarg, ar, ar+2)
				for i := range a {
					a[i] = small(i)
				}
				a = append(a, sv)
				if (si+k)%3 == 0 {
					a = append(a, c12NonNumbers[(si+3)%len(c12NonNumbers)])
				}
				g.hist("setter-surplus", utcZ, bjs, bcq, []hop{{id, a, k}})
				k++
			}
			g.hist("setter-surplus", utcZ, bjs, bcq, []hop{{id, append(func() []qarg {
				a := make([]qarg, ar)
				for i := range a {
					a[i] = small(i)
				}
				return a
			}(), qInt(5), qarg{"null", "(Some 0)"}), k}})
			// the same values in a declared position invalidate the Date
			if bi == 0 {
				for _, sv := range c12NonNumbers[:4] {
					a := make([]qarg, ar)
					for i := range a {
						a[i] = small(i)
					}
					a[ar-1] = sv
					g.hist("setter-nan-field", utcZ, bjs, bcq, []hop{{id, a, k}})
					k++
				}
			}
		}
		// conversions counted: the surplus is never converted; nsur = 0: the first argument is NaN and the declared rest
		// must still be converted (pinned witness family of finding C12-args-not-converted)
		for _, nsur := range []int{0, 1, 2} {
			if nsur == 0 && ar < 2 {
				continue
			}
			a := make([]string, ar+nsur)
			cq := make([]string, ar+nsur)
			for i := range a {
				v := "7"
				cq[i] = "(Some 7)"
				if i >= ar && nsur == 2 || i == 0 && nsur == 0 {
					v, cq[i] = "NaN", "None"
				}
				a[i] = fmt.Sprintf("({valueOf: function () { cnt++; return %s; }})", v)
			}
			src := fmt.Sprintf("var d = new Date(0); var cnt = 0; d.%s(%s); cnt", c12SetterName(id), strings.Join(a, ","))
			obs := g.js(src)
			n, _ := strconv.ParseInt(obs, 10, 64)
			if _, err := strconv.ParseInt(obs, 10, 64); err != nil {
				n = -1
			}
			env.Add(fmt.Sprintf("CConvS %d (Some 0) %s %s", id, Clist(cq), Cz(n)), fmt.Sprintf("conversions-surplus: %s -> %s", src, obs), "set-conversions", true)
		}
	}

	// F4: the time value is one instant whatever the host zone: a local-time setter in a zone with a non-zero offset,
	// then every UTC accessor / toISOString / toJSON and a following setUTC* must describe the same instant
	k = 0
	for zi := 1; zi < len(c12Zones); zi++ {
		z := c12Zones[zi]
		for id := 10; id <= 16; id++ {
			for n := 1; n <= c12Arity(id); n++ {
				k++
				if !thorough && k%2 == int(env.Seed&1) && n > 1 {
					continue
				}
				base := []int64{946684800000, 951782400000 + 3723004, c12GoZero + 3600000, -1}[k%4]
				tm := time.UnixMilli(base).In(z.loc)
				ps := c12Params(id, tm)[:n]
				args := make([]qarg, n)
				for i, v := range ps {
					args[i] = qInt(v + int64(1+i)) // move every set field by a little
				}
				g.hist("local-then-utc", z, fmt.Sprintf("new Date(%s)", JSNum(float64(base))), "(Some "+Cz(base)+")",
					[]hop{{id, args, k}, {2, []qarg{qInt(15)}, 0}, {id, args[:1], k + 1}, {[]int{0, 1, 3, 4, 5, 6}[k%6], []qarg{qInt(int64(k % 12))}, 0}})
			}
		}
	}
	// a result beyond 2^53 is the double nearest to it, and the next call composes from that double
	for _, c := range []struct {
		base int64
		ops  []hop
	}{
		{-24291273599, []hop{{6, []qarg{qInt(328166)}, 0}, {6, []qarg{qInt(3070), qInt(7)}, 0}}},
		{1, []hop{{6, []qarg{qInt(300001)}, 0}, {6, []qarg{qInt(2001)}, 0}, {0, []qarg{qInt(7)}, 0}}},
		{-1, []hop{{16, []qarg{qInt(-300001)}, 0}, {16, []qarg{qInt(1999), qInt(0), qInt(1)}, 0}}},
		{86399999, []hop{{5, []qarg{qInt(3600003 * 12)}, 0}, {6, []qarg{qInt(1970), qInt(0)}, 0}}},
	} {
		g.hist("beyond-2^53-then-back", utcZ, fmt.Sprintf("new Date(%s)", JSNum(float64(c.base))), "(Some "+Cz(c.base)+")", c.ops)
	}

	// F5: no observer may remember anything across a mutator: on ONE Date object every observer is called, then a setter,
	// then every observer again, for every ordered pair of mutators (the 7 setUTC*, setTime, the 7 local setters),
	// from valid, sentinel and invalid starts; setTime has its own code path (no builtinDateBeforeSet)
	{
		ids := []int{0, 1, 2, 3, 4, 5, 6, 7, 10, 11, 12, 13, 14, 15, 16}
		starts := []int64{0, 951782400000 + 3723004, c12GoZero, -1, 1709164800000}
		mk := func(id, k int) hop {
			if id == 7 {
				return hop{7, []qarg{qInt([]int64{981173106007, c12GoZero + 1, -86400001, 0, 1709251199999}[k%5])}, k}
			}
			n := 1 + k%c12Arity(id)
			args := make([]qarg, n)
			for i := range args {
				v := int64(2 + (k+3*i)%9)
				if id%10 == 6 && i == 0 {
					v = int64(1999 + k%5)
				}
				args[i] = qInt(v)
			}
			return hop{id, args, k}
		}
		k := 0
		for _, a := range ids {
			for _, b := range ids {
				k++
				if !thorough && a != 7 && b != 7 && k%3 != rot {
					continue
				}
				st := starts[k%len(starts)]
				g.histAll("observe-around-mutators", c12Zones[k%len(c12Zones)], fmt.Sprintf("new Date(%s)", JSNum(float64(st))), "(Some "+Cz(st)+")", []hop{mk(a, k), mk(b, k+1)})
			}
		}
		// through the invalid state and back, and setTime onto the value the Date already has
		for i, id := range ids {
			g.histAll("observe-around-mutators", c12Zones[i%len(c12Zones)], "new Date(86400000)", "(Some 86400000)",
				[]hop{{7, []qarg{{"NaN", "None"}}, i}, mk(id, i), {7, []qarg{qInt(981173106007)}, i + 1}, mk(id, i+2), {7, []qarg{qInt(981173106007 + int64(i))}, 0}, {7, []qarg{qInt(981173106007 + int64(i))}, 0}})
			g.histAll("observe-around-mutators", utcZ, "new Date(NaN)", "None", []hop{mk(id, i), {7, []qarg{qInt(5)}, i}, mk(id, i+1), {id, []qarg{{"NaN", "None"}}, i}, {7, []qarg{qInt(-5)}, i}})
		}
	}
}

func runC12(env *Env) {
	time.Local = time.UTC
	env.Import = "Otto.C12.Corr"
	env.Rule = "time values: uniform over +-8.64e15 and around year/month/leap-day/century boundaries; field tuples in +-1e6 with NaN/Infinity; setUTC* histories of length 1-4; pinned on every seed: sentinel instants (0001-01-01T00:00:00.000Z, -1, 0, +-1 ms) through every constructor/parse/setTime/setter route, fractional fields of Date.UTC/constructor/setters in thousandths (ToInteger done in Coq), surplus setter arguments (direct/apply/call), local-time setters in constant-offset zones followed by UTC accessors, every observer before and after every ordered pair of mutators; non-trivial = distinct case whose time value or a field lies outside 1970..2100 or that involves a NaN, overflowing field or negative time"
	g := &c12gen{env: env, vm: otto.New()}
	r := env.Rng
	const getJS = `[d.getTime(), d.getUTCFullYear(), d.getUTCMonth(), d.getUTCDate(), d.getUTCDay(), d.getUTCHours(), d.getUTCMinutes(), d.getUTCSeconds(), d.getUTCMilliseconds(), d.valueOf(), d.getFullYear(), d.getMonth(), d.getDate(), d.getDay(), d.getHours(), d.getMinutes(), d.getSeconds(), d.getMilliseconds()].join(",")`
	// pinned witnesses of the listed findings run first
	pinned := []int64{maxTime + 1, -maxTime - 1}
	// deterministic grid: month-end and leap-day instants under every argument count of the date-part setters (the
	// day of the month must be carried by MakeDay with the NEW year and month together, 15.9.5.38-41)
	{
		bases := []int64{951782400000, 951825600000 + 3723004, 825552000000, 13574563200000, 949276800000, 954460800000, 978220800000, -2208988800000 + 59*86400000, 1709164800000}
		type op struct {
			id   int
			args []int64
		}
		var ops []op
		for _, y := range []int64{2001, 2004, 1900, 2100, 1999, 0, -1, 99} {
			ops = append(ops, op{6, []int64{y}})
			for _, m := range []int64{0, 1, 5, 11, 12, -1, 13} {
				ops = append(ops, op{6, []int64{y, m}})
			}
			ops = append(ops, op{6, []int64{y, 1, 29}}, op{6, []int64{y, 1, 30}}, op{6, []int64{y, 3, 31}})
		}
		for _, m := range []int64{0, 1, 3, 5, 11, 12, -1, 25} {
			ops = append(ops, op{5, []int64{m}}, op{5, []int64{m, 31}}, op{5, []int64{m, 0}})
		}
		for _, d := range []int64{0, 29, 30, 31, 32, 60, 366, -1} {
			ops = append(ops, op{4, []int64{d}})
		}
		k := 0
		for _, b := range bases {
			for _, o := range ops {
				k++
				if env.Tier != "thorough" && k%3 != int(env.Seed%3) {
					continue // a third of the grid per quick run, rotating with the seed
				}
				js, cq := make([]string, len(o.args)), make([]string, len(o.args))
				for i, a := range o.args {
					js[i], cq[i] = JSNum(float64(a)), "(Some "+Cz(a)+")"
				}
				src := fmt.Sprintf("var d = new Date(%s); var out = []; out.push(d.%s(%s)); out.push(d.getTime()); out.join(\",\")", JSNum(float64(b)), c12Setters[o.id].name, strings.Join(js, ","))
				obs := g.js(src)
				env.Add(fmt.Sprintf("CSet (Some %s) [(%d, %s)] %s", Cz(b), o.id, Clist(cq), Clist(optZList(obs))), fmt.Sprintf("set-grid: %s -> %s", src, obs), "set-grid", true)
			}
		}
	}
	g.pinnedFamilies()
	// the UTC functions must not depend on the host's zone: a third of the cases run with time.Local set to a
	// zone whose offset has a seconds component (as the pre-standard local mean times of the zone database
	// have), a half-hour zone, or a DST zone when the zone database is available; those cases use only
	// zone-independent functions (the local getters of getJS are replaced by their UTC counterparts)
	zones := []*time.Location{time.UTC, time.FixedZone("LMT", -(4*3600 + 56*60 + 2)), time.FixedZone("IST", 5*3600+30*60), time.FixedZone("X", 13*3600+45*60+7)}
	if ny, err := time.LoadLocation("America/New_York"); err == nil {
		zones = append(zones, ny)
	}
	getJSUTC := strings.NewReplacer("d.getFullYear()", "d.getUTCFullYear()", "d.getMonth()", "d.getUTCMonth()", "d.getDate()", "d.getUTCDate()",
		"d.getDay()", "d.getUTCDay()", "d.getHours()", "d.getUTCHours()", "d.getMinutes()", "d.getUTCMinutes()", "d.getSeconds()", "d.getUTCSeconds()",
		"d.getMilliseconds()", "d.getUTCMilliseconds()").Replace(getJS)
	defer func() { time.Local = time.UTC }()
	for i := 0; env.Count() < env.N; i++ {
		kind := r.Intn(10)
		odd := false
		time.Local = time.UTC
		if r.Intn(3) == 0 {
			z := zones[1+r.Intn(len(zones)-1)]
			time.Local = z
			odd = true
			env.Dist["zone:"+z.String()]++
		}
		getJS := getJS
		if odd {
			getJS = getJSUTC
		}
		switch {
		case i < len(pinned):
			t := pinned[i]
			obs := g.js(fmt.Sprintf("var d = new Date(%s); d.getTime()", JSNum(float64(t))))
			env.Add(fmt.Sprintf("CClip %s %s", Cz(t), optZ(obs)), fmt.Sprintf("clip new Date(%d).getTime() -> %s", t, obs), "clip", true)
		case kind <= 2:
			t := g.timeValue()
			obs := g.js(fmt.Sprintf("var d = new Date(%s); %s", JSNum(float64(t)), getJS))
			env.Add(fmt.Sprintf("CGet %s %s", Cz(t), Clist(optZList(obs))), fmt.Sprintf("get new Date(%d) -> %s", t, obs), "get", t < 0 || t > 4102444800000)
		case kind == 3:
			t := g.timeValue()
			iso := g.js(fmt.Sprintf("var d = new Date(%s); d.toISOString()", JSNum(float64(t))))
			back := g.js(fmt.Sprintf("Date.parse(%s)", JSStr(Units(iso))))
			json := g.js(fmt.Sprintf("new Date(%s).toJSON()", JSNum(float64(t))))
			same := "false"
			if json == iso {
				same = "true"
			}
			env.Add(fmt.Sprintf("CIso %s %s %s %s", Cz(t), Cstr(iso), optZ(back), same), fmt.Sprintf("iso new Date(%d).toISOString() -> %s ; Date.parse -> %s ; toJSON same=%s", t, iso, back, same), "iso", t < 0 || t > 4102444800000)
		case kind <= 5:
			n := r.Intn(6) + 2
			js := make([]string, n)
			cq := make([]string, n)
			nontriv := false
			for k := 0; k < n; k++ {
				if k == 0 {
					js[k], cq[k] = g.year()
				} else {
					js[k], cq[k] = g.field()
				}
				if cq[k] == "None" || strings.Contains(cq[k], "(-") || len(cq[k]) > 9 {
					nontriv = true
				}
			}
			which := "Date.UTC(" + strings.Join(js, ",") + ")"
			tag := "0"
			if r.Intn(3) == 0 && !odd { // the multi-argument constructor reads its fields as local time
				which = "new Date(" + strings.Join(js, ",") + ").getTime()"
				tag = "1"
			}
			obs := g.js(which)
			env.Add(fmt.Sprintf("CUtc %s %s %s", tag, Clist(cq), optZ(obs)), fmt.Sprintf("utc %s -> %s", which, obs), "utc", nontriv)
		case kind <= 8:
			t := g.timeValue()
			if r.Intn(3) > 0 {
				t = clampT(t / 1000) // keep histories mostly inside the range so that they do not all clip
			}
			start := JSNum(float64(t))
			cstart := "(Some " + Cz(t) + ")"
			if r.Intn(12) == 0 {
				start, cstart = "NaN", "None"
			}
			nops := r.Intn(4) + 1
			var src strings.Builder
			fmt.Fprintf(&src, "var d = new Date(%s); var out = [];", start)
			ops := make([]string, nops)
			for k := 0; k < nops; k++ {
				id := r.Intn(len(c12Setters))
				s := c12Setters[id]
				na := r.Intn(s.max) + 1
				js := make([]string, na)
				cq := make([]string, na)
				for a := 0; a < na; a++ {
					if id == 6 && a == 0 {
						js[a], cq[a] = g.year()
					} else if id == 7 {
						tv := g.timeValue()
						js[a], cq[a] = JSNum(float64(tv)), "(Some "+Cz(tv)+")"
					} else {
						js[a], cq[a] = g.field()
					}
				}
				fmt.Fprintf(&src, "out.push(d.%s(%s)); out.push(d.getTime());", s.name, strings.Join(js, ","))
				ops[k] = fmt.Sprintf("(%d, %s)", id, Clist(cq))
			}
			if r.Intn(6) == 0 {
				// re-entrancy: one argument of a setter is an object whose valueOf calls another setter on the same Date
				oid, iid := r.Intn(7), r.Intn(8) // outer: a field setter; inner: any setter incl. setTime
				mk := func(id int) ([]string, []string) {
					sd := c12Setters[id]
					na := r.Intn(sd.max) + 1
					js, cq := make([]string, na), make([]string, na)
					for a := 0; a < na; a++ {
						switch {
						case id == 6 && a == 0:
							js[a], cq[a] = g.year()
						case id == 7:
							tv := g.timeValue()
							js[a], cq[a] = JSNum(float64(tv)), "(Some "+Cz(tv)+")"
							if r.Intn(5) == 0 {
								js[a], cq[a] = "NaN", "None"
							}
						default:
							js[a], cq[a] = g.field()
						}
					}
					return js, cq
				}
				if r.Intn(3) == 0 {
					// how many arguments are converted: every argument is a counting object
					sd := c12Setters[oid]
					na := r.Intn(sd.max) + 1
					js, cq := make([]string, na), make([]string, na)
					for a := 0; a < na; a++ {
						v, c := g.field()
						if strings.HasPrefix(v, "({") || c == "None" && r.Intn(2) == 0 {
							v, c = "7", "(Some 7)"
						}
						js[a], cq[a] = fmt.Sprintf("({valueOf: function () { cnt++; return %s; }})", v), c
					}
					src3 := fmt.Sprintf("var d = new Date(%s); var cnt = 0; d.%s(%s); cnt", start, sd.name, strings.Join(js, ","))
					obs := g.js(src3)
					env.Add(fmt.Sprintf("CConv %s %s %s", cstart, Clist(cq), Cz(func() int64 { n, _ := strconv.ParseInt(obs, 10, 64); return n }())),
						fmt.Sprintf("conversions: %s -> %s", src3, obs), "set-conversions", true)
					continue
				}
				if cstart == "None" {
					start, cstart = "86400000", "(Some 86400000)"
				}
				ojs, ocq := mk(oid)
				ijs, icq := mk(iid)
				pos := r.Intn(len(ojs))
				for a := 0; a <= pos; a++ { // otto stops converting at the first NaN (finding 4): keep the path to the re-entrant argument finite
					if ocq[a] == "None" || strings.HasPrefix(ojs[a], "({") {
						ojs[a], ocq[a] = "3", "(Some 3)"
					}
				}
				ojs[pos] = fmt.Sprintf("({valueOf: function () { innerRet = d.%s(%s); return %s; }})", c12Setters[iid].name, strings.Join(ijs, ","), ojs[pos])
				src2 := fmt.Sprintf("var d = new Date(%s); var innerRet = undefined; var o = d.%s(%s); [innerRet, o, d.getTime()].join(\",\")", start, c12Setters[oid].name, strings.Join(ojs, ","))
				obs := g.js(src2)
				env.Add(fmt.Sprintf("CReent %s (%d, %s) (%d, %s) %s", cstart, oid, Clist(ocq), iid, Clist(icq), Clist(optZList(obs))),
					fmt.Sprintf("reentrant setter: %s -> %s", src2, obs), "set-reentrant", true)
				continue
			}
			if r.Intn(3) == 0 {
				// the same kind of history with local-time setters mixed in, in a constant-offset zone, with fractional and
				// surplus arguments and every call form, followed by all getters
				z := c12Zones[r.Intn(len(c12Zones))]
				hs := r.Intn(4) + 1
				hops := make([]hop, hs)
				for k := range hops {
					id := r.Intn(15)
					if id >= 8 {
						id += 2 // 10..16
					}
					na := r.Intn(c12Arity(id)) + 1
					if r.Intn(4) == 0 {
						na = c12Arity(id) + 1 + r.Intn(2)
					}
					args := make([]qarg, na)
					for a := range args {
						switch {
						case id == 7:
							args[a] = qInt(g.timeValue())
						case id%10 == 6 && a == 0:
							args[a] = qInt(int64(r.Intn(6000) - 1000))
						case r.Intn(5) == 0:
							args[a] = qMilli(int64(r.Intn(200001)-100000), r.Intn(4))
						case r.Intn(12) == 0 || a >= c12Arity(id) && r.Intn(2) == 0:
							args[a] = c12NonNumbers[r.Intn(len(c12NonNumbers))]
						default:
							args[a] = qInt(int64(r.Intn(141) - 40))
						}
					}
					hops[k] = hop{id, args, r.Intn(4)}
				}
				if r.Intn(2) == 0 {
					g.histAll("set-local-mixed-observed", z, "new Date("+start+")", cstart, hops)
				} else {
					g.hist("set-local-mixed", z, "new Date("+start+")", cstart, hops)
				}
				continue
			}
			if r.Intn(4) == 0 {
				// the same history on a copy of the runtime (or on the original after copying): the other
				// runtime's Date must keep its time value
				vm1 := otto.New()
				o1 := RunJS(vm1, fmt.Sprintf("var d = new Date(%s); 0", start))
				vm2 := vm1.Copy()
				run, other := vm2, vm1
				which := "copy"
				if r.Intn(2) == 0 {
					run, other = vm1, vm2
					which = "original"
				}
				hist := strings.Replace(src.String(), fmt.Sprintf("var d = new Date(%s); ", start), "", 1) + `out.join(",")`
				o2 := RunJS(run, hist)
				o3 := RunJS(other, "d.getTime()")
				obs, oth := "!", "!"
				if o1.Err == nil && o2.Err == nil && o2.Panic == nil {
					obs = o2.Val.String()
				}
				if o3.Err == nil && o3.Panic == nil {
					oth = o3.Val.String()
				}
				env.Add(fmt.Sprintf("CCopy %s %s %s %s", cstart, Clist(ops), Clist(optZList(obs)), optZ(oth)),
					fmt.Sprintf("copy: new Date(%s) then Copy(); on the %s: %s -> %s ; the other runtime's d.getTime() -> %s", start, which, hist, obs, oth), "set-after-copy", true)
				continue
			}
			src.WriteString(`out.join(",")`)
			obs := g.js(src.String())
			env.Add(fmt.Sprintf("CSet %s %s %s", cstart, Clist(ops), Clist(optZList(obs))), fmt.Sprintf("set %s -> %s", src.String(), obs), "set", true)
		default:
			// an invalid date stays invalid under every accessor and formatter
			how := Pick(r, []string{"new Date(NaN)", "new Date(Infinity)", "new Date(2000, NaN)", "new Date('not a date')", "(function(){var d=new Date(0); d.setTime(NaN); return d})()", "(function(){var d=new Date(0); d.setUTCHours(NaN); return d})()", "(function(){var d=new Date(0); d.setUTCMonth(1, Infinity); return d})()"})
			obs := g.js(fmt.Sprintf("var d = %s; [d.getTime(), d.getUTCFullYear(), d.getUTCMonth(), d.getUTCDate(), d.getUTCDay(), d.getUTCHours(), d.getUTCMinutes(), d.getUTCSeconds(), d.getUTCMilliseconds(), d.valueOf(), d.getFullYear(), d.getMonth(), d.getDate(), d.getDay(), d.getHours(), d.getMinutes(), d.getSeconds(), d.getMilliseconds(), d.getTimezoneOffset()].every(function(x){return x!==x}) && d.toString()==='Invalid Date' && d.toUTCString()==='Invalid Date' && d.toDateString()==='Invalid Date' && d.toTimeString()==='Invalid Date' && d.toJSON()===null && String(d)==='Invalid Date' && isNaN(d.setUTCSeconds(1)) && isNaN(d.setUTCDate(1)) && isNaN(d.getTime())", how))
			env.Add(fmt.Sprintf("CInvalid %s", Cbool(obs == "true")), fmt.Sprintf("invalid %s -> %s", how, obs), "invalid", true)
		}
	}
}
