// c12: correspondence cases for property C12 (dates).
package main

import (
	"fmt"
	"math"
	"strconv"
	"strings"
	"time"

	"github.com/robertkrimen/otto"
	. "ottoh/lib"
)

func main() {
	env := FromFlags("c12")
	runC12(env)
	env.Finish()
}

const maxTime = 8640000000000000

var c12Setters = []struct {
	name string
	max  int
}{
	{"setUTCMilliseconds", 1}, {"setUTCSeconds", 2}, {"setUTCMinutes", 3}, {"setUTCHours", 4},
	{"setUTCDate", 1}, {"setUTCMonth", 2}, {"setUTCFullYear", 3}, {"setTime", 1},
}

// parse "a,b,c" of JS numbers into option-Z Coq terms (NaN -> None)
func optZList(s string) []string {
	parts := strings.Split(s, ",")
	out := make([]string, len(parts))
	for i, p := range parts {
		out[i] = optZ(p)
	}
	return out
}

func optZ(p string) string {
	f, err := strconv.ParseFloat(strings.TrimSpace(p), 64)
	if err != nil || math.IsNaN(f) || math.IsInf(f, 0) || f != math.Trunc(f) || math.Abs(f) > 1e18 {
		if err == nil && !math.IsNaN(f) {
			return "(Some 999999999999999999999)" // not an integer in range: can never equal a model value
		}
		return "None"
	}
	return "(Some " + Cz(int64(f)) + ")"
}

func (g *c12gen) timeValue() int64 {
	r := g.env.Rng
	switch r.Intn(10) {
	case 0: // uniform over the whole ES5 range
		return r.Int63n(2*maxTime+1) - maxTime
	case 1: // range ends
		return Pick(r, []int64{maxTime, -maxTime, maxTime - 1, -maxTime + 1, 0, -1, 1, 999, -999, 1000, -1000})
	case 2, 3: // around a year boundary
		y := int64(r.Intn(6000) - 3000 + 1970)
		if r.Intn(3) == 0 {
			y = int64(r.Intn(540000) - 270000)
		}
		t := time.Date(int(y), 1, 1, 0, 0, 0, 0, time.UTC).UnixMilli()
		return clampT(t + int64(r.Intn(5)-2)*Pick(r, []int64{1, 1000, 86400000}) + int64(r.Intn(3)-1))
	case 4, 5: // around a month / leap-day boundary
		y := int64(r.Intn(1200) + 1300)
		if r.Intn(2) == 0 {
			y = y / 4 * 4
		}
		m := r.Intn(12) + 1
		if r.Intn(2) == 0 {
			m = 3
		}
		t := time.Date(int(y), time.Month(m), 1, 0, 0, 0, 0, time.UTC).UnixMilli()
		return clampT(t + int64(r.Intn(5)-2)*Pick(r, []int64{1, 86400000}))
	case 6: // 400/100-year boundaries and negative years
		y := int64(r.Intn(60)-30) * 100
		t := time.Date(int(y), time.Month(r.Intn(3)+1), 28, 23, 59, 59, 999000000, time.UTC).UnixMilli()
		return clampT(t + int64(r.Intn(3))*86400000 + int64(r.Intn(3)))
	default: // modern times
		return r.Int63n(4e12) - 2e12
	}
}

func clampT(t int64) int64 {
	if t > maxTime {
		return maxTime
	}
	if t < -maxTime {
		return -maxTime
	}
	return t
}

type c12gen struct {
	env *Env
	vm  *otto.Otto
}

func (g *c12gen) js(src string) string {
	o := RunJS(g.vm, src)
	if o.Panic != nil {
		return fmt.Sprintf("!panic %v", o.Panic)
	}
	if o.Err != nil {
		return "!err " + o.Err.Error()
	}
	return o.Val.String()
}

// argument spellings whose ToNumber is known: an explicit undefined is NaN (not "omitted"), null is +0,
// booleans, numeric strings, fractions (ToInteger truncates towards zero), objects with valueOf
func (g *c12gen) oddField() (string, string) {
	r := g.env.Rng
	switch r.Intn(9) {
	case 0:
		return "undefined", "None"
	case 1:
		return "null", "(Some 0)"
	case 2:
		return "true", "(Some 1)"
	case 3:
		return "false", "(Some 0)"
	case 4:
		v := int64(r.Intn(61) - 20)
		return fmt.Sprintf("\"%d\"", v), "(Some " + Cz(v) + ")"
	case 5:
		v := int64(r.Intn(61) - 20)
		frac := []string{".5", ".999", ".25"}[r.Intn(3)]
		if v < 0 {
			return fmt.Sprintf("(%d%s)", v, frac), "(Some " + Cz(v) + ")"
		}
		return fmt.Sprintf("%d%s", v, frac), "(Some " + Cz(v) + ")"
	case 6:
		v := int64(r.Intn(61) - 20)
		return fmt.Sprintf("({valueOf: function () { return %d; }})", v), "(Some " + Cz(v) + ")"
	case 7:
		return "\"x\"", "None"
	default:
		return "void 0", "None"
	}
}

func (g *c12gen) field() (string, string) { // (js text, coq option Z)
	r := g.env.Rng
	if r.Intn(9) == 0 {
		g.env.Dist["odd-argument"]++
		return g.oddField()
	}
	switch r.Intn(12) {
	case 0:
		return "NaN", "None"
	case 1:
		if r.Intn(2) == 0 {
			return "Infinity", "None"
		}
		return "(-Infinity)", "None"
	case 2, 3:
		v := int64(r.Intn(2000001) - 1000000)
		return JSNum(float64(v)), "(Some " + Cz(v) + ")"
	default:
		v := int64(r.Intn(141) - 40)
		return JSNum(float64(v)), "(Some " + Cz(v) + ")"
	}
}

func (g *c12gen) year() (string, string) {
	r := g.env.Rng
	var v int64
	switch r.Intn(8) {
	case 0:
		v = int64(r.Intn(100)) // two-digit rule
	case 1:
		v = int64(r.Intn(2000001) - 1000000)
	case 2:
		v = int64(r.Intn(600000) - 300000)
	case 3:
		return "NaN", "None"
	default:
		v = int64(r.Intn(3000) + 100)
	}
	return JSNum(float64(v)), "(Some " + Cz(v) + ")"
}

func runC12(env *Env) {
	time.Local = time.UTC
	env.Import = "Otto.C12.Corr"
	env.Rule = "time values: uniform over +-8.64e15 and around year/month/leap-day/century boundaries; field tuples in +-1e6 with NaN/Infinity; setUTC* histories of length 1-4; non-trivial = distinct case whose time value or a field lies outside 1970..2100 or that involves a NaN, overflowing field or negative time"
	g := &c12gen{env: env, vm: otto.New()}
	r := env.Rng
	const getJS = `[d.getTime(), d.getUTCFullYear(), d.getUTCMonth(), d.getUTCDate(), d.getUTCDay(), d.getUTCHours(), d.getUTCMinutes(), d.getUTCSeconds(), d.getUTCMilliseconds(), d.valueOf(), d.getFullYear(), d.getMonth(), d.getDate(), d.getDay(), d.getHours(), d.getMinutes(), d.getSeconds(), d.getMilliseconds()].join(",")`
	// pinned witnesses of the listed findings run first
	pinned := []int64{maxTime + 1, -maxTime - 1}
	// deterministic grid: month-end and leap-day instants under every argument count of the date-part setters (the
	// day of the month must be carried by MakeDay with the NEW year and month together, 15.9.5.38-41)
	{
		bases := []int64{951782400000, 951825600000 + 3723004, 825552000000, 13574563200000, 949276800000, 954460800000, 978220800000, -2208988800000 + 59*86400000, 1709164800000}
		type op struct {
			id   int
			args []int64
		}
		var ops []op
		for _, y := range []int64{2001, 2004, 1900, 2100, 1999, 0, -1, 99} {
			ops = append(ops, op{6, []int64{y}})
			for _, m := range []int64{0, 1, 5, 11, 12, -1, 13} {
				ops = append(ops, op{6, []int64{y, m}})
			}
			ops = append(ops, op{6, []int64{y, 1, 29}}, op{6, []int64{y, 1, 30}}, op{6, []int64{y, 3, 31}})
		}
		for _, m := range []int64{0, 1, 3, 5, 11, 12, -1, 25} {
			ops = append(ops, op{5, []int64{m}}, op{5, []int64{m, 31}}, op{5, []int64{m, 0}})
		}
		for _, d := range []int64{0, 29, 30, 31, 32, 60, 366, -1} {
			ops = append(ops, op{4, []int64{d}})
		}
		k := 0
		for _, b := range bases {
			for _, o := range ops {
				k++
				if env.Tier != "thorough" && k%3 != int(env.Seed%3) {
					continue // a third of the grid per quick run, rotating with the seed
				}
				js, cq := make([]string, len(o.args)), make([]string, len(o.args))
				for i, a := range o.args {
					js[i], cq[i] = JSNum(float64(a)), "(Some "+Cz(a)+")"
				}
				src := fmt.Sprintf("var d = new Date(%s); var out = []; out.push(d.%s(%s)); out.push(d.getTime()); out.join(\",\")", JSNum(float64(b)), c12Setters[o.id].name, strings.Join(js, ","))
				obs := g.js(src)
				env.Add(fmt.Sprintf("CSet (Some %s) [(%d, %s)] %s", Cz(b), o.id, Clist(cq), Clist(optZList(obs))), fmt.Sprintf("set-grid: %s -> %s", src, obs), "set-grid", true)
			}
		}
	}
	// the UTC functions must not depend on the host's zone: a third of the cases run with time.Local set to a
	// zone whose offset has a seconds component (as the pre-standard local mean times of the zone database
	// have), a half-hour zone, or a DST zone when the zone database is available; those cases use only
	// zone-independent functions (the local getters of getJS are replaced by their UTC counterparts)
	zones := []*time.Location{time.UTC, time.FixedZone("LMT", -(4*3600 + 56*60 + 2)), time.FixedZone("IST", 5*3600+30*60), time.FixedZone("X", 13*3600+45*60+7)}
	if ny, err := time.LoadLocation("America/New_York"); err == nil {
		zones = append(zones, ny)
	}
	getJSUTC := strings.NewReplacer("d.getFullYear()", "d.getUTCFullYear()", "d.getMonth()", "d.getUTCMonth()", "d.getDate()", "d.getUTCDate()",
		"d.getDay()", "d.getUTCDay()", "d.getHours()", "d.getUTCHours()", "d.getMinutes()", "d.getUTCMinutes()", "d.getSeconds()", "d.getUTCSeconds()",
		"d.getMilliseconds()", "d.getUTCMilliseconds()").Replace(getJS)
	defer func() { time.Local = time.UTC }()
	for i := 0; env.Count() < env.N; i++ {
		kind := r.Intn(10)
		odd := false
		time.Local = time.UTC
		if r.Intn(3) == 0 {
			z := zones[1+r.Intn(len(zones)-1)]
			time.Local = z
			odd = true
			env.Dist["zone:"+z.String()]++
		}
		getJS := getJS
		if odd {
			getJS = getJSUTC
		}
		switch {
		case i < len(pinned):
			t := pinned[i]
			obs := g.js(fmt.Sprintf("var d = new Date(%s); d.getTime()", JSNum(float64(t))))
			env.Add(fmt.Sprintf("CClip %s %s", Cz(t), optZ(obs)), fmt.Sprintf("clip new Date(%d).getTime() -> %s", t, obs), "clip", true)
		case kind <= 2:
			t := g.timeValue()
			obs := g.js(fmt.Sprintf("var d = new Date(%s); %s", JSNum(float64(t)), getJS))
			env.Add(fmt.Sprintf("CGet %s %s", Cz(t), Clist(optZList(obs))), fmt.Sprintf("get new Date(%d) -> %s", t, obs), "get", t < 0 || t > 4102444800000)
		case kind == 3:
			t := g.timeValue()
			iso := g.js(fmt.Sprintf("var d = new Date(%s); d.toISOString()", JSNum(float64(t))))
			back := g.js(fmt.Sprintf("Date.parse(%s)", JSStr(Units(iso))))
			json := g.js(fmt.Sprintf("new Date(%s).toJSON()", JSNum(float64(t))))
			same := "false"
			if json == iso {
				same = "true"
			}
			env.Add(fmt.Sprintf("CIso %s %s %s %s", Cz(t), Cstr(iso), optZ(back), same), fmt.Sprintf("iso new Date(%d).toISOString() -> %s ; Date.parse -> %s ; toJSON same=%s", t, iso, back, same), "iso", t < 0 || t > 4102444800000)
		case kind <= 5:
			n := r.Intn(6) + 2
			js := make([]string, n)
			cq := make([]string, n)
			nontriv := false
			for k := 0; k < n; k++ {
				if k == 0 {
					js[k], cq[k] = g.year()
				} else {
					js[k], cq[k] = g.field()
				}
				if cq[k] == "None" || strings.Contains(cq[k], "(-") || len(cq[k]) > 9 {
					nontriv = true
				}
			}
			which := "Date.UTC(" + strings.Join(js, ",") + ")"
			tag := "0"
			if r.Intn(3) == 0 && !odd { // the multi-argument constructor reads its fields as local time
				which = "new Date(" + strings.Join(js, ",") + ").getTime()"
				tag = "1"
			}
			obs := g.js(which)
			env.Add(fmt.Sprintf("CUtc %s %s %s", tag, Clist(cq), optZ(obs)), fmt.Sprintf("utc %s -> %s", which, obs), "utc", nontriv)
		case kind <= 8:
			t := g.timeValue()
			if r.Intn(3) > 0 {
				t = clampT(t / 1000) // keep histories mostly inside the range so that they do not all clip
			}
			start := JSNum(float64(t))
			cstart := "(Some " + Cz(t) + ")"
			if r.Intn(12) == 0 {
				start, cstart = "NaN", "None"
			}
			nops := r.Intn(4) + 1
			var src strings.Builder
			fmt.Fprintf(&src, "var d = new Date(%s); var out = [];", start)
			ops := make([]string, nops)
			for k := 0; k < nops; k++ {
				id := r.Intn(len(c12Setters))
				s := c12Setters[id]
				na := r.Intn(s.max) + 1
				js := make([]string, na)
				cq := make([]string, na)
				for a := 0; a < na; a++ {
					if id == 6 && a == 0 {
						js[a], cq[a] = g.year()
					} else if id == 7 {
						tv := g.timeValue()
						js[a], cq[a] = JSNum(float64(tv)), "(Some "+Cz(tv)+")"
					} else {
						js[a], cq[a] = g.field()
					}
				}
				fmt.Fprintf(&src, "out.push(d.%s(%s)); out.push(d.getTime());", s.name, strings.Join(js, ","))
				ops[k] = fmt.Sprintf("(%d, %s)", id, Clist(cq))
			}
			if r.Intn(6) == 0 {
				// re-entrancy: one argument of a setter is an object whose valueOf calls another setter on the same Date
				oid, iid := r.Intn(7), r.Intn(8) // outer: a field setter; inner: any setter incl. setTime
				mk := func(id int) ([]string, []string) {
					sd := c12Setters[id]
					na := r.Intn(sd.max) + 1
					js, cq := make([]string, na), make([]string, na)
					for a := 0; a < na; a++ {
						switch {
						case id == 6 && a == 0:
							js[a], cq[a] = g.year()
						case id == 7:
							tv := g.timeValue()
							js[a], cq[a] = JSNum(float64(tv)), "(Some "+Cz(tv)+")"
							if r.Intn(5) == 0 {
								js[a], cq[a] = "NaN", "None"
							}
						default:
							js[a], cq[a] = g.field()
						}
					}
					return js, cq
				}
				if r.Intn(3) == 0 {
					// how many arguments are converted: every argument is a counting object
					sd := c12Setters[oid]
					na := r.Intn(sd.max) + 1
					js, cq := make([]string, na), make([]string, na)
					for a := 0; a < na; a++ {
						v, c := g.field()
						if strings.HasPrefix(v, "({") || c == "None" && r.Intn(2) == 0 {
							v, c = "7", "(Some 7)"
						}
						js[a], cq[a] = fmt.Sprintf("({valueOf: function () { cnt++; return %s; }})", v), c
					}
					src3 := fmt.Sprintf("var d = new Date(%s); var cnt = 0; d.%s(%s); cnt", start, sd.name, strings.Join(js, ","))
					obs := g.js(src3)
					env.Add(fmt.Sprintf("CConv %s %s %s", cstart, Clist(cq), Cz(func() int64 { n, _ := strconv.ParseInt(obs, 10, 64); return n }())),
						fmt.Sprintf("conversions: %s -> %s", src3, obs), "set-conversions", true)
					continue
				}
				if cstart == "None" {
					start, cstart = "86400000", "(Some 86400000)"
				}
				ojs, ocq := mk(oid)
				ijs, icq := mk(iid)
				pos := r.Intn(len(ojs))
				for a := 0; a <= pos; a++ { // otto stops converting at the first NaN (finding 4): keep the path to the re-entrant argument finite
					if ocq[a] == "None" || strings.HasPrefix(ojs[a], "({") {
						ojs[a], ocq[a] = "3", "(Some 3)"
					}
				}
				ojs[pos] = fmt.Sprintf("({valueOf: function () { innerRet = d.%s(%s); return %s; }})", c12Setters[iid].name, strings.Join(ijs, ","), ojs[pos])
				src2 := fmt.Sprintf("var d = new Date(%s); var innerRet = undefined; var o = d.%s(%s); [innerRet, o, d.getTime()].join(\",\")", start, c12Setters[oid].name, strings.Join(ojs, ","))
				obs := g.js(src2)
				env.Add(fmt.Sprintf("CReent %s (%d, %s) (%d, %s) %s", cstart, oid, Clist(ocq), iid, Clist(icq), Clist(optZList(obs))),
					fmt.Sprintf("reentrant setter: %s -> %s", src2, obs), "set-reentrant", true)
				continue
			}
			if r.Intn(4) == 0 {
				// the same history on a copy of the runtime (or on the original after copying): the other
				// runtime's Date must keep its time value
				vm1 := otto.New()
				o1 := RunJS(vm1, fmt.Sprintf("var d = new Date(%s); 0", start))
				vm2 := vm1.Copy()
				run, other := vm2, vm1
				which := "copy"
				if r.Intn(2) == 0 {
					run, other = vm1, vm2
					which = "original"
				}
				hist := strings.Replace(src.String(), fmt.Sprintf("var d = new Date(%s); ", start), "", 1) + `out.join(",")`
				o2 := RunJS(run, hist)
				o3 := RunJS(other, "d.getTime()")
				obs, oth := "!", "!"
				if o1.Err == nil && o2.Err == nil && o2.Panic == nil {
					obs = o2.Val.String()
				}
				if o3.Err == nil && o3.Panic == nil {
					oth = o3.Val.String()
				}
				env.Add(fmt.Sprintf("CCopy %s %s %s %s", cstart, Clist(ops), Clist(optZList(obs)), optZ(oth)),
					fmt.Sprintf("copy: new Date(%s) then Copy(); on the %s: %s -> %s ; the other runtime's d.getTime() -> %s", start, which, hist, obs, oth), "set-after-copy", true)
				continue
			}
			src.WriteString(`out.join(",")`)
			obs := g.js(src.String())
			env.Add(fmt.Sprintf("CSet %s %s %s", cstart, Clist(ops), Clist(optZList(obs))), fmt.Sprintf("set %s -> %s", src.String(), obs), "set", true)
		default:
			// an invalid date stays invalid under every accessor and formatter
			how := Pick(r, []string{"new Date(NaN)", "new Date(Infinity)", "new Date(2000, NaN)", "new Date('not a date')", "(function(){var d=new Date(0); d.setTime(NaN); return d})()", "(function(){var d=new Date(0); d.setUTCHours(NaN); return d})()", "(function(){var d=new Date(0); d.setUTCMonth(1, Infinity); return d})()"})
			obs := g.js(fmt.Sprintf("var d = %s; [d.getTime(), d.getUTCFullYear(), d.getUTCMonth(), d.getUTCDate(), d.getUTCDay(), d.getUTCHours(), d.getUTCMinutes(), d.getUTCSeconds(), d.getUTCMilliseconds(), d.valueOf(), d.getFullYear(), d.getMonth(), d.getDate(), d.getDay(), d.getHours(), d.getMinutes(), d.getSeconds(), d.getMilliseconds(), d.getTimezoneOffset()].every(function(x){return x!==x}) && d.toString()==='Invalid Date' && d.toUTCString()==='Invalid Date' && d.toDateString()==='Invalid Date' && d.toTimeString()==='Invalid Date' && d.toJSON()===null && String(d)==='Invalid Date' && isNaN(d.setUTCSeconds(1)) && isNaN(d.setUTCDate(1)) && isNaN(d.getTime())", how))
			env.Add(fmt.Sprintf("CInvalid %s", Cbool(obs == "true")), fmt.Sprintf("invalid %s -> %s", how, obs), "invalid", true)
		}
	}
}
