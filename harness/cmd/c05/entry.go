// Every way a Go value can get into an otto Value, for every scalar kind (plain and named types).
// otto keeps the Go kind it was given (toValue and its reflect branch), so a number may sit in a Value as any of
// int..uint64, float32, float64 and the conversions must treat them all as the double they denote.
package main

import (
	"fmt"
	"math"
	"strconv"
	"strings"

	"github.com/robertkrimen/otto"
	. "ottoh/lib"
)

type (
	nInt  int
	nI8   int8
	nI16  int16
	nI32  int32
	nI64  int64
	nUint uint
	nU8   uint8
	nU16  uint16
	nU32  uint32
	nU64  uint64
	nF32  float32
	nF64  float64
	nBool bool
	nStr  string
)

type box[T any] struct{ F T }

const numRoutes = 11

// enter hands v to the runtime by the given route so that the script variable `name` holds it.
func enter[T any](vm *otto.Otto, name string, v T, route int, out *strings.Builder) (desc string, err error) {
	src := &strings.Builder{}
	defer func() {
		if r := recover(); r != nil {
			err = fmt.Errorf("panic: %v", r)
		}
		if err == nil {
			out.WriteString(src.String())
		}
	}()
	switch route {
	case 0:
		return fmt.Sprintf("Set(%T %#v)", v, v), vm.Set(name, v)
	case 1:
		err = vm.Set("__c_"+name, []T{v})
		fmt.Fprintf(src, "%s = __c_%s[0]; ", name, name)
		return fmt.Sprintf("element of []%T{%#v}", v, v), err
	case 2:
		err = vm.Set("__c_"+name, [2]T{v, v})
		fmt.Fprintf(src, "%s = __c_%s[1]; ", name, name)
		return fmt.Sprintf("element of [2]%T{%#v}", v, v), err
	case 3:
		err = vm.Set("__c_"+name, box[T]{v})
		fmt.Fprintf(src, "%s = __c_%s.F; ", name, name)
		return fmt.Sprintf("field of struct{F %T}{%#v}", v, v), err
	case 4:
		err = vm.Set("__c_"+name, &box[T]{v})
		fmt.Fprintf(src, "%s = __c_%s.F; ", name, name)
		return fmt.Sprintf("field of *struct{F %T}{%#v}", v, v), err
	case 5:
		err = vm.Set("__c_"+name, map[string]T{"k": v})
		fmt.Fprintf(src, "%s = __c_%s.k; ", name, name)
		return fmt.Sprintf("value of map[string]%T{k: %#v}", v, v), err
	case 6:
		p := new(T)
		*p = v
		return fmt.Sprintf("Set(*%T -> %#v)", v, v), vm.Set(name, p)
	case 7:
		err = vm.Set("__f_"+name, func() T { return v })
		fmt.Fprintf(src, "%s = __f_%s(); ", name, name)
		return fmt.Sprintf("result of func() %T returning %#v", v, v), err
	case 8:
		var val otto.Value
		val, err = vm.ToValue(v)
		if err != nil {
			return "", err
		}
		return fmt.Sprintf("Set(ToValue(%T %#v))", v, v), vm.Set(name, val)
	case 9:
		_, err = vm.Call("__set_"+name, nil, v)
		return fmt.Sprintf("argument of Call(%T %#v)", v, v), err
	default:
		err = vm.Set("__c_"+name, []*T{&v})
		fmt.Fprintf(src, "%s = __c_%s[0]; ", name, name)
		return fmt.Sprintf("element of []*%T{&%#v}", v, v), err
	}
}

// enterAny dispatches on the concrete kind; named selects the named counterpart of the type.
func enterAny(vm *otto.Otto, name string, gv interface{}, named bool, route int, src *strings.Builder) (string, error) {
	switch v := gv.(type) {
	case int:
		if named {
			return enter(vm, name, nInt(v), route, src)
		}
		return enter(vm, name, v, route, src)
	case int8:
		if named {
			return enter(vm, name, nI8(v), route, src)
		}
		return enter(vm, name, v, route, src)
	case int16:
		if named {
			return enter(vm, name, nI16(v), route, src)
		}
		return enter(vm, name, v, route, src)
	case int32:
		if named {
			return enter(vm, name, nI32(v), route, src)
		}
		return enter(vm, name, v, route, src)
	case int64:
		if named {
			return enter(vm, name, nI64(v), route, src)
		}
		return enter(vm, name, v, route, src)
	case uint:
		if named {
			return enter(vm, name, nUint(v), route, src)
		}
		return enter(vm, name, v, route, src)
	case uint8:
		if named {
			return enter(vm, name, nU8(v), route, src)
		}
		return enter(vm, name, v, route, src)
	case uint16:
		if named {
			return enter(vm, name, nU16(v), route, src)
		}
		return enter(vm, name, v, route, src)
	case uint32:
		if named {
			return enter(vm, name, nU32(v), route, src)
		}
		return enter(vm, name, v, route, src)
	case uint64:
		if named {
			return enter(vm, name, nU64(v), route, src)
		}
		return enter(vm, name, v, route, src)
	case float32:
		if named {
			return enter(vm, name, nF32(v), route, src)
		}
		return enter(vm, name, v, route, src)
	case float64:
		if named {
			return enter(vm, name, nF64(v), route, src)
		}
		return enter(vm, name, v, route, src)
	case bool:
		if named {
			return enter(vm, name, nBool(v), route, src)
		}
		return enter(vm, name, v, route, src)
	case string:
		if named {
			return enter(vm, name, nStr(v), route, src)
		}
		return enter(vm, name, v, route, src)
	}
	return "", fmt.Errorf("no route for %T", gv)
}

// a forced injection: Go value, named or plain type, route
type injection struct {
	gv    interface{}
	named bool
	route int
}

// float32 values whose shortest decimal text is the same at 32 and 64 bits (finding C05-float32-tostring
// covers the others through its pinned witness)
func f32ok(f float32) bool {
	x := float64(f)
	if math.IsNaN(x) || math.IsInf(x, 0) || x == 0 {
		return true
	}
	return strconv.FormatFloat(x, 'g', -1, 32) == strconv.FormatFloat(x, 'g', -1, 64)
}

// a Go scalar of a random kind at one of the special values of that kind, and the primitive it denotes
func (g *gen) kindValue() (interface{}, prim) {
	r := g.env.Rng
	const safe = 9007199254740991
	switch r.Intn(16) {
	case 0:
		v := Pick(r, []int8{-128, 127, -1, 0, 1, 64})
		return v, pNum(float64(v))
	case 1:
		v := Pick(r, []uint8{0, 255, 1, 128})
		return v, pNum(float64(v))
	case 2:
		v := Pick(r, []int16{-32768, 32767, -1, 0, 256})
		return v, pNum(float64(v))
	case 3:
		v := Pick(r, []uint16{0, 65535, 1, 32768})
		return v, pNum(float64(v))
	case 4:
		v := Pick(r, []int32{-2147483648, 2147483647, -1, 0, 1, 65536})
		return v, pNum(float64(v))
	case 5:
		v := Pick(r, []uint32{0, 4294967295, 1, 2147483648, 2147483647})
		return v, pNum(float64(v))
	case 6:
		v := Pick(r, []int64{-safe, safe, -1, 0, 1, 4294967296, -2147483649})
		return v, pNum(float64(v))
	case 7:
		v := Pick(r, []int{-safe, safe, -1, 0, 1, 4294967296, -2147483649})
		return v, pNum(float64(v))
	case 8:
		v := Pick(r, []uint64{0, safe, 1, 4294967296})
		return v, pNum(float64(v))
	case 9:
		v := Pick(r, []uint{0, safe, 1, 4294967295})
		return v, pNum(float64(v))
	case 10, 11, 12:
		for {
			v := Pick(r, []float32{float32(math.NaN()), float32(math.NaN()), float32(math.NaN()), float32(math.NaN()), float32(math.Copysign(0, -1)), float32(math.Inf(1)), float32(math.Inf(-1)), float32(math.Copysign(0, -1)), 0, 1.5, -2.5, 0.5, 16777216, 3, -1, 1e10, 4294967296, -2147483648, 0.25})
			if f32ok(v) {
				return v, pNum(float64(v))
			}
		}
	case 13:
		v := Pick(r, []float64{math.NaN(), math.NaN(), math.Copysign(0, -1), math.Inf(1), math.Inf(-1), math.Copysign(0, -1), 0, 1.7976931348623157e308, 5e-324, 9007199254740992, 0.1, -1.5, 4294967296.5})
		return v, pNum(v)
	case 14:
		v := r.Intn(2) == 0
		return v, pBool(v)
	default:
		v := Pick(r, []string{"", "0", " ", "abc", "12", "NaN", " 0x10 ", "-0", "Infinity", "+Infinity", "-Infinity", " Infinity ", "\t-Infinity\n", "+NaN", "nan"})
		return v, pStr(v)
	}
}
