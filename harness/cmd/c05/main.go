// c05: correspondence cases for property C05 (ES5 section 9 conversions and section 11 operators).
//
// A case is an expression over three variables a, b, c and literal values
// (primitives and objects with scripted valueOf/toString that log, assign
// variables, return objects or throw).  It is rendered to JavaScript, run on
// otto, and the observation (completion, result, final variables, log of
// method calls) is written next to the Coq term of the same expression.
package main

import (
	"fmt"
	"math"
	"os"
	"strconv"
	"strings"

	"github.com/robertkrimen/otto"
	. "ottoh/lib"
)

func main() {
	if len(os.Args) > 2 && os.Args[1] == "probe" {
		vm := otto.New()
		o := RunJS(vm, os.Args[2])
		fmt.Printf("val=%v err=%v panic=%v\n", o.Val, o.Err, o.Panic)
		return
	}
	env := FromFlags("c05")
	runC05(env)
	env.Finish()
}

// ---------- values ----------

const (
	kUndef = iota
	kNull
	kBool
	kNum
	kStr
)

type prim struct {
	lit  string // number written as this integer literal text (otto holds it as a Go int64); f is the double it denotes
	kind int
	b    bool
	f    float64
	s    []uint16
}

func pUndef() prim          { return prim{kind: kUndef} }
func pNull() prim           { return prim{kind: kNull} }
func pBool(b bool) prim     { return prim{kind: kBool, b: b} }
func pNum(f float64) prim   { return prim{kind: kNum, f: f} }
func pStr(s string) prim    { return prim{kind: kStr, s: Units(s)} }
func pUnits(u []uint16) prim { return prim{kind: kStr, s: u} }

func (p prim) coq() string {
	switch p.kind {
	case kUndef:
		return "PUndef"
	case kNull:
		return "PNull"
	case kBool:
		return "(PBool " + Cbool(p.b) + ")"
	case kNum:
		return "(PNum " + Cdouble(p.f) + ")"
	}
	return "(PStr " + Cunits(p.s) + ")"
}

func (p prim) js() string {
	switch p.kind {
	case kUndef:
		return "undefined"
	case kNull:
		return "null"
	case kBool:
		return Cbool(p.b)
	case kNum:
		if p.lit != "" {
			return p.lit
		}
		return jsNum(p.f)
	}
	return jsStr(p.s)
}

// JS source text of a double.  Integer-valued doubles from 2^53 on are written
// in float syntax: otto keeps an integer literal as a Go int64 and converts
// that to string digit by digit (finding C05-int-repr-tostring, exercised by
// its own stream), so the general streams stay out of that representation.
func jsNum(f float64) string {
	s := JSNum(f)
	if math.Abs(f) >= 9007199254740992 && !math.IsInf(f, 0) && !strings.ContainsAny(s, ".e") {
		if strings.HasSuffix(s, ")") {
			return s[:len(s)-1] + ".0)"
		}
		return s + ".0"
	}
	return s
}

// JS string literal: every BMP unit escaped; astral characters as raw UTF-8
// (otto's parser turns an escaped surrogate pair into two U+FFFD, which is
// the parser property's business, C03)
func jsStr(u []uint16) string {
	var b strings.Builder
	b.WriteByte('"')
	for _, c := range utf16Decode(u) {
		switch {
		case c >= 0x10000:
			b.WriteRune(c)
		case c >= 0x20 && c < 0x7f && c != '"' && c != '\\':
			b.WriteByte(byte(c))
		default:
			fmt.Fprintf(&b, "\\u%04X", c)
		}
	}
	b.WriteByte('"')
	return b.String()
}

const (
	retPrim = iota
	retObj
	retThrow
)

type meth struct {
	inherit bool // no own property: found along the prototype chain at each conversion
	quiet   bool // a built-in method: not logged
	getter  bool // the property is an accessor: each [[Get]] runs a getter that logs getTag and throws or yields the method
	getThr  bool
	setM    *methSet // while running, the method assigns / deletes another conversion method
	present bool
	setv    int // variable assigned by the method, -1 none
	setp    prim
	ret     int
	p       prim
}

// a method replacing (or, with m.inherit, deleting) conversion method which of object id
type methSet struct {
	id, which int
	m         meth
}

func (m meth) coq() string {
	if m.getter {
		in := m
		in.getter = false
		return fmt.Sprintf("(MGet %d %s %s)", 0, Cbool(m.getThr), in.coq()) // the tag is filled in by cgetter
	}
	if m.inherit {
		return "MInherit"
	}
	if !m.present {
		return "MNone"
	}
	sv := "None"
	if m.setv >= 0 {
		sv = fmt.Sprintf("(Some (%d, %s))", m.setv, m.setp.coq())
	}
	r := "MObj"
	switch m.ret {
	case retPrim:
		r = "(MPrim " + m.p.coq() + ")"
	case retThrow:
		r = "MThrow"
	}
	if m.quiet {
		return "(MQuiet " + r + ")"
	}
	if m.setM != nil {
		return fmt.Sprintf("(MDoS %d %d %s %s)", m.setM.id, m.setM.which, m.setM.m.coq(), r)
	}
	return "(mdo " + sv + " " + r + ")"
}

var varNames = []string{"a", "b", "c"}

func (m meth) js(tag int) string {
	if !m.present {
		return "undefined"
	}
	var b strings.Builder
	fmt.Fprintf(&b, "function(){ log.push(%d); ", tag)
	if m.setv >= 0 {
		fmt.Fprintf(&b, "%s = %s; ", varNames[m.setv], m.setp.js())
	}
	if m.setM != nil {
		prop := []string{"valueOf", "toString"}[m.setM.which]
		if m.setM.m.inherit {
			fmt.Fprintf(&b, "delete %s.%s; ", protoName(int64(m.setM.id)), prop)
		} else {
			fmt.Fprintf(&b, "%s.%s = %s; ", protoName(int64(m.setM.id)), prop, m.setM.m.js(m.setM.id*2+m.setM.which))
		}
	}
	switch m.ret {
	case retPrim:
		fmt.Fprintf(&b, "return %s; }", m.p.js())
	case retObj:
		b.WriteString("return {}; }")
	default:
		fmt.Fprintf(&b, "throw %d; }", 100+tag)
	}
	return b.String()
}

type obj struct {
	id     int
	cls    int // 0 plain, 1 Date, 2 function, 4 bound function
	vo, ts meth
	keys   [][]uint16
	chain  []int64 // ids on the prototype chain, nearest first (90 Object.prototype, 89 Function.prototype, ...)
	fproto int64   // functions: id of .prototype (bound: of the target's), 0 = not an object
	base   string
	jsname string // built-in object referred to by name, never defined or converted
	hasX   bool   // data property x (initial value memX) and the this-probe method f, for Reference cases
	memX   prim
}

type value struct {
	o *obj
	p prim
}

func (v value) coq() string {
	if v.o == nil {
		switch v.p.kind {
		case kUndef:
			return "U"
		case kNull:
			return "NL"
		case kBool:
			return "(B " + Cbool(v.p.b) + ")"
		case kNum:
			return "(Nm " + Cdouble(v.p.f) + ")"
		}
		return "(St " + Cunits(v.p.s) + ")"
	}
	o := v.o
	keys := make([]string, len(o.keys))
	for i, k := range o.keys {
		keys[i] = Cunits(k)
	}
	mc := func(m meth, which int) string {
		c := m.coq()
		if m.getter {
			c = strings.Replace(c, "(MGet 0 ", fmt.Sprintf("(MGet %d ", 500+o.id*2+which), 1)
		}
		return c
	}
	return fmt.Sprintf("(Ob %d %d %s %s %s %s %s)", o.id, o.cls, mc(o.vo, 0), mc(o.ts, 1), Clist(keys), Czlist(o.chain), Cz(o.fproto))
}

func (v value) js() string {
	if v.o == nil {
		return v.p.js()
	}
	return v.o.name()
}

func (o *obj) name() string {
	if o.jsname != "" {
		return o.jsname
	}
	return fmt.Sprintf("o%d", o.id)
}

func protoName(id int64) string {
	switch id {
	case 0:
		return "7"
	case 90:
		return "Object.prototype"
	case 96:
		return "Number.prototype"
	case 97:
		return "String.prototype"
	case 98:
		return "Boolean.prototype"
	}
	return fmt.Sprintf("o%d", id)
}

// JS statements that build the object
func (o *obj) define() string {
	if o.jsname != "" {
		return ""
	}
	var b strings.Builder
	switch o.cls {
	case 4: // bound function: the target carries the prototype
		fmt.Fprintf(&b, "var t%d = function(){}; t%d.prototype = %s; var o%d = t%d.bind(null); ", o.id, o.id, protoName(o.fproto), o.id, o.id)
	default:
		fmt.Fprintf(&b, "var o%d = %s; ", o.id, o.base)
	}
	fmt.Fprintf(&b, "o%d.__id = %d; ", o.id, o.id)
	if o.cls == 2 && o.fproto < 1000 {
		fmt.Fprintf(&b, "o%d.prototype = %s; ", o.id, protoName(o.fproto))
	}
	defm := func(m meth, which int) {
		prop := []string{"valueOf", "toString"}[which]
		tag := o.id*2 + which
		switch {
		case m.inherit:
		case m.getter:
			in := m
			in.getter = false
			thr := ""
			if m.getThr {
				thr = fmt.Sprintf("throw %d; ", 300+tag)
			}
			fmt.Fprintf(&b, "Object.defineProperty(o%d, %q, {get: function(){ log.push(%d); %sreturn %s; }, configurable: true}); ", o.id, prop, 500+tag, thr, in.js(tag))
		default:
			fmt.Fprintf(&b, "o%d.%s = %s; ", o.id, prop, m.js(tag))
		}
	}
	defm(o.vo, 0)
	defm(o.ts, 1)
	for _, k := range o.keys {
		fmt.Fprintf(&b, "o%d[%s] = 1; ", o.id, jsStr(k))
	}
	if o.hasX {
		fmt.Fprintf(&b, "o%d.x = %s; o%d.f = PROBE; ", o.id, o.memX.js(), o.id)
	}
	return b.String()
}

// ---------- expressions ----------

const (
	eLit = iota
	eVar
	eUn
	eBin
	eCond
	eAsg
	eCmp
	eInc
	eLog
	eSetM
	eUnres
	eMem
	eCall
)

type expr struct {
	m        meth
	kind     int
	op       int
	n        int
	pre, dec bool
	v        value
	sub      []*expr
}

var binJS = []string{"+", "-", "*", "/", "%", "&", "|", "^", "<<", ">>", ">>>", "==", "!=", "===", "!==", "<", ">", "<=", ">=", "in", "instanceof", "&&", "||", ","}
var unJS = []string{"+", "-", "~", "!", "typeof ", "void "}

const s40 = `"aaaaaaaaaaaaaaaaaaaaaaaaaaaaaaaaaaaaaaaa"`

func (e *expr) js() string {
	switch e.kind {
	case eLit:
		return e.v.js()
	case eVar:
		return varNames[e.n]
	case eUn:
		x := e.sub[0].js()
		switch {
		case e.op < 6:
			return "(" + unJS[e.op] + "(" + x + "))"
		case e.op == 6:
			return "Number(" + x + ")"
		case e.op == 7:
			return "String(" + x + ")"
		case e.op == 8:
			return "Boolean(" + x + ")"
		case e.op == 9:
			return "String.fromCharCode(" + x + ").charCodeAt(0)"
		case e.op == 10:
			return s40 + ".indexOf(\"a\", " + x + ")"
		case e.op == 12:
			return "String(" + x + ").length"
		case e.op == 13:
			return "(delete (" + x + "))"
		case e.op == 14:
			return "\"abcdefghij\".substr(0, " + x + ")"
		case e.op == 15:
			return "\"abcdefghij\".substr(" + x + ")"
		case e.op == 16:
			return s40 + ".lastIndexOf(\"a\", " + x + ")"
		case e.op == 17:
			return "[1, 2, 3].indexOf(3, " + x + ")"
		case e.op == 18:
			return "[1, 2, 3].lastIndexOf(1, " + x + ")"
		default:
			return "((" + x + ") >>> 0)"
		}
	case eBin:
		return "((" + e.sub[0].js() + ") " + binJS[e.op] + " (" + e.sub[1].js() + "))"
	case eCond:
		return "((" + e.sub[0].js() + ") ? (" + e.sub[1].js() + ") : (" + e.sub[2].js() + "))"
	case eAsg:
		return "(" + varNames[e.n] + " = (" + e.sub[0].js() + "))"
	case eCmp:
		return "(" + varNames[e.n] + " " + binJS[e.op] + "= (" + e.sub[0].js() + "))"
	case eInc:
		op := "++"
		if e.dec {
			op = "--"
		}
		if e.pre {
			return "(" + op + varNames[e.n] + ")"
		}
		return "(" + varNames[e.n] + op + ")"
	}
	switch e.kind {
	case eUnres:
		return "nope"
	case eMem:
		return fmt.Sprintf("o%d.%s", e.n, []string{"", "", "x", "f"}[e.op])
	case eCall:
		return "(" + e.sub[0].js() + ")()"
	}
	if e.kind == eSetM {
		prop := []string{"valueOf", "toString"}[e.op]
		if e.m.inherit {
			return "(void (delete " + protoName(int64(e.n)) + "." + prop + "))"
		}
		return "(void (" + protoName(int64(e.n)) + "." + prop + " = " + e.m.js(e.n*2+e.op) + "))"
	}
	return "(log.push(" + strconv.Itoa(e.op) + "), (" + e.sub[0].js() + "))"
}

func (e *expr) coq() string {
	switch e.kind {
	case eLit:
		return "(L " + e.v.coq() + ")"
	case eVar:
		return fmt.Sprintf("(V %d)", e.n)
	case eUn:
		return fmt.Sprintf("(Un %d %s)", e.op, e.sub[0].coq())
	case eBin:
		return fmt.Sprintf("(Bi %d %s %s)", e.op, e.sub[0].coq(), e.sub[1].coq())
	case eCond:
		return fmt.Sprintf("(Cond %s %s %s)", e.sub[0].coq(), e.sub[1].coq(), e.sub[2].coq())
	case eAsg:
		return fmt.Sprintf("(Asg %d %s)", e.n, e.sub[0].coq())
	case eCmp:
		return fmt.Sprintf("(Cmp %d %d %s)", e.op, e.n, e.sub[0].coq())
	case eInc:
		return fmt.Sprintf("(Inc %s %s %d)", Cbool(e.pre), Cbool(e.dec), e.n)
	}
	switch e.kind {
	case eUnres:
		return "Unres"
	case eMem:
		return fmt.Sprintf("(Mem %d %d %s)", e.n, e.op, e.m.p.coq())
	case eCall:
		return "(Call " + e.sub[0].coq() + ")"
	}
	if e.kind == eSetM {
		return fmt.Sprintf("(SetM %d %d %s)", e.n, e.op, e.m.coq())
	}
	return fmt.Sprintf("(Lg %d %s)", e.op, e.sub[0].coq())
}

func lit(v value) *expr                 { return &expr{kind: eLit, v: v} }
func evar(n int) *expr                  { return &expr{kind: eVar, n: n} }
func un(op int, x *expr) *expr          { return &expr{kind: eUn, op: op, sub: []*expr{x}} }
func bin(op int, l, r *expr) *expr      { return &expr{kind: eBin, op: op, sub: []*expr{l, r}} }
func cond(c, t, f *expr) *expr          { return &expr{kind: eCond, sub: []*expr{c, t, f}} }
func asg(n int, x *expr) *expr          { return &expr{kind: eAsg, n: n, sub: []*expr{x}} }
func cmpd(op, n int, x *expr) *expr     { return &expr{kind: eCmp, op: op, n: n, sub: []*expr{x}} }
func inc(pre, dec bool, n int) *expr    { return &expr{kind: eInc, pre: pre, dec: dec, n: n} }
func logx(k int, x *expr) *expr         { return &expr{kind: eLog, op: k, sub: []*expr{x}} }
func pv(p prim) value                   { return value{p: p} }
func setm(id, which int, m meth) *expr  { return &expr{kind: eSetM, n: id, op: which, m: m} }

// ---------- generator ----------

type gen struct {
	env    *Env
	vm     *otto.Otto
	nextID int
	objs   []*obj
	force  map[string]interface{} // variables that must be injected through Otto.Set with this Go value
	p91    *obj                   // the two user prototype objects of the current case: o91 = {}, o92 = Object.create(o91)
	p92    *obj
	wproto *obj // Number/String/Boolean.prototype as seen by the single wrapper object of the current case
}

// fresh prototype objects for the next case
func (g *gen) resetCase() {
	g.wproto = nil
	g.force = nil
	g.objs = g.objs[:0]
	g.nextID = 0
	pm := func() meth {
		if g.r(5) < 2 {
			return meth{inherit: true}
		}
		return g.meth(false)
	}
	g.p91 = &obj{id: 91, base: "{}", chain: []int64{90}, fproto: -1, vo: pm(), ts: pm()}
	g.p92 = &obj{id: 92, base: "Object.create(o91)", chain: []int64{91, 90}, fproto: -1, vo: pm(), ts: pm()}
	if g.r(2) == 0 {
		g.p91.keys = append(g.p91.keys, g.keyName())
	}
	if g.r(3) == 0 {
		g.p92.keys = append(g.p92.keys, g.keyName())
	}
}

func (g *gen) r(n int) int { return g.env.Rng.Intn(n) }

var specialDoubles = []float64{
	math.NaN(), 0, math.Copysign(0, -1), math.Inf(1), math.Inf(-1), 1, -1, 0.5, -0.5, 1.5, -1.5, 2.5, 0.1, -0.1, 0.9999999999999999,
	2, 3, 7, 10, 31, 32, 33, 63, 64, 255, 256, 65535, 65536, 65537, 100, 1e21, 1e-6, 1e-7, 123456789, 1.7976931348623157e308, 5e-324,
	2.2250738585072014e-308, 2.225073858507201e-308, 9007199254740991, 9007199254740992, 9007199254740994, -9007199254740991, -9007199254740992,
	2147483647, 2147483648, 2147483649, -2147483648, -2147483649, -2147483647, 4294967295, 4294967296, 4294967297, -4294967295, -4294967296, -4294967297,
	2147483647.5, 2147483648.5, -2147483648.5, -2147483649.5, 4294967295.5, 4294967296.5, -0.9, 0.9, 1e10, 1e15, 1e16, 1e17, 1e20, 1e22, 1e300, -1e300,
	9223372036854775807, 9223372036854775808, 9223372036854777856, -9223372036854775808, -9223372036854777856, 18446744073709551616, 18446744073709555712,
	36893488147419103232, 9223372036854774784, -9223372036854774784, 3.141592653589793, 1e-300, 4.9406564584124654e-324, 0.000001, 0.0000001, 1e100,
	8640000000000000, 6442450944, 6442450943, 12884901888.75, 4398046511103,
}

func (g *gen) double() float64 {
	r := g.env.Rng
	switch r.Intn(14) {
	case 0, 1:
		return Pick(r, specialDoubles)
	case 2: // power of two neighbourhood
		k := Pick(r, []int{0, 1, 7, 8, 15, 16, 30, 31, 32, 33, 52, 53, 54, 62, 63, 64, 65, 95, 96, 127, 128, 1023, -1, -52, -1022, -1074})
		f := math.Ldexp(1, k)
		switch r.Intn(6) {
		case 0:
			f = math.Nextafter(f, math.Inf(1))
		case 1:
			f = math.Nextafter(f, 0)
		case 2:
			f = f + 1
		case 3:
			f = f - 1
		case 4:
			f = f + 0.5
		}
		if r.Intn(2) == 0 {
			f = -f
		}
		return f
	case 3: // random bit pattern
		return math.Float64frombits(r.Uint64())
	case 4: // small integers
		return float64(r.Intn(41) - 20)
	case 5: // int32 range
		return float64(int32(r.Uint32()))
	case 6: // multiples of 2^32 plus an int32-range offset: exercises the modular reduction
		return float64(int64(r.Intn(2000001)-1000000))*4294967296 + float64(int32(r.Uint32()))
	case 7: // beyond 2^53: integers with a low part in the kept bits
		k := 53 + r.Intn(30)
		m := (uint64(1) << 52) | (r.Uint64() & ((1 << 52) - 1))
		f := math.Ldexp(float64(m), k-52)
		if r.Intn(2) == 0 {
			f = -f
		}
		return f
	case 8: // around 2^63 / 2^64
		base := Pick(r, []float64{9223372036854775808, 18446744073709551616, 4611686018427387904})
		f := base
		n := r.Intn(9) - 4
		for i := 0; i < n; i++ {
			f = math.Nextafter(f, math.Inf(1))
		}
		for i := 0; i > n; i-- {
			f = math.Nextafter(f, 0)
		}
		if r.Intn(2) == 0 {
			f = -f
		}
		return f
	case 9: // fractions near integers
		return float64(r.Intn(2001)-1000) + Pick(r, []float64{0.5, -0.5, 0.25, 0.75, 0.999999999, 1e-9})
	case 10: // uint16/uint32 boundaries with fractions
		return Pick(r, []float64{65535, 65536, 4294967295, 4294967296, 2147483647, 2147483648, -2147483648, -65536}) + Pick(r, []float64{0, 0.5, -0.5, 1, -1, 0.99, -0.99}) + float64(r.Intn(3)-1)*4294967296*float64(r.Intn(5))
	case 11: // decimal-ish
		return float64(r.Intn(2000001)-1000000) / Pick(r, []float64{1, 10, 100, 1000, 8, 3})
	case 12: // wide exponent range with short mantissa
		return float64(r.Intn(999)+1) * math.Pow(10, float64(r.Intn(80)-40)) * float64(1-2*r.Intn(2))
	default:
		return float64(r.Int63n(1<<53)) * float64(1-2*r.Intn(2))
	}
}

var wsUnits = []uint16{9, 10, 11, 12, 13, 32, 160, 0x1680, 0x2000, 0x2001, 0x2005, 0x200A, 0x2028, 0x2029, 0x202F, 0x205F, 0x3000, 0xFEFF}

var fixedStrings = []string{
	"", " ", "0", "-0", "+0", "1", "-1", "+1", "12", "007", "1.5", ".5", "5.", "-.5", "+.5", ".", "+", "-", "+.", "e5", "1e", "1e+", "1e5", "1E5", "1e-5", "1e+5", "1.5e3", ".5e1", "5.e1",
	"1e400", "-1e400", "1e-400", "-1e-400", "1e21", "1e-7", "Infinity", "+Infinity", "-Infinity", "infinity", "INFINITY", "Inf", "inf", "+inf", "-inf", "-INF", "+infinity", "Infinit", "Infinityx", "infin",
	"NaN", "nan", "+nan", "-NaN", "NAN", "0x10", "0X1f", "0xFF", "0x", "0xg", "0x1g", "-0x10", "+0x10", "0x1.8p1", "0x1p3", "+0x1p3", "-0x1p-2", "0x.8p1", "0x1.p1", "0x1.8", "0X1.8P1",
	"0x7fffffffffffffff", "0x8000000000000000", "0xffffffffffffffff", "0x10000000000000000", "0x20000000000001", "0x1fffffffffffff", "0x100000000", "0xFFFFFFFF", "0x80000000", "0x000000000000000000001",
	"1_0", "1_000", "1__0", "_1", "1_", "1_.5", "1._5", "1.5_5", "1e1_0", "1e_1", "0x1_0", "0x_1", "0x1_", "0_1", "1_0.0_1",
	"0b11", "0o17", "017", "1 2", "- 1", "+ 1", "+-1", "--1", "1,5", "1.2.3", "1e5.5", "1e5e5", "12px", "px12", "abc", "a", "b", "A", "aa", "ab", "B", "true", "false", "null", "undefined", "[object Object]",
	"9007199254740993", "9007199254740992", "9007199254740991", "18446744073709551616", "4294967296", "2147483648", "-2147483649", "1.7976931348623157e308", "1.7976931348623159e308", "1.797693134862315807e308",
	"4.9e-324", "2.4703282292062327e-324", "2.4703282292062328e-324", "5e-324", "2e-324", "0.1", "0.30000000000000004", "123456789012345678901", "1234567890123456789012", "0.000000000000000000001",
	" 12\ufeff", "\t\n12\r\n", "1 ", "\u200b1", "1\u200b", "\u180e1", "\uff11", "\u0661", "\u00e9", "\uffff", "\ue000", "\U00010000", "\U0010FFFF", "a\uffff", "a\U00010000", "\uff61", "\ud7ff", "\U00010000a", "\uffffa", "z", "~", "\u007f", "\u0080", "\u07ff", "\u0800", "\u00a012\u3000",
}

func (g *gen) numericString() []uint16 {
	r := g.env.Rng
	var s string
	switch r.Intn(12) {
	case 0, 1:
		s = Pick(r, fixedStrings)
	case 2: // shortest decimal of a generated double
		s = strconv.FormatFloat(g.double(), 'g', -1, 64)
	case 3: // integer text
		s = strconv.FormatInt(int64(g.double()), 10)
		if r.Intn(4) == 0 {
			s = strings.Repeat("0", r.Intn(4)) + s
		}
	case 4: // hex
		v := r.Uint64() >> uint(r.Intn(64))
		if r.Intn(4) == 0 {
			v = Pick(r, []uint64{1 << 31, 1 << 32, 1 << 53, 1<<53 + 1, 1<<63 - 1, 1 << 63, 1<<63 + 1, 1<<64 - 1, 1<<63 - 512, 1<<63 - 513}) + uint64(r.Intn(3)) - 1
		}
		s = Pick(r, []string{"0x", "0X"}) + strconv.FormatUint(v, 16)
		if r.Intn(3) == 0 {
			s = strings.ToUpper(s[2:])
			s = "0x" + s
		}
		if r.Intn(10) == 0 {
			s = s + strconv.FormatUint(r.Uint64(), 16)
		}
	case 5: // digits . digits e exp
		ip := strconv.Itoa(r.Intn(100000))
		fp := strconv.Itoa(r.Intn(100000))
		switch r.Intn(4) {
		case 0:
			s = ip + "." + fp
		case 1:
			s = "." + fp
		case 2:
			s = ip + "."
		default:
			s = ip
		}
		if r.Intn(2) == 0 {
			s += Pick(r, []string{"e", "E"}) + Pick(r, []string{"", "+", "-"}) + strconv.Itoa(r.Intn(Pick(r, []int{5, 30, 330, 400})))
		}
		s = Pick(r, []string{"", "", "+", "-"}) + s
	case 6: // exact decimal expansion of a tie between two doubles (rounding boundary), up to 20 significant digits
		m := uint64(1)<<52 | r.Uint64()&(1<<52-1)
		k := r.Intn(12)
		// (2m+1) * 2^(k-1) for k>=1 is an integer midpoint between m*2^k and (m+1)*2^k
		v := new(strconvBig).mid(m, k)
		s = v
		if len(strings.TrimRight(s, "0")) > 20 {
			s = strconv.FormatFloat(math.Ldexp(float64(m), k), 'f', -1, 64)
		}
	case 7: // mutate a fixed string: one random edit
		u := []rune(Pick(r, fixedStrings))
		alphabet := []rune("0123456789.eE+-xX_ pPiInNaAfF")
		if len(u) > 0 && r.Intn(2) == 0 {
			u[r.Intn(len(u))] = Pick(r, alphabet)
		} else {
			i := r.Intn(len(u) + 1)
			u = append(u[:i], append([]rune{Pick(r, alphabet)}, u[i:]...)...)
		}
		s = string(u)
	case 8: // Go-only spellings
		s = Pick(r, []string{"", "+", "-"}) + Pick(r, []string{"inf", "Inf", "INF", "infinity", "Infinity", "INFINITY", "iNfInItY", "infinit", "nan", "NaN"})
	case 9: // underscores inside otherwise valid literals
		s = strconv.Itoa(r.Intn(1000)) + "_" + strconv.Itoa(r.Intn(1000))
		if r.Intn(2) == 0 {
			s += "." + strconv.Itoa(r.Intn(100))
		}
		if r.Intn(3) == 0 {
			s = "0x" + s
		}
	case 10: // hex floats
		s = Pick(r, []string{"", "+", "-", ""}) + "0x" + strconv.FormatUint(uint64(r.Intn(4096)), 16) + Pick(r, []string{"", ".", ".8", ".c"}) + Pick(r, []string{"p", "P", ""}) + Pick(r, []string{"", "+", "-"}) + strconv.Itoa(r.Intn(70))
	default: // random short string over the numeric alphabet
		n := r.Intn(6) + 1
		alphabet := []rune("0123456789.eE+-xX_ iInfNa")
		u := make([]rune, n)
		for i := range u {
			u[i] = Pick(r, alphabet)
		}
		s = string(u)
	}
	u := Units(s)
	if r.Intn(4) == 0 { // white space padding
		for i := r.Intn(3); i >= 0; i-- {
			u = append([]uint16{Pick(r, wsUnits)}, u...)
		}
		for i := r.Intn(3); i > 0; i-- {
			u = append(u, Pick(r, wsUnits))
		}
	}
	return u
}

// exact decimal text of (2m+1) * 2^(k-1), k >= 1, or of m*2^0 when k == 0
type strconvBig struct{}

func (*strconvBig) mid(m uint64, k int) string {
	if k == 0 {
		return strconv.FormatUint(m, 10)
	}
	// decimal digits, little endian
	d := []int{}
	v := 2*m + 1
	for v > 0 {
		d = append(d, int(v%10))
		v /= 10
	}
	for i := 0; i < k-1; i++ {
		carry := 0
		for j := range d {
			x := d[j]*2 + carry
			d[j] = x % 10
			carry = x / 10
		}
		if carry > 0 {
			d = append(d, carry)
		}
	}
	var b strings.Builder
	for j := len(d) - 1; j >= 0; j-- {
		b.WriteByte(byte('0' + d[j]))
	}
	return b.String()
}

var cmpStrings = []string{"", "a", "b", "A", "aa", "ab", "a ", "B", "10", "9", "1", "2", "-1", "\u00e9", "\uffff", "\ue000", "\U00010000", "\U0010FFFF", "a\uffff", "a\U00010000", "\uff61", "\ud7ff", "\U00010000a", "\uffffa", "z", "~", "\u007f", "\u0080", "\u07ff", "\u0800", "\U0001F600", "\ufffd", "\U00010000", "\uf000"}

func (g *gen) prim() prim {
	r := g.env.Rng
	switch r.Intn(16) {
	case 0:
		return pUndef()
	case 1:
		return pNull()
	case 2:
		return pBool(r.Intn(2) == 0)
	case 3, 4, 5, 6, 7, 8:
		return pNum(g.double())
	case 9, 10, 11, 12:
		return pUnits(g.numericString())
	case 13:
		return pStr(Pick(r, cmpStrings))
	case 14:
		return pNum(float64(r.Intn(7) - 3))
	default:
		return pStr(Pick(r, fixedStrings))
	}
}

func (g *gen) meth(sideEffects bool) meth {
	r := g.env.Rng
	m := meth{present: true, setv: -1}
	switch r.Intn(10) {
	case 0:
		m.present = false
		return m
	case 1:
		m.ret = retObj
	case 2:
		if r.Intn(2) == 0 {
			m.ret = retThrow
		} else {
			m.ret = retObj
		}
	default:
		m.ret = retPrim
		m.p = g.prim()
	}
	if sideEffects && r.Intn(2) == 0 {
		m.setv = r.Intn(3)
		m.setp = g.prim()
	}
	return m
}

func (g *gen) object(sideEffects bool) value {
	r := g.env.Rng
	if r.Intn(12) == 0 { // the prototype objects themselves
		if r.Intn(2) == 0 {
			return value{o: g.p91}
		}
		return value{o: g.p92}
	}
	g.nextID++
	o := &obj{id: g.nextID, fproto: -1}
	switch r.Intn(9) {
	case 0:
		o.cls, o.base, o.chain = 1, "new Date(0)", []int64{84, 90}
	case 1, 8:
		o.cls, o.base, o.chain = 2, "function(){}", []int64{89, 90}
		if r.Intn(4) == 0 {
			o.cls = 4
		}
		switch r.Intn(4) {
		case 0:
			o.fproto = 91
		case 1:
			o.fproto = 92
		case 2:
			o.fproto = 0
		default:
			o.fproto = int64(1000 + o.id)
			if o.cls == 4 {
				o.fproto = 92
			}
		}
	case 2:
		o.base, o.chain = "Object.create(o91)", []int64{91, 90}
	case 3:
		o.base, o.chain = "Object.create(o92)", []int64{92, 91, 90}
	default:
		o.base, o.chain = "{}", []int64{90}
	}
	o.vo = g.meth(sideEffects)
	o.ts = g.meth(sideEffects)
	if o.cls == 0 { // plain objects may leave the conversion methods to their prototype chain
		if r.Intn(4) == 0 {
			o.vo = meth{inherit: true}
		}
		if r.Intn(4) == 0 {
			o.ts = meth{inherit: true}
		}
	}
	if r.Intn(3) == 0 {
		for i := r.Intn(4); i >= 0; i-- {
			o.keys = append(o.keys, g.keyName())
		}
	}
	g.objs = append(g.objs, o)
	return value{o: o}
}

// built-in objects and instances, for instanceof / typeof / strict equality only
var builtins = []*obj{
	{id: 90, jsname: "Object.prototype", chain: nil, fproto: -1},
	{id: 89, cls: 2, jsname: "Function.prototype", chain: []int64{90}, fproto: 0},
	{id: 88, jsname: "Array.prototype", chain: []int64{90}, fproto: -1},
	{id: 87, cls: 2, jsname: "Object", chain: []int64{89, 90}, fproto: 90},
	{id: 86, cls: 2, jsname: "Function", chain: []int64{89, 90}, fproto: 89},
	{id: 85, cls: 2, jsname: "Array", chain: []int64{89, 90}, fproto: 88},
	{id: 83, jsname: "Error.prototype", chain: []int64{90}, fproto: -1},
	{id: 82, jsname: "TypeError.prototype", chain: []int64{83, 90}, fproto: -1},
	{id: 81, cls: 2, jsname: "Error", chain: []int64{89, 90}, fproto: 83},
	{id: 80, cls: 2, jsname: "TypeError", chain: []int64{89, 90}, fproto: 82},
	{id: 79, jsname: "[1, 2]", chain: []int64{88, 90}, fproto: -1},
	{id: 78, jsname: "(new TypeError(\"x\"))", chain: []int64{82, 83, 90}, fproto: -1},
	{id: 77, jsname: "(new Object())", chain: []int64{90}, fproto: -1},
	{id: 76, cls: 2, jsname: "(new Function(\"return 1\"))", chain: []int64{89, 90}, fproto: 1076},
}

var keyNames = []string{"0", "1", "-1", "NaN", "Infinity", "-Infinity", "undefined", "null", "true", "false", "1.5", "4294967296", "1e+21", "1e-7", "", "a", "12", "0.1", "9007199254740992", "-0"}

func (g *gen) keyName() []uint16 { return Units(Pick(g.env.Rng, keyNames)) }

func (g *gen) value(objects, sideEffects bool) value {
	if objects && g.r(4) == 0 {
		return g.object(sideEffects)
	}
	return pv(g.prim())
}

// a leaf: literal value or variable
func (g *gen) leaf(objects, sideEffects bool) *expr {
	if g.r(3) == 0 {
		return evar(g.r(3))
	}
	return lit(g.value(objects, sideEffects))
}

var arithOps = []int{0, 1, 2, 3, 4}
var intOps = []int{5, 6, 7, 8, 9, 10}
var cmpOps = []int{11, 12, 13, 14, 15, 16, 17, 18}

func (g *gen) anyBinOp() int {
	r := g.env.Rng
	switch r.Intn(10) {
	case 0, 1, 2:
		return Pick(r, arithOps)
	case 3, 4:
		return Pick(r, intOps)
	case 5, 6, 7:
		return Pick(r, cmpOps)
	case 8:
		return Pick(r, []int{21, 22, 23})
	default:
		return Pick(r, []int{19, 20, 0, 15})
	}
}

func (g *gen) tree(depth int, objects, sideEffects bool) *expr {
	r := g.env.Rng
	if depth <= 0 {
		return g.leaf(objects, sideEffects)
	}
	switch r.Intn(14) {
	case 0, 1, 2, 3, 4:
		return bin(g.anyBinOp(), g.tree(depth-1, objects, sideEffects), g.tree(depth-1, objects, sideEffects))
	case 5, 6:
		return un(r.Intn(12), g.tree(depth-1, objects, sideEffects))
	case 7:
		return cond(g.tree(depth-1, objects, sideEffects), g.tree(depth-1, objects, sideEffects), g.tree(depth-1, objects, sideEffects))
	case 8:
		return asg(r.Intn(3), g.tree(depth-1, objects, sideEffects))
	case 9, 10:
		return cmpd(r.Intn(11), r.Intn(3), g.tree(depth-1, objects, sideEffects))
	case 11:
		return inc(r.Intn(2) == 0, r.Intn(2) == 0, r.Intn(3))
	case 12:
		return logx(900+r.Intn(90), g.tree(depth-1, objects, sideEffects))
	default:
		return g.leaf(objects, sideEffects)
	}
}

// ---------- running a case ----------

const prelude = `var GLOBAL = this; var PROBE = function(){ return this === GLOBAL ? 0 : (this !== undefined && this !== null && this.__id) || -1; }; PROBE.__id = 70; var log = [], r, st, a, b, c; function __set_a(x){ a = x; } function __set_b(x){ b = x; } function __set_c(x){ c = x; } var OPV = Object.prototype.valueOf, OPT = Object.prototype.toString; var ORIG = {'Number.prototype.valueOf': Number.prototype.valueOf, 'Number.prototype.toString': Number.prototype.toString, 'String.prototype.valueOf': String.prototype.valueOf, 'String.prototype.toString': String.prototype.toString, 'Boolean.prototype.valueOf': Boolean.prototype.valueOf, 'Boolean.prototype.toString': Boolean.prototype.toString};`

func (g *gen) readVal(v otto.Value) string {
	switch {
	case v.IsUndefined():
		return "(OP PUndef)"
	case v.IsNull():
		return "(OP PNull)"
	case v.IsBoolean():
		b, _ := v.ToBoolean()
		return "(OP (PBool " + Cbool(b) + "))"
	case v.IsNumber():
		f, _ := v.ToFloat()
		return "(OP (PNum " + Cdouble(f) + "))"
	case v.IsString():
		s, _ := v.ToString()
		return "(OP (PStr " + Cstr(s) + "))"
	case v.IsObject():
		idv, err := v.Object().Get("__id")
		if err != nil {
			return "(OO (-1))"
		}
		id, _ := idv.ToInteger()
		return "(OO " + Cz(id) + ")"
	}
	return "(OO (-2))"
}

// how a primitive initial value reaches the variable: as literal text or through Otto.Set with a Go representation
func (g *gen) setVar(name string, p prim, src *strings.Builder) string {
	r := g.env.Rng
	pickRoute := func() int {
		if r.Intn(2) == 0 {
			return 0
		}
		return r.Intn(numRoutes)
	}
	if gv, ok := g.force[name]; ok {
		delete(g.force, name)
		inj, isInj := gv.(injection)
		if !isInj {
			inj = injection{gv: gv, named: r.Intn(3) == 0, route: pickRoute()}
		}
		if desc, err := enterAny(g.vm, name, inj.gv, inj.named, inj.route, src); err == nil {
			return name + ":=" + desc
		}
	}
	if r.Intn(3) == 0 {
		var gv interface{}
		how := ""
		switch p.kind {
		case kBool:
			gv, how = p.b, "bool"
		case kStr:
			ok := true
			for _, u := range p.s {
				if u >= 0xD800 && u <= 0xDFFF {
					ok = false // surrogates only travel as literal text
				}
			}
			if ok {
				gv, how = string(utf16Decode(p.s)), "string"
			}
		case kNum:
			f := p.f
			isInt := f == math.Trunc(f) && !math.IsInf(f, 0) && !(f == 0 && math.Signbit(f))
			var cands []interface{}
			var names []string
			add := func(v interface{}, n string) { cands = append(cands, v); names = append(names, n) }
			add(f, "float64")
			if isInt {
				if f >= -128 && f <= 127 {
					add(int8(f), "int8")
				}
				if f >= 0 && f <= 255 {
					add(uint8(f), "uint8")
				}
				if f >= -32768 && f <= 32767 {
					add(int16(f), "int16")
				}
				if f >= 0 && f <= 65535 {
					add(uint16(f), "uint16")
				}
				if f >= -2147483648 && f <= 2147483647 {
					add(int32(f), "int32")
				}
				if f >= 0 && f <= 4294967295 {
					add(uint32(f), "uint32")
				}
				if math.Abs(f) < 9007199254740992 {
					add(int64(f), "int64")
					add(int(f), "int")
				}
				if f >= 0 && f < 9007199254740992 {
					add(uint64(f), "uint64")
					add(uint(f), "uint")
				}
			}
			if float64(float32(f)) == f && f32ok(float32(f)) {
				add(float32(f), "float32")
			}
			i := r.Intn(len(cands))
			gv, how = cands[i], names[i]
		}
		if how != "" {
			if desc, err := enterAny(g.vm, name, gv, r.Intn(3) == 0, pickRoute(), src); err == nil {
				return name + ":=" + desc
			}
		}
	}
	fmt.Fprintf(src, "%s = %s; ", name, p.js())
	return ""
}

// one case = one line of text: control and line-separator characters are escaped
func sanitize(s string) string {
	var b strings.Builder
	for _, c := range s {
		if c < 0x20 || c == 0x7f || c == 0x85 || c == 0x2028 || c == 0x2029 || c == 0xFEFF || c == 0xFFFD {
			fmt.Fprintf(&b, "\\u{%04X}", c)
		} else {
			b.WriteRune(c)
		}
	}
	return b.String()
}

func utf16Decode(u []uint16) []rune {
	out := make([]rune, 0, len(u))
	for i := 0; i < len(u); i++ {
		c := rune(u[i])
		if c >= 0xD800 && c <= 0xDBFF && i+1 < len(u) && u[i+1] >= 0xDC00 && u[i+1] <= 0xDFFF {
			c = 0x10000 + (c-0xD800)<<10 + rune(u[i+1]-0xDC00)
			i++
		}
		out = append(out, c)
	}
	return out
}

func (g *gen) runCase(vars [3]value, e *expr, bucket string, nontrivial bool) {
	var src strings.Builder
	src.WriteString("log = []; r = undefined; ")
	src.WriteString(g.p91.define())
	src.WriteString(g.p92.define())
	for _, o := range g.objs {
		src.WriteString(o.define())
	}
	var sets []string
	for i, v := range vars {
		if v.o != nil {
			fmt.Fprintf(&src, "%s = o%d; ", varNames[i], v.o.id)
		} else if s := g.setVar(varNames[i], v.p, &src); s != "" {
			sets = append(sets, s)
		}
	}
	fmt.Fprintf(&src, "st = 0; try { r = %s; } catch (e) { r = undefined; st = (typeof e === 'number') ? e : (e instanceof TypeError) ? 6 : (e instanceof ReferenceError) ? 4 : (e instanceof RangeError) ? 3 : (e instanceof SyntaxError) ? 5 : 1; } Object.prototype.valueOf = OPV; Object.prototype.toString = OPT;", e.js())
	if g.wproto != nil {
		n := g.wproto.jsname
		fmt.Fprintf(&src, " Object.defineProperty(%s, 'valueOf', {value: ORIG['%s.valueOf'], writable: true, enumerable: false, configurable: true}); Object.defineProperty(%s, 'toString', {value: ORIG['%s.toString'], writable: true, enumerable: false, configurable: true});", n, n, n, n)
	}
	o := RunJS(g.vm, src.String())
	status := int64(0)
	res := "(OP PUndef)"
	fin := []string{"(OP PUndef)", "(OP PUndef)", "(OP PUndef)"}
	lg := []int64{}
	obsText := ""
	if o.Panic != nil || o.Err != nil {
		status = ErrClass(o) + 9000
		obsText = fmt.Sprintf("host-level failure: err=%v panic=%v", o.Err, o.Panic)
	} else {
		get := func(n string) otto.Value {
			out := Guard(func() (otto.Value, error) { return g.vm.Get(n) })
			return out.Val
		}
		stv, _ := get("st").ToInteger()
		status = stv
		res = g.readVal(get("r"))
		for i, n := range varNames {
			fin[i] = g.readVal(get(n))
		}
		ls := RunJS(g.vm, `log.join(",")`)
		if ls.Err == nil && ls.Panic == nil {
			if t := ls.Val.String(); t != "" {
				for _, p := range strings.Split(t, ",") {
					k, _ := strconv.ParseInt(p, 10, 64)
					lg = append(lg, k)
				}
			}
		}
		rs := RunJS(g.vm, `(function(v){ return typeof v === 'string' ? JSON.stringify(v) : (typeof v === 'object' || typeof v === 'function') && v !== null ? '[object #' + v.__id + ']' : (1/v === -Infinity ? '-0' : String(v)); })(r)`)
		obsText = fmt.Sprintf("st=%d r=%s log=%v", status, rs.Val.String(), lg)
	}
	vs := make([]string, 3)
	for i, v := range vars {
		vs[i] = v.coq()
	}
	pss := []string{value{o: g.p91}.coq(), value{o: g.p92}.coq()}
	if g.wproto != nil {
		pss = append(pss, value{o: g.wproto}.coq())
	}
	coq := fmt.Sprintf("CExpr %s %s %s %s %s %s %s", Clist(pss), Clist(vs), e.coq(), Cz(status), res, Clist(fin), Czlist(lg))
	txt := src.String()
	if len(sets) > 0 {
		txt = "[" + strings.Join(sets, "; ") + "] " + txt
	}
	g.env.Add(coq, sanitize(txt+"  ==>  "+obsText), bucket, nontrivial)
	g.resetCase()
}

func (g *gen) vars(objects, sideEffects bool) [3]value {
	return [3]value{g.value(objects, sideEffects), g.value(objects, sideEffects), g.value(objects, sideEffects)}
}

// an operand expression for v: half of the time through a variable, so that the
// value also arrives via Otto.Set in one of Go's numeric representations
func (g *gen) operand(v value, vars *[3]value, slot int) *expr {
	if g.r(2) == 0 {
		vars[slot] = v
		return evar(slot)
	}
	return lit(v)
}

// a number in one of the Go representations otto keeps un-normalised inside a Value,
// at the boundaries of that representation; returns the Go value and the double it denotes
func (g *gen) goNumber() (interface{}, float64) {
	r := g.env.Rng
	pick := func(vals ...int64) int64 {
		if r.Intn(3) == 0 {
			lo, hi := vals[0], vals[1]
			if hi-lo > 0 && hi-lo < 1<<53 {
				return lo + r.Int63n(hi-lo+1)
			}
		}
		return Pick(r, vals)
	}
	switch r.Intn(11) {
	case 0:
		v := int8(pick(-128, 127, -1, 0, 1, -2, 64, -64))
		return v, float64(v)
	case 1:
		v := uint8(pick(0, 255, 1, 128, 127, 254))
		return v, float64(v)
	case 2:
		v := int16(pick(-32768, 32767, -1, 0, 1, 256, -256, 255))
		return v, float64(v)
	case 3:
		v := uint16(pick(0, 65535, 1, 32768, 32767, 256))
		return v, float64(v)
	case 4:
		v := int32(pick(-2147483648, 2147483647, -1, 0, 1, 65536, -65536, 2147483646))
		return v, float64(v)
	case 5:
		v := uint32(pick(0, 4294967295, 1, 2147483648, 2147483647, 4294967294, 65536))
		return v, float64(v)
	case 6:
		v := pick(-9007199254740991, 9007199254740991, -1, 0, 1, 4294967296, -4294967296, 2147483648, -2147483649, 4294967295)
		return v, float64(v)
	case 7:
		v := int(pick(-9007199254740991, 9007199254740991, -1, 0, 1, 4294967296, -4294967296, 2147483648, -2147483649, 4294967295))
		return v, float64(v)
	case 8:
		v := uint64(pick(0, 9007199254740991, 1, 4294967296, 4294967295, 2147483648))
		return v, float64(v)
	case 9:
		v := uint(pick(0, 9007199254740991, 1, 4294967296, 4294967295, 2147483648))
		return v, float64(v)
	default:
		for {
			v := Pick(r, []float32{0, float32(math.Copysign(0, -1)), 1.5, -1.5, 16777216, 16777217, float32(math.Inf(1)), float32(math.NaN()), 3.4028235e38, 1e-45, 0.1, -2147483648, 4294967296})
			if f32ok(v) {
				return v, float64(v)
			}
		}
	}
}

// one of several spellings (number, string forms, boolean, wrapper object) of the same numeric value:
// pairs of them are where ==, <= and >= have to come out true
func (g *gen) spelling(n float64, depth int) value {
	r := g.env.Rng
	txt := strconv.FormatFloat(n, 'f', -1, 64)
	switch r.Intn(9) {
	case 0, 1:
		return num(n)
	case 2:
		return str(txt)
	case 3:
		forms := []string{" " + txt + " ", txt + ".0", txt + "e0", "+" + txt, "0" + txt, "\t" + txt + "\n"}
		if n >= 0 && n == math.Trunc(n) && n < 1e15 {
			forms = append(forms, "0x"+strconv.FormatInt(int64(n), 16), "0X"+strings.ToUpper(strconv.FormatInt(int64(n), 16)))
		}
		if n < 0 {
			forms = []string{" " + txt, txt + ".0", txt + "e0", txt + "e+0"}
		}
		return str(Pick(r, forms))
	case 4, 8:
		if n == 0 || n == 1 {
			return pv(pBool(n == 1))
		}
		return num(n)
	case 5, 6:
		if depth > 0 {
			inner := g.spelling(n, 0)
			o := g.object(false).o
			o.vo = meth{present: true, setv: -1, ret: retPrim, p: inner.p}
			if r.Intn(3) == 0 { // valueOf unusable: falls through to toString
				o.ts = o.vo
				o.vo = meth{present: r.Intn(2) == 0, setv: -1, ret: retObj}
			}
			return value{o: o}
		}
		return num(n)
	case 7:
		if n == 0 {
			return str(Pick(r, []string{"", " ", "-0", "0.0", "\n"}))
		}
		return str(txt)
	default:
		if n == 0 {
			return num(math.Copysign(0, -1))
		}
		return num(n)
	}
}

var corePrims = []prim{
	pUndef(), pNull(), pBool(true), pBool(false),
	pNum(math.NaN()), pNum(0), pNum(math.Copysign(0, -1)), pNum(math.Inf(1)), pNum(math.Inf(-1)), pNum(1), pNum(-1), pNum(0.5), pNum(-0.5), pNum(2), pNum(-2), pNum(3), pNum(-3),
	pNum(31), pNum(32), pNum(33), pNum(-31), pNum(2147483647), pNum(2147483648), pNum(-2147483648), pNum(-2147483649), pNum(4294967295), pNum(4294967296), pNum(-4294967296),
	pNum(9007199254740992), pNum(-9007199254740992), pNum(9223372036854775808), pNum(-9223372036854775808), pNum(1.7976931348623157e308), pNum(-1.7976931348623157e308), pNum(5e-324), pNum(-5e-324),
	pStr(""), pStr("0"), pStr("-0"), pStr("1"), pStr(" "), pStr("a"), pStr("NaN"), pStr("Infinity"), pStr("-Infinity"), pStr("0x10"), pStr("1e3"), pStr("null"), pStr("true"), pStr("undefined"), pStr("2147483648"), pStr("-1"),
}

func num(f float64) value   { return pv(pNum(f)) }
func str(s string) value    { return pv(pStr(s)) }

// pinned witnesses of the recorded findings, open (classes 2, 3, 7) and repaired (ToInt32 beyond 2^63: 02e659b, string < by code units: b6ed2ef,
// a + b order: 0c8f777, x op= e order: 3657e0a, instanceof on a bound function: ea21c58; these now expect the
// ES5 result and a relapse is a violation); they run first on every seed
func (g *gen) pinned() {
	u := [3]value{pv(pUndef()), pv(pUndef()), pv(pUndef())}
	// repaired (02e659b): ToInt32 / ToUint32 / ToUint16 beyond 2^63
	g.runCase(u, bin(6, lit(num(9223372036854777856)), lit(num(0))), "pinned", true)
	g.runCase(u, un(11, lit(num(9223372036854777856))), "pinned", true)
	g.runCase(u, un(9, lit(num(-9223372036854777856))), "pinned", true)
	// class 2: ToNumber over-acceptance
	for _, s := range []string{"inf", "INFINITY", "1_0", "0x1.8p1", "+0x1p3", "0x1_0"} {
		g.runCase(u, un(6, lit(str(s))), "pinned", true)
	}
	// class 3: hex literal >= 2^63
	g.runCase(u, un(0, lit(str("0x8000000000000000"))), "pinned", true)
	// repaired (b6ed2ef): string comparison by code units
	g.runCase(u, bin(15, lit(str("\uffff")), lit(str("\U00010000"))), "pinned", true)
	// repaired (0c8f777): a + b with a.valueOf writing b
	g.nextID = 1
	o := &obj{id: 1, base: "{}", chain: []int64{90}, fproto: -1, vo: meth{present: true, setv: 1, setp: pNum(10), ret: retPrim, p: pNum(1)}, ts: meth{present: true, setv: -1, ret: retPrim, p: pStr("x")}}
	g.objs = append(g.objs, o)
	g.runCase([3]value{{o: o}, num(2), num(0)}, bin(0, evar(0), evar(1)), "pinned", true)
	// regression witness of the repaired compound-assignment order (commit 3657e0a): x += (x = 5, 1)
	g.runCase([3]value{num(1), num(0), num(0)}, cmpd(0, 0, bin(23, asg(0, lit(num(5))), lit(num(1)))), "pinned", true)
}

// number values that otto holds as Go integers: integer literals of 2^53 and
// more in the source text, integers handed over through Otto.Set
func (g *gen) intRepr(n int64, how int) {
	var src, txt string
	if how < 3 && n < 0 {
		n = -n // there are no negative literals: -N is a unary minus and yields a float64
	}
	lit := strconv.FormatInt(n, 10)
	switch how {
	case 0:
		src = "String(" + lit + ")"
	case 1:
		src = "(" + lit + " + \"\")"
	case 2:
		src = "(\"\" + " + lit + ")"
	case 3:
		Must(g.vm.Set("a", n))
		src, txt = "String(a)", fmt.Sprintf("[a:=Set(int64 %d)] ", n)
	default:
		if n < 0 {
			n = -n
		}
		Must(g.vm.Set("a", uint64(n)))
		src, txt = "(a + \"\")", fmt.Sprintf("[a:=Set(uint64 %d)] ", n)
	}
	o := RunJS(g.vm, src)
	obs := "[33]"
	ot := fmt.Sprintf("err=%v panic=%v", o.Err, o.Panic)
	if o.Err == nil && o.Panic == nil && o.Val.IsString() {
		obs, ot = Cstr(o.Val.String()), o.Val.String()
	}
	g.env.Add(fmt.Sprintf("CIntStr %s %s", Cz(n), obs), sanitize(txt+src+"  ==>  "+ot), "intrepr", true)
}

// ---- numbers in every internal representation ----
// otto keeps a number in whatever Go kind produced it (integer literal: int64, | & ^ ~ << >>: int32, >>>: uint32,
// .length: int, Otto.Set: the Go kind given, everything else float64).  An operand for the integer n is built in one
// of these representations; the Coq side evaluates the same expression, so the value is whatever ES5 makes of it.

var reprBoundaries = []int64{0, 1, -1, 2, -2, 3, 7, 255, 256, 65535, 65536, 2147483646, 2147483647, 2147483648, 2147483649, -2147483647, -2147483648, -2147483649,
	4294967295, 4294967296, 4294967297, -4294967296, 9007199254740991, 9007199254740992, 9007199254740993, 9007199254740995, -9007199254740993, 4611686018427387904,
	9223372036854775807, 9223372036854775806, -9223372036854775807, 1152921504606846977, 6442450944, -6442450944, 12884901888}

func (g *gen) reprOperand(n int64, vs *[3]value, slot int) *expr {
	r := g.env.Rng
	f := float64(n)
	plain := lit(num(f))
	switch r.Intn(12) {
	case 0:
		return plain
	case 1, 2: // integer literal text (negative: unary minus of the literal, which yields a float64)
		if n >= 0 {
			return lit(pv(prim{kind: kNum, f: f, lit: strconv.FormatInt(n, 10)}))
		}
		if n > math.MinInt64 {
			return un(1, lit(pv(prim{kind: kNum, f: float64(-n), lit: strconv.FormatInt(-n, 10)})))
		}
		return plain
	case 3: // int32 results
		switch r.Intn(5) {
		case 0:
			return bin(6, plain, lit(num(0)))
		case 1:
			return bin(9, plain, lit(num(0)))
		case 2:
			return bin(8, plain, lit(num(0)))
		case 3:
			return bin(7, plain, lit(num(0)))
		default:
			return bin(5, plain, lit(num(-1)))
		}
	case 4: // ~(~n) and ~(n-ish)
		if r.Intn(2) == 0 {
			return un(2, un(2, plain))
		}
		return un(2, lit(num(float64(-n-1))))
	case 5: // uint32 result
		return un(11, plain)
	case 6, 7, 8: // Go kinds through Otto.Set
		var cands []interface{}
		add := func(v interface{}) { cands = append(cands, v) }
		add(int(n))
		add(n)
		if n >= -128 && n <= 127 {
			add(int8(n))
		}
		if n >= -32768 && n <= 32767 {
			add(int16(n))
		}
		if n >= -2147483648 && n <= 2147483647 {
			add(int32(n))
		}
		if n >= 0 {
			add(uint64(n))
			add(uint(n))
			if n <= 255 {
				add(uint8(n))
			}
			if n <= 65535 {
				add(uint16(n))
			}
			if n <= 4294967295 {
				add(uint32(n))
			}
		}
		if float64(float32(f)) == f && f32ok(float32(f)) {
			add(float32(f))
		}
		add(f)
		if g.force == nil {
			g.force = map[string]interface{}{}
		}
		if _, taken := g.force[varNames[slot]]; taken {
			return plain
		}
		g.force[varNames[slot]] = Pick(r, cands)
		vs[slot] = num(f)
		return evar(slot)
	case 9: // .length of a string: Go int
		if n >= 0 && n <= 40 {
			return un(12, lit(str(strings.Repeat("a", int(n)))))
		}
		return plain
	case 10: // float64 holding the integer
		switch r.Intn(3) {
		case 0:
			return bin(2, plain, lit(num(1)))
		case 1:
			return un(0, plain)
		default:
			return bin(3, plain, lit(num(1)))
		}
	default: // assigned to a variable first: a = (n|0), then used
		vs[slot] = pv(pUndef())
		return bin(23, asg(slot, bin(6, plain, lit(num(0)))), evar(slot))
	}
}

func (g *gen) reprCase() ([3]value, *expr) {
	r := g.env.Rng
	vs := g.vars(false, false)
	var n, d int64
	switch r.Intn(6) {
	case 0, 1, 2: // even division, zero results, small quotients
		d = Pick(r, []int64{1, -1, 2, -2, 3, -3, 4, 5, -5, 8, 10, 16, 2147483647, 2147483648, -2147483648, 4294967296, 65536})
		k := int64(r.Intn(13) - 6)
		n = k * d
		if r.Intn(4) == 0 {
			n += int64(r.Intn(3) - 1)
		}
	case 3:
		n, d = Pick(r, reprBoundaries), Pick(r, reprBoundaries)
	case 4:
		n, d = Pick(r, reprBoundaries)+int64(r.Intn(5)-2), int64(r.Intn(9)-4)
	default:
		n, d = int64(int32(r.Uint32())), int64(int32(r.Uint32())>>uint(r.Intn(31)))
	}
	if n == math.MinInt64 {
		n++
	}
	a := g.reprOperand(n, &vs, 0)
	var e *expr
	switch r.Intn(10) {
	case 0: // unary
		e = un(Pick(r, []int{0, 1, 2, 3, 4, 6, 8, 9, 10, 11}), a)
	case 1: // compound assignment on a variable that holds the representation
		vs[2] = pv(pUndef())
		e = bin(23, asg(2, a), cmpd(Pick(r, []int{0, 1, 2, 3, 4, 4, 4, 5, 6, 7, 8, 9, 10}), 2, g.reprOperand(d, &vs, 1)))
	case 2: // ++ / --
		vs[2] = pv(pUndef())
		e = bin(23, asg(2, a), bin(Pick(r, []int{0, 23, 4, 3}), inc(r.Intn(2) == 0, r.Intn(2) == 0, 2), evar(2)))
	case 3: // 1 / (n % d): the sign of a zero remainder
		e = bin(3, lit(num(1)), bin(4, a, g.reprOperand(d, &vs, 1)))
	default:
		op := Pick(r, []int{4, 4, 4, 4, 3, 3, 2, 2, 1, 0, 0, 11, 12, 13, 14, 15, 16, 17, 18, 5, 6, 7, 8, 9, 10, 21, 22})
		e = bin(op, a, g.reprOperand(d, &vs, 1))
		if r.Intn(6) == 0 { // feed the result on: int-kinded results as operands of the next operator
			e = bin(Pick(r, []int{4, 3, 2, 0, 1, 15, 13}), e, g.reprOperand(Pick(r, []int64{1, 2, -2, 3, 0}), &vs, 2))
		}
	}
	return vs, e
}

// ---- [[DefaultValue]] (8.12.8) step by step ----

// every operator that converts an object, by hint
func (g *gen) consumers() []func(x *expr) *expr {
	r := g.env.Rng
	one := func() *expr { return lit(pv(Pick(r, []prim{pNum(1), pNum(1), pStr("1"), pStr("x")}))) }
	return []func(x *expr) *expr{
		func(x *expr) *expr { return bin(1, x, lit(num(1))) },
		func(x *expr) *expr { return un(0, x) },
		func(x *expr) *expr { return bin(15, x, one()) },
		func(x *expr) *expr { return bin(17, lit(num(1)), x) },
		func(x *expr) *expr { return un(7, x) },
		func(x *expr) *expr { return bin(19, x, lit(g.object(false))) },
		func(x *expr) *expr { return bin(0, x, one()) },
		func(x *expr) *expr { return bin(0, lit(str("s")), x) },
		func(x *expr) *expr { return bin(11, x, one()) },
		func(x *expr) *expr { return bin(1, x, x) },
		func(x *expr) *expr { return bin(6, x, lit(num(0))) },
	}
}

func scriptedPrim(p prim) meth { return meth{present: true, setv: -1, ret: retPrim, p: p} }

// accessor-defined valueOf / toString: the getters log, throw or yield nothing; 8.12.8 reads the second
// method only after the first one was called and failed to give a primitive
func (g *gen) getterCase(vi, ti, ci int) ([3]value, *expr) {
	vs := [3]value{pv(pUndef()), pv(pUndef()), pv(pUndef())}
	kinds := []meth{
		{present: true, setv: -1, ret: retPrim, p: pNum(3), getter: true},
		{present: true, setv: -1, ret: retObj, getter: true},
		{present: false, setv: -1, getter: true},
		{present: true, setv: -1, ret: retPrim, p: pStr("7")},
		{present: true, setv: -1, ret: retPrim, p: pNum(4), getter: true, getThr: true},
		{present: true, setv: -1, ret: retThrow, getter: true},
	}
	g.nextID++
	o := &obj{id: g.nextID, base: "{}", chain: []int64{90}, fproto: -1, vo: kinds[vi%len(kinds)], ts: kinds[ti%len(kinds)]}
	if o.ts.ret == retPrim && o.ts.p.kind == kNum && !o.ts.getThr {
		o.ts.p = pStr("t")
	}
	g.objs = append(g.objs, o)
	cs := g.consumers()
	x := lit(value{o: o})
	if ci%2 == 1 {
		vs[0] = value{o: o}
		x = evar(0)
	}
	return vs, cs[ci%len(cs)](x)
}

// a conversion method that replaces, deletes or disables the other one while it runs
func (g *gen) selfModCase(first, action, retObjFirst, ci int) ([3]value, *expr) {
	vs := [3]value{pv(pUndef()), pv(pUndef()), pv(pUndef())}
	g.nextID++
	o := &obj{id: g.nextID, base: "Object.create(o91)", chain: []int64{91, 90}, fproto: -1}
	// the prototype holds plain scripted methods, so that a deleted own method uncovers them
	g.p91.vo, g.p91.ts = scriptedPrim(pNum(91)), scriptedPrim(pStr("p91"))
	second := 1 - first
	var m2 meth
	switch action % 4 {
	case 0:
		m2 = scriptedPrim(pNum(42))
	case 1:
		m2 = meth{inherit: true}
	case 2:
		m2 = meth{present: false, setv: -1}
	default:
		m2 = meth{present: true, setv: -1, ret: retObj}
	}
	fm := meth{present: true, setv: -1, ret: retPrim, p: pNum(5), setM: &methSet{id: o.id, which: second, m: m2}}
	if retObjFirst == 1 {
		fm.ret = retObj
	}
	sm := scriptedPrim(pStr("own"))
	if first == 0 {
		o.vo, o.ts = fm, sm
	} else {
		o.vo, o.ts = sm, fm
	}
	g.objs = append(g.objs, o)
	cs := g.consumers()
	return vs, cs[ci%len(cs)](lit(value{o: o}))
}

func (g *gen) pinnedDefaultValue() {
	nc := len(g.consumers())
	for vi := 0; vi < 6; vi++ {
		for ti := 0; ti < 6; ti++ {
			for k := 0; k < 4; k++ { // four of the consumers per pair, rotating so that all are used
				ci := (vi*6+ti)*4 + k
				vs, e := g.getterCase(vi, ti, ci%nc+nc*(ci%2))
				g.runCase(vs, e, "defaultvalue-getter", true)
			}
		}
	}
	i := 0
	for first := 0; first < 2; first++ {
		for action := 0; action < 4; action++ {
			for ro := 0; ro < 2; ro++ {
				for k := 0; k < 5; k++ {
					vs, e := g.selfModCase(first, action, ro, i)
					i++
					g.runCase(vs, e, "defaultvalue-selfmod", true)
				}
			}
		}
	}
}

// ToInteger (9.4) at every boundary, through the built-ins that take a position or length and through Value.ToInteger
func (g *gen) pinnedToInteger() {
	u := [3]value{pv(pUndef()), pv(pUndef()), pv(pUndef())}
	p63 := 9223372036854775808.0
	vals := []float64{p63, -p63, math.Nextafter(p63, 0), math.Nextafter(p63, math.Inf(1)), -math.Nextafter(p63, 0), -math.Nextafter(p63, math.Inf(1)),
		p63 / 2, p63 * 2, -p63 * 2, 9007199254740992, -9007199254740992, 2147483648, -2147483648, 4294967296, -4294967296, 4294967295,
		0, math.Copysign(0, -1), 0.5, -0.5, 0.9, -0.9, 1, -1, 1.5, -1.5, 2, -2, 3, -3, 4, -4, 9, 10, 11, -9, -10, -11, 39, 40, 41, -39, -40, -41,
		math.NaN(), math.Inf(1), math.Inf(-1), 1.7976931348623157e308, -1.7976931348623157e308, 5e-324}
	ops := []int{10, 14, 15, 16, 17, 18, 9}
	for i, f := range vals {
		for j, op := range ops {
			if math.Abs(f) < 1e9 && math.Abs(f) > 2 && (i+j)%2 == 1 {
				continue // thin out the small ordinary positions
			}
			g.runCase(u, un(op, lit(num(f))), "tointeger", true)
		}
		g.apiCaseOf(f, pNum(f), i%2 == 0, []int{0, 8, 9, 6}[i%4])
	}
	// the same boundary reached through ToNumber: strings, booleans, an object
	for i, s := range []string{"9223372036854775808", "9.223372036854775808e18", "-9223372036854775808", " 9223372036854775808 ", "0x8000000000000000", "9223372036854775807", "1e19", "Infinity", "-Infinity", "", "abc", "2.9", "-2.9"} {
		for _, op := range []int{14, 15, 16, 17, 18, 10} {
			g.runCase(u, un(op, lit(str(s))), "tointeger", true)
		}
		if s != "0x8000000000000000" {
			g.apiCaseOf(s, pStr(s), i%2 == 0, []int{0, 8, 9}[i%3])
		}
	}
	for _, op := range []int{14, 15, 16, 17, 18, 10} {
		g.nextID++
		o := &obj{id: g.nextID, base: "{}", chain: []int64{90}, fproto: -1, vo: scriptedPrim(pNum(p63)), ts: scriptedPrim(pStr("2"))}
		g.objs = append(g.objs, o)
		g.runCase(u, un(op, lit(value{o: o})), "tointeger", true)
		g.runCase(u, un(op, lit(pv(pBool(op%2 == 0)))), "tointeger", true)
		g.runCase(u, un(op, lit(pv(pNull()))), "tointeger", true)
		g.runCase(u, un(op, lit(pv(pUndef()))), "tointeger", true)
	}
}

// ToInt32 / ToUint32 start with ToNumber: integers held in a Go 64-bit kind that are not doubles
// (integer literals beyond 2^53, int64 / uint64 / int / uint through Otto.Set) under every bitwise operator
func (g *gen) pinnedBigIntBitwise() {
	ns := []uint64{1<<53 + 1, 1<<53 + 3, 1<<53 + 2, 1<<54 + 2, 1<<60 + 1, 1<<62 + 1, 1<<63 - 1, 1<<63 - 513, 1152921504606846977, 1<<63 + 1, 1<<63 + 1025, 1<<64 - 1, 1<<64 - 1025, 1<<32 + 1<<53 + 1}
	i := 0
	for _, n := range ns {
		f := float64(n)
		type rep struct {
			mk func(vs *[3]value) *expr
			ok bool
		}
		reps := []rep{
			{func(vs *[3]value) *expr { return lit(pv(prim{kind: kNum, f: f, lit: strconv.FormatUint(n, 10)})) }, n < 1<<63},
			{func(vs *[3]value) *expr { vs[0] = num(f); g.force = map[string]interface{}{"a": injection{gv: int64(n), route: 0}}; return evar(0) }, n < 1<<63},
			{func(vs *[3]value) *expr { vs[0] = num(f); g.force = map[string]interface{}{"a": injection{gv: n, route: []int{0, 8, 9, 1}[i%4]}}; return evar(0) }, true},
			{func(vs *[3]value) *expr { vs[0] = num(f); g.force = map[string]interface{}{"a": injection{gv: int(n), named: true, route: 0}}; return evar(0) }, n < 1<<63},
			{func(vs *[3]value) *expr {
				vs[0] = num(-f)
				g.force = map[string]interface{}{"a": injection{gv: -int64(n), route: 0}}
				return evar(0)
			}, n < 1<<63},
		}
		for _, rp := range reps {
			if !rp.ok {
				continue
			}
			for k := 0; k < 4; k++ {
				vs := [3]value{pv(pUndef()), pv(pUndef()), pv(pUndef())}
				x := rp.mk(&vs)
				var e *expr
				switch i % 10 {
				case 0:
					e = bin(6, x, lit(num(0)))
				case 1:
					e = un(2, x)
				case 2:
					e = un(11, x)
				case 3:
					e = bin(8, lit(num(1)), x)
				case 4:
					e = bin(5, x, lit(num(-1)))
				case 5:
					e = bin(7, x, lit(num(0)))
				case 6:
					e = bin(9, x, lit(num(0)))
				case 7:
					e = bin(10, lit(num(-1)), x)
				case 8:
					e = bin(8, x, lit(num(0)))
				default:
					e = bin(13, bin(6, x, lit(num(0))), bin(6, lit(num(f)), lit(num(0))))
				}
				i++
				g.runCase(vs, e, "bigint-bitwise", true)
			}
		}
	}
}

// instanceof 15.3.5.3: a primitive on the left gives false before F.prototype is looked at
func (g *gen) pinnedInstanceofPrimitive() {
	u := [3]value{pv(pUndef()), pv(pUndef()), pv(pUndef())}
	lefts := []prim{pNum(1), pNum(0), pStr("s"), pStr(""), pBool(true), pBool(false), pNull(), pUndef(), pNum(math.NaN())}
	for i, l := range lefts {
		for _, spec := range []struct {
			cls    int
			fproto int64
		}{{2, 0}, {4, 0}, {2, 91}, {4, 92}, {2, 1000}} {
			g.nextID++
			f := &obj{id: g.nextID, cls: spec.cls, base: "function(){}", chain: []int64{89, 90}, fproto: spec.fproto, vo: scriptedPrim(pNum(2)), ts: scriptedPrim(pStr("f"))}
			if spec.fproto == 1000 {
				f.fproto = int64(1000 + f.id)
			}
			g.objs = append(g.objs, f)
			vs := u
			le := lit(pv(l))
			if i%2 == 1 {
				vs[0] = pv(l)
				le = evar(0)
			}
			g.runCase(vs, bin(20, le, lit(value{o: f})), "instanceof-primitive", true)
		}
	}
	// an object on the left does reach the TypeError
	for _, cls := range []int{2, 4} {
		g.nextID++
		f := &obj{id: g.nextID, cls: cls, base: "function(){}", chain: []int64{89, 90}, fproto: 0, vo: scriptedPrim(pNum(2)), ts: scriptedPrim(pStr("f"))}
		g.objs = append(g.objs, f)
		g.runCase(u, bin(20, lit(value{o: g.p91}), lit(value{o: f})), "instanceof-primitive", true)
	}
}

// 9.3.1 StrWhiteSpaceChar: every white-space and line-terminator character, and the characters next to them
// in the code charts or commonly mistaken for white space, at the front, at the end and inside a numeric string
func (g *gen) pinnedWhitespace() {
	chars := []uint16{0x08, 0x09, 0x0A, 0x0B, 0x0C, 0x0D, 0x0E, 0x1C, 0x1D, 0x1E, 0x1F, 0x20, 0x21, 0x7F, 0x80, 0x84, 0x85, 0x86, 0x9F, 0xA0, 0xA1, 0xAD,
		0x167F, 0x1680, 0x1681, 0x180D, 0x180E, 0x180F, 0x1FFF, 0x2000, 0x2001, 0x2005, 0x200A, 0x200B, 0x200C, 0x200D, 0x200E, 0x2027, 0x2028, 0x2029, 0x202A, 0x202E, 0x202F, 0x2030,
		0x205E, 0x205F, 0x2060, 0x2061, 0x2FFF, 0x3000, 0x3001, 0x303F, 0xFEFE, 0xFEFF, 0xFFA0, 0xFFFE, 0xFFFF}
	u := [3]value{pv(pUndef()), pv(pUndef()), pv(pUndef())}
	for i, c := range chars {
		forms := [][]uint16{{c, '1', '2'}, {'1', '2', c}, {c, '1', '2', c}, {c}, {'1', c, '2'}, {c, c, '0', 'x', 'A', c}}
		for j, f := range forms {
			s := lit(pv(pUnits(f)))
			var e *expr
			switch (i + j) % 5 {
			case 0:
				e = un(0, s)
			case 1:
				e = un(6, s)
			case 2:
				e = bin(11, s, lit(num(12)))
			case 3:
				e = bin(2, s, lit(num(1)))
			default:
				e = bin(17, s, lit(num(12)))
			}
			g.runCase(u, e, "whitespace", true)
		}
	}
}

// References (8.7): which operators hand on a Reference and which apply GetValue.  Parentheses keep the Reference,
// && || ?: and the comma operator return a value; typeof, delete and a call tell the difference
// (unresolvable name, property removed or not, this = base object or global object).
func (g *gen) refCase() ([3]value, *expr) {
	r := g.env.Rng
	vs := g.vars(false, false)
	mkobj := func() *obj {
		g.nextID++
		o := &obj{id: g.nextID, base: "{}", chain: []int64{90}, fproto: -1, vo: g.meth(false), ts: g.meth(false), hasX: true,
			memX: Pick(r, []prim{pNum(5), pStr("s"), pBool(true), pNum(0), pUndef(), pNull()})}
		g.objs = append(g.objs, o)
		return o
	}
	o1, o2 := mkobj(), mkobj()
	mem := func(o *obj, k int) *expr { return &expr{kind: eMem, n: o.id, op: k, m: meth{p: o.memX}} }
	leaf := func() *expr {
		switch r.Intn(8) {
		case 0, 1:
			return &expr{kind: eUnres}
		case 2:
			return mem(o1, 2)
		case 3, 4:
			return mem(o1, 3)
		case 5:
			return mem(o2, 3)
		case 6:
			return evar(r.Intn(3))
		default: // literals only: undefined, NaN and Infinity are identifiers (References to global properties)
			return lit(pv(Pick(r, []prim{pNum(7), pStr("v"), pBool(false), pNull(), pNum(0), pStr("")})))
		}
	}
	truthy := func() *expr { return lit(pv(Pick(r, []prim{pNum(1), pStr("t"), pBool(true), pNum(-1)}))) }
	falsy := func() *expr { return lit(pv(Pick(r, []prim{pNum(0), pStr(""), pBool(false), pNull()}))) }
	var wrap func(depth int) *expr
	wrap = func(depth int) *expr {
		x := leaf()
		if depth > 0 && r.Intn(3) == 0 {
			x = wrap(depth - 1)
		}
		switch r.Intn(9) {
		case 0:
			return x // parenthesised: still the Reference
		case 1:
			return bin(22, falsy(), x)
		case 2:
			return bin(21, truthy(), x)
		case 3:
			return cond(truthy(), x, leaf())
		case 4:
			return cond(falsy(), leaf(), x)
		case 5:
			return bin(23, lit(num(0)), x)
		case 6:
			return bin(22, falsy(), bin(22, falsy(), x))
		case 7:
			return bin(21, x, leaf())
		default:
			return bin(22, x, leaf())
		}
	}
	w := wrap(1)
	var use *expr
	switch r.Intn(8) {
	case 0, 1:
		use = un(4, w)
	case 2, 3:
		use = un(13, w)
	case 4, 5:
		use = &expr{kind: eCall, sub: []*expr{w}}
	case 6:
		use = bin(Pick(r, []int{13, 14, 23}), w, lit(num(1)))
	default:
		use = un(4, &expr{kind: eCall, sub: []*expr{w}})
	}
	// afterwards: is o1.x still there, does o1.f still answer with o1
	e := bin(23, asg(1, use), bin(23, asg(2, mem(o1, 2)), &expr{kind: eCall, sub: []*expr{mem(o1, 3)}}))
	if r.Intn(4) == 0 {
		e = bin(23, asg(1, use), un(4, mem(o1, 3)))
	}
	return vs, e
}

// ToNumber of strings around Infinity and NaN: every spelling with sign, white space and letter case, by every route
func (g *gen) infinityCase() ([3]value, *expr) {
	r := g.env.Rng
	vs := g.vars(false, false)
	body := Pick(r, []string{"Infinity", "Infinity", "Infinity", "Infinity", "Infinity", "Infinity", "Infinity", "Infinity", "INFINITY", "infinity", "Inf", "inf", "INF", "Infinit", "Infinityx", "Infinity0", "InfinityInfinity", "NaN", "nan", "NAN", "Nan", "Infinity.", "1Infinity", "Infinitye1"})
	sign := Pick(r, []string{"", "+", "-", "+", "-", "+", "-", "", "++", "+-", "+ ", "- "})
	t := sign + body
	u := Units(t)
	switch r.Intn(4) {
	case 0:
		u = append([]uint16{Pick(r, wsUnits)}, u...)
	case 1:
		u = append(append([]uint16{Pick(r, wsUnits), Pick(r, wsUnits)}, u...), Pick(r, wsUnits))
	case 2:
		if r.Intn(3) == 0 { // white space inside
			u = append(append(Units(sign), Pick(r, wsUnits)), Units(body)...)
		}
	}
	sv := pv(pUnits(u))
	x := g.operand(sv, &vs, 0)
	var e *expr
	switch r.Intn(10) {
	case 0:
		e = un(0, x)
	case 1:
		e = un(6, x)
	case 2:
		e = un(1, x)
	case 3:
		e = bin(Pick(r, []int{1, 2, 3, 4}), x, lit(num(Pick(r, []float64{1, -1, 0, 2}))))
	case 4:
		e = bin(Pick(r, []int{11, 12}), x, lit(num(Pick(r, []float64{math.Inf(1), math.Inf(-1), math.NaN(), 0}))))
	case 5:
		e = bin(Pick(r, []int{15, 16, 17, 18}), x, lit(num(Pick(r, []float64{math.Inf(1), math.Inf(-1), 0, 1.7976931348623157e308}))))
	case 6:
		e = bin(Pick(r, []int{15, 16, 17, 18}), lit(num(Pick(r, []float64{math.Inf(1), math.Inf(-1), 0}))), x)
	case 7:
		e = un(Pick(r, []int{2, 9, 10, 11}), x)
	case 8:
		e = bin(Pick(r, []int{5, 6, 8, 10}), x, lit(num(1)))
	default:
		e = bin(11, lit(pv(pBool(r.Intn(2) == 0))), x)
	}
	return vs, e
}

// a Go scalar of every kind, by every route into a Value, under every conversion and operator
func (g *gen) goEntryCase() ([3]value, *expr) {
	r := g.env.Rng
	vs := g.vars(false, false)
	gv, p := g.kindValue()
	vs[0] = pv(p)
	g.force = map[string]interface{}{"a": injection{gv: gv, named: r.Intn(2) == 0, route: r.Intn(numRoutes)}}
	x := evar(0)
	other := func() *expr {
		if r.Intn(3) == 0 {
			gv2, p2 := g.kindValue()
			vs[1] = pv(p2)
			g.force["b"] = injection{gv: gv2, named: r.Intn(2) == 0, route: r.Intn(numRoutes)}
			return evar(1)
		}
		return lit(pv(Pick(r, corePrims)))
	}
	var e *expr
	switch r.Intn(11) {
	case 0, 1, 10: // ToBoolean contexts
		switch r.Intn(5) {
		case 0:
			e = un(3, x)
		case 1:
			e = un(8, x)
		case 2:
			e = bin(21, x, lit(str("rhs")))
		case 3:
			e = bin(22, x, lit(str("rhs")))
		default:
			e = cond(x, lit(str("T")), lit(str("F")))
		}
	case 2, 3:
		e = un(r.Intn(13), x)
	case 4, 5, 6:
		e = bin(r.Intn(19), x, other())
	case 7:
		e = bin(r.Intn(19), other(), x)
	case 8:
		e = bin(Pick(r, []int{21, 22, 23}), un(3, un(3, x)), cmpd(r.Intn(11), 0, other()))
	default:
		e = bin(23, inc(r.Intn(2) == 0, r.Intn(2) == 0, 0), cond(x, x, un(3, x)))
	}
	return vs, e
}

// the same values read back through the Go API
func (g *gen) apiCase() {
	gv, p := g.kindValue()
	g.apiCaseOf(gv, p, g.env.Rng.Intn(2) == 0, g.env.Rng.Intn(numRoutes))
}

func (g *gen) apiCaseOf(gv interface{}, p prim, named bool, route int) {
	var src strings.Builder
	desc, err := enterAny(g.vm, "a", gv, named, route, &src)
	if err != nil {
		return
	}
	if o := RunJS(g.vm, src.String()); o.Err != nil || o.Panic != nil {
		return
	}
	v, err := g.vm.Get("a")
	if err != nil {
		return
	}
	out := Guard(func() (otto.Value, error) { return v, nil })
	_ = out
	b, e1 := v.ToBoolean()
	f, e2 := v.ToFloat()
	i, e3 := v.ToInteger()
	s, e4 := v.ToString()
	if e1 != nil || e2 != nil || e3 != nil || e4 != nil {
		g.env.Add("CPin 0 2", sanitize(fmt.Sprintf("api a:=%s  ==>  errors %v %v %v %v", desc, e1, e2, e3, e4)), "go-api", true)
		return
	}
	g.env.Add(fmt.Sprintf("CApi %s %s %s %s %s", p.coq(), Cbool(b), Cdouble(f), Cz(i), Cstr(s)),
		sanitize(fmt.Sprintf("api a:=%s %s; Value.ToBoolean/ToFloat/ToInteger/ToString  ==>  %v %v %d %q", desc, src.String(), b, f, i, s)), "go-api", true)
}

// objects whose two conversion methods are both observable (Date objects, plain objects, Number/String/Boolean
// wrappers with overridden methods) under every operator that calls ToPrimitive, with each hint
func (g *gen) toPrimCase() ([3]value, *expr) {
	r := g.env.Rng
	vs := g.vars(false, false)
	g.nextID++
	o := &obj{id: g.nextID, fproto: -1}
	scripted := func() meth {
		m := meth{present: true, setv: -1, ret: retPrim}
		switch r.Intn(8) {
		case 0:
			m.ret = retObj
		case 1:
			m.present = false
		default:
			m.p = Pick(r, []prim{pNum(1), pNum(2), pStr("1"), pStr("2"), pStr("x"), pBool(true), pNum(0), pStr(""), pNull(), pUndef(), pNum(math.NaN()), pStr("10"), pNum(10)})
		}
		return m
	}
	o.vo, o.ts = scripted(), scripted()
	switch r.Intn(6) {
	case 0, 1, 2:
		o.cls, o.base, o.chain = 1, "new Date(0)", []int64{84, 90}
	case 3:
		o.base, o.chain = "{}", []int64{90}
	default:
		q := func(p prim) meth { return meth{present: true, quiet: true, setv: -1, ret: retPrim, p: p} }
		switch r.Intn(3) {
		case 0:
			o.cls, o.base, o.chain = 6, "new Number(5)", []int64{96, 90}
			g.wproto = &obj{id: 96, jsname: "Number.prototype", chain: []int64{90}, fproto: -1, vo: q(pNum(5)), ts: q(pStr("5"))}
		case 1:
			o.cls, o.base, o.chain = 7, "new String(\"12\")", []int64{97, 90}
			g.wproto = &obj{id: 97, jsname: "String.prototype", chain: []int64{90}, fproto: -1, vo: q(pStr("12")), ts: q(pStr("12"))}
		default:
			o.cls, o.base, o.chain = 8, "new Boolean(false)", []int64{98, 90}
			g.wproto = &obj{id: 98, jsname: "Boolean.prototype", chain: []int64{90}, fproto: -1, vo: q(pBool(false)), ts: q(pStr("false"))}
		}
		if r.Intn(2) == 0 { // only one of the two overridden
			if r.Intn(2) == 0 {
				o.vo = meth{inherit: true}
			} else {
				o.ts = meth{inherit: true}
			}
		}
	}
	g.objs = append(g.objs, o)
	x := g.operand(value{o: o}, &vs, 0)
	p := func() *expr {
		return g.operand(pv(Pick(r, []prim{pNum(1), pNum(2), pStr("1"), pStr("2"), pStr("x"), pBool(true), pBool(false), pNum(0), pStr(""), pNull(), pUndef(), pNum(10), pStr("10"), pNum(5), pStr("12"), pStr("5"), pStr("false")})), &vs, 1)
	}
	var e *expr
	switch r.Intn(12) {
	case 0, 1:
		e = bin(Pick(r, []int{11, 12}), x, p())
	case 2:
		e = bin(Pick(r, []int{11, 12}), p(), x)
	case 3:
		e = bin(0, x, p())
	case 4:
		e = bin(0, p(), x)
	case 5:
		e = bin(Pick(r, []int{15, 16, 17, 18}), x, p())
	case 6:
		e = bin(Pick(r, []int{15, 16, 17, 18}), p(), x)
	case 7:
		e = bin(Pick(r, []int{1, 2, 3, 4, 5, 6, 7, 8, 9, 10, 13, 14}), x, p())
	case 8:
		e = un(Pick(r, []int{0, 1, 2, 3, 6, 7, 8, 9, 10, 11, 12, 4}), x)
	case 9:
		e = bin(19, x, lit(g.object(false)))
	case 10:
		e = bin(Pick(r, []int{0, 11, 15, 1}), x, x)
	default:
		e = cmpd(r.Intn(11), 1, x)
	}
	return vs, e
}

// one object used 2-5 times on the same runtime while the conversion methods it resolves to are
// replaced, deleted and restored on the object itself, on its user prototypes and on Object.prototype
func (g *gen) history() ([3]value, *expr) {
	r := g.env.Rng
	g.nextID++
	o := &obj{id: g.nextID, fproto: -1}
	switch r.Intn(4) {
	case 0:
		o.base, o.chain = "{}", []int64{90}
	case 1:
		o.base, o.chain = "Object.create(o91)", []int64{91, 90}
	default:
		o.base, o.chain = "Object.create(o92)", []int64{92, 91, 90}
	}
	pm := func() meth {
		if r.Intn(4) > 0 {
			return meth{inherit: true}
		}
		return g.meth(false)
	}
	o.vo, o.ts = pm(), pm()
	wrapper := r.Intn(4) == 0
	if wrapper { // new Number(5) / new String("12") / new Boolean(false): the built-in prototype's methods get replaced
		q := func(p prim) meth { return meth{present: true, quiet: true, setv: -1, ret: retPrim, p: p} }
		switch r.Intn(3) {
		case 0:
			o.cls, o.base, o.chain = 6, "new Number(5)", []int64{96, 90}
			g.wproto = &obj{id: 96, jsname: "Number.prototype", chain: []int64{90}, fproto: -1, vo: q(pNum(5)), ts: q(pStr("5"))}
		case 1:
			o.cls, o.base, o.chain = 7, "new String(\"12\")", []int64{97, 90}
			g.wproto = &obj{id: 97, jsname: "String.prototype", chain: []int64{90}, fproto: -1, vo: q(pStr("12")), ts: q(pStr("12"))}
		default:
			o.cls, o.base, o.chain = 8, "new Boolean(false)", []int64{98, 90}
			g.wproto = &obj{id: 98, jsname: "Boolean.prototype", chain: []int64{90}, fproto: -1, vo: q(pBool(false)), ts: q(pStr("false"))}
		}
		o.vo, o.ts = meth{inherit: true}, meth{inherit: true}
		if r.Intn(5) == 0 {
			o.vo = g.meth(false)
		}
	}
	g.objs = append(g.objs, o)
	ov := value{o: o}
	vs := g.vars(false, false)
	use := func() *expr {
		x := lit(ov)
		if r.Intn(3) == 0 {
			vs[2] = ov
			x = evar(2)
		}
		p := lit(pv(Pick(r, []prim{pNum(1), pNum(2), pStr(""), pStr("x"), pNum(500), pBool(true), pNull(), pNum(6)})))
		switch r.Intn(8) {
		case 0:
			return bin(0, x, p)
		case 1:
			return bin(0, p, x)
		case 2:
			return bin(Pick(r, []int{1, 2, 3, 4, 5, 6, 8}), x, p)
		case 3:
			return bin(Pick(r, cmpOps), x, p)
		case 4:
			if o.cls == 7 {
				// String methods on a primitive receiver go through a replaced String.prototype.toString in otto
				// (string built-ins: C09), so the ToUint16 / ToInteger probes stay away from patched String.prototype
				return un(Pick(r, []int{0, 1, 2, 6, 7, 11}), x)
			}
			return un(Pick(r, []int{0, 1, 2, 6, 7, 9, 10, 11}), x)
		case 5:
			return bin(Pick(r, cmpOps), p, x)
		case 6:
			if wrapper {
				return bin(0, x, x)
			}
			return bin(19, x, lit(ov))
		default:
			return un(7, x)
		}
	}
	mutate := func() *expr {
		target := Pick(r, []int{o.id, 91, 91, 92, 92, 90})
		if len(o.chain) == 1 && r.Intn(2) == 0 {
			target = 90
		}
		if wrapper {
			target = Pick(r, []int{o.id, g.wproto.id, g.wproto.id, g.wproto.id, 90})
		}
		which := r.Intn(2)
		var m meth
		switch r.Intn(6) {
		case 0:
			m = meth{inherit: true} // delete
			if target == 90 {
				m = meth{present: false, setv: -1}
			}
		case 1:
			m = meth{present: false, setv: -1} // = undefined
		case 2:
			m = meth{present: true, setv: -1, ret: retObj}
		default:
			m = meth{present: true, setv: -1, ret: retPrim, p: Pick(r, []prim{pNum(7), pNum(42), pStr("s"), pStr("9"), pBool(false), pNum(500), pUndef()})}
		}
		return setm(target, which, m)
	}
	n := 2 + r.Intn(4)
	steps := []*expr{}
	slot := 0
	for i := 0; i < n; i++ {
		u := use()
		if i < n-1 && slot < 2 {
			u = asg(slot, u)
			slot++
		}
		steps = append(steps, u)
		if i < n-1 {
			steps = append(steps, mutate())
			if r.Intn(3) == 0 {
				steps = append(steps, mutate())
			}
		}
	}
	e := steps[len(steps)-1]
	for i := len(steps) - 2; i >= 0; i-- {
		e = bin(23, steps[i], e)
	}
	return vs, e
}

// instanceof (and typeof / strict equality) over a dense operand set relative to each constructor
func (g *gen) instanceofCase() ([3]value, *expr) {
	r := g.env.Rng
	vs := g.vars(false, false)
	mk := func(base string, cls int, chain []int64, fproto int64) value {
		g.nextID++
		o := &obj{id: g.nextID, cls: cls, base: base, chain: chain, fproto: fproto, vo: g.meth(false), ts: g.meth(false)}
		g.objs = append(g.objs, o)
		return value{o: o}
	}
	left := func() value {
		switch r.Intn(12) {
		case 0, 1:
			return value{o: g.p91}
		case 2, 3:
			return value{o: g.p92}
		case 4:
			return mk("Object.create(o91)", 0, []int64{91, 90}, -1)
		case 5:
			return mk("Object.create(o92)", 0, []int64{92, 91, 90}, -1)
		case 6:
			return mk("{}", 0, []int64{90}, -1)
		case 7:
			return pv(g.prim())
		case 8:
			return mk("function(){}", 2, []int64{89, 90}, Pick(r, []int64{91, 92, 0}))
		case 9:
			return mk("new Date(0)", 1, []int64{84, 90}, -1)
		default:
			return value{o: Pick(r, builtins)}
		}
	}
	right := func() value {
		switch r.Intn(10) {
		case 0, 1, 2, 3:
			return mk("function(){}", 2, []int64{89, 90}, Pick(r, []int64{91, 92, 91, 92, 0}))
		case 4, 5:
			return mk("function(){}", 4, []int64{89, 90}, Pick(r, []int64{91, 92, 0}))
		case 6, 7:
			return value{o: Pick(r, builtins)}
		case 8:
			return left()
		default:
			return pv(g.prim())
		}
	}
	l, rr := left(), right()
	op := 20
	if (l.o == nil || l.o.jsname == "") && (rr.o == nil || rr.o.jsname == "") {
		if r.Intn(6) == 0 {
			op = Pick(r, []int{13, 14, 11, 19})
		}
	} else if r.Intn(6) == 0 {
		fresh := func(v value) bool { // an expression that creates a new object each time it is evaluated
			return v.o != nil && (strings.HasPrefix(v.o.jsname, "(") || strings.HasPrefix(v.o.jsname, "["))
		}
		if !fresh(l) && !fresh(rr) {
			op = Pick(r, []int{13, 14})
		}
	}
	le, re := lit(l), lit(rr)
	if l.o == nil || l.o.jsname == "" {
		le = g.operand(l, &vs, 0)
	}
	if rr.o == nil || rr.o.jsname == "" {
		re = g.operand(rr, &vs, 1)
	}
	e := bin(op, le, re)
	if r.Intn(5) == 0 {
		e = bin(Pick(r, []int{21, 22}), e, un(4, lit(l)))
	}
	return vs, e
}

func runC05(env *Env) {
	env.Import = "Otto.C05.Corr"
	env.Rule = "expressions over a boundary-dense value set (IEEE specials, 2^k neighbours for k in {31,32,53,63,64,...}, random bit patterns, numeric/malformed/hex/white-space strings, booleans, null, undefined, objects with scripted valueOf/toString that log, write variables, return objects or throw), injected as literals or through Otto.Set with Go int/uint/float representations: all unary and binary operators on single values and pairs, dedicated ToNumber(string), ToInt32-family, relational-string and operand-order streams, and random expression trees of depth 2-3 with assignments, compound assignments, ++/--, ?:, &&, ||, comma; non-trivial = distinct case that involves a non-small-integer double, a string, an object or more than one operator"
	g := &gen{env: env, vm: otto.New()}
	g.resetCase()
	if o := RunJS(g.vm, prelude); o.Err != nil || o.Panic != nil {
		panic(fmt.Sprint("prelude: ", o.Err, o.Panic))
	}
	r := env.Rng
	g.pinned()
	{ // repaired (ea21c58): (new F) instanceof F.bind(null)
		inst := &obj{id: 1, base: "Object.create(o91)", chain: []int64{91, 90}, fproto: -1, vo: meth{present: true, setv: -1, ret: retPrim, p: pNum(1)}, ts: meth{inherit: true}}
		bf := &obj{id: 2, cls: 4, base: "function(){}", chain: []int64{89, 90}, fproto: 91, vo: meth{inherit: true, setv: -1}, ts: meth{inherit: true, setv: -1}}
		bf.vo, bf.ts = meth{present: true, setv: -1, ret: retPrim, p: pNum(2)}, meth{present: true, setv: -1, ret: retPrim, p: pStr("f")}
		g.objs = append(g.objs, inst, bf)
		g.runCase([3]value{pv(pUndef()), pv(pUndef()), pv(pUndef())}, bin(20, lit(value{o: inst}), lit(value{o: bf})), "pinned", true)
	}
	g.pinnedDefaultValue()
	g.pinnedWhitespace()
	g.pinnedToInteger()
	g.pinnedBigIntBitwise()
	g.pinnedInstanceofPrimitive()
	g.intRepr(9007199254740993, 0)
	g.intRepr(60032052788413712, 1)
	{ // repaired (07b2f1f): typeof (1 ? nope : 0) throws, (1 ? o.f : 0)() runs with the global object as this
		g.runCase([3]value{pv(pUndef()), pv(pUndef()), pv(pUndef())}, un(4, cond(lit(num(1)), &expr{kind: eUnres}, lit(num(0)))), "pinned", true)
		g.nextID++
		o := &obj{id: g.nextID, base: "{}", chain: []int64{90}, fproto: -1, vo: meth{inherit: true}, ts: meth{inherit: true}, hasX: true, memX: pNum(5)}
		g.objs = append(g.objs, o)
		g.runCase([3]value{pv(pUndef()), pv(pUndef()), pv(pUndef())}, &expr{kind: eCall, sub: []*expr{cond(lit(num(1)), &expr{kind: eMem, n: o.id, op: 3, m: meth{p: o.memX}}, lit(num(0)))}}, "pinned", true)
	}
	{ // class 9: a number held as a Go float32 is printed with float32-shortest digits
		Must(g.vm.Set("__n", nF32(0.1)))
		o := RunJS(g.vm, `String(__n) + "|" + (__n === 0.10000000149011612)`)
		state := 2
		if o.Err == nil && o.Panic == nil {
			switch o.Val.String() {
			case "0.1|true":
				state = 0
			case "0.10000000149011612|true":
				state = 1
			}
		}
		g.env.Add(fmt.Sprintf("CPin 9 %d", state), sanitize(fmt.Sprintf("[type nF32 float32; __n:=Set(nF32(0.1))] String(__n) + \"|\" + (__n === 0.10000000149011612)  ==>  %v", o.Val)), "pinned", true)
	}
	for env.Count() < env.N {
		if r.Intn(40) == 0 {
			n := int64(1)<<53 + r.Int63n(int64(1)<<62)>>uint(r.Intn(10))
			if r.Intn(2) == 0 {
				n = int64(g.double())
			}
			if r.Intn(2) == 0 {
				n = -n
			}
			if n == math.MinInt64 {
				n++
			}
			g.intRepr(n, r.Intn(5))
			continue
		}
		if r.Intn(4) == 0 { // the core values: every operator on pairs (and singles) of the special values
			vs := g.vars(false, false)
			a := g.operand(pv(Pick(r, corePrims)), &vs, 0)
			if r.Intn(3) == 0 {
				g.runCase(vs, un(r.Intn(12), a), "core-unary", true)
			} else {
				b := g.operand(pv(Pick(r, corePrims)), &vs, 1)
				op := r.Intn(24)
				if op == 19 || op == 20 {
					op = r.Intn(19)
				}
				g.runCase(vs, bin(op, a, b), "core-binary", true)
			}
			continue
		}
		if r.Intn(40) == 0 {
			var vs [3]value
			var e *expr
			if r.Intn(2) == 0 {
				vs, e = g.getterCase(r.Intn(6), r.Intn(6), r.Intn(22))
			} else {
				vs, e = g.selfModCase(r.Intn(2), r.Intn(4), r.Intn(2), r.Intn(11))
			}
			if r.Intn(3) == 0 { // twice in a row: the second conversion starts from what the first one left behind
				e = bin(23, asg(1, e), e)
			}
			g.runCase(vs, e, "defaultvalue", true)
			continue
		}
		if r.Intn(14) == 0 {
			vs, e := g.refCase()
			g.runCase(vs, e, "reference", true)
			continue
		}
		if r.Intn(20) == 0 {
			vs, e := g.infinityCase()
			g.runCase(vs, e, "infinity-spelling", true)
			continue
		}
		if r.Intn(12) == 0 {
			vs, e := g.goEntryCase()
			g.runCase(vs, e, "go-entry", true)
			continue
		}
		if r.Intn(40) == 0 {
			g.apiCase()
			continue
		}
		if r.Intn(14) == 0 {
			vs, e := g.toPrimCase()
			g.runCase(vs, e, "toprim", true)
			continue
		}
		if r.Intn(40) == 0 { // ToString (9.8.1) of whole doubles from 2^53 up: shortest digits, not the exact integer
			var f float64
			switch r.Intn(3) {
			case 0:
				f = math.Ldexp(float64(uint64(1)<<52|r.Uint64()&(1<<52-1)), 1+r.Intn(10)) // [2^53, 2^63)
			case 1:
				f = math.Ldexp(float64(uint64(1)<<52|r.Uint64()&(1<<52-1)), 11+r.Intn(8)) // [2^63, 2^71): around the 1e21 switch
			default:
				f = float64(r.Int63n(1<<53)) * Pick(r, []float64{10, 100, 1000, 7, 1e5})
			}
			if r.Intn(2) == 0 {
				f = -f
			}
			vs := g.vars(false, false)
			x := g.operand(num(f), &vs, 0)
			var e *expr
			switch r.Intn(4) {
			case 0:
				e = un(7, x)
			case 1:
				e = bin(0, x, lit(str("")))
			case 2:
				e = bin(0, lit(str("x")), x)
			default:
				e = un(12, x)
			}
			g.runCase(vs, e, "whole-tostring", true)
			continue
		}
		if r.Intn(6) == 0 { // every operator over integers in every internal representation
			vs, e := g.reprCase()
			g.runCase(vs, e, "repr", true)
			continue
		}
		if r.Intn(25) == 0 { // sign rules of / % * + - on zeros, infinities and NaN
			sp := []float64{0, math.Copysign(0, -1), math.Inf(1), math.Inf(-1), math.NaN(), 1, -1, 5, -5, 0.5, -0.5, 1.7976931348623157e308, -5e-324}
			vs := g.vars(false, false)
			op := Pick(r, []int{3, 3, 3, 4, 4, 2, 0, 1})
			var e *expr
			if r.Intn(4) == 0 {
				vs[0] = num(Pick(r, sp))
				e = cmpd(op, 0, g.operand(num(Pick(r, sp)), &vs, 1))
			} else {
				e = bin(op, g.operand(num(Pick(r, sp)), &vs, 0), g.operand(num(Pick(r, sp)), &vs, 1))
			}
			g.runCase(vs, e, "arith-special", true)
			continue
		}
		if r.Intn(9) == 0 {
			vs, e := g.history()
			g.runCase(vs, e, "history", true)
			continue
		}
		if r.Intn(12) == 0 {
			vs, e := g.instanceofCase()
			g.runCase(vs, e, "instanceof", true)
			continue
		}
		if r.Intn(10) == 0 { // equal or adjacent numeric values in different spellings under == != === !== < > <= >=
			n := Pick(r, []float64{0, 1, 0, 1, 0, 1, -1, 2, 10, 16, 255, 1000, 0.5, -2.5, 4294967296, 1e21})
			m := n
			if r.Intn(3) == 0 {
				m = n + Pick(r, []float64{1, -1, 0.5})
			}
			vs := g.vars(false, false)
			a, b := g.operand(g.spelling(n, 1), &vs, 0), g.operand(g.spelling(m, 1), &vs, 1)
			g.runCase(vs, bin(Pick(r, cmpOps), a, b), "equiv", true)
			continue
		}
		if r.Intn(12) == 0 { // Go representations handed over through Otto.Set, at the boundaries of each type
			vs := g.vars(false, false)
			gv, f := g.goNumber()
			vs[0] = num(f)
			g.force = map[string]interface{}{"a": gv}
			var e *expr
			switch r.Intn(6) {
			case 0:
				e = un(r.Intn(12), evar(0))
			case 1:
				e = un(Pick(r, []int{2, 7, 9, 10, 11, 1}), evar(0))
			case 2:
				gv2, f2 := g.goNumber()
				vs[1] = num(f2)
				g.force["b"] = gv2
				e = bin(r.Intn(19), evar(0), evar(1))
			case 3:
				e = bin(r.Intn(19), evar(0), lit(pv(g.prim())))
			case 4:
				e = bin(r.Intn(19), lit(pv(g.prim())), evar(0))
			default:
				e = bin(Pick(r, []int{0, 23, 21, 22}), inc(r.Intn(2) == 0, r.Intn(2) == 0, 0), evar(0))
			}
			g.runCase(vs, e, "go-repr", true)
			continue
		}
		switch k := r.Intn(20); {
		case k < 3: // unary operator / conversion built-in on one value
			vs := g.vars(false, false)
			g.runCase(vs, un(r.Intn(12), g.operand(g.value(true, false), &vs, 0)), "unary", true)
		case k < 7: // binary operator on a pair of values
			vs := g.vars(false, false)
			l, rr := g.operand(g.value(true, false), &vs, 0), g.operand(g.value(true, false), &vs, 1)
			g.runCase(vs, bin(g.anyBinOp(), l, rr), "binary", true)
		case k < 9: // ToNumber on strings: every route into parseNumber
			s := pv(pUnits(g.numericString()))
			var e *expr
			switch r.Intn(6) {
			case 0:
				e = un(0, lit(s))
			case 1:
				e = un(6, lit(s))
			case 2:
				e = bin(Pick(r, []int{1, 2, 3}), lit(s), lit(num(1)))
			case 3:
				e = bin(11, lit(s), lit(num(g.double())))
			case 4:
				e = bin(Pick(r, []int{15, 16, 17, 18}), lit(s), lit(num(g.double())))
			default:
				e = bin(11, lit(pv(pBool(r.Intn(2) == 0))), lit(s))
			}
			g.runCase(g.vars(false, false), e, "tonumber-string", true)
		case k < 11: // ToInt32 / ToUint32 / ToUint16 / ToInteger on boundary doubles
			tv := g.vars(false, false)
			x := g.operand(num(g.double()), &tv, 0)
			var e *expr
			switch r.Intn(8) {
			case 0:
				e = bin(6, x, lit(num(0)))
			case 1:
				e = un(11, x)
			case 2:
				e = un(2, x)
			case 3:
				e = un(9, x)
			case 4:
				e = un(10, x)
			case 5:
				e = bin(Pick(r, intOps), x, lit(num(g.double())))
			case 6:
				e = bin(Pick(r, []int{8, 9, 10}), lit(num(float64(int32(r.Uint32())))), x)
			default:
				e = bin(Pick(r, intOps), lit(num(g.double())), x)
			}
			g.runCase(tv, e, "toint", true)
		case k < 12: // arithmetic on doubles
			vs := g.vars(false, false)
			x, y := g.double(), g.double()
			if r.Intn(2) == 0 { // signed zeros, infinities and NaN against small finite values: every sign rule of 11.5 / 11.6
				sp := []float64{0, math.Copysign(0, -1), math.Inf(1), math.Inf(-1), math.NaN(), 1, -1, 5, -5, 0.5, -0.5, 1.7976931348623157e308, -1.7976931348623157e308, 5e-324, -5e-324}
				x, y = Pick(r, sp), Pick(r, sp)
			}
			g.runCase(vs, bin(Pick(r, arithOps), g.operand(num(x), &vs, 0), g.operand(num(y), &vs, 1)), "arith", true)
		case k < 13: // relational / equality on strings
			a, b := pStr(Pick(r, cmpStrings)), pStr(Pick(r, cmpStrings))
			if r.Intn(3) == 0 {
				a = pUnits(append(append([]uint16{}, a.s...), b.s...))
			}
			if r.Intn(2) == 0 { // random strings over astral characters, U+E000..U+FFFF, the surrogate neighbours and ASCII, sharing a prefix
				alphabet := []rune{'a', 'b', 0x7f, 0x80, 0x7ff, 0x800, 0xd7ff, 0xe000, 0xf000, 0xfffd, 0xffff, 0xff61, 0x10000, 0x10001, 0x103ff, 0x10400, 0x1f600, 0x10ffff, 0xfffe}
				mk := func(n int) []rune {
					u := make([]rune, n)
					for i := range u {
						u[i] = Pick(r, alphabet)
					}
					return u
				}
				pre := mk(r.Intn(3))
				a = pStr(string(append(append([]rune{}, pre...), mk(r.Intn(3))...)))
				b = pStr(string(append(append([]rune{}, pre...), mk(r.Intn(3))...)))
			}
			g.runCase(g.vars(false, false), bin(Pick(r, cmpOps), lit(pv(a)), lit(pv(b))), "strcmp", true)
		case k < 16: // operand order: operands are variables holding objects whose methods write variables
			vs := g.vars(true, true)
			if vs[0].o == nil {
				vs[0] = g.object(true)
			}
			var e *expr
			oop := g.anyBinOp()
			if r.Intn(2) == 0 { // the operators whose operands are both converted: GetValue of both sides precedes either conversion
				oop = Pick(r, []int{0, 1, 2, 3, 4, 5, 6, 7, 8, 9, 10, 15, 16, 17, 18, 11})
			}
			switch r.Intn(4) {
			case 0:
				e = bin(oop, evar(0), evar(1))
			case 1:
				e = cmpd(r.Intn(11), r.Intn(2), bin(23, asg(r.Intn(2), g.leaf(true, true)), g.leaf(true, true)))
			case 2:
				e = bin(g.anyBinOp(), bin(g.anyBinOp(), evar(0), evar(1)), evar(r.Intn(3)))
			default:
				e = bin(oop, evar(1), evar(0))
			}
			g.runCase(vs, e, "order", true)
		default: // random trees
			depth := 2 + r.Intn(2)
			so := r.Intn(2) == 0
			g.runCase(g.vars(true, so), g.tree(depth, true, so), "tree", true)
		}
	}
}
