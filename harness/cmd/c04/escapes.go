package main

// Deterministic streams:
//  - escapeStream: identifiers spelled with \uXXXX escapes in every identifier position.  A
//    reserved word (keyword, future reserved word, null/true/false) spelled with 1..n escapes is
//    rejected exactly where the plain word is (ES5 7.6) and leaves the runtime untouched; it is
//    accepted as a property name; an ordinary identifier spelled with escapes yields the same
//    tree as its plain spelling.
//  - noInStream: for (x = <chain>; ;) ; and for (var v = <chain>; ;) ; for every operator chain up
//    to length 3 (longer random ones in the thorough tier), operands opaque (some with an `in`
//    inside brackets); the Coq model/spec decide (Model.noin_m / Spec.noin_s).

import (
	"fmt"
	"strings"

	"github.com/robertkrimen/otto/ast"
	. "ottoh/lib"
)

var reservedWords = []string{"break", "case", "catch", "continue", "debugger", "default", "delete", "do", "else", "finally", "for",
	"function", "if", "in", "instanceof", "new", "return", "switch", "this", "throw", "try", "typeof", "var", "void", "while", "with",
	"class", "const", "enum", "export", "extends", "import", "super", "null", "true", "false"}

// identifier positions: every one needs an Identifier, so a reserved word is a SyntaxError
var idPositions = []string{
	"var %s;", "var a = 1, %s = 2;", "function %s(){}", "function f(%s){}", "function f(a, %s){}", "(function %s(){})();",
	"try {} catch (%s) {}", "%s: ;", "%s: for(;;) break %s;", "%s: for(;;) continue %s;", "%s = 5;", "a = %s = 5;", "%s++;", "--%s;",
	"for (var %s in o);", "for (%s in o);", "x = {set q(%s){}};", "for (var %s = 0;;) break;", "x = function(%s){};",
}

// IdentifierName positions: reserved words are legal here
var namePositions = []string{"x = a.%s;", "x = {%s: 1};", "a.%s = 1;", "x = a.b.%s.c;", "x = {get %s(){ return 1 }};"}

func escapeWord(w string, mask int) string {
	var b strings.Builder
	for i, c := range w {
		if mask>>uint(i)&1 == 1 {
			fmt.Fprintf(&b, "\\u%04x", c)
		} else {
			b.WriteRune(c)
		}
	}
	return b.String()
}

func namesOf(r presult, src string) []string {
	d := &dumper{src: src, base: r.base, names: map[string]int{}, tokOK: true, accFunc: map[*ast.FunctionLiteral]bool{}}
	d.node(r.prog)
	return append(d.nameSeq, d.kinds...)
}

func (h *harness) escapeStream() {
	r := h.env.Rng
	for _, w := range reservedWords {
		n := len(w)
		masks := []int{1, 1 << uint(n-1), 1<<uint(n) - 1, r.Intn(1<<uint(n)-1) + 1}
		offender, naccept, total := "", "", 0
		robust := []bool{true, true, true, true, true, true, true}
		bad := ""
		for _, pos := range idPositions {
			for mi, m := range masks {
				e := escapeWord(w, m)
				src := strings.ReplaceAll(pos, "%s", e)
				if strings.HasPrefix(pos, "%s: for") && r.Intn(2) == 0 { // the two occurrences spelled differently
					src = strings.Replace(pos, "%s", e, 1)
					src = strings.Replace(src, "%s", escapeWord(w, masks[r.Intn(len(masks))]), 1)
				}
				total++
				res := parseGuard(src, 0, nil)
				if res.accepted() && offender == "" {
					offender = fmt.Sprintf(" ACCEPTED src=%q", src)
				}
				rc := parseGuard(src, 1<<1, nil)
				a, b, c, note := true, true, true, ""
				if !res.accepted() && !res.timeout {
					a, b, c, note = h.runtimeFlagsN(src, mi == 0) // full repetition for one spelling, Run twice for the others
				}
				fl := []bool{res.pan == nil && !res.timeout, shapeOK(res), errsInRange(src, res), rc.pan == nil && rc.accepted() == res.accepted(), a, b, c}
				for i, f := range fl {
					if !f {
						robust[i] = false
						if bad == "" {
							bad = fmt.Sprintf(" FIRST-BAD[%d] src=%q panic=%v%s", i, src, res.pan, note)
						}
					}
				}
			}
		}
		for _, pos := range namePositions {
			for _, m := range masks {
				src := strings.ReplaceAll(pos, "%s", escapeWord(w, m))
				res := parseGuard(src, 0, nil)
				plain := parseGuard(strings.ReplaceAll(pos, "%s", w), 0, nil)
				if naccept == "" && (!res.accepted() || !plain.accepted()) {
					naccept = fmt.Sprintf(" REJECTED src=%q (plain spelling accepted=%v)", src, plain.accepted())
				}
			}
		}
		h.env.Add(fmt.Sprintf("CPinned 50 false false %s", Cbool(offender != "")),
			fmt.Sprintf("escaped-reserved-word %q in %d identifier positions x spellings: must be rejected%s", w, total, offender), "escape:reserved", true)
		fs := make([]string, len(robust))
		for i, f := range robust {
			fs[i] = Cbool(f)
		}
		h.env.Add("CRobust "+Clist(fs), fmt.Sprintf("escaped-reserved-word %q robustness and no side effect, flags=%v%s", w, robust, bad), "escape:robust", true)
		h.env.Add(fmt.Sprintf("CPinned 19 true true %s", Cbool(naccept == "")),
			fmt.Sprintf("escaped-reserved-word %q as a property name: must be accepted%s", w, naccept), "escape:property-name", true)
	}
	// ordinary identifiers: the escaped spelling denotes the same name in every position
	const tmpl = "var %s = 1, y = %s; function %s(%s, z) { %s: for (;;) { %s.%s = %s + 1; break %s; } } try { } catch (%s) { %s(%s); } for (var %s in %s) ; %s: { (function %s(){})(); }"
	for _, w := range []string{"ab", "foo", "$d", "_e", "q1", "let", "of", "get", "é", "varx", "iff", "clas", "yield", "static", "nulls", "eval", "arguments", "x"} {
		plainSrc := strings.ReplaceAll(tmpl, "%s", w)
		plain := parseGuard(plainSrc, 0, nil)
		same, first := true, ""
		for k := 0; k < 6; k++ {
			src := tmpl
			for strings.Contains(src, "%s") {
				n := len([]rune(w))
				m := r.Intn(1 << uint(n))
				if k == 0 {
					m = 1<<uint(n) - 1
				}
				src = strings.Replace(src, "%s", escapeWord(w, m), 1)
			}
			res := parseGuard(src, 0, nil)
			ok := res.accepted() == plain.accepted()
			if ok && res.accepted() {
				ok = strings.Join(namesOf(res, src), " ") == strings.Join(namesOf(plain, plainSrc), " ")
			}
			if !ok && same {
				same = false
				first = fmt.Sprintf(" DIFFERS src=%q accepted=%v", src, res.accepted())
			}
		}
		h.env.Add(fmt.Sprintf("CRobust [%s; %s]", Cbool(plain.accepted()), Cbool(same)),
			fmt.Sprintf("escaped-identifier %q: plain program accepted=%v, escaped spellings give the same tree=%v%s", w, plain.accepted(), same, first), "escape:ordinary", true)
	}
}

// ---- the `in` operator in a for-initialiser ----

type noinOp struct {
	text  string
	class int
}

var noinOps = []noinOp{{"+", 0}, {"<", 1}, {">=", 1}, {"instanceof", 1}, {"in", 2}, {"==", 3}, {"&&", 3}, {"?", 3}, {",", 6}}
var noinOperands = []string{"a", "b", "o", "1", "'k'", "(p in q)", "f(p in q)", "[p in q]", "{k: p in q}", "t[p in q]", "function(){ return p in q }",
	"new A(p in q)", "!c", "-d", "typeof e", "g.h", "(u, v)", "(w)"}

func (h *harness) noInCase(ops []int, isVar bool, how string) {
	r := h.env.Rng
	var b strings.Builder
	classes := []int{}
	part := 0
	if isVar {
		b.WriteString("for (var v0 = ")
	} else {
		b.WriteString("for (x = ")
		classes = append(classes, 3) // the assignment operator
	}
	b.WriteString(Pick(r, noinOperands))
	for _, oi := range ops {
		op := noinOps[oi]
		classes = append(classes, op.class)
		switch op.text {
		case "?":
			b.WriteString(" ? " + Pick(r, []string{"m", "p in q", "m in n ? 1 : 2", "(m)"}) + " : ")
		case ",":
			part++
			if isVar {
				fmt.Fprintf(&b, ", v%d = ", part)
			} else if r.Intn(2) == 0 {
				b.WriteString(", y = ")
				classes = append(classes, 3)
			} else {
				b.WriteString(", ")
			}
		default:
			b.WriteString(" " + op.text + " ")
		}
		b.WriteString(Pick(r, noinOperands))
	}
	b.WriteString("; ; ) break;")
	src := b.String()
	res := parseGuard(src, 0, nil)
	cs := make([]int64, len(classes))
	for i, c := range classes {
		cs[i] = int64(c)
	}
	h.env.Add(fmt.Sprintf("CNoIn %s %s", Czlist(cs), Cbool(res.accepted())),
		fmt.Sprintf("no-in %s src=%q operator classes %v -> accepted=%v (%v)", how, src, classes, res.accepted(), res.err), "noin:"+how, true)
}

func (h *harness) noInStream() {
	n := len(noinOps)
	for _, isVar := range []bool{false, true} {
		h.noInCase(nil, isVar, "chain")
		for a := 0; a < n; a++ {
			h.noInCase([]int{a}, isVar, "chain")
			for b := 0; b < n; b++ {
				h.noInCase([]int{a, b}, isVar, "chain")
				for c := 0; c < n; c++ {
					h.noInCase([]int{a, b, c}, isVar, "chain")
				}
			}
		}
	}
	if h.env.Tier == "thorough" {
		r := h.env.Rng
		for i := 0; i < 8000; i++ {
			ops := make([]int, r.Intn(4)+4)
			for j := range ops {
				ops[j] = r.Intn(n)
			}
			h.noInCase(ops, r.Intn(2) == 0, "chain-long")
		}
	}
}

// ---- which characters an identifier escape may denote, by place (ES5 7.6) ----

type escChar struct {
	esc, plain string // the \uXXXX spelling and the character itself
}

func mkEsc(rs ...rune) []escChar {
	out := make([]escChar, len(rs))
	for i, r := range rs {
		out[i] = escChar{fmt.Sprintf("\\u%04x", r), string(r)}
	}
	return out
}

// IdentifierStart characters: legal as first and as later character
var escStart = mkEsc('a', 'Z', '$', '_', 0xe9, 0x3c0, 0x4e2d)

// IdentifierPart but not IdentifierStart: digits, a combining mark, a connector punctuation, an Arabic-Indic digit
var escPartOnly = mkEsc('0', '1', '7', '9', 0x301, 0x203f, 0x660)

// never part of an identifier, or not an escape at all
var escNever = []string{`\u0020`, `\u002d`, `\u005c`, `\u0000`, `\u0028`, `\u002e`, `\u2028`, `\u00a0`, `\u0022`, `\u003d`, `\u12`, `\u`, `\x41`, `\u{41}`, `\U0041`, `\u004g`, `\`, `\\`}

var escExtraPositions = []string{"x = %s + 1;", "x = f(%s);", "x = typeof %s;", "x = {k: %s};", "if (%s) ;", "x = [%s];", "x = %s.p;", "x = new %s;"}

func (h *harness) escapeCharStream() {
	positions := append(append(append([]string{}, idPositions...), namePositions...), escExtraPositions...)
	family := func(kind, name string, mustAccept bool, plain string) {
		offender, n := "", 0
		robust := []bool{true, true, true, true, true, true, true}
		bad := ""
		for pi, pos := range positions {
			if !mustAccept && (strings.Contains(pos, "{%s:") || strings.Contains(pos, "get %s(")) {
				continue // an ILLEGAL token as a property key is the separate open finding C04-illegal-token-key
			}
			src := strings.ReplaceAll(pos, "%s", name)
			n++
			res := parseGuard(src, 0, nil)
			rc := parseGuard(src, 1<<1, nil)
			if mustAccept {
				ok := res.accepted() && rc.accepted()
				if ok && plain != "" { // the escaped spelling denotes the same name as the plain one
					ps := strings.ReplaceAll(pos, "%s", plain)
					pr := parseGuard(ps, 0, nil)
					ok = pr.accepted() && strings.Join(namesOf(res, src), " ") == strings.Join(namesOf(pr, ps), " ")
				}
				if !ok && offender == "" {
					offender = fmt.Sprintf(" NOT-ACCEPTED-OR-DIFFERENT src=%q (accepted=%v)", src, res.accepted())
				}
			} else if (res.accepted() || rc.accepted()) && offender == "" {
				offender = fmt.Sprintf(" ACCEPTED src=%q", src)
			}
			a, b, c, note := true, true, true, ""
			if !res.accepted() && !res.timeout {
				a, b, c, note = h.runtimeFlagsN(src, pi%6 == 0)
			}
			fl := []bool{res.pan == nil && !res.timeout, shapeOK(res), errsInRange(src, res), rc.pan == nil && !rc.timeout, a, b, c}
			for i, f := range fl {
				if !f {
					robust[i] = false
					if bad == "" {
						bad = fmt.Sprintf(" FIRST-BAD[%d] src=%q panic=%v%s", i, src, res.pan, note)
					}
				}
			}
		}
		if mustAccept {
			h.env.Add(fmt.Sprintf("CPinned 19 true true %s", Cbool(offender == "")),
				fmt.Sprintf("identifier-escape %s %q in %d positions: must be accepted with the same names as the plain spelling%s", kind, name, n, offender), "escape-char:accept", true)
		} else {
			h.env.Add(fmt.Sprintf("CPinned 50 false false %s", Cbool(offender != "")),
				fmt.Sprintf("identifier-escape %s %q in %d positions: must be rejected%s", kind, name, n, offender), "escape-char:reject", true)
		}
		fs := make([]string, len(robust))
		for i, f := range robust {
			fs[i] = Cbool(f)
		}
		h.env.Add("CRobust "+Clist(fs), fmt.Sprintf("identifier-escape %s %q robustness, repetition, no side effect, flags=%v%s", kind, name, robust, bad), "escape-char:robust", true)
	}
	for _, c := range escStart {
		family("start-char first", c.esc+"b1", true, c.plain+"b1")
		family("start-char alone", c.esc, true, c.plain)
		family("start-char later", "q"+c.esc+"r", true, "q"+c.plain+"r")
		family("start-char last", "q"+c.esc, true, "q"+c.plain)
	}
	for _, c := range escPartOnly {
		family("part-only-char first", c.esc+"x", false, "")
		family("part-only-char alone", c.esc, false, "")
		family("part-only-char first, twice", c.esc+c.esc, false, "")
		family("part-only-char first, then escaped letter", c.esc+`\u0061`, false, "")
		family("part-only-char later", "q"+c.esc+"r", true, "q"+c.plain+"r")
		family("part-only-char last", "q"+c.esc, true, "q"+c.plain)
		family("part-only-char after escaped start", `\u0071`+c.esc, true, "q"+c.plain)
	}
	for _, e := range escNever {
		family("non-identifier char first", e+"x", false, "")
		family("non-identifier char later", "q"+e+"r", false, "")
		family("non-identifier char last", "q"+e, false, "")
	}
}
