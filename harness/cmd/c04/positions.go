package main

// literalPositionStream: every class of malformed literal (bad \x / \u escapes, unterminated
// strings, malformed numeric literals, bad regular expressions) in every syntactic position
// where a literal is parsed by its own path — must be rejected exactly like the same literal
// as an expression statement.  Property-name positions take the string classes only: ILLEGAL
// tokens (malformed numbers, unterminated strings) there are the separate open finding
// C04-illegal-token-key (pinned probes).

import (
	"fmt"
	"strings"

	. "ottoh/lib"
)

var badStrings = []string{`"\x4"`, `'\u12'`, `"\u00g0"`, `'\x'`, `'\xZZ'`, `"\u"`, `'a\x1'`, `"\u123"`, `'\x4g'`, `"ok\u00zz"`, `'\u{41}'`}
var badOpenStrings = []string{`'abc`, `"abc`, `'a\`, `"é`}
var badNumbers = []string{"0x", "1e+", "1e", "08", "1a", "0x1g", "09.5", "3in", "0X", "1e-"}
var badRegexps = []string{`/(/`, `/[/`, `/a**/`, `/+/`, `/a{2,1}/`, `/)/`, `/(?/`}

var exprPositions = []string{
	"%s;", "x = %s;", "f(%s);", "f(a, %s);", "f(%s, b);", "new F(%s);", "new F(a, %s);", "[%s];", "[a, %s, b];", "x = {k: %s};", "x = {k: 1, m: %s};",
	"switch (x) { case %s: }", "switch (x) { case 1: case %s: break; }", "switch (%s) { }", "for (k in %s);", "for (var k in %s);", "for (; %s;);", "for (%s;;);", "for (;; %s);",
	"if (%s);", "while (%s);", "do ; while (%s);", "with (%s);", "throw %s;", "function f(){ return %s }", "x = a[%s];", "x = a ? %s : b;", "x = a ? b : %s;", "x = %s ? a : b;",
	"x = typeof %s;", "x = -%s;", "x = !%s;", "var v = %s;", "var v = 1, w = %s;", "x = %s + 1;", "x = 1 + %s;", "x = (%s);", "x = (a, %s);", "%s; x = 1;", "function f(){ %s; }",
	"(function(){ %s; x = 1 })();", "x = %s.p;", "x = %s[0];", "x = %s in o;", "x = o instanceof %s;", "x = a && %s;", "x = {get p(){ return %s }};", "L: %s;", "x = f(%s)(%s);",
}
var keyPositions = []string{
	"x = {%s: 1};", "x = {a: 1, %s: 2};", "x = {%s: 1, b: 2};", "({%s: 1});", "x = {get %s(){ return 1 }};", "x = {set %s(v){}};", "x = {a: 1, get %s(){ return 1 }, b: 2};",
	"f({%s: 1});", "x = [{%s: 1}];", "x = {k: {%s: 1}};", "x = {%s: function(){}};",
}

func (h *harness) literalPositionStream() {
	r := h.env.Rng
	sweep := func(kind, lit string, positions []string, closeLine bool) {
		offender, bad, n := "", "", 0
		robust := []bool{true, true, true, true, true, true, true}
		for _, pos := range positions {
			l := lit
			if closeLine { // an unterminated string runs to the end of its line
				l = lit + "\n"
			}
			src := strings.ReplaceAll(pos, "%s", l)
			n++
			res := parseGuard(src, 0, nil)
			rc := parseGuard(src, 1<<1, nil)
			if (res.accepted() || rc.accepted()) && offender == "" {
				offender = fmt.Sprintf(" ACCEPTED src=%q (mode 0: %v, StoreComments: %v)", src, res.accepted(), rc.accepted())
			}
			a, b, c, note := true, true, true, ""
			if !res.accepted() && !res.timeout && (strings.Contains(pos, "{%s") || strings.Contains(pos, "get %s") || strings.Contains(pos, "set %s") || r.Intn(6) == 0) {
				a, b, c, note = h.runtimeFlags(src)
			}
			fl := []bool{res.pan == nil && !res.timeout, shapeOK(res), errsInRange(src, res), rc.pan == nil && !rc.timeout, a, b, c}
			for i, f := range fl {
				if !f {
					robust[i] = false
					if bad == "" {
						bad = fmt.Sprintf(" FIRST-BAD[%d] src=%q panic=%v%s", i, src, res.pan, note)
					}
				}
			}
		}
		h.env.Add(fmt.Sprintf("CPinned 50 false false %s", Cbool(offender != "")),
			fmt.Sprintf("malformed-literal %s %q in %d %s positions: must be rejected everywhere%s", kind, lit, n, map[bool]string{true: "expression", false: "property-name"}[len(positions) == len(exprPositions)], offender), "literal-position:"+kind, true)
		fs := make([]string, len(robust))
		for i, f := range robust {
			fs[i] = Cbool(f)
		}
		h.env.Add("CRobust "+Clist(fs), fmt.Sprintf("malformed-literal %s %q robustness, repetition and no side effect, flags=%v%s", kind, lit, robust, bad), "literal-position:robust", true)
	}
	for _, s := range badStrings {
		sweep("string-escape", s, exprPositions, false)
		sweep("string-escape", s, keyPositions, false)
	}
	for _, s := range badOpenStrings {
		sweep("string-unterminated", s, exprPositions, true)
	}
	for _, s := range badNumbers {
		sweep("number", s, exprPositions, false)
	}
	for _, s := range badRegexps {
		sweep("regexp", s, exprPositions, false)
	}
}
