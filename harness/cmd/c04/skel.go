package main

// Statement skeletons (Otto.C04.Model.stm): printed as Coq terms, and extracted from otto's tree.
// Convention shared with the generator: function expressions found in the expressions of a
// statement (source order) become SFnExpr siblings — after a leaf statement inside an SBlock,
// in front of the body of if/loop/with, in the flat list of a switch.

import (
	"fmt"
	"strconv"
	"strings"

	"github.com/robertkrimen/otto/ast"
)

type stm struct {
	k      string // Expr FnExpr Func Block If Loop Switch Label Break Continue Return Try With
	e      int
	label  int // -1: none
	a      *stm
	l      []*stm // body / list / else branch
	c, f   []*stm
	hc, hf bool
}

func coqStms(l []*stm) string {
	s := make([]string, len(l))
	for i, x := range l {
		s[i] = x.coq()
	}
	return "[" + strings.Join(s, ";") + "]"
}

func optLabel(l int) string {
	if l < 0 {
		return "None"
	}
	return fmt.Sprintf("(Some %d)", l)
}

func cb(b bool) string {
	if b {
		return "true"
	}
	return "false"
}

func (s *stm) coq() string {
	switch s.k {
	case "Expr":
		return fmt.Sprintf("SExpr %d", s.e)
	case "FnExpr":
		return "SFnExpr " + coqStms(s.l)
	case "Func":
		return "SFunc " + coqStms(s.l)
	case "Block":
		return "SBlock " + coqStms(s.l)
	case "If":
		return "SIf (" + s.a.coq() + ") " + coqStms(s.l)
	case "Loop":
		return "SLoop (" + s.a.coq() + ")"
	case "Switch":
		return "SSwitch " + coqStms(s.l)
	case "Label":
		return fmt.Sprintf("SLabel %d (%s)", s.label, s.a.coq())
	case "Break":
		return "SBreak " + optLabel(s.label)
	case "Continue":
		return "SContinue " + optLabel(s.label)
	case "Return":
		return "SReturn"
	case "Try":
		return "STry " + coqStms(s.l) + " " + cb(s.hc) + " " + coqStms(s.c) + " " + cb(s.hf) + " " + coqStms(s.f)
	case "With":
		return "SWith (" + s.a.coq() + ")"
	}
	panic("stm kind " + s.k)
}

func fnStms(fns [][]*stm) []*stm {
	out := make([]*stm, len(fns))
	for i, b := range fns {
		out[i] = &stm{k: "FnExpr", l: b}
	}
	return out
}

// leaf statement with the function expressions it contains
func leafWith(leaf *stm, fns [][]*stm) *stm {
	if len(fns) == 0 {
		return leaf
	}
	return &stm{k: "Block", l: append([]*stm{leaf}, fnStms(fns)...)}
}

// body of if/loop/with preceded by the function expressions of the header
func bodyWith(body *stm, fns [][]*stm) *stm {
	if len(fns) == 0 {
		return body
	}
	return &stm{k: "Block", l: append(fnStms(fns), body)}
}

type skeler struct{ names map[string]int }

func (sk *skeler) labelID(name string) int {
	if strings.HasPrefix(name, "L") {
		if n, err := strconv.Atoi(name[1:]); err == nil && n >= 0 && n < 100 {
			return n
		}
	}
	if id, ok := sk.names[name]; ok {
		return id
	}
	id := 100 + len(sk.names)
	sk.names[name] = id
	return id
}

func (sk *skeler) fns(e ast.Expression, out *[][]*stm) {
	if isNilNode(e) {
		return
	}
	switch e := e.(type) {
	case *ast.ArrayLiteral:
		for _, x := range e.Value {
			sk.fns(x, out)
		}
	case *ast.AssignExpression:
		sk.fns(e.Left, out)
		sk.fns(e.Right, out)
	case *ast.BinaryExpression:
		sk.fns(e.Left, out)
		sk.fns(e.Right, out)
	case *ast.BracketExpression:
		sk.fns(e.Left, out)
		sk.fns(e.Member, out)
	case *ast.CallExpression:
		sk.fns(e.Callee, out)
		for _, x := range e.ArgumentList {
			sk.fns(x, out)
		}
	case *ast.ConditionalExpression:
		sk.fns(e.Test, out)
		sk.fns(e.Consequent, out)
		sk.fns(e.Alternate, out)
	case *ast.DotExpression:
		sk.fns(e.Left, out)
	case *ast.FunctionLiteral:
		*out = append(*out, sk.body(e.Body))
	case *ast.NewExpression:
		sk.fns(e.Callee, out)
		for _, x := range e.ArgumentList {
			sk.fns(x, out)
		}
	case *ast.ObjectLiteral:
		for _, p := range e.Value {
			sk.fns(p.Value, out)
		}
	case *ast.SequenceExpression:
		for _, x := range e.Sequence {
			sk.fns(x, out)
		}
	case *ast.UnaryExpression:
		sk.fns(e.Operand, out)
	case *ast.VariableExpression:
		sk.fns(e.Initializer, out)
	}
}

func (sk *skeler) body(s ast.Statement) []*stm {
	if b, ok := s.(*ast.BlockStatement); ok && b != nil {
		return sk.list(b.List)
	}
	return []*stm{sk.stmt(s)}
}

func (sk *skeler) list(l []ast.Statement) []*stm {
	out := make([]*stm, 0, len(l))
	for _, s := range l {
		out = append(out, sk.stmt(s))
	}
	return out
}

func (sk *skeler) stmt(s ast.Statement) *stm {
	var fns [][]*stm
	switch s := s.(type) {
	case *ast.BadStatement:
		return &stm{k: "Expr", e: 9}
	case *ast.BlockStatement:
		return &stm{k: "Block", l: sk.list(s.List)}
	case *ast.BranchStatement:
		l := -1
		if s.Label != nil {
			l = sk.labelID(s.Label.Name)
		}
		if s.Token.String() == "continue" {
			return &stm{k: "Continue", label: l}
		}
		return &stm{k: "Break", label: l}
	case *ast.DebuggerStatement, *ast.EmptyStatement:
		return &stm{k: "Expr"}
	case *ast.DoWhileStatement:
		sk.fns(s.Test, &fns)
		return &stm{k: "Loop", a: bodyWith(sk.stmt(s.Body), fns)}
	case *ast.ExpressionStatement:
		sk.fns(s.Expression, &fns)
		return leafWith(&stm{k: "Expr"}, fns)
	case *ast.ForInStatement:
		sk.fns(s.Into, &fns)
		sk.fns(s.Source, &fns)
		return &stm{k: "Loop", a: bodyWith(sk.stmt(s.Body), fns)}
	case *ast.ForStatement:
		sk.fns(s.Initializer, &fns)
		sk.fns(s.Test, &fns)
		sk.fns(s.Update, &fns)
		return &stm{k: "Loop", a: bodyWith(sk.stmt(s.Body), fns)}
	case *ast.FunctionStatement:
		return &stm{k: "Func", l: sk.body(s.Function.Body)}
	case *ast.IfStatement:
		sk.fns(s.Test, &fns)
		out := &stm{k: "If", a: bodyWith(sk.stmt(s.Consequent), fns)}
		if s.Alternate != nil {
			out.l = []*stm{sk.stmt(s.Alternate)}
		}
		return out
	case *ast.LabelledStatement:
		return &stm{k: "Label", label: sk.labelID(s.Label.Name), a: sk.stmt(s.Statement)}
	case *ast.ReturnStatement:
		sk.fns(s.Argument, &fns)
		return leafWith(&stm{k: "Return"}, fns)
	case *ast.SwitchStatement:
		sk.fns(s.Discriminant, &fns)
		l := fnStms(fns)
		seenDefault := false
		for _, c := range s.Body {
			var cf [][]*stm
			if c.Test == nil {
				if seenDefault { // ES5 12.11: at most one DefaultClause
					l = append(l, &stm{k: "Expr", e: 6})
				}
				seenDefault = true
			}
			sk.fns(c.Test, &cf)
			l = append(l, fnStms(cf)...)
			l = append(l, sk.list(c.Consequent)...)
		}
		return &stm{k: "Switch", l: l}
	case *ast.ThrowStatement:
		sk.fns(s.Argument, &fns)
		return leafWith(&stm{k: "Expr"}, fns)
	case *ast.TryStatement:
		out := &stm{k: "Try", l: sk.body(s.Body)}
		if s.Catch != nil {
			out.hc = true
			out.c = sk.body(s.Catch.Body)
		}
		if s.Finally != nil {
			out.hf = true
			out.f = sk.body(s.Finally)
		}
		return out
	case *ast.VariableStatement:
		for _, x := range s.List {
			sk.fns(x, &fns)
		}
		return leafWith(&stm{k: "Expr"}, fns)
	case *ast.WhileStatement:
		sk.fns(s.Test, &fns)
		return &stm{k: "Loop", a: bodyWith(sk.stmt(s.Body), fns)}
	case *ast.WithStatement:
		sk.fns(s.Object, &fns)
		return &stm{k: "With", a: bodyWith(sk.stmt(s.Body), fns)}
	}
	return &stm{k: "Expr", e: 8}
}

func skelOf(p *ast.Program) (out []*stm, ok bool) {
	defer func() {
		if r := recover(); r != nil {
			ok = false
		}
	}()
	sk := &skeler{names: map[string]int{}}
	return sk.list(p.Body), true
}
