package main

// Two pinned families:
//  - numericFollowStream: every spelling of a numeric literal (decimal, trailing/leading dot,
//    every exponent form, hex, legacy octal) directly followed by an IdentifierStart / keyword
//    must be rejected (ES5 7.8.3), in several contexts; with white space in between the keyword
//    forms are accepted.
//  - fileSetErrorStream: one source per kind of parse error, parsed alone and as the second and
//    third file of a shared file.FileSet (base > 1): no panic, every error position inside that
//    file, and the same positions as when parsed alone; an invalid UTF-8 byte is reported at its
//    own line and column.

import (
	"fmt"
	"strings"
	"unicode/utf8"

	"github.com/robertkrimen/otto/file"
	"github.com/robertkrimen/otto/parser"
	. "ottoh/lib"
)

var numSpellings = []string{"1", "12", "0", "1.", "1.5", ".5", "0.5", "1e0", "1E5", "2E+1", "3e-2", ".5e1", "1.e2", "1.5e+10", "0e0", "9e99", "0x1F", "0XaB", "0x0", "010", "07", "00"}
var numFollowers = []string{"in", "instanceof", "_", "$", "q", "é", "\\u0061", "if", "this", "null", "x1", "Infinity", "in[7,8]", "instanceof Object", "in{}", "n"}
var numContexts = []string{"x = %s o;", "x = [%s o];", "f(%s o);", "switch (y) { case %s o: }", "x = a ? %s o : b;", "%s o", "x = -%s o;", "var v = %s o;", "x = {k: %s o};", "if (%s o) ;"}

func (h *harness) numericFollowStream() {
	for _, lit := range numSpellings {
		offender, naccept, n := "", "", 0
		robust := []bool{true, true, true, true, true, true, true}
		bad := ""
		for _, fo := range numFollowers {
			if strings.HasPrefix(lit, "0x") || strings.HasPrefix(lit, "0X") {
				if strings.ContainsAny(fo[:1], "0123456789abcdefABCDEF") {
					continue // extends the hex literal
				}
			} else if fo[0] == 'e' || fo[0] == 'E' || (lit == "0" && (fo[0] == 'x' || fo[0] == 'X')) {
				continue // would form an exponent or a hex prefix
			}
			for ci, ctx := range numContexts {
				src := strings.ReplaceAll(ctx, "%s", lit+fo)
				n++
				res := parseGuard(src, 0, nil)
				rc := parseGuard(src, parser.StoreComments, nil)
				if (res.accepted() || rc.accepted()) && offender == "" {
					offender = fmt.Sprintf(" ACCEPTED src=%q", src)
				}
				a, b, c, note := true, true, true, ""
				if !res.accepted() && !res.timeout && ci == 0 {
					a, b, c, note = h.runtimeFlagsN(src, fo == "in")
				}
				fl := []bool{res.pan == nil && !res.timeout, shapeOK(res), errsInRange(src, res), rc.pan == nil && !rc.timeout, a, b, c}
				for i, f := range fl {
					if !f {
						robust[i] = false
						if bad == "" {
							bad = fmt.Sprintf(" FIRST-BAD[%d] src=%q panic=%v%s", i, src, res.pan, note)
						}
					}
				}
				if fo == "in" || fo == "instanceof" { // the same with white space is an ordinary expression
					sp := strings.ReplaceAll(ctx, "%s", lit+" "+fo)
					if r2 := parseGuard(sp, 0, nil); !r2.accepted() && naccept == "" {
						naccept = fmt.Sprintf(" REJECTED src=%q", sp)
					}
				}
			}
		}
		h.env.Add(fmt.Sprintf("CPinned 50 false false %s", Cbool(offender != "")),
			fmt.Sprintf("numeric-literal %q directly followed by an identifier start, %d sources: must be rejected (7.8.3)%s", lit, n, offender), "number-follow:reject", true)
		h.env.Add(fmt.Sprintf("CPinned 19 true true %s", Cbool(naccept == "")),
			fmt.Sprintf("numeric-literal %q followed by white space and in/instanceof: must be accepted%s", lit, naccept), "number-follow:accept", true)
		fs := make([]string, len(robust))
		for i, f := range robust {
			fs[i] = Cbool(f)
		}
		h.env.Add("CRobust "+Clist(fs), fmt.Sprintf("numeric-literal %q follow robustness, repetition, no side effect, flags=%v%s", lit, robust, bad), "number-follow:robust", true)
	}
}

var errorKindSources = []string{
	"x = )", "x = (1", "x = 1 2", "x = 'abc", "x = /abc", "x = 1 /* open", "x = #", "x = 08", "x = 1e+", "x = '\\x4'", "x = /(/", "x = /a/\n/[/",
	"break", "continue", "return 1", "L: L: ;", "while (1) break M", "a + b = c", "try { }", "var class", "class", "x = {,}", "switch (x) { default: default: }",
	"for (1 in o) ;", "throw\n1", "x = a b", "x = 1 'two'", "if", "function (){}", "\n\n  x = )\n", "a\r\nb = )", "// c\nx = ) // d", "a   = )",
	"\xff", "a\xffb", "x = 1;\n  \xc3", "'\xff'", "/\xff/", "//\xff\n)", "x = 'é\xff'; y = \xfe", "é = \xff", "\n\r\n \xed\xa0\x80", "/* \xff */ x = )",
}

type errPos struct{ line, col int }

func errPositions(r presult) ([]errPos, bool) {
	if r.err == nil {
		return nil, true
	}
	el, ok := r.err.(*parser.ErrorList)
	if !ok {
		return nil, false
	}
	out := make([]errPos, 0, len(*el))
	for _, e := range *el {
		out = append(out, errPos{e.Position.Line, e.Position.Column})
	}
	return out, true
}

func samePositions(a, b []errPos) bool {
	if len(a) != len(b) {
		return false
	}
	for i := range a {
		if a[i] != b[i] {
			return false
		}
	}
	return true
}

// line and column (bytes, 1-based) of the first invalid UTF-8 byte
func firstInvalid(src string) (errPos, bool) {
	line, start := 1, 0
	for i := 0; i < len(src); {
		c, w := utf8.DecodeRuneInString(src[i:])
		if c == utf8.RuneError && w == 1 {
			return errPos{line, i - start + 1}, true
		}
		switch c {
		case '\r':
			if i+1 < len(src) && src[i+1] == '\n' {
				w = 2
			}
			line, start = line+1, i+w
		case '\n', '\u2028', '\u2029':
			line, start = line+1, i+w
		}
		i += w
	}
	return errPos{}, false
}

func (h *harness) fileSetErrorStream() {
	fillers := []string{"var filler = 1;", "/* a longer first file */ function f(a, b) { return a + b }\n\nf(1, 2);\n", "", "x"}
	for k, src := range errorKindSources {
		flags := []bool{true, true, true, true, true}
		first := ""
		set := func(i int, ok bool, what string) {
			if !ok && flags[i] {
				flags[i] = false
				if first == "" {
					first = fmt.Sprintf(" FIRST-BAD[%d] %s", i, what)
				}
			}
		}
		alone := parseGuard(src, 0, nil)
		p0, ok0 := errPositions(alone)
		set(0, alone.pan == nil && !alone.timeout && ok0, fmt.Sprintf("alone: panic=%v", alone.pan))
		set(1, errsInRange(src, alone) && !alone.accepted(), fmt.Sprintf("alone: positions %v outside the input or source accepted", p0))
		if ip, has := firstInvalid(src); has {
			found := false
			for _, p := range p0 {
				found = found || p == ip
			}
			set(4, found, fmt.Sprintf("alone: no error at the invalid byte %v, got %v", ip, p0))
		}
		for _, mode := range []parser.Mode{0, parser.StoreComments} {
			fs := &file.FileSet{}
			for nth := 2; nth <= 3; nth++ {
				pre := parseGuard(fillers[(k+nth)%len(fillers)], mode, fs)
				set(0, pre.pan == nil, "filler file panics")
				r := parseGuard(src, mode, fs)
				pn, okn := errPositions(r)
				what := fmt.Sprintf("as file %d of a FileSet (mode %d, base %d)", nth, mode, r.base)
				set(0, r.pan == nil && !r.timeout && okn, fmt.Sprintf("%s: panic=%v", what, r.pan))
				set(2, r.pan != nil || (errsInRange(src, r) && !r.accepted()), fmt.Sprintf("%s: positions %v outside the file", what, pn))
				set(3, r.pan != nil || mode != 0 || samePositions(pn, p0), fmt.Sprintf("%s: positions %v, alone %v", what, pn, p0))
			}
		}
		fl := make([]string, len(flags))
		for i, f := range flags {
			fl[i] = Cbool(f)
		}
		h.env.Add("CRobust "+Clist(fl), fmt.Sprintf("fileset-errors src=%q alone and as 2nd/3rd file of a FileSet, both modes: flags=%v (no panic, alone in range, in range with base>1, same positions, invalid byte located)%s", src, flags, first), "fileset-errors", true)
	}
}
