package main

// Dump of an otto syntax tree as a Coq term of type Otto.C04.Tree.node, with the
// observations the property talks about: Idx0()/Idx1() of every node (each call
// under recover), token text at the recorded positions, the statement skeleton.

import (
	"fmt"
	"reflect"
	"strings"

	"github.com/robertkrimen/otto/ast"
	"github.com/robertkrimen/otto/file"
)

type dumper struct {
	src     string
	base    int
	names   map[string]int
	order   []ast.Node // pre-order of present nodes (own traversal, not ast.Walk)
	kinds   []string
	tokOK   bool
	tokWhy  string
	accFunc map[*ast.FunctionLiteral]bool // getter/setter literals (no "function" keyword)
	nameSeq []string                      // kind:name of every identifier-bearing node, pre-order
}

func isNilNode(n ast.Node) bool {
	if n == nil {
		return true
	}
	v := reflect.ValueOf(n)
	return v.Kind() == reflect.Ptr && v.IsNil()
}

// child slot of an interface-typed field
func (d *dumper) slotI(n ast.Node) string {
	if n == nil {
		return "CNil"
	}
	if isNilNode(n) {
		return "CTypedNil"
	}
	return "CNode (" + d.node(n) + ")"
}

// child slot of a pointer-typed field (a nil pointer becomes a typed nil when handed to Walk)
func (d *dumper) slotP(n ast.Node) string {
	if isNilNode(n) {
		return "CTypedNil"
	}
	return "CNode (" + d.node(n) + ")"
}

func (d *dumper) nameID(s string) int {
	if id, ok := d.names[s]; ok {
		return id
	}
	id := len(d.names)
	d.names[s] = id
	return id
}

func z(v int) string {
	if v < 0 {
		return fmt.Sprintf("(%d)", v)
	}
	return fmt.Sprintf("%d", v)
}

func zs(vs ...int) string {
	s := make([]string, len(vs))
	for i, v := range vs {
		s[i] = z(v)
	}
	return "[" + strings.Join(s, ";") + "]"
}

// at: the source holds text at position idx (escapes in identifiers make the text differ legitimately)
func (d *dumper) at(idx file.Idx, text string, what string) {
	off := int(idx) - d.base
	if off < 0 || off > len(d.src) {
		d.tokOK = false
		d.tokWhy = fmt.Sprintf("%s: position %d outside the source", what, idx)
		return
	}
	if strings.HasPrefix(d.src[off:], text) {
		return
	}
	end := off + 6*len(text) + 6
	if end > len(d.src) {
		end = len(d.src)
	}
	if strings.Contains(d.src[off:end], "\\") {
		return // unicode escape inside an identifier
	}
	d.tokOK = false
	d.tokWhy = fmt.Sprintf("%s: expected %q at %d, source has %q", what, text, idx, d.src[off:end])
}

func (d *dumper) exprs(xs []ast.Expression) []string {
	out := make([]string, len(xs))
	for i, x := range xs {
		out[i] = d.slotI(x)
	}
	return out
}

func (d *dumper) stmts(xs []ast.Statement) []string {
	out := make([]string, len(xs))
	for i, x := range xs {
		out[i] = d.slotI(x)
	}
	return out
}

func t(kind string, f string, kids []string) string {
	return "T " + kind + " " + f + " [" + strings.Join(kids, ";") + "]"
}

func (d *dumper) node(n ast.Node) string {
	d.order = append(d.order, n)
	ki := len(d.kinds)
	d.kinds = append(d.kinds, "")
	set := func(k string) string { d.kinds[ki] = k; return k }
	switch n := n.(type) {
	case *ast.ArrayLiteral:
		d.at(n.LeftBracket, "[", "ArrayLiteral.LeftBracket")
		d.at(n.RightBracket, "]", "ArrayLiteral.RightBracket")
		return t(set("KArray"), zs(int(n.LeftBracket), int(n.RightBracket)), d.exprs(n.Value))
	case *ast.AssignExpression:
		return t(set("KAssign"), "[]", []string{d.slotI(n.Left), d.slotI(n.Right)})
	case *ast.BadExpression:
		return t(set("KBadExpr"), zs(int(n.From), int(n.To)), nil)
	case *ast.BinaryExpression:
		return t(set("KBinary"), "[]", []string{d.slotI(n.Left), d.slotI(n.Right)})
	case *ast.BooleanLiteral:
		d.at(n.Idx, n.Literal, "BooleanLiteral")
		return t(set("KBoolean"), zs(int(n.Idx), len(n.Literal)), nil)
	case *ast.BracketExpression:
		d.at(n.LeftBracket, "[", "BracketExpression.LeftBracket")
		d.at(n.RightBracket, "]", "BracketExpression.RightBracket")
		return t(set("KBracket"), zs(int(n.LeftBracket), int(n.RightBracket)), []string{d.slotI(n.Left), d.slotI(n.Member)})
	case *ast.CallExpression:
		d.at(n.LeftParenthesis, "(", "CallExpression.LeftParenthesis")
		d.at(n.RightParenthesis, ")", "CallExpression.RightParenthesis")
		return t(set("KCall"), zs(int(n.LeftParenthesis), int(n.RightParenthesis)), append([]string{d.slotI(n.Callee)}, d.exprs(n.ArgumentList)...))
	case *ast.ConditionalExpression:
		return t(set("KConditional"), "[]", []string{d.slotI(n.Test), d.slotI(n.Consequent), d.slotI(n.Alternate)})
	case *ast.DotExpression:
		return t(set("KDot"), "[]", []string{d.slotI(n.Left), d.slotP(n.Identifier)})
	case *ast.EmptyExpression:
		return t(set("KEmptyExpr"), zs(int(n.Begin), int(n.End)), nil)
	case *ast.FunctionLiteral:
		if !d.accFunc[n] {
			d.at(n.Function, "function", "FunctionLiteral.Function")
		}
		kids := []string{d.slotP(n.Name)}
		if n.ParameterList != nil {
			for _, p := range n.ParameterList.List {
				kids = append(kids, d.slotP(p))
			}
		}
		kids = append(kids, d.slotI(n.Body))
		return t(set("KFunction"), zs(int(n.Function)), kids)
	case *ast.Identifier:
		d.at(n.Idx, n.Name, "Identifier")
		d.nameSeq = append(d.nameSeq, "id:"+n.Name)
		return t(set("KIdentifier"), zs(int(n.Idx), len(n.Name), d.nameID(n.Name)), nil)
	case *ast.NewExpression:
		d.at(n.New, "new", "NewExpression.New")
		if n.RightParenthesis > 0 {
			d.at(n.LeftParenthesis, "(", "NewExpression.LeftParenthesis")
			d.at(n.RightParenthesis, ")", "NewExpression.RightParenthesis")
		}
		return t(set("KNew"), zs(int(n.New), int(n.LeftParenthesis), int(n.RightParenthesis)), append([]string{d.slotI(n.Callee)}, d.exprs(n.ArgumentList)...))
	case *ast.NullLiteral:
		d.at(n.Idx, "null", "NullLiteral")
		return t(set("KNull"), zs(int(n.Idx)), nil)
	case *ast.NumberLiteral:
		d.at(n.Idx, n.Literal, "NumberLiteral")
		return t(set("KNumber"), zs(int(n.Idx), len(n.Literal)), nil)
	case *ast.ObjectLiteral:
		d.at(n.LeftBrace, "{", "ObjectLiteral.LeftBrace")
		d.at(n.RightBrace, "}", "ObjectLiteral.RightBrace")
		kids := make([]string, len(n.Value))
		for i, p := range n.Value {
			if fl, ok := p.Value.(*ast.FunctionLiteral); ok && (p.Kind == "get" || p.Kind == "set") {
				d.accFunc[fl] = true
			}
			kids[i] = d.slotI(p.Value)
		}
		return t(set("KObject"), zs(int(n.LeftBrace), int(n.RightBrace)), kids)
	case *ast.RegExpLiteral:
		d.at(n.Idx, n.Literal, "RegExpLiteral")
		return t(set("KRegExp"), zs(int(n.Idx), len(n.Literal)), nil)
	case *ast.SequenceExpression:
		return t(set("KSequence"), "[]", d.exprs(n.Sequence))
	case *ast.StringLiteral:
		d.at(n.Idx, n.Literal, "StringLiteral")
		return t(set("KString"), zs(int(n.Idx), len(n.Literal)), nil)
	case *ast.ThisExpression:
		d.at(n.Idx, "this", "ThisExpression")
		return t(set("KThis"), zs(int(n.Idx)), nil)
	case *ast.UnaryExpression:
		d.at(n.Idx, n.Operator.String(), "UnaryExpression.Idx")
		pf := 0
		if n.Postfix {
			pf = 1
		}
		return t(set("KUnary"), zs(int(n.Idx), pf), []string{d.slotI(n.Operand)})
	case *ast.VariableExpression:
		d.at(n.Idx, n.Name, "VariableExpression")
		d.nameSeq = append(d.nameSeq, "var:"+n.Name)
		return t(set("KVarExpr"), zs(int(n.Idx), len(n.Name)), []string{d.slotI(n.Initializer)})
	case *ast.BadStatement:
		return t(set("KBadStmt"), zs(int(n.From), int(n.To)), nil)
	case *ast.BlockStatement:
		d.at(n.LeftBrace, "{", "BlockStatement.LeftBrace")
		d.at(n.RightBrace, "}", "BlockStatement.RightBrace")
		return t(set("KBlock"), zs(int(n.LeftBrace), int(n.RightBrace)), d.stmts(n.List))
	case *ast.BranchStatement:
		d.at(n.Idx, n.Token.String(), "BranchStatement")
		ic := 0
		if n.Token.String() == "continue" {
			ic = 1
		}
		return t(set("KBranch"), zs(int(n.Idx), len(n.Token.String()), ic), []string{d.slotP(n.Label)})
	case *ast.CaseStatement:
		if n.Test == nil {
			d.at(n.Case, "default", "CaseStatement.Case")
		} else {
			d.at(n.Case, "case", "CaseStatement.Case")
		}
		return t(set("KCase"), zs(int(n.Case)), append([]string{d.slotI(n.Test)}, d.stmts(n.Consequent)...))
	case *ast.CatchStatement:
		d.at(n.Catch, "catch", "CatchStatement.Catch")
		return t(set("KCatch"), zs(int(n.Catch)), []string{d.slotP(n.Parameter), d.slotI(n.Body)})
	case *ast.DebuggerStatement:
		d.at(n.Debugger, "debugger", "DebuggerStatement")
		return t(set("KDebugger"), zs(int(n.Debugger)), nil)
	case *ast.DoWhileStatement:
		d.at(n.Do, "do", "DoWhileStatement.Do")
		d.at(n.RightParenthesis, ")", "DoWhileStatement.RightParenthesis")
		return t(set("KDoWhile"), zs(int(n.Do), int(n.RightParenthesis)), []string{d.slotI(n.Test), d.slotI(n.Body)})
	case *ast.EmptyStatement:
		d.at(n.Semicolon, ";", "EmptyStatement")
		return t(set("KEmptyStmt"), zs(int(n.Semicolon)), nil)
	case *ast.ExpressionStatement:
		return t(set("KExprStmt"), "[]", []string{d.slotI(n.Expression)})
	case *ast.ForInStatement:
		d.at(n.For, "for", "ForInStatement.For")
		return t(set("KForIn"), zs(int(n.For)), []string{d.slotI(n.Into), d.slotI(n.Source), d.slotI(n.Body)})
	case *ast.ForStatement:
		d.at(n.For, "for", "ForStatement.For")
		return t(set("KFor"), zs(int(n.For)), []string{d.slotI(n.Initializer), d.slotI(n.Update), d.slotI(n.Test), d.slotI(n.Body)})
	case *ast.FunctionStatement:
		return t(set("KFuncStmt"), "[]", []string{d.slotP(n.Function)})
	case *ast.IfStatement:
		d.at(n.If, "if", "IfStatement.If")
		return t(set("KIf"), zs(int(n.If)), []string{d.slotI(n.Test), d.slotI(n.Consequent), d.slotI(n.Alternate)})
	case *ast.LabelledStatement:
		d.at(n.Colon, ":", "LabelledStatement.Colon")
		return t(set("KLabelled"), zs(int(n.Colon)), []string{d.slotP(n.Label), d.slotI(n.Statement)})
	case *ast.ReturnStatement:
		d.at(n.Return, "return", "ReturnStatement")
		return t(set("KReturn"), zs(int(n.Return)), []string{d.slotI(n.Argument)})
	case *ast.SwitchStatement:
		d.at(n.Switch, "switch", "SwitchStatement.Switch")
		kids := []string{d.slotI(n.Discriminant)}
		for _, c := range n.Body {
			kids = append(kids, d.slotP(c))
		}
		d.at(n.RightBrace, "}", "SwitchStatement.RightBrace")
		return t(set("KSwitch"), zs(int(n.Switch), int(n.RightBrace), n.Default), kids)
	case *ast.ThrowStatement:
		d.at(n.Throw, "throw", "ThrowStatement")
		return t(set("KThrow"), zs(int(n.Throw)), []string{d.slotI(n.Argument)})
	case *ast.TryStatement:
		d.at(n.Try, "try", "TryStatement")
		return t(set("KTry"), zs(int(n.Try)), []string{d.slotI(n.Body), d.slotP(n.Catch), d.slotI(n.Finally)})
	case *ast.VariableStatement:
		d.at(n.Var, "var", "VariableStatement")
		return t(set("KVarStmt"), zs(int(n.Var)), d.exprs(n.List))
	case *ast.WhileStatement:
		d.at(n.While, "while", "WhileStatement")
		return t(set("KWhile"), zs(int(n.While)), []string{d.slotI(n.Test), d.slotI(n.Body)})
	case *ast.WithStatement:
		d.at(n.With, "with", "WithStatement")
		return t(set("KWith"), zs(int(n.With)), []string{d.slotI(n.Object), d.slotI(n.Body)})
	case *ast.Program:
		return t(set("KProgram"), "[]", d.stmts(n.Body))
	}
	d.tokOK = false
	d.tokWhy = fmt.Sprintf("unknown node type %T", n)
	return t(set("KBadStmt"), "[0;0]", nil)
}

// observed (Idx0, Idx1) of every node in d.order; "None" when the method panics
func callIdx(f func() file.Idx) (s string) {
	defer func() {
		if r := recover(); r != nil {
			s = "None"
		}
	}()
	return "(Some " + z(int(f())) + ")"
}

func (d *dumper) spans() (coq string, txt string) {
	cs := make([]string, len(d.order))
	ts := make([]string, len(d.order))
	for i, n := range d.order {
		a, b := callIdx(n.Idx0), callIdx(n.Idx1)
		cs[i] = "(" + a + "," + b + ")"
		ts[i] = strings.TrimPrefix(d.kinds[i], "K") + ":" + strings.NewReplacer("(Some ", "", ")", "").Replace(a+"-"+b)
	}
	return "[" + strings.Join(cs, ";") + "]", strings.Join(ts, " ")
}

// FunctionLiteral.Source must be the text of the function's span
func (d *dumper) checkSources() {
	for _, n := range d.order {
		fl, ok := n.(*ast.FunctionLiteral)
		if !ok || d.accFunc[fl] {
			continue
		}
		a, b := int(fl.Function)-d.base, -1
		func() {
			defer func() { _ = recover() }()
			b = int(fl.Idx1()) - d.base
		}()
		if a < 0 || b < a || b > len(d.src) || fl.Source != d.src[a:b] {
			d.tokOK = false
			d.tokWhy = fmt.Sprintf("FunctionLiteral.Source %q is not the text of its span", fl.Source)
		}
	}
}

// ---- ast.Walk observation ----

type recVisitor struct {
	ids   map[ast.Node]int
	kinds []string
	stop  string
	ev    []int64
}

func (v *recVisitor) Enter(n ast.Node) ast.Visitor {
	if isNilNode(n) {
		v.ev = append(v.ev, 1000000)
		return v
	}
	id, ok := v.ids[n]
	if !ok {
		v.ev = append(v.ev, 2000000) // a node that is not in the tree
		return v
	}
	v.ev = append(v.ev, int64(id))
	if v.stop != "" && v.kinds[id] == v.stop {
		return nil
	}
	return v
}

func (v *recVisitor) Exit(n ast.Node) {
	if isNilNode(n) {
		v.ev = append(v.ev, 1000001)
		return
	}
	id, ok := v.ids[n]
	if !ok {
		v.ev = append(v.ev, 2000001)
		return
	}
	v.ev = append(v.ev, -int64(id+1))
}

func (d *dumper) walk(root ast.Node, stop string) (ev []int64) {
	v := &recVisitor{ids: map[ast.Node]int{}, kinds: d.kinds, stop: stop}
	for i, n := range d.order {
		v.ids[n] = i
	}
	defer func() {
		if r := recover(); r != nil {
			ev = append(v.ev, 3000000) // Walk panicked
		}
	}()
	ast.Walk(v, root)
	return v.ev
}
