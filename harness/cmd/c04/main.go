// c04: correspondence cases for property C04 (parsing is total; accepted trees are well-formed).
package main

import (
	"fmt"
	"strings"
	"time"
	"unicode/utf8"

	"github.com/robertkrimen/otto"
	"github.com/robertkrimen/otto/ast"
	"github.com/robertkrimen/otto/file"
	"github.com/robertkrimen/otto/parser"
	. "ottoh/lib"
)

type presult struct {
	prog    *ast.Program
	err     error
	pan     interface{}
	timeout bool
	base    int
}

func (r presult) accepted() bool { return !r.timeout && r.pan == nil && r.err == nil && r.prog != nil }

// ParseFile under recover and a watchdog
func parseGuard(src string, mode parser.Mode, fs *file.FileSet) presult {
	return parseGuardAny(src, mode, fs)
}

func parseGuardAny(src interface{}, mode parser.Mode, fs *file.FileSet) presult {
	ch := make(chan presult, 1)
	go func() {
		var r presult
		defer func() {
			if p := recover(); p != nil {
				r.pan = p
			}
			ch <- r
		}()
		r.prog, r.err = parser.ParseFile(fs, "", src, mode)
	}()
	select {
	case r := <-ch:
		r.base = 1
		if r.prog != nil && r.prog.File != nil {
			r.base = r.prog.File.Base()
		}
		return r
	case <-time.After(10 * time.Second):
		return presult{timeout: true}
	}
}

// tree or a non-empty error list
func shapeOK(r presult) bool {
	if r.timeout || r.pan != nil {
		return true // reported by the other flags
	}
	if r.prog == nil {
		return false
	}
	if r.err == nil {
		return true
	}
	el, ok := r.err.(*parser.ErrorList)
	return ok && el != nil && len(*el) > 0
}

// every error position (line, column) designates an offset inside [0, len(src)]
func errsInRange(src string, r presult) bool {
	if r.err == nil {
		return true
	}
	el, ok := r.err.(*parser.ErrorList)
	if !ok {
		return false
	}
	starts := []int{0}
	for i := 0; i < len(src); {
		c, w := utf8.DecodeRuneInString(src[i:])
		switch c {
		case '\r':
			if i+1 < len(src) && src[i+1] == '\n' {
				w = 2
			}
			starts = append(starts, i+w)
		case '\n', '\u2028', '\u2029':
			starts = append(starts, i+w)
		}
		i += w
	}
	for _, e := range *el {
		if e == nil || e.Position.Line < 1 || e.Position.Line > len(starts) || e.Position.Column < 1 {
			return false
		}
		off := starts[e.Position.Line-1] + e.Position.Column - 1
		if off < 0 || off > len(src) {
			return false
		}
		if e.Position.Line < len(starts) && off > starts[e.Position.Line] {
			return false // the column runs past the end of its line
		}
	}
	return true
}

type harness struct {
	env        *Env
	vm         *otto.Otto
	snapVM     *otto.Otto
	snapScript *otto.Script
	nlit       int
	fs         *file.FileSet
	nfs        int
}

// run a script with a watchdog (a wrongly evaluated partial program may loop)
func (h *harness) run(src string) (val string, errd bool) {
	h.vm.Interrupt = make(chan func(), 1)
	type out struct {
		o Outcome
	}
	ch := make(chan out, 1)
	go func() { ch <- out{RunJS(h.vm, src)} }()
	select {
	case o := <-ch:
		if o.o.Panic != nil {
			h.vm = otto.New()
			return fmt.Sprintf("!panic %v", o.o.Panic), true
		}
		if o.o.Err != nil {
			return "!err " + o.o.Err.Error(), true
		}
		return o.o.Val.String(), false
	case <-time.After(5 * time.Second):
		h.vm.Interrupt <- func() { panic("c04 watchdog") }
		<-ch
		h.vm = otto.New()
		return "!timeout", true
	}
}

const snapJS = `(function(g){ return Object.getOwnPropertyNames(g).sort().join() + "|" + typeof __se + typeof __v + typeof __f })(this)`

// snapshot of the global object through a precompiled *Script, so that taking it does not go
// through the string path of Run (a per-runtime "last source" memo would be replaced by it)
func (h *harness) snap() string {
	if h.snapVM != h.vm || h.snapScript == nil {
		sc, err := h.vm.Compile("", snapJS)
		if err != nil {
			return "!snapshot does not compile: " + err.Error()
		}
		h.snapVM, h.snapScript = h.vm, sc
	}
	vm, sc := h.vm, h.snapScript
	o := Guard(func() (otto.Value, error) { return vm.Run(sc) })
	if o.Panic != nil {
		return fmt.Sprintf("!panic %v", o.Panic)
	}
	if o.Err != nil {
		return "!err " + o.Err.Error()
	}
	return o.Val.String()
}

func guardErr(f func() error) (msg string, pan interface{}) {
	defer func() { pan = recover() }()
	if err := f(); err != nil {
		return err.Error(), nil
	}
	return "", nil
}

// parse-before-evaluate: a rejected source leaves the runtime's global object alone — also when it
// is submitted again and again to the same runtime (Run three times in a row, once more after an
// accepted source, Compile twice, eval twice, Function twice): same rejection and error position
// each time, global object unchanged, no panic
func (h *harness) runtimeFlags(src string) (runRejects, runClean, evalClean bool, note string) {
	return h.runtimeFlagsN(src, true)
}

// light: Run twice in a row and the snapshots only (used inside the big literal sweeps, where
// every fourth source still gets the full treatment)
func (h *harness) runtimeFlagsN(src string, full bool) (runRejects, runClean, evalClean bool, note string) {
	pre := "__se = 1; var __v = 2; function __f(){}\n" + src
	clean := func(s string) bool { return strings.HasSuffix(s, "|undefinedundefinedundefined") }
	before := h.snap()
	runRejects, runClean, evalClean = true, clean(before), true
	var first string
	why := ""
	fail := func(flag *bool, msg string) {
		*flag = false
		if why == "" {
			why = msg
		}
	}
	runs := 4
	if !full {
		runs = 2
	}
	for i := 0; i < runs; i++ {
		if i == 3 { // once more after an accepted source
			h.run("1 + 1")
		}
		r, errd := h.run(pre)
		if !errd || strings.HasPrefix(r, "!panic") || r == "!timeout" {
			fail(&runRejects, fmt.Sprintf("Run #%d -> %q", i+1, r))
		}
		if i == 0 {
			first = r
		} else if r != first {
			fail(&runRejects, fmt.Sprintf("Run #%d -> %q but Run #1 -> %q", i+1, r, first))
		}
		if after := h.snap(); after != before {
			fail(&runClean, fmt.Sprintf("global object after Run #%d: %q, before: %q", i+1, after, before))
		}
	}
	vm := h.vm
	for i := 0; i < 2 && full; i++ {
		msg, pan := guardErr(func() error { _, err := vm.Compile("", pre); return err })
		if pan != nil || msg == "" {
			fail(&runRejects, fmt.Sprintf("Compile #%d -> error %q panic %v", i+1, msg, pan))
		}
	}
	if full && utf8.ValidString(src) { // the string literal handed to eval replaces invalid bytes
		lit := JSStr(Units(pre))
		for i := 0; i < 2; i++ {
			ev, _ := h.run(`(function(){ try { eval(` + lit + `); return "noerr" } catch (e) { return (e instanceof SyntaxError || e instanceof ReferenceError) ? "ok" : "other " + e } })()`)
			if ev != "ok" {
				fail(&evalClean, fmt.Sprintf("eval #%d -> %q", i+1, ev))
			}
			if after := h.snap(); after != before {
				fail(&evalClean, fmt.Sprintf("global object after eval #%d: %q", i+1, after))
			}
		}
		fn := ""
		for i := 0; i < 2; i++ { // as a function body the text may be legal (return): only consistency and no panic
			r, _ := h.run(`(function(){ try { new Function(` + lit + `); return "compiled" } catch (e) { return "threw" } })()`)
			if strings.HasPrefix(r, "!") || (i == 1 && r != fn) {
				fail(&evalClean, fmt.Sprintf("new Function #%d -> %q (first %q)", i+1, r, fn))
			}
			fn = r
			if after := h.snap(); after != before {
				fail(&evalClean, fmt.Sprintf("global object after new Function #%d: %q", i+1, after))
			}
		}
	}
	if after := h.snap(); after != before || !clean(after) || why != "" {
		h.vm = otto.New()
	}
	if why != "" {
		note = " " + why
	}
	return
}

func (h *harness) fileSet() *file.FileSet {
	// histories: several files registered in one FileSet, so that bases are not always 1
	if h.fs == nil || h.nfs >= 4 {
		h.fs, h.nfs = &file.FileSet{}, 0
		if h.env.Rng.Intn(2) == 0 {
			h.fs = nil
			return nil
		}
	}
	h.nfs++
	return h.fs
}

func commentsOK(src string, r presult) bool {
	if r.prog == nil {
		return true
	}
	for _, cs := range r.prog.Comments {
		for _, c := range cs {
			off := int(c.Begin) - r.base
			if off < 0 || off+2 > len(src) {
				return false
			}
			if h := src[off : off+2]; h != "//" && h != "/*" {
				return false
			}
			if utf8.ValidString(src) && !strings.HasPrefix(src[off+2:], c.Text) {
				return false
			}
		}
	}
	return true
}

var stopKinds = []string{"KFunction", "KBlock", "KCall", "KIf", "KBinary", "KFor", "KSwitch", "KObject", "KTry", "KIdentifier", "KExprStmt", "KVarStmt"}

// cases about an accepted tree: spans, Walk, static rules on its skeleton
func (h *harness) addTree(r presult, src string, how string, g []*stm) {
	env := h.env
	d := &dumper{src: src, base: r.base, names: map[string]int{}, tokOK: true, accFunc: map[*ast.FunctionLiteral]bool{}}
	tree := d.node(r.prog)
	d.checkSources()
	spans, spansTxt := d.spans()
	why := ""
	if !d.tokOK {
		why = " TOKEN-MISMATCH " + d.tokWhy
	}
	env.Add(fmt.Sprintf("CSpan (%s) %d %d %s %s", tree, r.base, len(src), spans, Cbool(d.tokOK)),
		fmt.Sprintf("span %s base=%d src=%q -> %s%s", how, r.base, src, spansTxt, why), "span:"+how, len(d.order) > 3)
	ev := d.walk(r.prog, "")
	env.Add(fmt.Sprintf("CWalk (%s) None %s", tree, Czlist(ev)),
		fmt.Sprintf("walk %s src=%q -> events %v", how, src, ev), "walk:"+how, len(d.order) > 3)
	if env.Rng.Intn(3) == 0 {
		stop := Pick(env.Rng, stopKinds)
		ev := d.walk(r.prog, stop)
		env.Add(fmt.Sprintf("CWalk (%s) (Some %s) %s", tree, stop, Czlist(ev)),
			fmt.Sprintf("walk %s visitor stops at %s src=%q -> events %v", how, stop, src, ev), "walk-prune:"+how, true)
	}
	obs, ok := skelOf(r.prog)
	if g == nil {
		if ok {
			env.Add(fmt.Sprintf("CEarly %s true None", coqStms(obs)),
				fmt.Sprintf("static-rules %s src=%q accepted; skeleton %s", how, src, coqStms(obs)), "early-tree:"+how, true)
		}
		return
	}
	o := "None"
	if ok {
		o = "(Some " + coqStms(obs) + ")"
	}
	env.Add(fmt.Sprintf("CEarly %s true %s", coqStms(g), o),
		fmt.Sprintf("static-rules %s src=%q accepted; generated %s; otto built %s", how, src, coqStms(g), o), "early:"+how, true)
}

// robustness flags of one source, both parser modes, and the runtime if it was rejected
func (h *harness) addRobust(src string, how string, r0 presult) {
	rc := parseGuard(src, parser.StoreComments, nil)
	sameTree := true
	if r0.accepted() && rc.accepted() && r0.base == 1 {
		d0 := &dumper{src: src, base: 1, names: map[string]int{}, tokOK: true, accFunc: map[*ast.FunctionLiteral]bool{}}
		d1 := &dumper{src: src, base: 1, names: map[string]int{}, tokOK: true, accFunc: map[*ast.FunctionLiteral]bool{}}
		sameTree = d0.node(r0.prog) == d1.node(rc.prog)
	}
	flags := []bool{
		r0.pan == nil, !r0.timeout, shapeOK(r0), errsInRange(src, r0),
		rc.pan == nil, !rc.timeout, shapeOK(rc) && r0.accepted() == rc.accepted() && sameTree, errsInRange(src, rc),
		commentsOK(src, rc),
	}
	note := ""
	if !r0.accepted() && !r0.timeout {
		a, b, c, n := h.runtimeFlagsN(src, h.env.Rng.Intn(3) == 0)
		flags = append(flags, a, b, c)
		note = n
	}
	fs := make([]string, len(flags))
	for i, f := range flags {
		fs[i] = Cbool(f)
	}
	verdict := "rejected"
	if r0.accepted() {
		verdict = "accepted"
	}
	if r0.pan != nil {
		verdict = fmt.Sprintf("PANIC %v", r0.pan)
	}
	if rc.pan != nil {
		verdict += fmt.Sprintf(" PANIC(StoreComments) %v", rc.pan)
	}
	if r0.err != nil {
		verdict += " (" + r0.err.Error() + ")"
	}
	h.env.Add("CRobust "+Clist(fs), fmt.Sprintf("robust %s src=%q -> %s flags=%v%s", how, src, verdict, flags, note), "robust:"+how, true)
}

// a source whose ES5 verdict is known to be "SyntaxError" by construction
func (h *harness) addMustReject(src, how string, r presult) {
	h.env.Add(fmt.Sprintf("CPinned 50 false false %s", Cbool(r.accepted())),
		fmt.Sprintf("must-reject %s src=%q -> accepted=%v", how, src, r.accepted()), "must-reject:"+how, true)
}

// bracket structure of a token list: 0 balanced, 1 unbalanced, 3 unknown
func brackets(ts []tok) int {
	var st []byte
	for _, t := range ts {
		if t.k == tkRegex && strings.ContainsAny(t.s, "()[]{}") {
			return 3 // a mutation may turn the literal's text into division and real brackets: no verdict
		}
		if t.k == tkPunct && (t.s == "/" || t.s == "/=") {
			return 3 // a mutation may turn the division into the start of a regular-expression literal that swallows brackets
		}
		if t.k != tkPunct {
			continue
		}
		switch t.s {
		case "(", "[", "{":
			st = append(st, t.s[0])
		case ")", "]", "}":
			if len(st) == 0 {
				return 1
			}
			o := st[len(st)-1]
			st = st[:len(st)-1]
			if (t.s == ")" && o != '(') || (t.s == "]" && o != '[') || (t.s == "}" && o != '{') {
				return 1
			}
		}
	}
	if len(st) == 0 {
		return 0
	}
	return 1
}

func balanced(ts []tok) bool { return brackets(ts) == 0 }

var reserved = []string{"class", "enum", "extends", "super", "const", "export", "import", "if", "for", "while", "new", "delete", "typeof", "this", "null", "true", "var", "function", "default", "finally", "instanceof", "void", "with", "switch", "case"}
var pureBin = []string{"*", "%", "<=", ">=", "==", "!=", "===", "!==", "&&", "||", "&", "|", "^", "<<", ">>", ">>>", "instanceof", "="}
var soup = strings.Fields(`break continue for if return switch var do try with while throw catch finally case default else function this new delete void typeof instanceof in debugger null true false class enum a b L0 x 1 0x1f 1.5e3 .5 "s" 's' /re/g /[/]/ ( ) [ ] { } ; , . : ? + - * / % ++ -- = += -= /= &^ &^= & | ^ ~ ! < > <= >= == != === !== << >> >>> && || get set a: "é" é 08 0x 1e "\ /* // <!-- --> a \u00 ' " /`)

// every single-token deletion, bracket insertion and neighbour swap of a legal program:
// none may panic or hang, errors stay inside the input, and every mutant whose brackets
// no longer match must be rejected (one aggregated case per base program)
func (h *harness) sweep(base []tok) {
	noPanic, terminated, shape, inRange := true, true, true, true
	offender, bad, n, nmust := "", "", 0, 0
	try := func(ts []tok, how string) {
		src := render(h.env.Rng, ts, false)
		r := parseGuard(src, 0, nil)
		n++
		if r.pan != nil || r.timeout || !shapeOK(r) || !errsInRange(src, r) {
			if bad == "" {
				bad = fmt.Sprintf(" FIRST-BAD %s src=%q panic=%v timeout=%v", how, src, r.pan, r.timeout)
			}
			noPanic = noPanic && r.pan == nil
			terminated = terminated && !r.timeout
			shape = shape && shapeOK(r)
			inRange = inRange && errsInRange(src, r)
		}
		if brackets(ts) == 1 {
			nmust++
			if r.accepted() && offender == "" {
				offender = fmt.Sprintf(" ACCEPTED %s src=%q", how, src)
			}
		}
	}
	for i := range base {
		ts := append(append([]tok{}, base[:i]...), base[i+1:]...)
		try(ts, fmt.Sprintf("delete token %d", i))
		if i+1 < len(base) {
			ts = append([]tok{}, base...)
			ts[i], ts[i+1] = ts[i+1], ts[i]
			try(ts, fmt.Sprintf("swap tokens %d,%d", i, i+1))
		}
	}
	for i := 0; i <= len(base); i++ {
		for _, b := range []string{"(", ")", "[", "]", "{", "}"} {
			ts := append(append(append([]tok{}, base[:i]...), tok{s: b, k: tkPunct}), base[i:]...)
			try(ts, fmt.Sprintf("insert %s at %d", b, i))
		}
	}
	src := render(h.env.Rng, base, false)
	h.env.Add(fmt.Sprintf("CPinned 50 false false %s", Cbool(offender != "")),
		fmt.Sprintf("sweep-must-reject base=%q: %d of %d single-token mutants have unmatched brackets%s", src, nmust, n, offender), "sweep:must-reject", true)
	h.env.Add("CRobust "+Clist([]string{Cbool(noPanic), Cbool(terminated), Cbool(shape), Cbool(inRange)}),
		fmt.Sprintf("sweep-robust base=%q: %d single-token mutants%s", src, n, bad), "sweep:robust", true)
}

type pinned struct {
	src         string
	cls         int
	spec, model bool
}

var pinnedProbes = []pinned{
	{"a &^= 1", 12, false, true},
	{"a: if (1) x = 1 &^= 2", 12, false, false}, // same token where it cannot be an assignment: rejected
	{"x = {get a(b){}}", 13, false, true},
	{"x = {set a(){}}", 13, false, true},
	{"x = {set a(b, c){}}", 13, false, true},
	{"x = {a: 1, get a(){}}", 13, false, true},
	{"x = {get a(){}, get a(){}}", 13, false, true},
	{"x = {0x: 1}", 16, false, true},
	{"x = {1e+: 1}", 16, false, true},
	{"x = {q\\u12: 1};", 16, false, true},
	// fixed finding C04-noin-relational-operand (24f7b9d): regression cases, ES5 verdict expected
	{"for (x = a < b in c;;);", 18, false, false},
	{"for (var i = 0, j = a instanceof b in c;;);", 18, false, false},
	{"for (x = a >= b + c in d;;);", 18, false, false},
	{"for (x = (a < b in c);;);", 19, true, true},
	// fixed finding C04-param-trailing-comma (e7d0cb4): regression cases, ES5 verdict expected
	{"function f(a,){}", 20, false, false},
	{"x = function(a, b,){ return a };", 20, false, false},
	{"x = {set p(v,){}};", 20, false, false},
	{"function f(a, b){}", 19, true, true},
	{"function f(,a){}", 20, false, false},
	{"function f(a,,b){}", 20, false, false},
	{"x = /a/ g", 15, false, true},
	{"x = /a/\ng", 15, false, true},
	// fixed finding C04-switch-unterminated (ceb8c0d): regression cases, the ES5 verdict is expected now
	{"switch(1){", 14, false, false},
	{"switch (a) { case 1: x; switch (b) { default: ", 14, false, false},
	{"L1: if (x) switch (a) { case 1: x; ", 14, false, false},
	{"{ switch(1){", 14, false, false},
	// repaired parser defects that the generator used to avoid (C03 side): valid ES5, must be accepted
	{"x = a.if\ny = 2", 17, true, true},
	{"if (a) debugger\n; else x", 17, true, true},
	{"x\ra\n", 17, true, true},
	{"for (x = a ? b in c : d;;);", 17, true, true},
}

var pinnedSources = []string{
	"switch(1){case 1:}", "", "for(;;);", "for(;;){break;}", "a: if(1) while(1){continue a;}",
	"switch (x) { default: case 2: y(); }", "try {} finally {}", "x = function(){}", "  \n ", "// only a comment",
	"for (var i = 0, j; i < 2; i++) ; for (k in o) ;", "L1: L2: for (;;) { continue L1; }",
}

func main() {
	env := FromFlags("c04")
	env.Import = "Otto.C04.Corr"
	env.Rule = "pinned witnesses; generated ES5 programs (legal / jumps-labels-try placed at random / one expression-level early error) rendered with random white space, comments, line terminators and ASI; single-token deletions, insertions, swaps and reserved-word substitutions of legal programs; truncations at every kind of byte; token soup, random bytes, invalid UTF-8; each through ParseFile (mode 0 and StoreComments, sometimes through a shared FileSet) under recover and a watchdog; accepted trees dumped with every node's Idx0/Idx1, token text at recorded positions, the ast.Walk event stream (full and pruned) and the statement skeleton; rejected sources run on a runtime whose global object is compared before/after. Non-trivial = distinct case with more than 3 nodes or any rejected/mutated source"
	h := &harness{env: env, vm: otto.New()}
	r := env.Rng
	for _, p := range pinnedProbes {
		res := parseGuard(p.src, 0, nil)
		env.Add(fmt.Sprintf("CPinned %d %s %s %s", p.cls, Cbool(p.spec), Cbool(p.model), Cbool(res.accepted())),
			fmt.Sprintf("pinned src=%q ES5 accepts=%v recorded otto accepts=%v -> accepted=%v", p.src, p.spec, p.model, res.accepted()), "pinned", true)
		h.addRobust(p.src, "pinned", res)
		if res.accepted() {
			h.addTree(res, p.src, "pinned", nil)
		}
	}
	for _, src := range pinnedSources {
		res := parseGuard(src, 0, nil)
		h.addRobust(src, "pinned", res)
		if res.accepted() {
			h.addTree(res, src, "pinned", nil)
		}
	}
	h.literalStream()
	h.sourceMapStream()
	h.parseFunctionStream()
	h.staticMatrix()
	h.escapeStream()
	h.escapeCharStream()
	h.noInStream()
	h.lineTerminatorStream()
	h.literalPositionStream()
	h.numericFollowStream()
	h.fileSetErrorStream()
	for env.Count() < env.N {
		switch k := r.Intn(20); {
		case k < 8: // generated program, verdict decided by the Coq model/spec
			var g *gen
			var sk []*stm
			how := "legal"
			mode := r.Intn(20)
			for try := 0; ; try++ {
				g = &gen{r: r}
				how = "legal"
				switch {
				case mode < 3:
					g.wild, how = true, "wild"
				case mode < 6:
					g.exprE, how = []int{1, 2, 3, 5}[r.Intn(4)], "expr-error"
				case mode < 8:
					g.wild, g.jumps, how = true, true, "jumps"
				case mode < 13:
					g.oneFault, g.jumps, how = true, true, "one-fault-jumps"
				case mode < 15:
					g.oneFault, how = true, "one-fault"
				case mode < 16:
					g.jumps, how = true, "legal-jumps"
				}
				if g.jumps {
					sk = g.program(r.Intn(2)+1, r.Intn(3)+3)
				} else {
					sk = g.program(r.Intn(4)+1, r.Intn(4)+1)
				}
				if !g.oneFault || g.used || try >= 6 {
					break
				}
			}
			src := render(r, g.t, r.Intn(4) > 0)
			res := parseGuard(src, 0, h.fileSet())
			if res.accepted() {
				h.addTree(res, src, how, sk)
			} else {
				env.Add(fmt.Sprintf("CEarly %s false None", coqStms(sk)),
					fmt.Sprintf("static-rules %s src=%q rejected (%v); generated %s", how, src, res.err, coqStms(sk)), "early:"+how, true)
				h.addRobust(src, how, res)
			}
		case k < 15: // one token-level mutation of a legal program
			g := &gen{r: r}
			g.program(r.Intn(3)+1, r.Intn(3)+1)
			ts := append([]tok{}, g.t...)
			if len(ts) == 0 {
				continue
			}
			if len(ts) <= 120 && (env.Tier == "thorough" || r.Intn(2) == 0) {
				h.sweep(g.t)
			}
			i := r.Intn(len(ts))
			how, must := "", false
			switch r.Intn(7) {
			case 0: // delete
				how = "delete"
				ts = append(ts[:i], ts[i+1:]...)
				must = brackets(ts) == 1
			case 1: // insert a random token
				how = "insert"
				s := Pick(r, soup)
				ts = append(ts[:i], append([]tok{{s: s, k: tkPunct}}, ts[i:]...)...)
				must = (s == "(" || s == ")" || s == "[" || s == "]" || s == "{" || s == "}") && brackets(ts) == 1
			case 2: // swap neighbours
				how = "swap"
				if i+1 < len(ts) {
					ts[i], ts[i+1] = ts[i+1], ts[i]
				}
				must = brackets(ts) == 1
			case 3: // a binary operator doubled with one that has no prefix reading
				how = "double-operator"
				for j := 0; j < len(ts); j++ {
					q := (i + j) % len(ts)
					if ts[q].k == tkPunct && (ts[q].s == "*" || ts[q].s == "%" || ts[q].s == "<=" || ts[q].s == "===" || ts[q].s == "&&" || ts[q].s == "||" || ts[q].s == ">>>" || ts[q].s == "!=") {
						ts = append(ts[:q+1], append([]tok{{s: Pick(r, pureBin), k: tkPunct}}, ts[q+1:]...)...)
						must = true
						break
					}
				}
			case 4: // a literal right after an identifier, number or string on the same line
				how = "juxtapose"
				for j := 0; j < len(ts); j++ {
					q := (i + j) % len(ts)
					if (ts[q].k == tkNum || ts[q].k == tkStr || (ts[q].k == tkIdent && ts[q].s != "get" && ts[q].s != "set")) &&
						!(q+1 < len(ts) && ts[q+1].s == ":") {
						ts = append(ts[:q+1], append([]tok{{s: Pick(r, []string{"1", "'s'", "0x10", "q"}), k: tkNum}}, ts[q+1:]...)...)
						must = true
						break
					}
				}
			case 5: // a reserved word where a binding identifier stands
				how = "reserved-word"
				for j := 0; j+1 < len(ts); j++ {
					q := (i + j) % (len(ts) - 1)
					if ts[q].k == tkKeyword && (ts[q].s == "var" || ts[q].s == "function" || ts[q].s == "catch") {
						p := q + 1
						if ts[q].s == "catch" {
							p = q + 2
						}
						if p < len(ts) && ts[p].k == tkIdent {
							ts[p] = tok{s: Pick(r, reserved), k: tkKeyword}
							must = true
							break
						}
					}
				}
			default: // an assignment whose target becomes a non-reference
				how = "bad-target"
				for j := 0; j < len(ts); j++ {
					q := (i + j) % len(ts)
					if q > 0 && ts[q].k == tkPunct && (ts[q].s == "=" || ts[q].s == "+=" || ts[q].s == "-=") && ts[q-1].k == tkIdent &&
						(q < 2 || (ts[q-2].s != "var" && ts[q-2].s != "," && ts[q-2].s != "." && ts[q-2].k != tkKeyword)) {
						ts = append(ts[:q], append([]tok{{s: "*", k: tkPunct}, {s: "2", k: tkNum}}, ts[q:]...)...)
						must = true
						break
					}
				}
			}
			src := render(r, ts, false)
			res := parseGuard(src, 0, nil)
			if must {
				h.addMustReject(src, how, res)
			}
			h.addRobust(src, how, res)
			if res.accepted() {
				h.addTree(res, src, how, nil)
			}
		case k < 17: // truncation
			g := &gen{r: r}
			g.program(r.Intn(3)+1, r.Intn(3)+1)
			if len(g.t) == 0 {
				continue
			}
			how := "truncate"
			var src string
			if r.Intn(2) == 0 { // at a token boundary: unbalanced brackets must be rejected
				i := r.Intn(len(g.t))
				src = render(r, g.t[:i], false)
				res := parseGuard(src, 0, nil)
				if brackets(g.t[:i]) == 1 { // includes a switch body cut off by the end of input (fixed: ceb8c0d)
					h.addMustReject(src, how, res)
				}
				h.addRobust(src, how, res)
				if res.accepted() {
					h.addTree(res, src, how, nil)
				}
				continue
			}
			full := render(r, g.t, true)
			src = full[:r.Intn(len(full)+1)]
			res := parseGuard(src, 0, nil)
			h.addRobust(src, how+"-byte", res)
			if res.accepted() {
				h.addTree(res, src, how+"-byte", nil)
			}
		default: // junk
			var src, how string
			switch r.Intn(4) {
			case 0:
				how = "bytes"
				b := make([]byte, r.Intn(14)+1)
				for i := range b {
					if r.Intn(3) == 0 {
						b[i] = byte(r.Intn(256))
					} else {
						b[i] = " \n\t\"'/\\*[](){};:,.+-=<>!&|^~?%azAZ09_$u"[r.Intn(39)]
					}
				}
				src = string(b)
			case 1:
				how = "utf8"
				parts := []string{"a", "\xff", "\xc3", "\xe2\x80", "\xf0\x9f", "'", "\"", "/", "//", "/*", "*/", "é", " ", "\ufeff", "\xed\xa0\x80", " ", "=", "\\u", "\xc0\x80", "x"}
				n := r.Intn(6) + 1
				for i := 0; i < n; i++ {
					src += Pick(r, parts)
				}
			default:
				how = "soup"
				n := r.Intn(10) + 1
				parts := make([]string, n)
				for i := range parts {
					parts[i] = Pick(r, soup)
				}
				src = strings.Join(parts, Pick(r, []string{" ", " ", "\n", ""}))
			}
			res := parseGuard(src, 0, nil)
			h.addRobust(src, how, res)
			if res.accepted() {
				h.addTree(res, src, how, nil)
			}
		}
	}
	env.Finish()
}
