package main

// lineTerminatorStream: every line terminator (LF, CR, CRLF, LS, PS) in every place where it
// matters — ending a // comment, before the operand of a restricted production, inside string and
// regexp literals, after a line continuation, between tokens for automatic semicolon insertion —
// each followed by legal or illegal code, in both parser modes.  '@' marks the terminator.
// (Multi-line comments containing a terminator are only run for robustness: otto does not treat
// them as a line terminator for ASI, ES5 7.4 — it rejects valid text there, not this property.)

import (
	"fmt"
	"strings"

	"github.com/robertkrimen/otto/parser"
	. "ottoh/lib"
)

type ltTemplate struct {
	src    string
	accept bool
}

var ltTemplates = []ltTemplate{
	// a // comment ends at the terminator
	{"// c@)", false}, {"// c@x = 1", true}, {"x = 1 // c@y = 2", true}, {"x = 1 // c@y = ", false}, {"// c@}", false}, {"//@var class", false},
	{"x // a@// b@= 1 // c@ +", false}, {"x = 1 //@//@// last", true}, {"// c@'unterminated", false}, {"f( // c@)", true}, {"f( // c@", false},
	// restricted productions
	{"x@++;", false}, {"x@++@y", true}, {"x@--;", false}, {"for(;;){ break@M }", true}, {"for(;;){ break M }", false}, {"for(;;){ continue@M }", true},
	{"throw@1", false}, {"throw 1", true}, {"function f(){ return@1 }", true}, {"function f(){ return@) }", false}, {"a: {@break@a@}", false}, {"a: {@break a@}", true},
	// string and regexp literals
	{"x = 'a@b'", false}, {"x = \"a@b\"", false}, {"x = 'a\\@b'", true}, {"x = \"a\\@b\"", true}, {"x = 'a\\@'", true}, {"x = 'a\\@", false}, {"x = /a@b/", false}, {"x = /a\\@b/", false},
	// automatic semicolon insertion between tokens
	{"x = 1@y = 2", true}, {"x = 1 y = 2", false}, {"x = 1@)", false}, {"a@(b)", true}, {"var a@var b", true}, {"var a@= 1", true}, {"do x@while (y)", true},
	{"if (a) b@else c", true}, {"x = 1@/ 2 /@3", true}, {"x = {@a@:@1@}", true}, {"@@x@@", true}, {"/* c@", false}, {"x = a@.b@[c]@(d)", true}, {"x = a@b@c", true}, {"x = a@b c", false},
}

var ltRobustOnly = []string{"x = 1 /*@*/ y = 2", "x = 1 /* a@ b */ y = 2", "function f(){ return /*@*/ 1 }", "x /*@*/ ++ /*@*/ y", "for(;;){ break /*@*/ M }", "x = y@/*@*/@++z", "/*@*/@/*@", "//@/*@*/@//"}

var lineTerminators = []struct{ name, s string }{{"LF", "\n"}, {"CR", "\r"}, {"CRLF", "\r\n"}, {"LS", "\u2028"}, {"PS", "\u2029"}}

func (h *harness) lineTerminatorStream() {
	for _, t := range ltTemplates {
		for _, lt := range lineTerminators {
			if !strings.Contains(t.src, "@") && lt.name != "LF" {
				continue
			}
			src := strings.ReplaceAll(t.src, "@", lt.s)
			for _, mode := range []parser.Mode{0, parser.StoreComments} {
				res := parseGuard(src, mode, nil)
				ok := res.pan == nil && !res.timeout && shapeOK(res) && errsInRange(src, res)
				how := fmt.Sprintf("line-terminator %s mode=%d template=%q src=%q -> accepted=%v (%v)", lt.name, mode, t.src, src, res.accepted(), res.err)
				if t.accept {
					h.env.Add(fmt.Sprintf("CPinned 19 true true %s", Cbool(res.accepted())), how+" must be accepted", "lineterm:accept", true)
				} else {
					h.env.Add(fmt.Sprintf("CPinned 50 false false %s", Cbool(res.accepted())), how+" must be rejected", "lineterm:reject", true)
				}
				if !ok {
					h.env.Add("CRobust [false]", how+fmt.Sprintf(" panic=%v timeout=%v", res.pan, res.timeout), "lineterm:robust", true)
				}
			}
			if !t.accept {
				res := parseGuard(src, 0, nil)
				h.addRobust(src, "lineterm", res)
			}
		}
	}
	for _, t := range ltRobustOnly {
		for _, lt := range lineTerminators {
			src := strings.ReplaceAll(t, "@", lt.s)
			res := parseGuard(src, 0, nil)
			h.addRobust(src, "lineterm-comment", res)
			if res.accepted() {
				h.addTree(res, src, "lineterm-comment", nil)
			}
		}
	}
}
