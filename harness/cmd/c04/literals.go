package main

// Literal stream: every truncation (at every byte) of a pool of regular-expression, string
// and numeric literals — inside groups, classes, escapes, quantifier braces, "(?", "(?:",
// "(?=", "\u12", "\x1", "\c", "[a-", "{1," — through ParseFile, parser.TransformRegExp
// directly and the runtime (literal, RegExp constructor, eval), all under recover.
// One aggregated CRobust case per base literal; the text names the first offending truncation.

import (
	"fmt"
	"strings"
	"unicode/utf8"

	"github.com/robertkrimen/otto/parser"
	. "ottoh/lib"
)

var rePatterns = []string{
	`(?:ab)+c`, `a(?=b)c`, `a(?!b)c`, `(a|b)*c`, `[a-z0-9_]+`, `[^\]\/]x`, `A\x41\cA\cz`, `a{1,3}b{2,}c{4}`,
	`\d+\.\D*\s\S\w\W`, `(((a)))`, `x(?:y(?:z(?=w)))`, `[\b]\B\b`, `^$.`, `a\/b`, `\1(a)\2`, `(?:)`, `[]`, `[^]`,
	`a|`, `éé[é-ü]`, `a+?b*?c??d{2}?`, `(?<n>a)\k<n>`, `[a-\d]`, `\0\08\8`, `a{,5}`, `a{5`, `{1}`, `a**`,
	`[z-a]`, `(`, `)`, `(?`, `(?:`, `(?=`, `(?!`, `[`, `[a-`, `\`, `\u`, `\u1`, `\u12`, `\x`, `\x1`, `\c`, `{1,`,
	`\/[/]\/`, `(?:a(?:b(?:c(?:d))))`, `[A-\x5a\cA]`, `a(b(c[d(e]f)g)h`, `\(\[\{\?\*\+\|\^\$\.\\`,
	"a b", "\xff(?", "𐀀(?:𐀀)", `(?i)a`, `\p{L}`, `a{1,2}{3}`, `x{2,1}`,
}

var strBodies = []string{
	`abc`, `a\nb\tc\\`, `\x41B\103\0`, `\u12`, `\x1`, `\u00g0`, `\xg1`, `a\`, `\8\9`, `\07\377\400`,
	"a\\\nb", "a\\\r\nb", "a\\\rb", "a\\ b", "a\\ b", "\\\n", "\\\r\n", "\\\r", "\\ ", "\\ ",
	"a\nb", "a\rb", "a b", "é\\é\\𐀀", "\xff\\\xff", `\'\"`, `/*//`, `\u{41}`, `𐀀`, `\u`, `\x`,
}

var numLiterals = []string{
	"0x1F", "0X", "0x", "1e", "1e+", "1e-", "1e+10", "1.5E-3", ".5e2", ".e1", "1.e", "1.", "0.0", "00", "08", "09.5",
	"010", "0777", "0b1", "0o7", "1_0", "1..", "0x.1", "0x1g", "1a", "1e400", "9007199254740993", "0x8000000000000000",
	"0xFFFFFFFFFFFFFFFFFFFF", "1e1e1", "0e", "0.e+", "5.", ".", "..5", "1E+", "0x1p3",
}

type litCheck struct {
	flags []bool
	first string
}

func (c *litCheck) set(i int, ok bool, what string) {
	if !ok && c.flags[i] {
		c.flags[i] = false
		if c.first == "" {
			c.first = " FIRST-BAD[" + fmt.Sprint(i) + "] " + what
		}
	}
}

// flags: 0 ParseFile no panic, 1 terminated, 2 tree-or-errors, 3 errors inside the input,
// 4 StoreComments mode no panic and same verdict, 5 Run does not panic/hang,
// 6 rejected source leaves the global object alone, 7 direct library call / constructor / eval do not panic
func (h *harness) litSource(c *litCheck, src string) presult {
	r := parseGuard(src, 0, nil)
	c.set(0, r.pan == nil, fmt.Sprintf("ParseFile(%q) panics: %v", src, r.pan))
	c.set(1, !r.timeout, fmt.Sprintf("ParseFile(%q) hangs", src))
	c.set(2, shapeOK(r), fmt.Sprintf("ParseFile(%q) returns neither tree nor error list", src))
	c.set(3, errsInRange(src, r), fmt.Sprintf("ParseFile(%q) error position outside the input: %v", src, r.err))
	rc := parseGuard(src, parser.StoreComments, nil)
	c.set(4, rc.pan == nil && !rc.timeout && rc.accepted() == r.accepted(), fmt.Sprintf("ParseFile(%q, StoreComments) panic=%v accepted=%v vs %v", src, rc.pan, rc.accepted(), r.accepted()))
	if r.timeout {
		return r
	}
	if r.accepted() {
		v, _ := h.run(src) // literal statements only: harmless to execute
		c.set(5, !strings.HasPrefix(v, "!panic") && v != "!timeout", fmt.Sprintf("Run(%q) -> %s", src, v))
		v2, _ := h.run(src) // the same accepted source again: same result
		c.set(5, v2 == v, fmt.Sprintf("Run(%q) twice -> %s then %s", src, v, v2))
		h.run("delete this.x; delete this.y")
	} else {
		h.nlit++
		a, b, e, note := h.runtimeFlagsN(src, h.nlit%4 == 0)
		c.set(5, a, fmt.Sprintf("Run(%q) of a rejected source%s", src, note))
		c.set(6, b && e, fmt.Sprintf("rejected %q has side effects%s", src, note))
	}
	return r
}

func guardString(f func() (string, error)) (pan interface{}) {
	defer func() { pan = recover() }()
	_, _ = f()
	return nil
}

func (h *harness) jsNoPanic(c *litCheck, js string) {
	v, _ := h.run(js)
	c.set(7, !strings.HasPrefix(v, "!panic") && v != "!timeout", fmt.Sprintf("Run(%q) -> %s", js, v))
}

func cuts(s string) []string {
	out := make([]string, 0, len(s)+1)
	for i := 0; i <= len(s); i++ {
		out = append(out, s[:i])
	}
	return out
}

func (h *harness) addLit(kind, base string, c *litCheck, n int, must string) {
	fs := make([]string, len(c.flags))
	for i, f := range c.flags {
		fs[i] = Cbool(f)
	}
	h.env.Add("CRobust "+Clist(fs), fmt.Sprintf("literal-sweep %s base=%q: %d truncations x contexts, flags=%v%s", kind, base, n, c.flags, c.first), "literal:"+kind, true)
	if must != "" {
		h.env.Add("CPinned 50 false false true", "literal-must-reject "+must, "literal:must-reject", true)
	}
}

func (h *harness) literalStream() {
	r := h.env.Rng
	pats := append([]string{}, rePatterns...)
	atoms := []string{"a", "(", ")", "(?", "(?:", "(?=", "(?!", "[", "]", "[^", "a-", "\\", "\\u", "\\x", "\\c", "\\d", "1", "{", "}", "{1,", ",", "?", "*", "+", "|", "^", "$", ".", "/", "\\/", "é", "A"}
	for i := 0; i < 12; i++ { // a few random compositions per run
		p := ""
		for j := r.Intn(7) + 2; j > 0; j-- {
			p += Pick(r, atoms)
		}
		pats = append(pats, p)
	}
	for _, base := range pats {
		c := &litCheck{flags: []bool{true, true, true, true, true, true, true, true}}
		n := 0
		for _, p := range cuts(base) {
			n++
			if pan := guardString(func() (string, error) { return parser.TransformRegExp(p) }); pan != nil {
				c.set(7, false, fmt.Sprintf("parser.TransformRegExp(%q) panics: %v", p, pan))
			}
			for _, src := range []string{"x = /" + p + "/;", "x = /" + p + "/g.test('a'), y = /" + p, "x = [/" + p + "/gi]", "/" + p + "/"} {
				h.litSource(c, src)
			}
			lit := JSStr(Units(p))
			h.jsNoPanic(c, `(function(){ try { new RegExp(`+lit+`); return "ok" } catch (e) { return "threw" } })()`)
			h.jsNoPanic(c, `(function(){ try { RegExp(`+lit+`, "g").test("ab"); return "ok" } catch (e) { return "threw" } })()`)
			h.jsNoPanic(c, `(function(){ try { eval("/" + `+lit+` + "/"); return "ok" } catch (e) { return "threw" } })()`)
			h.jsNoPanic(c, `(function(){ try { "ab".match(`+lit+`); "ab".search(`+lit+`); return "ok" } catch (e) { return "threw" } })()`)
		}
		h.addLit("regexp", base, c, n, "")
	}
	for _, body := range strBodies {
		for _, q := range []string{"'", "\""} {
			c := &litCheck{flags: []bool{true, true, true, true, true, true, true, true}}
			n, must := 0, ""
			for _, p := range cuts(body) {
				n++
				h.litSource(c, "x = "+q+p+q+";")
				h.litSource(c, "x = {"+q+p+q+": 1}")
				open := h.litSource(c, "x = "+q+p) // never closed: always a SyntaxError
				if open.accepted() && must == "" {
					must = fmt.Sprintf("unterminated string src=%q -> accepted", "x = "+q+p)
				}
				lit := JSStr(Units(q + p + q))
				h.jsNoPanic(c, `(function(){ try { eval(`+lit+`); return "ok" } catch (e) { return "threw" } })()`)
				h.jsNoPanic(c, `(function(){ try { new Function("return " + `+lit+`); return "ok" } catch (e) { return "threw" } })()`)
				h.jsNoPanic(c, `(function(){ try { JSON.parse(`+lit+`); return "ok" } catch (e) { return "threw" } })()`)
			}
			h.addLit("string", q+body+q, c, n, must)
		}
	}
	for _, base := range numLiterals {
		c := &litCheck{flags: []bool{true, true, true, true, true, true, true, true}}
		n, must := 0, ""
		for _, p := range cuts(base) {
			if p == "" {
				continue
			}
			n++
			for _, src := range []string{"x = " + p + ";", "x = " + p, "x = [" + p + "]", "x = {" + p + ": 1}", "x = " + p + ".toString()", p} {
				r := h.litSource(c, src)
				if strings.HasPrefix(src, "x = {") {
					continue // recorded finding C04-illegal-token-key (pinned probes): ILLEGAL tokens are accepted as property keys
				}
				if (p == "0x" || p == "0X" || p == "1e" || p == "1e+" || p == "1e-" || p == "1E+" || p == "0e" || p == "1a" || p == "0x1g") && r.accepted() && must == "" {
					must = fmt.Sprintf("malformed numeric literal src=%q -> accepted", src)
				}
			}
			lit := JSStr(Units(p))
			h.jsNoPanic(c, `(function(){ try { eval(`+lit+`); return "ok" } catch (e) { return "threw" } })()`)
			h.jsNoPanic(c, `(function(){ Number(`+lit+`); parseFloat(`+lit+`); parseInt(`+lit+`); return "ok" })()`)
		}
		h.addLit("number", base, c, n, must)
	}
}

// parser.ParseFunction (the Function constructor's parser): parameters and body that try to close
// the wrapper, truncated bodies, malformed literals — no panic, a function literal or an error,
// and text that is not a FormalParameterList / FunctionBody is rejected (ES5 15.3.2.1)
func (h *harness) parseFunctionStream() {
	type pf struct {
		params, body string
		legal        bool
	}
	cases := []pf{
		{"", "", true}, {"a, b", "return a + b", true}, {"a", "if (a) return 1; else return 2", true}, {"", "// comment", true}, {"a /* c */, b", "return /* c\n */ 1", true},
		{"", "}),(function(){", false}, {"a", "}),(function(){", false}, {"a){}),(function(b", "", false}, {"", "})", false}, {"", "}", false}, {"", "{", false},
		{"", "return 1 })(", false}, {"){", "", false}, {",a", "", false}, {"a,", "", false}, {"a, b,", "return a", false}, {"a //", "return a", true}, {"a // c\n, b", "return b", true}, {"a b", "", false}, {"1", "", false}, {"a", "return '\\x4'", false},
		{"", "x = /(?/", false}, {"", "break", false}, {"", "L: L: ;", false}, {"", "return", true}, {"", "var \\u0076ar", false}, {"", "switch(1){", false},
		{"a /*", "*/ ) { return a", false}, {"", "/*", false}, {"", "'", false}, {"", "\xff", false}, {"class", "", false},
	}
	flags := []bool{true, true, true}
	first, offender := "", ""
	for _, c := range cases {
		var fnOK, errd bool
		pan := guardAny(func() {
			fn, err := parser.ParseFunction(c.params, c.body)
			errd = err != nil
			fnOK = fn != nil
			if fn != nil {
				_ = fn.Idx0()
				_ = fn.Idx1()
			}
		})
		what := fmt.Sprintf("ParseFunction(%q, %q)", c.params, c.body)
		if pan != nil && flags[0] {
			flags[0], first = false, what+fmt.Sprintf(" panics: %v", pan)
		}
		if pan == nil && fnOK == errd && flags[1] {
			flags[1] = false
			if first == "" {
				first = what + " returns neither (or both) a function and an error"
			}
		}
		lit := "new Function(" + JSStr(Units(c.params)) + ", " + JSStr(Units(c.body)) + ")"
		v, _ := h.run(`(function(){ try { ` + lit + `; return "compiled" } catch (e) { return "threw" } })()`)
		if (strings.HasPrefix(v, "!") || (v == "compiled") != c.legal) && utf8.ValidString(c.params+c.body) && flags[2] {
			flags[2] = false
			if first == "" {
				first = lit + " -> " + v
			}
		}
		if pan == nil && !errd != c.legal && offender == "" {
			offender = fmt.Sprintf(" %s accepted=%v, expected %v", what, !errd, c.legal)
		}
	}
	fs := make([]string, len(flags))
	for i, f := range flags {
		fs[i] = Cbool(f)
	}
	h.env.Add("CRobust "+Clist(fs), fmt.Sprintf("parse-function %d parameter/body pairs: no panic, function xor error, Function constructor agrees, flags=%v %s", len(cases), flags, first), "parse-function", true)
	h.env.Add(fmt.Sprintf("CPinned 50 false false %s", Cbool(offender != "")),
		fmt.Sprintf("parse-function verdicts (wrapper-closing text must be rejected, legal pairs accepted)%s", offender), "parse-function", true)
}
