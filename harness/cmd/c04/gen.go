package main

// Generator of ES5 programs as token lists together with their statement skeleton.
// "legal" programs obey every static rule; "wild" programs place break/continue/return/
// labels/try without regard to context (the Coq side decides what ES5 and otto say).

import (
	"math/rand"
	"strings"
)

const (
	tkIdent = iota
	tkNum
	tkStr
	tkRegex
	tkPunct
	tkKeyword
)

type tok struct {
	s     string
	k     int
	noNL  bool // no line terminator allowed before this token (restricted productions)
	optSC bool // a ';' that automatic semicolon insertion may replace
}

type gctx struct {
	inFunc, inIter, inBrk bool
	encl                  []int // labels of enclosing labelled statements
	iterl                 []int // labels of enclosing iteration statements
	pend                  []int
	outer                 []int // labels in scope in the enclosing functions (never legal targets)
}

func (c gctx) plain() gctx { c.pend = nil; return c }

type gen struct {
	r              *rand.Rand
	t              []tok
	wild           bool
	budget         int
	exprE          int // class of expression-level early error to inject once (0 none)
	done           bool
	jumps          bool // only control-flow wrappers and jumps: dense label/jump/function interplay
	oneFault, used bool // legal everywhere except (at most) one jump/label/try placed at random
	cur            gctx // context of the statement being generated (for function expressions)
}

func (g *gen) p(s string)  { g.t = append(g.t, tok{s: s, k: tkPunct}) }
func (g *gen) kw(s string) { g.t = append(g.t, tok{s: s, k: tkKeyword}) }
func (g *gen) id(s string) { g.t = append(g.t, tok{s: s, k: tkIdent}) }
func (g *gen) semi()       { g.t = append(g.t, tok{s: ";", k: tkPunct, optSC: true}) }

var identPool = []string{"a", "b", "c", "x", "y", "foo", "$d", "_e", "é", "q1", "get", "set", "of", "let", "\\u0061b"}
var numPool = []string{"0", "1", "7", "1.5", ".5", "0x1F", "1e3", "2E-2", "010", "9007199254740993", "0.0"}
var strPool = []string{`'s'`, `"t"`, `''`, `"a\nb"`, `'\x41B'`, `"é✓"`, `'it\'s'`, `"\0"`, `'a\
b'`, `"/*"`, `'//'`, "'a\\\u2028b'", "\"a\\\u2029b\"", `'\477\08\400'`, `"\7\77\377"`}
var rePool = []string{`/ab+c/g`, `/[/]/`, `/a\/b/i`, `/^x$/m`, `/\d+/`, `/[^a-z]/gi`, `/(a|b)*/`, `/=/`, `/é/`}
var binOps = []string{"+", "-", "*", "/", "%", "<<", ">>", ">>>", "<", ">", "<=", ">=", "==", "!=", "===", "!==", "&", "|", "^", "&&", "||", "instanceof", "in"}
var asgOps = []string{"=", "+=", "-=", "*=", "/=", "%=", "<<=", ">>=", ">>>=", "&=", "|=", "^="}
var preOps = []string{"typeof", "void", "delete", "!", "~", "-", "+"}
var kwProps = []string{"if", "class", "default", "in", "new", "null", "true", "function"}

func (g *gen) pick(xs []string) string { return xs[g.r.Intn(len(xs))] }

// a reference expression (valid assignment target)
func (g *gen) target(d int, fns *[][]*stm) {
	switch g.r.Intn(4) {
	case 0, 1:
		g.id(g.pick(identPool))
	case 2:
		g.base(d-1, fns)
		g.p(".")
		if g.r.Intn(6) == 0 {
			g.id(g.pick(kwProps))
		} else {
			g.id(g.pick(identPool))
		}
	default:
		g.base(d-1, fns)
		g.p("[")
		g.expr(d-1, false, fns)
		g.p("]")
	}
}

// the object of a member access: `new X` without arguments is parenthesised (otherwise the
// member access would belong to the operand of new)
func (g *gen) base(d int, fns *[][]*stm) {
	start := len(g.t)
	g.primary(d, fns)
	if g.t[start].s == "new" {
		rest := append([]tok{{s: "(", k: tkPunct}}, g.t[start:]...)
		g.t = append(g.t[:start], rest...)
		g.p(")")
	}
}

func (g *gen) args(d int, fns *[][]*stm) {
	g.p("(")
	n := g.r.Intn(3)
	for i := 0; i < n; i++ {
		if i > 0 {
			g.p(",")
		}
		g.assign(d-1, false, fns)
	}
	g.p(")")
}

func (g *gen) funcExpr(d int, fns *[][]*stm) {
	g.kw("function")
	if g.r.Intn(2) == 0 {
		g.id(g.pick(identPool[:9]))
	}
	g.params()
	*fns = append(*fns, g.funcBody(d))
}

func (g *gen) params() {
	g.p("(")
	n := g.r.Intn(3)
	for i := 0; i < n; i++ {
		if i > 0 {
			g.p(",")
		}
		g.id(g.pick(identPool[:9]))
	}
	g.p(")")
}

func (g *gen) funcBody(d int) []*stm {
	g.p("{")
	n := g.r.Intn(3)
	if d <= 0 {
		n = g.r.Intn(2)
	}
	if g.jumps {
		n = g.r.Intn(2) + 1
	}
	body := g.stmts(gctx{inFunc: true, outer: append(append([]int{}, g.cur.outer...), g.cur.encl...)}, d-1, n, true)
	g.p("}")
	return body
}

func (g *gen) primary(d int, fns *[][]*stm) {
	g.budget--
	k := g.r.Intn(16)
	if d <= 0 || g.budget < 0 {
		k = g.r.Intn(6)
	}
	switch k {
	case 0, 1, 2:
		g.id(g.pick(identPool))
	case 3:
		g.t = append(g.t, tok{s: g.pick(numPool), k: tkNum})
	case 4:
		g.t = append(g.t, tok{s: g.pick(strPool), k: tkStr})
	case 5:
		g.kw(g.pick([]string{"this", "null", "true", "false"}))
	case 6:
		g.t = append(g.t, tok{s: g.pick(rePool), k: tkRegex})
	case 7: // array literal with holes
		g.p("[")
		n := g.r.Intn(4)
		for i := 0; i < n; i++ {
			if g.r.Intn(5) == 0 {
				g.p(",")
				continue
			}
			g.assign(d-1, false, fns)
			if i+1 < n || g.r.Intn(4) == 0 {
				g.p(",")
			}
		}
		g.p("]")
	case 8: // object literal
		g.p("{")
		n := g.r.Intn(4)
		for i := 0; i < n; i++ {
			if i > 0 {
				g.p(",")
			}
			switch g.r.Intn(7) {
			case 0:
				g.t = append(g.t, tok{s: g.pick(strPool), k: tkStr})
			case 1:
				g.t = append(g.t, tok{s: g.pick(numPool), k: tkNum})
			case 2:
				g.id(g.pick(kwProps))
			case 3: // accessor
				if g.r.Intn(2) == 0 {
					g.id("get")
					g.id("p" + string(rune('a'+i)))
					g.p("(")
					g.p(")")
				} else {
					g.id("set")
					g.id("p" + string(rune('a'+i)))
					g.p("(")
					g.id("v")
					g.p(")")
				}
				*fns = append(*fns, g.funcBody(d-1))
				continue
			default:
				g.id(g.pick(identPool[:12]))
			}
			g.p(":")
			g.assign(d-1, false, fns)
		}
		if n > 0 && g.r.Intn(5) == 0 {
			g.p(",")
		}
		g.p("}")
	case 9:
		g.funcExpr(d, fns)
	case 10: // parenthesised
		g.p("(")
		g.expr(d-1, false, fns)
		g.p(")")
	case 11: // call
		g.primary(d-1, fns)
		g.args(d, fns)
	case 12: // new
		g.kw("new")
		g.id(g.pick(identPool[:6]))
		if g.r.Intn(3) > 0 {
			g.args(d, fns)
		}
	case 13, 14, 15:
		g.target(d, fns)
	}
}

func (g *gen) unary(d int, fns *[][]*stm) {
	switch g.r.Intn(9) {
	case 0:
		g.t = append(g.t, tok{s: g.pick(preOps), k: tkPunct})
		g.unary(d-1, fns)
	case 1:
		g.p(g.pick([]string{"++", "--"}))
		g.target(d-1, fns)
	case 2:
		g.target(d-1, fns)
		g.t = append(g.t, tok{s: g.pick([]string{"++", "--"}), k: tkPunct, noNL: true})
	default:
		g.primary(d, fns)
	}
}

func (g *gen) binary(d int, noIn bool, fns *[][]*stm) {
	g.unary(d, fns)
	for n := g.r.Intn(3); n > 0 && d > 0; n-- {
		if g.r.Intn(2) == 0 {
			break
		}
		op := g.pick(binOps)
		if op == "in" && noIn {
			op = "<"
		}
		if op == "in" || op == "instanceof" {
			g.kw(op)
		} else {
			g.p(op)
		}
		g.unary(d-1, fns)
	}
}

func (g *gen) assign(d int, noIn bool, fns *[][]*stm) {
	g.budget--
	switch {
	case d > 0 && g.r.Intn(5) == 0:
		g.target(d-1, fns)
		g.p(g.pick(asgOps))
		g.assign(d-1, noIn, fns)
	case d > 0 && g.r.Intn(8) == 0:
		g.binary(d-1, noIn, fns)
		g.p("?")
		g.assign(d-1, false, fns) // ES5 11.12: the middle operand admits `in` even inside a for-initialiser
		g.p(":")
		g.assign(d-1, noIn, fns)
	default:
		g.binary(d, noIn, fns)
	}
}

func (g *gen) expr(d int, noIn bool, fns *[][]*stm) {
	if g.jumps && g.r.Intn(4) > 0 {
		g.id(g.pick(identPool[:6]))
		return
	}
	g.assign(d, noIn, fns)
	if g.r.Intn(8) == 0 {
		g.p(",")
		g.assign(d-1, noIn, fns)
	}
}

// expression-level early errors, by construction (every one is a grammar violation or an
// error ES5 clause 16 requires to be early)
var badExprs = map[int][][]tok{
	1: { // 11.13: the left operand is not a LeftHandSideExpression
		{{s: "a", k: tkIdent}, {s: "+", k: tkPunct}, {s: "b", k: tkIdent}, {s: "=", k: tkPunct}, {s: "c", k: tkIdent}},
		{{s: "-", k: tkPunct}, {s: "a", k: tkIdent}, {s: "=", k: tkPunct}, {s: "1", k: tkNum}},
		{{s: "a", k: tkIdent}, {s: "++", k: tkPunct, noNL: true}, {s: "=", k: tkPunct}, {s: "1", k: tkNum}},
		{{s: "typeof", k: tkPunct}, {s: "a", k: tkIdent}, {s: "+=", k: tkPunct}, {s: "1", k: tkNum}},
		{{s: "x", k: tkIdent}, {s: "=", k: tkPunct}, {s: "b", k: tkIdent}, {s: "*", k: tkPunct}, {s: "c", k: tkIdent}, {s: "=", k: tkPunct}, {s: "d", k: tkIdent}},
		{{s: "a", k: tkIdent}, {s: "&&", k: tkPunct}, {s: "b", k: tkIdent}, {s: "|=", k: tkPunct}, {s: "1", k: tkNum}},
	},
	2: { // 7.6.1: reserved words are not identifiers
		{{s: "class", k: tkKeyword}},
		{{s: "x", k: tkIdent}, {s: "=", k: tkPunct}, {s: "enum", k: tkKeyword}, {s: "+", k: tkPunct}, {s: "1", k: tkNum}},
		{{s: "super", k: tkKeyword}, {s: "=", k: tkPunct}, {s: "1", k: tkNum}},
		{{s: "f", k: tkIdent}, {s: "(", k: tkPunct}, {s: "export", k: tkKeyword}, {s: ")", k: tkPunct}},
		{{s: "x", k: tkIdent}, {s: "=", k: tkPunct}, {s: "const", k: tkKeyword}},
		{{s: "x", k: tkIdent}, {s: "=", k: tkPunct}, {s: "else", k: tkKeyword}},
		{{s: "import", k: tkKeyword}, {s: ".", k: tkPunct}, {s: "y", k: tkIdent}},
	},
	3: { // 7.8.5 / 15.10.1: the pattern does not match the grammar
		{{s: "x", k: tkIdent}, {s: "=", k: tkPunct}, {s: "/(/", k: tkRegex}},
		{{s: "/a{2,1}/", k: tkRegex}, {s: ".", k: tkPunct}, {s: "test", k: tkIdent}, {s: "(", k: tkPunct}, {s: "y", k: tkIdent}, {s: ")", k: tkPunct}},
		{{s: "x", k: tkIdent}, {s: "=", k: tkPunct}, {s: "/+/", k: tkRegex}},
		{{s: "x", k: tkIdent}, {s: "=", k: tkPunct}, {s: "/a**/", k: tkRegex}},
		{{s: "x", k: tkIdent}, {s: "=", k: tkPunct}, {s: "/)/", k: tkRegex}},
	},
	5: { // 7.8: malformed tokens
		{{s: "x", k: tkIdent}, {s: "=", k: tkPunct}, {s: "08", k: tkNum}},
		{{s: "x", k: tkIdent}, {s: "=", k: tkPunct}, {s: "1e", k: tkNum}},
		{{s: "x", k: tkIdent}, {s: "=", k: tkPunct}, {s: "0x", k: tkNum}},
		{{s: "x", k: tkIdent}, {s: "=", k: tkPunct}, {s: "3in", k: tkNum}, {s: "y", k: tkIdent}},
		{{s: "x", k: tkIdent}, {s: "=", k: tkPunct}, {s: "'\\u00g0'", k: tkStr}},
		{{s: "x", k: tkIdent}, {s: "=", k: tkPunct}, {s: "'\\x4'", k: tkStr}},
		{{s: "x", k: tkIdent}, {s: "=", k: tkPunct}, {s: "#", k: tkPunct}},
		{{s: "x", k: tkIdent}, {s: "=", k: tkPunct}, {s: "a", k: tkIdent}, {s: "@", k: tkPunct}, {s: "b", k: tkIdent}},
		{{s: "x", k: tkIdent}, {s: "=", k: tkPunct}, {s: "a\\u0020b", k: tkIdent}},
	},
}

func (g *gen) exprStmtTokens(d int, fns *[][]*stm) int {
	if g.exprE != 0 && !g.done && g.r.Intn(3) == 0 {
		g.done = true
		alts := badExprs[g.exprE]
		g.t = append(g.t, alts[g.r.Intn(len(alts))]...)
		return g.exprE
	}
	start := len(g.t)
	g.expr(d, false, fns)
	if s := g.t[start].s; s == "{" || s == "function" {
		rest := append([]tok{{s: "(", k: tkPunct}}, g.t[start:]...)
		g.t = append(g.t[:start], rest...)
		g.p(")")
	}
	return 0
}

func (g *gen) label(c gctx, legal bool, iter bool) int {
	if legal {
		pool := c.encl
		if iter {
			pool = c.iterl
		}
		if len(pool) == 0 {
			return -1
		}
		return pool[g.r.Intn(len(pool))]
	}
	if g.oneFault { // the single fault: a label of an enclosing function, a label that is no loop's, an unknown label
		var cand []int
		cand = append(cand, c.outer...)
		if iter {
			for _, l := range c.encl {
				if !has(c.iterl, l) {
					cand = append(cand, l)
				}
			}
		}
		for l := 0; l < 6; l++ {
			if !has(c.encl, l) {
				cand = append(cand, l)
				break
			}
		}
		return cand[g.r.Intn(len(cand))]
	}
	// wild: mostly a label that is in scope somewhere (this function or an enclosing one)
	pool := append(append([]int{}, c.encl...), c.outer...)
	if len(pool) > 0 && g.r.Intn(10) < 7 {
		return pool[g.r.Intn(len(pool))]
	}
	return g.r.Intn(4)
}

func lname(l int) string { return "L" + string(rune('0'+l)) }

func has(xs []int, v int) bool {
	for _, x := range xs {
		if x == v {
			return true
		}
	}
	return false
}

func (g *gen) stmts(c gctx, d int, n int, bodyLevel bool) []*stm {
	out := make([]*stm, 0, n)
	for i := 0; i < n; i++ {
		out = append(out, g.stmt(c.plain(), d, bodyLevel))
	}
	return out
}

func (g *gen) block(c gctx, d int) []*stm {
	g.p("{")
	n := g.r.Intn(3)
	if d <= 0 {
		n = g.r.Intn(2)
	}
	l := g.stmts(c, d-1, n, false)
	g.p("}")
	return l
}

// the body of if/loop/with/label: any statement, often a block
func (g *gen) sub(c gctx, d int) *stm {
	if g.r.Intn(2) == 0 {
		return &stm{k: "Block", l: g.block(c.plain(), d)}
	}
	return g.stmt(c, d-1, false)
}

func (g *gen) stmt(c gctx, d int, bodyLevel bool) *stm {
	g.budget--
	g.cur = c
	var fns [][]*stm
	k := g.r.Intn(30)
	if d <= 0 || g.budget < 0 {
		k = g.r.Intn(9)
	}
	if g.jumps {
		if d <= 0 || g.budget < 0 {
			k = []int{5, 5, 6, 6, 7, 0}[g.r.Intn(6)]
		} else {
			k = []int{5, 6, 7, 9, 11, 12, 13, 15, 16, 18, 19, 20, 21, 23, 25, 27, 27}[g.r.Intn(17)]
		}
	}
	legal := !g.wild
	if g.oneFault && !g.used && (k == 5 || k == 6 || k == 7 || (k >= 18 && k <= 22)) && g.r.Intn(2) == 0 {
		legal, g.used = false, true
	}
	switch k {
	case 0, 1, 2, 3:
		e := g.exprStmtTokens(min(d, 3), &fns)
		g.semi()
		return leafWith(&stm{k: "Expr", e: e}, fns)
	case 4:
		g.kw("var")
		n := g.r.Intn(3) + 1
		for i := 0; i < n; i++ {
			if i > 0 {
				g.p(",")
			}
			g.id(g.pick(identPool[:10]))
			if g.r.Intn(2) == 0 {
				g.p("=")
				g.assign(min(d, 2), false, &fns)
			}
		}
		g.semi()
		return leafWith(&stm{k: "Expr"}, fns)
	case 5: // break
		l := -1
		if g.r.Intn(2) == 0 || (g.oneFault && !legal && c.inBrk) {
			l = g.label(c, legal, false)
		}
		if legal && l < 0 && !c.inBrk {
			return g.stmt(c, 0, bodyLevel)
		}
		g.kw("break")
		if l >= 0 {
			g.t = append(g.t, tok{s: lname(l), k: tkIdent, noNL: true})
		}
		g.semi()
		return &stm{k: "Break", label: l}
	case 6: // continue
		l := -1
		if g.r.Intn(2) == 0 || (g.oneFault && !legal && c.inIter) {
			l = g.label(c, legal, true)
		}
		if legal && !c.inIter {
			return g.stmt(c, 0, bodyLevel)
		}
		g.kw("continue")
		if l >= 0 {
			g.t = append(g.t, tok{s: lname(l), k: tkIdent, noNL: true})
		}
		g.semi()
		return &stm{k: "Continue", label: l}
	case 7: // return
		if legal && !c.inFunc {
			return g.stmt(c, 0, bodyLevel)
		}
		g.kw("return")
		if g.r.Intn(2) == 0 {
			start := len(g.t)
			g.expr(min(d, 2), false, &fns)
			g.t[start].noNL = true
		}
		g.semi()
		return leafWith(&stm{k: "Return"}, fns)
	case 8:
		if g.r.Intn(2) == 0 {
			g.p(";")
		} else {
			g.kw("debugger")
			g.semi()
		}
		return &stm{k: "Expr"}
	case 9, 10: // if
		g.kw("if")
		g.p("(")
		g.expr(min(d, 2), false, &fns)
		g.p(")")
		withElse := g.r.Intn(2) == 0
		var a *stm
		if withElse { // a block, so that the else cannot attach to an inner if
			a = &stm{k: "Block", l: g.block(c.plain(), d)}
		} else {
			a = g.sub(c.plain(), d)
		}
		out := &stm{k: "If", a: bodyWith(a, fns)}
		if withElse {
			g.kw("else")
			out.l = []*stm{g.sub(c.plain(), d)}
		}
		return out
	case 11, 12, 13, 14: // loops
		lc := gctx{inFunc: c.inFunc, inIter: true, inBrk: true, encl: c.encl, iterl: append(append([]int{}, c.pend...), c.iterl...)}
		var body *stm
		switch g.r.Intn(5) {
		case 0:
			g.kw("while")
			g.p("(")
			g.expr(min(d, 2), false, &fns)
			g.p(")")
			body = g.sub(lc, d)
		case 1:
			g.kw("do")
			body = g.sub(lc, d)
			g.cur = c
			g.kw("while")
			g.p("(")
			g.expr(min(d, 2), false, &fns)
			g.p(")")
			g.semi()
		case 2, 3:
			g.kw("for")
			g.p("(")
			switch g.r.Intn(4) {
			case 0:
			case 1:
				g.kw("var")
				n := g.r.Intn(2) + 1
				for i := 0; i < n; i++ {
					if i > 0 {
						g.p(",")
					}
					g.id(g.pick(identPool[:9]))
					if g.r.Intn(2) == 0 {
						g.p("=")
						g.assign(min(d, 2), true, &fns)
					}
				}
			default:
				g.expr(min(d, 2), true, &fns)
			}
			g.p(";")
			if g.r.Intn(3) > 0 {
				g.expr(min(d, 2), false, &fns)
			}
			g.p(";")
			if g.r.Intn(3) > 0 {
				g.expr(min(d, 2), false, &fns)
			}
			g.p(")")
			body = g.sub(lc, d)
		default:
			g.kw("for")
			g.p("(")
			if g.r.Intn(2) == 0 {
				g.kw("var")
				g.id(g.pick(identPool[:9]))
			} else {
				g.target(1, &fns)
			}
			g.kw("in")
			g.expr(min(d, 2), false, &fns)
			g.p(")")
			body = g.sub(lc, d)
		}
		return &stm{k: "Loop", a: bodyWith(body, fns)}
	case 15: // block
		return &stm{k: "Block", l: g.block(c.plain(), d)}
	case 16, 17: // switch
		g.kw("switch")
		g.p("(")
		g.expr(min(d, 2), false, &fns)
		g.p(")")
		g.p("{")
		sc := c.plain()
		sc.inBrk = true
		l := fnStms(fns)
		n := g.r.Intn(4)
		if g.oneFault && !g.used && g.r.Intn(2) == 0 {
			n = g.r.Intn(3) + 2
		}
		def := false
		for i := 0; i < n; i++ {
			dup := def && ((g.wild && g.r.Intn(5) == 0) || (g.oneFault && !g.used && g.r.Intn(2) == 0))
			if (!def && g.r.Intn(4) == 0) || dup {
				if dup {
					g.used = true
					l = append(l, &stm{k: "Expr", e: 6})
				}
				def = true
				g.kw("default")
			} else {
				var cf [][]*stm
				g.kw("case")
				g.expr(min(d, 1), false, &cf)
				l = append(l, fnStms(cf)...)
			}
			g.p(":")
			l = append(l, g.stmts(sc, d-1, g.r.Intn(3), false)...)
		}
		g.p("}")
		return &stm{k: "Switch", l: l}
	case 18, 19, 20: // labelled statement
		l := g.r.Intn(4)
		if g.oneFault && !legal && len(c.encl) > 0 {
			l = c.encl[g.r.Intn(len(c.encl))]
		} else if !legal && len(c.encl)+len(c.outer) > 0 && g.r.Intn(3) == 0 {
			pool := append(append([]int{}, c.encl...), c.outer...)
			l = pool[g.r.Intn(len(pool))]
		}
		if legal {
			free := []int{}
			for x := 0; x < 6; x++ {
				if !has(c.encl, x) {
					free = append(free, x)
				}
			}
			l = free[g.r.Intn(len(free))]
		}
		g.id(lname(l))
		g.p(":")
		lc := c
		lc.encl = append(append([]int{}, c.encl...), l)
		lc.pend = append(append([]int{}, c.pend...), l)
		var a *stm
		if g.r.Intn(3) == 0 {
			a = g.stmt(lc, d, false) // directly a loop, another label, ...
		} else {
			a = g.sub(lc, d)
		}
		return &stm{k: "Label", label: l, a: a}
	case 21, 22: // try
		g.kw("try")
		out := &stm{k: "Try"}
		out.l = g.block(c.plain(), d)
		how := g.r.Intn(3)
		if !legal && (g.oneFault || g.r.Intn(4) == 0) {
			how = 3
		}
		if how == 0 || how == 2 {
			g.kw("catch")
			g.p("(")
			g.id(g.pick(identPool[:9]))
			g.p(")")
			out.hc = true
			out.c = g.block(c.plain(), d)
		}
		if how == 1 || how == 2 {
			g.kw("finally")
			out.hf = true
			out.f = g.block(c.plain(), d)
		}
		return out
	case 23, 24: // function declaration (source-element level only)
		if !bodyLevel {
			return g.stmt(c, d, bodyLevel)
		}
		g.kw("function")
		g.id(g.pick(identPool[:9]))
		g.params()
		return &stm{k: "Func", l: g.funcBody(d)}
	case 25: // with
		g.kw("with")
		g.p("(")
		g.expr(min(d, 2), false, &fns)
		g.p(")")
		a := g.sub(c.plain(), d)
		return &stm{k: "With", a: bodyWith(a, fns)}
	case 26: // throw
		g.kw("throw")
		start := len(g.t)
		g.expr(min(d, 2), false, &fns)
		g.t[start].noNL = true
		g.semi()
		return leafWith(&stm{k: "Expr"}, fns)
	case 27: // a function expression called on the spot
		g.p("(")
		g.kw("function")
		g.p("(")
		g.p(")")
		fns = append(fns, g.funcBody(d))
		g.p(")")
		g.p("(")
		g.p(")")
		g.semi()
		return leafWith(&stm{k: "Expr"}, fns)
	default:
		e := g.exprStmtTokens(min(d, 3), &fns)
		g.semi()
		return leafWith(&stm{k: "Expr", e: e}, fns)
	}
}

func min(a, b int) int {
	if a < b {
		return a
	}
	return b
}

func (g *gen) program(n, depth int) []*stm {
	g.budget = 60
	return g.stmts(gctx{}, depth, n, true)
}

var stmtStart = map[string]bool{"var": true, "if": true, "for": true, "while": true, "do": true, "return": true, "break": true,
	"continue": true, "switch": true, "try": true, "throw": true, "function": true, "with": true, "debugger": true}

// text of a token list; fancy: random white space, comments, line terminators, ASI
func render(r *rand.Rand, ts []tok, fancy bool) string {
	var b strings.Builder
	needNL := false
	for i, t := range ts {
		// otto takes an identifier after a regular-expression literal as its flags even across a line
		// terminator (open finding C04-regexp-flags-detached): keep the explicit ';' there
		asiSafe := !(i > 0 && ts[i-1].k == tkRegex)
		if fancy && t.optSC && asiSafe && r.Intn(4) == 0 {
			if i+1 == len(ts) || ts[i+1].s == "}" {
				continue
			}
			nx := ts[i+1]
			if !nx.noNL && (stmtStart[nx.s] || (nx.k == tkIdent && !strings.HasPrefix(nx.s, "\\"))) {
				needNL = true
				continue
			}
		}
		if i > 0 {
			switch {
			case needNL:
				b.WriteString([]string{"\n", "\r\n", " // c\n", "\n\n  ", "\u2028", "\u2029", "\r", "\r  "}[r.Intn(8)])
			case !fancy:
				b.WriteByte(' ')
			case t.noNL:
				b.WriteString([]string{" ", "  ", " /*c*/ ", "\t"}[r.Intn(4)])
			default:
				b.WriteString([]string{" ", " ", " ", " ", "\n", "  ", "\t", " /*c*/ ", " // x\n", "\r\n", " ", "\ufeff ", "\n/* a\n b */ "}[r.Intn(13)])
			}
		}
		needNL = false
		b.WriteString(t.s)
	}
	return b.String()
}
