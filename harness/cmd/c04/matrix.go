package main

// Deterministic streams:
//  - staticMatrix: every composition (depth 1 and 2; a random sample of depth 3 in the thorough
//    tier) of control-flow wrappers around every kind of jump/label/try leaf, and every clause
//    sequence of a switch up to length 4 (duplicate default at every position); the Coq side
//    decides what ES5 and otto's flags say about each;
//  - sourceMapStream: sources whose last line is an inline source-map comment — complete, every
//    truncation, malformed variants — through ParseFile (string and []byte), Run, Compile, eval.

import (
	"encoding/base64"
	"fmt"
	"strings"

	"github.com/robertkrimen/otto"
	. "ottoh/lib"
)

type wrapper struct {
	pre, post string
	mk        func(s *stm) *stm
	topOnly   bool
}

func sx() *stm { return &stm{k: "Expr"} }

var wrappers = []wrapper{
	{"{ ", " }", func(s *stm) *stm { return &stm{k: "Block", l: []*stm{s}} }, false},
	{"if (x) ", "", func(s *stm) *stm { return &stm{k: "If", a: s} }, false},
	{"if (x) ; else ", "", func(s *stm) *stm { return &stm{k: "If", a: sx(), l: []*stm{s}} }, false},
	{"while (x) ", "", func(s *stm) *stm { return &stm{k: "Loop", a: s} }, false},
	{"do ", " while (x);", func(s *stm) *stm { return &stm{k: "Loop", a: s} }, false},
	{"for (;;) ", "", func(s *stm) *stm { return &stm{k: "Loop", a: s} }, false},
	{"for (var k in o) ", "", func(s *stm) *stm { return &stm{k: "Loop", a: s} }, false},
	{"switch (x) { case 1: ", " }", func(s *stm) *stm { return &stm{k: "Switch", l: []*stm{s}} }, false},
	{"switch (x) { case 0: y; default: ", " case 2: z; }", func(s *stm) *stm { return &stm{k: "Switch", l: []*stm{sx(), s, sx()}} }, false},
	{"with (o) ", "", func(s *stm) *stm { return &stm{k: "With", a: s} }, false},
	{"try { ", " } finally { }", func(s *stm) *stm { return &stm{k: "Try", l: []*stm{s}, hf: true} }, false},
	{"try { } catch (e) { ", " }", func(s *stm) *stm { return &stm{k: "Try", hc: true, c: []*stm{s}} }, false},
	{"try { } finally { ", " }", func(s *stm) *stm { return &stm{k: "Try", hf: true, f: []*stm{s}} }, false},
	{"(function () { ", " })();", func(s *stm) *stm { return &stm{k: "Block", l: []*stm{sx(), {k: "FnExpr", l: []*stm{s}}}} }, false},
	{"x = { get p() { ", " } };", func(s *stm) *stm { return &stm{k: "Block", l: []*stm{sx(), {k: "FnExpr", l: []*stm{s}}}} }, false},
	{"function f() { ", " }", func(s *stm) *stm { return &stm{k: "Func", l: []*stm{s}} }, true},
	{"L1: ", "", func(s *stm) *stm { return &stm{k: "Label", label: 1, a: s} }, false},
	{"L2: ", "", func(s *stm) *stm { return &stm{k: "Label", label: 2, a: s} }, false},
}

type leaf struct {
	text string
	mk   func() *stm
}

var leaves = []leaf{
	{"break;", func() *stm { return &stm{k: "Break", label: -1} }},
	{"continue;", func() *stm { return &stm{k: "Continue", label: -1} }},
	{"break L1;", func() *stm { return &stm{k: "Break", label: 1} }},
	{"continue L1;", func() *stm { return &stm{k: "Continue", label: 1} }},
	{"break L2;", func() *stm { return &stm{k: "Break", label: 2} }},
	{"continue L2;", func() *stm { return &stm{k: "Continue", label: 2} }},
	{"return;", func() *stm { return &stm{k: "Return"} }},
	{"L1: ;", func() *stm { return &stm{k: "Label", label: 1, a: sx()} }},
	{"L1: while (x) continue L1;", func() *stm {
		return &stm{k: "Label", label: 1, a: &stm{k: "Loop", a: &stm{k: "Continue", label: 1}}}
	}},
	{"try { }", func() *stm { return &stm{k: "Try"} }},
	{"x;", sx},
}

func (h *harness) staticCase(src string, g []*stm, how string) {
	res := parseGuard(src, 0, nil)
	if res.accepted() {
		obs, ok := skelOf(res.prog)
		o := "None"
		if ok {
			o = "(Some " + coqStms(obs) + ")"
		}
		h.env.Add(fmt.Sprintf("CEarly %s true %s", coqStms(g), o),
			fmt.Sprintf("static-rules %s src=%q accepted; generated %s; otto built %s", how, src, coqStms(g), o), "early:"+how, true)
		return
	}
	h.env.Add(fmt.Sprintf("CEarly %s false None", coqStms(g)),
		fmt.Sprintf("static-rules %s src=%q rejected (%v); generated %s", how, src, res.err, coqStms(g)), "early:"+how, true)
}

func (h *harness) staticMatrix() {
	compose := func(ws []int, lf leaf) (string, *stm) {
		text, s := lf.text, lf.mk()
		for i := len(ws) - 1; i >= 0; i-- {
			w := wrappers[ws[i]]
			text = w.pre + text + w.post
			s = w.mk(s)
		}
		return text, s
	}
	for _, lf := range leaves {
		text, s := compose(nil, lf)
		h.staticCase(text, []*stm{s}, "matrix")
		for a := range wrappers {
			text, s := compose([]int{a}, lf)
			h.staticCase(text, []*stm{s}, "matrix")
			for b := range wrappers {
				if wrappers[b].topOnly {
					continue
				}
				text, s := compose([]int{a, b}, lf)
				h.staticCase(text, []*stm{s}, "matrix")
			}
		}
	}
	if h.env.Tier == "thorough" {
		r := h.env.Rng
		for i := 0; i < 12000; i++ {
			ws := []int{r.Intn(len(wrappers))}
			for d := r.Intn(2) + 2; d > 0; d-- {
				b := r.Intn(len(wrappers))
				for wrappers[b].topOnly {
					b = r.Intn(len(wrappers))
				}
				ws = append(ws, b)
			}
			text, s := compose(ws, leaves[r.Intn(len(leaves))])
			h.staticCase(text, []*stm{s}, "matrix-deep")
		}
	}
	// every clause sequence of a switch up to length 4: c = case, d = default
	for n := 0; n <= 4; n++ {
		for m := 0; m < 1<<n; m++ {
			for _, body := range []string{"", " y; break;"} {
				var b strings.Builder
				b.WriteString("switch (x) {")
				var l []*stm
				seen := false
				for i := 0; i < n; i++ {
					if m>>i&1 == 1 {
						if seen {
							l = append(l, &stm{k: "Expr", e: 6})
						}
						seen = true
						b.WriteString(" default:")
					} else {
						fmt.Fprintf(&b, " case %d:", i)
					}
					b.WriteString(body)
					if body != "" {
						l = append(l, sx(), &stm{k: "Break", label: -1})
					}
				}
				b.WriteString(" }")
				h.staticCase(b.String(), []*stm{{k: "Switch", l: l}}, "switch-clauses")
				h.staticCase("while (x) { "+b.String()+" }", []*stm{{k: "Loop", a: &stm{k: "Block", l: []*stm{{k: "Switch", l: l}}}}}, "switch-clauses")
			}
		}
	}
}

// ---- inline source maps ----

func guardAny(f func()) (pan interface{}) {
	defer func() { pan = recover() }()
	f()
	return nil
}

func (h *harness) sourceMapStream() {
	const prog = "var r = 40 + 2;\nr"
	valid := base64.StdEncoding.EncodeToString([]byte(`{"version":3,"file":"out.js","sources":["a.js"],"names":["r"],"mappings":"AAAA,IAAIA;AACJA"}`))
	head := "//# sourceMappingURL=data:application/json"
	lasts := []string{
		head + ";base64," + valid, head + ";charset=utf-8;base64," + valid, head + "," + valid,
		head, head + ";base64", head + ";base64,", head + ",", head + ",,", head + ";base64,!!!!", head + ";base64,e30=", head + ";base64,bnVsbA==",
		head + ";base64," + base64.StdEncoding.EncodeToString([]byte(`{"version":3`)), head + ";base64," + base64.StdEncoding.EncodeToString([]byte(`[]`)),
		"//# sourceMappingURL=data:text/plain;base64," + valid, "//@ sourceMappingURL=data:application/json;base64," + valid,
		"//# sourceMappingURL=out.js.map", "//# sourceMappingURL=", "//#sourceMappingURL=data:application/json", " " + head, "/*# sourceMappingURL=data:application/json */",
		head + ";base64," + valid + "\n", head + ";base64," + valid + "\r", head + " " + valid,
	}
	for _, last := range lasts {
		flags := []bool{true, true, true, true, true, true}
		first, n := "", 0
		set := func(i int, ok bool, what string) {
			if !ok && flags[i] {
				flags[i] = false
				if first == "" {
					first = fmt.Sprintf(" FIRST-BAD[%d] %s", i, what)
				}
			}
		}
		for _, cut := range cuts(last) {
			for _, src := range []string{prog + "\n" + cut, cut, "x = 1; " + cut} {
				n++
				rs := parseGuardAny(src, 0, nil)
				set(0, rs.pan == nil && !rs.timeout, fmt.Sprintf("ParseFile(string %q) panic=%v timeout=%v", src, rs.pan, rs.timeout))
				rb := parseGuardAny([]byte(src), 0, nil)
				set(1, rb.pan == nil && !rb.timeout && rb.accepted() == rs.accepted(), fmt.Sprintf("ParseFile([]byte %q) panic=%v accepted=%v vs %v", src, rb.pan, rb.accepted(), rs.accepted()))
				// tree, or an error: an undecodable inline map is reported as a plain error without a tree
				set(2, rs.prog != nil || rs.err != nil || rs.pan != nil, fmt.Sprintf("ParseFile(%q) returns neither tree nor error", src))
				v, _ := h.run(src)
				set(3, !strings.HasPrefix(v, "!panic") && v != "!timeout", fmt.Sprintf("Run(%q) -> %s", src, v))
				vm := h.vm
				pan := guardAny(func() { _, _ = vm.Compile("", src) })
				set(4, pan == nil, fmt.Sprintf("Compile(%q) panics: %v", src, pan))
				ev, _ := h.run(`(function(){ try { eval(` + JSStr(Units(src)) + `); return "ok" } catch (e) { return "threw" } })()`)
				set(5, !strings.HasPrefix(ev, "!panic") && ev != "!timeout", fmt.Sprintf("eval(%q) -> %s", src, ev))
			}
		}
		h.vm = otto.New()
		fs := make([]string, len(flags))
		for i, f := range flags {
			fs[i] = Cbool(f)
		}
		h.env.Add("CRobust "+Clist(fs), fmt.Sprintf("source-map-sweep last-line=%q: %d truncations x contexts, flags=%v%s", last, n, flags, first), "sourcemap", true)
	}
}
